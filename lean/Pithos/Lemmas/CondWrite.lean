import Pithos.Model.S3
namespace Pithos.S3

deriving instance DecidableEq for Out

def present (s : State) (b k : String) : Bool :=
  match findBucket s b with
  | some bk => (match latestRow bk k with | some r => !r.dm | none => false)
  | none => false

def Out.isWrote : Out → Bool | .wrote _ _ => true | _ => false

/-- the state after the clock tick every operation starts with -/
def tick (s : State) : State := { s with clock := s.clock + 1 }

/-- "the latest row is a live object" -/
def live : Option Row → Bool
  | some r => !r.dm
  | none => false

/-- the bucket after the conditional-write lock (re-save of the latest row) in `putRow` -/
def lockRow (q : Quirks) (now : Nat) (bk : Bucket) (k : String) (inm : Bool) (im : IfMatch) : Bucket :=
  match latestRow bk k with
  | some r => if inm || im != .none then replaceRow bk (touch q now r) else bk
  | none => bk

/-! ### equation lemmas (the only ones that unfold `step` / `putRow`) -/

theorem findBucket_tick (s : State) (b : String) : findBucket (tick s) b = findBucket s b := rfl

theorem present_eq (s : State) (b k : String) :
    present s b k = match findBucket s b with
      | some bk => live (latestRow bk k)
      | none => false := by
  unfold present live; rfl

theorem present_tick (s : State) (b k : String) : present (tick s) b k = present s b k := rfl

theorem putRow_eq (q : Quirks) (s : State) (bk : Bucket) (k : String) (n : NewObj) (inm : Bool) (im : IfMatch) :
    putRow q s bk k n inm im =
      if !ifMatchOk im (latestRow bk k) then .error .preconditionFailed
      else if inm && live (latestRow bk k) then .error .preconditionFailed
      else if inm && bk.ver != .enabled && (nullRow (lockRow q s.clock bk k inm im) k).isSome then
        .error .preconditionFailed
      else .ok (install q s (lockRow q s.clock bk k inm im) k n) := by
  unfold putRow live lockRow; rfl

theorem step_put_eq (q : Quirks) (s : State) (b k : String) (body : Bytes) (o : WriteOpts) (inm : Bool) (im : IfMatch) :
    step q s (.put b k body o inm im) =
      match findBucket s b with
      | none => (tick s, .err .noSuchBucket)
      | some bk =>
        match putRow q (tick s) bk k { parts := [body], etag := singleETag body, o := o } inm im with
        | .error e => (tick s, .err e)
        | .ok (s', vid) => (s', .wrote vid (singleETag body)) := rfl

theorem step_del_eq (q : Quirks) (s : State) (b k : String) (vid : Option (Option Nat)) (im : IfMatch) :
    step q s (.del b k vid im) =
      match findBucket s b with
      | none => (tick s, .err .noSuchBucket)
      | some bk => deleteOp q (tick s) bk k vid im := rfl

/-- a `complete` either fails leaving only the clock tick, or is a `putRow` into a bucket that has
the rows, name and versioning state of the addressed one -/
theorem step_complete_cases (q : Quirks) (s : State) (b k : String) (uid : Nat) (declared : Option (List Nat))
    (inm : Bool) (im : IfMatch) :
    (∃ e, step q s (.complete b k uid declared inm im) = (tick s, .err e)) ∨
    (∃ bk bk0 n s' vid, findBucket s b = some bk ∧ bk0.name = bk.name ∧ bk0.ver = bk.ver ∧ bk0.rows = bk.rows ∧
      putRow q (tick s) bk0 k n inm im = .ok (s', vid) ∧
      step q s (.complete b k uid declared inm im) = (s', .wrote vid n.etag)) := by
  have hfb : findBucket (tick s) b = findBucket s b := rfl
  simp only [step]
  rw [show ({ s with clock := s.clock + 1 } : State) = tick s from rfl, hfb]
  split
  · exact .inl ⟨_, rfl⟩
  · rename_i bk hbk
    split
    · exact .inl ⟨_, rfl⟩
    · split
      · exact .inl ⟨_, rfl⟩
      · split
        · exact .inl ⟨_, rfl⟩
        · split
          · exact .inl ⟨_, rfl⟩
          · rename_i s' vid hp
            refine .inr ⟨bk, _, _, s', vid, hbk, ?_, ?_, ?_, hp, ?_⟩ <;> rfl


/-- a put either fails leaving only the clock tick, or is a successful `putRow` -/
theorem step_put_cases (q : Quirks) (s : State) (b k : String) (body : Bytes) (o : WriteOpts) (inm : Bool) (im : IfMatch) :
    (∃ e, step q s (.put b k body o inm im) = (tick s, .err e)) ∨
    (∃ bk bk0 n s' vid, findBucket s b = some bk ∧ bk0.name = bk.name ∧ bk0.ver = bk.ver ∧ bk0.rows = bk.rows ∧
      putRow q (tick s) bk0 k n inm im = .ok (s', vid) ∧
      step q s (.put b k body o inm im) = (s', .wrote vid n.etag)) := by
  rw [step_put_eq]
  split
  · exact .inl ⟨_, rfl⟩
  · rename_i bk hbk
    split
    · exact .inl ⟨_, rfl⟩
    · rename_i s' vid hp
      exact .inr ⟨bk, bk, _, s', vid, hbk, rfl, rfl, rfl, hp, rfl⟩

/-! ### `ifMatchOk`, `live` -/

theorem live_eq_true {cur : Option Row} : live cur = true ↔ ∃ r, cur = some r ∧ r.dm = false := by
  cases cur <;> simp [live]

theorem ifMatchOk_none (cur : Option Row) : ifMatchOk .none cur = true := rfl
theorem ifMatchOk_bogus (cur : Option Row) : ifMatchOk .bogus cur = false := rfl
theorem ifMatchOk_star (cur : Option Row) : ifMatchOk .star cur = live cur := by
  cases cur <;> rfl
theorem ifMatchOk_etag {e : ETag} {cur : Option Row} (h : ifMatchOk (.etag e) cur = true) :
    ∃ r, cur = some r ∧ r.dm = false ∧ r.etag = e := by
  cases cur with
  | none => simp [ifMatchOk] at h
  | some r => simpa [ifMatchOk] using h

/-! ### `putRow` -/

section putRow
variable {q : Quirks} {s : State} {bk : Bucket} {k : String} {n : NewObj} {inm : Bool} {im : IfMatch}

theorem putRow_ok_ifMatch {r} (h : putRow q s bk k n inm im = .ok r) : ifMatchOk im (latestRow bk k) = true := by
  rw [putRow_eq] at h
  cases hm : ifMatchOk im (latestRow bk k) <;> simp [hm] at h ⊢

theorem putRow_ok_inm {r} (h : putRow q s bk k n true im = .ok r) : live (latestRow bk k) = false := by
  rw [putRow_eq] at h
  cases hl : live (latestRow bk k) <;> simp [hl] at h ⊢

theorem putRow_ok_install {r} (h : putRow q s bk k n inm im = .ok r) :
    r = install q s (lockRow q s.clock bk k inm im) k n := by
  rw [putRow_eq] at h
  split at h
  · cases h
  · split at h
    · cases h
    · split at h
      · cases h
      · cases h; rfl

theorem putRow_error {e} (h : putRow q s bk k n inm im = .error e) : e = .preconditionFailed := by
  rw [putRow_eq] at h
  split at h
  · cases h; rfl
  · split at h
    · cases h; rfl
    · split at h
      · cases h; rfl
      · cases h
end putRow

/-! ### conditional writes: put and complete together -/

/-- `op` is a put or a complete to `(b,k)` with these condition arguments -/
def IsWrite (b k : String) (inm : Bool) (im : IfMatch) : Op → Prop
  | .put b' k' _ _ inm' im' => b' = b ∧ k' = k ∧ inm' = inm ∧ im' = im
  | .complete b' k' _ _ inm' im' => b' = b ∧ k' = k ∧ inm' = inm ∧ im' = im
  | _ => False

/-- an If-None-Match write to (b,k): a put, or a complete of some upload -/
def IsInmWrite (b k : String) : Op → Prop
  | .put b' k' _ _ inm _ => b' = b ∧ k' = k ∧ inm = true
  | .complete b' k' _ _ inm _ => b' = b ∧ k' = k ∧ inm = true
  | _ => False

theorem isWrite_put (b k : String) (body : Bytes) (o : WriteOpts) (inm : Bool) (im : IfMatch) :
    IsWrite b k inm im (.put b k body o inm im) := ⟨rfl, rfl, rfl, rfl⟩
theorem isWrite_complete (b k : String) (uid : Nat) (declared : Option (List Nat)) (inm : Bool) (im : IfMatch) :
    IsWrite b k inm im (.complete b k uid declared inm im) := ⟨rfl, rfl, rfl, rfl⟩

theorem IsInmWrite.isWrite {b k : String} {op : Op} (h : IsInmWrite b k op) : ∃ im, IsWrite b k true im op := by
  cases op <;> simp [IsInmWrite] at h
  · obtain ⟨rfl, rfl, rfl⟩ := h; exact ⟨_, rfl, rfl, rfl, rfl⟩
  · obtain ⟨rfl, rfl, rfl⟩ := h; exact ⟨_, rfl, rfl, rfl, rfl⟩

/-- a conditional write either fails and leaves only the clock tick, or it is a successful `putRow` into
a bucket with the rows, name and versioning state of the addressed one -/
theorem write_cases {b k : String} {inm : Bool} {im : IfMatch} {op : Op} (hop : IsWrite b k inm im op)
    (q : Quirks) (s : State) :
    (∃ e, step q s op = (tick s, .err e)) ∨
    (∃ bk bk0 n s' vid, findBucket s b = some bk ∧ bk0.name = bk.name ∧ bk0.ver = bk.ver ∧ bk0.rows = bk.rows ∧
      putRow q (tick s) bk0 k n inm im = .ok (s', vid) ∧ step q s op = (s', .wrote vid n.etag)) := by
  cases op <;> simp only [IsWrite] at hop
  · obtain ⟨rfl, rfl, rfl, rfl⟩ := hop; exact step_put_cases ..
  · obtain ⟨rfl, rfl, rfl, rfl⟩ := hop; exact step_complete_cases ..

theorem latestRow_congr {bk0 bk : Bucket} (h : bk0.rows = bk.rows) (k : String) : latestRow bk0 k = latestRow bk k := by
  simp [latestRow, h]

section write
variable {b k : String} {inm : Bool} {im : IfMatch} {op : Op} {q : Quirks} {s : State}

/-- (A) generic -/
theorem write_wrote_ifMatch (hop : IsWrite b k inm im op) {vid et} (h : (step q s op).2 = .wrote vid et) :
    ∃ bk, findBucket s b = some bk ∧ ifMatchOk im (latestRow bk k) = true := by
  rcases write_cases hop q s with ⟨e, he⟩ | ⟨bk, bk0, n, s', v, hbk, _, _, hrows, hp, _⟩
  · rw [he] at h; cases h
  · exact ⟨bk, hbk, latestRow_congr hrows k ▸ putRow_ok_ifMatch hp⟩

/-- (B) generic -/
theorem write_wrote_inm (hop : IsWrite b k true im op) {vid et} (h : (step q s op).2 = .wrote vid et) :
    present s b k = false := by
  rcases write_cases hop q s with ⟨e, he⟩ | ⟨bk, bk0, n, s', v, hbk, _, _, hrows, hp, _⟩
  · rw [he] at h; cases h
  · simp only [present_eq, hbk]; exact latestRow_congr hrows k ▸ putRow_ok_inm hp

/-- (C) generic -/
theorem write_err_state (hop : IsWrite b k inm im op) {e} (h : (step q s op).2 = .err e) :
    (step q s op).1 = tick s := by
  rcases write_cases hop q s with ⟨e, he⟩ | ⟨bk, bk0, n, s', v, _, _, _, _, _, he⟩
  · rw [he]
  · rw [he] at h; cases h

theorem write_out_cases (hop : IsWrite b k inm im op) :
    (∃ e, (step q s op).2 = .err e) ∨ (∃ vid et, (step q s op).2 = .wrote vid et) := by
  rcases write_cases hop q s with ⟨e, he⟩ | ⟨bk, bk0, n, s', v, _, _, _, _, _, he⟩
  · exact .inl ⟨e, by rw [he]⟩
  · exact .inr ⟨_, _, by rw [he]⟩
end write

/-! ### (A) If-Match succeeds only against that ETag -/

theorem put_if_match_spec (q : Quirks) (s : State) (b k : String) (body : Bytes) (o : WriteOpts) (inm : Bool)
    (e : ETag) (vid : Option Nat) (et : ETag)
    (h : (step q s (.put b k body o inm (.etag e))).2 = .wrote vid et) :
    ∃ bk r, findBucket s b = some bk ∧ latestRow bk k = some r ∧ r.dm = false ∧ r.etag = e := by
  obtain ⟨bk, hbk, hm⟩ := write_wrote_ifMatch (isWrite_put ..) h
  obtain ⟨r, hr, hdm, he⟩ := ifMatchOk_etag hm
  exact ⟨bk, r, hbk, hr, hdm, he⟩

theorem complete_if_match_spec (q : Quirks) (s : State) (b k : String) (uid : Nat) (declared : Option (List Nat))
    (inm : Bool) (e : ETag) (vid : Option Nat) (et : ETag)
    (h : (step q s (.complete b k uid declared inm (.etag e))).2 = .wrote vid et) :
    ∃ bk r, findBucket s b = some bk ∧ latestRow bk k = some r ∧ r.dm = false ∧ r.etag = e := by
  obtain ⟨bk, hbk, hm⟩ := write_wrote_ifMatch (isWrite_complete ..) h
  obtain ⟨r, hr, hdm, he⟩ := ifMatchOk_etag hm
  exact ⟨bk, r, hbk, hr, hdm, he⟩

theorem put_if_match_star_spec (q : Quirks) (s : State) (b k : String) (body : Bytes) (o : WriteOpts) (inm : Bool)
    (vid : Option Nat) (et : ETag)
    (h : (step q s (.put b k body o inm .star)).2 = .wrote vid et) : present s b k = true := by
  obtain ⟨bk, hbk, hm⟩ := write_wrote_ifMatch (isWrite_put ..) h
  simp only [present_eq, hbk, ← ifMatchOk_star]; exact hm

theorem complete_if_match_star_spec (q : Quirks) (s : State) (b k : String) (uid : Nat) (declared : Option (List Nat))
    (inm : Bool) (vid : Option Nat) (et : ETag)
    (h : (step q s (.complete b k uid declared inm .star)).2 = .wrote vid et) : present s b k = true := by
  obtain ⟨bk, hbk, hm⟩ := write_wrote_ifMatch (isWrite_complete ..) h
  simp only [present_eq, hbk, ← ifMatchOk_star]; exact hm

theorem put_if_match_bogus_fails (q : Quirks) (s : State) (b k : String) (body : Bytes) (o : WriteOpts) (inm : Bool) :
    (step q s (.put b k body o inm .bogus)).2 = .err .preconditionFailed ∨
    (step q s (.put b k body o inm .bogus)).2 = .err .noSuchBucket := by
  rw [step_put_eq]
  split
  · exact .inr rfl
  · split
    · rename_i e he; rw [putRow_error he]; exact .inl rfl
    · rename_i hp; have := putRow_ok_ifMatch hp; simp [ifMatchOk_bogus] at this

theorem complete_if_match_bogus_fails (q : Quirks) (s : State) (b k : String) (uid : Nat)
    (declared : Option (List Nat)) (inm : Bool) :
    (step q s (.complete b k uid declared inm .bogus)).2.isWrote = false := by
  rcases write_out_cases (q := q) (s := s) (isWrite_complete b k uid declared inm .bogus) with ⟨e, he⟩ | ⟨vid, et, h⟩
  · rw [he]; rfl
  · obtain ⟨bk, _, hm⟩ := write_wrote_ifMatch (isWrite_complete ..) h
    simp [ifMatchOk_bogus] at hm

/-! ### (B) If-None-Match succeeds only on an absent key -/

theorem put_inm_spec (q : Quirks) (s : State) (b k : String) (body : Bytes) (o : WriteOpts) (im : IfMatch)
    (vid : Option Nat) (et : ETag)
    (h : (step q s (.put b k body o true im)).2 = .wrote vid et) : present s b k = false :=
  write_wrote_inm (isWrite_put ..) h

theorem complete_inm_spec (q : Quirks) (s : State) (b k : String) (uid : Nat) (declared : Option (List Nat))
    (im : IfMatch) (vid : Option Nat) (et : ETag)
    (h : (step q s (.complete b k uid declared true im)).2 = .wrote vid et) : present s b k = false :=
  write_wrote_inm (isWrite_complete ..) h

/-! ### (C) failed conditional writes change nothing but the clock -/

theorem put_err_state (q : Quirks) (s : State) (b k : String) (body : Bytes) (o : WriteOpts) (inm : Bool)
    (im : IfMatch) (e : Err) (h : (step q s (.put b k body o inm im)).2 = .err e) :
    (step q s (.put b k body o inm im)).1 = { s with clock := s.clock + 1 } :=
  write_err_state (isWrite_put ..) h

theorem complete_err_state (q : Quirks) (s : State) (b k : String) (uid : Nat) (declared : Option (List Nat))
    (inm : Bool) (im : IfMatch) (e : Err) (h : (step q s (.complete b k uid declared inm im)).2 = .err e) :
    (step q s (.complete b k uid declared inm im)).1 = { s with clock := s.clock + 1 } :=
  write_err_state (isWrite_complete ..) h

/-! ### `deleteOp` and conditional deletes -/

theorem deleteOp_none_deleted_ifMatch {q : Quirks} {s : State} {bk : Bucket} {k : String} {im : IfMatch} {vid dm}
    (h : (deleteOp q s bk k none im).2 = .deleted vid dm) : ifMatchOk im (latestRow bk k) = true := by
  cases him : ifMatchOk im (latestRow bk k)
  · exfalso
    have hne : (im != IfMatch.none) = true := by
      cases im <;> simp_all [ifMatchOk]
    unfold deleteOp at h
    simp only [him, hne] at h
    split at h
    · simp at h
    · simp at h
  · rfl

theorem deleteOp_bogus (q : Quirks) (s : State) (bk : Bucket) (k : String) (vid : Option (Option Nat)) :
    (deleteOp q s bk k vid .bogus).2 = .err .preconditionFailed := by
  unfold deleteOp
  cases vid with
  | none =>
    simp only [ifMatchOk]
    split <;> simp
  | some v =>
    simp only []
    split
    · simp
    · split
      · rename_i h1 _ h2; simp [h2] at h1
      · simp

theorem del_if_match_spec (q : Quirks) (s : State) (b k : String) (e : ETag) (vid : Option (Option Nat)) (dm : Bool)
    (h : (step q s (.del b k none (.etag e))).2 = .deleted vid dm) :
    ∃ bk r, findBucket s b = some bk ∧ latestRow bk k = some r ∧ r.dm = false ∧ r.etag = e := by
  rw [step_del_eq] at h
  split at h
  · cases h
  · rename_i bk hbk
    obtain ⟨r, hr, hdm, he⟩ := ifMatchOk_etag (deleteOp_none_deleted_ifMatch h)
    exact ⟨bk, r, hbk, hr, hdm, he⟩

theorem del_if_match_star_spec (q : Quirks) (s : State) (b k : String) (vid : Option (Option Nat)) (dm : Bool)
    (h : (step q s (.del b k none .star)).2 = .deleted vid dm) : present s b k = true := by
  rw [step_del_eq] at h
  split at h
  · cases h
  · rename_i bk hbk
    simp only [present_eq, hbk, ← ifMatchOk_star]
    exact deleteOp_none_deleted_ifMatch h

theorem del_if_match_bogus_fails (q : Quirks) (s : State) (b k : String) (vid : Option (Option Nat)) :
    (step q s (.del b k vid .bogus)).2 = .err .preconditionFailed ∨
    (step q s (.del b k vid .bogus)).2 = .err .noSuchBucket := by
  rw [step_del_eq]
  split
  · exact .inr rfl
  · exact .inl (deleteOp_bogus ..)

/-! ### non-vacuity: concrete histories (kernel-evaluated) -/

/-- from the empty state: a bucket, then three If-None-Match puts: exactly the first wins -/
example : (run Quirks.code {} [.mkb "b", .put "b" "k" [1] {} true .none, .put "b" "k" [2] {} true .none,
      .put "b" "k" [3] {} true .none]).2
    = [.unit, .wrote none (singleETag [1]), .err .preconditionFailed, .err .preconditionFailed] := by decide

example : (run Quirks.none {} [.mkb "b", .put "b" "k" [1] {} true .none, .put "b" "k" [2] {} true .none,
      .put "b" "k" [3] {} true .none]).2
    = [.unit, .wrote none (singleETag [1]), .err .preconditionFailed, .err .preconditionFailed] := by decide

/-- versioning enabled, a put, a delete (delete marker): the key is absent again, the first of two
If-None-Match puts wins -/
example : (run Quirks.code {} [.mkb "b", .setVer "b" .enabled, .put "b" "k" [1] {} false .none, .del "b" "k" none .none,
      .put "b" "k" [2] {} true .none, .put "b" "k" [3] {} true .none]).2
    = [.unit, .unit, .wrote (some 0) (singleETag [1]), .deleted (some (some 1)) true,
       .wrote (some 2) (singleETag [2]), .err .preconditionFailed] := by decide

/-- If-Match: the right ETag wins, a stale one and `*` on an absent key lose -/
example : (run Quirks.code {} [.mkb "b", .put "b" "k" [1] {} false .star, .put "b" "k" [1] {} false .none,
      .put "b" "k" [2] {} false (.etag (singleETag [1])), .put "b" "k" [3] {} false (.etag (singleETag [1])),
      .del "b" "k" none (.etag (singleETag [1])), .del "b" "k" none (.etag (singleETag [2]))]).2
    = [.unit, .err .preconditionFailed, .wrote none (singleETag [1]), .wrote none (singleETag [2]),
       .err .preconditionFailed, .err .preconditionFailed, .deleted none false] := by decide

/-- the hidden null version (reachable): a null version written before versioning was enabled, a
delete marker on top of it, versioning suspended: the key is absent, yet the If-None-Match put is
refused (`putRow`: `inm && bk.ver != .enabled && (nullRow bk1 k).isSome`) -/
example :
    let r := run Quirks.code {} [.mkb "b", .put "b" "k" [1] {} false .none, .setVer "b" .enabled,
      .del "b" "k" none .none, .setVer "b" .suspended]
    present r.1 "b" "k" = false ∧ (findBucket r.1 "b").isSome = true ∧
    (step Quirks.code r.1 (.put "b" "k" [2] {} true .none)).2 = .err .preconditionFailed := by decide
end Pithos.S3
