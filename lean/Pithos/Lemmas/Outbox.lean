/-
Helper lemmas for C18 (model: Pithos.Model.Outbox). The invariant `Inv` and its preservation by
every step; the property theorems themselves are in Props/C18.lean.
-/
import Pithos.Model.Outbox

namespace Pithos.Outbox

-- ---------------------------------------------------------------- the inner store

theorem Store.get_del_same (m : Store) (id : Nat) : (Store.del m id).get id = none := by
  induction m with
  | nil => rfl
  | cons p m ih =>
    obtain ⟨k, v⟩ := p
    by_cases h : k = id
    · simp [Store.del, List.filter, h]; simpa [Store.del] using ih
    · have : (k != id) = true := by simp [h]
      simp [Store.del, List.filter, this, Store.get, h]; simpa [Store.del] using ih

theorem Store.get_del_other (m : Store) (id id' : Nat) (hne : id ≠ id') :
    (Store.del m id).get id' = m.get id' := by
  induction m with
  | nil => rfl
  | cons p m ih =>
    obtain ⟨k, v⟩ := p
    by_cases h : k = id
    · have hk : k ≠ id' := by omega
      simp [Store.del, List.filter, h, Store.get]
      have : ¬ id = id' := hne
      simp [this]; simpa [Store.del] using ih
    · have : (k != id) = true := by simp [h]
      simp only [Store.del, List.filter, this, Store.get]
      by_cases hk : k = id'
      · simp [hk]
      · simp [hk]; simpa [Store.del] using ih

theorem Store.get_apply (m : Store) (op : POp) (id : Nat) :
    (m.apply op).get id = if op.id = id then op.value else m.get id := by
  cases op with
  | put k b =>
    by_cases h : k = id
    · simp [Store.apply, Store.put, Store.get, POp.id, POp.value, h]
    · simp [Store.apply, Store.put, Store.get, POp.id, h, Store.get_del_other m k id h]
  | del k =>
    by_cases h : k = id
    · subst h; simp [Store.apply, POp.id, POp.value, Store.get_del_same]
    · simp [Store.apply, POp.id, h, Store.get_del_other m k id h]

theorem Store.mem_keys_of_get {m : Store} {id : Nat} (h : (m.get id).isSome) : id ∈ m.keys := by
  induction m with
  | nil => simp [Store.get] at h
  | cons p m ih =>
    obtain ⟨k, v⟩ := p
    by_cases hk : k = id
    · simp [Store.keys, hk]
    · simp [Store.get, hk] at h
      have := ih h
      simp [Store.keys] at this ⊢
      exact Or.inr this

-- ---------------------------------------------------------------- lastFor / view

/-- `GetPart` as a function of the queued operations and the inner store. -/
def view (ops : List POp) (inner : Store) (id : Nat) : Option Bytes :=
  match lastFor ops id with
  | some op => op.value
  | none => inner.get id

theorem getPart_eq_view (s : St) (id : Nat) : getPart s id = view (qops s) s.inner id := rfl

theorem lastFor_append_single (ops : List POp) (op : POp) (id : Nat) :
    lastFor (ops ++ [op]) id = if op.id = id then some op else lastFor ops id := by
  induction ops with
  | nil => simp [lastFor]
  | cons o ops ih =>
    simp only [List.cons_append, lastFor, ih]
    by_cases h : op.id = id
    · simp [h]
    · simp [h]

theorem view_append_single (ops : List POp) (op : POp) (inner : Store) (id : Nat) :
    view (ops ++ [op]) inner id = if op.id = id then op.value else view ops inner id := by
  unfold view
  rw [lastFor_append_single]
  by_cases h : op.id = id <;> simp [h]

theorem view_append (ops new : List POp) (inner S : Store)
    (h : ∀ id, view ops inner id = S.get id) :
    ∀ id, view (ops ++ new) inner id = (new.foldl Store.apply S).get id := by
  induction new generalizing ops S with
  | nil => simpa using h
  | cons op rest ih =>
    intro id
    have h' : ∀ id, view (ops ++ [op]) inner id = (S.apply op).get id := by
      intro id
      rw [view_append_single, Store.get_apply, h]
    have := ih (ops ++ [op]) (S.apply op) h' id
    simpa using this

theorem lastFor_some_of_mem {ops : List POp} {op : POp} (h : op ∈ ops) :
    ∃ o, lastFor ops op.id = some o := by
  induction ops with
  | nil => cases h
  | cons o ops ih =>
    simp only [lastFor]
    cases hl : lastFor ops op.id with
    | some o' => exact ⟨o', rfl⟩
    | none =>
      rcases List.mem_cons.1 h with rfl | h'
      · exact ⟨op, by simp⟩
      · obtain ⟨o', ho'⟩ := ih h'
        rw [hl] at ho'; cases ho'

theorem lastFor_mem {ops : List POp} {id : Nat} {o : POp} (h : lastFor ops id = some o) :
    o ∈ ops ∧ o.id = id := by
  induction ops with
  | nil => simp [lastFor] at h
  | cons p ops ih =>
    simp only [lastFor] at h
    cases hl : lastFor ops id with
    | some o' =>
      rw [hl] at h; cases h
      obtain ⟨hm, hid⟩ := ih hl
      exact ⟨List.mem_cons_of_mem _ hm, hid⟩
    | none =>
      rw [hl] at h
      by_cases hp : p.id = id
      · simp [hp] at h; subst h; exact ⟨List.mem_cons_self, hp⟩
      · simp [hp] at h

/-- Writing the operation of a queued entry to the inner store is invisible to `GetPart`. -/
theorem view_apply_of_mem (ops : List POp) (inner : Store) (op : POp) (h : op ∈ ops) (id : Nat) :
    view ops (inner.apply op) id = view ops inner id := by
  unfold view
  cases hl : lastFor ops id with
  | some o => rfl
  | none =>
    have hne : op.id ≠ id := by
      intro he
      obtain ⟨o, ho⟩ := lastFor_some_of_mem h
      rw [he, hl] at ho; cases ho
    simp [Store.get_apply, hne]

/-- Removing the head entry is invisible to `GetPart` once the inner store holds its effect. -/
theorem view_tail (op : POp) (ops : List POp) (inner : Store)
    (hw : inner.get op.id = op.value) (id : Nat) :
    view ops inner id = view (op :: ops) inner id := by
  unfold view
  simp only [lastFor]
  cases hl : lastFor ops id with
  | some o => rfl
  | none =>
    by_cases h : op.id = id
    · simp [h, ← hw]
    · simp [h]

-- ---------------------------------------------------------------- the table skeleton

/-- What never changes in a row: its id and its operation. -/
def skel (q : List Entry) : List (Nat × POp) := q.map fun e => (e.eid, e.op)

theorem qops_eq_skel (s : St) : qops s = (skel s.queue).map (·.2) := by
  simp [qops, skel, List.map_map, Function.comp_def]

theorem skel_mkEntries_snd (n : Nat) (ops : List POp) : (skel (mkEntries n ops)).map (·.2) = ops := by
  induction ops generalizing n with
  | nil => rfl
  | cons op ops ih => simp [mkEntries, skel] at ih ⊢; exact ih (n + 1)

theorem skel_mkEntries_ge (n : Nat) (ops : List POp) : ∀ p ∈ skel (mkEntries n ops), n ≤ p.1 := by
  induction ops generalizing n with
  | nil => intro p hp; simp [mkEntries, skel] at hp
  | cons op ops ih =>
    intro p hp
    simp only [mkEntries, skel, List.map_cons, List.mem_cons] at hp
    rcases hp with rfl | hp
    · exact Nat.le_refl _
    · have := ih (n + 1) p (by simpa [skel] using hp)
      omega

theorem skel_mkEntries_lt (n : Nat) (ops : List POp) : ∀ p ∈ skel (mkEntries n ops), p.1 < n + ops.length := by
  induction ops generalizing n with
  | nil => intro p hp; simp [mkEntries, skel] at hp
  | cons op ops ih =>
    intro p hp
    simp only [mkEntries, skel, List.map_cons, List.mem_cons] at hp
    rcases hp with rfl | hp
    · simp
    · have := ih (n + 1) p (by simpa [skel] using hp)
      simp only [List.length_cons]; omega

theorem skel_mkEntries_nodup (n : Nat) (ops : List POp) : ((skel (mkEntries n ops)).map (·.1)).Nodup := by
  induction ops generalizing n with
  | nil => simp [mkEntries, skel]
  | cons op ops ih =>
    simp only [mkEntries, skel, List.map_cons, List.nodup_cons]
    refine ⟨?_, by simpa [skel] using ih (n + 1)⟩
    intro hm
    obtain ⟨p, hp, he⟩ := List.mem_map.1 hm
    have := skel_mkEntries_ge (n + 1) ops p (by simpa [skel] using hp)
    omega

theorem skel_updOwned (q : List Entry) (eid : Nat) (o : Owner) (f : Entry → Entry)
    (hf : ∀ e, (f e).eid = e.eid ∧ (f e).op = e.op) : skel (updOwned q eid o f) = skel q := by
  induction q with
  | nil => rfl
  | cons e q ih =>
    simp only [updOwned, skel, List.map_cons] at ih ⊢
    rw [ih]
    by_cases h : e.eid = eid ∧ e.owner = some o
    · simp [h, hf e]
    · simp [h]

-- ---------------------------------------------------------------- the invariant

/-- If some row has this id, it is the first row. -/
def HeadIf (sk : List (Nat × POp)) (eid : Nat) : Prop :=
  (∃ p ∈ sk, p.1 = eid) → (sk.head?).map (·.1) = some eid

/-- What must hold of a worker's private state. -/
def LocOk (sk : List (Nat × POp)) (inner : Store) (n : Nat) : Local → Prop
  | .idle => True
  | .claimed eid _ => eid < n ∧ HeadIf sk eid
  | .ready eid op => eid < n ∧ HeadIf sk eid ∧ ∀ p ∈ sk, p.1 = eid → p.2 = op
  | .written eid => eid < n ∧ HeadIf sk eid ∧ ∀ p ∈ sk, p.1 = eid → inner.get p.2.id = p.2.value
  | .failed _ => True

structure Inv (s : St) : Prop where
  /-- GetPart shows the committed history -/
  viewOk : ∀ id, getPart s id = (committedStore s.committed).get id
  nodup : ((skel s.queue).map (·.1)).Nodup
  fresh : ∀ p ∈ skel s.queue, p.1 < s.nextEid
  locOk : ∀ w, LocOk (skel s.queue) s.inner s.nextEid (s.loc w)

theorem inv_init (l : Nat) : Inv (init l) := by
  refine ⟨?_, ?_, ?_, ?_⟩
  · intro id; rfl
  · simp [init, skel]
  · intro p hp; simp [init, skel] at hp
  · intro w; simp [init, LocOk]

/-- Two rows with the same id in a duplicate-free table are the same row. -/
theorem eq_of_nodup_fst {sk : List (Nat × POp)} (hn : (sk.map (·.1)).Nodup)
    {p q : Nat × POp} (hp : p ∈ sk) (hq : q ∈ sk) (h : p.1 = q.1) : p = q := by
  induction sk with
  | nil => cases hp
  | cons a sk ih =>
    simp only [List.map_cons, List.nodup_cons] at hn
    rcases List.mem_cons.1 hp with rfl | hp' <;> rcases List.mem_cons.1 hq with rfl | hq'
    · rfl
    · exact absurd (List.mem_map.2 ⟨q, hq', h.symm⟩) hn.1
    · exact absurd (List.mem_map.2 ⟨p, hp', h⟩) hn.1
    · exact ih hn.2 hp' hq'

theorem headIf_cons_self (p : Nat × POp) (t : List (Nat × POp)) : HeadIf (p :: t) p.1 := by
  intro _; rfl

theorem head_of_headIf {sk : List (Nat × POp)} (hn : (sk.map (·.1)).Nodup) {eid : Nat}
    (hh : HeadIf sk eid) {p : Nat × POp} (hp : p ∈ sk) (he : p.1 = eid) :
    ∃ t, sk = p :: t := by
  have := hh ⟨p, hp, he⟩
  cases sk with
  | nil => cases hp
  | cons a t =>
    simp only [List.head?_cons, Option.map_some, Option.some.injEq] at this
    have : a = p := eq_of_nodup_fst hn List.mem_cons_self hp (by rw [this, he])
    exact ⟨t, by rw [this]⟩

/-- Appending fresh rows keeps every worker's private state consistent. -/
theorem locOk_append {sk new : List (Nat × POp)} {inner : Store} {n n' : Nat} {l : Local}
    (h : LocOk sk inner n l) (hn : n ≤ n') (hnew : ∀ p ∈ new, n ≤ p.1) :
    LocOk (sk ++ new) inner n' l := by
  have memOld : ∀ eid, eid < n → ∀ p ∈ sk ++ new, p.1 = eid → p ∈ sk := by
    intro eid he p hp hpe
    rcases List.mem_append.1 hp with h1 | h2
    · exact h1
    · have := hnew p h2; omega
  have headIf : ∀ eid, eid < n → HeadIf sk eid → HeadIf (sk ++ new) eid := by
    intro eid he hh ⟨p, hp, hpe⟩
    have hps := memOld eid he p hp hpe
    have := hh ⟨p, hps, hpe⟩
    cases sk with
    | nil => cases hps
    | cons a t => simpa using this
  cases l with
  | idle => trivial
  | failed _ => trivial
  | claimed eid id => exact ⟨by have := h.1; omega, headIf eid h.1 h.2⟩
  | ready eid op =>
    exact ⟨by have := h.1; omega, headIf eid h.1 h.2.1, fun p hp hpe => h.2.2 p (memOld eid h.1 p hp hpe) hpe⟩
  | written eid =>
    exact ⟨by have := h.1; omega, headIf eid h.1 h.2.1, fun p hp hpe => h.2.2 p (memOld eid h.1 p hp hpe) hpe⟩

/-- Deleting the first row keeps every worker's private state consistent. -/
theorem locOk_tail {a : Nat × POp} {t : List (Nat × POp)} {inner : Store} {n : Nat} {l : Local}
    (hn : (((a :: t)).map (·.1)).Nodup) (h : LocOk (a :: t) inner n l) : LocOk t inner n l := by
  have headIf : ∀ eid, HeadIf (a :: t) eid → HeadIf t eid := by
    intro eid hh ⟨p, hp, hpe⟩
    have := hh ⟨p, List.mem_cons_of_mem _ hp, hpe⟩
    simp only [List.head?_cons, Option.map_some, Option.some.injEq] at this
    simp only [List.map_cons, List.nodup_cons] at hn
    exact absurd (List.mem_map.2 ⟨p, hp, by rw [hpe, this]⟩) hn.1
  cases l with
  | idle => trivial
  | failed _ => trivial
  | claimed eid id => exact ⟨h.1, headIf eid h.2⟩
  | ready eid op => exact ⟨h.1, headIf eid h.2.1, fun p hp => h.2.2 p (List.mem_cons_of_mem _ hp)⟩
  | written eid => exact ⟨h.1, headIf eid h.2.1, fun p hp => h.2.2 p (List.mem_cons_of_mem _ hp)⟩

/-- Only `written` looks at the inner store. -/
theorem locOk_inner {sk : List (Nat × POp)} {inner inner' : Store} {n : Nat} {l : Local}
    (h : LocOk sk inner n l)
    (hw : ∀ eid, l = .written eid → ∀ p ∈ sk, p.1 = eid → inner'.get p.2.id = p.2.value) :
    LocOk sk inner' n l := by
  cases l with
  | idle => trivial
  | failed _ => trivial
  | claimed eid id => exact h
  | ready eid op => exact h
  | written eid => exact ⟨h.1, h.2.1, hw eid rfl⟩


-- ---------------------------------------------------------------- preservation, step by step

/-- Steps that leave rows' ids/operations, the inner store, the history and the id counter alone
and give one worker a new private state. -/
theorem inv_same {s s' : St} (h : Inv s) (hsk : skel s'.queue = skel s.queue) (hin : s'.inner = s.inner)
    (hc : s'.committed = s.committed) (hn : s'.nextEid = s.nextEid)
    (hl : ∀ w, LocOk (skel s.queue) s.inner s.nextEid (s'.loc w)) : Inv s' := by
  refine ⟨?_, ?_, ?_, ?_⟩
  · intro id
    rw [getPart_eq_view, qops_eq_skel, hsk, hin, hc, ← qops_eq_skel, ← getPart_eq_view]
    exact h.viewOk id
  · rw [hsk]; exact h.nodup
  · rw [hsk, hn]; exact h.fresh
  · intro w; rw [hsk, hin, hn]; exact hl w

theorem locOk_setLoc {s : St} (h : Inv s) (w : Nat) (l : Local)
    (hl : LocOk (skel s.queue) s.inner s.nextEid l) :
    ∀ w', LocOk (skel s.queue) s.inner s.nextEid ((setLoc s w l).loc w') := by
  intro w'
  simp only [setLoc]
  by_cases hw : w' = w
  · simp [hw]; exact hl
  · simp [hw]; exact h.locOk w'

theorem inv_setLoc {s : St} (h : Inv s) (w : Nat) (l : Local)
    (hl : LocOk (skel s.queue) s.inner s.nextEid l) : Inv (setLoc s w l) :=
  inv_same (s' := setLoc s w l) h rfl rfl rfl rfl (locOk_setLoc h w l hl)

theorem inv_commit (f : Bool) (s : St) (ops : List POp) (h : Inv s) : Inv (step f s (.commit ops)).1 := by
  simp only [step]
  have hsk : skel (s.queue ++ mkEntries s.nextEid ops) = skel s.queue ++ skel (mkEntries s.nextEid ops) := by
    simp [skel]
  refine ⟨?_, ?_, ?_, ?_⟩
  · intro id
    rw [getPart_eq_view, qops_eq_skel]
    simp only [hsk, List.map_append, skel_mkEntries_snd, committedStore, List.foldl_append]
    apply view_append
    intro id
    have := h.viewOk id
    rw [getPart_eq_view, qops_eq_skel] at this
    exact this
  · simp only [hsk, List.map_append]
    refine List.nodup_append.2 ⟨h.nodup, skel_mkEntries_nodup _ _, ?_⟩
    intro a ha b hb hab
    obtain ⟨p, hp, rfl⟩ := List.mem_map.1 ha
    obtain ⟨q, hq, rfl⟩ := List.mem_map.1 hb
    have h1 := h.fresh p hp
    have h2 := skel_mkEntries_ge _ _ q hq
    omega
  · intro p hp
    simp only [hsk] at hp
    rcases List.mem_append.1 hp with h1 | h2
    · have := h.fresh p h1; simp only; omega
    · exact skel_mkEntries_lt _ _ p h2
  · intro w
    simp only [hsk]
    exact locOk_append (h.locOk w) (Nat.le_add_right _ _) (skel_mkEntries_ge _ _)

theorem inv_claim (f : Bool) (s : St) (w : Nat) (h : Inv s) : Inv (step f s (.claim w)).1 := by
  simp only [step]
  cases hl : s.loc w with
  | idle =>
    simp only
    cases hq : s.queue with
    | nil => simpa using h
    | cons e t =>
      simp only
      by_cases hc : e.owner = none ∨ e.until_ ≤ s.now
      · simp only [hc, if_true]
        have hnd := h.nodup
        have hfr := h.fresh
        rw [hq] at hnd hfr
        apply inv_same h
        · simp [setLoc, skel, hq]
        · rfl
        · rfl
        · rfl
        · have hsk : skel s.queue = (e.eid, e.op) :: skel t := by simp [skel, hq]
          have hlt : e.eid < s.nextEid := hfr (e.eid, e.op) (by simp [skel])
          have hhead : HeadIf (skel s.queue) e.eid := by rw [hsk]; exact headIf_cons_self _ _
          intro w'
          simp only [setLoc]
          by_cases hw : w' = w
          · simp only [hw, if_true]
            cases hop : e.op with
            | put id b => exact ⟨hlt, hhead⟩
            | del id =>
              refine ⟨hlt, hhead, ?_⟩
              intro p hp hpe
              have : p = (e.eid, e.op) :=
                eq_of_nodup_fst h.nodup hp (by rw [hsk]; exact List.mem_cons_self) hpe
              rw [this, hop]
          · simp only [hw, if_false]; exact h.locOk w'
      · simp only [hc, if_false]; exact h
  | claimed _ _ => simpa using h
  | ready _ _ => simpa using h
  | written _ => simpa using h
  | failed _ => simpa using h

theorem find_skel {q : List Entry} {eid : Nat} {e : Entry}
    (hf : q.find? (fun e => e.eid == eid) = some e) : (e.eid, e.op) ∈ skel q ∧ e.eid = eid := by
  have hm := List.mem_of_find?_eq_some hf
  have hp := List.find?_some hf
  exact ⟨List.mem_map.2 ⟨e, hm, rfl⟩, by simpa using hp⟩

theorem inv_readChunks (f : Bool) (s : St) (w : Nat) (h : Inv s) : Inv (step f s (.readChunks w)).1 := by
  simp only [step]
  cases hl : s.loc w with
  | claimed eid id =>
    simp only
    have hloc := h.locOk w
    rw [hl] at hloc
    cases hf : s.queue.find? (fun e => e.eid == eid) with
    | some e =>
      simp only
      obtain ⟨hm, he⟩ := find_skel hf
      apply inv_setLoc h
      refine ⟨hloc.1, hloc.2, ?_⟩
      intro p hp hpe
      have : p = (e.eid, e.op) := eq_of_nodup_fst h.nodup hp hm (by rw [hpe, he])
      rw [this]
    | none =>
      simp only
      apply inv_setLoc h
      trivial
  | idle => simpa using h
  | ready _ _ => simpa using h
  | written _ => simpa using h
  | failed _ => simpa using h

theorem queued_iff (s : St) (eid : Nat) : queued s eid = true ↔ ∃ p ∈ skel s.queue, p.1 = eid := by
  simp only [queued, List.any_eq_true, skel, List.mem_map]
  constructor
  · rintro ⟨e, he, hq⟩
    exact ⟨(e.eid, e.op), ⟨e, he, rfl⟩, by simpa using hq⟩
  · rintro ⟨p, ⟨e, he, rfl⟩, hq⟩
    exact ⟨e, he, by simpa using hq⟩

/-- The inner mutation of an entry that is still in the table. -/
theorem inv_innerWrite_queued (s : St) (w eid : Nat) (op : POp) (h : Inv s)
    (hl : s.loc w = .ready eid op) (hq : queued s eid = true) :
    Inv (setLoc { s with inner := s.inner.apply op } w (.written eid)) := by
  have hloc := h.locOk w
  rw [hl] at hloc
  obtain ⟨hlt, hhead, hop⟩ := hloc
  obtain ⟨p, hp, hpe⟩ := (queued_iff s eid).1 hq
  have hp2 : p.2 = op := hop p hp hpe
  obtain ⟨t, ht⟩ := head_of_headIf h.nodup hhead hp hpe
  -- every row a `written` worker refers to is this same first row
  have key : ∀ eid', HeadIf (skel s.queue) eid' → ∀ q ∈ skel s.queue, q.1 = eid' →
      (s.inner.apply op).get q.2.id = q.2.value := by
    intro eid' hh q hq' hqe
    obtain ⟨t', ht'⟩ := head_of_headIf h.nodup hh hq' hqe
    have : q = p := by rw [ht] at ht'; injection ht' with h1 _; exact h1.symm
    rw [this, hp2, Store.get_apply]; simp
  refine ⟨?_, h.nodup, h.fresh, ?_⟩
  · intro id
    have hmem : op ∈ qops s := by
      rw [qops_eq_skel]; exact List.mem_map.2 ⟨p, hp, hp2⟩
    have := view_apply_of_mem (qops s) s.inner op hmem id
    rw [getPart_eq_view]
    simp only [setLoc]
    show view (qops s) (s.inner.apply op) id = _
    rw [this, ← getPart_eq_view]; exact h.viewOk id
  · intro w'
    simp only [setLoc]
    by_cases hw : w' = w
    · simp only [hw, if_true]
      exact ⟨hlt, hhead, key eid hhead⟩
    · simp only [hw, if_false]
      have hw' := h.locOk w'
      apply locOk_inner hw'
      intro eid' he' q hq' hqe
      rw [he'] at hw'
      exact key eid' hw'.2.1 q hq' hqe

theorem inv_innerWrite (f : Bool) (s : St) (w : Nat) (h : Inv s)
    (hs : f = true ∨ staleWrite s (.innerWrite w) = false) : Inv (step f s (.innerWrite w)).1 := by
  simp only [step]
  cases hl : s.loc w with
  | ready eid op =>
    simp only
    by_cases hq : queued s eid = true
    · simp only [hq, Bool.not_true, Bool.and_false, Bool.false_eq_true, if_false]
      exact inv_innerWrite_queued s w eid op h hl hq
    · have hq' : queued s eid = false := by simpa using hq
      rcases hs with hf | hst
      · subst hf
        simp only [hq', Bool.not_false, Bool.and_self, if_true]
        apply inv_setLoc h
        trivial
      · simp [staleWrite, hl, hq'] at hst
  | idle => simpa using h
  | claimed _ _ => simpa using h
  | written _ => simpa using h
  | failed _ => simpa using h

theorem inv_innerFail (f : Bool) (s : St) (w : Nat) (h : Inv s) : Inv (step f s (.innerFail w)).1 := by
  simp only [step]
  cases hl : s.loc w with
  | ready eid op =>
    simp only
    apply inv_setLoc h
    trivial
  | idle => simpa using h
  | claimed _ _ => simpa using h
  | written _ => simpa using h
  | failed _ => simpa using h

theorem filter_keep_tail (t : List Entry) (eid : Nat) (o : Owner)
    (hn : ∀ e ∈ t, e.eid ≠ eid) :
    t.filter (fun e => !decide (e.eid = eid ∧ e.owner = some o)) = t := by
  apply List.filter_eq_self.2
  intro e he
  have := hn e he
  simp [this]

theorem inv_finalize (f : Bool) (s : St) (w : Nat) (h : Inv s) : Inv (step f s (.finalize w)).1 := by
  simp only [step]
  cases hl : s.loc w with
  | written eid =>
    simp only
    have hloc := h.locOk w
    rw [hl] at hloc
    obtain ⟨hlt, hhead, hwr⟩ := hloc
    -- does some row match `id = eid AND claim_owner = me`?
    by_cases hex : ∃ e ∈ s.queue, e.eid = eid ∧ e.owner = some (me s w)
    · obtain ⟨e, he, hee, heo⟩ := hex
      have hp : (e.eid, e.op) ∈ skel s.queue := List.mem_map.2 ⟨e, he, rfl⟩
      obtain ⟨t, ht⟩ := head_of_headIf h.nodup hhead hp hee
      -- the table is e' :: q' with e'.eid = eid; by uniqueness e' = e
      cases hq : s.queue with
      | nil => rw [hq] at he; cases he
      | cons e' q' =>
        have hsk : skel s.queue = (e'.eid, e'.op) :: skel q' := by simp [skel, hq]
        have he' : e'.eid = eid := by
          rw [hsk] at ht; injection ht with h1 _
          have : e'.eid = e.eid := congrArg Prod.fst h1
          omega
        have hnd := h.nodup
        rw [hsk] at hnd
        simp only [List.map_cons, List.nodup_cons] at hnd
        have htail : ∀ x ∈ q', x.eid ≠ eid := by
          intro x hx hxe
          exact hnd.1 (List.mem_map.2 ⟨(x.eid, x.op), List.mem_map.2 ⟨x, hx, rfl⟩, by simp [hxe, he']⟩)
        have heq : e = e' := by
          rw [hq] at he
          rcases List.mem_cons.1 he with h1 | h1
          · exact h1
          · exact absurd hee (htail e h1)
        subst heq
        have hfilter : (e :: q').filter (fun x => !decide (x.eid = eid ∧ x.owner = some (me s w))) = q' := by
          rw [List.filter_cons]
          simp only [hee, heo, and_self, decide_true, Bool.not_true, Bool.false_eq_true, if_false]
          exact filter_keep_tail q' eid (me s w) htail
        rw [hfilter]
        have hwr' : s.inner.get e.op.id = e.op.value := hwr (e.eid, e.op) hp hee
        refine ⟨?_, ?_, ?_, ?_⟩
        · intro id
          have hv := h.viewOk id
          rw [getPart_eq_view, qops_eq_skel, hsk] at hv
          simp only [List.map_cons] at hv
          rw [getPart_eq_view, qops_eq_skel]
          simp only [setLoc]
          rw [view_tail e.op _ s.inner hwr' id]
          exact hv
        · exact hnd.2
        · intro p hp'
          exact h.fresh p (by rw [hsk]; exact List.mem_cons_of_mem _ hp')
        · intro w'
          simp only [setLoc]
          by_cases hw : w' = w
          · simp [hw, LocOk]
          · simp only [hw, if_false]
            have := h.locOk w'
            rw [hsk] at this
            have hnd2 : (((e.eid, e.op) :: skel q').map (·.1)).Nodup := by
              simp only [List.map_cons, List.nodup_cons]; exact hnd
            exact locOk_tail hnd2 this
    · -- nothing matches: the DELETE affects no row
      have hfilter : s.queue.filter (fun x => !decide (x.eid = eid ∧ x.owner = some (me s w))) = s.queue := by
        apply List.filter_eq_self.2
        intro x hx
        have : ¬ (x.eid = eid ∧ x.owner = some (me s w)) := fun hh => hex ⟨x, hx, hh⟩
        simp [this]
      rw [hfilter]
      apply inv_setLoc h
      trivial
  | idle => simpa using h
  | claimed _ _ => simpa using h
  | ready _ _ => simpa using h
  | failed _ => simpa using h

theorem inv_release (f : Bool) (s : St) (w : Nat) (h : Inv s) : Inv (step f s (.release w)).1 := by
  simp only [step]
  cases hl : s.loc w with
  | failed eid =>
    simp only
    apply inv_same h
    · simp only [setLoc]; exact skel_updOwned _ _ _ _ (fun e => ⟨rfl, rfl⟩)
    · rfl
    · rfl
    · rfl
    · intro w'
      simp only [setLoc]
      by_cases hw : w' = w
      · simp [hw, LocOk]
      · simp only [hw, if_false]; exact h.locOk w'
  | idle => simpa using h
  | claimed _ _ => simpa using h
  | ready _ _ => simpa using h
  | written _ => simpa using h

theorem inv_extend (f : Bool) (s : St) (w : Nat) (h : Inv s) : Inv (step f s (.extend w)).1 := by
  simp only [step]
  cases hl : s.loc w with
  | claimed eid id =>
    simp only
    exact inv_same h (skel_updOwned _ _ _ _ (fun e => ⟨rfl, rfl⟩)) rfl rfl rfl h.locOk
  | ready eid op =>
    simp only
    exact inv_same h (skel_updOwned _ _ _ _ (fun e => ⟨rfl, rfl⟩)) rfl rfl rfl h.locOk
  | idle => simpa using h
  | written _ => simpa using h
  | failed _ => simpa using h

theorem inv_crash (f : Bool) (s : St) (w : Nat) (h : Inv s) : Inv (step f s (.crash w)).1 := by
  simp only [step]
  refine inv_same (s' := setLoc { s with gen := fun x => if x = w then s.gen w + 1 else s.gen x } w .idle)
    h rfl rfl rfl rfl ?_
  intro w'
  simp only [setLoc]
  by_cases hw : w' = w
  · simp [hw, LocOk]
  · simp only [hw, if_false]; exact h.locOk w'

/-- **Every step preserves the invariant**, provided the step is not a stale inner mutation
(or the model is the fenced one, where such a mutation is refused). -/
theorem inv_step (f : Bool) (s : St) (st : Step) (h : Inv s)
    (hs : f = true ∨ staleWrite s st = false) : Inv (step f s st).1 := by
  cases st with
  | commit ops => exact inv_commit f s ops h
  | claim w => exact inv_claim f s w h
  | readChunks w => exact inv_readChunks f s w h
  | innerWrite w => exact inv_innerWrite f s w h hs
  | innerFail w => exact inv_innerFail f s w h
  | finalize w => exact inv_finalize f s w h
  | release w => exact inv_release f s w h
  | extend w => exact inv_extend f s w h
  | tick d => exact inv_same (s' := (step f s (.tick d)).1) h rfl rfl rfl rfl h.locOk
  | leaseExpire => exact inv_same (s' := (step f s .leaseExpire).1) h rfl rfl rfl rfl h.locOk
  | crash w => exact inv_crash f s w h

theorem inv_run (f : Bool) (s : St) (steps : List Step) (h : Inv s)
    (hs : f = true ∨ noStaleWrites f s steps = true) : Inv (run f s steps) := by
  induction steps generalizing s with
  | nil => exact h
  | cons st rest ih =>
    simp only [run]
    apply ih
    · apply inv_step f s st h
      rcases hs with hf | hn
      · exact Or.inl hf
      · simp only [noStaleWrites, Bool.and_eq_true, Bool.not_eq_true'] at hn
        exact Or.inr hn.1
    · rcases hs with hf | hn
      · exact Or.inl hf
      · simp only [noStaleWrites, Bool.and_eq_true] at hn
        exact Or.inr hn.2

end Pithos.Outbox
