/-
The seekable reader on an untampered stream (helper for C16): every segment slice the reader cuts out
is exactly the sealed segment, so reading from any plaintext offset delivers the plaintext suffix.
-/
import Pithos.Lemmas.TinkSeek

namespace Pithos.Tink
open Pithos.Codec

/-- What the reader needs from the segment cipher on untampered data. -/
structure AeadOK (A : AEAD) : Prop where
  roundtrip : ∀ k n m, A.openSeg k n (A.sealSeg k n m) = some m
  seal_len : ∀ k n m, (A.sealSeg k n m).length = m.length + tagLen

/-- the sealed segments, one list element per segment -/
def sealedList (A : AEAD) (key : Nat) (pre : Bytes) : Nat → List Bytes → List Bytes
  | _, [] => []
  | j, [s] => [A.sealSeg key ⟨pre, j, true⟩ s]
  | j, s :: t :: rest => A.sealSeg key ⟨pre, j, false⟩ s :: sealedList A key pre (j + 1) (t :: rest)

theorem sealAll_eq (A : AEAD) (key : Nat) (pre : Bytes) : ∀ (segs : List Bytes) (j : Nat),
    sealAll A key pre j segs = (sealedList A key pre j segs).flatten := by
  intro segs
  induction segs with
  | nil => intro j; rfl
  | cons s t ih =>
    intro j
    cases t with
    | nil => simp [sealAll, sealedList]
    | cons t1 t2 => simp [sealAll, sealedList, ih (j + 1)]

theorem sealedList_length (A : AEAD) (key : Nat) (pre : Bytes) : ∀ (segs : List Bytes) (j : Nat),
    (sealedList A key pre j segs).length = segs.length := by
  intro segs
  induction segs with
  | nil => intro j; rfl
  | cons s t ih =>
    intro j
    cases t with
    | nil => rfl
    | cons t1 t2 => simp [sealedList, ih (j + 1)]

theorem sealedList_getD (A : AEAD) (key : Nat) (pre : Bytes) : ∀ (segs : List Bytes) (j i : Nat), i < segs.length →
    (sealedList A key pre j segs).getD i [] = A.sealSeg key ⟨pre, j + i, decide (i + 1 = segs.length)⟩ (segs.getD i []) := by
  intro segs
  induction segs with
  | nil => intro j i hi; simp at hi
  | cons s t ih =>
    intro j i hi
    cases t with
    | nil =>
      have : i = 0 := by simp at hi; omega
      subst this; simp [sealedList]
    | cons t1 t2 =>
      cases i with
      | zero => simp [sealedList]
      | succ i =>
        simp only [sealedList, List.getD_cons_succ]
        rw [ih (j + 1) i (by simpa using hi)]
        simp only [List.length_cons]
        congr 2
        · omega
        · simp

/-- an untampered stream and the reader's view of it -/
structure Honest (A : AEAD) (css key : Nat) (salt pre : Bytes) (keyOf : Bytes → Nat) (segs : List Bytes) : Prop where
  aead : AeadOK A
  css_gt : 56 < css
  lay : SegLayout css segs
  count_lt : segs.length < 4294967296
  salt_len : salt.length = 32
  pre_len : pre.length = 7
  key_ok : keyOf salt = key

def streamOf (A : AEAD) (key : Nat) (salt pre : Bytes) (segs : List Bytes) : Bytes :=
  [40] ++ salt ++ pre ++ sealAll A key pre 0 segs

section
variable {A : AEAD} {css key : Nat} {salt pre : Bytes} {keyOf : Bytes → Nat} {segs : List Bytes}

theorem Honest.k_pos (h : Honest A css key salt pre keyOf segs) : 1 ≤ segs.length :=
  List.length_pos_iff.2 h.lay.ne

theorem streamOf_eq (h : Honest A css key salt pre keyOf segs) :
    streamOf A key salt pre segs = ([40] ++ salt ++ pre) ++ (sealedList A key pre 0 segs).flatten := by
  simp [streamOf, sealAll_eq]

theorem hdr_len (h : Honest A css key salt pre keyOf segs) : ([40] ++ salt ++ pre : Bytes).length = hdrLen := by
  simp [h.salt_len, h.pre_len, hdrLen]

theorem sealed_len (h : Honest A css key salt pre keyOf segs) (i : Nat) (hi : i < segs.length) :
    ((sealedList A key pre 0 segs).getD i []).length = (segs.getD i []).length + tagLen := by
  rw [sealedList_getD A key pre segs 0 i hi, h.aead.seal_len]

/-- bytes of the sealed segments before segment `j` -/
def prefixLen (A : AEAD) (key : Nat) (pre : Bytes) (segs : List Bytes) (j : Nat) : Nat :=
  ((sealedList A key pre 0 segs).take j).flatten.length

theorem prefixLen_succ (A : AEAD) (key : Nat) (pre : Bytes) (segs : List Bytes) (j : Nat) (hj : j < segs.length) :
    prefixLen A key pre segs (j + 1) = prefixLen A key pre segs j + ((sealedList A key pre 0 segs).getD j []).length := by
  unfold prefixLen
  have hl : j < (sealedList A key pre 0 segs).length := by rw [sealedList_length]; exact hj
  rw [List.take_succ, List.flatten_append, List.length_append]
  simp [List.getD_eq_getElem?_getD, List.getElem?_eq_getElem hl]

theorem ctOff_succ (css j : Nat) (h : 56 < css) : ctOff css (j + 1) = ctOff css j + capOf css j + tagLen := by
  unfold ctOff capOf
  cases j with
  | zero => simp [cap0, hdrLen, tagLen]; omega
  | succ j => simp [pss, tagLen, Nat.add_mul]; omega

/-- the reader's ciphertext offset of segment `j` is where segment `j` really begins -/
theorem ctOff_eq (h : Honest A css key salt pre keyOf segs) : ∀ j, j < segs.length →
    ctOff css j = hdrLen + prefixLen A key pre segs j := by
  intro j
  induction j with
  | zero => intro _; simp [ctOff, prefixLen]
  | succ j ih =>
    intro hj
    have hj' : j < segs.length := by omega
    rw [ctOff_succ css j h.css_gt, ih hj', prefixLen_succ A key pre segs j hj', sealed_len h j hj', h.lay.full j hj]
    omega

theorem stream_length (h : Honest A css key salt pre keyOf segs) :
    (streamOf A key salt pre segs).length = ctOff css (segs.length - 1) + (segs.getD (segs.length - 1) []).length + tagLen := by
  have hk := h.k_pos
  rw [streamOf_eq h, List.length_append, hdr_len h, ctOff_eq h (segs.length - 1) (by omega)]
  have : (sealedList A key pre 0 segs).flatten.length = prefixLen A key pre segs segs.length := by
    unfold prefixLen
    rw [List.take_of_length_le (by rw [sealedList_length]; exact Nat.le_refl _)]
  rw [this]
  have hs := prefixLen_succ A key pre segs (segs.length - 1) (by omega)
  rw [show segs.length - 1 + 1 = segs.length by omega] at hs
  rw [hs, sealed_len h _ (by omega)]
  omega

theorem stream_length_eq (h : Honest A css key salt pre keyOf segs) :
    (streamOf A key salt pre segs).length = ctLenOf css segs.length (segs.getD (segs.length - 1) []).length := by
  rw [stream_length h]
  unfold ctLenOf ctOff
  have hk := h.k_pos
  by_cases h1 : segs.length = 1
  · simp [h1]
  · have : segs.length - 1 ≠ 0 := by omega
    simp [h1, this]

/-- the reader's segment count and plaintext length are the true ones -/
theorem honest_geometry (h : Honest A css key salt pre keyOf segs) :
    numSegR css (streamOf A key salt pre segs).length = segs.length ∧
    ptLenR css (streamOf A key salt pre segs).length = ptStart css (segs.length - 1) + (segs.getD (segs.length - 1) []).length := by
  rw [stream_length_eq h]
  have hk := h.k_pos
  refine layout_inverse css segs.length _ h.css_gt hk h.lay.last_le ?_
  by_cases h1 : segs.length = 1
  · exact Or.inl h1
  · exact Or.inr (h.lay.pos_of_multi (by omega) _ (by omega))

/-- the slice the reader cuts out for segment `j` is exactly the sealed segment `j` -/
theorem honest_slice (h : Honest A css key salt pre keyOf segs) (j : Nat) (hj : j < segs.length) :
    ((streamOf A key salt pre segs).drop (ctOff css j)).take (ctLen css (streamOf A key salt pre segs).length j)
      = (sealedList A key pre 0 segs).getD j [] ∧
    tagLen ≤ ctLen css (streamOf A key salt pre segs).length j ∧
    ctLen css (streamOf A key salt pre segs).length j = ((sealedList A key pre 0 segs).getD j []).length := by
  have hk := h.k_pos
  have hcss := h.css_gt
  have hl : j < (sealedList A key pre 0 segs).length := by rw [sealedList_length]; exact hj
  -- the stream from segment j on
  have hdrop : (streamOf A key salt pre segs).drop (ctOff css j)
      = (sealedList A key pre 0 segs).getD j [] ++ ((sealedList A key pre 0 segs).drop (j + 1)).flatten := by
    rw [streamOf_eq h, ctOff_eq h j hj, ← hdr_len h, ← List.drop_drop, List.drop_left]
    have e : (sealedList A key pre 0 segs).flatten
        = ((sealedList A key pre 0 segs).take j).flatten ++ ((sealedList A key pre 0 segs).drop j).flatten := by
      rw [← List.flatten_append, List.take_append_drop]
    rw [e]
    unfold prefixLen
    rw [List.drop_left, List.drop_eq_getElem_cons hl, List.flatten_cons]
    simp [List.getD_eq_getElem?_getD, List.getElem?_eq_getElem hl]
  have hslen := sealed_len h j hj
  -- the reader's slot length is the length of the sealed segment
  have hctlen : ctLen css (streamOf A key salt pre segs).length j = ((sealedList A key pre 0 segs).getD j []).length := by
    rw [hslen]
    by_cases hlast : j + 1 = segs.length
    · -- the last segment: whatever is left
      have hj1 : segs.length - 1 = j := by omega
      rw [stream_length h, hj1]
      have hle := h.lay.last_le
      rw [hj1] at hle
      unfold ctLen ctOff capOf at *
      cases j with
      | zero => simp [cap0, hdrLen, tagLen] at hle ⊢; omega
      | succ j =>
        simp only [Nat.add_one_ne_zero, if_false, pss, tagLen] at hle ⊢
        omega
    · -- a full segment followed by at least one more
      have hfull := h.lay.full j (by omega)
      have hnext : j + 1 < segs.length := by omega
      have hlen2 : ctOff css (j + 1) + tagLen ≤ (streamOf A key salt pre segs).length := by
        rw [stream_length h]
        have hmono : ctOff css (j + 1) ≤ ctOff css (segs.length - 1) := by
          rw [ctOff_eq h (j + 1) hnext, ctOff_eq h (segs.length - 1) (by omega)]
          unfold prefixLen
          have : ((sealedList A key pre 0 segs).take (j + 1)).flatten.length
              ≤ ((sealedList A key pre 0 segs).take (segs.length - 1)).flatten.length := by
            have hsub : (sealedList A key pre 0 segs).take (j + 1)
                = ((sealedList A key pre 0 segs).take (segs.length - 1)).take (j + 1) := by
              rw [List.take_take]; congr 1; omega
            rw [hsub]
            generalize (sealedList A key pre 0 segs).take (segs.length - 1) = L
            have e : L.flatten = (L.take (j + 1)).flatten ++ (L.drop (j + 1)).flatten := by
              rw [← List.flatten_append, List.take_append_drop]
            conv => rhs; rw [e]
            simp
          omega
        omega
      rw [ctOff_succ css j h.css_gt] at hlen2
      rw [hfull]
      unfold ctLen ctOff capOf at *
      cases j with
      | zero => simp [cap0, hdrLen, tagLen] at hlen2 ⊢; have := h.css_gt; omega
      | succ j =>
        simp only [Nat.add_one_ne_zero, if_false, pss, tagLen] at hlen2 ⊢
        have := h.css_gt
        omega
  refine ⟨?_, by rw [hctlen, hslen]; omega, hctlen⟩
  rw [hdrop, hctlen, List.take_left']
  rfl

theorem stream_header (h : Honest A css key salt pre keyOf segs) :
    (streamOf A key salt pre segs).headD 0 = 40 ∧ ((streamOf A key salt pre segs).drop 1).take 32 = salt ∧
    ((streamOf A key salt pre segs).drop 33).take 7 = pre := by
  have e : streamOf A key salt pre segs = [40] ++ (salt ++ (pre ++ sealAll A key pre 0 segs)) := by
    simp [streamOf, List.append_assoc]
  rw [e]
  refine ⟨rfl, ?_, ?_⟩
  · simp only [List.cons_append, List.nil_append, List.drop_succ_cons, List.drop_zero]
    rw [← h.salt_len, List.take_left]
  · have : ([40] ++ (salt ++ (pre ++ sealAll A key pre 0 segs)) : Bytes).drop 33 = pre ++ sealAll A key pre 0 segs := by
      simp only [List.cons_append, List.nil_append, List.drop_succ_cons]
      rw [← h.salt_len, List.drop_left]
    rw [this, ← h.pre_len, List.take_left]

/-- loading segment `j` of an untampered stream yields plaintext segment `j` -/
theorem honest_load (h : Honest A css key salt pre keyOf segs) (j : Nat) (hj : j < segs.length) :
    loadSeg A keyOf css (streamOf A key salt pre segs) j = some (segs.getD j []) := by
  obtain ⟨hsl, hge, hcl⟩ := honest_slice h j hj
  obtain ⟨_, hsalt, hpre⟩ := stream_header h
  have hgeo := (honest_geometry h).1
  unfold loadSeg
  simp only
  rw [if_neg (by omega), if_neg (by have := h.count_lt; omega), hsl]
  have hlen : ¬ ((sealedList A key pre 0 segs).getD j []).length < ctLen css (streamOf A key salt pre segs).length j := by
    omega
  rw [if_neg hlen, hsalt, hpre, h.key_ok, hgeo, sealedList_getD A key pre segs 0 j hj]
  have hflag : (j == segs.length - 1) = decide (j + 1 = segs.length) := by
    have hk := h.k_pos
    by_cases hc : j + 1 = segs.length
    · have : j = segs.length - 1 := by omega
      rw [decide_eq_true hc]
      exact beq_iff_eq.2 this
    · have : ¬ j = segs.length - 1 := by omega
      rw [decide_eq_false hc]
      exact beq_eq_false_iff_ne.2 this
  rw [Nat.zero_add, hflag]
  exact h.aead.roundtrip _ _ _

theorem ptStart_mono (css : Nat) : ∀ (j m : Nat), ptStart css j ≤ ptStart css (j + m) := by
  intro j m
  induction m with
  | zero => exact Nat.le_refl _
  | succ m ih => rw [← Nat.add_assoc, ptStart_succ]; omega

/-- plaintext bytes before segment `j` -/
theorem take_flatten_len (h : Honest A css key salt pre keyOf segs) : ∀ j, j < segs.length →
    (segs.take j).flatten.length = ptStart css j := by
  intro j
  induction j with
  | zero => intro _; simp [ptStart]
  | succ j ih =>
    intro hj
    have hj' : j < segs.length := by omega
    rw [List.take_succ, List.flatten_append, List.length_append, ih hj', ptStart_succ, ← h.lay.full j hj]
    simp [List.getD_eq_getElem?_getD, List.getElem?_eq_getElem hj']

theorem flatten_length (h : Honest A css key salt pre keyOf segs) :
    segs.flatten.length = ptStart css (segs.length - 1) + (segs.getD (segs.length - 1) []).length := by
  have hk := h.k_pos
  have hl : segs.length - 1 < segs.length := by omega
  have e : segs.flatten = (segs.take (segs.length - 1)).flatten ++ (segs.drop (segs.length - 1)).flatten := by
    rw [← List.flatten_append, List.take_append_drop]
  rw [e, List.length_append, take_flatten_len h _ hl, List.drop_eq_getElem_cons hl]
  have : segs.drop (segs.length - 1 + 1) = [] := by
    apply List.drop_eq_nil_iff.2; omega
  simp [this, List.getD_eq_getElem?_getD, List.getElem?_eq_getElem hl]

/-- the plaintext from position `ptStart j + d` on -/
theorem drop_flatten (h : Honest A css key salt pre keyOf segs) (j d : Nat) (hj : j < segs.length)
    (hd : d ≤ (segs.getD j []).length) :
    segs.flatten.drop (ptStart css j + d) = (segs.getD j []).drop d ++ (segs.drop (j + 1)).flatten := by
  have e : segs.flatten = (segs.take j).flatten ++ (segs.drop j).flatten := by
    rw [← List.flatten_append, List.take_append_drop]
  rw [e, ← take_flatten_len h j hj, ← List.drop_drop, List.drop_left, List.drop_eq_getElem_cons hj, List.flatten_cons,
    List.drop_append_of_le_length]
  · simp [List.getD_eq_getElem?_getD, List.getElem?_eq_getElem hj]
  · simpa [List.getD_eq_getElem?_getD, List.getElem?_eq_getElem hj] using hd

theorem readFrom_succ (A : AEAD) (keyOf : Bytes → Nat) (fix : Bool) (css : Nat) (ct : Bytes) (fuel pos : Nat) (acc : Bytes) :
    readFrom A keyOf fix css ct (fuel + 1) pos acc =
      if pos ≥ ptLenR css ct.length then
        (if fix then
          match loadSeg A keyOf css ct (numSegR css ct.length - 1) with
          | some _ => .ok acc
          | none => .err acc
        else .ok acc)
      else
        match loadSeg A keyOf css ct (segFor css pos) with
        | none => .err acc
        | some p =>
          if (p.drop (pos - ptStart css (segFor css pos))).isEmpty then .err acc
          else readFrom A keyOf fix css ct fuel (pos + (p.drop (pos - ptStart css (segFor css pos))).length)
            (acc ++ p.drop (pos - ptStart css (segFor css pos))) := by
  unfold readFrom
  rw [readLoop]
  rfl

/-- reading on from inside segment `j` delivers the rest of segment `j` and all later segments -/
theorem readFrom_honest (h : Honest A css key salt pre keyOf segs) (fix : Bool) :
    ∀ (m j : Nat), j + m + 1 = segs.length → ∀ (d : Nat), d < (segs.getD j []).length →
      ∀ (acc : Bytes) (fuel : Nat), m + 2 ≤ fuel →
      readFrom A keyOf fix css (streamOf A key salt pre segs) fuel (ptStart css j + d) acc
        = .ok (acc ++ (segs.getD j []).drop d ++ (segs.drop (j + 1)).flatten) := by
  have hk := h.k_pos
  obtain ⟨hnum, hpt⟩ := honest_geometry h
  intro m
  induction m with
  | zero =>
    intro j hjm d hd acc fuel hf
    have hj : j < segs.length := by omega
    have hjl : j = segs.length - 1 := by omega
    obtain ⟨f, rfl⟩ : ∃ f, fuel = f + 1 := ⟨fuel - 1, by omega⟩
    obtain ⟨f', rfl⟩ : ∃ f', f = f' + 1 := ⟨f - 1, by omega⟩
    have hle := h.lay.last_le
    rw [← hjl] at hle hpt
    have hseg := segFor_ptStart_add css j d h.css_gt (by omega)
    rw [readFrom_succ, hpt, if_neg (by omega), hseg, honest_load h j hj]
    simp only [Nat.add_sub_cancel_left]
    have hne : ((segs.getD j []).drop d).isEmpty = false := by
      cases hc : (segs.getD j []).drop d with
      | nil => have := congrArg List.length hc; rw [List.length_drop, List.length_nil] at this; omega
      | cons _ _ => rfl
    rw [hne]
    simp only [Bool.false_eq_true, if_false]
    -- the position after the last segment: end of the plaintext
    rw [readFrom_succ, hpt]
    have hend : ptStart css j + (segs.getD j []).length ≤ ptStart css j + d + ((segs.getD j []).drop d).length := by
      rw [List.length_drop]; omega
    rw [if_pos hend]
    have hdrop : segs.drop (j + 1) = [] := List.drop_eq_nil_iff.2 (by omega)
    rw [hdrop]
    cases fix with
    | false => simp
    | true =>
      simp only [if_true, hnum]
      rw [← hjl, honest_load h j hj]
      simp
  | succ m ih =>
    intro j hjm d hd acc fuel hf
    have hj : j < segs.length := by omega
    have hnext : j + 1 < segs.length := by omega
    obtain ⟨f, rfl⟩ : ∃ f, fuel = f + 1 := ⟨fuel - 1, by omega⟩
    have hfull := h.lay.full j hnext
    have hseg := segFor_ptStart_add css j d h.css_gt (by omega)
    have hlt : ptStart css j + d < ptStart css (segs.length - 1) + (segs.getD (segs.length - 1) []).length := by
      have hm := ptStart_mono css (j + 1) (segs.length - 1 - (j + 1))
      rw [show j + 1 + (segs.length - 1 - (j + 1)) = segs.length - 1 by omega, ptStart_succ] at hm
      omega
    rw [readFrom_succ, hpt, if_neg (by omega), hseg, honest_load h j hj]
    simp only [Nat.add_sub_cancel_left]
    have hne : ((segs.getD j []).drop d).isEmpty = false := by
      cases hc : (segs.getD j []).drop d with
      | nil => have := congrArg List.length hc; rw [List.length_drop, List.length_nil] at this; omega
      | cons _ _ => rfl
    rw [hne]
    simp only [Bool.false_eq_true, if_false]
    have hpos : ptStart css j + d + ((segs.getD j []).drop d).length = ptStart css (j + 1) + 0 := by
      rw [List.length_drop, ptStart_succ, ← hfull]; omega
    rw [hpos, ih (j + 1) (by omega) 0 (h.lay.pos_of_multi (by omega) (j + 1) hnext) _ f (by omega)]
    rw [List.drop_eq_getElem_cons hnext, List.flatten_cons]
    simp [List.getD_eq_getElem?_getD, List.getElem?_eq_getElem hnext, List.append_assoc]

theorem honest_len_ge (h : Honest A css key salt pre keyOf segs) :
    hdrLen + tagLen * segs.length ≤ (streamOf A key salt pre segs).length := by
  rw [stream_length_eq h]
  have hk := h.k_pos
  have hcss := h.css_gt
  unfold ctLenOf
  by_cases h1 : segs.length = 1
  · simp [h1, hdrLen, tagLen]
  · have hmul : (segs.length - 1) * 57 ≤ (segs.length - 1) * css := Nat.mul_le_mul_left _ (by omega)
    have hpos := h.lay.pos_of_multi (by omega) (segs.length - 1) (by omega)
    simp only [h1, if_false, hdrLen, tagLen]
    omega

theorem honest_openable (h : Honest A css key salt pre keyOf segs) : openable css (streamOf A key salt pre segs) = true := by
  have hge := honest_len_ge h
  have hk := h.k_pos
  have hcss := h.css_gt
  obtain ⟨hhead, _, _⟩ := stream_header h
  have hnum := (honest_geometry h).1
  unfold openable
  rw [hnum, hhead]
  simp only [hdrLen, tagLen] at hge ⊢
  have c1 : 40 + 16 ≤ (streamOf A key salt pre segs).length := by omega
  have c3 : 40 + 16 < css := by omega
  simp [c1, c3, hge]

/-- Seek(off) + ReadAll on an untampered stream delivers the plaintext from `off` on. -/
theorem seekRead_honest (h : Honest A css key salt pre keyOf segs) (fix : Bool) (off : Nat) :
    seekRead A keyOf fix css (streamOf A key salt pre segs) off = .ok (segs.flatten.drop off) := by
  have hk := h.k_pos
  obtain ⟨hnum, hpt⟩ := honest_geometry h
  have hflen := flatten_length h
  have hge := honest_len_ge h
  unfold seekRead
  rw [honest_openable h]
  simp only [Bool.not_true, Bool.false_eq_true, if_false]
  by_cases hoff : segs.flatten.length ≤ off
  · -- at or behind the end: EOF at once
    rw [readFrom_succ, hpt, if_pos (by omega), List.drop_eq_nil_iff.2 hoff]
    cases fix with
    | false => rfl
    | true =>
      simp only [if_true, hnum]
      rw [honest_load h _ (by omega)]
  · have hlt : off < segs.flatten.length := by omega
    obtain ⟨hlo, hhi⟩ := ptStart_segFor css off h.css_gt
    -- the segment that holds `off` exists …
    have hj : segFor css off < segs.length := by
      rcases Nat.lt_or_ge (segFor css off) segs.length with hh | hh
      · exact hh
      · exfalso
        have hm := ptStart_mono css segs.length (segFor css off - segs.length)
        rw [show segs.length + (segFor css off - segs.length) = segFor css off by omega] at hm
        have hs := ptStart_succ css (segs.length - 1)
        rw [show segs.length - 1 + 1 = segs.length by omega] at hs
        have := h.lay.last_le
        omega
    -- … and `off` lies inside its content
    have hd : off - ptStart css (segFor css off) < (segs.getD (segFor css off) []).length := by
      by_cases hl : segFor css off + 1 = segs.length
      · have : segFor css off = segs.length - 1 := by omega
        rw [this] at hlo ⊢
        omega
      · rw [h.lay.full _ (by omega)]; omega
    have hmain := readFrom_honest h fix (segs.length - 1 - segFor css off) (segFor css off) (by omega)
      (off - ptStart css (segFor css off)) hd [] ((streamOf A key salt pre segs).length + 2)
      (by simp only [hdrLen, tagLen] at hge; omega)
    rw [show ptStart css (segFor css off) + (off - ptStart css (segFor css off)) = off by omega] at hmain
    rw [hmain, List.nil_append]
    have := drop_flatten h (segFor css off) (off - ptStart css (segFor css off)) hj (by omega)
    rw [show ptStart css (segFor css off) + (off - ptStart css (segFor css off)) = off by omega] at this
    rw [this]

end

end Pithos.Tink
