/-
Helper lemmas for C37 (Pithos.Props.C37): how `S3.step` acts on the destination during a migration.
Core Lean only.
-/
import Pithos.Model.Migrator

namespace Pithos.Migrator
open Pithos.S3

def bump (s : State) : State := { s with clock := s.clock + 1 }

def newObj (v : View) : NewObj :=
  { parts := [v.body], etag := singleETag v.body, o := { ct := v.ct, md := v.md, tags := v.tags, cls := v.cls } }

@[simp] theorem findBucket_bump (s : State) (b : String) : findBucket (bump s) b = findBucket s b := rfl

/-- An unconditional put into an existing bucket always succeeds and installs the object. -/
theorem step_put_eq (q : Quirks) (s : State) (b k : String) (v : View) :
    (step q s (putOfView b k v)).1 =
      match findBucket s b with
      | none => bump s
      | some bk => (install q (bump s) bk k (newObj v)).1 := by
  unfold putOfView step stepT newObj
  show _ = match findBucket (bump s) b with | none => _ | some bk => _
  simp only [bump]
  cases h : findBucket { s with clock := s.clock + 1 } b with
  | none => simp
  | some bk =>
    cases hl : latestRow bk k <;> simp [putRow, ifMatchOk, hl]

theorem step_mkb_eq (q : Quirks) (s : State) (b : String) (h : findBucket s b = none) :
    (step q s (.mkb b)).1 = { bump s with buckets := s.buckets ++ [{ name := b }] } := by
  unfold step stepT
  have h' : findBucket { s with clock := s.clock + 1 } b = none := h
  simp [h', bump]

/-! ### findBucket under bucket replacement -/

theorem findBucket_name {s : State} {b : String} {bk : Bucket} (h : findBucket s b = some bk) : bk.name = b := by
  unfold findBucket at h
  have := List.find?_some h
  simpa using this

theorem find_map_other (l : List Bucket) (nm b' : String) (bk' : Bucket) (hn : bk'.name = nm) (hne : b' ≠ nm) :
    (l.map fun x => if x.name == nm then bk' else x).find? (·.name == b') = l.find? (·.name == b') := by
  induction l with
  | nil => rfl
  | cons x xs ih =>
    simp only [List.map_cons, List.find?_cons]
    by_cases hx : x.name = nm
    · have hx' : (x.name == nm) = true := by simp [hx]
      have h1 : (bk'.name == b') = false := by rw [hn]; exact beq_false_of_ne (Ne.symm hne)
      have h2 : (x.name == b') = false := by rw [hx]; exact beq_false_of_ne (Ne.symm hne)
      simp only [hx', if_true, h1, h2]
      exact ih
    · have hx' : (x.name == nm) = false := beq_false_of_ne hx
      simp only [hx', Bool.false_eq_true, if_false]
      rw [ih]

theorem find_map_same (l : List Bucket) (nm : String) (bk' : Bucket) (hn : bk'.name = nm) :
    (l.map fun x => if x.name == nm then bk' else x).find? (·.name == nm) = (l.find? (·.name == nm)).map fun _ => bk' := by
  induction l with
  | nil => rfl
  | cons x xs ih =>
    simp only [List.map_cons, List.find?_cons]
    by_cases hx : x.name = nm
    · have hx' : (x.name == nm) = true := by simp [hx]
      have h1 : (bk'.name == nm) = true := by simp [hn]
      simp only [hx', if_true, h1, Option.map_some]
    · have hx' : (x.name == nm) = false := beq_false_of_ne hx
      simp only [hx', Bool.false_eq_true, if_false]
      exact ih

theorem findBucket_setBucket_other (s : State) (bk' : Bucket) (b' : String) (hne : b' ≠ bk'.name) :
    findBucket (setBucket s bk') b' = findBucket s b' := by
  unfold findBucket setBucket
  exact find_map_other s.buckets bk'.name b' bk' rfl hne

theorem findBucket_setBucket_same (s : State) (bk bk' : Bucket) (b : String) (h : findBucket s b = some bk)
    (hn : bk'.name = b) : findBucket (setBucket s bk') b = some bk' := by
  unfold findBucket setBucket at *
  subst hn
  rw [find_map_same s.buckets bk'.name bk' rfl, h]; rfl

@[simp] theorem addRow_name (bk : Bucket) (r : Row) : (addRow bk r).name = bk.name := rfl
@[simp] theorem replaceRow_name (bk : Bucket) (r : Row) : (replaceRow bk r).name = bk.name := rfl
@[simp] theorem unlatest_name (q : Quirks) (n : Nat) (bk : Bucket) (r : Row) : (unlatest q n bk r).name = bk.name := rfl
@[simp] theorem unlatestCur_name (q : Quirks) (n : Nat) (bk : Bucket) (k : String) : (unlatestCur q n bk k).name = bk.name := by
  unfold unlatestCur; cases latestRow bk k <;> rfl

/-- `install` only touches the bucket it installs into. -/
theorem install_findBucket_other (q : Quirks) (s : State) (bk : Bucket) (k : String) (n : NewObj) (b' : String)
    (hne : b' ≠ bk.name) : findBucket (install q s bk k n).1 b' = findBucket s b' := by
  unfold install
  split
  · show findBucket (setBucket s _) b' = _
    exact findBucket_setBucket_other s _ b' (by simpa using hne)
  · split
    · exact findBucket_setBucket_other s _ b' (by simpa using hne)
    · show findBucket (setBucket s _) b' = _
      exact findBucket_setBucket_other s _ b' (by simpa using hne)

/-- A put leaves every other bucket as it was. -/
theorem step_put_other (q : Quirks) (s : State) (b k : String) (v : View) (b' : String) (hne : b' ≠ b) :
    findBucket (step q s (putOfView b k v)).1 b' = findBucket s b' := by
  rw [step_put_eq]
  cases h : findBucket s b with
  | none => rfl
  | some bk =>
    have hn := findBucket_name h
    simp only
    rw [install_findBucket_other q (bump s) bk k (newObj v) b' (by rw [hn]; exact hne)]
    rfl

/-! ### Creating the missing buckets -/

theorem findBucket_append_new (s : State) (b n : String) :
    findBucket { bump s with buckets := s.buckets ++ [{ name := b }] } n =
      if (findBucket s n).isSome then findBucket s n else if n = b then some { name := b } else none := by
  unfold findBucket
  simp only [List.find?_append]
  cases h : s.buckets.find? (fun x => x.name == n) with
  | some x => simp
  | none =>
    by_cases hn : n = b
    · subst hn; simp [List.find?]
    · have : (b == n) = false := beq_false_of_ne (Ne.symm hn)
      simp [List.find?, this, hn]

/-- After `createMissingBuckets`: what was there stays, every other requested name is a fresh bucket. -/
theorem createMissing_find (q : Quirks) (names : List String) (d : State) (n : String) :
    findBucket (createMissing q d names) n =
      if (findBucket d n).isSome then findBucket d n else if n ∈ names then some { name := n } else none := by
  unfold createMissing
  induction names generalizing d with
  | nil => cases h : findBucket d n <;> simp [h]
  | cons b rest ih =>
    simp only [List.foldl_cons]
    rw [ih]
    cases hb : findBucket d b with
    | some bk =>
      simp only [Option.isSome_some, if_true]
      cases hn : findBucket d n with
      | some x => simp
      | none =>
        have : n ≠ b := by intro h; subst h; rw [hb] at hn; cases hn
        simp [this]
    | none =>
      simp only [Option.isSome_none, Bool.false_eq_true, if_false]
      rw [step_mkb_eq q d b hb, findBucket_append_new]
      cases hn : findBucket d n with
      | some x => simp
      | none =>
        by_cases hnb : n = b
        · subst hnb; simp
        · simp [hnb]

/-! ### Nothing that held objects is written -/

theorem migrateBucket_other (q : Quirks) (P : Params) (b : String) (rows : List Row) (d : State) (b' : String)
    (hne : b' ≠ b) : findBucket (migrateBucket q P d b rows) b' = findBucket d b' := by
  unfold migrateBucket
  induction rows generalizing d with
  | nil => rfl
  | cons r rs ih =>
    simp only [List.foldl_cons]
    rw [ih, step_put_other q d b r.key _ b' hne]

theorem hasCurrent_congr {s t : State} {b : String} (h : findBucket s b = findBucket t b) :
    hasCurrent s b = hasCurrent t b := by
  unfold hasCurrent; rw [h]

theorem cur_congr {s t : State} {b : String} (h : findBucket s b = findBucket t b) (k : String) :
    cur s b k = cur t b k := by
  unfold cur; rw [h]

theorem hasCurrent_of_cur {s : State} {b k : String} {v : View} (h : cur s b k = some v) : hasCurrent s b = true := by
  unfold cur at h
  unfold hasCurrent
  cases hb : findBucket s b with
  | none => rw [hb] at h; cases h
  | some bk =>
    rw [hb] at h
    simp only at h ⊢
    cases hl : latestRow bk k with
    | none => rw [hl] at h; cases h
    | some r =>
      rw [hl] at h
      simp only at h
      by_cases hdm : r.dm = true
      · simp [hdm] at h
      · have hmem : r ∈ bk.rows := List.mem_of_find?_eq_some hl
        have hp := List.find?_some hl
        have hlat : r.latest = true := by
          simp only [Bool.and_eq_true] at hp; exact hp.2
        have : r ∈ currentRows bk := by
          unfold currentRows
          simp [List.mem_filter, hmem, hlat, hdm]
        cases hc : currentRows bk with
        | nil => rw [hc] at this; cases this
        | cons _ _ => rfl

/-! ### Writing into a bucket that only holds plain (null-version, current) objects -/

/-- Unversioned bucket in which every row is the current null version of its key. -/
def Simple (bk : Bucket) : Prop :=
  bk.ver = .off ∧ ∀ r ∈ bk.rows, r.vid = none ∧ r.latest = true ∧ r.dm = false

def kv (r : Row) : String × View := (r.key, viewOfRow r)

theorem find_none_of_keys {rows : List Row} {k : String} (p : Row → Bool) (hk : ∀ r ∈ rows, r.key ≠ k) :
    rows.find? (fun r => r.key == k && p r) = none := by
  rw [List.find?_eq_none]
  intro r hr
  have := hk r hr
  simp [this]

theorem install_fresh (q : Quirks) (s : State) (bk : Bucket) (k : String) (v : View) (hs : Simple bk)
    (hk : ∀ r ∈ bk.rows, r.key ≠ k) :
    (install q s bk k (newObj v)).1 =
      { setBucket s (addRow bk (mkRow s.nextRow k none s.clock s.clock (newObj v))) with nextRow := s.nextRow + 1 } := by
  have hl : latestRow bk k = none := find_none_of_keys (fun r => r.latest) hk
  have hn : nullRow bk k = none := by
    unfold nullRow rowByVid
    exact find_none_of_keys (fun r => r.vid == none) hk
  unfold install
  simp [unlatestCur, hl, hn, hs.1, newObj]

theorem kv_mkRow (rowId : Nat) (k : String) (c n : Nat) (v : View) : kv (mkRow rowId k none c n (newObj v)) = (k, v) := by
  cases v
  simp [kv, mkRow, newObj, viewOfRow, Row.content]

theorem step_put_fresh (q : Quirks) (s : State) (b k : String) (v : View) (bk : Bucket)
    (hb : findBucket s b = some bk) (hs : Simple bk) (hk : ∀ r ∈ bk.rows, r.key ≠ k) :
    ∃ bk', findBucket (step q s (putOfView b k v)).1 b = some bk' ∧ Simple bk' ∧
      bk'.rows.map kv = bk.rows.map kv ++ [(k, v)] := by
  rw [step_put_eq, hb]
  simp only
  rw [install_fresh q (bump s) bk k v hs hk]
  refine ⟨addRow bk (mkRow (bump s).nextRow k none (bump s).clock (bump s).clock (newObj v)), ?_, ?_, ?_⟩
  · have := findBucket_setBucket_same (bump s) bk (addRow bk (mkRow (bump s).nextRow k none (bump s).clock (bump s).clock (newObj v))) b
      (by simpa using hb) (by simpa using findBucket_name hb)
    exact this
  · refine ⟨hs.1, ?_⟩
    intro r hr
    simp only [addRow, List.mem_append, List.mem_singleton] at hr
    rcases hr with hr | rfl
    · exact hs.2 r hr
    · simp [mkRow]
  · simp [addRow, kv_mkRow]

theorem keys_of_kv (rows : List Row) : rows.map (·.key) = (rows.map kv).map (·.1) := by
  simp [kv, Function.comp_def]

theorem migrateBucket_spec (q : Quirks) (P : Params) (b : String) (rows : List Row) (d : State) (bk : Bucket)
    (hb : findBucket d b = some bk) (hs : Simple bk) (hnd : (rows.map (·.key)).Nodup)
    (hdis : ∀ r ∈ rows, ∀ r' ∈ bk.rows, r'.key ≠ r.key) :
    ∃ bk', findBucket (migrateBucket q P d b rows) b = some bk' ∧ Simple bk' ∧
      bk'.rows.map kv = bk.rows.map kv ++ rows.map (fun r => (r.key, carry P (viewOfRow r))) := by
  unfold migrateBucket
  induction rows generalizing d bk with
  | nil => exact ⟨bk, hb, hs, by simp⟩
  | cons r rs ih =>
    simp only [List.foldl_cons]
    obtain ⟨bk1, hb1, hs1, hrows1⟩ := step_put_fresh q d b r.key (carry P (viewOfRow r)) bk hb hs
      (fun r' hr' => hdis r (by simp) r' hr')
    have hnd0 : r.key ∉ rs.map (·.key) ∧ (rs.map (·.key)).Nodup := by
      have : (r.key :: rs.map (·.key)).Nodup := hnd
      exact List.nodup_cons.1 this
    have hnd' : (rs.map (·.key)).Nodup := hnd0.2
    have hrnot : ∀ r2 ∈ rs, r2.key ≠ r.key := by
      intro r2 h2 heq
      exact hnd0.1 (by rw [← heq]; exact List.mem_map_of_mem h2)
    have hdis' : ∀ r2 ∈ rs, ∀ r' ∈ bk1.rows, r'.key ≠ r2.key := by
      intro r2 h2 r' hr'
      have hk' : r'.key ∈ bk1.rows.map (·.key) := List.mem_map_of_mem hr'
      rw [keys_of_kv, hrows1] at hk'
      simp only [List.map_append, List.map_cons, List.map_nil, List.mem_append, List.mem_singleton, ← keys_of_kv] at hk'
      rcases hk' with hk' | hk'
      · obtain ⟨r0, hr0, hr0k⟩ := List.mem_map.1 hk'
        rw [← hr0k]; exact hdis r2 (by simp [h2]) r0 hr0
      · rw [hk']; exact (hrnot r2 h2).symm
    obtain ⟨bk2, hb2, hs2, hrows2⟩ := ih _ bk1 hb1 hs1 hnd' hdis'
    exact ⟨bk2, hb2, hs2, by rw [hrows2, hrows1]; simp⟩

/-- In a `Simple` bucket the current object of a key is the first row with that key. -/
theorem cur_simple (s : State) (b k : String) (bk : Bucket) (hb : findBucket s b = some bk) (hs : Simple bk) :
    cur s b k = ((bk.rows.map kv).find? (·.1 == k)).map (·.2) := by
  unfold cur
  rw [hb]
  simp only
  have hrows := hs.2
  unfold latestRow
  generalize bk.rows = rows at hrows
  induction rows with
  | nil => rfl
  | cons r rs ih =>
    have hr := hrows r (by simp)
    simp only [List.find?_cons, List.map_cons]
    by_cases hk : r.key = k
    · have h1 : (r.key == k) = true := by simp [hk]
      have h2 : ((kv r).1 == k) = true := by simp [kv, hk]
      simp [h1, hr.2.1, hr.2.2, kv]
    · have h1 : (r.key == k) = false := beq_false_of_ne hk
      have h2 : ((kv r).1 == k) = false := by simp [kv, hk]
      simp only [h1, h2, Bool.false_and]
      exact ih (fun r' hr' => hrows r' (by simp [hr']))

/-! ### The source side -/

/-- At most one row per key carries the latest flag. -/
def LatestUnique (bk : Bucket) : Prop := ((bk.rows.filter (·.latest)).map (·.key)).Nodup

theorem findBucket_of_mem (s : State) (bk : Bucket) (hn : (s.buckets.map (·.name)).Nodup) (hm : bk ∈ s.buckets) :
    findBucket s bk.name = some bk := by
  unfold findBucket
  generalize s.buckets = l at hn hm
  induction l with
  | nil => cases hm
  | cons x xs ih =>
    have hnd : x.name ∉ xs.map (·.name) ∧ (xs.map (·.name)).Nodup := List.nodup_cons.1 hn
    simp only [List.find?_cons]
    rcases List.mem_cons.1 hm with rfl | hm'
    · simp
    · have hne : x.name ≠ bk.name := fun h => hnd.1 (by rw [h]; exact List.mem_map_of_mem hm')
      have : (x.name == bk.name) = false := beq_false_of_ne hne
      simp only [this]
      exact ih hnd.2 hm'

theorem currentKeys_nodup (rows : List Row) (h : ((rows.filter (·.latest)).map (·.key)).Nodup) :
    ((rows.filter fun r => r.latest && !r.dm).map (·.key)).Nodup := by
  induction rows with
  | nil => simp
  | cons r rs ih =>
    cases hl : r.latest with
    | false =>
      have h' : ((rs.filter (·.latest)).map (·.key)).Nodup := by simpa [List.filter_cons, hl] using h
      simpa [List.filter_cons, hl] using ih h'
    | true =>
      have h0 : (r.key :: (rs.filter (·.latest)).map (·.key)).Nodup := by simpa [List.filter_cons, hl] using h
      have h1 := List.nodup_cons.1 h0
      cases hd : r.dm with
      | true => simpa [List.filter_cons, hl, hd] using ih h1.2
      | false =>
        have : (r.key :: (rs.filter fun r => r.latest && !r.dm).map (·.key)).Nodup := by
          refine List.nodup_cons.2 ⟨?_, ih h1.2⟩
          intro hmem
          apply h1.1
          obtain ⟨r', hr', hk⟩ := List.mem_map.1 hmem
          have hr'' := List.mem_filter.1 hr'
          have hlat : r'.latest = true := by
            have := hr''.2; simp only [Bool.and_eq_true] at this; exact this.1
          exact List.mem_map.2 ⟨r', List.mem_filter.2 ⟨hr''.1, hlat⟩, hk⟩
        simpa [List.filter_cons, hl, hd] using this

/-- With at most one latest row per key, the current object of a key is the entry of the listing. -/
theorem cur_source (s : State) (bk : Bucket) (k : String) (hb : findBucket s bk.name = some bk) (hu : LatestUnique bk) :
    cur s bk.name k = (((currentRows bk).map kv).find? (·.1 == k)).map (·.2) := by
  unfold cur
  rw [hb]
  simp only
  unfold latestRow currentRows LatestUnique at *
  generalize bk.rows = rows at hu
  induction rows with
  | nil => rfl
  | cons r rs ih =>
    simp only [List.find?_cons]
    cases hl : r.latest with
    | false =>
      have hu' : ((rs.filter (·.latest)).map (·.key)).Nodup := by simpa [List.filter_cons, hl] using hu
      simp only [Bool.and_false, List.filter_cons, hl, Bool.false_and, Bool.false_eq_true, if_false]
      exact ih hu'
    | true =>
      have h0 : (r.key :: (rs.filter (·.latest)).map (·.key)).Nodup := by simpa [List.filter_cons, hl] using hu
      have h1 := List.nodup_cons.1 h0
      by_cases hk : r.key = k
      · have hk' : (r.key == k) = true := by simp [hk]
        simp only [hk', Bool.and_true]
        cases hd : r.dm with
        | true =>
          -- a delete marker is current: no other latest row has this key
          simp only [List.filter_cons, hl, hd, Bool.not_true, Bool.and_false, Bool.false_eq_true, if_false, if_true]
          symm
          have : ((rs.filter fun r => r.latest && !r.dm).map kv).find? (·.1 == k) = none := by
            rw [List.find?_eq_none]
            intro p hp
            obtain ⟨r', hr', rfl⟩ := List.mem_map.1 hp
            have hr'' := List.mem_filter.1 hr'
            have hlat : r'.latest = true := by
              have := hr''.2; simp only [Bool.and_eq_true] at this; exact this.1
            have hne : r'.key ≠ k := by
              intro h
              apply h1.1
              rw [hk, ← h]
              exact List.mem_map.2 ⟨r', List.mem_filter.2 ⟨hr''.1, hlat⟩, rfl⟩
            simp [kv, hne]
          rw [this]; rfl
        | false =>
          simp [hl, hd, kv, hk]
      · have hk' : (r.key == k) = false := beq_false_of_ne hk
        simp only [hk', Bool.false_and]
        rw [ih h1.2]
        cases hd : r.dm with
        | true => simp [hl, hd]
        | false => simp [hl, hd, kv, hk]

theorem find_carry (f : View → View) (rows : List Row) (k : String) :
    ((rows.map fun r => (r.key, f (viewOfRow r))).find? (·.1 == k)).map (·.2) =
      (((rows.map kv).find? (·.1 == k)).map (·.2)).map f := by
  induction rows with
  | nil => rfl
  | cons r rs ih =>
    simp only [List.map_cons, List.find?_cons, kv]
    by_cases hk : r.key = k
    · simp [hk]
    · have : (r.key == k) = false := beq_false_of_ne hk
      simp only [this]
      exact ih

/-- Metadata arrives unchanged when every entry's attribute is carried and its `Expires` (if any)
survives the conversion. -/
theorem carryMd_id (P : Params) (md : Pairs) (hc : ∀ p ∈ md, P.carried.contains (fieldOfMdKey p.1) = true)
    (hex : ∀ p ∈ md, p.1 = "!ex" → P.ex p.2 = some p.2) : carryMd P md = md := by
  unfold carryMd
  induction md with
  | nil => rfl
  | cons p ps ih =>
    have hp : carryEntry P p = some p := by
      unfold carryEntry
      rw [hc p (by simp)]
      by_cases hk : p.1 = "!ex"
      · have h1 : (p.1 == "!ex") = true := by simp [hk]
        simp only [h1, if_true, hex p (by simp) hk, Option.map_some]
      · have h1 : (p.1 == "!ex") = false := beq_false_of_ne hk
        simp only [h1, Bool.false_eq_true, if_false, if_true]
    rw [List.filterMap_cons, hp]
    simp only
    rw [ih (fun q hq => hc q (by simp [hq])) (fun q hq => hex q (by simp [hq]))]

theorem fieldOfMdKey_ne_content (k : String) : fieldOfMdKey k ≠ .content ∧ fieldOfMdKey k ≠ .contentType ∧
    fieldOfMdKey k ≠ .tags ∧ fieldOfMdKey k ≠ .storageClass := by
  unfold fieldOfMdKey
  split <;> (try split) <;> (try split) <;> (try split) <;> (try split) <;> (try split) <;> decide

/-- Every metadata key belongs to one of the seven metadata attributes. -/
theorem fieldOfMdKey_cases (k : String) :
    fieldOfMdKey k ∈ [Field.cacheControl, .contentDisposition, .contentEncoding, .contentLanguage, .expires,
      .websiteRedirect, .userMetadata] := by
  unfold fieldOfMdKey
  split <;> (try split) <;> (try split) <;> (try split) <;> (try split) <;> (try split) <;> decide

/-! ### All buckets -/

theorem migrateBuckets_other (q : Quirks) (P : Params) (bks : List Bucket) (d : State) (n : String)
    (hn : n ∉ bks.map (·.name)) : findBucket (migrateBuckets q P d bks).dst n = findBucket d n := by
  induction bks generalizing d with
  | nil => rfl
  | cons bk rest ih =>
    have hne : n ≠ bk.name := fun h => hn (by simp [h])
    have hrest : n ∉ rest.map (·.name) := fun h => hn (by simp [h])
    unfold migrateBuckets
    split
    · rfl
    · rw [ih _ hrest, migrateBucket_other q P bk.name _ d n hne]

theorem fresh_simple (n : String) : Simple { name := n } := ⟨rfl, fun _ h => by cases h⟩

theorem migrateBuckets_spec (q : Quirks) (P : Params) (bks : List Bucket) (d : State)
    (hnames : (bks.map (·.name)).Nodup)
    (hkeys : ∀ bk ∈ bks, ((currentRows bk).map (·.key)).Nodup)
    (hfresh : ∀ bk ∈ bks, findBucket d bk.name = some { name := bk.name }) :
    (migrateBuckets q P d bks).ok = true ∧
    ∀ bk ∈ bks, ∃ bk', findBucket (migrateBuckets q P d bks).dst bk.name = some bk' ∧ Simple bk' ∧
      bk'.rows.map kv = (currentRows bk).map (fun r => (r.key, carry P (viewOfRow r))) := by
  induction bks generalizing d with
  | nil => exact ⟨rfl, fun _ h => by cases h⟩
  | cons bk rest ih =>
    have hnd : bk.name ∉ rest.map (·.name) ∧ (rest.map (·.name)).Nodup := List.nodup_cons.1 hnames
    have hf := hfresh bk (by simp)
    have hnc : hasCurrent d bk.name = false := by
      unfold hasCurrent; rw [hf]; rfl
    obtain ⟨bk1, hb1, hs1, hrows1⟩ := migrateBucket_spec q P bk.name (currentRows bk) d { name := bk.name } hf
      (fresh_simple bk.name) (hkeys bk (by simp)) (fun _ _ _ h => by cases h)
    have hfresh' : ∀ b2 ∈ rest, findBucket (migrateBucket q P d bk.name (currentRows bk)) b2.name = some { name := b2.name } := by
      intro b2 h2
      have hne : b2.name ≠ bk.name := fun h => hnd.1 (by rw [← h]; exact List.mem_map_of_mem h2)
      rw [migrateBucket_other q P bk.name _ d b2.name hne]
      exact hfresh b2 (by simp [h2])
    obtain ⟨hok, hspec⟩ := ih _ hnd.2 (fun b2 h2 => hkeys b2 (by simp [h2])) hfresh'
    unfold migrateBuckets
    simp only [hnc, Bool.false_eq_true, if_false]
    refine ⟨hok, ?_⟩
    intro b hb
    rcases List.mem_cons.1 hb with rfl | hb'
    · refine ⟨bk1, ?_, hs1, by simpa using hrows1⟩
      rw [migrateBuckets_other q P rest _ b.name hnd.1]
      exact hb1
    · exact hspec b hb'

end Pithos.Migrator
