/-
Row-list lemmas for the storage model (`Pithos.Model.S3`): how the primitive row edits
(`replaceRow`, `removeRow`, `addRow`, `unlatest`, `promote`) act on
 * the list of row ids (unchanged / sub-list / extended by a fresh id), and
 * the number of rows of a key that carry the `latest` flag.
These are the building blocks of the state invariant in `Pithos.Lemmas.S3Inv`.
-/
import Pithos.Model.S3

namespace Pithos.S3

/-- number of rows of key `k` flagged latest -/
def lc (rows : List Row) (k : String) : Nat := rows.countP (fun r => r.key == k && r.latest)

def ids (rows : List Row) : List Nat := rows.map (·.rowId)

def repl (rows : List Row) (y : Row) : List Row := rows.map fun x => if x.rowId == y.rowId then y else x

theorem replaceRow_rows (bk : Bucket) (y : Row) : (replaceRow bk y).rows = repl bk.rows y := rfl
theorem removeRow_rows (bk : Bucket) (i : Nat) : (removeRow bk i).rows = bk.rows.filter (fun x => x.rowId != i) := rfl
theorem addRow_rows (bk : Bucket) (y : Row) : (addRow bk y).rows = bk.rows ++ [y] := rfl
theorem replaceRow_ver (bk : Bucket) (y : Row) : (replaceRow bk y).ver = bk.ver := rfl
theorem replaceRow_name (bk : Bucket) (y : Row) : (replaceRow bk y).name = bk.name := rfl
theorem removeRow_name (bk : Bucket) (i : Nat) : (removeRow bk i).name = bk.name := rfl
theorem addRow_name (bk : Bucket) (y : Row) : (addRow bk y).name = bk.name := rfl

theorem ids_repl (rows : List Row) (y : Row) : ids (repl rows y) = ids rows := by
  unfold ids repl
  rw [List.map_map]
  apply List.map_congr_left
  intro x _
  by_cases h : x.rowId = y.rowId
  · simp [h]
  · simp [h]

theorem mem_repl {rows : List Row} {y z : Row} (h : z ∈ repl rows y) :
    z = y ∨ (z ∈ rows ∧ z.rowId ≠ y.rowId) := by
  unfold repl at h
  obtain ⟨x, hx, rfl⟩ := List.mem_map.1 h
  by_cases hq : x.rowId = y.rowId
  · left; simp [hq]
  · right; simp [hq]; exact hx

/-- Replacing (by row id) in a list with pairwise distinct ids changes a count exactly by the
difference between the old row and the new one. -/
theorem countP_repl (p : Row → Bool) (rows : List Row) (r y : Row)
    (hn : (ids rows).Nodup) (hr : r ∈ rows) (hy : y.rowId = r.rowId) :
    (repl rows y).countP p + (if p r then 1 else 0) = rows.countP p + (if p y then 1 else 0) := by
  induction rows with
  | nil => cases hr
  | cons a t ih =>
    have hn' : (ids t).Nodup := by
      have := hn; simp only [ids, List.map_cons, List.nodup_cons] at this; exact this.2
    have ha : a.rowId ∉ ids t := by
      have := hn; simp only [ids, List.map_cons, List.nodup_cons] at this; exact this.1
    rcases List.mem_cons.1 hr with rfl | hrt
    · -- the head is the replaced row; nothing in the tail has this id
      have htail : repl t y = t := by
        unfold repl
        rw [List.map_congr_left (g := id)]
        · simp
        · intro x hx
          have : x.rowId ≠ y.rowId := by
            intro e; apply ha; rw [hy] at e; rw [← e]; exact List.mem_map.2 ⟨x, hx, rfl⟩
          simp [this]
      have hhead : repl (r :: t) y = y :: repl t y := by
        simp [repl, hy]
      rw [hhead, htail, List.countP_cons, List.countP_cons]
      omega
    · have hne : a.rowId ≠ y.rowId := by
        intro e; apply ha; rw [e, hy]; exact List.mem_map.2 ⟨r, hrt, rfl⟩
      have hhead : repl (a :: t) y = a :: repl t y := by
        simp [repl, hne]
      have := ih hn' hrt
      rw [hhead, List.countP_cons, List.countP_cons]
      omega

/-- Replacing a row that is not in the list (no row has that id) changes nothing. -/
theorem repl_absent (rows : List Row) (y : Row) (h : y.rowId ∉ ids rows) : repl rows y = rows := by
  unfold repl
  rw [List.map_congr_left (g := id)]
  · simp
  · intro x hx
    have : x.rowId ≠ y.rowId := by
      intro e; apply h; rw [← e]; exact List.mem_map.2 ⟨x, hx, rfl⟩
    simp [this]

theorem lc_filter_le (rows : List Row) (k : String) (q : Row → Bool) : lc (rows.filter q) k ≤ lc rows k := by
  unfold lc
  rw [List.countP_filter]
  apply List.countP_mono_left
  intro x _ hx
  simp at hx ⊢
  exact hx.1

theorem ids_filter_nodup (rows : List Row) (q : Row → Bool) (h : (ids rows).Nodup) : (ids (rows.filter q)).Nodup := by
  unfold ids at *
  exact h.sublist (List.Sublist.map _ List.filter_sublist)

theorem lc_append (a b : List Row) (k : String) : lc (a ++ b) k = lc a k + lc b k := by
  simp [lc, List.countP_append]

theorem lc_single (y : Row) (k : String) : lc [y] k = if (y.key == k && y.latest) then 1 else 0 := by
  simp [lc, List.countP_cons]

/-- `find?` of the latest row: what it returns, and when it returns nothing. -/
theorem latestRow_some {bk : Bucket} {k : String} {r : Row} (h : latestRow bk k = some r) :
    r ∈ bk.rows ∧ r.key = k ∧ r.latest = true := by
  unfold latestRow at h
  have hm := List.mem_of_find?_eq_some h
  have hp := List.find?_some h
  simp at hp
  exact ⟨hm, hp.1, hp.2⟩

theorem latestRow_none {bk : Bucket} {k : String} (h : latestRow bk k = none) : lc bk.rows k = 0 := by
  unfold latestRow at h
  unfold lc
  rw [List.countP_eq_zero]
  intro x hx
  have := List.find?_eq_none.1 h x hx
  simpa using this

theorem lc_pos_of_mem {rows : List Row} {k : String} {r : Row} (hr : r ∈ rows) (hk : r.key = k) (hl : r.latest = true) :
    0 < lc rows k := by
  unfold lc
  rw [List.countP_pos_iff]
  exact ⟨r, hr, by simp [hk, hl]⟩

/-- With at most one latest row per key, `latestRow` finds it: any latest row of `k` IS the result. -/
theorem latestRow_eq_of_unique {bk : Bucket} {k : String} {r : Row}
    (hone : lc bk.rows k ≤ 1) (hr : r ∈ bk.rows) (hk : r.key = k) (hl : r.latest = true) :
    latestRow bk k = some r := by
  unfold latestRow
  induction hrows : bk.rows generalizing bk with
  | nil => rw [hrows] at hr; cases hr
  | cons a t ih =>
    rw [hrows] at hr hone
    by_cases ha : (a.key == k && a.latest) = true
    · -- the head is latest for k: it must be r, else the count is 2
      rcases List.mem_cons.1 hr with rfl | hrt
      · simp [List.find?_cons, ha]
      · exfalso
        have hpos : 0 < lc t k := lc_pos_of_mem hrt hk hl
        have : lc (a :: t) k = lc t k + 1 := by
          simp [lc, List.countP_cons, ha]
        omega
    · rcases List.mem_cons.1 hr with rfl | hrt
      · exfalso; apply ha; simp [hk, hl]
      · have hone' : lc t k ≤ 1 := by
          have : lc (a :: t) k = lc t k := by
            simp [lc, List.countP_cons, ha]
          omega
        have := ih (bk := { bk with rows := t }) hone' hrt rfl
        simp only [List.find?_cons, ha]
        simpa using this

end Pithos.S3
