/-
"Write, then read" lemmas for the storage model: what `install` makes the current version of a
key, and what GET/HEAD return for it afterwards.
-/
import Pithos.Lemmas.S3Step

namespace Pithos.S3

theorem findBucket_some_name {s : State} {b : String} {bk : Bucket} (h : findBucket s b = some bk) : bk.name = b := by
  unfold findBucket at h
  have := List.find?_some h
  simpa using this

theorem find?_map_replace (l : List Bucket) (bk : Bucket) (b : String) (hb : bk.name = b)
    (hex : (l.find? (·.name == b)).isSome) :
    (l.map fun x => if x.name == bk.name then bk else x).find? (·.name == b) = some bk := by
  induction l with
  | nil => simp at hex
  | cons a t ih =>
    by_cases ha : a.name = b
    · simp [List.find?_cons, ha, hb]
    · have hex' : (t.find? (·.name == b)).isSome := by simpa [List.find?_cons, ha] using hex
      have hne : ¬ a.name = bk.name := by rw [hb]; exact ha
      simp [List.find?_cons, ha, hne]
      simpa using ih hex'

theorem findBucket_setBucket {s : State} {b : String} {bk0 bk : Bucket}
    (h0 : findBucket s b = some bk0) (hb : bk.name = b) : findBucket (setBucket s bk) b = some bk := by
  unfold findBucket setBucket
  simp only []
  exact find?_map_replace s.buckets bk b hb (by unfold findBucket at h0; simp [h0])

theorem unlatestCur_name (q : Quirks) (now : Nat) (bk : Bucket) (k : String) : (unlatestCur q now bk k).name = bk.name := by
  unfold unlatestCur; cases latestRow bk k <;> rfl

/-- `latestRow` after appending a latest row of `k` to rows none of which is latest for `k`. -/
theorem latestRow_add {bk : Bucket} {k : String} {y : Row} (hz : lc bk.rows k = 0) (hk : y.key = k) (hl : y.latest = true) :
    latestRow (addRow bk y) k = some y := by
  unfold latestRow
  rw [addRow_rows, List.find?_append]
  have : bk.rows.find? (fun r => r.key == k && r.latest) = none := by
    rw [List.find?_eq_none]
    unfold lc at hz
    rw [List.countP_eq_zero] at hz
    intro x hx; simpa using hz x hx
  simp [this, hk, hl]

theorem find_repl (p : Row → Bool) : ∀ (rows : List Row) (y r : Row), (∀ x ∈ rows, ¬ p x = true) → r ∈ rows →
    y.rowId = r.rowId → p y = true → (repl rows y).find? p = some y
  | [], _, _, _, hr, _, _ => by cases hr
  | a :: t, y, r, hz, hr, hid, hy => by
    by_cases ha : a.rowId = y.rowId
    · have hhead : repl (a :: t) y = y :: repl t y := by simp [repl, ha]
      rw [hhead]; simp only [List.find?_cons, hy]
    · have hna : ¬ p a = true := hz a (by simp)
      rcases List.mem_cons.1 hr with rfl | hrt
      · exact absurd hid.symm ha
      · have ih := find_repl p t y r (fun x hx => hz x (List.mem_cons_of_mem _ hx)) hrt hid hy
        have hpa : p a = false := by simpa using hna
        have hhead : repl (a :: t) y = a :: repl t y := by simp [repl, ha]
        rw [hhead]
        simp only [List.find?_cons, hpa]
        exact ih

/-- `latestRow` after replacing (by id) some row by a latest row `y` of `k`, when no row was latest. -/
theorem latestRow_repl {bk : Bucket} {k : String} {y r : Row} (hz : lc bk.rows k = 0)
    (hr : r ∈ bk.rows) (hid : y.rowId = r.rowId) (hk : y.key = k) (hl : y.latest = true) :
    latestRow (replaceRow bk y) k = some y := by
  unfold latestRow
  rw [replaceRow_rows]
  unfold lc at hz
  rw [List.countP_eq_zero] at hz
  exact find_repl _ bk.rows y r hz hr hid (by simp [hk, hl])

/-- What a write installs is what `latestRow` finds afterwards, in the bucket as stored in the new
state (`bkx` is any bucket carrying the name under which `findBucket s b` finds one). -/
theorem install_current (q : Quirks) (s : State) (bk0 bkx : Bucket) (b k : String) (n : NewObj)
    (hfb : findBucket s b = some bk0) (hnx : bkx.name = b) (hix : RowsInv s.nextRow bkx.rows) :
    ∃ bk' row, findBucket (install q s bkx k n).1 b = some bk' ∧ latestRow bk' k = some row ∧
      row.key = k ∧ row.dm = false ∧ row.parts = n.parts ∧ row.etag = n.etag ∧ row.ct = n.o.ct ∧ row.md = n.o.md ∧
      row.tags = n.o.tags ∧ row.cls = n.o.cls ∧ row.vid = (install q s bkx k n).2 ∧ row.wrote = s.clock := by
  have hz := lc_unlatestCur q s.clock bkx k hix
  unfold install
  simp only []
  split
  · refine ⟨addRow (unlatestCur q s.clock bkx k) (mkRow s.nextRow k (some s.nextVid) (n.created.getD s.clock) s.clock n),
      mkRow s.nextRow k (some s.nextVid) (n.created.getD s.clock) s.clock n, ?_, ?_, ?_⟩
    · show findBucket (setBucket s _) b = some _
      exact findBucket_setBucket hfb (by rw [addRow_name, unlatestCur_name, hnx])
    · exact latestRow_add hz rfl rfl
    · simp [mkRow]
  · split
    · rename_i nr hnr
      obtain ⟨hmem, _, _⟩ := rowByVid_mem (by simpa [nullRow] using hnr)
      obtain ⟨r', hr', hid⟩ := mem_ids_unlatestCur q s.clock bkx k hmem
      refine ⟨replaceRow (unlatestCur q s.clock bkx k) (mkRow nr.rowId k none (n.created.getD nr.created) s.clock n),
        mkRow nr.rowId k none (n.created.getD nr.created) s.clock n, ?_, ?_, ?_⟩
      · exact findBucket_setBucket hfb (by rw [replaceRow_name, unlatestCur_name, hnx])
      · exact latestRow_repl hz hr' (by simp [mkRow, hid]) rfl rfl
      · simp [mkRow]
    · refine ⟨addRow (unlatestCur q s.clock bkx k) (mkRow s.nextRow k none (n.created.getD s.clock) s.clock n),
        mkRow s.nextRow k none (n.created.getD s.clock) s.clock n, ?_, ?_, ?_⟩
      · show findBucket (setBucket s _) b = some _
        exact findBucket_setBucket hfb (by rw [addRow_name, unlatestCur_name, hnx])
      · exact latestRow_add hz rfl rfl
      · simp [mkRow]

/-- A successful `putRow` on the bucket found under `b`: afterwards the current version of `k` in
that bucket is the object that was written. -/
theorem putRow_current {q : Quirks} {s : State} {bk : Bucket} {b k : String} {n : NewObj} {inm : Bool} {im : IfMatch}
    {s' : State} {vid : Option Nat} (h : Inv s) (hfb : findBucket s b = some bk)
    (hok : putRow q s bk k n inm im = .ok (s', vid)) :
    ∃ bk' row, findBucket s' b = some bk' ∧ latestRow bk' k = some row ∧
      row.key = k ∧ row.dm = false ∧ row.parts = n.parts ∧ row.etag = n.etag ∧ row.ct = n.o.ct ∧ row.md = n.o.md ∧
      row.tags = n.o.tags ∧ row.cls = n.o.cls ∧ row.vid = vid ∧ row.wrote = s.clock := by
  obtain ⟨bk1, hbk1, hx⟩ := putRow_ok hok
  have hbk := h bk (findBucket_mem hfb)
  have hname := findBucket_some_name hfb
  have hres := install_current q s bk bk1 b k n hfb
    (by rcases hbk1 with rfl | ⟨r, _, rfl⟩ <;> exact hname)
    (by
      rcases hbk1 with rfl | ⟨r, hl, rfl⟩
      · exact hbk
      · exact touch_inv q s.clock bk r hbk (latestRow_some hl).1)
  rw [← hx] at hres
  exact hres

/-- GET / HEAD of the current version, given what `latestRow` finds. -/
theorem get_current {q : Quirks} {s : State} {b k : String} {bk : Bucket} {row : Row}
    (hfb : findBucket s b = some bk) (hl : latestRow bk k = some row) (hdm : row.dm = false) :
    (step q s (.get b k none)).2 = .obj (viewOf row) ∧ (step q s (.head b k none)).2 = .obj (viewOf row) := by
  have hfb' : findBucket { s with clock := s.clock + 1 } b = some bk := hfb
  constructor <;> simp [step, stepT, hfb', resolve, hl, hdm]

end Pithos.S3
