/-
Helper lemmas for C25 (model `Pithos.Lifecycle`, spec `Pithos.LifecycleS3`): due-time arithmetic,
the rule matcher against the S3 filter semantics, what each per-object decision function returns,
the walk over one key's sorted versions, the store-level effect of guarded deletes.
Core Lean only (no Mathlib needed).
-/
import Pithos.Model.Lifecycle
import Pithos.Spec.LifecycleS3

namespace Pithos.Lifecycle
open Pithos.LifecycleS3


/-! ### arithmetic -/

theorem nextMidnight_gt (t : Int) : t < nextMidnight t := by
  unfold nextMidnight dayNs; omega

theorem nextMidnight_le (t : Int) : nextMidnight t ≤ t + dayNs := by
  unfold nextMidnight dayNs; omega

theorem nextMidnight_mod (t : Int) : nextMidnight t % dayNs = 0 := by
  unfold nextMidnight dayNs; omega

theorem nextMidnight_mono {a b : Int} (h : a ≤ b) : nextMidnight a ≤ nextMidnight b := by
  unfold nextMidnight dayNs; omega

theorem dueDays_eq_s3Due (t n : Int) : dueDays t n = s3Due t n := by
  unfold dueDays nextMidnight s3Due dayNs; rfl

theorem s3Due_mono {a b : Int} (n : Int) (h : a ≤ b) : s3Due a n ≤ s3Due b n := by
  unfold s3Due; omega

theorem isDue_some {d now : Int} : isDue (some d) now = true ↔ d ≤ now := by
  simp [isDue]

theorem isDue_none {now : Int} : isDue none now = false := rfl




theorem hasTag_eq (tags : Tags) : hasTag tags = fun t => tagLookup tags t.1 == some t.2 := rfl

theorem dec_le_not_lt (a b : Int) : decide (a ≤ b) = !decide (b < a) := by
  by_cases h : a ≤ b
  · have : ¬ b < a := by omega
    simp [h, this]
  · have : b < a := by omega
    simp [h, this]

theorem ruleMatches_eq_selects (r : Rule) (key : Bytes) (size : Int) (tags : Tags)
    (h : filterWellFormed r = true) : ruleMatches r key size tags = selects r key size tags := by
  rcases r with ⟨en, pfx, filter, ex, ab, tr, nce, nct⟩
  cases filter with
  | none =>
    cases pfx <;>
      simp [ruleMatches, selects, rulePrefix, prefixSelects, rulePrefixes, ruleGts, ruleLts, ruleTags]
  | some f =>
    rcases f with ⟨fp, ft, fg, fl, fa⟩
    cases pfx with
    | some p => simp [filterWellFormed] at h
    | none =>
      cases fa with
      | none =>
        cases fp <;> cases ft <;> cases fg <;> cases fl <;>
          simp [filterWellFormed, optCount] at h <;>
          simp [ruleMatches, selects, rulePrefix, prefixSelects, rulePrefixes, ruleGts, ruleLts, ruleTags,
            filterGt, filterLt, filterTags, hasTag_eq, dec_le_not_lt]
      | some a =>
        rcases a with ⟨ap, at_, ag, al⟩
        cases fp <;> cases ft <;> cases fg <;> cases fl <;>
          simp [filterWellFormed, optCount] at h
        cases ap <;> cases ag <;> cases al <;>
          simp [ruleMatches, selects, rulePrefix, prefixSelects, rulePrefixes, ruleGts, ruleLts, ruleTags,
            filterGt, filterLt, filterTags, hasTag_eq, dec_le_not_lt, Bool.and_assoc]





/-- every rule is shaped as the validator demands (filter part) -/
def WF (rules : List Rule) : Prop := ∀ r ∈ rules, filterWellFormed r = true

theorem isExpirationRule_enabled {r : Rule} (h : isExpirationRule r = true) : r.enabled = true := by
  simp [isExpirationRule] at h; exact h.1

/-- the model's due test implies the S3 due predicate, for every true creation instant not later
than the reported LastModified -/
theorem expirationDueBy_of_isDue {r : Rule} {now lm created : Int} (hc : created ≤ lm)
    (h : isDue (expirationDue r lm) now = true) : expirationDueBy r now created = true := by
  unfold expirationDue at h
  unfold expirationDueBy
  cases he : r.expiration with
  | none => simp [he, isDue] at h
  | some e =>
    simp only [he] at h ⊢
    cases hd : e.date with
    | some d =>
      simp only [hd] at h
      have := isDue_some.1 h
      simp [this]
    | none =>
      simp only [hd] at h
      cases hn : e.days with
      | none => simp [hn, isDue] at h
      | some n =>
        simp only [hn, Option.map] at h
        have h1 := isDue_some.1 h
        rw [dueDays_eq_s3Due] at h1
        have h2 := s3Due_mono n hc
        have : s3Due created n ≤ now := by omega
        simp [this]

theorem expireObj_some {rules : List Rule} {now : Int} {o : Obj} {c : Call}
    (h : expireObj rules now o = some c) :
    c = .del o.key none (some o.etag) ∧
    ∃ r ∈ rules, r.enabled = true ∧ isDue (expirationDue r o.lm) now = true ∧
      ruleMatches r o.key o.size o.tags = true := by
  unfold expireObj at h
  split at h
  · rename_i r hr
    have hm := List.mem_of_find?_eq_some hr
    have hp := List.find?_some hr
    rw [List.mem_filter] at hm
    simp only [expireRuleFires, Bool.and_eq_true] at hp
    refine ⟨by simpa using h.symm, r, hm.1, isExpirationRule_enabled hm.2, hp.1, hp.2⟩
  · simp at h





/-! ### pickLatest -/

theorem pickLatest_mem (acc : Option (Int × Bytes)) (l : List (Int × Bytes)) (x : Int × Bytes)
    (h : pickLatest acc l = some x) : x ∈ l ∨ acc = some x := by
  induction l generalizing acc with
  | nil => cases acc <;> simp_all [pickLatest]
  | cons c cs ih =>
    cases acc with
    | none =>
      simp only [pickLatest] at h
      rcases ih _ h with h1 | h1
      · exact Or.inl (List.mem_cons_of_mem _ h1)
      · simp at h1; subst h1; exact Or.inl (by simp)
    | some a =>
      simp only [pickLatest] at h
      split at h
      · rcases ih _ h with h1 | h1
        · exact Or.inl (List.mem_cons_of_mem _ h1)
        · simp at h1; subst h1; exact Or.inl (by simp)
      · rcases ih _ h with h1 | h1
        · exact Or.inl (List.mem_cons_of_mem _ h1)
        · exact Or.inr h1

/-! ### current-version transition -/

theorem transitionDueBy_of_due {t : Transition} {now lm created d : Int} (hc : created ≤ lm)
    (h : transitionDue t lm = some d) (hd : d ≤ now) : transitionDueBy t now created = true := by
  unfold transitionDue at h
  unfold transitionDueBy
  cases hdt : t.date with
  | some dt =>
    simp only [hdt] at h
    have : dt = d := by simpa using h
    subst this
    simp [hd]
  | none =>
    simp only [hdt] at h
    cases hn : t.days with
    | none => simp [hn] at h
    | some n =>
      simp only [hn, Option.map] at h
      have h0 : dueDays lm n = d := by simpa using h
      rw [dueDays_eq_s3Due] at h0
      have h2 := s3Due_mono n hc
      have : s3Due created n ≤ now := by omega
      simp [this]

theorem isTransitionRule_enabled {r : Rule} (h : isTransitionRule r = true) : r.enabled = true := by
  simp [isTransitionRule] at h; exact h.1

theorem transitionObj_some {rules : List Rule} {now : Int} {o : Obj} {c : Call}
    (h : transitionObj rules now o = some c) :
    ∃ target, c = .trans o.key target none (some o.etag) ∧
    ∃ r ∈ rules, r.enabled = true ∧ ruleMatches r o.key o.size o.tags = true ∧
      ∃ t ∈ r.transitions, t.cls = target ∧ t.cls ≠ o.cls ∧ ∃ d, transitionDue t o.lm = some d ∧ d ≤ now := by
  unfold transitionObj at h
  split at h
  · rename_i d target hp
    refine ⟨target, by simpa using h.symm, ?_⟩
    rcases pickLatest_mem _ _ _ hp with hm | hm
    · simp only [transCands, List.mem_flatMap, List.mem_filter] at hm
      obtain ⟨r, ⟨hr, hk⟩, hc⟩ := hm
      unfold ruleTransCands at hc
      split at hc
      · rename_i hmatch
        simp only [List.mem_filterMap] at hc
        obtain ⟨t, ht, hsome⟩ := hc
        split at hsome
        · rename_i d' hd'
          split at hsome
          · rename_i hcond
            simp only [Option.some.injEq, Prod.mk.injEq] at hsome
            obtain ⟨h1, h2⟩ := hsome
            subst h1
            simp only [Bool.and_eq_true, Bool.not_eq_true', decide_eq_false_iff_not, Int.not_lt, bne_iff_ne, ne_eq] at hcond
            exact ⟨r, hr, isTransitionRule_enabled hk, hmatch, t, ht, h2, hcond.2, d', hd', hcond.1⟩
          · simp at hsome
        · simp at hsome
      · simp at hc
    · simp at hm
  · simp at h

/-! ### abort -/

theorem isAbortRule_enabled {r : Rule} (h : isAbortRule r = true) : r.enabled = true := by
  simp [isAbortRule] at h; exact h.1

theorem abortUpl_some {rules : List Rule} {now : Int} {u : Upl} {c : Call}
    (h : abortUpl rules now u = some c) :
    c = .abort u.key u.uploadId ∧
    ∃ r ∈ rules, r.enabled = true ∧ ruleMatches r u.key 0 [] = true ∧ isDue (abortDue r u.initiated) now = true := by
  unfold abortUpl at h
  split at h
  · rename_i r hr
    have hm := List.mem_of_find?_eq_some hr
    have hp := List.find?_some hr
    rw [List.mem_filter] at hm
    simp only [abortRuleFires, Bool.and_eq_true] at hp
    exact ⟨by simpa using h.symm, r, hm.1, isAbortRule_enabled hm.2, hp.1, hp.2⟩
  · simp at h




/-- Every call the walk over one key's sorted versions issues is `f v u.lm cnt` for two ADJACENT
entries `u, v` of the list (`u` directly before `v`), `v` neither latest nor a delete marker, and a
counter `cnt` that is at most the number of entries before `u`. -/
theorem ncWalk_sound (f : Ver → Int → Nat → Option Call) :
    ∀ (rest pre : List Ver) (prev : Option Int) (cnt : Nat),
      prev = (pre.getLast?).map (·.lm) → cnt ≤ pre.length - 1 →
      ∀ c ∈ ncWalk f prev cnt rest,
        ∃ pre' u v post cnt', pre ++ rest = pre' ++ u :: v :: post ∧ v.latest = false ∧ v.dm = false ∧
          f v u.lm cnt' = some c ∧ cnt' ≤ pre'.length := by
  intro rest
  induction rest with
  | nil => intro pre prev cnt _ _ c hc; simp [ncWalk] at hc
  | cons v rest ih =>
    intro pre prev cnt hprev hcnt c hc
    have hstep : ∀ cnt', cnt' ≤ pre.length → ∀ c ∈ ncWalk f (some v.lm) cnt' rest,
        ∃ pre' u v' post cnt'', pre ++ v :: rest = pre' ++ u :: v' :: post ∧ v'.latest = false ∧ v'.dm = false ∧
          f v' u.lm cnt'' = some c ∧ cnt'' ≤ pre'.length := by
      intro cnt' hc' c hcm
      have := ih (pre ++ [v]) (some v.lm) cnt' (by simp) (by simp; omega) c hcm
      simpa [List.append_assoc] using this
    unfold ncWalk at hc
    split at hc
    · exact hstep cnt (by omega) c hc
    · rename_i hflags
      split at hc
      · exact hstep cnt (by omega) c hc
      · rename_i p
        rw [List.mem_append] at hc
        -- pre is non-empty and ends with the entry whose LastModified is p
        have hlast : ∃ pre0 u, pre = pre0 ++ [u] ∧ u.lm = p := by
          cases hl : pre.getLast? with
          | none => simp [hl] at hprev
          | some u =>
            rw [List.getLast?_eq_some_iff] at hl
            obtain ⟨ys, hys⟩ := hl
            refine ⟨ys, u, hys, ?_⟩
            rw [hys] at hprev
            simpa using hprev.symm
        obtain ⟨pre0, u, hpre, hu⟩ := hlast
        rcases hc with hc | hc
        · refine ⟨pre0, u, v, rest, cnt, ?_, ?_, ?_, ?_, ?_⟩
          · simp [hpre]
          · simpa using (by simpa using hflags : ¬ (v.latest = true ∨ v.dm = true)) |> fun h => by
              cases hv : v.latest <;> simp_all
          · cases hv : v.dm <;> simp_all
          · rw [hu]; simpa using hc
          · rw [hpre] at hcnt; simpa using hcnt
        · exact hstep (cnt + 1) (by rw [hpre] at hcnt ⊢; simp at hcnt ⊢; omega) c hc





/-! ### sorting keeps the entries -/

theorem mem_insertByLm (v x : Ver) (l : List Ver) : x ∈ insertByLm v l ↔ x = v ∨ x ∈ l := by
  induction l with
  | nil => simp [insertByLm]
  | cons w ws ih =>
    unfold insertByLm
    split
    · simp [ih]; constructor
      · rintro (h | h | h) <;> simp [h]
      · rintro (h | h | h) <;> simp [h]
    · simp

theorem mem_sortByLm (x : Ver) (l : List Ver) : x ∈ sortByLm l ↔ x ∈ l := by
  induction l with
  | nil => simp [sortByLm]
  | cons v vs ih => simp [sortByLm, mem_insertByLm, ih]

theorem mem_group {vs : List Ver} {k : Bytes} {x : Ver} (h : x ∈ group vs k) : x ∈ vs ∧ x.key = k := by
  unfold group at h
  rw [mem_sortByLm, List.mem_filter] at h
  exact ⟨h.1, by simpa using h.2⟩

/-! ### noncurrent expiration -/

theorem isNcExpirationRule_enabled {r : Rule} (h : isNcExpirationRule r = true) : r.enabled = true := by
  simp [isNcExpirationRule] at h; exact h.1

theorem ncExpireVer_some {g : Bool} {rules : List Rule} {now : Int} {v : Ver} {since : Int} {cnt : Nat} {c : Call}
    (h : ncExpireVer g rules now v since cnt = some c) :
    c = .del v.key (some v.vid) (if g then v.etag else none) ∧
    ∃ r ∈ rules, r.enabled = true ∧ ∃ e, r.ncExpiration = some e ∧
      isDue (ncExpirationDue r since) now = true ∧ retained e.newer cnt = false ∧
      ruleMatches r v.key v.size v.stags = true := by
  unfold ncExpireVer at h
  split at h
  · rename_i r hr
    have hm := List.mem_of_find?_eq_some hr
    have hp := List.find?_some hr
    rw [List.mem_filter] at hm
    unfold ncExpireRuleFires at hp
    split at hp
    · simp at hp
    · rename_i e he
      simp only [Bool.and_eq_true, Bool.not_eq_true'] at hp
      exact ⟨by simpa using h.symm, r, hm.1, isNcExpirationRule_enabled hm.2, e, he, hp.1.1, hp.1.2, hp.2⟩
  · simp at h

/-- the model's noncurrent-expiration test implies the S3 predicate for every earlier `since` and
every larger count of newer noncurrent versions -/
theorem ncExpirationDueBy_of {r : Rule} {e : NcExpiration} {now since since' : Int} {cnt newer : Nat}
    (he : r.ncExpiration = some e) (hd : isDue (ncExpirationDue r since) now = true)
    (hr : retained e.newer cnt = false) (hs : since' ≤ since) (hn : cnt ≤ newer) :
    ncExpirationDueBy r now since' newer = true := by
  unfold ncExpirationDueBy
  unfold ncExpirationDue at hd
  simp only [he] at hd ⊢
  cases hdays : e.days with
  | none => simp [hdays, isDue] at hd
  | some n =>
    simp only [hdays, Option.map] at hd
    have h1 := isDue_some.1 hd
    rw [dueDays_eq_s3Due] at h1
    have h2 := s3Due_mono n hs
    have h3 : s3Due since' n ≤ now := by omega
    cases hnew : e.newer with
    | none => simp [h3]
    | some k =>
      simp only [retained, hnew] at hr
      have : k ≤ (newer : Int) := by
        have : ¬ ((cnt : Int) ≤ k) := by simpa using hr
        omega
      simp [h3, this]

/-! ### noncurrent transition -/

theorem isNcTransitionRule_enabled {r : Rule} (h : isNcTransitionRule r = true) : r.enabled = true := by
  simp [isNcTransitionRule] at h; exact h.1

theorem ncTransitionVer_some {rules : List Rule} {now : Int} {v : Ver} {since : Int} {cnt : Nat} {c : Call}
    (h : ncTransitionVer rules now v since cnt = some c) :
    ∃ target, c = .trans v.key target (some v.vid) v.etag ∧
    ∃ r ∈ rules, r.enabled = true ∧ ruleMatches r v.key v.size v.stags = true ∧
      ∃ t ∈ r.ncTransitions, t.cls = target ∧ t.cls ≠ v.cls ∧ retained t.newer cnt = false ∧
        ∃ d, ncTransitionDue t since = some d ∧ d ≤ now := by
  unfold ncTransitionVer at h
  split at h
  · rename_i d target hp
    refine ⟨target, by simpa using h.symm, ?_⟩
    rcases pickLatest_mem _ _ _ hp with hm | hm
    · simp only [ncTransCands, List.mem_flatMap, List.mem_filter] at hm
      obtain ⟨r, ⟨hr, hk⟩, hc⟩ := hm
      unfold ruleNcTransCands at hc
      split at hc
      · rename_i hmatch
        simp only [List.mem_filterMap] at hc
        obtain ⟨t, ht, hsome⟩ := hc
        split at hsome
        · rename_i d' hd'
          split at hsome
          · rename_i hcond
            simp only [Option.some.injEq, Prod.mk.injEq] at hsome
            obtain ⟨h1, h2⟩ := hsome
            subst h1
            simp only [Bool.and_eq_true, Bool.not_eq_true', decide_eq_false_iff_not, Int.not_lt, bne_iff_ne, ne_eq] at hcond
            exact ⟨r, hr, isNcTransitionRule_enabled hk, hmatch, t, ht, h2, hcond.2, hcond.1.2, d', hd', hcond.1.1⟩
          · simp at hsome
        · simp at hsome
      · simp at hc
    · simp at hm
  · simp at h

theorem ncTransitionDueBy_of {t : NcTransition} {now since since' d : Int} {cnt newer : Nat}
    (hd : ncTransitionDue t since = some d) (hle : d ≤ now)
    (hr : retained t.newer cnt = false) (hs : since' ≤ since) (hn : cnt ≤ newer) :
    ncTransitionDueBy t now since' newer = true := by
  unfold ncTransitionDueBy
  unfold ncTransitionDue at hd
  cases hdays : t.days with
  | none => simp [hdays] at hd
  | some n =>
    simp only [hdays, Option.map] at hd
    have h0 : dueDays since n = d := by simpa using hd
    rw [dueDays_eq_s3Due] at h0
    have h2 := s3Due_mono n hs
    have h3 : s3Due since' n ≤ now := by omega
    cases hnew : t.newer with
    | none => simp [h3]
    | some k =>
      simp only [retained, hnew] at hr
      have : k ≤ (newer : Int) := by
        have : ¬ ((cnt : Int) ≤ k) := by simpa using hr
        omega
      simp [h3, this]

/-! ### expired object delete markers -/

theorem isDmRule_spec {r : Rule} (h : isDmRule r = true) :
    r.enabled = true ∧ ∃ e, r.expiration = some e ∧ e.dm = some true := by
  unfold isDmRule at h
  cases he : r.expiration with
  | none => simp [he] at h
  | some e =>
    simp only [he, Bool.and_eq_true] at h
    exact ⟨h.1, e, rfl, by simpa using h.2⟩

theorem currentDm_some {vs : List Ver} {d : Ver} (h : currentDm vs = some d) :
    d ∈ vs ∧ d.latest = true ∧ d.dm = true := by
  unfold currentDm at h
  have hm := List.mem_of_find?_eq_some h
  have hp := List.find?_some h
  simp only [Bool.and_eq_true] at hp
  exact ⟨by simpa using hm, hp.1, hp.2⟩

theorem dmKey_some {s : Bool} {rules : List Rule} {vs : List Ver} {c : Call} (h : dmKey s rules vs = some c) :
    ∃ d ∈ vs, d.latest = true ∧ d.dm = true ∧ (∀ v ∈ vs, blocksDm s v = false) ∧
      c = .del d.key (some d.vid) none ∧
      ∃ r ∈ rules, isDmRule r = true ∧ ruleMatches r d.key d.size [] = true := by
  unfold dmKey at h
  split at h
  · simp at h
  · rename_i d hd
    obtain ⟨hmem, hl, hdm⟩ := currentDm_some hd
    split at h
    · simp at h
    · rename_i hany
      split at h
      · rename_i r hr
        have hm := List.mem_of_find?_eq_some hr
        have hp := List.find?_some hr
        rw [List.mem_filter] at hm
        refine ⟨d, hmem, hl, hdm, ?_, by simpa using h.symm, r, hm.1, hm.2, hp⟩
        intro v hv
        have : ¬ (vs.any (blocksDm s) = true) := hany
        rw [List.any_eq_true] at this
        cases hb : blocksDm s v with
        | false => rfl
        | true => exact absurd ⟨v, hv, hb⟩ this
      · simp at h

/-! ### "expiration before transition" on the store -/

theorem foldl_applyCall_subset (cs : List Call) (objs : List Obj) :
    ∀ o ∈ cs.foldl applyCall objs, o ∈ objs := by
  induction cs generalizing objs with
  | nil => intro o h; simpa using h
  | cons c cs ih =>
    intro o h
    simp only [List.foldl_cons] at h
    have h1 := ih _ o h
    unfold applyCall at h1
    split at h1
    · exact (List.mem_filter.1 h1).1
    · exact h1

theorem foldl_applyCall_removed (cs : List Call) (objs : List Obj) (k e : Bytes)
    (hin : Call.del k none (some e) ∈ cs) :
    ∀ o ∈ cs.foldl applyCall objs, ¬ (o.key = k ∧ o.etag = e) := by
  induction cs generalizing objs with
  | nil => simp at hin
  | cons c cs ih =>
    intro o h
    simp only [List.foldl_cons] at h
    rcases List.mem_cons.1 hin with hc | hc
    · subst hc
      have h1 := foldl_applyCall_subset cs _ o h
      simp only [applyCall, List.mem_filter] at h1
      intro hk
      have := h1.2
      simp [hk.1, hk.2] at this
    · exact ih _ hc o h


end Pithos.Lifecycle
