/-
C13: `version_frozen` — every operation except the explicit delete of that version keeps a row
that has a version id (frozen fields), in a versioned (Enabled/Suspended) bucket.
-/
import Pithos.Lemmas.S3FrozenDel

namespace Pithos.S3

def Good (q : Quirks) (b : String) (r : Row) (st : State) : Prop :=
  ∃ bk', findBucket st b = some bk' ∧ KeepsRow q r bk'.rows

theorem findBucket_congr {s s' : State} (h : s'.buckets = s.buckets) (b : String) : findBucket s' b = findBucket s b := by
  unfold findBucket; rw [h]

theorem find?_map_other (l : List Bucket) (bk : Bucket) (b : String) (hne : bk.name ≠ b) :
    (l.map fun x => if x.name == bk.name then bk else x).find? (·.name == b) = l.find? (·.name == b) := by
  induction l with
  | nil => rfl
  | cons a t ih =>
    by_cases ha : a.name = bk.name
    · have hab : ¬ a.name = b := by rw [ha]; exact hne
      have h1 : (List.map (fun x => if (x.name == bk.name) = true then bk else x) (a :: t)) =
          bk :: List.map (fun x => if (x.name == bk.name) = true then bk else x) t := by simp [ha]
      rw [h1, List.find?_cons, List.find?_cons]
      have e1 : (bk.name == b) = false := by simpa using hne
      have e2 : (a.name == b) = false := by simpa using hab
      simp only [e1, e2]
      exact ih
    · have h1 : (List.map (fun x => if (x.name == bk.name) = true then bk else x) (a :: t)) =
          a :: List.map (fun x => if (x.name == bk.name) = true then bk else x) t := by simp [ha]
      rw [h1, List.find?_cons, List.find?_cons]
      cases hab : (a.name == b)
      · simp only []; exact ih
      · rfl

theorem findBucket_setBucket_ne {s : State} {bk : Bucket} {b : String} (hne : bk.name ≠ b) :
    findBucket (setBucket s bk) b = findBucket s b := by
  unfold findBucket setBucket
  exact find?_map_other s.buckets bk b hne

/-- One bucket (the one found under `b'`) is replaced by `X`; everything else is untouched. -/
theorem good_update {q : Quirks} {b : String} {r : Row} {s st' : State} {bk bk1 X : Bucket} {b' : String}
    (hfb : findBucket s b = some bk) (hr : KeepsRow q r bk.rows)
    (hfb' : findBucket s b' = some bk1) (hX : X.name = bk1.name) (hst : st'.buckets = (setBucket s X).buckets)
    (hk : b' = b → bk1 = bk → KeepsRow q r X.rows) : Good q b r st' := by
  have hn1 := findBucket_some_name hfb'
  unfold Good
  rw [findBucket_congr hst]
  by_cases hbb : b' = b
  · subst hbb
    have : bk1 = bk := by rw [hfb] at hfb'; injection hfb' with h; exact h.symm
    exact ⟨X, findBucket_setBucket hfb (by rw [hX, hn1]), hk rfl this⟩
  · rw [findBucket_setBucket_ne (by rw [hX, hn1]; exact hbb)]
    exact ⟨bk, hfb, hr⟩

theorem good_set {q : Quirks} {b : String} {r : Row} {s : State} {bk bk1 X : Bucket} {b' : String}
    (hfb : findBucket s b = some bk) (hr : KeepsRow q r bk.rows)
    (hfb' : findBucket s b' = some bk1) (hX : X.name = bk1.name)
    (hk : b' = b → bk1 = bk → KeepsRow q r X.rows) : Good q b r (setBucket s X) :=
  good_update hfb hr hfb' hX rfl hk

theorem good_same {q : Quirks} {b : String} {r : Row} {s st' : State} {bk : Bucket}
    (hfb : findBucket s b = some bk) (hr : KeepsRow q r bk.rows) (hst : st'.buckets = s.buckets) : Good q b r st' := by
  unfold Good; rw [findBucket_congr hst]; exact ⟨bk, hfb, hr⟩

theorem good_ite {q : Quirks} {b : String} {r : Row} {c : Prop} [Decidable c] {x y : State × Out}
    (hx : Good q b r x.1) (hy : Good q b r y.1) : Good q b r (if c then x else y).1 := by
  split <;> assumption

theorem good_dite {q : Quirks} {b : String} {r : Row} {c : Prop} [Decidable c] {x y : State × Out}
    (hx : c → Good q b r x.1) (hy : ¬c → Good q b r y.1) : Good q b r (if c then x else y).1 := by
  split
  · exact hx ‹_›
  · exact hy ‹_›

theorem good_putRow {q : Quirks} {b : String} {r : Row} {s : State} {bk bk1 : Bucket} {b' k : String} {n : NewObj}
    {inm : Bool} {im : IfMatch} {s' : State} {vid : Option Nat} (hinv : Inv s)
    (hfb : findBucket s b = some bk) (hr : r ∈ bk.rows) (hv : r.vid ≠ none)
    (hfb' : findBucket s b' = some bk1) (bkx : Bucket) (hbx : bkx.name = bk1.name) (hrows : bkx.rows = bk1.rows)
    (hok : putRow q s bkx k n inm im = .ok (s', vid)) : Good q b r s' := by
  by_cases hbb : b' = b
  · subst hbb
    have h1 : bk1 = bk := by rw [hfb] at hfb'; injection hfb' with h; exact h.symm
    subst h1
    obtain ⟨X, hX1, hX2, hX3⟩ := keeps_putRow (q := q) r (by rw [hrows]; exact hinv bk1 (findBucket_mem hfb))
      (by rw [hrows]; exact keeps_self hr) hv hok
    exact good_update hfb (keeps_self hr) hfb (by rw [hX2, hbx]) hX1 (fun _ _ => hX3)
  · -- another bucket is written
    have hb1 := hinv bk1 (findBucket_mem hfb')
    obtain ⟨bk2, hbk2, hx⟩ := putRow_ok hok
    have hs : s' = (install q s bk2 k n).1 := by rw [← hx]
    have hname2 : bk2.name = bk1.name := by
      rcases hbk2 with rfl | ⟨c, _, rfl⟩
      · exact hbx
      · exact hbx
    -- the result replaces a bucket named bk1.name ≠ b
    have : ∃ X, s'.buckets = (setBucket s X).buckets ∧ X.name = bk1.name := by
      rw [hs]; unfold install; simp only []
      split
      · exact ⟨_, rfl, by rw [addRow_name, unlatestCur_name, hname2]⟩
      · split
        · exact ⟨_, rfl, by rw [replaceRow_name, unlatestCur_name, hname2]⟩
        · exact ⟨_, rfl, by rw [addRow_name, unlatestCur_name, hname2]⟩
    obtain ⟨X, hX1, hX2⟩ := this
    exact good_update hfb (keeps_self hr) hfb' hX2 hX1 (fun h => absurd h hbb)

theorem version_frozen_T (q : Quirks) (hq : q.appendLatestInPlace = false) (s : State) (hinv : Inv s) (op : Op)
    (b : String) (bk : Bucket) (r : Row) (hfb : findBucket s b = some bk)
    (hr : r ∈ bk.rows) (hv : r.vid ≠ none)
    (hdel : ∀ b' k' vid im, op = .del b' k' vid im → b' = b →
      ¬(k' = r.key ∧ vid = some r.vid) ∧ (vid = none → bk.ver = .off → k' ≠ r.key)) :
    Good q b r (stepT q s op).1 := by
  have g0 : Good q b r s := ⟨bk, hfb, keeps_self hr⟩
  have hbinv := hinv bk (findBucket_mem hfb)
  cases op with
  | mkb b' =>
    simp only [stepT]
    apply good_ite g0
    -- a new bucket is appended; the bucket found first under b is unchanged
    unfold Good findBucket
    simp only [List.find?_append]
    unfold findBucket at hfb
    rw [hfb]
    exact ⟨bk, rfl, keeps_self hr⟩
  | rmb b' =>
    simp only [stepT]
    cases hfb' : findBucket s b' with
    | none => exact g0
    | some bk1 =>
      simp only []
      apply good_dite
      · intro _; exact g0
      · intro hne
        -- the bucket is removed only when it has no rows: it is not ours
        have hbb : b' ≠ b := by
          intro e; subst e
          have : bk1 = bk := by rw [hfb] at hfb'; injection hfb' with h; exact h.symm
          subst this
          apply hne
          cases hrows : bk1.rows with
          | nil => rw [hrows] at hr; cases hr
          | cons a t => simp
        unfold Good findBucket
        simp only []
        unfold findBucket at hfb
        refine ⟨bk, ?_, keeps_self hr⟩
        -- filtering out buckets named b' ≠ b does not change the lookup of b
        have : ∀ l : List Bucket, l.find? (·.name == b) = some bk →
            (l.filter (fun x => x.name != b')).find? (·.name == b) = some bk := by
          intro l
          induction l with
          | nil => intro h; cases h
          | cons a t ih =>
            intro h
            rw [List.find?_cons] at h
            cases hab : (a.name == b)
            · rw [hab] at h
              simp only [] at h
              rw [List.filter_cons]
              split
              · rw [List.find?_cons, hab]; exact ih h
              · exact ih h
            · rw [hab] at h
              simp only [] at h
              have ha : a.name = b := by simpa using hab
              have hkeep : (a.name != b') = true := by simp [ha]; exact fun e => hbb e.symm
              rw [List.filter_cons, hkeep]
              simp only [if_true]
              rw [List.find?_cons, hab]
              exact h
        exact this s.buckets hfb
  | setVer b' v =>
    simp only [stepT]
    cases hfb' : findBucket s b' with
    | none => exact g0
    | some bk1 =>
      exact good_update hfb (keeps_self hr) hfb' (X := { bk1 with ver := v }) rfl rfl (fun _ h => by subst h; exact keeps_self hr)
  | put b' k body o inm im =>
    simp only [stepT]
    cases hfb' : findBucket s b' with
    | none => exact g0
    | some bk1 =>
      simp only []
      cases hp : putRow q s bk1 k { parts := [body], etag := singleETag body, o := o } inm im with
      | error e => exact g0
      | ok x => obtain ⟨s', vid⟩ := x; exact good_putRow hinv hfb hr hv hfb' bk1 rfl rfl hp
  | get b' k vid =>
    simp only [stepT]
    cases hfb' : findBucket s b' with
    | none => exact g0
    | some bk1 => simp only []; cases resolve bk1 k vid <;> exact g0
  | head b' k vid =>
    simp only [stepT]
    cases hfb' : findBucket s b' with
    | none => exact g0
    | some bk1 => simp only []; cases resolve bk1 k vid <;> exact g0
  | del b' k' vid im =>
    simp only [stepT]
    cases hfb' : findBucket s b' with
    | none => exact g0
    | some bk1 =>
      simp only []
      rcases deleteOp_keeps q s bk1 k' vid im r with h | ⟨X, h1, h2, h3⟩
      · exact good_same hfb (keeps_self hr) h
      · refine good_update hfb (keeps_self hr) hfb' h2 h1 (fun hbb hb1 => ?_)
        subst hb1
        obtain ⟨d1, d2⟩ := hdel b' k' vid im rfl hbb
        exact h3 ⟨hbinv, hr, hv, d2, d1⟩
  | copy sb sk svid db dk rm rt o =>
    simp only [stepT]
    cases hsb : findBucket s sb with
    | none => exact g0
    | some sbk =>
      simp only []
      cases hres : resolve sbk sk svid with
      | error e => exact g0
      | ok src =>
        simp only []
        cases hdb : findBucket s db with
        | none => exact g0
        | some dbk =>
          simp only []
          generalize hn : ({ parts := src.parts, etag := src.etag, o := _ } : NewObj) = n
          cases hp : putRow q s dbk dk n false IfMatch.none with
          | error e => exact g0
          | ok x => obtain ⟨s', vid⟩ := x; exact good_putRow hinv hfb hr hv hdb dbk rfl rfl hp
  | append b' k body off =>
    simp only [stepT]
    cases hfb' : findBucket s b' with
    | none => exact g0
    | some bk1 =>
      simp only []
      apply good_ite g0
      apply good_ite
      · generalize hn : (NewObj.mk _ _ _ _ _) = n
        cases hp : putRow q s bk1 k n false IfMatch.none with
        | error e => exact g0
        | ok x => obtain ⟨s', vid⟩ := x; exact good_putRow hinv hfb hr hv hfb' bk1 rfl rfl hp
      · simp only [hq, Bool.false_eq_true, ↓reduceIte]
        have putPath : ∀ n : NewObj, Good q b r
            (match putRow q s bk1 k n false IfMatch.none with
             | .error e => (s, Out.err e)
             | .ok (s', _) => (s', Out.appended n.etag n.parts.flatten.length)).1 := by
          intro n
          cases hp : putRow q s bk1 k n false IfMatch.none with
          | error e => exact g0
          | ok x => obtain ⟨s', vid⟩ := x; exact good_putRow hinv hfb hr hv hfb' bk1 rfl rfl hp
        cases hl : latestRow bk1 k with
        | none => exact putPath _
        | some r0 =>
          simp only []
          by_cases hdm : r0.dm = true
          · simp only [hdm, ↓reduceIte]
            exact putPath _
          · simp only [hdm, Bool.false_eq_true, ↓reduceIte]
            by_cases hv0 : r0.vid.isNone = true
            · simp only [hv0, ↓reduceIte]
              apply good_ite g0
              have hc : r0 ∈ bk1.rows ∧ r0.vid = none := ⟨(latestRow_some hl).1, by simpa using hv0⟩
              refine good_set hfb (keeps_self hr) hfb' rfl (fun _ hb1 => ?_)
              subst hb1
              rw [replaceRow_rows]
              apply keeps_repl hbinv.nodup (keeps_self hr)
              intro x hx hxy hxr
              exfalso
              have h1 : x = r0 := eq_of_id_eq hbinv.nodup hx hc.1 hxy
              have h2 : x = r := eq_of_id_eq hbinv.nodup hx hr hxr
              apply hv; rw [← h2, h1]; exact hc.2
            · simp only [hv0, Bool.false_eq_true, ↓reduceIte]
              exact putPath _
  | mpu b' k o =>
    simp only [stepT]
    cases hfb' : findBucket s b' with
    | none => exact g0
    | some bk1 =>
      exact good_update hfb (keeps_self hr) hfb' (X := { bk1 with uploads := bk1.uploads ++ [_] }) rfl rfl
        (fun _ h => by subst h; exact keeps_self hr)
  | uploadPart b' k uid n body =>
    simp only [stepT]
    cases hfb' : findBucket s b' with
    | none => exact g0
    | some bk1 =>
      simp only []
      cases bk1.uploads.find? (fun u => u.uid == uid && u.key == k) with
      | none => exact g0
      | some u =>
        simp only []
        exact good_set hfb (keeps_self hr) hfb' rfl (fun _ h => by subst h; exact keeps_self hr)
  | complete b' k uid declared inm im =>
    simp only [stepT]
    cases hfb' : findBucket s b' with
    | none => exact g0
    | some bk1 =>
      simp only []
      cases bk1.uploads.find? (fun u => u.uid == uid && u.key == k) with
      | none => exact g0
      | some u =>
        simp only []
        apply good_ite g0
        cases declaredErr u declared with
        | some e => exact g0
        | none =>
          simp only []
          generalize hn : (NewObj.mk _ _ _ _ _) = n
          cases hp : putRow q s { bk1 with uploads := bk1.uploads.filter (fun x => x.uid != uid) } k n inm im with
          | error e => exact g0
          | ok x =>
            obtain ⟨s', vid⟩ := x
            exact good_putRow hinv hfb hr hv hfb' { bk1 with uploads := bk1.uploads.filter (fun x => x.uid != uid) } rfl rfl hp
  | abort b' k uid =>
    simp only [stepT]
    cases hfb' : findBucket s b' with
    | none => exact g0
    | some bk1 =>
      simp only []
      cases bk1.uploads.find? (fun u => u.uid == uid && u.key == k) with
      | none => exact g0
      | some u =>
        simp only []
        exact good_set hfb (keeps_self hr) hfb' rfl (fun _ h => by subst h; exact keeps_self hr)
  | getTags b' k vid =>
    simp only [stepT]
    cases hfb' : findBucket s b' with
    | none => exact g0
    | some bk1 => simp only []; cases resolve bk1 k vid <;> exact g0
  | putTags b' k vid tags =>
    simp only [stepT]
    cases hfb' : findBucket s b' with
    | none => exact g0
    | some bk1 =>
      simp only []
      cases hres : resolve bk1 k vid with
      | error e => exact g0
      | ok c =>
        simp only []
        refine good_update hfb (keeps_self hr) hfb' (X := replaceRow bk1 _) rfl rfl (fun _ hb1 => ?_)
        subst hb1
        exact keeps_touch s.clock c _ hbinv (keeps_self hr) (resolve_mem hres) rfl ⟨rfl, rfl, rfl, rfl, rfl, rfl⟩
  | delTags b' k vid =>
    simp only [stepT]
    cases hfb' : findBucket s b' with
    | none => exact g0
    | some bk1 =>
      simp only []
      cases hres : resolve bk1 k vid with
      | error e => exact g0
      | ok c =>
        simp only []
        refine good_update hfb (keeps_self hr) hfb' (X := replaceRow bk1 _) rfl rfl (fun _ hb1 => ?_)
        subst hb1
        exact keeps_touch s.clock c _ hbinv (keeps_self hr) (resolve_mem hres) rfl ⟨rfl, rfl, rfl, rfl, rfl, rfl⟩
  | transition b' k cls vid =>
    simp only [stepT]
    cases hfb' : findBucket s b' with
    | none => exact g0
    | some bk1 =>
      simp only []
      have key : ∀ (ro : Option Row), (∀ c, ro = some c → c ∈ bk1.rows) →
          Good q b r (match ro with
            | none => (s, Out.err Err.noSuchKey)
            | some c => if c.dm = true then (s, Out.err Err.noSuchKey)
              else (setBucket s (replaceRow bk1 (touch q s.clock { c with cls := some cls, seqBase := 0 })), Out.unit)).1 := by
        intro ro hro
        cases ro with
        | none => exact g0
        | some c =>
          simp only []
          apply good_ite g0
          refine good_update hfb (keeps_self hr) hfb' (X := replaceRow bk1 _) rfl rfl (fun _ hb1 => ?_)
          subst hb1
          exact keeps_touch s.clock c _ hbinv (keeps_self hr) (hro c rfl) rfl ⟨rfl, rfl, rfl, rfl, rfl, rfl⟩
      cases vid with
      | none => exact key (latestRow bk1 k) (fun c hc => (latestRow_some hc).1)
      | some v => exact key (rowByVid bk1 k v) (fun c hc => (rowByVid_mem hc).1)
  | list b' =>
    simp only [stepT]
    cases hfb' : findBucket s b' with
    | none => exact g0
    | some bk1 => exact g0
  | listVersions b' =>
    simp only [stepT]
    cases hfb' : findBucket s b' with
    | none => exact g0
    | some bk1 => exact g0
  | listBuckets => simp only [stepT]; exact g0

end Pithos.S3
