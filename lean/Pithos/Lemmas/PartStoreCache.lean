/-
`Sim` is preserved by the cache and outbox middlewares (helpers for C15).
-/
import Pithos.Lemmas.PartStoreMw

namespace Pithos.PartStore
open Pithos.Codec

/-! ## cache -/

/-- The cache invariant: whatever is cached for an id is the content the inner store holds for it. -/
def CacheInv {S : Store} {R : Restr} (sim : Sim R S) (s : CacheSt S.σ) : Prop :=
  sim.Inv s.inner ∧ ∀ i b, KV.find s.cache i = some b → sim.abs s.inner i = some b

theorem OutOk_ok_inv {st : Stream} {e : Option Bytes} (h : OutOk (.ok st) e) : e = some st.bytes := by
  cases e with
  | none => simp [OutOk] at h
  | some b =>
    obtain ⟨st', h1, h2⟩ := h
    injection h1 with h1
    subst h1; rw [h2]

theorem cache_get_spec (max : Nat) {S : Store} {R : Restr} (sim : Sim R S) (tx : Bool) (s : CacheSt S.σ) (i : PartId)
    (h : CacheInv sim s) (a : Allowed R (sim.abs s.inner i)) :
    CacheInv sim ((cacheWrap max S).get tx s i).st ∧
    sim.abs ((cacheWrap max S).get tx s i).st.inner = sim.abs s.inner ∧
    OutOk ((cacheWrap max S).get tx s i).out (sim.abs s.inner i) ∧
    (R.clean = true → ∀ st, ((cacheWrap max S).get tx s i).out = .ok st → st.afterEof = []) ∧
    ((cacheWrap max S).get tx s i).panicked = false := by
  have hI := sim.get_inv tx s.inner i h.1 a
  have hA := sim.get_abs tx s.inner i h.1 a
  have hO := sim.get_out tx s.inner i h.1 a
  have hC := fun st hc => sim.get_clean tx s.inner i st h.1 a hc
  have hQ := sim.get_quiet tx s.inner i h.1 a
  simp only [cacheWrap]
  cases hf : KV.find s.cache i with
  | some b =>
    simp only
    refine ⟨h, by trivial, ?_, ?_, by trivial⟩
    · rw [h.2 i b hf]; exact ⟨_, rfl, rfl⟩
    · intro _ st he; injection he with he; rw [← he]
  | none =>
    simp only
    -- the state whose inner part is the inner result and whose cache is untouched
    have keep : CacheInv sim { s with inner := (S.get tx s.inner i).st } :=
      ⟨hI, fun j b hj => by show sim.abs (S.get tx s.inner i).st j = some b; rw [hA]; exact h.2 j b hj⟩
    by_cases hh : s.hints.contains i = true
    · simp only [hh, if_true]
      exact ⟨keep, hA, hO, fun hc st he => hC st hc he, hQ⟩
    · have hh' : s.hints.contains i = false := by simpa using hh
      simp only [hh', Bool.false_eq_true, if_false]
      cases ho : (S.get tx s.inner i).out with
      | notFound =>
        simp only
        rw [ho] at hO
        exact ⟨keep, hA, hO, (fun _ st he => by cases he), hQ⟩
      | err =>
        simp only
        rw [ho] at hO
        exact ⟨keep, hA, hO, (fun _ st he => by cases he), hQ⟩
      | ok st =>
        simp only
        rw [ho] at hO
        have hb := OutOk_ok_inv hO
        have hclean : R.clean = true → st.afterEof = [] := fun hc => hC st hc ho
        by_cases hm : st.bytes.length ≤ max
        · simp only [hm, if_true]
          refine ⟨⟨hI, fun j b hj => ?_⟩, hA, ?_, ?_, hQ⟩
          · show sim.abs (S.get tx s.inner i).st j = some b
            rw [hA]
            by_cases hji : j = i
            · subst hji
              rw [KV.find_set_self] at hj
              rw [hb, ← Option.some.inj hj]
            · rw [KV.find_set_ne _ _ _ _ hji] at hj
              exact h.2 j b hj
          · rw [hb]; exact ⟨_, rfl, rfl⟩
          · intro hc st' he; injection he with he; rw [← he]; exact hclean hc
        · simp only [hm, if_false]
          refine ⟨⟨hI, fun j b hj => ?_⟩, hA, ?_, ?_, hQ⟩
          · show sim.abs (S.get tx s.inner i).st j = some b
            rw [hA]
            by_cases hji : j = i
            · subst hji
              rw [KV.find_erase_self] at hj; cases hj
            · rw [KV.find_erase_ne _ _ _ hji] at hj
              exact h.2 j b hj
          · rw [hb]; exact ⟨_, rfl, rfl⟩
          · intro hc st' he; injection he with he; rw [← he]; exact hclean hc

/-- **the cache preserves correctness**, for the same histories as the inner store. -/
def cacheSim (max : Nat) {S : Store} {R : Restr} (sim : Sim R S) : Sim R (cacheWrap max S) where
  Inv (s : CacheSt S.σ) := CacheInv sim s
  abs (s : CacheSt S.σ) := sim.abs s.inner
  inv_init := ⟨sim.inv_init, fun i b h => by simp [KV.find] at h⟩
  abs_init i := sim.abs_init i
  put_inv tx s i b h hb := by
    have hI := sim.put_inv tx s.inner i b h.1 hb
    have hA := sim.put_abs tx s.inner i b h.1 hb
    simp only [cacheWrap]
    by_cases hm : b.length ≤ max
    · simp only [hm, if_true]
      refine ⟨hI, fun j b' hj => ?_⟩
      show sim.abs (S.put tx s.inner i b) j = some b'
      rw [hA]
      by_cases hji : j = i
      · subst hji; rw [KV.find_set_self] at hj; rw [upd_self]; exact hj
      · rw [KV.find_set_ne _ _ _ _ hji] at hj; rw [upd_ne _ _ _ _ hji]; exact h.2 j b' hj
    · simp only [hm, if_false]
      refine ⟨hI, fun j b' hj => ?_⟩
      show sim.abs (S.put tx s.inner i b) j = some b'
      rw [hA]
      by_cases hji : j = i
      · subst hji; rw [KV.find_erase_self] at hj; cases hj
      · rw [KV.find_erase_ne _ _ _ hji] at hj; rw [upd_ne _ _ _ _ hji]; exact h.2 j b' hj
  put_abs tx s i b h hb := by
    have hA := sim.put_abs tx s.inner i b h.1 hb
    simp only [cacheWrap]
    split <;> exact hA
  get_inv tx s i h a := (cache_get_spec max sim tx s i h a).1
  get_abs tx s i h a := (cache_get_spec max sim tx s i h a).2.1
  get_out tx s i h a := (cache_get_spec max sim tx s i h a).2.2.1
  get_clean tx s i st h a hc he := (cache_get_spec max sim tx s i h a).2.2.2.1 hc st he
  get_quiet tx s i h a := (cache_get_spec max sim tx s i h a).2.2.2.2
  del_inv tx s i h := by
    have hA := sim.del_abs tx s.inner i h.1
    refine ⟨sim.del_inv tx s.inner i h.1, fun j b' hj => ?_⟩
    show sim.abs (S.del tx s.inner i) j = some b'
    have hj' : KV.find (KV.erase s.cache i) j = some b' := hj
    rw [hA]
    by_cases hji : j = i
    · subst hji; rw [KV.find_erase_self] at hj'; cases hj'
    · rw [KV.find_erase_ne _ _ _ hji] at hj'; rw [upd_ne _ _ _ _ hji]; exact h.2 j b' hj'
  del_abs tx s i h := sim.del_abs tx s.inner i h.1
  tick_inv s h := by
    refine ⟨sim.tick_inv s.inner h.1, fun j b' hj => ?_⟩
    show sim.abs (S.tick s.inner) j = some b'
    rw [sim.tick_abs s.inner h.1]; exact h.2 j b' hj
  tick_abs s h := sim.tick_abs s.inner h.1
  ids_mem s i h := sim.ids_mem s.inner i h.1
  ids_nodup s h := sim.ids_nodup s.inner h.1

end Pithos.PartStore
