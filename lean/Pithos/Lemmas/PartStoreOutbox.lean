/-
`Sim` is preserved by the outbox middleware, under every interleaving of caller operations and
worker steps (`tick`) (helper for C15).
-/
import Pithos.Lemmas.PartStoreMw

namespace Pithos.PartStore
open Pithos.Codec

/-! ## dedup -/

theorem mem_dedup (l : List PartId) (a : PartId) : a ∈ dedup l ↔ a ∈ l := by
  induction l with
  | nil => simp [dedup]
  | cons b t ih =>
    simp only [dedup, List.mem_cons, List.mem_filter, ih]
    constructor
    · rintro (h | ⟨h, _⟩)
      · exact Or.inl h
      · exact Or.inr h
    · rintro (h | h)
      · exact Or.inl h
      · by_cases hab : a = b
        · exact Or.inl hab
        · exact Or.inr ⟨h, by simpa using hab⟩

theorem nodup_dedup (l : List PartId) : (dedup l).Nodup := by
  induction l with
  | nil => simp [dedup]
  | cons b t ih =>
    simp only [dedup, List.nodup_cons, List.mem_filter]
    refine ⟨?_, ih.filter _⟩
    rintro ⟨_, h⟩
    simp at h

/-! ## the queue -/

theorem lastEntry_append (q : List Entry) (e : Entry) (j : PartId) :
    lastEntry (q ++ [e]) j = if e.id == j then some e else lastEntry q j := by
  induction q with
  | nil => simp [lastEntry]
  | cons a t ih =>
    simp only [List.cons_append, lastEntry, ih]
    by_cases h : (e.id == j) = true
    · simp [h]
    · simp [h]

theorem lastEntry_some (q : List Entry) (j : PartId) (e : Entry) (h : lastEntry q j = some e) : e ∈ q ∧ e.id = j := by
  induction q with
  | nil => simp [lastEntry] at h
  | cons a t ih =>
    simp only [lastEntry] at h
    cases ht : lastEntry t j with
    | some e' =>
      rw [ht] at h
      simp only [Option.some.injEq] at h
      subst h
      exact ⟨List.mem_cons_of_mem _ (ih ht).1, (ih ht).2⟩
    | none =>
      rw [ht] at h
      by_cases ha : (a.id == j) = true
      · simp only [ha, if_true, Option.some.injEq] at h
        subst h
        exact ⟨List.mem_cons_self, by simpa using ha⟩
      · simp [ha] at h

/-- The content the outbox store holds for an id: the newest queue entry decides, else the inner store. -/
def outboxAbs (q : List Entry) (m : PartId → Option Bytes) (j : PartId) : Option Bytes :=
  match lastEntry q j with
  | some e => if e.isPut then some (concat e.chunks) else none
  | none => m j

theorem outboxAbs_cons_put (e : Entry) (rest : List Entry) (m : PartId → Option Bytes) (hp : e.isPut = true) :
    outboxAbs rest (upd m e.id (some (concat e.chunks))) = outboxAbs (e :: rest) m := by
  funext j
  simp only [outboxAbs, lastEntry]
  cases lastEntry rest j with
  | some e' => rfl
  | none =>
    by_cases h : (e.id == j) = true
    · have : j = e.id := (beq_iff_eq.1 h).symm
      subst this
      simp [hp]
    · have : j ≠ e.id := by intro hj; apply h; simp [hj]
      simp [h, upd_ne _ _ _ _ this]

theorem outboxAbs_cons_del (e : Entry) (rest : List Entry) (m : PartId → Option Bytes) (hp : e.isPut = false) :
    outboxAbs rest (upd m e.id none) = outboxAbs (e :: rest) m := by
  funext j
  simp only [outboxAbs, lastEntry]
  cases lastEntry rest j with
  | some e' => rfl
  | none =>
    by_cases h : (e.id == j) = true
    · have : j = e.id := (beq_iff_eq.1 h).symm
      subst this
      simp [hp]
    · have : j ≠ e.id := by intro hj; apply h; simp [hj]
      simp [h, upd_ne _ _ _ _ this]

def OutboxInv {S : Store} {R : Restr} (sim : Sim R S) (s : S.σ × List Entry) : Prop :=
  sim.Inv s.1 ∧ ∀ e ∈ s.2, e.isPut = true → R.okContent (concat e.chunks)

theorem outbox_get_spec {S : Store} {R : Restr} (sim : Sim R S) (tx : Bool) (s : S.σ × List Entry) (i : PartId)
    (h : OutboxInv sim s) (a : Allowed R (outboxAbs s.2 (sim.abs s.1) i)) :
    OutboxInv sim ((outboxWrap S).get tx s i).st ∧
    outboxAbs ((outboxWrap S).get tx s i).st.2 (sim.abs ((outboxWrap S).get tx s i).st.1) = outboxAbs s.2 (sim.abs s.1) ∧
    OutOk ((outboxWrap S).get tx s i).out (outboxAbs s.2 (sim.abs s.1) i) ∧
    (R.clean = true → ∀ st, ((outboxWrap S).get tx s i).out = .ok st → st.afterEof = []) ∧
    ((outboxWrap S).get tx s i).panicked = false := by
  simp only [outboxWrap]
  cases hl : lastEntry s.2 i with
  | none =>
    simp only
    have habs : outboxAbs s.2 (sim.abs s.1) i = sim.abs s.1 i := by simp [outboxAbs, hl]
    rw [habs] at a ⊢
    have hA := sim.get_abs tx s.1 i h.1 a
    refine ⟨⟨sim.get_inv tx s.1 i h.1 a, h.2⟩, ?_, sim.get_out tx s.1 i h.1 a,
      (fun hc st he => sim.get_clean tx s.1 i st h.1 a hc he), sim.get_quiet tx s.1 i h.1 a⟩
    show outboxAbs s.2 (sim.abs (S.get tx s.1 i).st) = _
    rw [hA]
  | some e =>
    simp only
    have habs : outboxAbs s.2 (sim.abs s.1) i = if e.isPut then some (concat e.chunks) else none := by
      simp [outboxAbs, hl]
    rw [habs]
    by_cases hp : e.isPut = true
    · simp only [hp, if_true]
      exact ⟨h, by trivial, ⟨_, rfl, rfl⟩, (fun _ st he => by injection he with he; rw [← he]), by trivial⟩
    · have hp' : e.isPut = false := by simpa using hp
      simp only [hp', Bool.false_eq_true, if_false]
      exact ⟨h, by trivial, rfl, (fun _ st he => by cases he), by trivial⟩

theorem outbox_ids_mem (q : List Entry) (inner : List PartId) (m : PartId → Option Bytes) (i : PartId)
    (hin : i ∈ inner ↔ (m i).isSome = true) :
    i ∈ (inner.filter fun i => match lastEntry q i with
          | some e => e.isPut
          | none => true) ++
        ((dedup (q.map (·.id))).filter fun i =>
          (match lastEntry q i with | some e => e.isPut | none => false) && !inner.contains i)
      ↔ (outboxAbs q m i).isSome = true := by
  simp only [List.mem_append, List.mem_filter, mem_dedup, outboxAbs]
  cases hl : lastEntry q i with
  | none => simp [hin]
  | some e =>
    have hm := lastEntry_some q i e hl
    have hq : i ∈ q.map (·.id) := List.mem_map.2 ⟨e, hm.1, hm.2⟩
    by_cases hp : e.isPut = true
    · simp only [hp, and_true, Bool.true_and, if_true, Option.isSome_some, iff_true]
      by_cases hi : i ∈ inner
      · exact Or.inl hi
      · exact Or.inr ⟨hq, by simpa using hi⟩
    · have hp' : e.isPut = false := by simpa using hp
      simp [hp']

theorem outbox_ids_nodup (q : List Entry) (inner : List PartId) (hn : inner.Nodup) :
    ((inner.filter fun i => match lastEntry q i with
          | some e => e.isPut
          | none => true) ++
        ((dedup (q.map (·.id))).filter fun i =>
          (match lastEntry q i with | some e => e.isPut | none => false) && !inner.contains i)).Nodup := by
  rw [List.nodup_append]
  refine ⟨hn.filter _, (nodup_dedup _).filter _, ?_⟩
  intro a ha b hb hab
  subst hab
  simp only [List.mem_filter] at ha hb
  have : a ∉ inner := by
    have := hb.2
    simp only [Bool.and_eq_true, Bool.not_eq_true', List.contains_eq_mem, decide_eq_false_iff_not] at this
    exact this.2
  exact this ha.1

/-- **the outbox preserves correctness**: for every interleaving of `put/get/del/ids` with worker
steps, the outbox store over a correct inner store is correct — the newest queue entry of an id
decides, and replaying the head of the queue into the inner store changes nothing observable. -/
def outboxSim {S : Store} {R : Restr} (sim : Sim R S) : Sim R (outboxWrap S) where
  Inv (s : S.σ × List Entry) := OutboxInv sim s
  abs (s : S.σ × List Entry) := outboxAbs s.2 (sim.abs s.1)
  inv_init := ⟨sim.inv_init, fun e he => by cases he⟩
  abs_init i := by show outboxAbs [] (sim.abs S.init) i = none; simp [outboxAbs, lastEntry, sim.abs_init]
  put_inv tx s i b h hb := by
    refine ⟨h.1, fun e he hp => ?_⟩
    have he' : e ∈ s.2 ++ [⟨true, i, chunks outboxChunkSize b⟩] := he
    rcases List.mem_append.1 he' with h1 | h1
    · exact h.2 e h1 hp
    · simp only [List.mem_singleton] at h1
      subst h1
      show R.okContent (concat (chunks outboxChunkSize b))
      rw [concat_chunks]; exact hb
  put_abs tx s i b h hb := by
    funext j
    show outboxAbs (s.2 ++ [⟨true, i, chunks outboxChunkSize b⟩]) (sim.abs s.1) j
      = upd (outboxAbs s.2 (sim.abs s.1)) i (some b) j
    by_cases hj : j = i
    · subst hj; simp [outboxAbs, lastEntry_append, concat_chunks]
    · have : ¬ (i == j) = true := fun hc => hj (beq_iff_eq.1 hc).symm
      rw [upd_ne _ _ _ _ hj]
      simp [outboxAbs, lastEntry_append, this]
  get_inv tx s i h a := (outbox_get_spec sim tx s i h a).1
  get_abs tx s i h a := (outbox_get_spec sim tx s i h a).2.1
  get_out tx s i h a := (outbox_get_spec sim tx s i h a).2.2.1
  get_clean tx s i st h a hc he := (outbox_get_spec sim tx s i h a).2.2.2.1 hc st he
  get_quiet tx s i h a := (outbox_get_spec sim tx s i h a).2.2.2.2
  del_inv tx s i h := by
    refine ⟨h.1, fun e he hp => ?_⟩
    have he' : e ∈ s.2 ++ [⟨false, i, []⟩] := he
    rcases List.mem_append.1 he' with h1 | h1
    · exact h.2 e h1 hp
    · simp only [List.mem_singleton] at h1
      subst h1
      cases hp
  del_abs tx s i h := by
    funext j
    show outboxAbs (s.2 ++ [⟨false, i, []⟩]) (sim.abs s.1) j = upd (outboxAbs s.2 (sim.abs s.1)) i none j
    by_cases hj : j = i
    · subst hj; simp [outboxAbs, lastEntry_append]
    · have : ¬ (i == j) = true := fun hc => hj (beq_iff_eq.1 hc).symm
      rw [upd_ne _ _ _ _ hj]
      simp [outboxAbs, lastEntry_append, this]
  tick_inv s h := by
    obtain ⟨s1, q⟩ := s
    cases q with
    | nil => exact ⟨sim.tick_inv s1 h.1, fun e he => by cases he⟩
    | cons e rest =>
      simp only [outboxWrap]
      by_cases hp : e.isPut = true
      · simp only [hp, if_true]
        exact ⟨sim.put_inv _ s1 e.id _ h.1 (h.2 e List.mem_cons_self hp),
          fun e' he' => h.2 e' (List.mem_cons_of_mem _ he')⟩
      · simp only [hp, if_false]
        exact ⟨sim.del_inv _ s1 e.id h.1, fun e' he' => h.2 e' (List.mem_cons_of_mem _ he')⟩
  tick_abs s h := by
    obtain ⟨s1, q⟩ := s
    cases q with
    | nil =>
      show outboxAbs [] (sim.abs (S.tick s1)) = outboxAbs [] (sim.abs s1)
      rw [sim.tick_abs s1 h.1]
    | cons e rest =>
      simp only [outboxWrap]
      by_cases hp : e.isPut = true
      · simp only [hp, if_true]
        show outboxAbs rest (sim.abs (S.put _ s1 e.id (concat e.chunks))) = outboxAbs (e :: rest) (sim.abs s1)
        rw [sim.put_abs _ s1 e.id _ h.1 (h.2 e List.mem_cons_self hp)]
        exact outboxAbs_cons_put e rest _ hp
      · have hp' : e.isPut = false := by simpa using hp
        simp only [hp', Bool.false_eq_true, if_false]
        show outboxAbs rest (sim.abs (S.del _ s1 e.id)) = outboxAbs (e :: rest) (sim.abs s1)
        rw [sim.del_abs _ s1 e.id h.1]
        exact outboxAbs_cons_del e rest _ hp'
  ids_mem s i h := outbox_ids_mem s.2 (S.ids s.1) (sim.abs s.1) i (sim.ids_mem s.1 i h.1)
  ids_nodup s h := outbox_ids_nodup s.2 (S.ids s.1) (sim.ids_nodup s.1 h.1)

end Pithos.PartStore
