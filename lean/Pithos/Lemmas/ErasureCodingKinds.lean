/-
Which concrete kinds of shard damage leave a shard *honest* in the sense of
`Pithos.Lemmas.ErasureCodingFaults` (helpers for C17): a missing shard, a shard truncated at ANY byte
position, a frame whose payload / hash field / stripe-index field was altered (barring a hash
collision), fewer than a frame header of trailing bytes.
-/
import Pithos.Lemmas.ErasureCodingFaults

namespace Pithos.EC
open Pithos.Codec

/-- The hash does not collide on this particular pair of inputs. (A function with 32-byte values
cannot be injective on all byte strings, so "collision-free" is assumed per pair: the damaged payload
at hand must not be a SHA-256 collision of the true payload.) -/
def NoCollision (H : Bytes → Bytes) (a b : Bytes) : Prop := H a = H b → a = b

/-! ## big-endian fields are injective -/

theorem fromBE_lt (bs : Bytes) : fromBE bs < 256 ^ bs.length := by
  induction bs with
  | nil => simp [fromBE]
  | cons x t ih =>
    rw [fromBE_cons, List.length_cons, Nat.pow_succ]
    have hx : x.toNat < 256 := x.toNat_lt
    have : x.toNat * 256 ^ t.length + fromBE t < (x.toNat + 1) * 256 ^ t.length := by
      rw [Nat.add_mul, Nat.one_mul]; omega
    have h2 : (x.toNat + 1) * 256 ^ t.length ≤ 256 * 256 ^ t.length := Nat.mul_le_mul_right _ (by omega)
    rw [Nat.mul_comm (256 ^ t.length) 256]
    omega

theorem beN_add_mul (w a r : Nat) : beN w (a * 256 ^ w + r) = beN w r := by
  induction w generalizing a r with
  | zero => rfl
  | succ w ih =>
    simp only [beN]
    have e : a * 256 ^ (w + 1) = (a * 256) * 256 ^ w := by
      rw [Nat.pow_succ, Nat.mul_comm (256 ^ w) 256, ← Nat.mul_assoc]
    have h1 : (a * 256 ^ (w + 1) + r) / 256 ^ w % 256 = r / 256 ^ w % 256 := by
      rw [e, Nat.add_comm, Nat.add_mul_div_right _ _ (Nat.pow_pos (by decide)), Nat.add_mul_mod_self_right]
    have h2 : beN w (a * 256 ^ (w + 1) + r) = beN w r := by
      rw [e]; exact ih (a * 256) r
    rw [h1, h2]

theorem beN_fromBE (bs : Bytes) : beN bs.length (fromBE bs) = bs := by
  induction bs with
  | nil => rfl
  | cons x t ih =>
    rw [fromBE_cons, List.length_cons]
    simp only [beN]
    have hlt := fromBE_lt t
    have h1 : (x.toNat * 256 ^ t.length + fromBE t) / 256 ^ t.length % 256 = x.toNat := by
      rw [Nat.add_comm, Nat.add_mul_div_right _ _ (Nat.pow_pos (by decide)), Nat.div_eq_of_lt hlt, Nat.zero_add]
      exact Nat.mod_eq_of_lt x.toNat_lt
    rw [h1, beN_add_mul, ih]
    simp

theorem fromBE_inj (a b : Bytes) (hl : a.length = b.length) (h : fromBE a = fromBE b) : a = b := by
  rw [← beN_fromBE a, ← beN_fromBE b, hl, h]

/-! ## what the frame reader does with a 48-byte header followed by a body -/

theorem readFrame_fields (H : Bytes → Bytes) (j : Nat) (idxB dbB plB h body : Bytes)
    (l1 : idxB.length = 8) (l2 : dbB.length = 4) (l3 : plB.length = 4) (l4 : h.length = 32) :
    readFrame H j (idxB ++ (dbB ++ (plB ++ (h ++ body)))) =
      if fromBE dbB < 1 ∨ fromBE plB < 1 ∨ fromBE idxB ≠ j % 18446744073709551616 then .bad else
      if body.length < fromBE plB then .bad else
      if H (body.take (fromBE plB)) ≠ h then .bad else
      .ok (fromBE dbB) (body.take (fromBE plB)) (body.drop (fromBE plB)) := by
  unfold readFrame
  have hlen : ¬ (idxB ++ (dbB ++ (plB ++ (h ++ body)))).length < frameHeaderSize := by
    simp [l1, l2, l3, l4, frameHeaderSize]; omega
  rw [if_neg hlen]
  have t8 : (idxB ++ (dbB ++ (plB ++ (h ++ body)))).take 8 = idxB := take_append_len _ _ _ l1
  have d8 : (idxB ++ (dbB ++ (plB ++ (h ++ body)))).drop 8 = dbB ++ (plB ++ (h ++ body)) := drop_append_len _ _ _ l1
  have d12 : (idxB ++ (dbB ++ (plB ++ (h ++ body)))).drop 12 = plB ++ (h ++ body) := by
    rw [show (12 : Nat) = 8 + 4 from rfl, ← List.drop_drop, d8, drop_append_len _ _ _ l2]
  have d16 : (idxB ++ (dbB ++ (plB ++ (h ++ body)))).drop 16 = h ++ body := by
    rw [show (16 : Nat) = 12 + 4 from rfl, ← List.drop_drop, d12, drop_append_len _ _ _ l3]
  have d48 : (idxB ++ (dbB ++ (plB ++ (h ++ body)))).drop frameHeaderSize = body := by
    rw [show frameHeaderSize = 16 + 32 from rfl, ← List.drop_drop, d16, drop_append_len _ _ _ l4]
  rw [t8, d8, d12, d16, d48, take_append_len _ _ _ l2, take_append_len _ _ _ l3, take_append_len _ _ _ l4]

/-- the true frame with another body: accepted only if the body begins with the true payload -/
theorem readFrame_header_then (H : Bytes → Bytes) (hH : ∀ x, (H x).length = 32) (j m : Nat) (p body : Bytes)
    (cf : NoCollision H (body.take p.length) p)
    (hm1 : 1 ≤ m) (hm : m < 4294967296) (hp1 : 1 ≤ p.length) (hp : p.length < 4294967296)
    (hne : body.take p.length ≠ p) :
    readFrame H j (frameHeader H j m p ++ body) = .bad := by
  have e : frameHeader H j m p ++ body = be64 j ++ (be32 m ++ (be32 p.length ++ (H p ++ body))) := by
    simp [frameHeader, List.append_assoc]
  rw [e, readFrame_fields H j (be64 j) (be32 m) (be32 p.length) (H p) body (beN_length 8 j) (beN_length 4 m) (beN_length 4 _) (hH p)]
  have v1 : fromBE (be64 j) = j % 18446744073709551616 := fromBE_beN 8 j
  have v2 : fromBE (be32 m) = m := fromBE_beN_of_lt 4 m (by omega)
  have v3 : fromBE (be32 p.length) = p.length := fromBE_beN_of_lt 4 _ (by omega)
  rw [v1, v2, v3]
  have c1 : ¬ (m < 1 ∨ p.length < 1 ∨ j % 18446744073709551616 ≠ j % 18446744073709551616) := by omega
  rw [if_neg c1]
  by_cases c2 : body.length < p.length
  · rw [if_pos c2]
  · rw [if_neg c2]
    have : H (body.take p.length) ≠ H p := fun h => hne (cf h)
    rw [if_pos this]

/-- a frame cut anywhere before its end is never accepted -/
theorem readFrame_cut (H : Bytes → Bytes) (hH : ∀ x, (H x).length = 32) (j m : Nat) (p : Bytes) (t : Nat)
    (hm1 : 1 ≤ m) (hm : m < 4294967296) (hp1 : 1 ≤ p.length) (hp : p.length < 4294967296)
    (ht : t < (frame H j m p).length) :
    readFrame H j ((frame H j m p).take t) = .eof ∨ readFrame H j ((frame H j m p).take t) = .bad := by
  have hhl := frameHeader_length H hH j m p
  by_cases h48 : t < frameHeaderSize
  · left
    unfold readFrame
    have : ((frame H j m p).take t).length < frameHeaderSize := by
      rw [List.length_take]; omega
    rw [if_pos this]
  · right
    have hsplit : (frame H j m p).take t = frameHeader H j m p ++ p.take (t - frameHeaderSize) := by
      unfold frame
      rw [List.take_append, hhl]
      have : (frameHeader H j m p).take t = frameHeader H j m p := List.take_of_length_le (by omega)
      rw [this]
    rw [hsplit]
    have e : frameHeader H j m p ++ p.take (t - frameHeaderSize)
        = be64 j ++ (be32 m ++ (be32 p.length ++ (H p ++ p.take (t - frameHeaderSize)))) := by
      simp [frameHeader, List.append_assoc]
    rw [e, readFrame_fields H j (be64 j) (be32 m) (be32 p.length) (H p) (p.take (t - frameHeaderSize))
      (beN_length 8 j) (beN_length 4 m) (beN_length 4 _) (hH p)]
    have v1 : fromBE (be64 j) = j % 18446744073709551616 := fromBE_beN 8 j
    have v2 : fromBE (be32 m) = m := fromBE_beN_of_lt 4 m (by omega)
    have v3 : fromBE (be32 p.length) = p.length := fromBE_beN_of_lt 4 _ (by omega)
    rw [v1, v2, v3]
    have c1 : ¬ (m < 1 ∨ p.length < 1 ∨ j % 18446744073709551616 ≠ j % 18446744073709551616) := by omega
    rw [if_neg c1]
    have c2 : (p.take (t - frameHeaderSize)).length < p.length := by
      simp only [frame, List.length_append, hhl] at ht
      rw [List.length_take]; omega
    rw [if_pos c2]

/-! ## honest shards -/

/-- A missing shard is honest. -/
theorem honest_missing (c : Cfg) (code : Code) (H : Bytes → Bytes) (b : Bytes) (k : Nat) :
    ShardHonest c code H b k none := trivial

theorem truePayload_bounds (c : Cfg) (code : Code) (H : Bytes → Bytes) (wf : WF c code H) (k : Nat) (hk : k < c.n)
    (x : Bytes) (hx : x ≠ [] ∧ x.length ≤ c.d * c.stripe) :
    1 ≤ x.length ∧ x.length < 4294967296 ∧ 1 ≤ (truePayload c code x k).length ∧ (truePayload c code x k).length < 4294967296 := by
  have hx1 : 1 ≤ x.length := by
    cases x with
    | nil => exact absurd rfl hx.1
    | cons _ _ => simp
  obtain ⟨shl, shs⟩ := stripeShards_spec c code H wf x
  have hL1 : 1 ≤ shardLen c.d x.length := shardLen_pos c.d x.length wf.d_pos hx1
  have hLle : shardLen c.d x.length ≤ x.length := shardLen_le c.d x.length wf.d_pos hx1
  have hxlt : x.length < 4294967296 := by have := wf.stripeData_lt; omega
  have hk' : k < (stripeShards c code x).length := by rw [shl]; exact hk
  have hlen : (truePayload c code x k).length = shardLen c.d x.length := by
    apply shs
    unfold truePayload
    rw [List.getD_eq_getElem?_getD, List.getElem?_eq_getElem hk']
    exact List.getElem_mem hk'
  omega

/-- The true frames of a shard, cut at any byte position, are an honest reader. -/
theorem honest_truncated_frames (c : Cfg) (code : Code) (H : Bytes → Bytes) (wf : WF c code H) (k : Nat) (hk : k < c.n) :
    ∀ (xs : List Bytes) (j m : Nat), StripesOK c xs → HonestFrom c code H k j xs ((framesFrom c code H k j xs).take m) := by
  intro xs
  induction xs with
  | nil => intro j m _; simp [HonestFrom, framesFrom, readFrame_nil]
  | cons x xs ih =>
    intro j m hs
    have hx := hs x List.mem_cons_self
    have hs' : StripesOK c xs := fun y hy => hs y (List.mem_cons_of_mem _ hy)
    obtain ⟨b1, b2, b3, b4⟩ := truePayload_bounds c code H wf k hk x hx
    simp only [HonestFrom, framesFrom]
    change match readFrame H j ((frame H j x.length (truePayload c code x k) ++ framesFrom c code H k (j + 1) xs).take m) with
      | .eof => True
      | .bad => True
      | .ok db p rest => db = x.length ∧ p = truePayload c code x k ∧ HonestFrom c code H k (j + 1) xs rest
    rw [List.take_append]
    by_cases hm : m < (frame H j x.length (truePayload c code x k)).length
    · -- the cut is inside this frame
      have h0 : m - (frame H j x.length (truePayload c code x k)).length = 0 := by omega
      rw [h0, List.take_zero, List.append_nil]
      rcases readFrame_cut H wf.hash_len j x.length (truePayload c code x k) m b1 b2 b3 b4 hm with h | h <;> rw [h] <;> trivial
    · have : (frame H j x.length (truePayload c code x k)).take m = frame H j x.length (truePayload c code x k) :=
        List.take_of_length_le (by omega)
      rw [this, readFrame_true c code H wf k hk j x hx]
      exact ⟨rfl, rfl, ih (j + 1) _ hs'⟩

/-- **truncation is honest.** A shard stream cut at ANY byte position (inside the shard header, at a
frame boundary, inside a frame header, inside a payload) is an honest shard. -/
theorem honest_truncated (c : Cfg) (code : Code) (H : Bytes → Bytes) (wf : WF c code H) (b : Bytes) (k : Nat) (hk : k < c.n) (m : Nat) :
    ShardHonest c code H b k (some ((shardStream c code H k b).take m)) := by
  unfold ShardHonest shardStream
  rw [List.take_append, shardHeader_length]
  by_cases hm : m < shardHeaderSize
  · -- cut inside the shard header: the shard is not opened at all
    have : openShard c k (some ((shardHeader c k).take m ++ (framesFrom c code H k 0 (stripesOf c b)).take (m - shardHeaderSize))) = none := by
      have h0 : m - shardHeaderSize = 0 := by omega
      unfold openShard
      simp only [h0, List.take_zero, List.append_nil]
      have : ((shardHeader c k).take m).length < shardHeaderSize := by rw [List.length_take]; omega
      rw [if_pos this]
    rw [this]; trivial
  · have h1 : (shardHeader c k).take m = shardHeader c k := List.take_of_length_le (by rw [shardHeader_length]; omega)
    rw [h1, openShard_stream c code H wf k hk]
    exact honest_truncated_frames c code H wf k hk _ 0 _ (stripesOK_stripesOf c code H wf b)

/-- true frames for the stripes `xs1`, then bytes the frame reader does not accept: honest, provided a
true stripe was still due at that point. -/
theorem honest_prefix_then_reject (c : Cfg) (code : Code) (H : Bytes → Bytes) (wf : WF c code H) (k : Nat) (hk : k < c.n)
    (x : Bytes) (xs2 : List Bytes) (g : Bytes) :
    ∀ (xs1 : List Bytes) (j : Nat), StripesOK c xs1 →
      (readFrame H (j + xs1.length) g = .eof ∨ readFrame H (j + xs1.length) g = .bad) →
      HonestFrom c code H k j (xs1 ++ x :: xs2) (framesFrom c code H k j xs1 ++ g) := by
  intro xs1
  induction xs1 with
  | nil =>
    intro j _ hg
    simp only [List.nil_append, framesFrom, HonestFrom, List.length_nil, Nat.add_zero] at hg ⊢
    rcases hg with h | h <;> rw [h] <;> trivial
  | cons y ys ih =>
    intro j hs hg
    have hy := hs y List.mem_cons_self
    simp only [List.cons_append, framesFrom, HonestFrom, List.append_assoc]
    have := readFrame_true c code H wf k hk j y hy (framesFrom c code H k (j + 1) ys ++ g)
    unfold truePayload at this
    rw [this]
    refine ⟨rfl, rfl, ih (j + 1) (fun z hz => hs z (List.mem_cons_of_mem _ hz)) ?_⟩
    simp only [List.length_cons] at hg
    rw [show j + 1 + ys.length = j + (ys.length + 1) by omega]
    exact hg

/-- **detectable frame damage is honest.** The frame of some stripe replaced by the true header followed
by a body that does not begin with the true payload (a flipped payload byte, a shortened payload, …):
honest, unless the damaged payload is a hash collision of the true one. (Damage to the hash field or to the stripe-index field is rejected
even without that assumption; see `readFrame_fields`.) -/
theorem honest_payload_damage (c : Cfg) (code : Code) (H : Bytes → Bytes) (wf : WF c code H)
    (k : Nat) (hk : k < c.n) (xs1 : List Bytes) (x : Bytes) (xs2 : List Bytes) (j : Nat) (body : Bytes)
    (cf : NoCollision H (body.take (truePayload c code x k).length) (truePayload c code x k))
    (hs : StripesOK c (xs1 ++ x :: xs2))
    (hne : body.take (truePayload c code x k).length ≠ truePayload c code x k) :
    HonestFrom c code H k j (xs1 ++ x :: xs2)
      (framesFrom c code H k j xs1 ++ (frameHeader H (j + xs1.length) x.length (truePayload c code x k) ++ body)) := by
  have hs1 : StripesOK c xs1 := fun y hy => hs y (List.mem_append_left _ hy)
  have hx := hs x (List.mem_append_right _ List.mem_cons_self)
  obtain ⟨b1, b2, b3, b4⟩ := truePayload_bounds c code H wf k hk x hx
  exact honest_prefix_then_reject c code H wf k hk x xs2 _ xs1 j hs1
    (Or.inr (readFrame_header_then H wf.hash_len _ _ _ _ cf b1 b2 b3 b4 hne))

/-- Trailing bytes shorter than a frame header after the last true frame are harmless. -/
theorem honest_short_trailer (c : Cfg) (code : Code) (H : Bytes → Bytes) (wf : WF c code H) (k : Nat) (hk : k < c.n) (g : Bytes)
    (hg : g.length < frameHeaderSize) :
    ∀ (xs : List Bytes) (j : Nat), StripesOK c xs → HonestFrom c code H k j xs (framesFrom c code H k j xs ++ g) := by
  intro xs
  induction xs with
  | nil =>
    intro j _
    simp only [framesFrom, List.nil_append, HonestFrom, readFrame, hg, if_true]
  | cons y ys ih =>
    intro j hs
    have hy := hs y List.mem_cons_self
    simp only [framesFrom, HonestFrom, List.append_assoc]
    have := readFrame_true c code H wf k hk j y hy (framesFrom c code H k (j + 1) ys ++ g)
    unfold truePayload at this
    rw [this]
    exact ⟨rfl, rfl, ih (j + 1) fun z hz => hs z (List.mem_cons_of_mem _ hz)⟩

end Pithos.EC
