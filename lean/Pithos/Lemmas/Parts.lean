/-
Helper lemmas for C08 / C09: the invariant `TxInv` of the part-level bookkeeping
(`Pithos.Model.Parts`) and its preservation by every micro step of a write transaction and by
every step of the garbage collector.  Core Lean only.
-/
import Pithos.Model.Parts

namespace Pithos.Parts

-- ---------------------------------------------------------------- basics

@[simp] theorem upd1_same {β : Type} (f : Nat → β) (a : Nat) (b : β) : upd1 f a b a = b := by
  simp [upd1]

theorem upd1_ne {β : Type} (f : Nat → β) (a x : Nat) (b : β) (h : x ≠ a) : upd1 f a b x = f x := by
  simp [upd1, h]

theorem upd1_eq {β : Type} (f : Nat → β) (a x : Nat) (b : β) :
    upd1 f a b x = if x = a then b else f x := rfl

theorem upd2_eq {β : Type} (f : Nat → Nat → β) (a c x y : Nat) (b : β) :
    upd2 f a c b x y = if x = a ∧ y = c then b else f x y := rfl

theorem refs_append (l₁ l₂ : List Row) (p : PartId) : refs (l₁ ++ l₂) p = refs l₁ p + refs l₂ p := by
  simp [refs, List.countP_append]

theorem refs_single (r : Row) (p : PartId) : refs [r] p = if r.pid = p then 1 else 0 := by
  simp [refs, List.countP_cons]

theorem credits_append (l₁ l₂ : List Pend) (p : PartId) :
    credits (l₁ ++ l₂) p = credits l₁ p + credits l₂ p := by
  simp [credits, List.countP_append]

theorem credits_single (e : Pend) (p : PartId) :
    credits [e] p = if e.pre = true ∧ e.pid = p then 1 else 0 := by
  simp [credits, List.countP_cons]

theorem credits_cons (e : Pend) (l : List Pend) (p : PartId) :
    credits (e :: l) p = credits l p + (if e.pre = true ∧ e.pid = p then 1 else 0) := by
  simp [credits, List.countP_cons]

theorem refs_pos_of_mem {l : List Row} {r : Row} (h : r ∈ l) : 0 < refs l r.pid := by
  unfold refs
  exact List.countP_pos_iff.2 ⟨r, h, by simp⟩

theorem mem_of_refs_pos {l : List Row} {p : PartId} (h : 0 < refs l p) : ∃ r ∈ l, r.pid = p := by
  unfold refs at h
  obtain ⟨r, hr, hp⟩ := List.countP_pos_iff.1 h
  exact ⟨r, hr, by simpa using hp⟩

theorem credits_pos_of_mem {l : List Pend} {e : Pend} (h : e ∈ l) (hp : e.pre = true) :
    0 < credits l e.pid := by
  unfold credits
  exact List.countP_pos_iff.2 ⟨e, h, by simp [hp]⟩

theorem credits_eq_zero {l : List Pend} {p : PartId} (h : ∀ e ∈ l, e.pre = true → e.pid ≠ p) :
    credits l p = 0 := by
  unfold credits
  apply List.countP_eq_zero.2
  intro e he
  by_cases hp : e.pre = true
  · simp [hp, h e he hp]
  · simp [hp]

theorem refs_filter_split (l : List Row) (sel : Row → Bool) (p : PartId) :
    refs (l.filter sel) p + refs (l.filter (fun r => !sel r)) p = refs l p := by
  induction l with
  | nil => rfl
  | cons a t ih =>
    unfold refs at *
    by_cases hs : sel a = true
    · simp [hs, List.countP_cons]; omega
    · simp [hs, List.countP_cons]; omega

-- ---------------------------------------------------------------- the invariant

/-- `RefInv`, generalised to the inside of a write transaction (`pend` = parts obtained but not
yet written as rows).  Between transactions `pend = []`. -/
structure TxInv (s : St) (pend : List Pend) : Prop where
  /-- registry ref_count = number of part rows + references taken ahead of their row; never 0 -/
  cnt : ∀ p c v, s.reg p = some (c, v) → c = refs s.rows p + credits pend p ∧ 0 < c
  /-- a part id referenced by a row has a registry row -/
  regd : ∀ p, s.reg p = none → refs s.rows p = 0
  /-- every part row's id is present in its named store -/
  rowsIn : ∀ r ∈ s.rows, s.stores r.store r.pid ≠ none
  pendIn : ∀ e ∈ pend, s.stores e.store e.pid ≠ none
  /-- dedup index entries point to present, registered (or just written) parts -/
  idxOk : ∀ st ck p, s.idx st ck = some p →
    s.stores st p ≠ none ∧ (s.reg p ≠ none ∨ ∃ e ∈ pend, e.pre = false ∧ e.pid = p)
  preReg : ∀ e ∈ pend, e.pre = true → s.reg e.pid ≠ none
  freshReg : ∀ e ∈ pend, e.pre = false → s.reg e.pid = none
  freshNodup : ((pend.filter (fun e => !e.pre)).map (·.pid)).Nodup
  uRows : ∀ r ∈ s.rows, r.pid ∈ s.used
  uReg : ∀ p, s.reg p ≠ none → p ∈ s.used
  uPend : ∀ e ∈ pend, e.pid ∈ s.used
  uStores : ∀ st p, s.stores st p ≠ none → p ∈ s.used
  uExt : ∀ x ∈ s.gcExt, x.2 ∈ s.used
  uObs : ∀ o ∈ s.gcObs, o.pid ∈ s.used
  /-- a part id lives in at most one store -/
  home : ∀ p st st', s.stores st p ≠ none → s.stores st' p ≠ none → st = st'
  /-- a condemned id (deletion still queued) is never referenced again -/
  ext : ∀ x ∈ s.gcExt, refs s.rows x.2 = 0 ∧ s.reg x.2 = none
  pendExt : ∀ e ∈ pend, e.pre = false → ∀ st, (st, e.pid) ∉ s.gcExt
  pendObs : ∀ e ∈ pend, e.pre = false → ∀ o ∈ s.gcObs, o.pid ≠ e.pid
  obs1 : ∀ o ∈ s.gcObs, o.ver ≠ none
  /-- version CAS: an observation whose version still matches still tells the truth -/
  obs2 : ∀ o ∈ s.gcObs, ∀ v c w, o.ver = some v → s.reg o.pid = some (c, w) → v ≤ w ∧ (v = w → o.actual = c)

/-- `RefInv`: the invariant between transactions. -/
def RefInv (s : St) : Prop := TxInv s []

theorem refinv_init : RefInv St.init := by
  refine ⟨?_, ?_, ?_, ?_, ?_, ?_, ?_, ?_, ?_, ?_, ?_, ?_, ?_, ?_, ?_, ?_, ?_, ?_, ?_, ?_⟩ <;>
    simp [St.init, refs]

-- ---------------------------------------------------------------- acquire

theorem acquire_inv {s : St} {pend : List Pend} (h : TxInv s pend) (p : PartId) (st : Store)
    (c v : Nat) (hpres : s.stores st p ≠ none) (hreg : s.reg p = some (c, v)) :
    TxInv { s with reg := upd1 s.reg p (some (c + 1, v + 1)) } (pend ++ [⟨p, true, st⟩]) := by
  have hmono : ∀ q, s.reg q ≠ none → upd1 s.reg p (some (c + 1, v + 1)) q ≠ none := by
    intro q hq; rw [upd1_eq]; split <;> simp_all
  have hnone : ∀ q, s.reg q = none → upd1 s.reg p (some (c + 1, v + 1)) q = none := by
    intro q hq; rw [upd1_eq]; split
    · next heq => subst heq; simp [hreg] at hq
    · exact hq
  refine
    { cnt := ?_, regd := ?_, rowsIn := h.rowsIn, pendIn := ?_, idxOk := ?_, preReg := ?_, freshReg := ?_,
      freshNodup := ?_, uRows := h.uRows, uReg := ?_, uPend := ?_, uStores := h.uStores, uExt := h.uExt,
      uObs := h.uObs, home := h.home, ext := ?_, pendExt := ?_, pendObs := ?_, obs1 := h.obs1, obs2 := ?_ }
  · intro q c' v' hq
    simp only [upd1_eq] at hq
    rw [credits_append, credits_single]
    by_cases hqp : q = p
    · subst hqp
      simp at hq
      have := h.cnt q c v hreg
      simp; omega
    · simp [hqp] at hq
      have := h.cnt q c' v' hq
      have hne : ¬ p = q := fun e => hqp e.symm
      simp [hne]; omega
  · intro q hq
    simp only [upd1_eq] at hq
    by_cases hqp : q = p
    · simp [hqp] at hq
    · simp [hqp] at hq; exact h.regd q hq
  · intro e he
    rcases List.mem_append.1 he with he | he
    · exact h.pendIn e he
    · simp at he; subst he; exact hpres
  · intro st' ck q hq
    obtain ⟨h1, h2⟩ := h.idxOk st' ck q hq
    refine ⟨h1, ?_⟩
    rcases h2 with h2 | ⟨e, he, hf, hp⟩
    · exact Or.inl (hmono q h2)
    · exact Or.inr ⟨e, List.mem_append_left _ he, hf, hp⟩
  · intro e he hp
    rcases List.mem_append.1 he with he | he
    · exact hmono _ (h.preReg e he hp)
    · simp at he; subst he; simp
  · intro e he hp
    rcases List.mem_append.1 he with he | he
    · exact hnone _ (h.freshReg e he hp)
    · simp at he; subst he; simp at hp
  · simpa [List.filter_append] using h.freshNodup
  · intro q hq
    simp only [upd1_eq] at hq
    by_cases hqp : q = p
    · subst hqp; exact h.uReg q (by simp [hreg])
    · simp [hqp] at hq; exact h.uReg q hq
  · intro e he
    rcases List.mem_append.1 he with he | he
    · exact h.uPend e he
    · simp at he; subst he; exact h.uReg p (by simp [hreg])
  · intro x hx
    obtain ⟨h1, h2⟩ := h.ext x hx
    exact ⟨h1, hnone _ h2⟩
  · intro e he hp
    rcases List.mem_append.1 he with he | he
    · exact h.pendExt e he hp
    · simp at he; subst he; simp at hp
  · intro e he hp
    rcases List.mem_append.1 he with he | he
    · exact h.pendObs e he hp
    · simp at he; subst he; simp at hp
  · intro o ho v0 c' w hv hq
    simp only [upd1_eq] at hq
    by_cases hqp : o.pid = p
    · simp [hqp] at hq
      have := h.obs2 o ho v0 c v hv (by rw [hqp]; exact hreg)
      omega
    · simp [hqp] at hq
      exact h.obs2 o ho v0 c' w hv hq

-- ---------------------------------------------------------------- a fresh part enters a store

/-- `PutPart f` of a fresh id (and, possibly, its dedup-index entry). -/
theorem keepFresh_inv {s : St} {pend : List Pend} (h : TxInv s pend) (st : Store) (f : PartId)
    (idx : Store → CKey → Option PartId) (hf : f ∉ s.used)
    (hidx : ∀ st' ck p, idx st' ck = some p → s.idx st' ck = some p ∨ (p = f ∧ st' = st)) :
    TxInv (keepFresh s pend st f idx).1 (keepFresh s pend st f idx).2 := by
  have hsm : ∀ a b, s.stores a b ≠ none → upd2 s.stores st f (some s.now) a b ≠ none := by
    intro a b hab; rw [upd2_eq]; split <;> simp_all
  have hregf : s.reg f = none := by
    cases hr : s.reg f with
    | none => rfl
    | some x => exact absurd (h.uReg f (by simp [hr])) hf
  refine
    { cnt := ?_, regd := h.regd, rowsIn := ?_, pendIn := ?_, idxOk := ?_, preReg := ?_, freshReg := ?_,
      freshNodup := ?_, uRows := ?_, uReg := ?_, uPend := ?_, uStores := ?_, uExt := ?_,
      uObs := ?_, home := ?_, ext := h.ext, pendExt := ?_, pendObs := ?_, obs1 := h.obs1, obs2 := h.obs2 }
  · intro q c v hq
    have := h.cnt q c v hq
    simp only [keepFresh, credits_append, credits_single]
    simp; exact this
  · intro r hr; exact hsm _ _ (h.rowsIn r hr)
  · intro e he
    rcases List.mem_append.1 he with he | he
    · exact hsm _ _ (h.pendIn e he)
    · simp at he; subst he; simp [keepFresh, upd2_eq]
  · intro st' ck q hq
    rcases hidx st' ck q hq with hq' | ⟨hqf, hst⟩
    · obtain ⟨h1, h2⟩ := h.idxOk st' ck q hq'
      refine ⟨hsm _ _ h1, ?_⟩
      rcases h2 with h2 | ⟨e, he, hfe, hp⟩
      · exact Or.inl h2
      · exact Or.inr ⟨e, List.mem_append_left _ he, hfe, hp⟩
    · subst hqf; subst hst
      refine ⟨by simp [keepFresh, upd2_eq], Or.inr ⟨⟨q, false, st'⟩, ?_, rfl, rfl⟩⟩
      simp [keepFresh]
  · intro e he hp
    rcases List.mem_append.1 he with he | he
    · exact h.preReg e he hp
    · simp at he; subst he; simp at hp
  · intro e he hp
    rcases List.mem_append.1 he with he | he
    · exact h.freshReg e he hp
    · simp at he; subst he; exact hregf
  · have hnot : f ∉ (pend.filter (fun e => !e.pre)).map (·.pid) := by
      intro hm
      obtain ⟨e, he, hpe⟩ := List.mem_map.1 hm
      have := h.uPend e (List.mem_filter.1 he).1
      rw [hpe] at this; exact hf this
    simp only [keepFresh, List.filter_append, List.map_append]
    have : (List.filter (fun e => !e.pre) [({ pid := f, pre := false, store := st } : Pend)]) = [⟨f, false, st⟩] := by
      simp
    rw [this]
    simp only [List.map_cons, List.map_nil]
    rw [List.nodup_append]
    refine ⟨h.freshNodup, by simp, ?_⟩
    intro a ha b hb
    simp at hb; subst hb
    intro hab; subst hab; exact hnot ha
  · intro r hr; exact List.mem_cons_of_mem _ (h.uRows r hr)
  · intro q hq; exact List.mem_cons_of_mem _ (h.uReg q hq)
  · intro e he
    rcases List.mem_append.1 he with he | he
    · exact List.mem_cons_of_mem _ (h.uPend e he)
    · simp at he; subst he; simp [keepFresh]
  · intro a b hab
    simp only [keepFresh, upd2_eq] at hab
    by_cases hc : a = st ∧ b = f
    · simp [keepFresh, hc.2]
    · simp [hc] at hab; exact List.mem_cons_of_mem _ (h.uStores a b hab)
  · intro x hx; exact List.mem_cons_of_mem _ (h.uExt x hx)
  · intro o ho; exact List.mem_cons_of_mem _ (h.uObs o ho)
  · intro q a b ha hb
    simp only [keepFresh, upd2_eq] at ha hb
    have hnone : ∀ a, s.stores a f = none := by
      intro a
      cases hs : s.stores a f with
      | none => rfl
      | some t => exact absurd (h.uStores a f (by simp [hs])) hf
    by_cases hq : q = f
    · subst hq
      by_cases h1 : a = st
      · by_cases h2 : b = st
        · rw [h1, h2]
        · simp [h2, hnone] at hb
      · simp [h1, hnone] at ha
    · simp [hq] at ha hb; exact h.home q a b ha hb
  · intro e he hp st'
    rcases List.mem_append.1 he with he | he
    · exact h.pendExt e he hp st'
    · simp at he; subst he
      intro hx; exact hf (h.uExt _ hx)
  · intro e he hp o ho
    rcases List.mem_append.1 he with he | he
    · exact h.pendObs e he hp o ho
    · simp at he; subst he
      intro hx; apply hf; have := h.uObs o ho; rw [hx] at this; exact this

theorem dropIdx_sub (idx : Store → CKey → Option PartId) (dead : PartId → Bool) (st : Store) (ck : CKey)
    (p : PartId) (h : dropIdx idx dead st ck = some p) : idx st ck = some p ∧ dead p = false := by
  unfold dropIdx at h
  cases hi : idx st ck with
  | none => simp [hi] at h
  | some q =>
    simp [hi] at h
    by_cases hd : dead q = true
    · simp [hd] at h
    · simp [hd] at h; subst h; simp [hd]

theorem tryIndex_sub (idx : Store → CKey → Option PartId) (st : Store) (ck : CKey) (f : PartId)
    (st' : Store) (ck' : CKey) (p : PartId) (h : tryIndex idx st ck f st' ck' = some p) :
    idx st' ck' = some p ∨ (p = f ∧ st' = st) := by
  unfold tryIndex at h
  cases hi : idx st ck with
  | some q => simp [hi] at h; exact Or.inl h
  | none =>
    simp [hi, upd2_eq] at h
    by_cases hc : st' = st ∧ ck' = ck
    · simp [hc] at h; exact Or.inr ⟨h.symm, hc.1⟩
    · simp [hc] at h; exact Or.inl h

-- ---------------------------------------------------------------- dedup hit

theorem shareHit_inv {s : St} {pend : List Pend} (h : TxInv s pend) (st : Store) (ck : CKey) (f e c v : Nat)
    (hf : f ∉ s.used) (hidx : s.idx st ck = some e) (hreg : s.reg e = some (c, v)) :
    TxInv (shareHit s pend st f e c v).1 (shareHit s pend st f e c v).2 := by
  have hnone : ∀ a, s.stores a f = none := by
    intro a
    cases hs : s.stores a f with
    | none => rfl
    | some t => exact absurd (h.uStores a f (by simp [hs])) hf
  have hst : ∀ a b, upd2 (upd2 s.stores st f (some s.now)) st f none a b = s.stores a b := by
    intro a b
    simp only [upd2_eq]
    by_cases hc : a = st ∧ b = f
    · simp [hc, hnone]
    · simp [hc]
  -- the state is `acquire e` plus one more used id
  have hrowlike : s.stores st e ≠ none := (h.idxOk st ck e hidx).1
  have h1 : TxInv { s with reg := upd1 s.reg e (some (c + 1, v + 1)) } (pend ++ [⟨e, true, st⟩]) :=
    acquire_inv h e st c v hrowlike hreg
  -- now add `f` to `used` and the (put, delete) pair on the stores
  refine
    { cnt := h1.cnt, regd := h1.regd, rowsIn := ?_, pendIn := ?_, idxOk := ?_, preReg := h1.preReg,
      freshReg := h1.freshReg, freshNodup := h1.freshNodup, uRows := ?_, uReg := ?_, uPend := ?_,
      uStores := ?_, uExt := ?_, uObs := ?_, home := ?_, ext := h1.ext, pendExt := h1.pendExt,
      pendObs := h1.pendObs, obs1 := h1.obs1, obs2 := h1.obs2 }
  · intro r hr; simp only [shareHit, hst]; exact h1.rowsIn r hr
  · intro x hx; simp only [shareHit, hst]; exact h1.pendIn x hx
  · intro st' ck' q hq
    simp only [shareHit, hst]; exact h1.idxOk st' ck' q hq
  · intro r hr; exact List.mem_cons_of_mem _ (h1.uRows r hr)
  · intro q hq; exact List.mem_cons_of_mem _ (h1.uReg q hq)
  · intro x hx; exact List.mem_cons_of_mem _ (h1.uPend x hx)
  · intro a b hab; simp only [shareHit, hst] at hab; exact List.mem_cons_of_mem _ (h1.uStores a b hab)
  · intro x hx; exact List.mem_cons_of_mem _ (h1.uExt x hx)
  · intro o ho; exact List.mem_cons_of_mem _ (h1.uObs o ho)
  · intro q a b ha hb; simp only [shareHit, hst] at ha hb; exact h1.home q a b ha hb

-- ---------------------------------------------------------------- savePartRows

theorem save_pre_inv {s : St} {e : Pend} {rest : List Pend} (h : TxInv s (e :: rest)) (hp : e.pre = true)
    (owner : Owner) (seq : Nat) (ck : Option CKey) :
    TxInv { s with rows := s.rows ++ [⟨owner, seq, e.pid, e.store, ck⟩] } rest := by
  have hrege : s.reg e.pid ≠ none := h.preReg e (by simp) hp
  refine
    { cnt := ?_, regd := ?_, rowsIn := ?_, pendIn := ?_, idxOk := ?_, preReg := ?_, freshReg := ?_,
      freshNodup := ?_, uRows := ?_, uReg := h.uReg, uPend := ?_, uStores := h.uStores, uExt := h.uExt,
      uObs := h.uObs, home := h.home, ext := ?_, pendExt := ?_, pendObs := ?_, obs1 := h.obs1, obs2 := h.obs2 }
  · intro q c v hq
    have := h.cnt q c v hq
    rw [credits_cons] at this
    simp only [refs_append, refs_single]
    simp only [hp, true_and] at this
    omega
  · intro q hq
    simp only [refs_append, refs_single]
    have h0 := h.regd q hq
    have : ¬ e.pid = q := by intro heq; rw [heq] at hrege; exact hrege hq
    simp [this, h0]
  · intro r hr
    rcases List.mem_append.1 hr with hr | hr
    · exact h.rowsIn r hr
    · simp at hr; subst hr; exact h.pendIn e (by simp)
  · intro x hx; exact h.pendIn x (List.mem_cons_of_mem _ hx)
  · intro st ck' q hq
    obtain ⟨h1, h2⟩ := h.idxOk st ck' q hq
    refine ⟨h1, ?_⟩
    rcases h2 with h2 | ⟨x, hx, hfx, hpx⟩
    · exact Or.inl h2
    · rcases List.mem_cons.1 hx with hx | hx
      · subst hx; rw [hp] at hfx; cases hfx
      · exact Or.inr ⟨x, hx, hfx, hpx⟩
  · intro x hx hpx; exact h.preReg x (List.mem_cons_of_mem _ hx) hpx
  · intro x hx hpx; exact h.freshReg x (List.mem_cons_of_mem _ hx) hpx
  · have := h.freshNodup
    simpa [List.filter_cons, hp] using this
  · intro r hr
    rcases List.mem_append.1 hr with hr | hr
    · exact h.uRows r hr
    · simp at hr; subst hr; exact h.uPend e (by simp)
  · intro x hx; exact h.uPend x (List.mem_cons_of_mem _ hx)
  · intro x hx
    obtain ⟨h1, h2⟩ := h.ext x hx
    refine ⟨?_, h2⟩
    simp only [refs_append, refs_single]
    have : ¬ e.pid = x.2 := by intro heq; rw [heq] at hrege; exact hrege h2
    simp [this, h1]
  · intro x hx hpx; exact h.pendExt x (List.mem_cons_of_mem _ hx) hpx
  · intro x hx hpx; exact h.pendObs x (List.mem_cons_of_mem _ hx) hpx

theorem save_fresh_inv {s : St} {e : Pend} {rest : List Pend} (h : TxInv s (e :: rest)) (hp : e.pre = false)
    (owner : Owner) (seq : Nat) (ck : Option CKey) :
    TxInv { s with rows := s.rows ++ [⟨owner, seq, e.pid, e.store, ck⟩],
                   reg := upd1 s.reg e.pid (some (1, 1)) } rest := by
  have hrege : s.reg e.pid = none := h.freshReg e (by simp) hp
  have hmono : ∀ q, s.reg q ≠ none → upd1 s.reg e.pid (some (1, 1)) q ≠ none := by
    intro q hq; rw [upd1_eq]; split <;> simp_all
  have hnd := h.freshNodup
  simp only [List.filter_cons, hp, Bool.not_false, if_true, List.map_cons, List.nodup_cons] at hnd
  have hdist : ∀ x ∈ rest, x.pre = false → x.pid ≠ e.pid := by
    intro x hx hpx heq
    apply hnd.1
    rw [← heq]
    exact List.mem_map.2 ⟨x, List.mem_filter.2 ⟨hx, by simp [hpx]⟩, rfl⟩
  have hcr0 : credits rest e.pid = 0 := by
    apply credits_eq_zero
    intro x hx hpx heq
    have := h.preReg x (List.mem_cons_of_mem _ hx) hpx
    rw [heq] at this; exact this hrege
  refine
    { cnt := ?_, regd := ?_, rowsIn := ?_, pendIn := ?_, idxOk := ?_, preReg := ?_, freshReg := ?_,
      freshNodup := hnd.2, uRows := ?_, uReg := ?_, uPend := ?_, uStores := h.uStores, uExt := h.uExt,
      uObs := h.uObs, home := h.home, ext := ?_, pendExt := ?_, pendObs := ?_, obs1 := h.obs1, obs2 := ?_ }
  · intro q c v hq
    simp only [upd1_eq] at hq
    simp only [refs_append, refs_single]
    by_cases hqe : q = e.pid
    · subst hqe
      simp at hq
      obtain ⟨hc, _⟩ := hq
      have := h.regd _ hrege
      simp [hcr0, this, ← hc]
    · simp [hqe] at hq
      have := h.cnt q c v hq
      rw [credits_cons] at this
      have hne : ¬ e.pid = q := fun x => hqe x.symm
      simp [hp] at this
      simp [hne]; exact this
  · intro q hq
    simp only [upd1_eq] at hq
    by_cases hqe : q = e.pid
    · simp [hqe] at hq
    · simp [hqe] at hq
      simp only [refs_append, refs_single]
      have hne : ¬ e.pid = q := fun x => hqe x.symm
      simp [hne, h.regd q hq]
  · intro r hr
    rcases List.mem_append.1 hr with hr | hr
    · exact h.rowsIn r hr
    · simp at hr; subst hr; exact h.pendIn e (by simp)
  · intro x hx; exact h.pendIn x (List.mem_cons_of_mem _ hx)
  · intro st ck' q hq
    obtain ⟨h1, h2⟩ := h.idxOk st ck' q hq
    refine ⟨h1, ?_⟩
    rcases h2 with h2 | ⟨x, hx, hfx, hpx⟩
    · exact Or.inl (hmono q h2)
    · rcases List.mem_cons.1 hx with hx | hx
      · subst hx; left; rw [← hpx]; simp
      · exact Or.inr ⟨x, hx, hfx, hpx⟩
  · intro x hx hpx; exact hmono _ (h.preReg x (List.mem_cons_of_mem _ hx) hpx)
  · intro x hx hpx
    show upd1 s.reg e.pid (some (1, 1)) x.pid = none
    rw [upd1_ne _ _ _ _ (hdist x hx hpx)]
    exact h.freshReg x (List.mem_cons_of_mem _ hx) hpx
  · intro r hr
    rcases List.mem_append.1 hr with hr | hr
    · exact h.uRows r hr
    · simp at hr; subst hr; exact h.uPend e (by simp)
  · intro q hq
    simp only [upd1_eq] at hq
    by_cases hqe : q = e.pid
    · rw [hqe]; exact h.uPend e (by simp)
    · simp [hqe] at hq; exact h.uReg q hq
  · intro x hx; exact h.uPend x (List.mem_cons_of_mem _ hx)
  · intro x hx
    obtain ⟨h1, h2⟩ := h.ext x hx
    have hne : x.2 ≠ e.pid := by
      intro heq
      have := h.pendExt e (by simp) hp x.1
      apply this
      rw [← heq]; exact hx
    refine ⟨?_, by show upd1 s.reg e.pid (some (1, 1)) x.2 = none; rw [upd1_ne _ _ _ _ hne]; exact h2⟩
    simp only [refs_append, refs_single]
    have : ¬ e.pid = x.2 := fun y => hne y.symm
    simp [this, h1]
  · intro x hx hpx; exact h.pendExt x (List.mem_cons_of_mem _ hx) hpx
  · intro x hx hpx; exact h.pendObs x (List.mem_cons_of_mem _ hx) hpx
  · intro o ho v c w hv hq
    have hne : o.pid ≠ e.pid := h.pendObs e (by simp) hp o ho
    change upd1 s.reg e.pid (some (1, 1)) o.pid = some (c, w) at hq
    rw [upd1_ne _ _ _ _ hne] at hq
    exact h.obs2 o ho v c w hv hq

-- ---------------------------------------------------------------- removePartRows

theorem rmReg_none {reg : PartId → Option (Nat × Nat)} {removed : List Row} {q : PartId}
    (h : reg q = none) : rmReg reg removed q = none := by
  unfold rmReg; split <;> simp [h]

theorem rm_zero_facts {s : St} {pend : List Pend} (h : TxInv s pend) (owner : Owner) (seq : Option Nat)
    (q : PartId) (hz : rmZero s.reg (s.rows.filter (rmSel owner seq)) q = true) :
    refs (s.rows.filter (fun r => !rmSel owner seq r)) q = 0 ∧ credits pend q = 0 ∧ s.reg q ≠ none := by
  unfold rmZero at hz
  cases hr : s.reg q with
  | none => simp [hr] at hz
  | some cv =>
    obtain ⟨c, v⟩ := cv
    simp [hr] at hz
    have := h.cnt q c v hr
    have hs := refs_filter_split s.rows (rmSel owner seq) q
    refine ⟨by omega, by omega, by simp⟩

theorem rm_reg_keeps {s : St} (owner : Owner) (seq : Option Nat)
    (q : PartId) (hq : s.reg q ≠ none) (hz : rmZero s.reg (s.rows.filter (rmSel owner seq)) q = false) :
    rmReg s.reg (s.rows.filter (rmSel owner seq)) q ≠ none := by
  unfold rmReg
  unfold rmZero at hz
  cases hr : s.reg q with
  | none => exact absurd hr hq
  | some cv =>
    obtain ⟨c, v⟩ := cv
    simp [hr] at hz
    split
    · simp
    · next hd =>
      simp only []
      split
      · split
        · next hle heq => exact absurd heq (hz (by omega))
        · simp
      · simp

theorem rm_inv {s : St} {pend : List Pend} (h : TxInv s pend) (owner : Owner) (seq : Option Nat) :
    TxInv (rmStep s owner seq) pend := by
  have hsplit := refs_filter_split s.rows (rmSel owner seq)
  have hkeptle : ∀ q, refs (s.rows.filter (fun r => !rmSel owner seq r)) q ≤ refs s.rows q := by
    intro q; have := hsplit q; omega
  have hnz_row : ∀ r ∈ s.rows.filter (fun r => !rmSel owner seq r),
      rmZero s.reg (s.rows.filter (rmSel owner seq)) r.pid = false := by
    intro r hr
    cases hz : rmZero s.reg (s.rows.filter (rmSel owner seq)) r.pid with
    | false => rfl
    | true =>
      have := (rm_zero_facts h owner seq r.pid hz).1
      have hp := refs_pos_of_mem hr
      omega
  have hnz_pend : ∀ e ∈ pend, rmZero s.reg (s.rows.filter (rmSel owner seq)) e.pid = false := by
    intro e he
    cases hz : rmZero s.reg (s.rows.filter (rmSel owner seq)) e.pid with
    | false => rfl
    | true =>
      obtain ⟨_, hc, hr⟩ := rm_zero_facts h owner seq e.pid hz
      cases hp : e.pre with
      | true => have := credits_pos_of_mem he hp; omega
      | false => exact absurd (h.freshReg e he hp) hr
  have hstore : ∀ a b, (rmStep s owner seq).stores a b ≠ none → s.stores a b ≠ none := by
    intro a b hab
    simp only [rmStep] at hab
    split at hab
    · exact absurd rfl hab
    · exact hab
  have hstore' : ∀ a b, rmZero s.reg (s.rows.filter (rmSel owner seq)) b = false →
      (rmStep s owner seq).stores a b = s.stores a b := by
    intro a b hz; simp [rmStep, hz]
  refine
    { cnt := ?_, regd := ?_, rowsIn := ?_, pendIn := ?_, idxOk := ?_, preReg := ?_, freshReg := ?_,
      freshNodup := h.freshNodup, uRows := ?_, uReg := ?_, uPend := h.uPend, uStores := ?_, uExt := h.uExt,
      uObs := h.uObs, home := ?_, ext := ?_, pendExt := h.pendExt, pendObs := h.pendObs, obs1 := h.obs1, obs2 := ?_ }
  · intro q c' v' hq
    simp only [rmStep, rmReg] at hq
    have hs := hsplit q
    split at hq
    · next hd =>
      have := h.cnt q c' v' hq
      simp only [rmStep]; omega
    · next hd =>
      cases hr : s.reg q with
      | none => simp [hr] at hq
      | some cv =>
        obtain ⟨c, v⟩ := cv
        have hc := h.cnt q c v hr
        simp only [hr] at hq
        split at hq
        · split at hq
          · cases hq
          · next hle hne =>
            simp at hq
            obtain ⟨h1, _⟩ := hq
            simp only [rmStep]; omega
        · next hgt => omega
  · intro q hq
    simp only [rmStep] at hq ⊢
    have hs := hsplit q
    unfold rmReg at hq
    split at hq
    · have := h.regd q hq; omega
    · next hd =>
      cases hr : s.reg q with
      | none => have := h.regd q hr; omega
      | some cv =>
        obtain ⟨c, v⟩ := cv
        have hc := h.cnt q c v hr
        simp only [hr] at hq
        split at hq
        · split at hq
          · next hle heq => omega
          · cases hq
        · cases hq
  · intro r hr
    rw [hstore' _ _ (hnz_row r hr)]
    exact h.rowsIn r (List.mem_filter.1 hr).1
  · intro e he
    rw [hstore' _ _ (hnz_pend e he)]
    exact h.pendIn e he
  · intro st ck p hp
    obtain ⟨hp1, hz⟩ := dropIdx_sub _ _ _ _ _ hp
    obtain ⟨h1, h2⟩ := h.idxOk st ck p hp1
    refine ⟨by rw [hstore' _ _ hz]; exact h1, ?_⟩
    rcases h2 with h2 | h2
    · exact Or.inl (rm_reg_keeps owner seq p h2 hz)
    · exact Or.inr h2
  · intro e he hp
    exact rm_reg_keeps owner seq e.pid (h.preReg e he hp) (hnz_pend e he)
  · intro e he hp
    exact rmReg_none (h.freshReg e he hp)
  · intro r hr; exact h.uRows r (List.mem_filter.1 hr).1
  · intro q hq
    apply h.uReg q
    intro hn; exact hq (rmReg_none hn)
  · intro a b hab; exact h.uStores a b (hstore a b hab)
  · intro p a b ha hb; exact h.home p a b (hstore _ _ ha) (hstore _ _ hb)
  · intro x hx
    obtain ⟨h1, h2⟩ := h.ext x hx
    refine ⟨?_, rmReg_none h2⟩
    have := hkeptle x.2
    simp only [rmStep]; omega
  · intro o ho v0 c' w' hv hq
    simp only [rmStep, rmReg] at hq
    split at hq
    · exact h.obs2 o ho v0 c' w' hv hq
    · cases hr : s.reg o.pid with
      | none => simp [hr] at hq
      | some cv =>
        obtain ⟨c, v⟩ := cv
        have hob := h.obs2 o ho v0 c v hv hr
        simp only [hr] at hq
        split at hq
        · split at hq
          · cases hq
          · simp at hq
            obtain ⟨_, h2⟩ := hq
            omega
        · simp at hq
          obtain ⟨h1, h2⟩ := hq
          subst h1; subst h2; exact hob

-- ---------------------------------------------------------------- one micro step, a whole transaction

theorem micro_inv (q : SqlFacts) {t t' : St × List Pend} (m : Micro) (h : TxInv t.1 t.2) (hm : micro q t m = some t') :
    TxInv t'.1 t'.2 := by
  cases m with
  | acquire p st =>
    simp only [micro] at hm
    split at hm
    · next hany =>
      cases hr : t.1.reg p with
      | none => simp [hr] at hm
      | some cv =>
        obtain ⟨c, v⟩ := cv
        simp only [hr] at hm
        split at hm
        · simp at hm; subst hm
          obtain ⟨r, hr', hp⟩ := List.any_eq_true.1 hany
          simp at hp
          have hpres : t.1.stores st p ≠ none := by
            have := h.rowsIn r hr'
            rw [hp.1, hp.2] at this; exact this
          exact acquire_inv h p st c v hpres hr
        · cases hm
    · cases hm
  | dedupe st ck f =>
    simp only [micro] at hm
    split at hm
    · cases hm
    · next hf =>
      cases hi : t.1.idx st ck with
      | none =>
        simp only [hi] at hm
        simp at hm; subst hm
        exact keepFresh_inv h st f _ hf (fun st' ck' p hp => tryIndex_sub _ _ _ _ _ _ _ hp)
      | some e =>
        simp only [hi] at hm
        have hstale : TxInv (keepFresh t.1 t.2 st f (tryIndex (dropIdx t.1.idx (fun q => q == e)) st ck f)).1
            (keepFresh t.1 t.2 st f (tryIndex (dropIdx t.1.idx (fun q => q == e)) st ck f)).2 := by
          apply keepFresh_inv h st f _ hf
          intro st' ck' p hp
          rcases tryIndex_sub _ _ _ _ _ _ _ hp with hp | hp
          · exact Or.inl (dropIdx_sub _ _ _ _ _ hp).1
          · exact Or.inr hp
        cases hr : t.1.reg e with
        | none => simp only [hr] at hm; simp at hm; subst hm; exact hstale
        | some cv =>
          obtain ⟨c, v⟩ := cv
          simp only [hr] at hm
          split at hm
          · simp at hm; subst hm; exact shareHit_inv h st ck f e c v hf hi hr
          · simp at hm; subst hm; exact hstale
  | rawput st f =>
    simp only [micro] at hm
    split at hm
    · cases hm
    · next hf =>
      simp at hm; subst hm
      exact keepFresh_inv h st f _ hf (fun st' ck' p hp => Or.inl hp)
  | save owner seq ck =>
    simp only [micro] at hm
    cases hp : t.2 with
    | nil => simp [hp] at hm
    | cons e rest =>
      simp only [hp] at hm
      rw [hp] at h
      split at hm
      · cases hm
      · split at hm
        · next hpre => simp at hm; subst hm; exact save_pre_inv h hpre owner seq ck
        · next hpre =>
          have hpre' : e.pre = false := by simpa using hpre
          cases hr : t.1.reg e.pid with
          | some x => exact absurd (h.freshReg e (by simp) hpre') (by simp [hr])
          | none => simp only [hr] at hm; simp at hm; subst hm; exact save_fresh_inv h hpre' owner seq ck
  | rm owner seq =>
    simp only [micro] at hm
    simp at hm; subst hm
    exact rm_inv h owner seq

theorem runMicros_inv (q : SqlFacts) {t t' : St × List Pend} (ms : List Micro) (h : TxInv t.1 t.2)
    (hm : runMicros q t ms = some t') : TxInv t'.1 t'.2 := by
  induction ms generalizing t with
  | nil => simp [runMicros] at hm; subst hm; exact h
  | cons m ms ih =>
    simp only [runMicros] at hm
    cases hmm : micro q t m with
    | none => simp [hmm] at hm
    | some t1 => simp only [hmm] at hm; exact ih (micro_inv q m h hmm) hm

theorem runTx_inv (q : SqlFacts) {s s' : St} (script : List Micro) (h : RefInv s) (hm : runTx q s script = some s') :
    RefInv s' := by
  unfold runTx at hm
  cases hr : runMicros q (s, []) script with
  | none => simp [hr] at hm
  | some t =>
    obtain ⟨s1, pend⟩ := t
    cases pend with
    | nil =>
      simp [hr] at hm; subst hm
      exact runMicros_inv q script (t := (s, [])) h hr
    | cons e rest => simp [hr] at hm

-- ---------------------------------------------------------------- environment and collector steps

theorem orphan_inv {s : St} (h : RefInv s) (st : Store) (f : PartId) (hf : f ∉ s.used) :
    RefInv { s with used := f :: s.used, stores := upd2 s.stores st f (some s.now) } := by
  have hk := keepFresh_inv h st f s.idx hf (fun st' ck' p hp => Or.inl hp)
  -- drop the pending entry again: it is not referenced by anything
  have h' : TxInv (keepFresh s [] st f s.idx).1 [] :=
    { cnt := fun p c v hp => by
        have := hk.cnt p c v hp
        simpa [keepFresh, credits] using this
      regd := hk.regd, rowsIn := hk.rowsIn, pendIn := by simp
      idxOk := fun st' ck p hp => by
        obtain ⟨h1, _⟩ := hk.idxOk st' ck p hp
        refine ⟨h1, Or.inl ?_⟩
        exact ((h.idxOk st' ck p hp).2).resolve_right (by simp)
      preReg := by simp, freshReg := by simp, freshNodup := by simp
      uRows := hk.uRows, uReg := hk.uReg, uPend := by simp, uStores := hk.uStores, uExt := hk.uExt
      uObs := hk.uObs, home := hk.home, ext := hk.ext, pendExt := by simp, pendObs := by simp
      obs1 := hk.obs1, obs2 := hk.obs2 }
  exact h'

theorem obsOf_mem {s : St} {o : Obs} (ho : o ∈ obsOf s) :
    o.pid ∈ s.used ∧ o.actual = refs s.rows o.pid ∧
      ((∃ c v, s.reg o.pid = some (c, v) ∧ o.rc = some c ∧ o.ver = some v) ∨
       (s.reg o.pid = none ∧ 0 < refs s.rows o.pid ∧ o.ver = none)) := by
  unfold obsOf at ho
  obtain ⟨p, hp, hpo⟩ := List.mem_filterMap.1 ho
  cases hr : s.reg p with
  | some cv =>
    obtain ⟨c, v⟩ := cv
    simp [hr] at hpo; subst hpo
    exact ⟨hp, rfl, Or.inl ⟨c, v, hr, rfl, rfl⟩⟩
  | none =>
    simp only [hr] at hpo
    split at hpo
    · next hpos => simp at hpo; subst hpo; exact ⟨hp, rfl, Or.inr ⟨hr, hpos, rfl⟩⟩
    · cases hpo

theorem gcObserve_inv {s : St} (h : RefInv s) : RefInv { s with gcObs := obsOf s } := by
  refine
    { cnt := h.cnt, regd := h.regd, rowsIn := h.rowsIn, pendIn := h.pendIn, idxOk := h.idxOk, preReg := h.preReg,
      freshReg := h.freshReg, freshNodup := h.freshNodup, uRows := h.uRows, uReg := h.uReg, uPend := h.uPend,
      uStores := h.uStores, uExt := h.uExt, uObs := ?_, home := h.home, ext := h.ext, pendExt := h.pendExt,
      pendObs := by simp, obs1 := ?_, obs2 := ?_ }
  · intro o ho; exact (obsOf_mem ho).1
  · intro o ho
    obtain ⟨_, _, h3⟩ := obsOf_mem ho
    rcases h3 with ⟨c, v, _, _, hv⟩ | ⟨hr, hpos, _⟩
    · simp [hv]
    · have := h.regd o.pid hr; omega
  · intro o ho v c w hv hq
    obtain ⟨_, hact, h3⟩ := obsOf_mem ho
    rcases h3 with ⟨c0, v0, hr, _, hv0⟩ | ⟨hr, _, _⟩
    · have hq' : s.reg o.pid = some (c, w) := hq
      rw [hr] at hq'
      simp at hq'
      rw [hv0] at hv; simp at hv
      have := h.cnt o.pid c0 v0 hr
      simp [credits] at this
      refine ⟨by omega, fun _ => ?_⟩
      rw [hact]; omega
    · have hq' : s.reg o.pid = some (c, w) := hq
      rw [hr] at hq'; cases hq'

/-- Replacing the registry row of `p` by one with the same count (and a newer version) and
shrinking the observation list keeps the invariant. -/
theorem reg_touch_inv {s : St} (h : RefInv s) (p : PartId) (c w : Nat) (hreg : s.reg p = some (c, w))
    (rest : List Obs) (hsub : ∀ o ∈ rest, o ∈ s.gcObs) :
    RefInv { s with reg := upd1 s.reg p (some (c, w + 1)), gcObs := rest } := by
  have hmono : ∀ q, s.reg q ≠ none → upd1 s.reg p (some (c, w + 1)) q ≠ none := by
    intro q hq; rw [upd1_eq]; split <;> simp_all
  have hnn : ∀ q, s.reg q = none → upd1 s.reg p (some (c, w + 1)) q = none := by
    intro q hq; rw [upd1_eq]; split
    · next heq => subst heq; simp [hreg] at hq
    · exact hq
  refine
    { cnt := ?_, regd := ?_, rowsIn := h.rowsIn, pendIn := h.pendIn, idxOk := ?_, preReg := by simp,
      freshReg := by simp, freshNodup := h.freshNodup, uRows := h.uRows, uReg := ?_, uPend := h.uPend,
      uStores := h.uStores, uExt := h.uExt, uObs := fun o ho => h.uObs o (hsub o ho), home := h.home, ext := ?_,
      pendExt := by simp, pendObs := by simp, obs1 := fun o ho => h.obs1 o (hsub o ho), obs2 := ?_ }
  · intro q c' v' hq
    change upd1 s.reg p (some (c, w + 1)) q = some (c', v') at hq
    rw [upd1_eq] at hq
    by_cases hqp : q = p
    · simp [hqp] at hq
      have := h.cnt p c w hreg
      rw [hqp, ← hq.1]; exact this
    · simp [hqp] at hq; exact h.cnt q c' v' hq
  · intro q hq
    change upd1 s.reg p (some (c, w + 1)) q = none at hq
    rw [upd1_eq] at hq
    by_cases hqp : q = p
    · simp [hqp] at hq
    · simp [hqp] at hq; exact h.regd q hq
  · intro st ck q hq
    obtain ⟨h1, h2⟩ := h.idxOk st ck q hq
    exact ⟨h1, Or.inl (hmono q (h2.resolve_right (by simp)))⟩
  · intro q hq
    change upd1 s.reg p (some (c, w + 1)) q ≠ none at hq
    rw [upd1_eq] at hq
    by_cases hqp : q = p
    · rw [hqp]; exact h.uReg p (by simp [hreg])
    · simp [hqp] at hq; exact h.uReg q hq
  · intro x hx
    obtain ⟨h1, h2⟩ := h.ext x hx
    exact ⟨h1, hnn _ h2⟩
  · intro o ho v0 c' w' hv hq
    change upd1 s.reg p (some (c, w + 1)) o.pid = some (c', w') at hq
    rw [upd1_eq] at hq
    by_cases hqp : o.pid = p
    · simp [hqp] at hq
      have := h.obs2 o (hsub o ho) v0 c w hv (by rw [hqp]; exact hreg)
      omega
    · simp [hqp] at hq; exact h.obs2 o (hsub o ho) v0 c' w' hv hq

theorem obs_shrink_inv {s : St} (h : RefInv s) (rest : List Obs) (hsub : ∀ o ∈ rest, o ∈ s.gcObs) :
    RefInv { s with gcObs := rest } :=
  { cnt := h.cnt, regd := h.regd, rowsIn := h.rowsIn, pendIn := h.pendIn, idxOk := h.idxOk, preReg := h.preReg,
    freshReg := h.freshReg, freshNodup := h.freshNodup, uRows := h.uRows, uReg := h.uReg, uPend := h.uPend,
    uStores := h.uStores, uExt := h.uExt, uObs := fun o ho => h.uObs o (hsub o ho), home := h.home, ext := h.ext,
    pendExt := h.pendExt, pendObs := by simp, obs1 := fun o ho => h.obs1 o (hsub o ho),
    obs2 := fun o ho => h.obs2 o (hsub o ho) }

/-- Under `RefInv`, applying a (possibly stale) observation either does nothing or rewrites a
registry row with the count it already has. -/
theorem reconcileOne_cases (q : SqlFacts) (hq : q.Sound) {s : St} (h : RefInv s) (o : Obs) (ho : o ∈ s.gcObs) :
    reconcileOne q s o = s ∨
    ∃ c w, s.reg o.pid = some (c, w) ∧ reconcileOne q s o = { s with reg := upd1 s.reg o.pid (some (c, w + 1)) } := by
  obtain ⟨hu, hd⟩ := hq
  unfold reconcileOne
  cases hv : o.ver with
  | none => exact absurd hv (h.obs1 o ho)
  | some v =>
    simp only []
    split
    · next hact =>
      cases hr : s.reg o.pid with
      | none => exact Or.inl rfl
      | some cw =>
        obtain ⟨c, w⟩ := cw
        simp only []
        split
        · next hw =>
          have hw' : w = v := by simpa [hd, VerGuard.ok] using hw
          have := h.obs2 o ho v c w hv hr
          have hc := h.cnt o.pid c w hr
          have := this.2 hw'.symm
          omega
        · exact Or.inl rfl
    · split
      · cases hr : s.reg o.pid with
        | none => exact Or.inl rfl
        | some cw =>
          obtain ⟨c, w⟩ := cw
          simp only []
          split
          · next hw =>
            have hw' : w = v := by simpa [hu, VerGuard.ok] using hw
            have := (h.obs2 o ho v c w hv hr).2 hw'.symm
            right
            refine ⟨c, w, rfl, ?_⟩
            rw [this]
          · exact Or.inl rfl
      · exact Or.inl rfl

theorem gcReconcile_inv (q : SqlFacts) (hq : q.Sound) {s : St} (h : RefInv s) (o : Obs) (rest : List Obs)
    (hobs : s.gcObs = o :: rest) : RefInv { reconcileOne q s o with gcObs := rest } := by
  have ho : o ∈ s.gcObs := by rw [hobs]; simp
  have hsub : ∀ x ∈ rest, x ∈ s.gcObs := by intro x hx; rw [hobs]; exact List.mem_cons_of_mem _ hx
  rcases reconcileOne_cases q hq h o ho with heq | ⟨c, w, hr, heq⟩
  · rw [heq]; exact obs_shrink_inv h rest hsub
  · rw [heq]; exact reg_touch_inv h o.pid c w hr rest hsub

theorem minNat_mem : ∀ (l : List Nat) (m : Nat), minNat l = some m → m ∈ l
  | [], m, h => by simp [minNat] at h
  | a :: l, m, h => by
    simp only [minNat] at h
    cases hm : minNat l with
    | none => simp [hm] at h; simp [h]
    | some b =>
      simp only [hm] at h
      have := minNat_mem l b hm
      simp at h
      split at h
      · simp [← h]
      · subst h; exact List.mem_cons_of_mem _ this

theorem gcDedup_inv {s : St} (h : RefInv s) : RefInv { s with idx := gcDedupIdx s } := by
  refine
    { cnt := h.cnt, regd := h.regd, rowsIn := h.rowsIn, pendIn := h.pendIn, idxOk := ?_, preReg := h.preReg,
      freshReg := h.freshReg, freshNodup := h.freshNodup, uRows := h.uRows, uReg := h.uReg, uPend := h.uPend,
      uStores := h.uStores, uExt := h.uExt, uObs := h.uObs, home := h.home, ext := h.ext, pendExt := h.pendExt,
      pendObs := h.pendObs, obs1 := h.obs1, obs2 := h.obs2 }
  intro st ck p hp
  change gcDedupIdx s st ck = some p at hp
  unfold gcDedupIdx at hp
  cases hd : dropIdx s.idx (fun q => refs s.rows q == 0) st ck with
  | some q =>
    simp only [hd] at hp
    simp at hp; subst hp
    exact h.idxOk st ck q (dropIdx_sub _ _ _ _ _ hd).1
  | none =>
    simp only [hd] at hp
    have hm := minNat_mem _ _ hp
    obtain ⟨r, hr, hrp⟩ := List.mem_map.1 hm
    obtain ⟨hr1, hr2⟩ := List.mem_filter.1 hr
    simp at hr2
    have hin := h.rowsIn r hr1
    rw [hr2.1, hrp] at hin
    refine ⟨hin, Or.inl ?_⟩
    intro hn
    have := h.regd p hn
    have hpos := refs_pos_of_mem hr1
    rw [hrp] at hpos; omega

theorem condemn_go_inv {s : St} (cfg : Cfg) (h : RefInv s) (st : Store) (p : PartId) (hu : p ∈ s.used)
    (hrefs : refs s.rows p = 0) (hreg : s.reg p = none) :
    RefInv (if cfg.txFree st then
        { s with idx := dropIdx s.idx (fun q => q == p), gcExt := s.gcExt ++ [(st, p)] }
      else { s with idx := dropIdx s.idx (fun q => q == p), stores := upd2 s.stores st p none }) := by
  have hrow : ∀ r ∈ s.rows, r.pid ≠ p := by
    intro r hr heq
    have := refs_pos_of_mem hr
    rw [heq] at this; omega
  split
  · refine
      { cnt := h.cnt, regd := h.regd, rowsIn := h.rowsIn, pendIn := h.pendIn, idxOk := ?_, preReg := h.preReg,
        freshReg := h.freshReg, freshNodup := h.freshNodup, uRows := h.uRows, uReg := h.uReg, uPend := h.uPend,
        uStores := h.uStores, uExt := ?_, uObs := h.uObs, home := h.home, ext := ?_, pendExt := by simp,
        pendObs := h.pendObs, obs1 := h.obs1, obs2 := h.obs2 }
    · intro st' ck q hq
      exact h.idxOk st' ck q (dropIdx_sub _ _ _ _ _ hq).1
    · intro x hx
      rcases List.mem_append.1 hx with hx | hx
      · exact h.uExt x hx
      · simp at hx; subst hx; exact hu
    · intro x hx
      rcases List.mem_append.1 hx with hx | hx
      · exact h.ext x hx
      · simp at hx; subst hx; exact ⟨hrefs, hreg⟩
  · have hsub : ∀ a b, upd2 s.stores st p none a b ≠ none → s.stores a b ≠ none := by
      intro a b hab; rw [upd2_eq] at hab; split at hab
      · exact absurd rfl hab
      · exact hab
    have hsame : ∀ a b, b ≠ p → upd2 s.stores st p none a b = s.stores a b := by
      intro a b hb; rw [upd2_eq]; simp [hb]
    refine
      { cnt := h.cnt, regd := h.regd, rowsIn := ?_, pendIn := by simp, idxOk := ?_, preReg := h.preReg,
        freshReg := h.freshReg, freshNodup := h.freshNodup, uRows := h.uRows, uReg := h.uReg, uPend := h.uPend,
        uStores := ?_, uExt := h.uExt, uObs := h.uObs, home := ?_, ext := h.ext, pendExt := by simp,
        pendObs := h.pendObs, obs1 := h.obs1, obs2 := h.obs2 }
    · intro r hr
      show upd2 s.stores st p none r.store r.pid ≠ none
      rw [hsame _ _ (hrow r hr)]; exact h.rowsIn r hr
    · intro st' ck q hq
      obtain ⟨hq1, hq2⟩ := dropIdx_sub _ _ _ _ _ hq
      have hqp : q ≠ p := by simpa using hq2
      obtain ⟨h1, h2⟩ := h.idxOk st' ck q hq1
      refine ⟨?_, h2⟩
      show upd2 s.stores st p none st' q ≠ none
      rw [hsame _ _ hqp]; exact h1
    · intro a b hab; exact h.uStores a b (hsub a b hab)
    · intro q a b ha hb; exact h.home q a b (hsub _ _ ha) (hsub _ _ hb)

theorem condemn_inv {s : St} (cfg : Cfg) (h : RefInv s) (st : Store) (p : PartId) (hu : p ∈ s.used) :
    RefInv (condemn cfg s st p) := by
  unfold condemn
  cases hr : s.reg p with
  | none =>
    simp only []
    split
    · next hrefs => exact condemn_go_inv cfg h st p hu hrefs hr
    · exact h
  | some cv =>
    obtain ⟨c, v⟩ := cv
    simp only []
    split
    · exact h
    · next hc =>
      have := h.cnt p c v hr
      omega

theorem gcExtDelete_inv {s : St} (h : RefInv s) (st : Store) (p : PartId) (rest : List (Store × PartId))
    (hext : s.gcExt = (st, p) :: rest) :
    RefInv { s with stores := upd2 s.stores st p none, gcExt := rest } := by
  have hmem : (st, p) ∈ s.gcExt := by rw [hext]; simp
  have hsubx : ∀ x ∈ rest, x ∈ s.gcExt := by intro x hx; rw [hext]; exact List.mem_cons_of_mem _ hx
  obtain ⟨hrefs, hreg⟩ := h.ext _ hmem
  have hrow : ∀ r ∈ s.rows, r.pid ≠ p := by
    intro r hr heq
    have := refs_pos_of_mem hr
    rw [heq] at this; simp at hrefs; omega
  have hsub : ∀ a b, upd2 s.stores st p none a b ≠ none → s.stores a b ≠ none := by
    intro a b hab; rw [upd2_eq] at hab; split at hab
    · exact absurd rfl hab
    · exact hab
  have hsame : ∀ a b, b ≠ p → upd2 s.stores st p none a b = s.stores a b := by
    intro a b hb; rw [upd2_eq]; simp [hb]
  refine
    { cnt := h.cnt, regd := h.regd, rowsIn := ?_, pendIn := by simp, idxOk := ?_, preReg := h.preReg,
      freshReg := h.freshReg, freshNodup := h.freshNodup, uRows := h.uRows, uReg := h.uReg, uPend := h.uPend,
      uStores := ?_, uExt := fun x hx => h.uExt x (hsubx x hx), uObs := h.uObs, home := ?_,
      ext := fun x hx => h.ext x (hsubx x hx), pendExt := by simp,
      pendObs := h.pendObs, obs1 := h.obs1, obs2 := h.obs2 }
  · intro r hr
    show upd2 s.stores st p none r.store r.pid ≠ none
    rw [hsame _ _ (hrow r hr)]; exact h.rowsIn r hr
  · intro st' ck q hq
    obtain ⟨h1, h2⟩ := h.idxOk st' ck q hq
    have hqp : q ≠ p := by
      intro heq
      have := h2.resolve_right (by simp)
      rw [heq] at this; exact this hreg
    refine ⟨?_, h2⟩
    show upd2 s.stores st p none st' q ≠ none
    rw [hsame _ _ hqp]; exact h1
  · intro a b hab; exact h.uStores a b (hsub a b hab)
  · intro q a b ha hb; exact h.home q a b (hsub _ _ ha) (hsub _ _ hb)

theorem gcExtDrop_inv {s : St} (h : RefInv s) : RefInv { s with gcExt := s.gcExt.tail } :=
  { cnt := h.cnt, regd := h.regd, rowsIn := h.rowsIn, pendIn := h.pendIn, idxOk := h.idxOk, preReg := h.preReg,
    freshReg := h.freshReg, freshNodup := h.freshNodup, uRows := h.uRows, uReg := h.uReg, uPend := h.uPend,
    uStores := h.uStores, uExt := fun x hx => h.uExt x (List.mem_of_mem_tail hx), uObs := h.uObs, home := h.home,
    ext := fun x hx => h.ext x (List.mem_of_mem_tail hx), pendExt := by simp, pendObs := h.pendObs,
    obs1 := h.obs1, obs2 := h.obs2 }

theorem tick_inv {s : St} (h : RefInv s) (n : Nat) : RefInv { s with now := s.now + n } :=
  { cnt := h.cnt, regd := h.regd, rowsIn := h.rowsIn, pendIn := h.pendIn, idxOk := h.idxOk, preReg := h.preReg,
    freshReg := h.freshReg, freshNodup := h.freshNodup, uRows := h.uRows, uReg := h.uReg, uPend := h.uPend,
    uStores := h.uStores, uExt := h.uExt, uObs := h.uObs, home := h.home, ext := h.ext, pendExt := h.pendExt,
    pendObs := h.pendObs, obs1 := h.obs1, obs2 := h.obs2 }

/-- Every atomic step preserves `RefInv`. -/
theorem step_inv (cfg : Cfg) (hq : cfg.sql.Sound) {s : St} (h : RefInv s) (a : Act) : RefInv (step cfg s a) := by
  cases a with
  | tx script =>
    simp only [step]
    cases hr : runTx cfg.sql s script with
    | none => simpa using h
    | some s' => simpa using runTx_inv cfg.sql script h hr
  | tick n => exact tick_inv h n
  | orphan st f =>
    simp only [step]
    split
    · exact h
    · next hf => exact orphan_inv h st f hf
  | gcObserve => exact gcObserve_inv h
  | gcReconcile =>
    simp only [step]
    cases ho : s.gcObs with
    | nil => exact h
    | cons o rest => exact gcReconcile_inv cfg.sql hq h o rest ho
  | gcDedup => exact gcDedup_inv h
  | gcCondemn st p =>
    simp only [step]
    split
    · next hu => exact condemn_inv cfg h st p hu
    · exact h
  | gcExtDelete =>
    simp only [step]
    cases hx : s.gcExt with
    | nil => exact h
    | cons x rest =>
      obtain ⟨st, p⟩ := x
      exact gcExtDelete_inv h st p rest hx
  | gcExtDrop => exact gcExtDrop_inv h

theorem run_inv (cfg : Cfg) (hq : cfg.sql.Sound) {s : St} (h : RefInv s) (as : List Act) : RefInv (run cfg s as) := by
  induction as generalizing s with
  | nil => exact h
  | cons a as ih => exact ih (step_inv cfg hq h a)

end Pithos.Parts
