/-
Edit calculus for the rows of a bucket: every operation of the storage model changes the rows of
at most one bucket by (1) re-saving rows under their id without changing key or version id,
(2) removing rows, and (3) appending at most one new row which is either a null version of a key
that has none or carries the fresh version id. `VRows` — (key, version id) pairs are pairwise
distinct and version ids are below the counter — is preserved by such edits, so a version id
addresses at most one row in every reachable state.
-/
import Pithos.Lemmas.S3Read

namespace Pithos.S3

def kv (r : Row) : String × Option Nat := (r.key, r.vid)

inductive Pre : List Row → List Row → Prop
  | refl (rows : List Row) : Pre rows rows
  | repl {rows mid : List Row} (y : Row) : Pre rows mid → (∀ x ∈ mid, x.rowId = y.rowId → kv x = kv y) →
      Pre rows (repl mid y)
  | filter {rows mid : List Row} (f : Row → Bool) : Pre rows mid → Pre rows (mid.filter f)

theorem map_kv_repl (mid : List Row) (y : Row) (h : ∀ x ∈ mid, x.rowId = y.rowId → kv x = kv y) :
    (repl mid y).map kv = mid.map kv := by
  unfold repl
  rw [List.map_map]
  apply List.map_congr_left
  intro x hx
  by_cases hid : x.rowId = y.rowId
  · simp [hid, h x hx hid]
  · simp [hid]

theorem pre_sublist {rows mid : List Row} (h : Pre rows mid) : (mid.map kv).Sublist (rows.map kv) := by
  induction h with
  | refl => exact List.Sublist.refl _
  | repl y _ hy ih => rw [map_kv_repl _ y hy]; exact ih
  | filter f _ ih => exact ((List.filter_sublist).map kv).trans ih

theorem pre_trans {a b c : List Row} (h1 : Pre a b) (h2 : Pre b c) : Pre a c := by
  induction h2 with
  | refl => exact h1
  | repl y _ hy ih => exact Pre.repl y ih hy
  | filter f _ ih => exact Pre.filter f ih

/-- Every row of `mid` stems from a row of `rows` with the same key and version id. -/
theorem pre_mem_kv {rows mid : List Row} (h : Pre rows mid) : ∀ x ∈ mid, ∃ x0 ∈ rows, kv x0 = kv x := by
  intro x hx
  have : kv x ∈ mid.map kv := List.mem_map.2 ⟨x, hx, rfl⟩
  obtain ⟨x0, hx0, he⟩ := List.mem_map.1 ((pre_sublist h).subset this)
  exact ⟨x0, hx0, he⟩

def Edited (nv nv' : Nat) (rows rows' : List Row) : Prop :=
  ∃ mid, Pre rows mid ∧ (rows' = mid ∨ ∃ y, rows' = mid ++ [y] ∧
    ((y.vid = none ∧ ∀ x ∈ mid, kv x ≠ kv y) ∨ (y.vid = some nv ∧ nv < nv')))

theorem edited_refl (nv nv' : Nat) (rows : List Row) : Edited nv nv' rows rows := ⟨rows, Pre.refl _, Or.inl rfl⟩

theorem edited_pre {nv nv' : Nat} {rows mid : List Row} (h : Pre rows mid) : Edited nv nv' rows mid := ⟨mid, h, Or.inl rfl⟩

theorem edited_of_pre {nv nv' : Nat} {a b c : List Row} (h1 : Pre a b) (h2 : Edited nv nv' b c) : Edited nv nv' a c := by
  obtain ⟨mid, hm, hc⟩ := h2
  exact ⟨mid, pre_trans h1 hm, hc⟩

structure VRows (nv : Nat) (rows : List Row) : Prop where
  nodup : (rows.map kv).Nodup
  fresh : ∀ r ∈ rows, ∀ v, r.vid = some v → v < nv

theorem VRows.nil (nv : Nat) : VRows nv [] := ⟨by simp, by simp⟩

theorem vrows_edited {nv nv' : Nat} {rows rows' : List Row} (h : VRows nv rows) (he : Edited nv nv' rows rows')
    (hle : nv ≤ nv') : VRows nv' rows' := by
  obtain ⟨mid, hpre, hc⟩ := he
  have hsub := pre_sublist hpre
  have hmid : VRows nv mid := by
    refine ⟨hsub.nodup h.nodup, ?_⟩
    intro r hr v hv
    obtain ⟨x0, hx0, he⟩ := pre_mem_kv hpre r hr
    have : x0.vid = some v := by
      have := congrArg Prod.snd he
      simp only [kv] at this
      rw [this, hv]
    exact h.fresh x0 hx0 v this
  rcases hc with rfl | ⟨y, rfl, hy⟩
  · exact ⟨hmid.nodup, fun r hr v hv => Nat.lt_of_lt_of_le (hmid.fresh r hr v hv) hle⟩
  · refine ⟨?_, ?_⟩
    · rw [List.map_append, List.map_singleton]
      rw [List.nodup_append]
      refine ⟨hmid.nodup, by simp, ?_⟩
      intro a ha b hb
      simp only [List.mem_singleton] at hb
      subst hb
      obtain ⟨x, hx, hxa⟩ := List.mem_map.1 ha
      rcases hy with ⟨_, hne⟩ | ⟨hv, _⟩
      · rw [← hxa]; exact hne x hx
      · intro e
        rw [← hxa] at e
        have hxv : x.vid = some nv := by
          have := congrArg Prod.snd e
          simp only [kv] at this
          rw [this, hv]
        exact Nat.lt_irrefl _ (hmid.fresh x hx nv hxv)
    · intro r hr v hv
      rcases List.mem_append.1 hr with hr | hr
      · exact Nat.lt_of_lt_of_le (hmid.fresh r hr v hv) hle
      · simp only [List.mem_singleton] at hr
        subst hr
        rcases hy with ⟨hn, _⟩ | ⟨hv', hlt⟩
        · rw [hn] at hv; cases hv
        · rw [hv'] at hv; injection hv with hv; rw [← hv]; exact hlt

-- ------------------------------------------------------------------ bucket-level constructions

/-- Re-saving row `c` (same id, key, version id) is a `Pre` step. -/
theorem pre_resave {rows : List Row} {n : Nat} (hb : RowsInv n rows) {c y : Row} (hc : c ∈ rows)
    (hid : y.rowId = c.rowId) (hkv : kv y = kv c) : Pre rows (repl rows y) := by
  refine Pre.repl y (Pre.refl _) ?_
  intro x hx hxy
  have : x = c := eq_of_id_eq hb.nodup hx hc (hxy.trans hid)
  rw [this, hkv]

theorem pre_unlatest {q : Quirks} {bk : Bucket} {n : Nat} (now : Nat) (hb : RowsInv n bk.rows) {c : Row} (hc : c ∈ bk.rows) :
    Pre bk.rows (unlatest q now bk c).rows := by
  rw [unlatest_rows]
  exact pre_resave hb hc rfl rfl

theorem pre_unlatestCur {q : Quirks} {bk : Bucket} {n : Nat} (now : Nat) (k : String) (hb : RowsInv n bk.rows) :
    Pre bk.rows (unlatestCur q now bk k).rows := by
  unfold unlatestCur
  cases hl : latestRow bk k with
  | none => exact Pre.refl _
  | some c => exact pre_unlatest now hb (latestRow_some hl).1

theorem pre_touch {q : Quirks} {bk : Bucket} {n : Nat} (now : Nat) (hb : RowsInv n bk.rows) {c c' : Row} (hc : c ∈ bk.rows)
    (hid : c'.rowId = c.rowId) (hkv : kv c' = kv c) : Pre bk.rows (replaceRow bk (touch q now c')).rows := by
  rw [replaceRow_rows]
  exact pre_resave hb hc (by simp [touch, hid]) (by simpa [touch, kv] using hkv)

theorem pre_removeRow (bk : Bucket) (i : Nat) : Pre bk.rows (removeRow bk i).rows := by
  rw [removeRow_rows]; exact Pre.filter _ (Pre.refl _)

theorem pre_promote {q : Quirks} {bk : Bucket} {n : Nat} (now : Nat) (k : String) (hb : RowsInv n bk.rows) :
    Pre bk.rows (promote q now bk k).rows := by
  unfold promote
  simp only []
  split
  · exact Pre.refl _
  · rename_i c hc
    have hm := (List.mem_filter.1 (maxBy_mem _ _ _ hc)).1
    rw [replaceRow_rows]
    exact pre_resave hb hm rfl rfl

/-- `install`: the bucket's rows are edited; the counter moves by at most one. -/
theorem edited_install (q : Quirks) (s : State) (bk : Bucket) (k : String) (n : NewObj) (hb : RowsInv s.nextRow bk.rows) :
    ∃ X, (install q s bk k n).1.buckets = (setBucket s X).buckets ∧ X.name = bk.name ∧
      s.nextVid ≤ (install q s bk k n).1.nextVid ∧ Edited s.nextVid (install q s bk k n).1.nextVid bk.rows X.rows := by
  have hpre := pre_unlatestCur (q := q) s.clock k hb
  have hb2 := inv_unlatestCur q s.clock bk k hb
  unfold install
  simp only []
  split
  · refine ⟨_, rfl, by rw [addRow_name, unlatestCur_name], Nat.le_succ _, ?_⟩
    rw [addRow_rows]
    exact ⟨_, hpre, Or.inr ⟨_, rfl, Or.inr ⟨by simp [mkRow], Nat.lt_succ_self _⟩⟩⟩
  · split
    · rename_i nr hnr
      refine ⟨_, rfl, by rw [replaceRow_name, unlatestCur_name], Nat.le_refl _, ?_⟩
      obtain ⟨hmem, hkey, hvid⟩ := rowByVid_mem (by simpa [nullRow] using hnr)
      rw [replaceRow_rows]
      refine edited_pre (Pre.repl _ hpre ?_)
      intro x hx hxid
      obtain ⟨x0, hx0, he⟩ := pre_mem_kv hpre x hx
      -- x0 has the same (key, vid) as x; rows of unlatestCur keep their ids, so x0 may differ from
      -- the row with x's id — use ids instead: the row of bk with x's id is nr
      obtain ⟨r', hr', hid'⟩ := mem_ids_unlatestCur q s.clock bk k hmem
      have hxr' : x = r' := eq_of_id_eq hb2.nodup hx hr' (by rw [hxid, hid']; simp [mkRow])
      -- r' stems from nr: same key and vid
      have hkv' : kv r' = kv nr := by
        unfold unlatestCur at hr'
        cases hl : latestRow bk k with
        | none => rw [hl] at hr'; simp only [] at hr'; rw [eq_of_id_eq hb.nodup hr' hmem hid']
        | some c =>
          rw [hl] at hr'; simp only [] at hr'
          rw [unlatest_rows] at hr'
          rcases mem_repl hr' with hy | ⟨hin, _⟩
          · have hcid : c.rowId = nr.rowId := by rw [← hid', hy]
            have : c = nr := eq_of_id_eq hb.nodup (latestRow_some hl).1 hmem hcid
            rw [hy, ← this]; rfl
          · rw [eq_of_id_eq hb.nodup hin hmem hid']
      rw [hxr', hkv']
      simp [kv, mkRow, hkey, hvid]
    · rename_i hnone
      refine ⟨_, rfl, by rw [addRow_name, unlatestCur_name], Nat.le_refl _, ?_⟩
      rw [addRow_rows]
      refine ⟨_, hpre, Or.inr ⟨_, rfl, Or.inl ⟨by simp [mkRow], ?_⟩⟩⟩
      intro x hx he
      obtain ⟨x0, hx0, he0⟩ := pre_mem_kv hpre x hx
      -- x0 would be a null row of k in bk
      have hn := hnone
      unfold nullRow rowByVid at hn
      rw [List.find?_eq_none] at hn
      have h0 := hn x0 hx0
      have h2 : kv x0 = (k, none) := by rw [he0, he]; simp [kv, mkRow]
      simp only [kv, Prod.mk.injEq] at h2
      simp [h2.1, h2.2] at h0

end Pithos.S3
