import Pithos.Model.MetaFine

/-
Lemmas about `Pithos.Model.MetaFine` (the statement-level optimistic-lock protocol on one key).

Method: `stepThread` is characterised once by the relation `TStep` (`stepThread_spec`); all theorems
are invariants of `step` carried along an arbitrary schedule (`exec_induct`):
  * `InvB`  — no hypotheses: programs constant, the log is a chain, one commit per thread, acknowledged
              writers have a log entry;
  * `Inv`   — initial row id below the id counter: versions of a row id only grow and new rows get
              fresh ids, so "same id and version" means "same row" (`RegOK`); hence the CAS facts;
  * `Inv2`  — appenders and non-empty putters with fresh part ids: an appender's commit extends
              exactly the current content.
-/

namespace Pithos.MetaFine

/-! ## setThread / step / exec infrastructure -/

theorem length_setThread (ts : List Thread) (i : Nat) (l : Loc) :
    (setThread ts i l).length = ts.length := by
  simp [setThread]

theorem getElem?_setThread (ts : List Thread) (i : Nat) (l : Loc) (j : Nat) :
    (setThread ts i l)[j]? = (ts[j]?).map fun t => if j = i then { t with loc := l } else t := by
  simp [setThread, List.getElem?_mapIdx]

theorem getElem?_setThread_self (ts : List Thread) (i : Nat) (l : Loc) (t : Thread)
    (h : ts[i]? = some t) : (setThread ts i l)[i]? = some { t with loc := l } := by
  simp [getElem?_setThread, h]

theorem getElem?_setThread_ne (ts : List Thread) (i : Nat) (l : Loc) (j : Nat) (h : j ≠ i) :
    (setThread ts i l)[j]? = ts[j]? := by
  rw [getElem?_setThread]
  cases ts[j]? <;> simp [h]

/-- One atomic step of a thread, as a relation with one constructor per kind of step. -/
inductive TStep (sz : PartId → Nat) (tid : Nat) (d : Db) : Prog → Loc → Db → Loc → Option Commit → Prop
  | stutter (p l) : TStep sz tid d p l d l none
  | fail (p l r) (hl : ∀ r', l ≠ .done r') (hput : ∀ new c, p = .put new c → r ≠ .ok) (happ : ∀ o, r ≠ .okAt o) :
      TStep sz tid d p l d (.done r) none
  | delNothing (im l) (hl : ∀ r', l ≠ .done r') : TStep sz tid d (.del im) l d (.done .ok) none
  | putRead (new c)
      (him : ∀ e, c = .im e → ∃ r, d.row = some r ∧ r.parts = e)
      (hinm : c = .inm → d.row = none) :
      TStep sz tid d (.put new c) .start d (.seen d.row) none
  | delRead (im r) (hrow : d.row = some r) (him : ∀ e, im = some e → r.parts = e) :
      TStep sz tid d (.del im) .start d (.seen (some r)) none
  | putUpd (new c sc r k) (hk : 0 < k) (hrow : d.row = some r) (hid : r.id = sc.id)
      (hver : c ≠ .none → r.ver = sc.ver) :
      TStep sz tid d (.put new c) (.seen (some sc))
        { d with row := some ⟨r.id, r.ver + k, new⟩ } (.done .ok)
        (some ⟨tid, some r, some ⟨r.id, r.ver + k, new⟩⟩)
  | putIns (new c) (hrow : d.row = none) :
      TStep sz tid d (.put new c) (.seen none)
        { row := some ⟨d.nextId, 1, new⟩, nextId := d.nextId + 1 } (.done .ok)
        (some ⟨tid, none, some ⟨d.nextId, 1, new⟩⟩)
  | delCommit (im sc r) (hrow : d.row = some r) (hid : r.id = sc.id)
      (hver : im.isSome → r.ver = sc.ver) :
      TStep sz tid d (.del im) (.seen (some sc)) { d with row := none } (.done .ok)
        (some ⟨tid, some r, none⟩)
  | appRead1 (new off) (hoff : ∀ n, off = some n → n = sizeOf sz (partsOf d.row)) :
      TStep sz tid d (.append new off) .start d (.r1 d.row) none
  | appRead2 (new off c1) : TStep sz tid d (.append new off) (.r1 c1) d (.r2 c1 d.row) none
  | appRead3 (new off c1 sc p3) (hg : guard sc d = true → partsOf d.row = p3)
      (hpre : p3 <+: partsOf c1 ++ [new]) :
      TStep sz tid d (.append new off) (.r2 c1 (some sc)) d (.r3 c1 sc p3) none
  | appIns (new off c1) (hrow : d.row = none) :
      TStep sz tid d (.append new off) (.r2 c1 none)
        { row := some ⟨d.nextId, 1, partsOf c1 ++ [new]⟩, nextId := d.nextId + 1 }
        (.done (.okAt (sizeOf sz (partsOf c1))))
        (some ⟨tid, none, some ⟨d.nextId, 1, partsOf c1 ++ [new]⟩⟩)
  | appCas (new off c1 sc p3 r) (hrow : d.row = some r) (hid : r.id = sc.id) (hver : r.ver = sc.ver) :
      TStep sz tid d (.append new off) (.r3 c1 sc p3)
        { d with row := some ⟨r.id, r.ver + 1, r.parts ++ (partsOf c1 ++ [new]).drop p3.length⟩ }
        (.done (.okAt (sizeOf sz (partsOf c1))))
        (some ⟨tid, some r, some ⟨r.id, r.ver + 1, r.parts ++ (partsOf c1 ++ [new]).drop p3.length⟩⟩)

theorem guard_iff (c : Cell) (d : Db) :
    guard c d = true ↔ ∃ r, d.row = some r ∧ r.id = c.id ∧ r.ver = c.ver := by
  unfold guard
  cases d.row <;> simp

theorem read3_aux (sz : PartId → Nat) (tid : Nat) (d : Db) (new : PartId) (off : Option Nat)
    (c1 : Option Cell) (sc : Cell) (p3 : List PartId) (hg : guard sc d = true → partsOf d.row = p3) :
    TStep sz tid d (.append new off) (.r2 c1 (some sc))
      (if p3.isPrefixOf (partsOf c1 ++ [new]) = true then (d, Loc.r3 c1 sc p3, (none : Option Commit))
        else (d, Loc.done Res.internal, none)).1
      (if p3.isPrefixOf (partsOf c1 ++ [new]) = true then (d, Loc.r3 c1 sc p3, (none : Option Commit))
        else (d, Loc.done Res.internal, none)).2.1
      (if p3.isPrefixOf (partsOf c1 ++ [new]) = true then (d, Loc.r3 c1 sc p3, (none : Option Commit))
        else (d, Loc.done Res.internal, none)).2.2 := by
  by_cases hp : p3.isPrefixOf (partsOf c1 ++ [new]) = true
  · rw [if_pos hp]
    exact .appRead3 _ _ _ _ _ hg (List.isPrefixOf_iff_prefix.1 hp)
  · rw [if_neg hp]
    exact .fail _ _ _ (by simp) (by simp) (by simp)

theorem stepThread_spec (sz : PartId → Nat) (tid : Nat) (d : Db) (t : Thread) :
    TStep sz tid d t.prog t.loc (stepThread sz tid d t).1 (stepThread sz tid d t).2.1
      (stepThread sz tid d t).2.2 := by
  obtain ⟨p, l⟩ := t
  cases p with
  | put new c =>
    cases l with
    | start =>
      cases c with
      | none => simp only [stepThread]; exact .putRead _ _ (by simp) (by simp)
      | inm =>
        cases hr : d.row with
        | none =>
          simp only [stepThread, hr]
          have := TStep.putRead (sz := sz) (tid := tid) (d := d) new .inm (by simp) (by simp [hr])
          rw [hr] at this; exact this
        | some r => simp only [stepThread, hr]; exact .fail _ _ _ (by simp) (by simp) (by simp)
      | im e =>
        cases hr : d.row with
        | none => simp only [stepThread, hr]; exact .fail _ _ _ (by simp) (by simp) (by simp)
        | some r =>
          simp only [stepThread, hr]
          split
          · have := TStep.putRead (sz := sz) (tid := tid) (d := d) new (.im e)
              (by simp_all) (by simp)
            rw [hr] at this; exact this
          · exact .fail _ _ _ (by simp) (by simp) (by simp)
    | seen s =>
      cases s with
      | some sc =>
        by_cases hc : c = .none
        · subst hc
          cases hr : d.row with
          | none => simp [stepThread, hr]; exact .fail _ _ _ (by simp) (by simp) (by simp)
          | some r =>
            by_cases hid : r.id = sc.id
            · have := TStep.putUpd (sz := sz) (tid := tid) (d := d) new .none sc r 2 (by omega) hr hid (by simp)
              simp [stepThread, hr, hid]
              simpa [hr, hid] using this
            · simp [stepThread, hr, hid]; exact .fail _ _ _ (by simp) (by simp) (by simp)
        · by_cases hg : guard sc d = true
          · obtain ⟨r, hr, hid, hver⟩ := (guard_iff sc d).1 hg
            have := TStep.putUpd (sz := sz) (tid := tid) (d := d) new c sc r 3 (by omega) hr hid (fun _ => hver)
            simp [stepThread, hc, hg]
            simpa [hr, hid, hver] using this
          · simp [stepThread, hc, hg]; exact .fail _ _ _ (by simp) (by simp) (by simp)
      | none =>
        cases hr : d.row with
        | none =>
          have := TStep.putIns (sz := sz) (tid := tid) (d := d) new c hr
          simp [stepThread, hr]
          exact this
        | some r =>
          simp [stepThread, hr]
          by_cases hc : c = .inm
          · simp [hc]; exact .fail _ _ _ (by simp) (by simp) (by simp)
          · simp [hc]; exact .fail _ _ _ (by simp) (by simp) (by simp)
    | r1 c1 => exact .stutter _ _
    | r2 c1 c2 => exact .stutter _ _
    | r3 c1 c2 p3 => exact .stutter _ _
    | done r => exact .stutter _ _
  | del im =>
    cases l with
    | start =>
      cases im with
      | none =>
        cases hr : d.row with
        | none => simp only [stepThread, hr]; exact .delNothing _ _ (by simp)
        | some r => simp only [stepThread, hr]; exact .delRead _ _ hr (by simp)
      | some e =>
        cases hr : d.row with
        | none => simp only [stepThread, hr]; exact .fail _ _ _ (by simp) (by simp) (by simp)
        | some r =>
          simp only [stepThread, hr]
          split
          · exact .delRead _ _ hr (by simp_all)
          · exact .fail _ _ _ (by simp) (by simp) (by simp)
    | seen s =>
      cases s with
      | none => simp only [stepThread]; exact .delNothing _ _ (by simp)
      | some sc =>
        cases im with
        | none =>
          cases hr : d.row with
          | none => simp [stepThread, hr]; exact .delNothing _ _ (by simp)
          | some r =>
            by_cases hid : r.id = sc.id
            · have := TStep.delCommit (sz := sz) (tid := tid) (d := d) none sc r hr hid (by simp)
              simp [stepThread, hr, hid]
              simpa [hr, hid] using this
            · simp [stepThread, hr, hid]; exact .delNothing _ _ (by simp)
        | some e =>
          by_cases hg : guard sc d = true
          · obtain ⟨r, hr, hid, hver⟩ := (guard_iff sc d).1 hg
            have := TStep.delCommit (sz := sz) (tid := tid) (d := d) (some e) sc r hr hid (fun _ => hver)
            simp [stepThread, hg]
            simpa [hr, hid, hver] using this
          · simp [stepThread, hg]; exact .fail _ _ _ (by simp) (by simp) (by simp)
    | r1 c1 => exact .stutter _ _
    | r2 c1 c2 => exact .stutter _ _
    | r3 c1 c2 p3 => exact .stutter _ _
    | done r => exact .stutter _ _
  | append new off =>
    cases l with
    | start =>
      cases off with
      | none => simp only [stepThread]; exact .appRead1 _ _ (by simp)
      | some n =>
        by_cases hn : n = sizeOf sz (partsOf d.row)
        · simp only [stepThread]
          rw [if_pos (by simpa using hn)]
          exact .appRead1 _ _ (by simpa using hn)
        · simp only [stepThread]
          rw [if_neg (by simpa using hn)]
          exact .fail _ _ _ (by simp) (by simp) (by simp)
    | seen s => exact .stutter _ _
    | r1 c1 => simp only [stepThread]; exact .appRead2 _ _ _
    | r2 c1 c2 =>
      cases c2 with
      | none =>
        cases hr : d.row with
        | none =>
          have := TStep.appIns (sz := sz) (tid := tid) (d := d) new off c1 hr
          simp [stepThread, hr]
          exact this
        | some r => simp [stepThread, hr]; exact .fail _ _ _ (by simp) (by simp) (by simp)
      | some sc =>
        simp only [stepThread]
        apply read3_aux
        intro hg
        obtain ⟨r, hr, hid, hver⟩ := (guard_iff sc d).1 hg
        simp [hr, hid, partsOf]
    | r3 c1 sc p3 =>
      by_cases hg : guard sc d = true
      · obtain ⟨r, hr, hid, hver⟩ := (guard_iff sc d).1 hg
        have := TStep.appCas (sz := sz) (tid := tid) (d := d) new off c1 sc p3 r hr hid hver
        simp [stepThread, hg]
        simpa [hr, hid, hver, partsOf] using this
      · simp [stepThread, hg]; exact .fail _ _ _ (by simp) (by simp) (by simp)
    | done r => exact .stutter _ _


/-! ## facts about one thread step -/

/-- How a commit changes the database. -/
inductive DbChange (d d' : Db) : Prop
  | upd (r r' : Cell) (h : d.row = some r) (h' : d'.row = some r') (hid : r'.id = r.id)
      (hver : r.ver < r'.ver) (hn : d'.nextId = d.nextId)
  | ins (r' : Cell) (h : d.row = none) (h' : d'.row = some r') (hid : r'.id = d.nextId)
      (hn : d'.nextId = d.nextId + 1)
  | del (h' : d'.row = none) (hn : d'.nextId = d.nextId)

theorem TStep.noCommit {sz tid d p l d' l' c} (h : TStep sz tid d p l d' l' c) (hc : c = none) :
    d' = d := by
  cases h <;> simp_all

theorem TStep.commit {sz tid d p l d' l' c} (h : TStep sz tid d p l d' l' c) {cm : Commit}
    (hc : c = some cm) :
    DbChange d d' ∧ cm = ⟨tid, d.row, d'.row⟩ ∧ (∃ r, l' = .done r) ∧ (∀ r, l ≠ .done r) := by
  cases h <;> simp at hc <;> subst hc
  · rename_i new c sc r k hk hrow hid hver
    exact ⟨.upd r ⟨r.id, r.ver + k, _⟩ hrow rfl rfl (by simp; omega) rfl, by simp [hrow], ⟨_, rfl⟩, by simp⟩
  · rename_i new c hrow
    exact ⟨.ins _ hrow rfl rfl rfl, by simp [hrow], ⟨_, rfl⟩, by simp⟩
  · rename_i im sc r hrow hid hver
    exact ⟨.del rfl rfl, by simp [hrow], ⟨_, rfl⟩, by simp⟩
  · rename_i new off c1 hrow
    exact ⟨.ins _ hrow rfl rfl rfl, by simp [hrow], ⟨_, rfl⟩, by simp⟩
  · rename_i new off c1 sc p3 r hrow hid hver
    exact ⟨.upd r ⟨r.id, r.ver + 1, _⟩ hrow rfl rfl (by simp) rfl, by simp [hrow], ⟨_, rfl⟩, by simp⟩

/-- The cells a thread holds in its registers. -/
def regs : Loc → List Cell
  | .seen c => c.toList
  | .r1 c => c.toList
  | .r2 c1 c2 => c1.toList ++ c2.toList
  | .r3 c1 c2 _ => c1.toList ++ [c2]
  | _ => []

/-- A register is consistent with the database: its id is not fresh, and if the row still has that
id, the row's version is at least the register's, with equality only for the same row. -/
def RegOK (d : Db) (c : Cell) : Prop :=
  c.id < d.nextId ∧ ∀ r, d.row = some r → r.id = c.id → c.ver ≤ r.ver ∧ (c.ver = r.ver → r = c)

def RowId (d : Db) : Prop := ∀ c, d.row = some c → c.id < d.nextId

theorem DbChange.rowId {d d'} (h : DbChange d d') (hr : RowId d) : RowId d' := by
  intro c hc
  cases h with
  | upd r r' h h' hid hver hn => have := hr r h; simp_all
  | ins r' h h' hid hn => simp_all
  | del h' hn => simp_all

theorem DbChange.regOK {d d'} (h : DbChange d d') {c : Cell} (hc : RegOK d c) : RegOK d' c := by
  obtain ⟨h1, h2⟩ := hc
  cases h with
  | upd r r' h h' hid hver hn =>
    refine ⟨by omega, ?_⟩
    intro x hx hxid
    have : x = r' := by simp_all
    subst this
    have := h2 r h (by omega)
    omega
  | ins r' h h' hid hn =>
    refine ⟨by omega, ?_⟩
    intro x hx hxid
    have : x = r' := by simp_all
    subst this
    omega
  | del h' hn =>
    refine ⟨by omega, ?_⟩
    intro x hx; simp_all

theorem DbChange.guard_false {d d'} (h : DbChange d d') {c : Cell} (hc : RegOK d c) :
    guard c d' = false := by
  obtain ⟨h1, h2⟩ := hc
  cases hg : guard c d' with
  | false => rfl
  | true =>
    exfalso
    obtain ⟨x, hx, hxid, hxver⟩ := (guard_iff c d').1 hg
    cases h with
    | upd r r' h h' hid hver hn =>
      have : x = r' := by simp_all
      subst this
      have := h2 r h (by omega)
      omega
    | ins r' h h' hid hn =>
      have : x = r' := by simp_all
      subst this
      omega
    | del h' hn => simp_all

theorem RegOK.of_row {d : Db} (hr : RowId d) {c : Cell} (h : d.row = some c) : RegOK d c :=
  ⟨hr c h, fun r hr' _ => by simp_all⟩

theorem RegOK.guard {d : Db} {c : Cell} (h : RegOK d c) (hg : guard c d = true) : d.row = some c := by
  obtain ⟨x, hx, hxid, hxver⟩ := (guard_iff c d).1 hg
  have := (h.2 x hx hxid).2 hxver.symm
  simp_all

theorem TStep.regs_new {sz tid d p l d' l' c} (h : TStep sz tid d p l d' l' c) {x : Cell}
    (hx : x ∈ regs l') : x ∈ regs l ∨ (d.row = some x ∧ d' = d) := by
  cases h <;> simp_all [regs] <;> grind


/-- Conditional writers only proceed past their read with a row of the named content
(If-None-Match: with no row). -/
def CondOK : Prog → Loc → Prop
  | .put _ (.im e), .seen s => ∃ c, s = some c ∧ c.parts = e
  | .put _ .inm, .seen s => s = none
  | .del (some e), .seen s => ∃ c, s = some c ∧ c.parts = e
  | _, _ => True

theorem TStep.condOK {sz tid d p l d' l' c} (h : TStep sz tid d p l d' l' c) (hc : CondOK p l) :
    CondOK p l' := by
  cases h
  case stutter => exact hc
  case putRead new c him hinm =>
    cases c with
    | none => simp [CondOK]
    | inm => simp [CondOK, hinm]
    | im e => obtain ⟨r, hr, he⟩ := him e rfl; simp [CondOK, hr, he]
  case delRead im r hrow him =>
    cases im with
    | none => simp [CondOK]
    | some e => simp [CondOK, him e rfl]
  all_goals (first | (cases p <;> simp [CondOK]; done) | simp [CondOK])

/-- What an appender knows after read 3. -/
def R3OK (d : Db) : Prog → Loc → Prop
  | .append new _, .r3 c1 c2 p3 => (guard c2 d = true → partsOf d.row = p3) ∧ p3 <+: partsOf c1 ++ [new]
  | _, _ => True

theorem TStep.r3OK {sz tid d p l d' l' c} (h : TStep sz tid d p l d' l' c) (hc : R3OK d p l)
    (hn : c = none) : R3OK d' p l' := by
  cases h <;> simp_all [R3OK] <;> (first | (cases p <;> simp [R3OK]; done) | skip)

theorem R3OK.change {d d' : Db} (h : DbChange d d') {p : Prog} {l : Loc}
    (hreg : ∀ x ∈ regs l, RegOK d x) (hc : R3OK d p l) : R3OK d' p l := by
  cases p <;> cases l <;> simp_all [R3OK]
  rename_i new off c1 c2 p3
  intro hg
  have := h.guard_false (hreg c2 (by simp [regs]))
  simp_all

/-- The `before` facts of `cas_no_lost_update`. -/
def CasOK (p : Prog) (cm : Commit) : Prop :=
  (∀ new e, p = .put new (.im e) → ∃ b, cm.before = some b ∧ b.parts = e) ∧
  (∀ e, p = .del (some e) → ∃ b, cm.before = some b ∧ b.parts = e) ∧
  (∀ new, p = .put new .inm → cm.before = none)

theorem TStep.casOK {sz tid d p l d' l' c} (h : TStep sz tid d p l d' l' c) {cm : Commit}
    (hc : c = some cm) (hreg : ∀ x ∈ regs l, RegOK d x) (hcond : CondOK p l) : CasOK p cm := by
  cases h <;> simp at hc <;> subst hc
  · rename_i new c sc r k hk hrow hid hver
    have hsc := hreg sc (by simp [regs])
    cases c with
    | none => simp [CasOK]
    | inm => simp [CondOK] at hcond
    | im e =>
      simp [CondOK] at hcond
      have := (hsc.2 r hrow hid).2 (hver (by simp)).symm
      subst this
      simp [CasOK, hcond]
  · rename_i new c hrow
    cases c <;> simp_all [CasOK, CondOK]
  · rename_i im sc r hrow hid hver
    have hsc := hreg sc (by simp [regs])
    cases im with
    | none => simp [CasOK]
    | some e =>
      simp [CondOK] at hcond
      have := (hsc.2 r hrow hid).2 (hver (by simp)).symm
      subst this
      simp [CasOK, hcond]
  · simp [CasOK]
  · simp [CasOK]

theorem TStep.ackPut {sz tid d p l d' l' c} (h : TStep sz tid d p l d' l' c) {new : List PartId}
    {cd : Cond} (hp : p = .put new cd) (hl : l' = .done .ok) :
    l = .done .ok ∨ ∃ cm a, c = some cm ∧ cm.after = some a ∧ a.parts = new := by
  cases h <;> simp_all

theorem TStep.ackApp {sz tid d p l d' l' c} (h : TStep sz tid d p l d' l' c) {o : Nat}
    (hl : l' = .done (.okAt o)) : l = .done (.okAt o) ∨ ∃ cm, c = some cm := by
  cases h <;> simp_all


/-! ## state steps -/

theorem step_none {sz : PartId → Nat} {s : State} {i : Nat} (h : s.threads[i]? = none) :
    step sz s i = s := by
  simp [step, h]

theorem step_some {sz : PartId → Nat} {s : State} {i : Nat} {t : Thread} (h : s.threads[i]? = some t) :
    ∃ d' l' c, TStep sz i s.db t.prog t.loc d' l' c ∧
      step sz s i = { db := d', threads := setThread s.threads i l', log := s.log ++ c.toList } := by
  refine ⟨_, _, _, stepThread_spec sz i s.db t, ?_⟩
  simp [step, h]

theorem exec_nil (sz : PartId → Nat) (s : State) : exec sz s [] = s := rfl

theorem exec_cons (sz : PartId → Nat) (s : State) (i : Nat) (sched : List Nat) :
    exec sz s (i :: sched) = exec sz (step sz s i) sched := rfl

theorem exec_induct {sz : PartId → Nat} (P : State → Prop) (hstep : ∀ s i, P s → P (step sz s i))
    (s : State) (sched : List Nat) (h : P s) : P (exec sz s sched) := by
  induction sched generalizing s with
  | nil => exact h
  | cons i sched ih => rw [exec_cons]; exact ih _ (hstep s i h)

theorem setThread_cases {ts : List Thread} {i : Nat} {l : Loc} {t : Thread} (ht : ts[i]? = some t)
    {j : Nat} {u : Thread} (hu : (setThread ts i l)[j]? = some u) :
    (j = i ∧ u = { t with loc := l }) ∨ (j ≠ i ∧ ts[j]? = some u) := by
  by_cases hji : j = i
  · subst hji
    rw [getElem?_setThread_self _ _ _ _ ht] at hu
    left; exact ⟨rfl, by simpa using hu.symm⟩
  · rw [getElem?_setThread_ne _ _ _ _ hji] at hu
    right; exact ⟨hji, hu⟩

/-- The log is the linear history of the row. -/
def Chain : Option Cell → List Commit → Option Cell → Prop
  | a, [], b => a = b
  | a, c :: cs, b => c.before = a ∧ Chain c.after cs b

theorem Chain.snoc {a b : Option Cell} {l : List Commit} (h : Chain a l b) (c : Commit)
    (hb : c.before = b) : Chain a (l ++ [c]) c.after := by
  induction l generalizing a with
  | nil => simp [Chain] at h ⊢; simp [hb, h]
  | cons x xs ih => simp [Chain] at h ⊢; exact ⟨h.1, ih h.2⟩

theorem Chain.append {a b c : Option Cell} {l1 l2 : List Commit} (h1 : Chain a l1 b)
    (h2 : Chain b l2 c) : Chain a (l1 ++ l2) c := by
  induction l1 generalizing a with
  | nil => simp [Chain] at h1; subst h1; simpa using h2
  | cons x xs ih => simp [Chain] at h1 ⊢; exact ⟨h1.1, ih h1.2⟩

theorem Chain.split {a c : Option Cell} {l1 l2 : List Commit} (h : Chain a (l1 ++ l2) c) :
    ∃ b, Chain a l1 b ∧ Chain b l2 c := by
  induction l1 generalizing a with
  | nil => exact ⟨a, by simp [Chain], by simpa using h⟩
  | cons x xs ih =>
    simp [Chain] at h
    obtain ⟨b, hb1, hb2⟩ := ih h.2
    exact ⟨b, by simp [Chain, h.1, hb1], hb2⟩

/-- The basic invariant (no assumption at all). -/
structure InvB (row0 : Option Cell) (progs : List Prog) (s : State) : Prop where
  prog : ∀ i : Nat, (s.threads[i]?).map Thread.prog = progs[i]?
  chain : Chain row0 s.log s.db.row
  logDone : ∀ cm ∈ s.log, ∃ (t : Thread) (r : Res), s.threads[cm.tid]? = some t ∧ t.loc = .done r
  nodup : (s.log.map (·.tid)).Nodup
  ackPut : ∀ (i : Nat) (t : Thread) new c, s.threads[i]? = some t → t.prog = .put new c → t.loc = .done .ok →
    ∃ cm ∈ s.log, cm.tid = i ∧ ∃ a, cm.after = some a ∧ a.parts = new
  ackApp : ∀ (i : Nat) (t : Thread) o, s.threads[i]? = some t → t.loc = .done (.okAt o) → ∃ cm ∈ s.log, cm.tid = i

/-- The core invariant (the initial row id is not fresh). -/
structure Inv (row0 : Option Cell) (progs : List Prog) (s : State) : Prop where
  base : InvB row0 progs s
  rowId : RowId s.db
  reg : ∀ (i : Nat) (t : Thread), s.threads[i]? = some t → ∀ x ∈ regs t.loc, RegOK s.db x
  cond : ∀ (i : Nat) (t : Thread), s.threads[i]? = some t → CondOK t.prog t.loc
  r3 : ∀ (i : Nat) (t : Thread), s.threads[i]? = some t → R3OK s.db t.prog t.loc
  cas : ∀ cm ∈ s.log, ∀ p, progs[cm.tid]? = some p → CasOK p cm

theorem init_loc {row : Option Cell} {nextId : Nat} {progs : List Prog} {i : Nat} {t : Thread}
    (h : (init row nextId progs).threads[i]? = some t) : t.loc = .start := by
  simp only [init, List.getElem?_map] at h
  cases hp : progs[i]? <;> simp [hp] at h
  subst h; rfl

theorem invB_init (row : Option Cell) (nextId : Nat) (progs : List Prog) :
    InvB row progs (init row nextId progs) := by
  constructor
  · intro i; simp [init, List.getElem?_map]; cases progs[i]? <;> simp
  · simp [init, Chain]
  · simp [init]
  · simp [init]
  · intro i t new c h _ hl; simp [init_loc h] at hl
  · intro i t o h hl; simp [init_loc h] at hl

theorem inv_init (row : Option Cell) (nextId : Nat) (progs : List Prog)
    (hid : ∀ c, row = some c → c.id < nextId) : Inv row progs (init row nextId progs) := by
  constructor
  · exact invB_init row nextId progs
  · exact hid
  · intro i t h x hx; simp [init_loc h, regs] at hx
  · intro i t h; rw [init_loc h]; cases t.prog <;> simp [CondOK]
  · intro i t h; rw [init_loc h]; cases t.prog <;> simp [R3OK]
  · simp [init]

/-- A thread that has not finished has no log entry. -/
theorem InvB.not_in_log {row0 progs s} (h : InvB row0 progs s) {i : Nat} {t : Thread}
    (ht : s.threads[i]? = some t) (hl : ∀ r, t.loc ≠ .done r) : ∀ cm ∈ s.log, cm.tid ≠ i := by
  intro cm hcm he
  obtain ⟨t', r, ht', hr⟩ := h.logDone cm hcm
  rw [he, ht] at ht'
  cases ht'
  exact hl r hr

theorem TStep.of_done {sz tid d p l d' l' c} (h : TStep sz tid d p l d' l' c) {r : Res}
    (hl : l = .done r) : l' = l ∧ c = none ∧ d' = d := by
  cases h <;> simp_all

theorem InvB.step {row0 progs s} (sz : PartId → Nat) (h : InvB row0 progs s) (i : Nat) :
    InvB row0 progs (step sz s i) := by
  cases ht : s.threads[i]? with
  | none => rw [step_none ht]; exact h
  | some t =>
    obtain ⟨d', l', c, hT, hs⟩ := step_some (sz := sz) ht
    rw [hs]
    have hprog : ∀ j : Nat, ((setThread s.threads i l')[j]?).map Thread.prog = progs[j]? := by
      intro j
      rw [← h.prog j, getElem?_setThread]
      cases s.threads[j]? with
      | none => rfl
      | some u => by_cases hj : j = i <;> simp [hj]
    cases c with
    | none =>
      have hd := hT.noCommit rfl
      subst hd
      constructor <;> simp only [Option.toList_none, List.append_nil]
      · exact hprog
      · exact h.chain
      · intro cm hcm
        obtain ⟨u, r, hu, hr⟩ := h.logDone cm hcm
        by_cases hj : cm.tid = i
        · rw [hj] at hu ⊢
          rw [ht] at hu; cases hu
          refine ⟨_, r, getElem?_setThread_self _ _ _ _ ht, ?_⟩
          simp [(hT.of_done hr).1, hr]
        · exact ⟨u, r, by rw [getElem?_setThread_ne _ _ _ _ hj]; exact hu, hr⟩
      · exact h.nodup
      · intro j u new cd hu hp hl
        rcases setThread_cases ht hu with ⟨rfl, rfl⟩ | ⟨_, hu'⟩
        · rcases hT.ackPut hp hl with hl' | ⟨cm, a, hc, _⟩
          · exact h.ackPut _ _ _ _ ht hp hl'
          · simp at hc
        · exact h.ackPut _ _ _ _ hu' hp hl
      · intro j u o hu hl
        rcases setThread_cases ht hu with ⟨rfl, rfl⟩ | ⟨_, hu'⟩
        · rcases hT.ackApp hl with hl' | ⟨cm, hc⟩
          · exact h.ackApp _ _ _ ht hl'
          · simp at hc
        · exact h.ackApp _ _ _ hu' hl
    | some cm =>
      obtain ⟨hch, hcm, ⟨r, hl'⟩, hl⟩ := hT.commit rfl
      have hni := h.not_in_log ht hl
      subst hl'
      constructor <;> simp only [Option.toList_some]
      · exact hprog
      · have := h.chain.snoc cm (by rw [hcm])
        rw [hcm] at this ⊢
        exact this
      · intro cm' hcm'
        rcases List.mem_append.1 hcm' with hm | hm
        · obtain ⟨u, r', hu, hr⟩ := h.logDone cm' hm
          exact ⟨u, r', by rw [getElem?_setThread_ne _ _ _ _ (hni cm' hm)]; exact hu, hr⟩
        · simp at hm; subst hm
          rw [hcm]
          exact ⟨_, r, getElem?_setThread_self _ _ _ _ ht, rfl⟩
      · rw [List.map_append, List.nodup_append]
        refine ⟨h.nodup, by simp, ?_⟩
        intro a ha b hb
        simp at hb ha
        obtain ⟨cm', hm, rfl⟩ := ha
        subst hb
        rw [hcm]
        exact hni cm' hm
      · intro j u new cd hu hp hl2
        rcases setThread_cases ht hu with ⟨rfl, rfl⟩ | ⟨_, hu'⟩
        · rcases hT.ackPut hp hl2 with hl' | ⟨cm', a, hc, ha1, ha2⟩
          · exact absurd hl' (hl _)
          · simp at hc; subst hc
            exact ⟨cm, by simp, by rw [hcm], a, ha1, ha2⟩
        · obtain ⟨cm', hm, hx⟩ := h.ackPut _ _ _ _ hu' hp hl2
          exact ⟨cm', by simp [hm], hx⟩
      · intro j u o hu hl2
        rcases setThread_cases ht hu with ⟨rfl, rfl⟩ | ⟨_, hu'⟩
        · exact ⟨cm, by simp, by rw [hcm]⟩
        · obtain ⟨cm', hm, hx⟩ := h.ackApp _ _ _ hu' hl2
          exact ⟨cm', by simp [hm], hx⟩

theorem Inv.step {row0 progs s} (sz : PartId → Nat) (h : Inv row0 progs s) (i : Nat) :
    Inv row0 progs (step sz s i) := by
  have hB := h.base.step sz i
  revert hB
  cases ht : s.threads[i]? with
  | none => rw [step_none ht]; intro _; exact h
  | some t =>
    obtain ⟨d', l', c, hT, hs⟩ := step_some (sz := sz) ht
    rw [hs]
    intro hB
    cases c with
    | none =>
      have hd := hT.noCommit rfl
      subst hd
      refine ⟨hB, ?_, ?_, ?_, ?_, ?_⟩ <;> simp only [Option.toList_none, List.append_nil]
      · exact h.rowId
      · intro j u hu x hx
        rcases setThread_cases ht hu with ⟨rfl, rfl⟩ | ⟨_, hu'⟩
        · rcases hT.regs_new hx with hx' | ⟨hx', _⟩
          · exact h.reg _ _ ht x hx'
          · exact RegOK.of_row h.rowId hx'
        · exact h.reg _ _ hu' x hx
      · intro j u hu
        rcases setThread_cases ht hu with ⟨rfl, rfl⟩ | ⟨_, hu'⟩
        · exact hT.condOK (h.cond _ _ ht)
        · exact h.cond _ _ hu'
      · intro j u hu
        rcases setThread_cases ht hu with ⟨rfl, rfl⟩ | ⟨_, hu'⟩
        · exact hT.r3OK (h.r3 _ _ ht) rfl
        · exact h.r3 _ _ hu'
      · exact h.cas
    | some cm =>
      obtain ⟨hch, hcm, ⟨r, hl'⟩, hl⟩ := hT.commit rfl
      subst hl'
      refine ⟨hB, ?_, ?_, ?_, ?_, ?_⟩ <;> simp only [Option.toList_some]
      · exact hch.rowId h.rowId
      · intro j u hu x hx
        rcases setThread_cases ht hu with ⟨rfl, rfl⟩ | ⟨_, hu'⟩
        · simp [regs] at hx
        · exact hch.regOK (h.reg _ _ hu' x hx)
      · intro j u hu
        rcases setThread_cases ht hu with ⟨rfl, rfl⟩ | ⟨_, hu'⟩
        · exact hT.condOK (h.cond _ _ ht)
        · exact h.cond _ _ hu'
      · intro j u hu
        rcases setThread_cases ht hu with ⟨rfl, rfl⟩ | ⟨_, hu'⟩
        · cases t.prog <;> simp [R3OK]
        · exact (h.r3 _ _ hu').change hch (h.reg _ _ hu')
      · intro cm' hcm' p hp
        rcases List.mem_append.1 hcm' with hm | hm
        · exact h.cas cm' hm p hp
        · simp at hm; subst hm
          have hpi := h.base.prog i
          rw [ht] at hpi
          have : cm'.tid = i := by rw [hcm]
          rw [this, ← hpi] at hp
          simp at hp; subst hp
          exact hT.casOK rfl (h.reg _ _ ht) (h.cond _ _ ht)

theorem InvB.exec {row0 progs s} (sz : PartId → Nat) (h : InvB row0 progs s) (sched : List Nat) :
    InvB row0 progs (exec sz s sched) :=
  exec_induct (InvB row0 progs) (fun _ i hs => hs.step sz i) s sched h

theorem Inv.exec {row0 progs s} (sz : PartId → Nat) (h : Inv row0 progs s) (sched : List Nat) :
    Inv row0 progs (exec sz s sched) :=
  exec_induct (Inv row0 progs) (fun _ i hs => hs.step sz i) s sched h

/-! ## the theorems that hold for all programs -/

theorem log_chain (sz : PartId → Nat) (row : Option Cell) (nextId : Nat) (progs : List Prog) (sched : List Nat) :
    Chain row (exec sz (init row nextId progs) sched).log (exec sz (init row nextId progs) sched).db.row :=
  ((invB_init row nextId progs).exec sz sched).chain

/-- programs never change; thread i runs progs[i] -/
theorem prog_const (sz row nextId progs sched) (i : Nat) :
    ((exec sz (init row nextId progs) sched).threads[i]?).map (·.prog) = progs[i]? :=
  ((invB_init row nextId progs).exec sz sched).prog i

/-- every thread commits at most once -/
theorem commit_once (sz row nextId progs sched) :
    ((exec sz (init row nextId progs) sched).log.map (·.tid)).Nodup :=
  ((invB_init row nextId progs).exec sz sched).nodup

/-- **cas_no_lost_update**: for ARBITRARY schedules, a conditional writer that was acknowledged replaced
exactly a row with the parts (= ETag) it named; an If-None-Match writer replaced nothing. -/
theorem cas_no_lost_update (sz : PartId → Nat) (row : Option Cell) (nextId : Nat) (progs : List Prog) (sched : List Nat)
    (hid : ∀ c, row = some c → c.id < nextId) :
    ∀ cm ∈ (exec sz (init row nextId progs) sched).log,
      (∀ new e, progs[cm.tid]? = some (.put new (.im e)) → ∃ b, cm.before = some b ∧ b.parts = e) ∧
      (∀ e, progs[cm.tid]? = some (.del (some e)) → ∃ b, cm.before = some b ∧ b.parts = e) ∧
      (∀ new, progs[cm.tid]? = some (.put new .inm) → cm.before = none) := by
  intro cm hcm
  have h := ((inv_init row nextId progs hid).exec sz sched).cas cm hcm
  refine ⟨fun new e hp => (h _ hp).1 new e rfl, fun e hp => (h _ hp).2.1 e rfl,
    fun new hp => (h _ hp).2.2 new rfl⟩

/-- an acknowledged put has its commit in the log -/
theorem ack_put_committed (sz row nextId progs sched) (i : Nat) (t : Thread) (new : List PartId) (c : Cond)
    (ht : (exec sz (init row nextId progs) sched).threads[i]? = some t) (hp : t.prog = .put new c) (hl : t.loc = .done .ok) :
    ∃ cm ∈ (exec sz (init row nextId progs) sched).log, cm.tid = i ∧ ∃ a, cm.after = some a ∧ a.parts = new :=
  ((invB_init row nextId progs).exec sz sched).ackPut i t new c ht hp hl

/-- negation witness (the as-is protocol, OFF SQLite): with a deleter in the mix an append can be
acknowledged although the object it extended was deleted before its commit — it re-creates the deleted
content. -/
theorem append_resurrects_deleted_object :
    let s := exec (fun _ => 1) (init (some ⟨0, 1, [1]⟩) 1 [.append 2 none, .del none]) [0, 1, 1, 0, 0]
    s.db.row = some ⟨1, 1, [1, 2]⟩ ∧ s.threads.map (·.loc) = [.done (.okAt 1), .done .ok] := by decide


/-! ## the append theorems -/

theorem nodup_flatMap_disjoint {α β : Type} (f : α → List β) :
    ∀ (l : List α), (l.flatMap f).Nodup → ∀ (i j : Nat) (a b : α) (x : β),
      l[i]? = some a → l[j]? = some b → i ≠ j → x ∈ f a → x ∈ f b → False := by
  intro l
  induction l with
  | nil => intro _ i j a b x hi; simp at hi
  | cons y ys ih =>
    intro hnd i j a b x hi hj hij hxa hxb
    rw [List.flatMap_cons, List.nodup_append] at hnd
    obtain ⟨_, hnd2, hdis⟩ := hnd
    cases i with
    | zero =>
      cases j with
      | zero => exact hij rfl
      | succ j =>
        simp at hi hj; subst hi
        exact hdis x hxa x (List.mem_flatMap.2 ⟨b, List.mem_of_getElem? hj, hxb⟩) rfl
    | succ i =>
      cases j with
      | zero =>
        simp at hi hj; subst hj
        exact hdis x hxb x (List.mem_flatMap.2 ⟨a, List.mem_of_getElem? hi, hxa⟩) rfl
      | succ j =>
        simp at hi hj
        exact ih hnd2 i j a b x hi hj (by omega) hxa hxb

/-- Relation between what an appender read first (`P`) and the current content. -/
def JRel (P cur : List PartId) : Prop := P <+: cur ∨ ∃ x, cur.head? = some x ∧ x ∉ P

theorem JRel.refl (P : List PartId) : JRel P P := Or.inl (List.prefix_refl P)

theorem JRel.snoc {P cur : List PartId} (h : JRel P cur) (y : PartId) : JRel P (cur ++ [y]) := by
  rcases h with h | ⟨x, hx, hxP⟩
  · exact Or.inl (h.trans (List.prefix_append cur [y]))
  · right
    refine ⟨x, ?_, hxP⟩
    cases cur with
    | nil => simp at hx
    | cons a as => simpa using hx

/-- The list argument at the guarded append commit. -/
theorem append_commit_list {P cur : List PartId} {new : PartId} (hpre : cur <+: P ++ [new])
    (hnew : new ∉ cur) (hj : JRel P cur) : cur = P := by
  have h1 : cur <+: P := by
    rcases List.prefix_concat_iff.1 hpre with h | h
    · exact absurd (by simp [h]) hnew
    · exact h
  rcases hj with h2 | ⟨x, hx, hxP⟩
  · exact List.IsPrefix.eq_of_length_le h1 h2.length_le
  · exfalso
    cases cur with
    | nil => simp at hx
    | cons a as =>
      simp at hx; subst hx
      exact hxP (h1.subset (by simp))

/-- hypotheses of the append theorems -/
def AppendOrPut : Prog → Prop
  | .append _ _ => True
  | .put new _ => new ≠ []
  | .del _ => False

def Fresh (row : Option Cell) (progs : List Prog) : Prop :=
  (progs.flatMap Prog.news).Nodup ∧ ∀ x ∈ progs.flatMap Prog.news, x ∉ partsOf row

theorem Fresh.disjoint {row : Option Cell} {progs : List Prog} (hf : Fresh row progs) {i j : Nat}
    {p q : Prog} {x : PartId} (hi : progs[i]? = some p) (hj : progs[j]? = some q) (hij : i ≠ j)
    (hx : x ∈ p.news) : x ∉ q.news :=
  fun hxq => nodup_flatMap_disjoint Prog.news progs hf.1 i j p q x hi hj hij hx hxq

theorem Fresh.not_row {row : Option Cell} {progs : List Prog} (hf : Fresh row progs) {i : Nat}
    {p : Prog} {x : PartId} (hi : progs[i]? = some p) (hx : x ∈ p.news) : x ∉ partsOf row :=
  hf.2 x (List.mem_flatMap.2 ⟨p, List.mem_of_getElem? hi, hx⟩)

/-- The part ids that have entered the history: the initial ones and those of committed writers. -/
def Known (row0 : Option Cell) (progs : List Prog) (log : List Commit) (x : PartId) : Prop :=
  x ∈ partsOf row0 ∨ ∃ cm ∈ log, ∃ p, progs[cm.tid]? = some p ∧ x ∈ p.news

theorem Known.mono {row0 progs log x} (h : Known row0 progs log x) (cm : Commit) :
    Known row0 progs (log ++ [cm]) x := by
  rcases h with h | ⟨cm', hm, hp⟩
  · exact Or.inl h
  · exact Or.inr ⟨cm', by simp [hm], hp⟩

theorem Known.new {row0 progs log x} {cm : Commit} {p : Prog} (hp : progs[cm.tid]? = some p)
    (hx : x ∈ p.news) : Known row0 progs (log ++ [cm]) x :=
  Or.inr ⟨cm, by simp, p, hp, hx⟩

theorem Fresh.not_known {row0 : Option Cell} {progs : List Prog} (hf : Fresh row0 progs) {i : Nat}
    {p : Prog} {x : PartId} (hi : progs[i]? = some p) (hx : x ∈ p.news) {log : List Commit}
    (hlog : ∀ cm ∈ log, cm.tid ≠ i) : ¬ Known row0 progs log x := by
  rintro (h | ⟨cm, hm, q, hq, hxq⟩)
  · exact hf.not_row hi hx h
  · exact hf.disjoint hi hq (fun e => hlog cm hm e.symm) hx hxq

/-- the first read of an appender -/
def c1of : Loc → Option (Option Cell)
  | .r1 c => some c
  | .r2 c _ => some c
  | .r3 c _ _ => some c
  | _ => none

theorem c1of_parts_regs {l : Loc} {c1 : Option Cell} (h : c1of l = some c1) :
    ∀ x ∈ partsOf c1, ∃ c ∈ regs l, x ∈ c.parts := by
  cases c1 with
  | none => simp [partsOf]
  | some c =>
    intro x hx
    refine ⟨c, ?_, hx⟩
    cases l <;> simp [c1of] at h <;> subst h <;> simp [regs]

theorem TStep.c1of_new {sz tid d p l d' l' c} (h : TStep sz tid d p l d' l' c) {c1 : Option Cell}
    (hc : c1of l' = some c1) :
    c1of l = some c1 ∨
      (c1 = d.row ∧ d' = d ∧ c1of l = none ∧
        ∀ new off n, p = .append new off → off = some n → n = sizeOf sz (partsOf d.row)) := by
  cases h <;> simp_all [c1of]

/-- What a commit of an appender / non-empty putter does to the content, given the invariants of
the committing thread. -/
theorem TStep.commit_content {sz tid d p l d' l' cm} (h : TStep sz tid d p l d' l' (some cm))
    (hp : AppendOrPut p) (hk : d.row = none → regs l = []) (hr3 : R3OK d p l)
    (hreg : ∀ x ∈ regs l, RegOK d x)
    (hj : ∀ c1, c1of l = some c1 → JRel (partsOf c1) (partsOf d.row))
    (hfresh : ∀ x ∈ p.news, x ∉ partsOf d.row)
    (hoff : ∀ new off n c1, p = .append new off → off = some n → c1of l = some c1 →
      n = sizeOf sz (partsOf c1)) :
    (∀ new off, p = .append new off → partsOf d'.row = partsOf d.row ++ [new] ∧
        l' = .done (.okAt (sizeOf sz (partsOf d.row))) ∧
        ∀ n, off = some n → n = sizeOf sz (partsOf d.row)) ∧
    (∀ new c, p = .put new c → partsOf d'.row = new ∧ new ≠ []) := by
  cases h
  case putUpd new c sc r k hk' hrow hid hver =>
    simp [partsOf]; simpa [AppendOrPut] using hp
  case putIns new c hrow =>
    simp [partsOf]; simpa [AppendOrPut] using hp
  case delCommit => simp [AppendOrPut] at hp
  case appIns new off c1 hrow =>
    have : c1 = none := by simpa [regs] using hk hrow
    subst this
    refine ⟨?_, by simp⟩
    intro new' off' he
    cases he
    refine ⟨by simp [partsOf, hrow], by simp [partsOf, hrow], ?_⟩
    intro n hn
    simpa [partsOf, hrow] using hoff new off n none rfl hn (by simp [c1of])
  case appCas new off c1 sc p3 r hrow hid hver =>
    have hg : guard sc d = true := (guard_iff sc d).2 ⟨r, hrow, hid, hver⟩
    simp only [R3OK] at hr3
    have hp3 := hr3.1 hg
    have hcur : partsOf d.row = partsOf c1 := by
      apply append_commit_list (new := new)
      · rw [hp3]; exact hr3.2
      · exact hfresh new (by simp [Prog.news])
      · exact hj c1 (by simp [c1of])
    refine ⟨?_, by simp⟩
    intro new' off' he
    cases he
    have hr : r.parts = partsOf c1 := by simpa [partsOf, hrow] using hcur
    refine ⟨?_, by rw [hcur], ?_⟩
    · rw [← hp3, hcur]
      simp [partsOf, hr]
    · intro n hn
      rw [hcur]
      exact hoff new off n c1 rfl hn (by simp [c1of])

/-- What a log entry of an appender says. -/
def ExactOK (sz : PartId → Nat) (threads : List Thread) (progs : List Prog) (cm : Commit) : Prop :=
  ∀ new off, progs[cm.tid]? = some (.append new off) →
    partsOf cm.after = partsOf cm.before ++ [new] ∧
    (∃ t, threads[cm.tid]? = some t ∧ t.loc = .done (.okAt (sizeOf sz (partsOf cm.before)))) ∧
    (∀ n, off = some n → n = sizeOf sz (partsOf cm.before))

/-- The invariant of the append theorems (appenders and non-empty putters, fresh part ids). -/
structure Inv2 (sz : PartId → Nat) (row0 : Option Cell) (progs : List Prog) (s : State) : Prop where
  k : s.db.row = none → ∀ (i : Nat) (t : Thread), s.threads[i]? = some t → regs t.loc = []
  f1 : ∀ x ∈ partsOf s.db.row, Known row0 progs s.log x
  f2 : ∀ (i : Nat) (t : Thread), s.threads[i]? = some t → ∀ c ∈ regs t.loc, ∀ x ∈ c.parts,
    Known row0 progs s.log x
  j : ∀ (i : Nat) (t : Thread) c1, s.threads[i]? = some t → c1of t.loc = some c1 →
    JRel (partsOf c1) (partsOf s.db.row)
  off : ∀ (i : Nat) (t : Thread) new off n c1, s.threads[i]? = some t → t.prog = .append new off →
    off = some n → c1of t.loc = some c1 → n = sizeOf sz (partsOf c1)
  exact : ∀ cm ∈ s.log, ExactOK sz s.threads progs cm

theorem inv2_init (sz : PartId → Nat) (row : Option Cell) (nextId : Nat) (progs : List Prog) :
    Inv2 sz row progs (init row nextId progs) := by
  constructor
  · intro _ i t h; simp [init_loc h, regs]
  · intro x hx; exact Or.inl hx
  · intro i t h c hc; simp [init_loc h, regs] at hc
  · intro i t c1 h hc; simp [init_loc h, c1of] at hc
  · intro i t new off n c1 h _ _ hc; simp [init_loc h, c1of] at hc
  · simp [init]

theorem InvB.prog_mem {row0 progs s} (h : InvB row0 progs s) {i : Nat} {t : Thread}
    (ht : s.threads[i]? = some t) : progs[i]? = some t.prog := by
  have := h.prog i
  rw [ht] at this
  exact this.symm

theorem Inv2.step {sz : PartId → Nat} {row0 progs s} (hp : ∀ p ∈ progs, AppendOrPut p)
    (hf : Fresh row0 progs) (h1 : Inv row0 progs s) (h : Inv2 sz row0 progs s) (i : Nat) :
    Inv2 sz row0 progs (step sz s i) := by
  cases ht : s.threads[i]? with
  | none => rw [step_none ht]; exact h
  | some t =>
    obtain ⟨d', l', c, hT, hs⟩ := step_some (sz := sz) ht
    rw [hs]
    have hpi := h1.base.prog_mem ht
    cases c with
    | none =>
      have hd := hT.noCommit rfl
      subst hd
      constructor <;> simp only [Option.toList_none, List.append_nil]
      · intro hrow j u hu
        rcases setThread_cases ht hu with ⟨rfl, rfl⟩ | ⟨_, hu'⟩
        · apply List.eq_nil_iff_forall_not_mem.2
          intro x hx
          rcases hT.regs_new hx with hx' | ⟨hx', _⟩
          · simp [h.k hrow _ _ ht] at hx'
          · simp [hrow] at hx'
        · exact h.k hrow _ _ hu'
      · exact h.f1
      · intro j u hu c hc x hx
        rcases setThread_cases ht hu with ⟨rfl, rfl⟩ | ⟨_, hu'⟩
        · rcases hT.regs_new hc with hc' | ⟨hc', _⟩
          · exact h.f2 _ _ ht c hc' x hx
          · exact h.f1 x (by simpa [partsOf, hc'] using hx)
        · exact h.f2 _ _ hu' c hc x hx
      · intro j u c1 hu hc
        rcases setThread_cases ht hu with ⟨rfl, rfl⟩ | ⟨_, hu'⟩
        · rcases hT.c1of_new hc with hc' | ⟨rfl, _⟩
          · exact h.j _ _ _ ht hc'
          · exact JRel.refl _
        · exact h.j _ _ _ hu' hc
      · intro j u new off n c1 hu hpr hoff hc
        rcases setThread_cases ht hu with ⟨rfl, rfl⟩ | ⟨_, hu'⟩
        · rcases hT.c1of_new hc with hc' | ⟨rfl, _, _, hn⟩
          · exact h.off _ _ _ _ _ _ ht hpr hoff hc'
          · exact hn new off n hpr hoff
        · exact h.off _ _ _ _ _ _ hu' hpr hoff hc
      · intro cm hcm new off hpa
        obtain ⟨e1, ⟨u, hu, hul⟩, e3⟩ := h.exact cm hcm new off hpa
        refine ⟨e1, ?_, e3⟩
        by_cases hj : cm.tid = i
        · rw [hj] at hu ⊢
          rw [ht] at hu; cases hu
          refine ⟨_, getElem?_setThread_self _ _ _ _ ht, ?_⟩
          simp [(hT.of_done hul).1, hul]
        · exact ⟨u, by rw [getElem?_setThread_ne _ _ _ _ hj]; exact hu, hul⟩
    | some cm =>
      obtain ⟨hch, hcm, ⟨r, hl'⟩, hl⟩ := hT.commit rfl
      have hni := h1.base.not_in_log ht hl
      have hcmt : cm.tid = i := by rw [hcm]
      have hpcm : progs[cm.tid]? = some t.prog := by rw [hcmt]; exact hpi
      have hfresh : ∀ x ∈ t.prog.news, x ∉ partsOf s.db.row :=
        fun x hx hxr => hf.not_known hpi hx hni (h.f1 x hxr)
      obtain ⟨hca, hcp⟩ := hT.commit_content (hp _ (List.mem_of_getElem? hpi))
        (fun hrow => h.k hrow _ _ ht) (h1.r3 _ _ ht) (h1.reg _ _ ht)
        (fun c1 hc => h.j _ _ _ ht hc) hfresh
        (fun new off n c1 hpr hoff hc => h.off _ _ _ _ _ _ ht hpr hoff hc)
      -- the new content
      have hcontent : (∃ new off, t.prog = .append new off ∧
            partsOf d'.row = partsOf s.db.row ++ [new]) ∨
          (∃ new c, t.prog = .put new c ∧ partsOf d'.row = new ∧ new ≠ []) := by
        have hpt := hp _ (List.mem_of_getElem? hpi)
        cases hprog : t.prog with
        | put new c => exact Or.inr ⟨new, c, rfl, hcp new c hprog⟩
        | del im => simp [hprog, AppendOrPut] at hpt
        | append new off => exact Or.inl ⟨new, off, rfl, (hca new off hprog).1⟩
      subst hl'
      constructor <;> simp only [Option.toList_some]
      · intro hrow
        exfalso
        rcases hcontent with ⟨new, off, _, hc⟩ | ⟨new, c, _, hc, hne⟩
        · simp [hrow, partsOf] at hc
        · simp [hrow, partsOf] at hc; exact hne hc
      · intro x hx
        rcases hcontent with ⟨new, off, hpr, hc⟩ | ⟨new, c, hpr, hc, hne⟩
        · rw [hc] at hx
          rcases List.mem_append.1 hx with hx | hx
          · exact (h.f1 x hx).mono cm
          · exact Known.new hpcm (by simpa [hpr, Prog.news] using hx)
        · rw [hc] at hx
          exact Known.new hpcm (by simpa [hpr, Prog.news] using hx)
      · intro j u hu c hc x hx
        rcases setThread_cases ht hu with ⟨rfl, rfl⟩ | ⟨_, hu'⟩
        · simp [regs] at hc
        · exact (h.f2 _ _ hu' c hc x hx).mono cm
      · intro j u c1 hu hc
        rcases setThread_cases ht hu with ⟨rfl, rfl⟩ | ⟨_, hu'⟩
        · simp [c1of] at hc
        · have hold := h.j _ _ _ hu' hc
          rcases hcontent with ⟨new, off, hpr, hcn⟩ | ⟨new, c, hpr, hcn, hne⟩
          · rw [hcn]; exact hold.snoc new
          · rw [hcn]
            right
            cases new with
            | nil => exact absurd rfl hne
            | cons y ys =>
              refine ⟨y, rfl, ?_⟩
              intro hy
              obtain ⟨c', hc', hyc⟩ := c1of_parts_regs hc y hy
              exact hf.not_known hpi (by simp [hpr, Prog.news]) hni (h.f2 _ _ hu' c' hc' y hyc)
      · intro j u new off n c1 hu hpr hoff hc
        rcases setThread_cases ht hu with ⟨rfl, rfl⟩ | ⟨_, hu'⟩
        · simp [c1of] at hc
        · exact h.off _ _ _ _ _ _ hu' hpr hoff hc
      · intro cm' hcm' new off hpa
        rcases List.mem_append.1 hcm' with hm | hm
        · obtain ⟨e1, ⟨u, hu, hul⟩, e3⟩ := h.exact cm' hm new off hpa
          exact ⟨e1, ⟨u, by rw [getElem?_setThread_ne _ _ _ _ (hni cm' hm)]; exact hu, hul⟩, e3⟩
        · simp at hm; subst hm
          rw [hpcm] at hpa
          simp at hpa
          obtain ⟨e1, e2, e3⟩ := hca new off hpa
          rw [hcm]
          refine ⟨e1, ⟨_, getElem?_setThread_self _ _ _ _ ht, ?_⟩, e3⟩
          simpa using e2

theorem inv12_exec {sz : PartId → Nat} {row0 progs} (hp : ∀ p ∈ progs, AppendOrPut p)
    (hf : Fresh row0 progs) {s : State} (h : Inv row0 progs s ∧ Inv2 sz row0 progs s)
    (sched : List Nat) :
    Inv row0 progs (exec sz s sched) ∧ Inv2 sz row0 progs (exec sz s sched) :=
  exec_induct (fun s => Inv row0 progs s ∧ Inv2 sz row0 progs s)
    (fun _ i hs => ⟨hs.1.step sz i, hs.2.step hp hf hs.1 i⟩) s sched h

/-- **append_commit_exact**: with appenders and (non-empty) putters only, for ARBITRARY schedules, an
acknowledged append extended exactly the row that was current at its commit, at the offset it reports. -/
theorem append_commit_exact (sz row nextId progs sched)
    (hid : ∀ c, row = some c → c.id < nextId) (hp : ∀ p ∈ progs, AppendOrPut p) (hf : Fresh row progs) :
    ∀ cm ∈ (exec sz (init row nextId progs) sched).log, ∀ new off, progs[cm.tid]? = some (.append new off) →
      partsOf cm.after = partsOf cm.before ++ [new] ∧
      (∃ t, (exec sz (init row nextId progs) sched).threads[cm.tid]? = some t ∧ t.loc = .done (.okAt (sizeOf sz (partsOf cm.before)))) ∧
      (∀ n, off = some n → n = sizeOf sz (partsOf cm.before)) :=
  (inv12_exec hp hf ⟨inv_init row nextId progs hid, inv2_init sz row nextId progs⟩ sched).2.exact

/-- The part ids a log entry brought in (those of its thread's program). -/
def newsOf (progs : List Prog) (cm : Commit) : List PartId := (progs[cm.tid]?.map Prog.news).getD []

theorem chain_parts {progs : List Prog} {a b : Option Cell} {l : List Commit} (h : Chain a l b)
    (hl : ∀ cm ∈ l, partsOf cm.after = partsOf cm.before ++ newsOf progs cm) :
    partsOf b = partsOf a ++ l.flatMap (newsOf progs) := by
  induction l generalizing a with
  | nil => simp [Chain] at h; simp [h]
  | cons c cs ih =>
    simp only [Chain] at h
    have h1 := hl c (by simp)
    have h2 := ih h.2 (fun cm hm => hl cm (by simp [hm]))
    rw [h2, h1, h.1]
    simp

theorem Fresh.not_mem_flatMap {row : Option Cell} {progs : List Prog} (hf : Fresh row progs) {i : Nat}
    {p : Prog} {x : PartId} (hi : progs[i]? = some p) (hx : x ∈ p.news) {l : List Commit}
    (hl : ∀ cm ∈ l, cm.tid ≠ i) : x ∉ l.flatMap (newsOf progs) := by
  intro hmem
  obtain ⟨cm, hm, hxc⟩ := List.mem_flatMap.1 hmem
  unfold newsOf at hxc
  cases hq : progs[cm.tid]? with
  | none => simp [hq] at hxc
  | some q =>
    simp [hq] at hxc
    exact hf.disjoint hi hq (fun e => hl cm hm e.symm) hx hxc

theorem nodup_split_tids {l1 l2 : List Commit} {cm : Commit}
    (h : ((l1 ++ cm :: l2).map (·.tid)).Nodup) :
    (∀ c ∈ l1, c.tid ≠ cm.tid) ∧ (∀ c ∈ l2, c.tid ≠ cm.tid) := by
  rw [List.map_append, List.map_cons, List.nodup_append, List.nodup_cons] at h
  obtain ⟨_, ⟨h2, _⟩, h3⟩ := h
  constructor
  · intro c hc
    exact h3 c.tid (List.mem_map.2 ⟨c, hc, rfl⟩) cm.tid (by simp)
  · intro c hc he
    exact h2 (List.mem_map.2 ⟨c, hc, he⟩)

/-- **no_lost_append**: appenders only, ARBITRARY schedules: the final content is the initial content
followed by the acknowledged appends in commit order; every acknowledged append occurs exactly once, at
its accepted offset; an append that was not acknowledged does not occur. -/
theorem no_lost_append (sz row nextId progs sched)
    (hid : ∀ c, row = some c → c.id < nextId) (ha : ∀ p ∈ progs, ∃ new off, p = .append new off) (hf : Fresh row progs) :
    let s := exec sz (init row nextId progs) sched
    partsOf s.db.row = partsOf row ++ (s.log.flatMap fun cm => (progs[cm.tid]?.map Prog.news).getD []) ∧
    (∀ (i : Nat) (t : Thread) new off o, s.threads[i]? = some t → t.prog = .append new off → t.loc = .done (.okAt o) →
        (partsOf s.db.row).count new = 1 ∧ ∃ pre post, partsOf s.db.row = pre ++ new :: post ∧ sizeOf sz pre = o) ∧
    (∀ (i : Nat) (t : Thread) new off, s.threads[i]? = some t → t.prog = .append new off → (∀ o, t.loc ≠ .done (.okAt o)) → new ∉ partsOf s.db.row) := by
  intro s
  have hp : ∀ p ∈ progs, AppendOrPut p := by
    intro p hpm
    obtain ⟨new, off, rfl⟩ := ha p hpm
    simp [AppendOrPut]
  obtain ⟨h1, h2⟩ : Inv row progs s ∧ Inv2 sz row progs s :=
    inv12_exec hp hf ⟨inv_init row nextId progs hid, inv2_init sz row nextId progs⟩ sched
  have hB := h1.base
  -- every log entry appended exactly its thread's part
  have hlog : ∀ cm ∈ s.log, partsOf cm.after = partsOf cm.before ++ newsOf progs cm := by
    intro cm hcm
    obtain ⟨t, r, ht, _⟩ := hB.logDone cm hcm
    have hpm := hB.prog_mem ht
    obtain ⟨new, off, hpr⟩ := ha _ (List.mem_of_getElem? hpm)
    rw [hpr] at hpm
    have := (h2.exact cm hcm new off hpm).1
    rw [this]
    simp [newsOf, hpm, Prog.news]
  have hfinal : ∀ {a b : Option Cell} {l : List Commit}, Chain a l b → (∀ cm ∈ l, cm ∈ s.log) →
      partsOf b = partsOf a ++ l.flatMap (newsOf progs) :=
    fun hc hsub => chain_parts hc (fun cm hm => hlog cm (hsub cm hm))
  refine ⟨hfinal hB.chain (fun _ h => h), ?_, ?_⟩
  · intro i t new off o ht hpr hl
    obtain ⟨cm, hcm, hcmt⟩ := hB.ackApp i t o ht hl
    have hpm := hB.prog_mem ht
    rw [hpr] at hpm
    have hpm' : progs[cm.tid]? = some (.append new off) := by rw [hcmt]; exact hpm
    obtain ⟨e1, ⟨t', ht', hl''⟩, _⟩ := h2.exact cm hcm new off hpm'
    rw [hcmt, ht] at ht'
    cases ht'
    rw [hl] at hl''
    have ho : o = sizeOf sz (partsOf cm.before) := by simpa using hl''
    obtain ⟨l1, l2, hsplit⟩ := List.append_of_mem hcm
    have hchain := hB.chain
    have hnd := hB.nodup
    rw [hsplit] at hchain hnd
    obtain ⟨b, hc1, hc2⟩ := hchain.split
    simp only [Chain] at hc2
    obtain ⟨hb, hc2⟩ := hc2
    subst hb
    have hsub1 : ∀ c ∈ l1, c ∈ s.log := fun c hc => by rw [hsplit]; simp [hc]
    have hsub2 : ∀ c ∈ l2, c ∈ s.log := fun c hc => by rw [hsplit]; simp [hc]
    have hpre := hfinal hc1 hsub1
    have hpost := hfinal hc2 hsub2
    rw [e1] at hpost
    obtain ⟨hn1, hn2⟩ := nodup_split_tids hnd
    rw [hcmt] at hn1 hn2
    have hnew : new ∈ (Prog.append new off).news := by simp [Prog.news]
    have hnot1 : new ∉ partsOf cm.before := by
      rw [hpre]
      intro hm
      rcases List.mem_append.1 hm with hm | hm
      · exact hf.not_row hpm hnew hm
      · exact hf.not_mem_flatMap hpm hnew hn1 hm
    have hnot2 : new ∉ l2.flatMap (newsOf progs) := hf.not_mem_flatMap hpm hnew hn2
    have hshape : partsOf s.db.row = partsOf cm.before ++ new :: l2.flatMap (newsOf progs) := by
      rw [hpost]; simp
    refine ⟨?_, partsOf cm.before, l2.flatMap (newsOf progs), hshape, ho.symm⟩
    rw [hshape, List.count_append, List.count_cons_self, List.count_eq_zero.2 hnot1,
      List.count_eq_zero.2 hnot2]
  · intro i t new off ht hpr hl
    have hpm := hB.prog_mem ht
    rw [hpr] at hpm
    have hni : ∀ cm ∈ s.log, cm.tid ≠ i := by
      intro cm hcm he
      have hpm' : progs[cm.tid]? = some (.append new off) := by rw [he]; exact hpm
      obtain ⟨_, ⟨t', ht', hl'⟩, _⟩ := h2.exact cm hcm new off hpm'
      rw [he, ht] at ht'
      cases ht'
      exact hl _ hl'
    have hnew : new ∈ (Prog.append new off).news := by simp [Prog.news]
    rw [hfinal hB.chain (fun _ h => h)]
    intro hm
    rcases List.mem_append.1 hm with hm | hm
    · exact hf.not_row hpm hnew hm
    · exact hf.not_mem_flatMap hpm hnew hni hm


/-- non-vacuity: a two-appender race satisfying the hypotheses of the append theorems; appender 0
wins, appender 1 loses the version race at its commit (`InvalidWriteOffset`). -/
example :
    (∀ p ∈ [Prog.append 2 none, .append 3 none], AppendOrPut p) ∧
    Fresh (some ⟨0, 1, [1]⟩) [.append 2 none, .append 3 none] ∧
    (let s := exec (fun _ => 1) (init (some ⟨0, 1, [1]⟩) 1 [.append 2 none, .append 3 none])
        [0, 0, 0, 1, 1, 1, 0, 1]
     s.db.row = some ⟨0, 2, [1, 2]⟩ ∧
     s.threads.map (·.loc) = [.done (.okAt 1), .done .invalidOffset] ∧ s.log.map (·.tid) = [0]) := by
  refine ⟨by simp [AppendOrPut], ⟨by decide, by decide⟩, by decide⟩

/-- non-vacuity: the same race, but appender 1 reads the part rows (read 3) after appender 0 has
committed: the prefix check fails (`internal`). -/
example :
    (∀ p ∈ [Prog.append 2 none, .append 3 none], AppendOrPut p) ∧
    Fresh (some ⟨0, 1, [1]⟩) [.append 2 none, .append 3 none] ∧
    (let s := exec (fun _ => 1) (init (some ⟨0, 1, [1]⟩) 1 [.append 2 none, .append 3 none])
        [0, 0, 0, 1, 1, 0, 1]
     s.db.row = some ⟨0, 2, [1, 2]⟩ ∧
     s.threads.map (·.loc) = [.done (.okAt 1), .done .internal] ∧ s.log.map (·.tid) = [0]) := by
  refine ⟨by simp [AppendOrPut], ⟨by decide, by decide⟩, by decide⟩

end Pithos.MetaFine
