/-
Helper lemmas for C23 (Props/C23.lean): `S3.step` cannot tell two states apart that differ only in
timestamps, as long as the call names no explicit version id (the only place where the model reads
a timestamp back — `promote` after deleting a version by id — is then unreachable).

`REqv`/`UEqv`/`BEqv`/`Equiv` = "equal after erasing timestamps". The lemmas are congruences: every
helper of `S3.step` maps related arguments to related results.
-/
import Pithos.Model.Replication

namespace Pithos.Replication
open Pithos.S3 Pithos.S3Ext

-- ---------------------------------------------------------------- generic list facts

/-- Relatedness of two optional values. -/
inductive OptRel {α : Type} (R : α → α → Prop) : Option α → Option α → Prop
  | none : OptRel R none none
  | some {a b : α} : R a b → OptRel R (some a) (some b)

theorem find?_congr {α : Type} (f : α → α) (p : α → Bool) (hp : ∀ a b, f a = f b → p a = p b) :
    ∀ l l' : List α, l.map f = l'.map f → OptRel (fun a b => f a = f b) (l.find? p) (l'.find? p)
  | [], [], _ => .none
  | [], _ :: _, h => by simp at h
  | _ :: _, [], h => by simp at h
  | a :: l, b :: l', h => by
    simp only [List.map_cons, List.cons.injEq] at h
    have hab := hp a b h.1
    simp only [List.find?_cons, hab]
    cases p b
    · exact find?_congr f p hp l l' h.2
    · exact .some h.1

theorem filter_congr {α : Type} (f : α → α) (p : α → Bool) (hp : ∀ a b, f a = f b → p a = p b) :
    ∀ l l' : List α, l.map f = l'.map f → (l.filter p).map f = (l'.filter p).map f
  | [], [], _ => rfl
  | [], _ :: _, h => by simp at h
  | _ :: _, [], h => by simp at h
  | a :: l, b :: l', h => by
    simp only [List.map_cons, List.cons.injEq] at h
    have hab := hp a b h.1
    simp only [List.filter_cons, hab]
    cases p b
    · exact filter_congr f p hp l l' h.2
    · simp [h.1, filter_congr f p hp l l' h.2]

theorem map_congr_rel {α : Type} (f : α → α) (g g' : α → α) (hg : ∀ a b, f a = f b → f (g a) = f (g' b)) :
    ∀ l l' : List α, l.map f = l'.map f → (l.map g).map f = (l'.map g').map f
  | [], [], _ => rfl
  | [], _ :: _, h => by simp at h
  | _ :: _, [], h => by simp at h
  | a :: l, b :: l', h => by
    simp only [List.map_cons, List.cons.injEq] at h
    simp [hg a b h.1, map_congr_rel f g g' hg l l' h.2]

theorem any_congr {α : Type} (f : α → α) (p : α → Bool) (hp : ∀ a b, f a = f b → p a = p b) :
    ∀ l l' : List α, l.map f = l'.map f → l.any p = l'.any p
  | [], [], _ => rfl
  | [], _ :: _, h => by simp at h
  | _ :: _, [], h => by simp at h
  | a :: l, b :: l', h => by
    simp only [List.map_cons, List.cons.injEq] at h
    simp [hp a b h.1, any_congr f p hp l l' h.2]

theorem isEmpty_congr {α : Type} (f : α → α) (l l' : List α) (h : l.map f = l'.map f) : l.isEmpty = l'.isEmpty := by
  cases l <;> cases l' <;> simp at h ⊢

-- ---------------------------------------------------------------- rows, uploads, buckets, states

abbrev REqv (r r' : Row) : Prop := eraseRow r = eraseRow r'
abbrev UEqv (u u' : Upload) : Prop := eraseUpload u = eraseUpload u'
abbrev BEqv (b b' : Bucket) : Prop := eraseBucket b = eraseBucket b'

theorem REqv.fields {r r' : Row} (h : REqv r r') :
    r.rowId = r'.rowId ∧ r.key = r'.key ∧ r.vid = r'.vid ∧ r.dm = r'.dm ∧ r.latest = r'.latest ∧
    r.parts = r'.parts ∧ r.etag = r'.etag ∧ r.ct = r'.ct ∧ r.md = r'.md ∧ r.tags = r'.tags ∧
    r.cls = r'.cls ∧ r.seqBase = r'.seqBase := by
  cases r; cases r'; simpa [REqv, eraseRow] using h

theorem REqv.of_fields {r r' : Row} (h : r.rowId = r'.rowId ∧ r.key = r'.key ∧ r.vid = r'.vid ∧ r.dm = r'.dm ∧
    r.latest = r'.latest ∧ r.parts = r'.parts ∧ r.etag = r'.etag ∧ r.ct = r'.ct ∧ r.md = r'.md ∧
    r.tags = r'.tags ∧ r.cls = r'.cls ∧ r.seqBase = r'.seqBase) : REqv r r' := by
  cases r; cases r'; simpa [REqv, eraseRow] using h

theorem UEqv.fields {u u' : Upload} (h : UEqv u u') :
    u.uid = u'.uid ∧ u.key = u'.key ∧ u.ct = u'.ct ∧ u.md = u'.md ∧ u.tags = u'.tags ∧ u.cls = u'.cls ∧
    u.parts = u'.parts := by
  cases u; cases u'; simpa [UEqv, eraseUpload] using h

theorem BEqv.fields {b b' : Bucket} (h : BEqv b b') :
    b.name = b'.name ∧ b.ver = b'.ver ∧ b.rows.map eraseRow = b'.rows.map eraseRow ∧
    b.uploads.map eraseUpload = b'.uploads.map eraseUpload := by
  cases b; cases b'; simpa [BEqv, eraseBucket] using h

theorem BEqv.of_fields {b b' : Bucket} (h : b.name = b'.name ∧ b.ver = b'.ver ∧
    b.rows.map eraseRow = b'.rows.map eraseRow ∧ b.uploads.map eraseUpload = b'.uploads.map eraseUpload) :
    BEqv b b' := by
  cases b; cases b'; simpa [BEqv, eraseBucket] using h

theorem Equiv.fields {s t : State} (h : Equiv s t) :
    s.buckets.map eraseBucket = t.buckets.map eraseBucket ∧ s.nextVid = t.nextVid ∧ s.nextUid = t.nextUid ∧
    s.nextRow = t.nextRow := by
  cases s; cases t; simpa [Equiv, erase] using h

theorem Equiv.of_fields {s t : State} (h : s.buckets.map eraseBucket = t.buckets.map eraseBucket ∧
    s.nextVid = t.nextVid ∧ s.nextUid = t.nextUid ∧ s.nextRow = t.nextRow) : Equiv s t := by
  cases s; cases t; simpa [Equiv, erase] using h

theorem Equiv.refl (s : State) : Equiv s s := rfl
theorem Equiv.symm {s t : State} (h : Equiv s t) : Equiv t s := Eq.symm h
theorem Equiv.trans {s t u : State} (h : Equiv s t) (h' : Equiv t u) : Equiv s u := Eq.trans h h'

/-- The clock is not part of the comparison. -/
theorem Equiv.clock (s : State) (c : Nat) : Equiv { s with clock := c } s := rfl
theorem equiv_tick (s : State) : Equiv (tick s) s := rfl

-- lookups

theorem latestRow_congr {bk bk' : Bucket} (h : BEqv bk bk') (k : String) :
    OptRel REqv (latestRow bk k) (latestRow bk' k) :=
  find?_congr eraseRow _ (fun a b hab => by obtain ⟨_, h2, _, _, h5, _⟩ := REqv.fields hab; simp [h2, h5]) _ _ h.fields.2.2.1

theorem rowByVid_congr {bk bk' : Bucket} (h : BEqv bk bk') (k : String) (v : Option Nat) :
    OptRel REqv (rowByVid bk k v) (rowByVid bk' k v) :=
  find?_congr eraseRow _ (fun a b hab => by obtain ⟨_, h2, h3, _⟩ := REqv.fields hab; simp [h2, h3]) _ _ h.fields.2.2.1

theorem nullRow_congr {bk bk' : Bucket} (h : BEqv bk bk') (k : String) :
    OptRel REqv (nullRow bk k) (nullRow bk' k) := rowByVid_congr h k none

theorem findBucket_congr {s t : State} (h : Equiv s t) (b : String) :
    OptRel BEqv (findBucket s b) (findBucket t b) :=
  find?_congr eraseBucket _ (fun a c hac => by simp [(BEqv.fields hac).1]) _ _ h.fields.1

theorem findUpload_congr {bk bk' : Bucket} (h : BEqv bk bk') (uid : Nat) (k : String) :
    OptRel UEqv (bk.uploads.find? fun u => u.uid == uid && u.key == k) (bk'.uploads.find? fun u => u.uid == uid && u.key == k) :=
  find?_congr eraseUpload _ (fun a b hab => by obtain ⟨h1, h2, _⟩ := UEqv.fields hab; simp [h1, h2]) _ _ h.fields.2.2.2

-- updates

theorem eraseRow_touch (q : Quirks) (n : Nat) (r : Row) : eraseRow (touch q n r) = eraseRow r := by
  cases r; rfl

theorem touch_congr (q : Quirks) (n n' : Nat) {r r' : Row} (h : REqv r r') : REqv (touch q n r) (touch q n' r') := by
  simp only [REqv, eraseRow_touch]; exact h

theorem replaceRow_congr {bk bk' : Bucket} {r r' : Row} (h : BEqv bk bk') (hr : REqv r r') :
    BEqv (replaceRow bk r) (replaceRow bk' r') := by
  obtain ⟨h1, h2, h3, h4⟩ := h.fields
  refine BEqv.of_fields ⟨h1, h2, ?_, h4⟩
  refine map_congr_rel eraseRow _ _ ?_ _ _ h3
  intro a b hab
  have e1 := (REqv.fields hab).1
  have e2 := (REqv.fields hr).1
  by_cases hc : b.rowId = r'.rowId
  · simp [e1, e2, hc]; exact hr
  · simp [e1, e2, hc]; exact hab

theorem removeRow_congr {bk bk' : Bucket} (h : BEqv bk bk') (id : Nat) :
    BEqv (removeRow bk id) (removeRow bk' id) := by
  obtain ⟨h1, h2, h3, h4⟩ := h.fields
  refine BEqv.of_fields ⟨h1, h2, ?_, h4⟩
  exact filter_congr eraseRow _ (fun a b hab => by simp [(REqv.fields hab).1]) _ _ h3

theorem addRow_congr {bk bk' : Bucket} {r r' : Row} (h : BEqv bk bk') (hr : REqv r r') :
    BEqv (addRow bk r) (addRow bk' r') := by
  obtain ⟨h1, h2, h3, h4⟩ := h.fields
  refine BEqv.of_fields ⟨h1, h2, ?_, h4⟩
  simp only [addRow, List.map_append, h3, List.map_cons, List.map_nil]
  rw [show eraseRow r = eraseRow r' from hr]

theorem unlatest_congr (q : Quirks) (n n' : Nat) {bk bk' : Bucket} {r r' : Row} (h : BEqv bk bk') (hr : REqv r r') :
    BEqv (unlatest q n bk r) (unlatest q n' bk' r') := by
  refine replaceRow_congr h ?_
  obtain ⟨f1, f2, f3, f4, f5, f6, f7, f8, f9, f10, f11, f12⟩ := REqv.fields hr
  exact REqv.of_fields ⟨f1, f2, f3, f4, rfl, f6, f7, f8, f9, f10, f11, f12⟩

theorem setBucket_congr {s t : State} {bk bk' : Bucket} (h : Equiv s t) (hb : BEqv bk bk') :
    Equiv (setBucket s bk) (setBucket t bk') := by
  obtain ⟨h1, h2, h3, h4⟩ := h.fields
  refine Equiv.of_fields ⟨?_, h2, h3, h4⟩
  refine map_congr_rel eraseBucket _ _ ?_ _ _ h1
  intro a b hab
  have e1 := (BEqv.fields hab).1
  have e2 := (BEqv.fields hb).1
  by_cases hc : b.name = bk'.name
  · simp [e1, e2, hc]; exact hb
  · simp [e1, e2, hc]; exact hab

-- ---------------------------------------------------------------- the write path

/-- Two descriptions of a new object that differ at most in the `created_at` override. -/
def NEqv (x x' : NewObj) : Prop := x.parts = x'.parts ∧ x.etag = x'.etag ∧ x.o = x'.o ∧ x.seqBase = x'.seqBase

theorem NEqv.refl (x : NewObj) : NEqv x x := ⟨rfl, rfl, rfl, rfl⟩

theorem mkRow_congr (id : Nat) (k : String) (vid : Option Nat) (c c' n n' : Nat) {x x' : NewObj} (hx : NEqv x x') :
    REqv (mkRow id k vid c n x) (mkRow id k vid c' n' x') := by
  obtain ⟨h1, h2, h3, h4⟩ := hx
  simp [REqv, mkRow, eraseRow, h1, h2, h3, h4]

theorem Equiv.with2 {s t : State} (h : Equiv s t) (a b : Nat) :
    Equiv { s with nextVid := a, nextRow := b } { t with nextVid := a, nextRow := b } := by
  obtain ⟨h1, _, h3, _⟩ := h.fields
  exact Equiv.of_fields ⟨h1, rfl, h3, rfl⟩

theorem Equiv.with1 {s t : State} (h : Equiv s t) (b : Nat) :
    Equiv { s with nextRow := b } { t with nextRow := b } := by
  obtain ⟨h1, h2, h3, _⟩ := h.fields
  exact Equiv.of_fields ⟨h1, h2, h3, rfl⟩

theorem Equiv.withUid {s t : State} (h : Equiv s t) (b : Nat) :
    Equiv { s with nextUid := b } { t with nextUid := b } := by
  obtain ⟨h1, h2, _, h4⟩ := h.fields
  exact Equiv.of_fields ⟨h1, h2, rfl, h4⟩

theorem unlatestCur_congr (q : Quirks) (n n' : Nat) {bk bk' : Bucket} (h : BEqv bk bk') (k : String) :
    BEqv (unlatestCur q n bk k) (unlatestCur q n' bk' k) := by
  unfold unlatestCur
  have hl := latestRow_congr h k
  generalize latestRow bk k = x at hl ⊢
  generalize latestRow bk' k = y at hl ⊢
  cases hl with
  | none => exact h
  | some hr => exact unlatest_congr q n n' h hr

theorem install_congr (q : Quirks) {s t : State} {bk bk' : Bucket} (h : Equiv s t) (hb : BEqv bk bk')
    (k : String) {n n' : NewObj} (hx : NEqv n n') :
    Equiv (install q s bk k n).1 (install q t bk' k n').1 ∧ (install q s bk k n).2 = (install q t bk' k n').2 := by
  obtain ⟨e1, e2, e3, e4⟩ := h.fields
  have hv := hb.fields.2.1
  have hu := unlatestCur_congr q s.clock t.clock hb k
  unfold install
  simp only [hv, e2, e4]
  split
  · exact ⟨Equiv.with2 (setBucket_congr h (addRow_congr hu (mkRow_congr _ _ _ _ _ _ _ hx))) _ _, rfl⟩
  · have hn := nullRow_congr hb k
    generalize nullRow bk k = x at hn ⊢
    generalize nullRow bk' k = y at hn ⊢
    cases hn with
    | none => exact ⟨Equiv.with1 (setBucket_congr h (addRow_congr hu (mkRow_congr _ _ _ _ _ _ _ hx))) _, rfl⟩
    | @some a b hr =>
      dsimp only
      rw [(REqv.fields hr).1]
      exact ⟨setBucket_congr h (replaceRow_congr hu (mkRow_congr _ _ _ _ _ _ _ hx)), rfl⟩


/-- Relatedness of two `putRow` results. -/
inductive ExRel : Except Err (State × Option Nat) → Except Err (State × Option Nat) → Prop
  | error (e : Err) : ExRel (.error e) (.error e)
  | ok {s t : State} (v : Option Nat) : Equiv s t → ExRel (.ok (s, v)) (.ok (t, v))

theorem ExRel.of_install {a b : State × Option Nat} (h : Equiv a.1 b.1 ∧ a.2 = b.2) : ExRel (.ok a) (.ok b) := by
  obtain ⟨a1, a2⟩ := a; obtain ⟨b1, b2⟩ := b
  simp only at h
  obtain ⟨h1, h2⟩ := h
  subst h2
  exact .ok _ h1

theorem isSome_congr {α : Type} {R : α → α → Prop} {x y : Option α} (h : OptRel R x y) : x.isSome = y.isSome := by
  cases h <;> rfl

theorem ifMatchOk_congr (im : IfMatch) {x y : Option Row} (h : OptRel REqv x y) : ifMatchOk im x = ifMatchOk im y := by
  cases h with
  | none => rfl
  | some hr =>
    obtain ⟨_, _, _, f4, _, _, f7, _⟩ := REqv.fields hr
    cases im <;> simp [ifMatchOk, f4, f7]

theorem anyLatest_congr {x y : Option Row} (h : OptRel REqv x y) :
    x.any (·.latest) = y.any (·.latest) := by
  cases h with
  | none => rfl
  | some hr => simp [(REqv.fields hr).2.2.2.2.1]

theorem putRow_tail (q : Quirks) {s t : State} (h : Equiv s t) {B B' : Bucket} (hb1 : BEqv B B') (k : String)
    {n n' : NewObj} (hx : NEqv n n') (c1 c2 c3 : Bool) :
    ExRel
      (if c1 = true then Except.error Err.preconditionFailed
       else if c2 = true then Except.error Err.preconditionFailed
       else if (c3 && (nullRow B k).any (·.latest)) = true then Except.error Err.preconditionFailed
       else Except.ok (install q s B k n))
      (if c1 = true then Except.error Err.preconditionFailed
       else if c2 = true then Except.error Err.preconditionFailed
       else if (c3 && (nullRow B' k).any (·.latest)) = true then Except.error Err.preconditionFailed
       else Except.ok (install q t B' k n')) := by
  have hs := anyLatest_congr (nullRow_congr hb1 k)
  simp only [hs]
  split
  · exact .error _
  · split
    · exact .error _
    · split
      · exact .error _
      · exact ExRel.of_install (install_congr q h hb1 k hx)

theorem putRow_congr (q : Quirks) {s t : State} {bk bk' : Bucket} (h : Equiv s t) (hb : BEqv bk bk')
    (k : String) {n n' : NewObj} (hx : NEqv n n') (inm : Bool) (im : IfMatch) :
    ExRel (putRow q s bk k n inm im) (putRow q t bk' k n' inm im) := by
  unfold putRow
  have hl := latestRow_congr hb k
  have hv := hb.fields.2.1
  have him := ifMatchOk_congr im hl
  generalize latestRow bk k = x at hl him ⊢
  generalize latestRow bk' k = y at hl him ⊢
  dsimp only
  simp only [him, hv]
  cases hl with
  | none => exact putRow_tail q h hb k hx _ _ _
  | @some a b hr =>
    dsimp only
    simp only [(REqv.fields hr).2.2.2.1]
    have hb1 : BEqv (if (inm || im != IfMatch.none) = true then replaceRow bk (touch q s.clock a) else bk)
        (if (inm || im != IfMatch.none) = true then replaceRow bk' (touch q t.clock b) else bk') := by
      split
      · exact replaceRow_congr hb (touch_congr q _ _ hr)
      · exact hb
    exact putRow_tail q h hb1 k hx _ _ _

-- ---------------------------------------------------------------- DeleteObject without a version id

theorem isNone_congr {α : Type} {R : α → α → Prop} {x y : Option α} (h : OptRel R x y) : x.isNone = y.isNone := by
  cases h <;> rfl

/-! `deleteOp` without a version id, restated with named pieces. -/

def delBk1 (bk : Bucket) (k : String) : Bucket :=
  if bk.ver == .suspended then
    match nullRow bk k with | some n => removeRow bk n.rowId | none => bk
  else bk

def delBk2 (q : Quirks) (now : Nat) (bk bk1 : Bucket) (k : String) : Bucket :=
  match latestRow bk k with
  | some r => if (bk1.rows.any (·.rowId == r.rowId)) then unlatest q now bk1 r else bk1
  | none => bk1

def dmRowOf (s : State) (k : String) : Row :=
  { rowId := s.nextRow, key := k, vid := some s.nextVid, dm := true, latest := true,
    created := s.clock, updated := s.clock, wrote := s.clock }

def delNone (q : Quirks) (s : State) (bk : Bucket) (k : String) (im : IfMatch) : State × Out :=
  if (if bk.ver == .suspended then nullRow bk k else latestRow bk k).isNone && !(bk.ver != .off) then
    if im != .none then (s, .err .preconditionFailed) else (s, .deleted none false)
  else if !ifMatchOk im (latestRow bk k) then (s, .err .preconditionFailed)
  else if bk.ver != .off then
    ({ setBucket s (addRow (delBk2 q s.clock bk (delBk1 bk k) k) (dmRowOf s k)) with
        nextVid := s.nextVid + 1, nextRow := s.nextRow + 1 },
     .deleted (some (some s.nextVid)) true)
  else
    match latestRow bk k with
    | some r => (setBucket s (removeRow bk r.rowId), .deleted none false)
    | none => (s, .deleted none false)

theorem deleteOp_none_eq (q : Quirks) (s : State) (bk : Bucket) (k : String) (im : IfMatch) :
    deleteOp q s bk k none im = delNone q s bk k im := by
  rfl

theorem delBk1_congr {bk bk' : Bucket} (hb : BEqv bk bk') (k : String) : BEqv (delBk1 bk k) (delBk1 bk' k) := by
  unfold delBk1
  have hn := nullRow_congr hb k
  simp only [hb.fields.2.1]
  split
  · generalize nullRow bk k = x at hn ⊢
    generalize nullRow bk' k = y at hn ⊢
    cases hn with
    | none => exact hb
    | @some a b hr =>
      dsimp only
      rw [(REqv.fields hr).1]
      exact removeRow_congr hb _
  · exact hb

theorem delBk2_congr (q : Quirks) (n n' : Nat) {bk bk' bk1 bk1' : Bucket} (hb : BEqv bk bk') (hb1 : BEqv bk1 bk1')
    (k : String) : BEqv (delBk2 q n bk bk1 k) (delBk2 q n' bk' bk1' k) := by
  unfold delBk2
  have hl := latestRow_congr hb k
  generalize latestRow bk k = x at hl ⊢
  generalize latestRow bk' k = y at hl ⊢
  cases hl with
  | none => exact hb1
  | @some a b hr =>
    dsimp only
    have hany : (bk1.rows.any fun x => x.rowId == a.rowId) = (bk1'.rows.any fun x => x.rowId == b.rowId) := by
      rw [(REqv.fields hr).1]
      exact any_congr eraseRow _ (fun c d hcd => by simp [(REqv.fields hcd).1]) _ _ hb1.fields.2.2.1
    simp only [hany]
    split
    · exact unlatest_congr q n n' hb1 hr
    · exact hb1

/-- Relatedness of two step results: equivalent states, same answer up to timestamps. -/
def PRel (x y : State × Out) : Prop := Equiv x.1 y.1 ∧ eraseOut x.2 = eraseOut y.2

theorem PRel.ite {c : Bool} {a a' b b' : State × Out} (ha : PRel a a') (hb : PRel b b') :
    PRel (if c = true then a else b) (if c = true then a' else b') := by
  cases c <;> simpa

theorem PRel.same {s t : State} (h : Equiv s t) (o : Out) : PRel (s, o) (t, o) := ⟨h, rfl⟩

theorem delNone_congr (q : Quirks) {s t : State} {bk bk' : Bucket} (h : Equiv s t) (hb : BEqv bk bk')
    (k : String) (im : IfMatch) : PRel (delNone q s bk k im) (delNone q t bk' k im) := by
  obtain ⟨e1, e2, e3, e4⟩ := h.fields
  have hl := latestRow_congr hb k
  have hn := nullRow_congr hb k
  have hv := hb.fields.2.1
  have him := ifMatchOk_congr im hl
  have hprobe : (if bk'.ver == .suspended then nullRow bk k else latestRow bk k).isNone
      = (if bk'.ver == .suspended then nullRow bk' k else latestRow bk' k).isNone := by
    split
    · exact isNone_congr hn
    · exact isNone_congr hl
  have hb2 := delBk2_congr q s.clock t.clock hb (delBk1_congr hb k) k
  have hdm : REqv (dmRowOf s k) (dmRowOf t k) := by simp [REqv, dmRowOf, eraseRow, e2, e4]
  unfold delNone
  simp only [hv]
  simp only [hprobe, him, e2, e4]
  refine PRel.ite (PRel.ite (PRel.same h _) (PRel.same h _)) (PRel.ite (PRel.same h _) (PRel.ite ?_ ?_))
  · exact ⟨Equiv.with2 (setBucket_congr h (addRow_congr hb2 hdm)) _ _, rfl⟩
  · generalize latestRow bk k = x at hl ⊢
    generalize latestRow bk' k = y at hl ⊢
    cases hl with
    | none => exact PRel.same h _
    | @some a b hr =>
      dsimp only
      rw [(REqv.fields hr).1]
      exact ⟨setBucket_congr h (removeRow_congr hb _), rfl⟩

theorem deleteOp_congr (q : Quirks) {s t : State} {bk bk' : Bucket} (h : Equiv s t) (hb : BEqv bk bk')
    (k : String) (im : IfMatch) :
    PRel (deleteOp q s bk k none im) (deleteOp q t bk' k none im) := by
  rw [deleteOp_none_eq, deleteOp_none_eq]
  exact delNone_congr q h hb k im

-- ---------------------------------------------------------------- S3.step, call by call

theorem Equiv.tick {s t : State} (h : Equiv s t) : Equiv (tick s) (tick t) :=
  (equiv_tick s).trans (h.trans (equiv_tick t).symm)

/-- `withBucket` of `S3.step`. -/
def withB (s : State) (b : String) (f : Bucket → State × Out) : State × Out :=
  match findBucket s b with
  | none => (s, .err .noSuchBucket)
  | some bk => f bk

theorem withB_congr {s t : State} (h : Equiv s t) (b : String) {f g : Bucket → State × Out}
    (hfg : ∀ bk bk', BEqv bk bk' → PRel (f bk) (g bk')) : PRel (withB s b f) (withB t b g) := by
  unfold withB
  have hf := findBucket_congr h b
  generalize findBucket s b = x at hf ⊢
  generalize findBucket t b = y at hf ⊢
  cases hf with
  | none => exact PRel.same h _
  | some hb => exact hfg _ _ hb

/-- How `S3.step` turns a `putRow` result into its answer. -/
def unpack (s : State) (f : Option Nat → Out) : Except Err (State × Option Nat) → State × Out
  | .error e => (s, .err e)
  | .ok (s', vid) => (s', f vid)

theorem PRel.of_exrel {x y : Except Err (State × Option Nat)} (hx : ExRel x y) {s t : State} (h : Equiv s t)
    (f : Option Nat → Out) : PRel (unpack s f x) (unpack t f y) := by
  cases hx with
  | error e => exact PRel.same h _
  | ok v he => exact ⟨he, rfl⟩

-- mkb
theorem step_mkb_eq (q : Quirks) (s : State) (b : String) :
    step q s (.mkb b) =
      if (findBucket (tick s) b).isSome then (tick s, .err .bucketAlreadyExists)
      else ({ tick s with buckets := (tick s).buckets ++ [{ name := b }] }, .unit) := rfl

theorem step_mkb_congr (q : Quirks) {s t : State} (h : Equiv s t) (b : String) :
    PRel (step q s (.mkb b)) (step q t (.mkb b)) := by
  rw [step_mkb_eq, step_mkb_eq]
  have ht := h.tick
  rw [isSome_congr (findBucket_congr ht b)]
  refine PRel.ite (PRel.same ht _) ⟨?_, rfl⟩
  obtain ⟨e1, e2, e3, e4⟩ := ht.fields
  exact Equiv.of_fields ⟨by simp [e1], e2, e3, e4⟩

-- rmb
theorem step_rmb_eq (q : Quirks) (s : State) (b : String) :
    step q s (.rmb b) = withB (tick s) b fun bk =>
      if !bk.rows.isEmpty || !bk.uploads.isEmpty then (tick s, .err .bucketNotEmpty)
      else ({ tick s with buckets := (tick s).buckets.filter (·.name != b) }, .unit) := rfl

theorem step_rmb_congr (q : Quirks) {s t : State} (h : Equiv s t) (b : String) :
    PRel (step q s (.rmb b)) (step q t (.rmb b)) := by
  rw [step_rmb_eq, step_rmb_eq]
  have ht := h.tick
  refine withB_congr ht b fun bk bk' hb => ?_
  obtain ⟨_, _, f3, f4⟩ := hb.fields
  rw [isEmpty_congr _ _ _ f3, isEmpty_congr _ _ _ f4]
  refine PRel.ite (PRel.same ht _) ⟨?_, rfl⟩
  obtain ⟨e1, e2, e3, e4⟩ := ht.fields
  exact Equiv.of_fields ⟨filter_congr eraseBucket _ (fun a c hac => by simp [(BEqv.fields hac).1]) _ _ e1, e2, e3, e4⟩

-- setVer
theorem step_setVer_eq (q : Quirks) (s : State) (b : String) (v : Versioning) :
    step q s (.setVer b v) = withB (tick s) b fun bk => (setBucket (tick s) { bk with ver := v }, .unit) := rfl

theorem step_setVer_congr (q : Quirks) {s t : State} (h : Equiv s t) (b : String) (v : Versioning) :
    PRel (step q s (.setVer b v)) (step q t (.setVer b v)) := by
  rw [step_setVer_eq, step_setVer_eq]
  refine withB_congr h.tick b fun bk bk' hb => ⟨setBucket_congr h.tick ?_, rfl⟩
  obtain ⟨f1, _, f3, f4⟩ := hb.fields
  exact BEqv.of_fields ⟨f1, rfl, f3, f4⟩

-- put
theorem step_put_eq (q : Quirks) (s : State) (b k : String) (body : Bytes) (o : WriteOpts) (inm : Bool) (im : IfMatch) :
    step q s (.put b k body o inm im) = withB (tick s) b fun bk =>
      unpack (tick s) (fun vid => .wrote vid (singleETag body))
        (putRow q (tick s) bk k { parts := [body], etag := singleETag body, o := o } inm im) := rfl

theorem step_put_congr (q : Quirks) {s t : State} (h : Equiv s t) (b k : String) (body : Bytes) (o : WriteOpts)
    (inm : Bool) (im : IfMatch) :
    PRel (step q s (.put b k body o inm im)) (step q t (.put b k body o inm im)) := by
  rw [step_put_eq, step_put_eq]
  exact withB_congr h.tick b fun bk bk' hb =>
    PRel.of_exrel (putRow_congr q h.tick hb k (NEqv.refl _) inm im) h.tick _


-- reads of the current version

inductive ResRel : Except Err Row → Except Err Row → Prop
  | error (e : Err) : ResRel (.error e) (.error e)
  | ok {r r' : Row} : REqv r r' → ResRel (.ok r) (.ok r')

theorem resolve_congr {bk bk' : Bucket} (hb : BEqv bk bk') (k : String) :
    ResRel (resolve bk k none) (resolve bk' k none) := by
  unfold resolve
  have hl := latestRow_congr hb k
  generalize latestRow bk k = x at hl ⊢
  generalize latestRow bk' k = y at hl ⊢
  cases hl with
  | none => exact .error _
  | @some a b hr =>
    dsimp only
    rw [(REqv.fields hr).2.2.2.1]
    split
    · exact .error _
    · exact .ok hr

theorem viewOf_congr {r r' : Row} (h : REqv r r') : eraseOut (.obj (viewOf r)) = eraseOut (.obj (viewOf r')) := by
  obtain ⟨f1, f2, f3, f4, f5, f6, f7, f8, f9, f10, f11, f12⟩ := REqv.fields h
  simp [eraseOut, viewOf, Row.content, Row.size, f1, f3, f6, f7, f8, f9, f10, f11]

theorem step_get_eq (q : Quirks) (s : State) (b k : String) (vid : Option (Option Nat)) :
    step q s (.get b k vid) = withB (tick s) b fun bk =>
      match resolve bk k vid with
      | .error e => (tick s, .err e)
      | .ok r => (tick s, .obj (viewOf r)) := rfl

theorem step_head_eq (q : Quirks) (s : State) (b k : String) (vid : Option (Option Nat)) :
    step q s (.head b k vid) = withB (tick s) b fun bk =>
      match resolve bk k vid with
      | .error e => (tick s, .err e)
      | .ok r => (tick s, .obj (viewOf r)) := rfl

theorem read_congr {s t : State} (h : Equiv s t) (b k : String) :
    PRel (withB s b fun bk => match resolve bk k none with
            | .error e => (s, .err e) | .ok r => (s, .obj (viewOf r)))
         (withB t b fun bk => match resolve bk k none with
            | .error e => (t, .err e) | .ok r => (t, .obj (viewOf r))) := by
  refine withB_congr h b fun bk bk' hb => ?_
  have hr := resolve_congr hb k
  generalize resolve bk k none = x at hr ⊢
  generalize resolve bk' k none = y at hr ⊢
  cases hr with
  | error e => exact PRel.same h _
  | ok hr => exact ⟨h, viewOf_congr hr⟩

theorem step_get_congr (q : Quirks) {s t : State} (h : Equiv s t) (b k : String) :
    PRel (step q s (.get b k none)) (step q t (.get b k none)) := by
  rw [step_get_eq, step_get_eq]; exact read_congr h.tick b k

theorem step_head_congr (q : Quirks) {s t : State} (h : Equiv s t) (b k : String) :
    PRel (step q s (.head b k none)) (step q t (.head b k none)) := by
  rw [step_head_eq, step_head_eq]; exact read_congr h.tick b k

-- del
theorem step_del_eq (q : Quirks) (s : State) (b k : String) (vid : Option (Option Nat)) (im : IfMatch) :
    step q s (.del b k vid im) = withB (tick s) b fun bk => deleteOp q (tick s) bk k vid im := rfl

theorem step_del_congr (q : Quirks) {s t : State} (h : Equiv s t) (b k : String) (im : IfMatch) :
    PRel (step q s (.del b k none im)) (step q t (.del b k none im)) := by
  rw [step_del_eq, step_del_eq]
  exact withB_congr h.tick b fun bk bk' hb => deleteOp_congr q h.tick hb k im

-- tagging
theorem step_getTags_eq (q : Quirks) (s : State) (b k : String) (vid : Option (Option Nat)) :
    step q s (.getTags b k vid) = withB (tick s) b fun bk =>
      match resolve bk k vid with
      | .error e => (tick s, .err e)
      | .ok r => (tick s, .tags r.tags) := rfl

theorem step_getTags_congr (q : Quirks) {s t : State} (h : Equiv s t) (b k : String) :
    PRel (step q s (.getTags b k none)) (step q t (.getTags b k none)) := by
  rw [step_getTags_eq, step_getTags_eq]
  refine withB_congr h.tick b fun bk bk' hb => ?_
  have hr := resolve_congr hb k
  generalize resolve bk k none = x at hr ⊢
  generalize resolve bk' k none = y at hr ⊢
  cases hr with
  | error e => exact PRel.same h.tick _
  | ok hr => dsimp only; rw [(REqv.fields hr).2.2.2.2.2.2.2.2.2.1]; exact PRel.same h.tick _

theorem step_putTags_eq (q : Quirks) (s : State) (b k : String) (vid : Option (Option Nat)) (tags : Pairs) :
    step q s (.putTags b k vid tags) = withB (tick s) b fun bk =>
      match resolve bk k vid with
      | .error e => (tick s, .err e)
      | .ok r => (setBucket (tick s) (replaceRow bk (touch q (tick s).clock { r with tags := tags })), .unit) := rfl

theorem REqv.withTags {r r' : Row} (h : REqv r r') (tags : Pairs) : REqv { r with tags := tags } { r' with tags := tags } := by
  obtain ⟨f1, f2, f3, f4, f5, f6, f7, f8, f9, f10, f11, f12⟩ := REqv.fields h
  exact REqv.of_fields ⟨f1, f2, f3, f4, f5, f6, f7, f8, f9, rfl, f11, f12⟩

theorem step_putTags_congr (q : Quirks) {s t : State} (h : Equiv s t) (b k : String) (tags : Pairs) :
    PRel (step q s (.putTags b k none tags)) (step q t (.putTags b k none tags)) := by
  rw [step_putTags_eq, step_putTags_eq]
  refine withB_congr h.tick b fun bk bk' hb => ?_
  have hr := resolve_congr hb k
  generalize resolve bk k none = x at hr ⊢
  generalize resolve bk' k none = y at hr ⊢
  cases hr with
  | error e => exact PRel.same h.tick _
  | ok hr => exact ⟨setBucket_congr h.tick (replaceRow_congr hb (touch_congr q _ _ (hr.withTags tags))), rfl⟩

theorem step_delTags_eq (q : Quirks) (s : State) (b k : String) (vid : Option (Option Nat)) :
    step q s (.delTags b k vid) = withB (tick s) b fun bk =>
      match resolve bk k vid with
      | .error e => (tick s, .err e)
      | .ok r => (setBucket (tick s) (replaceRow bk (touch q (tick s).clock { r with tags := [] })), .unit) := rfl

theorem step_delTags_congr (q : Quirks) {s t : State} (h : Equiv s t) (b k : String) :
    PRel (step q s (.delTags b k none)) (step q t (.delTags b k none)) := by
  rw [step_delTags_eq, step_delTags_eq]
  refine withB_congr h.tick b fun bk bk' hb => ?_
  have hr := resolve_congr hb k
  generalize resolve bk k none = x at hr ⊢
  generalize resolve bk' k none = y at hr ⊢
  cases hr with
  | error e => exact PRel.same h.tick _
  | ok hr => exact ⟨setBucket_congr h.tick (replaceRow_congr hb (touch_congr q _ _ (hr.withTags []))), rfl⟩


-- transition
theorem step_transition_eq (q : Quirks) (s : State) (b k cls : String) (vid : Option (Option Nat)) :
    step q s (.transition b k cls vid) = withB (tick s) b fun bk =>
      match (match vid with | none => latestRow bk k | some v => rowByVid bk k v) with
      | none => (tick s, .err .noSuchKey)
      | some r =>
        if r.dm then (tick s, .err .noSuchKey)
        else (setBucket (tick s) (replaceRow bk (touch q (tick s).clock { r with cls := some cls, seqBase := 0 })), .unit) := rfl

theorem step_transition_congr (q : Quirks) {s t : State} (h : Equiv s t) (b k cls : String) :
    PRel (step q s (.transition b k cls none)) (step q t (.transition b k cls none)) := by
  rw [step_transition_eq, step_transition_eq]
  refine withB_congr h.tick b fun bk bk' hb => ?_
  dsimp only
  have hl := latestRow_congr hb k
  generalize latestRow bk k = x at hl ⊢
  generalize latestRow bk' k = y at hl ⊢
  cases hl with
  | none => exact PRel.same h.tick _
  | @some a c hr =>
    dsimp only
    obtain ⟨f1, f2, f3, f4, f5, f6, f7, f8, f9, f10, f11, f12⟩ := REqv.fields hr
    rw [f4]
    refine PRel.ite (PRel.same h.tick _) ⟨setBucket_congr h.tick (replaceRow_congr hb (touch_congr q _ _ ?_)), rfl⟩
    exact REqv.of_fields ⟨f1, f2, f3, rfl, f5, f6, f7, f8, f9, f10, rfl, rfl⟩

-- copy
theorem step_copy_eq (q : Quirks) (s : State) (sb sk : String) (svid : Option (Option Nat)) (db dk : String)
    (rm rt : Bool) (o : WriteOpts) :
    step q s (.copy sb sk svid db dk rm rt o) =
      match findBucket (tick s) sb with
      | none => (tick s, .err .noSuchBucket)
      | some sbk =>
        match resolve sbk sk svid with
        | .error e => (tick s, .err e)
        | .ok src =>
          withB (tick s) db fun dbk =>
            unpack (tick s) (fun vid => .wrote vid src.etag)
              (putRow q (tick s) dbk dk
                { parts := src.parts, etag := src.etag,
                  o := { ct := if rm then o.ct else src.ct
                         md := if rm then o.md else sortBy (fun a b => a.1 < b.1)
                                (src.md.filter (fun p => p.1 != "!wr") ++ o.md.filter fun p => p.1 == "!wr")
                         tags := if rt then o.tags else src.tags
                         cls := o.cls } } false .none) := rfl

theorem step_copy_congr (q : Quirks) {s t : State} (h : Equiv s t) (sb sk db dk : String) (rm rt : Bool) (o : WriteOpts) :
    PRel (step q s (.copy sb sk none db dk rm rt o)) (step q t (.copy sb sk none db dk rm rt o)) := by
  rw [step_copy_eq, step_copy_eq]
  have ht := h.tick
  have hf := findBucket_congr ht sb
  generalize findBucket (tick s) sb = x at hf ⊢
  generalize findBucket (tick t) sb = y at hf ⊢
  cases hf with
  | none => exact PRel.same ht _
  | @some sbk sbk' hsb =>
    dsimp only
    have hr := resolve_congr hsb sk
    generalize resolve sbk sk none = x at hr ⊢
    generalize resolve sbk' sk none = y at hr ⊢
    cases hr with
    | error e => exact PRel.same ht _
    | @ok src src' hr =>
      dsimp only
      obtain ⟨f1, f2, f3, f4, f5, f6, f7, f8, f9, f10, f11, f12⟩ := REqv.fields hr
      rw [f6, f7, f8, f9, f10]
      exact withB_congr ht db fun bk bk' hb => PRel.of_exrel (putRow_congr q ht hb dk (NEqv.refl _) false .none) ht _


-- multipart

theorem uploads_append_congr {bk bk' : Bucket} (hb : BEqv bk bk') {u u' : Upload} (hu : UEqv u u') :
    BEqv { bk with uploads := bk.uploads ++ [u] } { bk' with uploads := bk'.uploads ++ [u'] } := by
  obtain ⟨f1, f2, f3, f4⟩ := hb.fields
  refine BEqv.of_fields ⟨f1, f2, f3, ?_⟩
  simp only [List.map_append, f4, List.map_cons, List.map_nil]
  rw [show eraseUpload u = eraseUpload u' from hu]

theorem uploads_filter_congr {bk bk' : Bucket} (hb : BEqv bk bk') (uid : Nat) :
    BEqv { bk with uploads := bk.uploads.filter (·.uid != uid) } { bk' with uploads := bk'.uploads.filter (·.uid != uid) } := by
  obtain ⟨f1, f2, f3, f4⟩ := hb.fields
  refine BEqv.of_fields ⟨f1, f2, f3, ?_⟩
  exact filter_congr eraseUpload _ (fun a b hab => by simp [(UEqv.fields hab).1]) _ _ f4

theorem uploads_map_congr {bk bk' : Bucket} (hb : BEqv bk bk') (uid : Nat) {u u' : Upload} (hu : UEqv u u') :
    BEqv { bk with uploads := bk.uploads.map fun x => if x.uid == uid then u else x }
         { bk' with uploads := bk'.uploads.map fun x => if x.uid == uid then u' else x } := by
  obtain ⟨f1, f2, f3, f4⟩ := hb.fields
  refine BEqv.of_fields ⟨f1, f2, f3, ?_⟩
  refine map_congr_rel eraseUpload _ _ ?_ _ _ f4
  intro a b hab
  have e1 := (UEqv.fields hab).1
  by_cases hc : b.uid = uid
  · simp [e1, hc]; exact hu
  · simp [e1, hc]; exact hab

theorem step_mpu_eq (q : Quirks) (s : State) (b k : String) (o : WriteOpts) :
    step q s (.mpu b k o) = withB (tick s) b fun bk =>
      ({ setBucket (tick s) { bk with uploads := bk.uploads ++
            [{ uid := (tick s).nextUid, key := k, created := (tick s).clock, ct := o.ct, md := o.md, tags := o.tags, cls := o.cls }] }
          with nextUid := (tick s).nextUid + 1 }, .upload (tick s).nextUid) := rfl

theorem step_mpu_congr (q : Quirks) {s t : State} (h : Equiv s t) (b k : String) (o : WriteOpts) :
    PRel (step q s (.mpu b k o)) (step q t (.mpu b k o)) := by
  rw [step_mpu_eq, step_mpu_eq]
  have ht := h.tick
  have e3 := ht.fields.2.2.1
  refine withB_congr ht b fun bk bk' hb => ?_
  rw [e3]
  exact ⟨Equiv.withUid (setBucket_congr ht (uploads_append_congr hb (by simp [UEqv, eraseUpload]))) _, rfl⟩

theorem step_uploadPart_eq (q : Quirks) (s : State) (b k : String) (uid n : Nat) (body : Bytes) :
    step q s (.uploadPart b k uid n body) = withB (tick s) b fun bk =>
      match bk.uploads.find? (fun u => u.uid == uid && u.key == k) with
      | none => (tick s, .err .noSuchKey)
      | some u =>
        (setBucket (tick s) { bk with uploads := bk.uploads.map fun x =>
            if x.uid == uid then { u with parts := sortedInsert n body u.parts } else x },
         .part (singleETag body)) := rfl

theorem step_uploadPart_congr (q : Quirks) {s t : State} (h : Equiv s t) (b k : String) (uid n : Nat) (body : Bytes) :
    PRel (step q s (.uploadPart b k uid n body)) (step q t (.uploadPart b k uid n body)) := by
  rw [step_uploadPart_eq, step_uploadPart_eq]
  have ht := h.tick
  refine withB_congr ht b fun bk bk' hb => ?_
  have hu := findUpload_congr hb uid k
  generalize (bk.uploads.find? fun u => u.uid == uid && u.key == k) = x at hu ⊢
  generalize (bk'.uploads.find? fun u => u.uid == uid && u.key == k) = y at hu ⊢
  cases hu with
  | none => exact PRel.same ht _
  | @some u u' hu =>
    refine ⟨setBucket_congr ht (uploads_map_congr hb uid ?_), rfl⟩
    obtain ⟨g1, g2, g3, g4, g5, g6, g7⟩ := UEqv.fields hu
    cases u; cases u'; simp_all [UEqv, eraseUpload]

theorem step_abort_eq (q : Quirks) (s : State) (b k : String) (uid : Nat) :
    step q s (.abort b k uid) = withB (tick s) b fun bk =>
      match bk.uploads.find? (fun u => u.uid == uid && u.key == k) with
      | none => (tick s, .err .noSuchKey)
      | some _ => (setBucket (tick s) { bk with uploads := bk.uploads.filter (·.uid != uid) }, .unit) := rfl

theorem step_abort_congr (q : Quirks) {s t : State} (h : Equiv s t) (b k : String) (uid : Nat) :
    PRel (step q s (.abort b k uid)) (step q t (.abort b k uid)) := by
  rw [step_abort_eq, step_abort_eq]
  have ht := h.tick
  refine withB_congr ht b fun bk bk' hb => ?_
  have hu := findUpload_congr hb uid k
  generalize (bk.uploads.find? fun u => u.uid == uid && u.key == k) = x at hu ⊢
  generalize (bk'.uploads.find? fun u => u.uid == uid && u.key == k) = y at hu ⊢
  cases hu with
  | none => exact PRel.same ht _
  | some hu => exact ⟨setBucket_congr ht (uploads_filter_congr hb uid), rfl⟩

theorem step_complete_eq (q : Quirks) (s : State) (b k : String) (uid : Nat) (declared : Option (List Nat))
    (inm : Bool) (im : IfMatch) :
    step q s (.complete b k uid declared inm im) = withB (tick s) b fun bk =>
      match bk.uploads.find? (fun u => u.uid == uid && u.key == k) with
      | none => (tick s, .err .noSuchKey)
      | some u =>
        if !contiguousFrom 1 u.parts then (tick s, .err .other)
        else
          match declaredErr u declared with
          | some e => (tick s, .err e)
          | none =>
            unpack (tick s) (fun vid => .wrote vid (multiETag (u.parts.map (·.2))))
              (putRow q (tick s) { bk with uploads := bk.uploads.filter (·.uid != uid) } k
                { parts := u.parts.map (·.2), etag := multiETag (u.parts.map (·.2)),
                  o := { ct := u.ct, md := u.md, tags := u.tags, cls := u.cls },
                  created := some u.created, seqBase := 1 } inm im) := rfl

theorem step_complete_congr (q : Quirks) {s t : State} (h : Equiv s t) (b k : String) (uid : Nat)
    (declared : Option (List Nat)) (inm : Bool) (im : IfMatch) :
    PRel (step q s (.complete b k uid declared inm im)) (step q t (.complete b k uid declared inm im)) := by
  rw [step_complete_eq, step_complete_eq]
  have ht := h.tick
  refine withB_congr ht b fun bk bk' hb => ?_
  have hu := findUpload_congr hb uid k
  generalize (bk.uploads.find? fun u => u.uid == uid && u.key == k) = x at hu ⊢
  generalize (bk'.uploads.find? fun u => u.uid == uid && u.key == k) = y at hu ⊢
  cases hu with
  | none => exact PRel.same ht _
  | @some u u' hu =>
    dsimp only
    obtain ⟨g1, g2, g3, g4, g5, g6, g7⟩ := UEqv.fields hu
    have hd : declaredErr u declared = declaredErr u' declared := by simp [declaredErr, g7]
    rw [g7, hd]
    refine PRel.ite (PRel.same ht _) ?_
    generalize declaredErr u' declared = de
    cases de with
    | some e => exact PRel.same ht _
    | none =>
      dsimp only
      refine PRel.of_exrel (putRow_congr q ht (uploads_filter_congr hb uid) k ?_ inm im) ht _
      exact ⟨rfl, rfl, by simp [g3, g4, g5, g6], rfl⟩

/-- The write-offset check of `S3.step`'s AppendObject case. -/
def appendOffOk (bk : Bucket) (k : String) (off : Option Nat) : Bool :=
  let cur := latestRow bk k
  let existing : Option Row := match cur with | some r => if r.dm then none else some r | none => none
  match off with
  | none => true
  | some n => match existing with | none => n == 0 | some r => n == r.size

/-- The rest of `S3.step`'s AppendObject case (does not look at the offset). -/
def appendBody (q : Quirks) (s : State) (bk : Bucket) (k : String) (body : Bytes) : State × Out :=
  let now := s.clock
  let cur := latestRow bk k
  let existing : Option Row := match cur with | some r => if r.dm then none else some r | none => none
  let oldParts := match existing with | some r => r.parts | none => []
  let parts := oldParts ++ [body]
  let etag := multiETag parts
  let size := parts.flatten.length
  if bk.ver == .enabled then
    let o : WriteOpts := match existing with
      | some r => if q.appendEnabledDropsMeta then { ct := r.ct }
                  else { ct := r.ct, md := r.md, tags := r.tags, cls := r.cls }
      | none => {}
    unpack s (fun _ => .appended etag size) (putRow q s bk k { parts := parts, etag := etag, o := o } false .none)
  else
    let target : Option Row := if q.appendLatestInPlace then cur else
      (match existing with | some r => if r.vid.isNone then some r else none | none => none)
    match target with
    | some r =>
      if r.seqBase == 1 && !r.parts.isEmpty then (s, .err .other) else
      let r' : Row := { r with dm := false, latest := true, updated := now, wrote := now,
                               parts := parts, etag := etag,
                               seqBase := if r.parts.isEmpty then 0 else r.seqBase }
      (setBucket s (replaceRow bk r'), .appended etag size)
    | none =>
      if q.appendLatestInPlace then
        let row : Row := { rowId := s.nextRow, key := k, vid := none, latest := true,
                           created := now, updated := now, wrote := now, parts := parts, etag := etag }
        ({ setBucket s (addRow bk row) with nextRow := s.nextRow + 1 }, .appended etag size)
      else
        let o : WriteOpts := match existing with
          | some r => { ct := r.ct, md := r.md, tags := r.tags, cls := r.cls }
          | none => {}
        unpack s (fun _ => .appended etag size) (putRow q s bk k { parts := parts, etag := etag, o := o } false .none)

def appendOn (q : Quirks) (s : State) (bk : Bucket) (k : String) (body : Bytes) (off : Option Nat) : State × Out :=
  if !appendOffOk bk k off then (s, .err .invalidWriteOffset) else appendBody q s bk k body

theorem step_append_eq (q : Quirks) (s : State) (b k : String) (body : Bytes) (off : Option Nat) :
    step q s (.append b k body off) = withB (tick s) b fun bk => appendOn q (tick s) bk k body off := rfl

theorem appendOn_congr (q : Quirks) {s t : State} {bk bk' : Bucket} (h : Equiv s t) (hb : BEqv bk bk')
    (k : String) (body : Bytes) (off : Option Nat) :
    PRel (appendOn q s bk k body off) (appendOn q t bk' k body off) := by
  obtain ⟨e1, e2, e3, e4⟩ := h.fields
  have hl := latestRow_congr hb k
  have hv := hb.fields.2.1
  unfold appendOn appendOffOk appendBody
  generalize latestRow bk k = x at hl ⊢
  generalize latestRow bk' k = y at hl ⊢
  simp only [hv, e4]
  cases hl with
  | none =>
    dsimp only
    refine PRel.ite (PRel.same h _) (PRel.ite ?_ ?_)
    · exact PRel.of_exrel (putRow_congr q h hb k (NEqv.refl _) false .none) h _
    · cases hq : q.appendLatestInPlace
      · simp only [Bool.false_eq_true, if_false]
        exact PRel.of_exrel (putRow_congr q h hb k (NEqv.refl _) false .none) h _
      · simp only [if_true]
        refine ⟨Equiv.with1 (setBucket_congr h (addRow_congr hb ?_)) _, rfl⟩
        rfl
  | @some a b hr =>
    cases a with
    | mk rowId key vid dm latest created updated wrote parts etag ct md tags cls seqBase =>
    cases b with
    | mk rowId' key' vid' dm' latest' created' updated' wrote' parts' etag' ct' md' tags' cls' seqBase' =>
    simp only [REqv, eraseRow, Row.mk.injEq] at hr
    obtain ⟨rfl, rfl, rfl, rfl, rfl, -, -, -, rfl, rfl, rfl, rfl, rfl, rfl, rfl⟩ := hr
    cases dm <;> cases hq : q.appendLatestInPlace <;> cases vid <;>
      simp only [Bool.false_eq_true, if_false, if_true, Option.isNone_none, Option.isNone_some] <;>
      repeat' (first
        | exact PRel.same h _
        | exact PRel.of_exrel (putRow_congr q h hb k (NEqv.refl _) false .none) h _
        | (refine ⟨setBucket_congr h (replaceRow_congr hb ?_), rfl⟩; rfl)
        | (refine ⟨Equiv.with1 (setBucket_congr h (addRow_congr hb ?_)) _, rfl⟩; rfl)
        | apply PRel.ite)

theorem step_append_congr (q : Quirks) {s t : State} (h : Equiv s t) (b k : String) (body : Bytes) (off : Option Nat) :
    PRel (step q s (.append b k body off)) (step q t (.append b k body off)) := by
  rw [step_append_eq, step_append_eq]
  exact withB_congr h.tick b fun bk bk' hb => appendOn_congr q h.tick hb k body off

-- listings

theorem insertSorted_congr {α : Type} (f : α → α) (lt : α → α → Bool)
    (hlt : ∀ a b c d, f a = f b → f c = f d → lt a c = lt b d) {x y : α} (hxy : f x = f y) :
    ∀ l l' : List α, l.map f = l'.map f → (insertSorted lt x l).map f = (insertSorted lt y l').map f
  | [], [], _ => by simp [insertSorted, hxy]
  | [], _ :: _, h => by simp at h
  | _ :: _, [], h => by simp at h
  | a :: l, b :: l', h => by
    simp only [List.map_cons, List.cons.injEq] at h
    simp only [insertSorted, hlt x y a b hxy h.1]
    cases lt y b
    · simp [h.1, insertSorted_congr f lt hlt hxy l l' h.2]
    · simp [hxy, h.1, h.2]

theorem sortBy_congr {α : Type} (f : α → α) (lt : α → α → Bool)
    (hlt : ∀ a b c d, f a = f b → f c = f d → lt a c = lt b d) :
    ∀ l l' : List α, l.map f = l'.map f → (sortBy lt l).map f = (sortBy lt l').map f
  | [], [], _ => rfl
  | [], _ :: _, h => by simp at h
  | _ :: _, [], h => by simp at h
  | a :: l, b :: l', h => by
    simp only [List.map_cons, List.cons.injEq] at h
    simp only [sortBy, List.foldr_cons]
    exact insertSorted_congr f lt hlt h.1 _ _ (sortBy_congr f lt hlt l l' h.2)

theorem map_through {α β : Type} (f : α → α) (g : α → β) (hg : ∀ a, g (f a) = g a) {l l' : List α}
    (h : l.map f = l'.map f) : l.map g = l'.map g := by
  have : ∀ m : List α, m.map g = (m.map f).map g := by
    intro m; simp [List.map_map, Function.comp_def, hg]
  rw [this l, this l', h]

theorem step_list_eq (q : Quirks) (s : State) (b : String) :
    step q s (.list b) = withB (tick s) b fun bk =>
      (tick s, .listing ((sortBy (fun a b => a.key < b.key) (bk.rows.filter fun r => r.latest && !r.dm)).map
        fun r => (r.key, r.size, r.etag, r.cls))) := rfl

theorem step_list_congr (q : Quirks) {s t : State} (h : Equiv s t) (b : String) :
    PRel (step q s (.list b)) (step q t (.list b)) := by
  rw [step_list_eq, step_list_eq]
  refine withB_congr h.tick b fun bk bk' hb => ⟨h.tick, ?_⟩
  have hf := filter_congr eraseRow (fun r => r.latest && !r.dm)
    (fun a c hac => by obtain ⟨_, _, _, f4, f5, _⟩ := REqv.fields hac; simp [f4, f5]) _ _ hb.fields.2.2.1
  have hs := sortBy_congr eraseRow (fun a b : Row => decide (a.key < b.key))
    (fun a c d e h1 h2 => by simp [(REqv.fields h1).2.1, (REqv.fields h2).2.1]) _ _ hf
  have := map_through eraseRow (fun r : Row => (r.key, r.size, r.etag, r.cls)) (fun a => by cases a; rfl) hs
  simp only [eraseOut, this]

theorem step_listVersions_eq (q : Quirks) (s : State) (b : String) :
    step q s (.listVersions b) = withB (tick s) b fun bk =>
      (tick s, .versions ((sortBy (fun (a b : Row) =>
          a.key < b.key || (a.key == b.key && (match a.vid, b.vid with
            | some x, some y => x > y
            | some _, none => true
            | none, _ => false))) bk.rows).map fun r =>
        { key := r.key, vid := r.vid, latest := r.latest, dm := r.dm, size := r.size, updated := r.updated,
          rowId := r.rowId, cls := r.cls })) := rfl

theorem step_listVersions_congr (q : Quirks) {s t : State} (h : Equiv s t) (b : String) :
    PRel (step q s (.listVersions b)) (step q t (.listVersions b)) := by
  rw [step_listVersions_eq, step_listVersions_eq]
  refine withB_congr h.tick b fun bk bk' hb => ⟨h.tick, ?_⟩
  have hs := sortBy_congr eraseRow (fun (a b : Row) =>
          decide (a.key < b.key) || (a.key == b.key && (match a.vid, b.vid with
            | some x, some y => decide (x > y)
            | some _, none => true
            | none, _ => false)))
    (fun a c d e h1 h2 => by
      obtain ⟨_, k1, v1, _⟩ := REqv.fields h1
      obtain ⟨_, k2, v2, _⟩ := REqv.fields h2
      simp [k1, k2, v1, v2]) _ _ hb.fields.2.2.1
  simp only [eraseOut, List.map_map]
  exact congrArg Out.versions (map_through eraseRow _ (fun a => by cases a; rfl) hs)

theorem step_listBuckets_eq (q : Quirks) (s : State) :
    step q s .listBuckets = (tick s, .buckets (sortBy (· < ·) ((tick s).buckets.map (·.name)))) := rfl

theorem step_listBuckets_congr (q : Quirks) {s t : State} (h : Equiv s t) :
    PRel (step q s .listBuckets) (step q t .listBuckets) := by
  rw [step_listBuckets_eq, step_listBuckets_eq]
  refine ⟨h.tick, ?_⟩
  have := map_through eraseBucket (fun b : Bucket => b.name) (fun a => by cases a; rfl) h.tick.fields.1
  simp only [this]

-- ---------------------------------------------------------------- all calls

/-- **`S3.step` cannot see timestamps**: on states that are equal up to timestamps, a call that names
no explicit version id leads to states that are equal up to timestamps and gives the same answer up
to timestamps. -/
theorem step_respects_equiv (q : Quirks) {s t : State} (h : Equiv s t) (op : Op)
    (hv : opNamesVersion op = false) : PRel (step q s op) (step q t op) := by
  cases op with
  | mkb b => exact step_mkb_congr q h b
  | rmb b => exact step_rmb_congr q h b
  | setVer b v => exact step_setVer_congr q h b v
  | put b k body o inm im => exact step_put_congr q h b k body o inm im
  | get b k vid => cases vid with
    | none => exact step_get_congr q h b k
    | some v => simp [opNamesVersion] at hv
  | head b k vid => cases vid with
    | none => exact step_head_congr q h b k
    | some v => simp [opNamesVersion] at hv
  | del b k vid im => cases vid with
    | none => exact step_del_congr q h b k im
    | some v => simp [opNamesVersion] at hv
  | copy sb sk svid db dk rm rt o => cases svid with
    | none => exact step_copy_congr q h sb sk db dk rm rt o
    | some v => simp [opNamesVersion] at hv
  | append b k body off => exact step_append_congr q h b k body off
  | mpu b k o => exact step_mpu_congr q h b k o
  | uploadPart b k uid n body => exact step_uploadPart_congr q h b k uid n body
  | complete b k uid declared inm im => exact step_complete_congr q h b k uid declared inm im
  | abort b k uid => exact step_abort_congr q h b k uid
  | getTags b k vid => cases vid with
    | none => exact step_getTags_congr q h b k
    | some v => simp [opNamesVersion] at hv
  | putTags b k vid tags => cases vid with
    | none => exact step_putTags_congr q h b k tags
    | some v => simp [opNamesVersion] at hv
  | delTags b k vid => cases vid with
    | none => exact step_delTags_congr q h b k
    | some v => simp [opNamesVersion] at hv
  | transition b k cls vid => cases vid with
    | none => exact step_transition_congr q h b k cls
    | some v => simp [opNamesVersion] at hv
  | list b => exact step_list_congr q h b
  | listVersions b => exact step_listVersions_congr q h b
  | listBuckets => exact step_listBuckets_congr q h

/-- Relatedness of two `xstep` results. -/
def XRel (x y : State × XOut) : Prop := Equiv x.1 y.1 ∧ eraseXOut x.2 = eraseXOut y.2

theorem XRel.of_prel {x y : State × Out} (h : PRel x y) : XRel (x.1, .base x.2) (y.1, .base y.2) :=
  ⟨h.1, by simp [eraseXOut, h.2]⟩

theorem readSource_congr {s t : State} (h : Equiv s t) (sb sk : String) :
    ResRel (readSource s sb sk none) (readSource t sb sk none) := by
  unfold readSource
  have hf := findBucket_congr h sb
  generalize findBucket s sb = x at hf ⊢
  generalize findBucket t sb = y at hf ⊢
  cases hf with
  | none => exact .error _
  | some hb => exact resolve_congr hb sk

theorem delManyLoop_congr (q : Quirks) (b : String) (keys : List String) {s t : State} (h : Equiv s t) :
    Equiv (delManyLoop q b s keys).1 (delManyLoop q b t keys).1 ∧
    (delManyLoop q b s keys).2.map eraseOut = (delManyLoop q b t keys).2.map eraseOut := by
  induction keys generalizing s t with
  | nil => exact ⟨h, rfl⟩
  | cons k ks ih =>
    simp only [delManyLoop]
    have h1 := step_respects_equiv q h (.del b k none .none) rfl
    obtain ⟨i1, i2⟩ := ih h1.1
    exact ⟨i1, by simp [h1.2, i2]⟩

theorem xstep_respects_equiv (q : Quirks) {s t : State} (h : Equiv s t) (op : XOp)
    (hv : op.namesVersion = false) : XRel (xstep q s op) (xstep q t op) := by
  cases op with
  | base op => exact XRel.of_prel (step_respects_equiv q h op hv)
  | partCopy sb sk svid db dk uid n range =>
    cases svid with
    | some v => simp [XOp.namesVersion] at hv
    | none =>
      simp only [xstep]
      have hr := readSource_congr h sb sk
      generalize readSource s sb sk none = x at hr ⊢
      generalize readSource t sb sk none = y at hr ⊢
      cases hr with
      | error e => exact ⟨h.tick, rfl⟩
      | @ok r r' hr =>
        dsimp only
        have hc : r.content = r'.content := by simp [Row.content, (REqv.fields hr).2.2.2.2.2.1]
        rw [hc]
        cases sliceOf r'.content range with
        | error e => exact ⟨h.tick, rfl⟩
        | ok body => exact XRel.of_prel (step_respects_equiv q h (.uploadPart db dk uid n body) rfl)
  | delMany b keys =>
    simp only [xstep]
    have hf := findBucket_congr h b
    generalize findBucket s b = x at hf ⊢
    generalize findBucket t b = y at hf ⊢
    cases hf with
    | none => exact ⟨h.tick, rfl⟩
    | some hb =>
      obtain ⟨i1, i2⟩ := delManyLoop_congr q b keys h
      exact ⟨i1, by simp [eraseXOut, i2]⟩

-- ---------------------------------------------------------------- row ids

/-! Row ids are unique inside a bucket and below the state's counter. (Needed for one thing only:
re-saving the current row — `replaceRow bk (touch … r)`, done by conditional writes — touches no
other row.) -/

def ids (bk : Bucket) : List Nat := bk.rows.map (·.rowId)

def RowsOk (n : Nat) (bk : Bucket) : Prop := (ids bk).Nodup ∧ ∀ i ∈ ids bk, i < n

def WF (s : State) : Prop := ∀ bk ∈ s.buckets, RowsOk s.nextRow bk

theorem RowsOk.mono {n m : Nat} {bk : Bucket} (h : RowsOk n bk) (hnm : n ≤ m) : RowsOk m bk :=
  ⟨h.1, fun i hi => Nat.lt_of_lt_of_le (h.2 i hi) hnm⟩

theorem ids_replaceRow (bk : Bucket) (r : Row) : ids (replaceRow bk r) = ids bk := by
  simp only [ids, replaceRow, List.map_map]
  apply List.map_congr_left
  intro x _
  simp only [Function.comp]
  by_cases h : x.rowId = r.rowId <;> simp [h]

theorem ids_unlatest (q : Quirks) (n : Nat) (bk : Bucket) (r : Row) : ids (unlatest q n bk r) = ids bk :=
  ids_replaceRow bk _

theorem ids_addRow (bk : Bucket) (r : Row) : ids (addRow bk r) = ids bk ++ [r.rowId] := by
  simp [ids, addRow]

theorem ids_removeRow (bk : Bucket) (id : Nat) : ids (removeRow bk id) = (ids bk).filter (· != id) := by
  simp only [ids, removeRow, List.filter_map]
  rfl

theorem RowsOk.replaceRow {n : Nat} {bk : Bucket} (h : RowsOk n bk) (r : Row) : RowsOk n (replaceRow bk r) := by
  unfold RowsOk; rw [ids_replaceRow]; exact h

theorem RowsOk.removeRow {n : Nat} {bk : Bucket} (h : RowsOk n bk) (id : Nat) : RowsOk n (removeRow bk id) := by
  unfold RowsOk; rw [ids_removeRow]
  exact ⟨h.1.sublist List.filter_sublist, fun i hi => h.2 i (List.mem_filter.mp hi).1⟩

theorem RowsOk.addRow {n : Nat} {bk : Bucket} (h : RowsOk n bk) (r : Row) (hr : r.rowId = n) :
    RowsOk (n + 1) (addRow bk r) := by
  unfold RowsOk; rw [ids_addRow]
  refine ⟨?_, ?_⟩
  · refine List.nodup_append.mpr ⟨h.1, by simp, ?_⟩
    intro a ha b hb
    simp only [List.mem_singleton] at hb
    have := h.2 a ha
    omega
  · intro i hi
    rcases List.mem_append.mp hi with hi | hi
    · have := h.2 i hi; omega
    · simp only [List.mem_singleton] at hi; omega

theorem RowsOk.sameRows {n : Nat} {bk bk' : Bucket} (h : RowsOk n bk) (hr : bk'.rows = bk.rows) : RowsOk n bk' := by
  unfold RowsOk ids at *; rw [hr]; exact h

theorem mem_of_findBucket {s : State} {b : String} {bk : Bucket} (h : findBucket s b = some bk) : bk ∈ s.buckets :=
  List.mem_of_find?_eq_some h

theorem WF.setBucket {s : State} (h : WF s) {bk : Bucket} (hb : RowsOk s.nextRow bk) : WF (setBucket s bk) := by
  intro x hx
  simp only [S3.setBucket, List.mem_map] at hx
  obtain ⟨y, hy, rfl⟩ := hx
  split
  · exact hb
  · exact h y hy

theorem WF.bump {s : State} (h : WF s) (n : Nat) (hn : s.nextRow ≤ n) (s' : State)
    (hb : s'.buckets = s.buckets) (hr : s'.nextRow = n) : WF s' := by
  intro x hx
  rw [hb] at hx; rw [hr]
  exact (h x hx).mono hn


theorem WF.tick {s : State} (h : WF s) : WF (tick s) := h

/-- The shapes in which `S3.step` returns a changed state. -/
theorem WF.put {s : State} (h : WF s) {bk : Bucket} (n : Nat) (hn : s.nextRow ≤ n) (hb : RowsOk n bk)
    (s' : State) (hbk : s'.buckets = (S3.setBucket s bk).buckets) (hr : s'.nextRow = n) : WF s' := by
  intro x hx
  rw [hbk] at hx; rw [hr]
  simp only [S3.setBucket, List.mem_map] at hx
  obtain ⟨y, hy, rfl⟩ := hx
  split
  · exact hb
  · exact (h y hy).mono hn

theorem RowsOk.unlatestCur {n : Nat} {bk : Bucket} (h : RowsOk n bk) (q : Quirks) (now : Nat) (k : String) :
    RowsOk n (unlatestCur q now bk k) := by
  unfold S3.unlatestCur
  split
  · exact h.replaceRow _
  · exact h

theorem install_wf (q : Quirks) {s : State} (h : WF s) {bk : Bucket} (hb : RowsOk s.nextRow bk) (k : String)
    (n : NewObj) : WF (install q s bk k n).1 := by
  unfold install
  have hu := hb.unlatestCur q s.clock k
  dsimp only
  split
  · exact h.put (s.nextRow + 1) (Nat.le_succ _) (hu.addRow _ rfl) _ rfl rfl
  · split
    · exact h.put s.nextRow (Nat.le_refl _) (hu.replaceRow _) _ rfl rfl
    · exact h.put (s.nextRow + 1) (Nat.le_succ _) (hu.addRow _ rfl) _ rfl rfl

/-- A successful `putRow` installed the object into the bucket itself or into the bucket with its
current row re-saved (conditional writes), after the conditions held. -/
theorem putRow_ok_shape (q : Quirks) (s : State) (bk : Bucket) (k : String) (n : NewObj) (inm : Bool) (im : IfMatch)
    (r : State × Option Nat) (hr : putRow q s bk k n inm im = .ok r) :
    ∃ bk1, r = install q s bk1 k n ∧
      (bk1 = bk ∨ ∃ a, latestRow bk k = some a ∧ bk1 = replaceRow bk (touch q s.clock a)) := by
  unfold putRow at hr
  cases hl : latestRow bk k with
  | none =>
    simp only [hl] at hr
    split at hr
    · cases hr
    · split at hr
      · cases hr
      · split at hr
        · cases hr
        · injection hr with hr
          exact ⟨bk, hr.symm, Or.inl rfl⟩
  | some a =>
    simp only [hl] at hr
    split at hr
    · cases hr
    · split at hr
      · cases hr
      · by_cases hc : (inm || im != IfMatch.none) = true
        · simp only [hc, if_true] at hr
          split at hr
          · cases hr
          · injection hr with hr
            exact ⟨_, hr.symm, Or.inr ⟨a, rfl, rfl⟩⟩
        · have hc' : (inm || im != IfMatch.none) = false := by simpa using hc
          simp only [hc', Bool.false_eq_true, if_false] at hr
          split at hr
          · cases hr
          · injection hr with hr
            exact ⟨_, hr.symm, Or.inl rfl⟩

theorem putRow_wf (q : Quirks) {s : State} (h : WF s) {bk : Bucket} (hb : RowsOk s.nextRow bk) (k : String)
    (n : NewObj) (inm : Bool) (im : IfMatch) (r : State × Option Nat)
    (hr : putRow q s bk k n inm im = .ok r) : WF r.1 := by
  obtain ⟨bk1, rfl, hbk1⟩ := putRow_ok_shape q s bk k n inm im r hr
  apply install_wf q h
  rcases hbk1 with rfl | ⟨a, _, rfl⟩
  · exact hb
  · exact hb.replaceRow _

theorem unpack_wf {s : State} (h : WF s) (f : Option Nat → Out) (x : Except Err (State × Option Nat))
    (hx : ∀ r, x = .ok r → WF r.1) : WF (unpack s f x).1 := by
  cases x with
  | error e => exact h
  | ok r => exact hx r rfl

theorem withB_wf {s : State} (h : WF s) (b : String) (f : Bucket → State × Out)
    (hf : ∀ bk ∈ s.buckets, WF (f bk).1) : WF (withB s b f).1 := by
  unfold withB
  cases hfb : findBucket s b with
  | none => exact h
  | some bk => exact hf bk (mem_of_findBucket hfb)


theorem RowsOk.delBk1 {n : Nat} {bk : Bucket} (h : RowsOk n bk) (k : String) : RowsOk n (delBk1 bk k) := by
  unfold Replication.delBk1
  split
  · split
    · exact h.removeRow _
    · exact h
  · exact h

theorem RowsOk.delBk2 {n : Nat} {bk bk1 : Bucket} (h1 : RowsOk n bk1) (q : Quirks) (now : Nat) (k : String) :
    RowsOk n (delBk2 q now bk bk1 k) := by
  unfold Replication.delBk2
  split
  · split
    · exact h1.replaceRow _
    · exact h1
  · exact h1

/-- "The state component is well-formed." -/
def WFP (x : State × Out) : Prop := WF x.1

theorem WFP.ite {c : Bool} {a b : State × Out} (ha : WFP a) (hb : WFP b) : WFP (if c = true then a else b) := by
  cases c <;> simpa

theorem delNone_wf (q : Quirks) {s : State} (h : WF s) {bk : Bucket} (hb : RowsOk s.nextRow bk) (k : String)
    (im : IfMatch) : WFP (delNone q s bk k im) := by
  unfold delNone
  refine WFP.ite (WFP.ite h h) (WFP.ite h (WFP.ite ?_ ?_))
  · exact h.put (s.nextRow + 1) (Nat.le_succ _) (((hb.delBk1 k).delBk2 q s.clock k).addRow _ rfl) _ rfl rfl
  · cases latestRow bk k with
    | none => exact h
    | some r => exact h.put s.nextRow (Nat.le_refl _) (hb.removeRow _) _ rfl rfl

theorem appendOn_wf (q : Quirks) {s : State} (h : WF s) {bk : Bucket} (hb : RowsOk s.nextRow bk) (k : String)
    (body : Bytes) (off : Option Nat) : WFP (appendOn q s bk k body off) := by
  unfold appendOn appendOffOk appendBody
  cases latestRow bk k with
  | none =>
    dsimp only
    cases hq : q.appendLatestInPlace <;>
      simp only [Bool.false_eq_true, if_false, if_true] <;>
      repeat' (first
        | exact h
        | exact unpack_wf h _ _ fun r hr => putRow_wf q h hb k _ _ _ r hr
        | exact h.put s.nextRow (Nat.le_refl _) (hb.replaceRow _) _ rfl rfl
        | exact h.put (s.nextRow + 1) (Nat.le_succ _) (hb.addRow _ rfl) _ rfl rfl
        | apply WFP.ite)
  | some a =>
    cases a with
    | mk rowId key vid dm latest created updated wrote parts etag ct md tags cls seqBase =>
    cases dm <;> cases hq : q.appendLatestInPlace <;> cases vid <;>
      simp only [Bool.false_eq_true, if_false, if_true, Option.isNone_none, Option.isNone_some] <;>
      repeat' (first
        | exact h
        | exact unpack_wf h _ _ fun r hr => putRow_wf q h hb k _ _ _ r hr
        | exact h.put s.nextRow (Nat.le_refl _) (hb.replaceRow _) _ rfl rfl
        | exact h.put (s.nextRow + 1) (Nat.le_succ _) (hb.addRow _ rfl) _ rfl rfl
        | apply WFP.ite)

theorem WF.putSameRows {s : State} (h : WF s) {bk bk' : Bucket} (hbk : bk ∈ s.buckets)
    (s' : State) (hb : s'.buckets = (S3.setBucket s bk').buckets) (hn : s'.nextRow = s.nextRow)
    (hr : bk'.rows = bk.rows) : WF s' :=
  h.put s.nextRow (Nat.le_refl _) ((h bk hbk).sameRows hr) s' hb hn

theorem resolve_any_wf {s : State} (h : WF s) (f : Row → State × Out)
    (hf : ∀ r, WF (f r).1) (x : Except Err Row) :
    WF (match x with | .error e => (s, Out.err e) | .ok r => f r).1 := by
  cases x with
  | error e => exact h
  | ok r => exact hf r

/-- Every call that names no version id keeps row ids unique and below the counter. -/
theorem step_wf (q : Quirks) {s : State} (h : WF s) (op : Op) (hv : opNamesVersion op = false) :
    WF (step q s op).1 := by
  have ht : WF (tick s) := h
  cases op with
  | mkb b =>
    rw [step_mkb_eq]
    split
    · exact ht
    · intro x hx
      rcases List.mem_append.mp hx with hx | hx
      · exact ht x hx
      · simp only [List.mem_singleton] at hx
        subst hx
        exact ⟨by simp [ids], by simp [ids]⟩
  | rmb b =>
    rw [step_rmb_eq]
    refine withB_wf ht b _ fun bk hbk => ?_
    split
    · exact ht
    · intro x hx
      exact ht x (List.mem_filter.mp hx).1
  | setVer b v =>
    rw [step_setVer_eq]
    exact withB_wf ht b _ fun bk hbk => ht.putSameRows hbk _ rfl rfl rfl
  | put b k body o inm im =>
    rw [step_put_eq]
    exact withB_wf ht b _ fun bk hbk => unpack_wf ht _ _ fun r hr => putRow_wf q ht (ht bk hbk) k _ _ _ r hr
  | get b k vid =>
    rw [step_get_eq]
    exact withB_wf ht b _ fun bk hbk => by split <;> exact ht
  | head b k vid =>
    rw [step_head_eq]
    exact withB_wf ht b _ fun bk hbk => by split <;> exact ht
  | del b k vid im =>
    cases vid with
    | some v => simp [opNamesVersion] at hv
    | none =>
      rw [step_del_eq]
      exact withB_wf ht b _ fun bk hbk => by rw [deleteOp_none_eq]; exact delNone_wf q ht (ht bk hbk) k im
  | copy sb sk svid db dk rm rt o =>
    rw [step_copy_eq]
    split
    · exact ht
    · split
      · exact ht
      · exact withB_wf ht db _ fun bk hbk => unpack_wf ht _ _ fun r hr => putRow_wf q ht (ht bk hbk) dk _ _ _ r hr
  | append b k body off =>
    rw [step_append_eq]
    exact withB_wf ht b _ fun bk hbk => appendOn_wf q ht (ht bk hbk) k body off
  | mpu b k o =>
    rw [step_mpu_eq]
    exact withB_wf ht b _ fun bk hbk => ht.putSameRows hbk _ rfl rfl rfl
  | uploadPart b k uid n body =>
    rw [step_uploadPart_eq]
    refine withB_wf ht b _ fun bk hbk => ?_
    split
    · exact ht
    · exact ht.putSameRows hbk _ rfl rfl rfl
  | complete b k uid declared inm im =>
    rw [step_complete_eq]
    refine withB_wf ht b _ fun bk hbk => ?_
    split
    · exact ht
    · split
      · exact ht
      · split
        · exact ht
        · exact unpack_wf ht _ _ fun r hr => putRow_wf q ht (bk := { bk with uploads := bk.uploads.filter (·.uid != uid) })
            ((ht bk hbk).sameRows rfl) k _ _ _ r hr
  | abort b k uid =>
    rw [step_abort_eq]
    refine withB_wf ht b _ fun bk hbk => ?_
    split
    · exact ht
    · exact ht.putSameRows hbk _ rfl rfl rfl
  | getTags b k vid =>
    rw [step_getTags_eq]
    exact withB_wf ht b _ fun bk hbk => by split <;> exact ht
  | putTags b k vid tags =>
    rw [step_putTags_eq]
    refine withB_wf ht b _ fun bk hbk => ?_
    split
    · exact ht
    · exact ht.put _ (Nat.le_refl _) ((ht bk hbk).replaceRow _) _ rfl rfl
  | delTags b k vid =>
    rw [step_delTags_eq]
    refine withB_wf ht b _ fun bk hbk => ?_
    split
    · exact ht
    · exact ht.put _ (Nat.le_refl _) ((ht bk hbk).replaceRow _) _ rfl rfl
  | transition b k cls vid =>
    rw [step_transition_eq]
    refine withB_wf ht b _ fun bk hbk => ?_
    split
    · exact ht
    · split
      · exact ht
      · exact ht.put _ (Nat.le_refl _) ((ht bk hbk).replaceRow _) _ rfl rfl
  | list b =>
    rw [step_list_eq]
    exact withB_wf ht b _ fun bk hbk => ht
  | listVersions b =>
    rw [step_listVersions_eq]
    exact withB_wf ht b _ fun bk hbk => ht
  | listBuckets => exact ht

-- ---------------------------------------------------------------- what replication forwards

theorem delManyLoop_wf (q : Quirks) (b : String) (keys : List String) {s : State} (h : WF s) :
    WF (delManyLoop q b s keys).1 := by
  induction keys generalizing s with
  | nil => exact h
  | cons k ks ih => exact ih (step_wf q h (.del b k none .none) rfl)

theorem nodup_map_inj {α β : Type} (f : α → β) : ∀ (l : List α), (l.map f).Nodup → ∀ x ∈ l, ∀ y ∈ l, f x = f y → x = y
  | [], _, _, hx, _, _, _ => by simp at hx
  | a :: l, hn, x, hx, y, hy, hxy => by
    simp only [List.map_cons, List.nodup_cons, List.mem_map, not_exists, not_and] at hn
    rcases List.mem_cons.mp hx with rfl | hx' <;> rcases List.mem_cons.mp hy with rfl | hy'
    · rfl
    · exact absurd hxy.symm (hn.1 y hy')
    · exact absurd hxy (hn.1 x hx')
    · exact nodup_map_inj f l hn.2 x hx' y hy' hxy

theorem xstep_wf (q : Quirks) {s : State} (h : WF s) (op : XOp) (hv : op.namesVersion = false) :
    WF (xstep q s op).1 := by
  cases op with
  | base op => exact step_wf q h op hv
  | partCopy sb sk svid db dk uid n range =>
    simp only [xstep]
    split
    · exact h
    · split
      · exact h
      · exact step_wf q h _ rfl
  | delMany b keys =>
    simp only [xstep]
    split
    · exact h
    · exact delManyLoop_wf q b keys h

/-- With unique row ids, re-saving the current row of a key touches no other row. -/
theorem replaceRow_touch_beqv (q : Quirks) (n : Nat) {bk : Bucket} (hn : (ids bk).Nodup) {k : String} {a : Row}
    (ha : latestRow bk k = some a) : BEqv (replaceRow bk (touch q n a)) bk := by
  have hmem : a ∈ bk.rows := List.mem_of_find?_eq_some ha
  refine BEqv.of_fields ⟨rfl, rfl, ?_, rfl⟩
  simp only [replaceRow, List.map_map]
  apply List.map_congr_left
  intro x hx
  simp only [Function.comp]
  by_cases hc : x.rowId = (touch q n a).rowId
  · have hxa : x = a := by
      have hid : x.rowId = a.rowId := by simpa [touch] using hc
      exact nodup_map_inj _ _ hn x hx a hmem hid
    subst hxa
    split <;> simp [eraseRow_touch]
  · simp [hc]


theorem putRow_unconditional (q : Quirks) (s : State) (bk : Bucket) (k : String) (n : NewObj) :
    putRow q s bk k n false .none = .ok (install q s bk k n) := by
  unfold putRow
  cases latestRow bk k <;> simp [ifMatchOk]

/-- Dropping the conditions of a conditional write that succeeded changes nothing but timestamps. -/
theorem putRow_drop (q : Quirks) {s : State} {bk : Bucket} (hn : (ids bk).Nodup) (k : String) (n : NewObj)
    (inm : Bool) (im : IfMatch) (r : State × Option Nat) (hr : putRow q s bk k n inm im = .ok r) :
    ExRel (putRow q s bk k n false .none) (putRow q s bk k n inm im) := by
  rw [hr, putRow_unconditional]
  obtain ⟨bk1, rfl, hbk1⟩ := putRow_ok_shape q s bk k n inm im r hr
  rcases hbk1 with rfl | ⟨a, ha, rfl⟩
  · exact ExRel.of_install ⟨Equiv.refl _, rfl⟩
  · exact ExRel.of_install
      (install_congr q (Equiv.refl s) (show BEqv bk _ from (replaceRow_touch_beqv q s.clock hn ha).symm) k (NEqv.refl n))

def isErrOut : Out → Bool
  | .err _ => true
  | _ => false

theorem PRel.refl (x : State × Out) : PRel x x := ⟨rfl, rfl⟩

theorem unpack_drop {s : State} {f : Option Nat → Out} (_hf : ∀ v, isErrOut (f v) = false)
    {x y : Except Err (State × Option Nat)} (hxy : ∀ r, y = .ok r → ExRel x y)
    (hok : isErrOut (unpack s f y).2 = false) : PRel (unpack s f x) (unpack s f y) := by
  cases y with
  | error e => simp [unpack, isErrOut] at hok
  | ok r => exact PRel.of_exrel (hxy r rfl) (Equiv.refl s) f

theorem withB_drop {s : State} (b : String) {f g : Bucket → State × Out}
    (hfg : ∀ bk ∈ s.buckets, isErrOut (g bk).2 = false → PRel (f bk) (g bk))
    (hok : isErrOut (withB s b g).2 = false) : PRel (withB s b f) (withB s b g) := by
  unfold withB at hok ⊢
  cases hfb : findBucket s b with
  | none => exact PRel.refl _
  | some bk => rw [hfb] at hok; exact hfg bk (mem_of_findBucket hfb) hok

theorem declaredErr_partsOnly (u : Upload) (declared : Option (List Nat)) :
    declaredErr u (partsOnly declared) = declaredErr u declared := by
  cases declared with
  | none => rfl
  | some ds => cases ds <;> rfl

theorem appendOn_drop_offset (q : Quirks) (s : State) (bk : Bucket) (k : String) (body : Bytes) (off : Option Nat)
    (hok : isErrOut (appendOn q s bk k body off).2 = false) :
    appendOn q s bk k body none = appendOn q s bk k body off := by
  have hnone : appendOffOk bk k none = true := rfl
  unfold appendOn at hok ⊢
  rw [hnone]
  cases h : appendOffOk bk k off
  · rw [h] at hok; simp [isErrOut] at hok
  · rfl

/-- What replication forwards has, on the state where the original call succeeded, the effect of
the original call (up to timestamps): dropped conditions had held, a dropped offset had matched. -/
theorem fwdBase_same_effect (q : Quirks) {s : State} (hwf : WF s) (op : Op) (u : Nat)
    (hu : uidOfBase op = none ∨ uidOfBase op = some u)
    (hok : isErrOut (step q s op).2 = false) : PRel (step q s (fwdBase u op)) (step q s op) := by
  have ht : WF (tick s) := hwf
  cases op with
  | put b k body o inm im =>
    simp only [fwdBase]
    rw [step_put_eq, step_put_eq] at *
    refine withB_drop b (fun bk hbk hok' => ?_) hok
    exact unpack_drop (fun _ => rfl) (fun r hr => putRow_drop q (ht bk hbk).1 k _ inm im r hr) hok'
  | append b k body off =>
    simp only [fwdBase]
    rw [step_append_eq, step_append_eq] at *
    refine withB_drop b (fun bk hbk hok' => ?_) hok
    rw [appendOn_drop_offset q _ bk k body off hok']
    exact PRel.refl _
  | complete b k uid declared inm im =>
    have huid : u = uid := by rcases hu with h | h <;> simp [uidOfBase] at h; exact h.symm
    subst huid
    simp only [fwdBase]
    rw [step_complete_eq, step_complete_eq] at *
    refine withB_drop b (fun bk hbk hok' => ?_) hok
    simp only [declaredErr_partsOnly]
    cases hfu : bk.uploads.find? (fun x => x.uid == u && x.key == k) with
    | none => exact PRel.refl _
    | some up =>
      rw [hfu] at hok'
      dsimp only at hok' ⊢
      by_cases hc : (!contiguousFrom 1 up.parts) = true
      · simp only [hc, if_true]; exact PRel.refl _
      · simp only [hc] at hok' ⊢
        cases hde : declaredErr up declared with
        | some e => exact PRel.refl _
        | none =>
          rw [hde] at hok'
          dsimp only at hok' ⊢
          exact unpack_drop (fun _ => rfl)
            (fun r hr => putRow_drop q (by exact (ht bk hbk).1) k _ inm im r hr) hok'
  | uploadPart b k uid n body =>
    have huid : u = uid := by rcases hu with h | h <;> simp [uidOfBase] at h; exact h.symm
    subst huid; exact PRel.refl _
  | abort b k uid =>
    have huid : u = uid := by rcases hu with h | h <;> simp [uidOfBase] at h; exact h.symm
    subst huid; exact PRel.refl _
  | mkb b => exact PRel.refl _
  | rmb b => exact PRel.refl _
  | setVer b v => exact PRel.refl _
  | get b k vid => exact PRel.refl _
  | head b k vid => exact PRel.refl _
  | del b k vid im => exact PRel.refl _
  | copy sb sk svid db dk rm rt o => exact PRel.refl _
  | mpu b k o => exact PRel.refl _
  | getTags b k vid => exact PRel.refl _
  | putTags b k vid tags => exact PRel.refl _
  | delTags b k vid => exact PRel.refl _
  | transition b k cls vid => exact PRel.refl _
  | list b => exact PRel.refl _
  | listVersions b => exact PRel.refl _
  | listBuckets => exact PRel.refl _

-- ---------------------------------------------------------------- frames

/-! A call that answers with an error leaves the state as it was (only the logical clock ticked). -/

/-- "If the answer is an error, the state is `s`." -/
def EF (s : State) (x : State × Out) : Prop := isErrOut x.2 = true → x.1 = s

theorem EF.err (s : State) (e : Err) : EF s (s, .err e) := fun _ => rfl
theorem EF.ite {s : State} {c : Bool} {a b : State × Out} (ha : EF s a) (hb : EF s b) :
    EF s (if c = true then a else b) := by cases c <;> simpa

theorem EF.withB {s : State} (b : String) {f : Bucket → State × Out} (hf : ∀ bk, EF s (f bk)) : EF s (withB s b f) := by
  unfold Replication.withB
  cases findBucket s b with
  | none => exact EF.err s _
  | some bk => exact hf bk

theorem EF.unpack {s : State} {f : Option Nat → Out} (hf : ∀ v, isErrOut (f v) = false)
    (x : Except Err (State × Option Nat)) : EF s (unpack s f x) := by
  cases x with
  | error e => exact EF.err s e
  | ok r => intro h; simp [Replication.unpack, hf] at h

theorem delNone_ef (q : Quirks) (s : State) (bk : Bucket) (k : String) (im : IfMatch) : EF s (delNone q s bk k im) := by
  unfold delNone
  refine EF.ite (EF.ite (EF.err s _) ?_) (EF.ite (EF.err s _) (EF.ite ?_ ?_))
  · intro h; simp [isErrOut] at h
  · intro h; simp [isErrOut] at h
  · cases latestRow bk k <;> (intro h; simp [isErrOut] at h)

theorem appendOn_ef (q : Quirks) (s : State) (bk : Bucket) (k : String) (body : Bytes) (off : Option Nat) :
    EF s (appendOn q s bk k body off) := by
  unfold appendOn appendBody
  refine EF.ite (EF.err s _) ?_
  cases latestRow bk k with
  | none =>
    dsimp only
    cases hq : q.appendLatestInPlace <;>
      simp only [Bool.false_eq_true, if_false, if_true] <;>
      repeat' (first
        | exact EF.err s _
        | exact EF.unpack (fun _ => rfl) _
        | (intro h; simp [isErrOut] at h; done)
        | apply EF.ite)
  | some a =>
    cases a with
    | mk rowId key vid dm latest created updated wrote parts etag ct md tags cls seqBase =>
    cases dm <;> cases hq : q.appendLatestInPlace <;> cases vid <;>
      simp only [Bool.false_eq_true, if_false, if_true, Option.isNone_none, Option.isNone_some] <;>
      repeat' (first
        | exact EF.err s _
        | exact EF.unpack (fun _ => rfl) _
        | (intro h; simp [isErrOut] at h; done)
        | apply EF.ite)

theorem EF.res {s : State} (f : Row → State × Out) (hf : ∀ r, EF s (f r)) (x : Except Err Row) :
    EF s (match x with | .error e => (s, Out.err e) | .ok r => f r) := by
  cases x with
  | error e => exact EF.err s e
  | ok r => exact hf r

/-- **A failed call changes nothing but the clock** (calls that name no version id). -/
theorem step_error_frame (q : Quirks) (s : State) (op : Op) (hv : opNamesVersion op = false) :
    EF (tick s) (step q s op) := by
  cases op with
  | mkb b => rw [step_mkb_eq]; exact EF.ite (EF.err _ _) (fun h => by simp [isErrOut] at h)
  | rmb b =>
    rw [step_rmb_eq]
    exact EF.withB b fun bk => EF.ite (EF.err _ _) (fun h => by simp [isErrOut] at h)
  | setVer b v => rw [step_setVer_eq]; exact EF.withB b fun bk h => by simp [isErrOut] at h
  | put b k body o inm im => rw [step_put_eq]; exact EF.withB b fun bk => EF.unpack (fun _ => rfl) _
  | get b k vid =>
    rw [step_get_eq]
    exact EF.withB b fun bk => by cases resolve bk k vid <;> (intro _; rfl)
  | head b k vid =>
    rw [step_head_eq]
    exact EF.withB b fun bk => by cases resolve bk k vid <;> (intro _; rfl)
  | del b k vid im =>
    cases vid with
    | some v => simp [opNamesVersion] at hv
    | none => rw [step_del_eq]; exact EF.withB b fun bk => by rw [deleteOp_none_eq]; exact delNone_ef q _ bk k im
  | copy sb sk svid db dk rm rt o =>
    rw [step_copy_eq]
    cases findBucket (tick s) sb with
    | none => exact EF.err _ _
    | some sbk =>
      dsimp only
      cases resolve sbk sk svid with
      | error e => exact EF.err _ _
      | ok src => exact EF.withB db fun bk => EF.unpack (fun _ => rfl) _
  | append b k body off => rw [step_append_eq]; exact EF.withB b fun bk => appendOn_ef q _ bk k body off
  | mpu b k o => rw [step_mpu_eq]; exact EF.withB b fun bk h => by simp [isErrOut] at h
  | uploadPart b k uid n body =>
    rw [step_uploadPart_eq]
    exact EF.withB b fun bk => by
      cases bk.uploads.find? (fun u => u.uid == uid && u.key == k) with
      | none => exact EF.err _ _
      | some u => intro h; simp [isErrOut] at h
  | complete b k uid declared inm im =>
    rw [step_complete_eq]
    exact EF.withB b fun bk => by
      cases bk.uploads.find? (fun u => u.uid == uid && u.key == k) with
      | none => exact EF.err _ _
      | some u =>
        dsimp only
        refine EF.ite (EF.err _ _) ?_
        cases declaredErr u declared with
        | some e => exact EF.err _ _
        | none => exact EF.unpack (fun _ => rfl) _
  | abort b k uid =>
    rw [step_abort_eq]
    exact EF.withB b fun bk => by
      cases bk.uploads.find? (fun u => u.uid == uid && u.key == k) with
      | none => exact EF.err _ _
      | some u => intro h; simp [isErrOut] at h
  | getTags b k vid =>
    rw [step_getTags_eq]
    exact EF.withB b fun bk => by cases resolve bk k vid <;> (intro _; rfl)
  | putTags b k vid tags =>
    rw [step_putTags_eq]
    exact EF.withB b fun bk => EF.res _ (fun r h => by simp [isErrOut] at h) _
  | delTags b k vid =>
    rw [step_delTags_eq]
    exact EF.withB b fun bk => EF.res _ (fun r h => by simp [isErrOut] at h) _
  | transition b k cls vid =>
    cases vid with
    | some v => simp [opNamesVersion] at hv
    | none =>
      rw [step_transition_eq]
      exact EF.withB b fun bk => by
        dsimp only
        cases latestRow bk k with
        | none => exact EF.err _ _
        | some r => exact EF.ite (EF.err _ _) (fun h => by simp [isErrOut] at h)
  | list b => rw [step_list_eq]; exact EF.withB b fun bk _ => rfl
  | listVersions b => rw [step_listVersions_eq]; exact EF.withB b fun bk _ => rfl
  | listBuckets => intro _; rfl

/-- Reads (the calls replication does not forward) leave the state as it was. -/
theorem step_read_frame (q : Quirks) (s : State) (op : Op) (hf : forwardedBase op = false) :
    (step q s op).1 = tick s := by
  cases op with
  | get b k vid =>
    rw [step_get_eq]; unfold withB
    cases findBucket (tick s) b with
    | none => rfl
    | some bk => dsimp only; cases resolve bk k vid <;> rfl
  | head b k vid =>
    rw [step_head_eq]; unfold withB
    cases findBucket (tick s) b with
    | none => rfl
    | some bk => dsimp only; cases resolve bk k vid <;> rfl
  | getTags b k vid =>
    rw [step_getTags_eq]; unfold withB
    cases findBucket (tick s) b with
    | none => rfl
    | some bk => dsimp only; cases resolve bk k vid <;> rfl
  | list b => rw [step_list_eq]; unfold withB; cases findBucket (tick s) b <;> rfl
  | listVersions b => rw [step_listVersions_eq]; unfold withB; cases findBucket (tick s) b <;> rfl
  | listBuckets => rfl
  | mkb b => simp [forwardedBase] at hf
  | rmb b => simp [forwardedBase] at hf
  | setVer b v => simp [forwardedBase] at hf
  | put b k body o inm im => simp [forwardedBase] at hf
  | del b k vid im => simp [forwardedBase] at hf
  | copy sb sk svid db dk rm rt o => simp [forwardedBase] at hf
  | append b k body off => simp [forwardedBase] at hf
  | mpu b k o => simp [forwardedBase] at hf
  | uploadPart b k uid n body => simp [forwardedBase] at hf
  | complete b k uid declared inm im => simp [forwardedBase] at hf
  | abort b k uid => simp [forwardedBase] at hf
  | putTags b k vid tags => simp [forwardedBase] at hf
  | delTags b k vid => simp [forwardedBase] at hf
  | transition b k cls vid => simp [forwardedBase] at hf

-- ---------------------------------------------------------------- forwarding to all secondaries

theorem isErr_base (o : Out) : (XOut.base o).isErr = isErrOut o := by cases o <;> rfl

theorem isErr_erase (x : XOut) : (eraseXOut x).isErr = x.isErr := by
  cases x with
  | base o => cases o <;> rfl
  | many l => rfl

theorem uploadUid_erase (x : XOut) : uploadUid (eraseXOut x) = uploadUid x := by
  cases x with
  | base o => cases o <;> rfl
  | many l => rfl

theorem XRel.refl (x : State × XOut) : XRel x x := ⟨rfl, rfl⟩
theorem XRel.trans {x y z : State × XOut} (h : XRel x y) (h' : XRel y z) : XRel x z :=
  ⟨h.1.trans h'.1, h.2.trans h'.2⟩
theorem XRel.symm {x y : State × XOut} (h : XRel x y) : XRel y x := ⟨h.1.symm, h.2.symm⟩

/-- A failed call changes nothing but the clock; a call replication does not forward neither. -/
theorem xstep_error_frame (q : Quirks) (s : State) (op : XOp) (hv : op.namesVersion = false)
    (he : (xstep q s op).2.isErr = true) : Equiv (xstep q s op).1 s := by
  cases op with
  | base op =>
    have := step_error_frame q s op hv (by simpa [xstep, isErr_base] using he)
    simp only [xstep]; rw [this]; exact equiv_tick s
  | partCopy sb sk svid db dk uid n range =>
    simp only [xstep] at he ⊢
    generalize readSource s sb sk svid = x at he ⊢
    cases x with
    | error e => exact equiv_tick s
    | ok r =>
      dsimp only at he ⊢
      generalize sliceOf r.content range = y at he ⊢
      cases y with
      | error e => exact equiv_tick s
      | ok body =>
        dsimp only at he ⊢
        have := step_error_frame q s (.uploadPart db dk uid n body) rfl (by simpa [isErr_base] using he)
        rw [this]; exact equiv_tick s
  | delMany b keys =>
    simp only [xstep] at he ⊢
    generalize findBucket s b = x at he ⊢
    cases x with
    | none => exact equiv_tick s
    | some bk => simp [XOut.isErr] at he

theorem xstep_read_frame (q : Quirks) (s : State) (op : XOp) (hf : forwarded op = false) :
    Equiv (xstep q s op).1 s := by
  cases op with
  | base op => simp only [xstep]; rw [step_read_frame q s op hf]; exact equiv_tick s
  | partCopy sb sk svid db dk uid n range => simp [forwarded] at hf
  | delMany b keys => simp [forwarded] at hf

theorem namesVersion_fwd (u : Nat) (op : XOp) : (fwd u op).namesVersion = op.namesVersion := by
  cases op with
  | base op => cases op <;> rfl
  | partCopy sb sk svid db dk uid n range => rfl
  | delMany b keys => rfl

theorem fwd_same_effect (q : Quirks) {s : State} (hwf : WF s) (op : XOp) (u : Nat)
    (hu : uidOf op = none ∨ uidOf op = some u) (hok : (xstep q s op).2.isErr = false) :
    XRel (xstep q s (fwd u op)) (xstep q s op) := by
  cases op with
  | base op =>
    exact XRel.of_prel (fwdBase_same_effect q hwf op u hu (by simpa [xstep, isErr_base] using hok))
  | partCopy sb sk svid db dk uid n range =>
    have huid : u = uid := by rcases hu with h | h <;> simp [uidOf] at h; exact h.symm
    subst huid; exact XRel.refl _
  | delMany b keys => exact XRel.refl _

/-- **One secondary, one forwarded call.** The primary `p` (row ids unique) and a secondary `t`
agree up to timestamps; `op` names no version id and succeeded on the primary. Then the call
replication forwards — conditions and offset dropped, the secondary's own upload id (which in the
model is the primary's: ids are creation ordinals) — takes the secondary to a state that agrees
with the primary's new state, with the same answer. -/
theorem forward_one (q : Quirks) {p t : State} (hwf : WF p) (h : Equiv p t) (op : XOp) (u : Nat)
    (hv : op.namesVersion = false) (hu : uidOf op = none ∨ uidOf op = some u)
    (hok : (xstep q p op).2.isErr = false) : XRel (xstep q t (fwd u op)) (xstep q p op) :=
  (xstep_respects_equiv q h.symm (fwd u op) (by rw [namesVersion_fwd]; exact hv)).trans
    (fwd_same_effect q hwf op u hu hok)

theorem forwardAll_spec (q : Quirks) {p : State} (hwf : WF p) (op : XOp) (u : Nat)
    (hv : op.namesVersion = false) (hu : uidOf op = none ∨ uidOf op = some u)
    (hok : (xstep q p op).2.isErr = false) (needUid : Bool) :
    ∀ (secs : List State) (us : List Nat),
      (∀ t ∈ secs, Equiv p t) →
      (∀ i, i < secs.length → (us.drop i).headD 0 = u) →
      (needUid = true → secs.length ≤ us.length) →
      (forwardAll q op needUid secs us).2.2 = false ∧
      (forwardAll q op needUid secs us).1.length = secs.length ∧
      (forwardAll q op needUid secs us).2.1.length = secs.length ∧
      (∀ t' ∈ (forwardAll q op needUid secs us).1, Equiv (xstep q p op).1 t') ∧
      (∀ o ∈ (forwardAll q op needUid secs us).2.1, eraseXOut o = eraseXOut (xstep q p op).2)
  | [], us, _, _, _ => by simp [forwardAll]
  | t :: rest, us, hsecs, hus, hlen => by
    have hne : (needUid && us.isEmpty) = false := by
      cases needUid with
      | false => rfl
      | true =>
        have := hlen rfl
        cases us with
        | nil => simp at this
        | cons a l => rfl
    have hhead : us.headD 0 = u := by simpa using hus 0 (by simp)
    have h1 := forward_one q hwf (hsecs t (List.mem_cons_self ..)) op u hv hu hok
    have herr : (xstep q t (fwd u op)).2.isErr = false := by
      rw [← isErr_erase, h1.2, isErr_erase]; exact hok
    have ih := forwardAll_spec q hwf op u hv hu hok needUid rest us.tail
      (fun t' ht' => hsecs t' (List.mem_cons_of_mem _ ht'))
      (fun i hi => by
        have := hus (i + 1) (by simp; omega)
        rw [← this]; cases us <;> simp)
      (fun hn => by have := hlen hn; cases us <;> simp at this ⊢; omega)
    simp only [forwardAll, hne, Bool.false_eq_true, if_false, hhead, herr]
    obtain ⟨i1, i2, i3, i4, i5⟩ := ih
    refine ⟨i1, by simp [i2], by simp [i3], ?_, ?_⟩
    · intro t' ht'
      rcases List.mem_cons.mp ht' with rfl | ht'
      · exact h1.1.symm
      · exact i4 t' ht'
    · intro o ho
      rcases List.mem_cons.mp ho with rfl | ho
      · exact h1.2
      · exact i5 o ho

-- ---------------------------------------------------------------- the replication storage

/-- The invariant of the replication storage's state. -/
structure Inv (rs : RState) : Prop where
  wf : WF rs.primary
  conv : Converged rs
  ids : ∀ u l, (u, l) ∈ rs.umap → l = List.replicate rs.secs.length u

theorem rstep_skip (q : Quirks) (rs : RState) (op : XOp)
    (hc : ((xstep q rs.primary op).2.isErr || !forwarded op) = true) :
    rstep q rs op = ({ rs with primary := (xstep q rs.primary op).1 },
                     { out := (xstep q rs.primary op).2, primary := (xstep q rs.primary op).2 }) := by
  unfold rstep
  simp only [hc, if_true]

/-- The upload ids handed to `forwardAll`. -/
def usOf (rs : RState) (op : XOp) : List Nat :=
  match uidOf op with
  | none => []
  | some u => (rs.umap.lookup u).getD []

theorem rstep_forward (q : Quirks) (rs : RState) (op : XOp)
    (hc : ((xstep q rs.primary op).2.isErr || !forwarded op) = false) :
    let po := (xstep q rs.primary op).2
    let fw := forwardAll q op (uidOf op).isSome rs.secs (usOf rs op)
    let failed := fw.2.1.find? (·.isErr)
    let done := failed.isNone && !fw.2.2
    rstep q rs op =
      ({ primary := (xstep q rs.primary op).1, secs := fw.1,
         umap := if !done then rs.umap
                 else if isMpu op then
                   match uploadUid po with
                   | some pu => (pu, fw.2.1.filterMap uploadUid) :: rs.umap.filter (·.1 != pu)
                   | none => rs.umap
                 else if endsUpload op then
                   match uidOf op with
                   | some u => rs.umap.filter (·.1 != u)
                   | none => rs.umap
                 else rs.umap },
       { out := failed.getD po, primary := po, secs := fw.2.1, mapMiss := fw.2.2 }) := by
  intro po fw failed done
  unfold rstep
  simp only [hc, Bool.false_eq_true, if_false]
  rfl


theorem lookup_mem {α : Type} (u : Nat) (l : List (Nat × α)) (v : α) (h : l.lookup u = some v) : (u, v) ∈ l := by
  induction l with
  | nil => simp at h
  | cons x xs ih =>
    obtain ⟨a, b⟩ := x
    simp only [List.lookup_cons] at h
    by_cases hua : u == a
    · simp only [hua] at h
      have : u = a := by simpa using hua
      cases h; subst this
      exact List.mem_cons_self ..
    · simp only [hua] at h
      exact List.mem_cons_of_mem _ (ih h)

theorem drop_replicate_headD (n i u : Nat) (hi : i < n) : ((List.replicate n u).drop i).headD 0 = u := by
  rw [List.drop_replicate]
  have : n - i = (n - i - 1) + 1 := by omega
  rw [this, List.replicate_succ]; rfl

theorem find_isErr_none (outs : List XOut) (x : XOut) (hx : x.isErr = false)
    (h : ∀ o ∈ outs, eraseXOut o = eraseXOut x) : outs.find? (·.isErr) = none := by
  apply List.find?_eq_none.mpr
  intro o ho
  have : o.isErr = false := by rw [← isErr_erase, h o ho, isErr_erase]; exact hx
  simp [this]

theorem filterMap_uploadUid (outs : List XOut) (x : XOut) (pu : Nat) (hx : uploadUid x = some pu)
    (h : ∀ o ∈ outs, eraseXOut o = eraseXOut x) : outs.filterMap uploadUid = List.replicate outs.length pu := by
  induction outs with
  | nil => rfl
  | cons o os ih =>
    have ho : uploadUid o = some pu := by
      rw [← uploadUid_erase, h o (List.mem_cons_self ..), uploadUid_erase]; exact hx
    simp [ho, List.replicate_succ, ih (fun o' ho' => h o' (List.mem_cons_of_mem _ ho'))]

/-- `rstep` keeps the invariant, for every call that names no version id, unless the id map
lookup misses (which the answer reports). -/
theorem rstep_inv (q : Quirks) {rs : RState} (hi : Inv rs) (op : XOp) (hv : op.namesVersion = false)
    (hm : (rstep q rs op).2.mapMiss = false) : Inv (rstep q rs op).1 := by
  obtain ⟨hwf, hconv, hids⟩ := hi
  by_cases hc : ((xstep q rs.primary op).2.isErr || !forwarded op) = true
  · rw [rstep_skip q rs op hc]
    refine ⟨xstep_wf q hwf op hv, ?_, hids⟩
    intro t ht
    have hp : Equiv (xstep q rs.primary op).1 rs.primary := by
      rcases Bool.or_eq_true _ _ |>.mp hc with he | hf
      · exact xstep_error_frame q _ op hv he
      · exact xstep_read_frame q _ op (by simpa using hf)
    exact hp.trans (hconv t ht)
  · have hc' : ((xstep q rs.primary op).2.isErr || !forwarded op) = false := by simpa using hc
    have hok : (xstep q rs.primary op).2.isErr = false := by
      cases h : (xstep q rs.primary op).2.isErr <;> simp [h] at hc' ⊢
    have hrs := rstep_forward q rs op hc'
    dsimp only at hrs
    rw [hrs] at hm ⊢
    dsimp only at hm ⊢
    -- the upload id the call carries, and what the lookup gave
    have key : ∃ u, (uidOf op = none ∨ uidOf op = some u) ∧
        (∀ i, i < rs.secs.length → ((usOf rs op).drop i).headD 0 = u) ∧
        ((uidOf op).isSome = true → rs.secs.length ≤ (usOf rs op).length) := by
      cases hu : uidOf op with
      | none => exact ⟨0, Or.inl rfl, by simp [usOf, hu], by simp⟩
      | some u =>
        refine ⟨u, Or.inr rfl, ?_⟩
        cases hl : rs.umap.lookup u with
        | some l =>
          have hl' := hids u l (lookup_mem u _ l hl)
          subst hl'
          simp only [usOf, hu, hl, Option.getD_some, List.length_replicate, Nat.le_refl, implies_true, and_true]
          intro i hi
          exact drop_replicate_headD _ _ _ hi
        | none =>
          -- nil slice: with at least one secondary the Go code panics, which `mapMiss` reports
          cases hs : rs.secs with
          | nil => simp [usOf, hu, hl]
          | cons t rest =>
            exfalso
            simp [usOf, hu, hl, hs, forwardAll] at hm
    obtain ⟨u, hu, hus, hlen⟩ := key
    obtain ⟨s1, s2, s3, s4, s5⟩ :=
      forwardAll_spec q hwf op u hv hu hok (uidOf op).isSome rs.secs (usOf rs op) hconv hus hlen
    have hfail := find_isErr_none _ _ hok s5
    refine ⟨xstep_wf q hwf op hv, s4, ?_⟩
    simp only [hfail, s1, Option.isNone_none, Bool.not_false, Bool.and_self, Bool.not_true, Bool.false_eq_true,
      if_false, s2]
    split
    · split
      · rename_i pu hpu
        intro u' l' hmem
        rcases List.mem_cons.mp hmem with h | h
        · cases h
          rw [filterMap_uploadUid _ _ pu hpu s5, s3]
        · exact hids u' l' (List.mem_filter.mp h).1
      · exact hids
    · split
      · split
        · intro u' l' hmem; exact hids u' l' (List.mem_filter.mp hmem).1
        · exact hids
      · exact hids


theorem inv_init (n : Nat) : Inv (init n) := by
  refine ⟨?_, ?_, ?_⟩
  · intro bk hbk; simp [init] at hbk
  · intro t ht
    simp only [init, List.mem_replicate] at ht
    rw [ht.2]; rfl
  · intro u l h; simp [init] at h

theorem rrun_inv (q : Quirks) (ops : List XOp) {rs : RState} (hi : Inv rs)
    (hv : ∀ op ∈ ops, op.namesVersion = false)
    (hm : ∀ o ∈ (rrun q rs ops).2, o.mapMiss = false) : Inv (rrun q rs ops).1 := by
  induction ops generalizing rs with
  | nil => exact hi
  | cons op ops ih =>
    simp only [rrun] at hm ⊢
    have h1 := rstep_inv q hi op (hv op (List.mem_cons_self ..)) (hm _ (List.mem_cons_self ..))
    exact ih h1 (fun o ho => hv o (List.mem_cons_of_mem _ ho)) (fun o ho => hm o (List.mem_cons_of_mem _ ho))

-- ---------------------------------------------------------------- what `≈` means for a reader

theorem eraseRow_idem (r : Row) : eraseRow (eraseRow r) = eraseRow r := rfl

theorem currentObjects_congr {bk bk' : Bucket} (h : BEqv bk bk') : currentObjects bk = currentObjects bk' := by
  unfold currentObjects
  have hf := filter_congr eraseRow (fun r => r.latest && !r.dm)
    (fun a c hac => by obtain ⟨_, _, _, f4, f5, _⟩ := REqv.fields hac; simp [f4, f5]) _ _ h.fields.2.2.1
  have hs := sortBy_congr eraseRow (fun a b : Row => decide (a.key < b.key))
    (fun a c d e h1 h2 => by simp [(REqv.fields h1).2.1, (REqv.fields h2).2.1]) _ _ hf
  exact map_through eraseRow obsOfRow (fun a => by cases a; rfl) hs

/-- Replicas that agree up to timestamps show a reader the same buckets, keys, contents, content
types, metadata, tags (and storage classes). -/
theorem observe_congr {s t : State} (h : Equiv s t) : observe s = observe t := by
  unfold observe
  have hs := sortBy_congr eraseBucket (fun a b : Bucket => decide (a.name < b.name))
    (fun a c d e h1 h2 => by simp [(BEqv.fields h1).1, (BEqv.fields h2).1]) _ _ h.fields.1
  generalize sortBy (fun a b : Bucket => decide (a.name < b.name)) s.buckets = l at hs
  generalize sortBy (fun a b : Bucket => decide (a.name < b.name)) t.buckets = l' at hs
  induction l generalizing l' with
  | nil => cases l' <;> simp at hs ⊢
  | cons a l ih =>
    cases l' with
    | nil => simp at hs
    | cons b l' =>
      simp only [List.map_cons, List.cons.injEq] at hs
      simp only [List.map_cons, ih l' hs.2, (BEqv.fields hs.1).1, currentObjects_congr hs.1]

-- ---------------------------------------------------------------- open uploads and the id map

/-! Which uploads exist where: needed to show that the upload-id map lookup never misses. -/

/-- Bucket `name` of `s` holds an open upload with id `uid`. -/
def UpIn (s : State) (name : String) (uid : Nat) : Prop :=
  ∃ bk ∈ s.buckets, bk.name = name ∧ ∃ up ∈ bk.uploads, up.uid = uid

def uids (bk : Bucket) : List Nat := bk.uploads.map (·.uid)

/-- `x`'s state is `s` with the buckets named `name` replaced by one whose upload ids are `L` —
or has `s`'s buckets; the upload-id counter is unchanged. -/
def RP (s : State) (name : String) (L : List Nat) (x : State × Out) : Prop :=
  x.1.nextUid = s.nextUid ∧
  (x.1.buckets = s.buckets ∨ ∃ X : Bucket, x.1.buckets = (setBucket s X).buckets ∧ X.name = name ∧ uids X = L)

/-- The second alternative of `RP` alone. -/
def RP2 (s : State) (name : String) (L : List Nat) (x : State × Out) : Prop :=
  x.1.nextUid = s.nextUid ∧ ∃ X : Bucket, x.1.buckets = (setBucket s X).buckets ∧ X.name = name ∧ uids X = L

theorem RP2.rp {s : State} {name : String} {L : List Nat} {x : State × Out} (h : RP2 s name L x) : RP s name L x :=
  ⟨h.1, Or.inr h.2⟩

theorem RP2.put {s : State} {name : String} {L : List Nat} (X : Bucket) (hn : X.name = name) (hL : uids X = L)
    (x : State × Out) (hb : x.1.buckets = (setBucket s X).buckets) (hu : x.1.nextUid = s.nextUid) : RP2 s name L x :=
  ⟨hu, X, hb, hn, hL⟩

theorem RP2.upIn {s : State} {name : String} {L : List Nat} {x : State × Out} (h : RP2 s name L x)
    {n : String} {uid : Nat} (hin : UpIn x.1 n uid) : (n = name ∧ uid ∈ L) ∨ (n ≠ name ∧ UpIn s n uid) := by
  obtain ⟨_, X, hb, hn, hL⟩ := h
  obtain ⟨bk, hbk, hname, up, hup, huid⟩ := hin
  rw [hb] at hbk
  simp only [setBucket, List.mem_map] at hbk
  obtain ⟨y, hy, rfl⟩ := hbk
  by_cases hc : (y.name == X.name) = true
  · simp only [hc, if_true] at hname hup
    left
    refine ⟨by rw [← hname, hn], ?_⟩
    rw [← hL]; exact List.mem_map.mpr ⟨up, hup, huid⟩
  · have hc' : (y.name == X.name) = false := by simpa using hc
    simp only [hc', Bool.false_eq_true, if_false] at hname hup
    right
    refine ⟨?_, y, hy, hname, up, hup, huid⟩
    intro hnn
    apply hc
    rw [hname, hnn, hn]; simp

theorem RP.same (s : State) (name : String) (L : List Nat) (o : Out) : RP s name L (s, o) := ⟨rfl, Or.inl rfl⟩

theorem RP.ite {s : State} {name : String} {L : List Nat} {c : Bool} {a b : State × Out}
    (ha : RP s name L a) (hb : RP s name L b) : RP s name L (if c = true then a else b) := by
  cases c <;> simpa

theorem RP.put {s : State} {name : String} {L : List Nat} (X : Bucket) (hn : X.name = name) (hL : uids X = L)
    (x : State × Out) (hb : x.1.buckets = (setBucket s X).buckets) (hu : x.1.nextUid = s.nextUid) : RP s name L x :=
  ⟨hu, Or.inr ⟨X, hb, hn, hL⟩⟩

/-- What an `RP` result says about where uploads are afterwards. -/
theorem RP.upIn {s : State} {name : String} {L : List Nat} {x : State × Out} (h : RP s name L x)
    {n : String} {uid : Nat} (hin : UpIn x.1 n uid) : (n = name ∧ uid ∈ L) ∨ (UpIn s n uid) := by
  obtain ⟨_, hb | ⟨X, hb, hn, hL⟩⟩ := h
  · right; unfold UpIn at hin ⊢; rw [hb] at hin; exact hin
  · obtain ⟨bk, hbk, hname, up, hup, huid⟩ := hin
    rw [hb] at hbk
    simp only [setBucket, List.mem_map] at hbk
    obtain ⟨y, hy, rfl⟩ := hbk
    by_cases hc : (y.name == X.name) = true
    · simp only [hc, if_true] at hname hup
      left
      refine ⟨by rw [← hname, hn], ?_⟩
      rw [← hL]; exact List.mem_map.mpr ⟨up, hup, huid⟩
    · have hc' : (y.name == X.name) = false := by simpa using hc
      simp only [hc', Bool.false_eq_true, if_false] at hname hup
      right; exact ⟨y, hy, hname, up, hup, huid⟩

-- name and uploads of the bucket are untouched by the row helpers
@[simp] theorem uids_replaceRow (bk : Bucket) (r : Row) : uids (replaceRow bk r) = uids bk := rfl
@[simp] theorem uids_addRow (bk : Bucket) (r : Row) : uids (addRow bk r) = uids bk := rfl
@[simp] theorem uids_removeRow (bk : Bucket) (i : Nat) : uids (removeRow bk i) = uids bk := rfl
@[simp] theorem uids_unlatest (q : Quirks) (n : Nat) (bk : Bucket) (r : Row) : uids (unlatest q n bk r) = uids bk := rfl
@[simp] theorem name_replaceRow (bk : Bucket) (r : Row) : (replaceRow bk r).name = bk.name := rfl
@[simp] theorem name_addRow (bk : Bucket) (r : Row) : (addRow bk r).name = bk.name := rfl
@[simp] theorem name_removeRow (bk : Bucket) (i : Nat) : (removeRow bk i).name = bk.name := rfl
@[simp] theorem name_unlatest (q : Quirks) (n : Nat) (bk : Bucket) (r : Row) : (unlatest q n bk r).name = bk.name := rfl

@[simp] theorem uids_unlatestCur (q : Quirks) (n : Nat) (bk : Bucket) (k : String) : uids (unlatestCur q n bk k) = uids bk := by
  unfold unlatestCur; split <;> rfl
@[simp] theorem name_unlatestCur (q : Quirks) (n : Nat) (bk : Bucket) (k : String) : (unlatestCur q n bk k).name = bk.name := by
  unfold unlatestCur; split <;> rfl
@[simp] theorem uids_delBk1 (bk : Bucket) (k : String) : uids (delBk1 bk k) = uids bk := by
  unfold delBk1; split
  · split <;> rfl
  · rfl
@[simp] theorem name_delBk1 (bk : Bucket) (k : String) : (delBk1 bk k).name = bk.name := by
  unfold delBk1; split
  · split <;> rfl
  · rfl
@[simp] theorem uids_delBk2 (q : Quirks) (n : Nat) (bk bk1 : Bucket) (k : String) : uids (delBk2 q n bk bk1 k) = uids bk1 := by
  unfold delBk2; split
  · split <;> rfl
  · rfl
@[simp] theorem name_delBk2 (q : Quirks) (n : Nat) (bk bk1 : Bucket) (k : String) : (delBk2 q n bk bk1 k).name = bk1.name := by
  unfold delBk2; split
  · split <;> rfl
  · rfl

theorem install_rp2 (q : Quirks) (s : State) (bk : Bucket) (k : String) (n : NewObj) (o : Out) :
    RP2 s bk.name (uids bk) ((install q s bk k n).1, o) := by
  unfold install
  dsimp only
  split
  · exact RP2.put _ (by simp) (by simp) _ rfl rfl
  · split
    · exact RP2.put _ (by simp) (by simp) _ rfl rfl
    · exact RP2.put _ (by simp) (by simp) _ rfl rfl

theorem install_rp (q : Quirks) (s : State) (bk : Bucket) (k : String) (n : NewObj) (o : Out) :
    RP s bk.name (uids bk) ((install q s bk k n).1, o) := (install_rp2 q s bk k n o).rp

theorem unpack_rp {s : State} {name : String} {L : List Nat} (f : Option Nat → Out)
    (x : Except Err (State × Option Nat)) (hx : ∀ r, x = .ok r → ∀ o, RP s name L (r.1, o)) :
    RP s name L (unpack s f x) := by
  cases x with
  | error e => exact RP.same s name L _
  | ok r => exact hx r rfl _

theorem putRow_rp2 (q : Quirks) (s : State) (bk : Bucket) (k : String) (n : NewObj) (inm : Bool) (im : IfMatch)
    (r : State × Option Nat) (hr : putRow q s bk k n inm im = .ok r) (o : Out) : RP2 s bk.name (uids bk) (r.1, o) := by
  obtain ⟨bk1, rfl, hbk1⟩ := putRow_ok_shape q s bk k n inm im r hr
  rcases hbk1 with rfl | ⟨a, _, rfl⟩
  · exact install_rp2 q s _ k n o
  · have := install_rp2 q s (replaceRow bk (touch q s.clock a)) k n o
    simpa using this

theorem putRow_rp (q : Quirks) (s : State) (bk : Bucket) (k : String) (n : NewObj) (inm : Bool) (im : IfMatch)
    (r : State × Option Nat) (hr : putRow q s bk k n inm im = .ok r) (o : Out) : RP s bk.name (uids bk) (r.1, o) :=
  (putRow_rp2 q s bk k n inm im r hr o).rp

theorem withB_rp {s : State} (b : String) {f : Bucket → State × Out} {P : State × Out → Prop}
    (hnone : P (s, .err .noSuchBucket)) (hf : ∀ bk ∈ s.buckets, bk.name = b → P (f bk)) : P (withB s b f) := by
  unfold withB
  cases hfb : findBucket s b with
  | none => exact hnone
  | some bk =>
    have hn : bk.name = b := by
      have := List.find?_some hfb
      simpa using this
    exact hf bk (mem_of_findBucket hfb) hn


/-- "No new upload anywhere, counter unchanged." -/
def K1 (s : State) (x : State × Out) : Prop :=
  x.1.nextUid = s.nextUid ∧ ∀ n uid, UpIn x.1 n uid → UpIn s n uid

theorem K1.same (s : State) (o : Out) : K1 s (s, o) := ⟨rfl, fun _ _ h => h⟩

theorem K1.ite {s : State} {c : Bool} {a b : State × Out} (ha : K1 s a) (hb : K1 s b) :
    K1 s (if c = true then a else b) := by cases c <;> simpa

theorem mem_uids {bk : Bucket} {uid : Nat} (h : uid ∈ uids bk) : ∃ up ∈ bk.uploads, up.uid = uid := by
  simpa [uids] using h

theorem K1.of_rp {s : State} {bk : Bucket} (hbk : bk ∈ s.buckets) {L : List Nat} (hL : ∀ uid ∈ L, uid ∈ uids bk)
    {x : State × Out} (h : RP s bk.name L x) : K1 s x := by
  refine ⟨h.1, fun n uid hin => ?_⟩
  rcases h.upIn hin with ⟨rfl, hmem⟩ | h'
  · obtain ⟨up, hup, hu⟩ := mem_uids (hL uid hmem)
    exact ⟨bk, hbk, rfl, up, hup, hu⟩
  · exact h'

theorem K1.unpack {s : State} {bk : Bucket} (hbk : bk ∈ s.buckets) (f : Option Nat → Out)
    (x : Except Err (State × Option Nat)) {L : List Nat} (hL : ∀ uid ∈ L, uid ∈ uids bk)
    (hx : ∀ r, x = .ok r → ∀ o, RP s bk.name L (r.1, o)) : K1 s (Replication.unpack s f x) :=
  K1.of_rp hbk hL (unpack_rp f x hx)

theorem delNone_k1 (q : Quirks) {s : State} {bk : Bucket} (hbk : bk ∈ s.buckets) (k : String) (im : IfMatch) :
    K1 s (delNone q s bk k im) := by
  unfold delNone
  refine K1.ite (K1.ite (K1.same s _) (K1.same s _)) (K1.ite (K1.same s _) (K1.ite ?_ ?_))
  · exact K1.of_rp hbk (fun _ h => h) (RP.put _ (by simp) (by simp) _ rfl rfl)
  · cases latestRow bk k with
    | none => exact K1.same s _
    | some r => exact K1.of_rp hbk (fun _ h => h) (RP.put _ (by simp) (by simp) _ rfl rfl)

theorem appendOn_k1 (q : Quirks) {s : State} {bk : Bucket} (hbk : bk ∈ s.buckets) (k : String)
    (body : Bytes) (off : Option Nat) : K1 s (appendOn q s bk k body off) := by
  unfold appendOn appendBody
  refine K1.ite (K1.same s _) ?_
  cases latestRow bk k with
  | none =>
    dsimp only
    cases hq : q.appendLatestInPlace <;>
      simp only [Bool.false_eq_true, if_false, if_true] <;>
      repeat' (first
        | exact K1.same s _
        | exact K1.unpack hbk _ _ (fun _ h => h) (fun r hr o => putRow_rp q s bk k _ _ _ r hr o)
        | exact K1.of_rp hbk (fun _ h => h) (RP.put _ (by simp) (by simp) _ rfl rfl)
        | apply K1.ite)
  | some a =>
    cases a with
    | mk rowId key vid dm latest created updated wrote parts etag ct md tags cls seqBase =>
    cases dm <;> cases hq : q.appendLatestInPlace <;> cases vid <;>
      simp only [Bool.false_eq_true, if_false, if_true, Option.isNone_none, Option.isNone_some] <;>
      repeat' (first
        | exact K1.same s _
        | exact K1.unpack hbk _ _ (fun _ h => h) (fun r hr o => putRow_rp q s bk k _ _ _ r hr o)
        | exact K1.of_rp hbk (fun _ h => h) (RP.put _ (by simp) (by simp) _ rfl rfl)
        | apply K1.ite)


theorem K1.withB {s : State} (b : String) {f : Bucket → State × Out}
    (hf : ∀ bk ∈ s.buckets, bk.name = b → K1 s (f bk)) : K1 s (Replication.withB s b f) :=
  withB_rp b (K1.same s _) hf

theorem K1.res {s : State} (f : Row → State × Out) (hf : ∀ r, K1 s (f r)) (x : Except Err Row) :
    K1 s (match x with | .error e => (s, Out.err e) | .ok r => f r) := by
  cases x with
  | error e => exact K1.same s _
  | ok r => exact hf r

theorem uploadPart_rp2 (s : State) (bk : Bucket) (uid : Nat) (k : String) (n : Nat) (body : Bytes) (u : Upload)
    (hfu : bk.uploads.find? (fun u => u.uid == uid && u.key == k) = some u) (o : Out) :
    RP2 s bk.name (uids bk)
      (setBucket s { bk with uploads := bk.uploads.map fun x =>
          if x.uid == uid then { u with parts := sortedInsert n body u.parts } else x }, o) := by
  refine RP2.put { bk with uploads := bk.uploads.map fun x =>
          if x.uid == uid then { u with parts := sortedInsert n body u.parts } else x } rfl ?_ _ rfl rfl
  have hu : u.uid = uid := by
    have := List.find?_some hfu
    simp only [Bool.and_eq_true, beq_iff_eq] at this
    exact this.1
  simp only [uids, List.map_map]
  apply List.map_congr_left
  intro x _
  simp only [Function.comp]
  by_cases hc : x.uid = uid
  · simp [hc, hu]
  · simp [hc]

theorem upIn_tick (s : State) (n : String) (uid : Nat) : UpIn (tick s) n uid ↔ UpIn s n uid := Iff.rfl

/-- Every call but CreateMultipartUpload creates no upload and leaves the upload-id counter alone. -/
theorem step_k1 (q : Quirks) (s : State) (op : Op) (hv : opNamesVersion op = false)
    (hm : ∀ b k o, op ≠ .mpu b k o) : K1 (tick s) (step q s op) := by
  cases op with
  | mpu b k o => exact absurd rfl (hm b k o)
  | mkb b =>
    rw [step_mkb_eq]
    refine K1.ite (K1.same _ _) ⟨rfl, ?_⟩
    rintro n uid ⟨bk, hbk, hn, up, hup, hu⟩
    rcases List.mem_append.mp hbk with h | h
    · exact ⟨bk, h, hn, up, hup, hu⟩
    · simp only [List.mem_singleton] at h; subst h; simp at hup
  | rmb b =>
    rw [step_rmb_eq]
    refine K1.withB b fun bk hbk hn => K1.ite (K1.same _ _) ⟨rfl, ?_⟩
    rintro n uid ⟨x, hx, hxn, up, hup, hu⟩
    exact ⟨x, (List.mem_filter.mp hx).1, hxn, up, hup, hu⟩
  | setVer b v =>
    rw [step_setVer_eq]
    exact K1.withB b fun bk hbk hn => K1.of_rp hbk (fun _ h => h) (RP.put { bk with ver := v } rfl rfl _ rfl rfl)
  | put b k body o inm im =>
    rw [step_put_eq]
    exact K1.withB b fun bk hbk hn =>
      K1.unpack hbk _ _ (fun _ h => h) (fun r hr o => putRow_rp q _ bk k _ _ _ r hr o)
  | get b k vid =>
    rw [step_get_eq]
    exact K1.withB b fun bk hbk hn => by cases resolve bk k vid <;> exact K1.same _ _
  | head b k vid =>
    rw [step_head_eq]
    exact K1.withB b fun bk hbk hn => by cases resolve bk k vid <;> exact K1.same _ _
  | del b k vid im =>
    cases vid with
    | some v => simp [opNamesVersion] at hv
    | none =>
      rw [step_del_eq]
      exact K1.withB b fun bk hbk hn => by rw [deleteOp_none_eq]; exact delNone_k1 q hbk k im
  | copy sb sk svid db dk rm rt o =>
    rw [step_copy_eq]
    cases findBucket (tick s) sb with
    | none => exact K1.same _ _
    | some sbk =>
      dsimp only
      cases resolve sbk sk svid with
      | error e => exact K1.same _ _
      | ok src =>
        exact K1.withB db fun bk hbk hn =>
          K1.unpack hbk _ _ (fun _ h => h) (fun r hr o => putRow_rp q _ bk dk _ _ _ r hr o)
  | append b k body off =>
    rw [step_append_eq]
    exact K1.withB b fun bk hbk hn => appendOn_k1 q hbk k body off
  | uploadPart b k uid n body =>
    rw [step_uploadPart_eq]
    refine K1.withB b fun bk hbk hn => ?_
    cases hfu : bk.uploads.find? (fun u => u.uid == uid && u.key == k) with
    | none => exact K1.same _ _
    | some u => exact K1.of_rp hbk (fun _ h => h) (uploadPart_rp2 _ bk uid k n body u hfu _).rp
  | complete b k uid declared inm im =>
    rw [step_complete_eq]
    refine K1.withB b fun bk hbk hn => ?_
    cases bk.uploads.find? (fun u => u.uid == uid && u.key == k) with
    | none => exact K1.same _ _
    | some u =>
      dsimp only
      refine K1.ite (K1.same _ _) ?_
      cases declaredErr u declared with
      | some e => exact K1.same _ _
      | none =>
        dsimp only
        exact K1.unpack hbk _ _ (L := uids { bk with uploads := bk.uploads.filter (·.uid != uid) })
          (fun x hx => by
            simp only [uids, List.mem_map, List.mem_filter] at hx ⊢
            obtain ⟨a, ⟨ha, _⟩, rfl⟩ := hx
            exact ⟨a, ha, rfl⟩)
          (fun r hr o => putRow_rp q _ { bk with uploads := bk.uploads.filter (·.uid != uid) } k _ _ _ r hr o)
  | abort b k uid =>
    rw [step_abort_eq]
    refine K1.withB b fun bk hbk hn => ?_
    cases bk.uploads.find? (fun u => u.uid == uid && u.key == k) with
    | none => exact K1.same _ _
    | some u =>
      exact K1.of_rp hbk (L := uids { bk with uploads := bk.uploads.filter (·.uid != uid) })
        (fun x hx => by
          simp only [uids, List.mem_map, List.mem_filter] at hx ⊢
          obtain ⟨a, ⟨ha, _⟩, rfl⟩ := hx
          exact ⟨a, ha, rfl⟩)
        (RP.put { bk with uploads := bk.uploads.filter (·.uid != uid) } rfl rfl _ rfl rfl)
  | getTags b k vid =>
    rw [step_getTags_eq]
    exact K1.withB b fun bk hbk hn => by cases resolve bk k vid <;> exact K1.same _ _
  | putTags b k vid tags =>
    rw [step_putTags_eq]
    exact K1.withB b fun bk hbk hn =>
      K1.res _ (fun r => K1.of_rp hbk (fun _ h => h) (RP.put _ (by simp) (by simp) _ rfl rfl)) _
  | delTags b k vid =>
    rw [step_delTags_eq]
    exact K1.withB b fun bk hbk hn =>
      K1.res _ (fun r => K1.of_rp hbk (fun _ h => h) (RP.put _ (by simp) (by simp) _ rfl rfl)) _
  | transition b k cls vid =>
    cases vid with
    | some v => simp [opNamesVersion] at hv
    | none =>
      rw [step_transition_eq]
      refine K1.withB b fun bk hbk hn => ?_
      dsimp only
      cases latestRow bk k with
      | none => exact K1.same _ _
      | some r => exact K1.ite (K1.same _ _) (K1.of_rp hbk (fun _ h => h) (RP.put _ (by simp) (by simp) _ rfl rfl))
  | list b => rw [step_list_eq]; exact K1.withB b fun bk hbk hn => K1.same _ _
  | listVersions b => rw [step_listVersions_eq]; exact K1.withB b fun bk hbk hn => K1.same _ _
  | listBuckets => exact K1.same _ _


theorem upIn_setBucket {s x : State} {X : Bucket} (hb : x.buckets = (setBucket s X).buckets)
    {n : String} {uid : Nat} (hin : UpIn x n uid) :
    (n = X.name ∧ uid ∈ uids X) ∨ (n ≠ X.name ∧ UpIn s n uid) := by
  have h2 : RP2 s X.name (uids X) ({ x with nextUid := s.nextUid }, Out.unit) := ⟨rfl, X, hb, rfl, rfl⟩
  exact h2.upIn (x := ({ x with nextUid := s.nextUid }, Out.unit)) hin

/-- CreateMultipartUpload: fails without a trace, or answers the counter value and opens exactly
that upload in bucket `b`. -/
theorem step_mpu_k (q : Quirks) (s : State) (b k : String) (o : WriteOpts) :
    (isErrOut (step q s (.mpu b k o)).2 = true ∧ (step q s (.mpu b k o)).1 = tick s) ∨
    ((step q s (.mpu b k o)).2 = .upload s.nextUid ∧ (step q s (.mpu b k o)).1.nextUid = s.nextUid + 1 ∧
      ∀ n uid, UpIn (step q s (.mpu b k o)).1 n uid → UpIn s n uid ∨ (n = b ∧ uid = s.nextUid)) := by
  rw [step_mpu_eq]
  unfold withB
  cases hfb : findBucket (tick s) b with
  | none => left; exact ⟨rfl, rfl⟩
  | some bk =>
    right
    have hn : bk.name = b := by simpa using List.find?_some hfb
    refine ⟨rfl, rfl, ?_⟩
    intro n uid hin
    rcases upIn_setBucket (s := tick s) (X := { bk with uploads := bk.uploads ++
        [{ uid := (tick s).nextUid, key := k, created := (tick s).clock, ct := o.ct, md := o.md, tags := o.tags, cls := o.cls }] })
        rfl hin with ⟨h1, h2⟩ | ⟨_, h2⟩
    · simp only [uids, List.map_append, List.map_cons, List.map_nil, List.mem_append, List.mem_singleton] at h2
      rcases h2 with h2 | h2
      · left
        obtain ⟨up, hup, hu⟩ := mem_uids (bk := bk) (by simpa [uids] using h2)
        exact ⟨bk, mem_of_findBucket hfb, by rw [h1], up, hup, hu⟩
      · right; exact ⟨by rw [h1]; exact hn, h2⟩
    · left; exact h2

/-- A multipart call that succeeded named an open upload of its bucket. -/
theorem uid_ok_upIn (q : Quirks) (s : State) (op : Op) (u : Nat) (hu : uidOfBase op = some u)
    (hok : isErrOut (step q s op).2 = false) : ∃ b, UpIn s b u := by
  have key : ∀ (b k : String) (f : Bucket → Upload → State × Out),
      isErrOut (Replication.withB (tick s) b fun bk =>
        match bk.uploads.find? (fun x => x.uid == u && x.key == k) with
        | none => (tick s, .err .noSuchKey)
        | some up => f bk up).2 = false → UpIn s b u := by
    intro b k f h
    unfold Replication.withB at h
    cases hfb : findBucket (tick s) b with
    | none => rw [hfb] at h; simp [isErrOut] at h
    | some bk =>
      rw [hfb] at h
      dsimp only at h
      cases hfu : bk.uploads.find? (fun x => x.uid == u && x.key == k) with
      | none => rw [hfu] at h; simp [isErrOut] at h
      | some up =>
        have hn : bk.name = b := by simpa using List.find?_some hfb
        have hup := List.find?_some hfu
        simp only [Bool.and_eq_true, beq_iff_eq] at hup
        exact ⟨bk, mem_of_findBucket hfb, hn, up, List.mem_of_find?_eq_some hfu, hup.1⟩
  cases op with
  | uploadPart b k uid n body =>
    simp only [uidOfBase, Option.some.injEq] at hu; subst hu
    rw [step_uploadPart_eq] at hok
    exact ⟨b, key b k _ hok⟩
  | complete b k uid declared inm im =>
    simp only [uidOfBase, Option.some.injEq] at hu; subst hu
    rw [step_complete_eq] at hok
    exact ⟨b, key b k _ hok⟩
  | abort b k uid =>
    simp only [uidOfBase, Option.some.injEq] at hu; subst hu
    rw [step_abort_eq] at hok
    exact ⟨b, key b k _ hok⟩
  | mkb b => simp [uidOfBase] at hu
  | rmb b => simp [uidOfBase] at hu
  | setVer b v => simp [uidOfBase] at hu
  | put b k body o inm im => simp [uidOfBase] at hu
  | get b k vid => simp [uidOfBase] at hu
  | head b k vid => simp [uidOfBase] at hu
  | del b k vid im => simp [uidOfBase] at hu
  | copy sb sk svid db dk rm rt o => simp [uidOfBase] at hu
  | append b k body off => simp [uidOfBase] at hu
  | mpu b k o => simp [uidOfBase] at hu
  | getTags b k vid => simp [uidOfBase] at hu
  | putTags b k vid tags => simp [uidOfBase] at hu
  | delTags b k vid => simp [uidOfBase] at hu
  | transition b k cls vid => simp [uidOfBase] at hu
  | list b => simp [uidOfBase] at hu
  | listVersions b => simp [uidOfBase] at hu
  | listBuckets => simp [uidOfBase] at hu


/-- Upload ids are owned by one bucket name. -/
def UidFunctional (s : State) : Prop := ∀ n1 n2 uid, UpIn s n1 uid → UpIn s n2 uid → n1 = n2

theorem filtered_ne {bk : Bucket} {u uid : Nat}
    (h : uid ∈ uids { bk with uploads := bk.uploads.filter (·.uid != u) }) : uid ≠ u := by
  simp only [uids, List.mem_map, List.mem_filter] at h
  obtain ⟨a, ⟨_, ha⟩, rfl⟩ := h
  simpa using ha

theorem ends_tail {s x : State} {bk : Bucket} {b : String} {u : Nat} (hU : UidFunctional s)
    (hbk : bk ∈ s.buckets) (hn : bk.name = b) (hup : ∃ up ∈ bk.uploads, up.uid = u)
    {X : Bucket} (hX : x.buckets = (setBucket s X).buckets) (hXn : X.name = b)
    (hXu : uids X = uids { bk with uploads := bk.uploads.filter (·.uid != u) }) :
    ∀ n uid, UpIn x n uid → uid ≠ u := by
  intro n uid hin
  rcases upIn_setBucket hX hin with ⟨_, h2⟩ | ⟨h1, h2⟩
  · rw [hXu] at h2; exact filtered_ne h2
  · intro he
    subst he
    obtain ⟨up, hup1, hup2⟩ := hup
    have := hU n b uid h2 ⟨bk, hbk, hn, up, hup1, hup2⟩
    exact h1 (by rw [this, hXn])

/-- After a successful Complete/Abort of upload `u` no bucket holds an upload with that id. -/
theorem ends_removes (q : Quirks) (s : State) (op : Op) (u : Nat) (hu : uidOfBase op = some u)
    (hends : endsUpload (.base op) = true) (hU : UidFunctional s)
    (hok : isErrOut (step q s op).2 = false) : ∀ n uid, UpIn (step q s op).1 n uid → uid ≠ u := by
  have hUt : UidFunctional (tick s) := hU
  cases op with
  | abort b k uid =>
    simp only [uidOfBase, Option.some.injEq] at hu; subst hu
    rw [step_abort_eq] at hok ⊢
    unfold Replication.withB at hok ⊢
    cases hfb : findBucket (tick s) b with
    | none => rw [hfb] at hok; simp [isErrOut] at hok
    | some bk =>
      rw [hfb] at hok
      dsimp only at hok ⊢
      cases hfu : bk.uploads.find? (fun x => x.uid == uid && x.key == k) with
      | none => rw [hfu] at hok; simp [isErrOut] at hok
      | some up =>
        have hn : bk.name = b := by simpa using List.find?_some hfb
        have hup := List.find?_some hfu
        simp only [Bool.and_eq_true, beq_iff_eq] at hup
        exact ends_tail hUt (mem_of_findBucket hfb) hn ⟨up, List.mem_of_find?_eq_some hfu, hup.1⟩
          (X := { bk with uploads := bk.uploads.filter (·.uid != uid) }) rfl hn rfl
  | complete b k uid declared inm im =>
    simp only [uidOfBase, Option.some.injEq] at hu; subst hu
    rw [step_complete_eq] at hok ⊢
    unfold Replication.withB at hok ⊢
    cases hfb : findBucket (tick s) b with
    | none => rw [hfb] at hok; simp [isErrOut] at hok
    | some bk =>
      rw [hfb] at hok
      dsimp only at hok ⊢
      cases hfu : bk.uploads.find? (fun x => x.uid == uid && x.key == k) with
      | none => rw [hfu] at hok; simp [isErrOut] at hok
      | some up =>
        have hn : bk.name = b := by simpa using List.find?_some hfb
        have hup := List.find?_some hfu
        simp only [Bool.and_eq_true, beq_iff_eq] at hup
        rw [hfu] at hok
        dsimp only at hok ⊢
        by_cases hc : (!contiguousFrom 1 up.parts) = true
        · simp [hc, isErrOut] at hok
        · simp only [hc] at hok ⊢
          cases hde : declaredErr up declared with
          | some e => rw [hde] at hok; simp [isErrOut] at hok
          | none =>
            rw [hde] at hok
            dsimp only at hok ⊢
            generalize hpr : putRow q (tick s) { bk with uploads := bk.uploads.filter (·.uid != uid) } k _ inm im = pr at hok ⊢
            cases pr with
            | error e => simp [Replication.unpack, isErrOut] at hok
            | ok r =>
              obtain ⟨_, X, hX, hXn, hXu⟩ := putRow_rp2 q _ _ k _ inm im r hpr Out.unit
              exact ends_tail hUt (mem_of_findBucket hfb) hn ⟨up, List.mem_of_find?_eq_some hfu, hup.1⟩ hX
                (by rw [hXn]; exact hn) hXu
  | uploadPart b k uid n body => simp [endsUpload] at hends
  | mkb b => simp [endsUpload] at hends
  | rmb b => simp [endsUpload] at hends
  | setVer b v => simp [endsUpload] at hends
  | put b k body o inm im => simp [endsUpload] at hends
  | get b k vid => simp [endsUpload] at hends
  | head b k vid => simp [endsUpload] at hends
  | del b k vid im => simp [endsUpload] at hends
  | copy sb sk svid db dk rm rt o => simp [endsUpload] at hends
  | append b k body off => simp [endsUpload] at hends
  | mpu b k o => simp [endsUpload] at hends
  | getTags b k vid => simp [endsUpload] at hends
  | putTags b k vid tags => simp [endsUpload] at hends
  | delTags b k vid => simp [endsUpload] at hends
  | transition b k cls vid => simp [endsUpload] at hends
  | list b => simp [endsUpload] at hends
  | listVersions b => simp [endsUpload] at hends
  | listBuckets => simp [endsUpload] at hends

theorem delManyLoop_k1 (q : Quirks) (b : String) (keys : List String) (s : State) :
    (delManyLoop q b s keys).1.nextUid = s.nextUid ∧
    ∀ n uid, UpIn (delManyLoop q b s keys).1 n uid → UpIn s n uid := by
  induction keys generalizing s with
  | nil => exact ⟨rfl, fun _ _ h => h⟩
  | cons k ks ih =>
    simp only [delManyLoop]
    have h1 := step_k1 q s (.del b k none .none) rfl (fun _ _ _ h => by cases h)
    have h2 := ih (step q s (.del b k none .none)).1
    exact ⟨h2.1.trans h1.1, fun n uid h => h1.2 n uid (h2.2 n uid h)⟩

/-- No call but CreateMultipartUpload opens an upload or moves the upload-id counter. -/
theorem xstep_k1 (q : Quirks) (s : State) (op : XOp) (hv : op.namesVersion = false) (hm : isMpu op = false) :
    (xstep q s op).1.nextUid = s.nextUid ∧ ∀ n uid, UpIn (xstep q s op).1 n uid → UpIn s n uid := by
  cases op with
  | base op =>
    exact step_k1 q s op hv (fun b k o h => by subst h; simp [isMpu] at hm)
  | partCopy sb sk svid db dk uid n range =>
    simp only [xstep]
    cases readSource s sb sk svid with
    | error e => exact ⟨rfl, fun _ _ h => h⟩
    | ok r =>
      dsimp only
      cases sliceOf r.content range with
      | error e => exact ⟨rfl, fun _ _ h => h⟩
      | ok body => exact step_k1 q s (.uploadPart db dk uid n body) rfl (fun _ _ _ h => by cases h)
  | delMany b keys =>
    simp only [xstep]
    cases findBucket s b with
    | none => exact ⟨rfl, fun _ _ h => h⟩
    | some bk => exact delManyLoop_k1 q b keys s

theorem xstep_uid_ok (q : Quirks) (s : State) (op : XOp) (u : Nat) (hu : uidOf op = some u)
    (hok : (xstep q s op).2.isErr = false) : ∃ b, UpIn s b u := by
  cases op with
  | base op => exact uid_ok_upIn q s op u hu (by simpa [xstep, isErr_base] using hok)
  | partCopy sb sk svid db dk uid n range =>
    simp only [uidOf, Option.some.injEq] at hu; subst hu
    simp only [xstep] at hok
    generalize readSource s sb sk svid = x at hok
    cases x with
    | error e => simp [XOut.isErr] at hok
    | ok r =>
      dsimp only at hok
      generalize sliceOf r.content range = y at hok
      cases y with
      | error e => simp [XOut.isErr] at hok
      | ok body =>
        dsimp only at hok
        exact uid_ok_upIn q s (.uploadPart db dk uid n body) uid rfl (by simpa [isErr_base] using hok)
  | delMany b keys => simp [uidOf] at hu

theorem xstep_ends (q : Quirks) (s : State) (op : XOp) (u : Nat) (hu : uidOf op = some u)
    (hends : endsUpload op = true) (hU : UidFunctional s) (hok : (xstep q s op).2.isErr = false) :
    ∀ n uid, UpIn (xstep q s op).1 n uid → uid ≠ u := by
  cases op with
  | base op => exact ends_removes q s op u hu hends hU (by simpa [xstep, isErr_base] using hok)
  | partCopy sb sk svid db dk uid n range => simp [endsUpload] at hends
  | delMany b keys => simp [endsUpload] at hends

theorem lookup_filter_ne {α : Type} (l : List (Nat × α)) (u v : Nat) (h : v ≠ u) :
    (l.filter (·.1 != u)).lookup v = l.lookup v := by
  induction l with
  | nil => rfl
  | cons x xs ih =>
    obtain ⟨a, b⟩ := x
    by_cases hau : a = u
    · subst hau
      have : (v == a) = false := by simpa using h
      simp [List.lookup_cons, this, ih]
    · have hne : (a != u) = true := by simpa using hau
      simp only [List.filter_cons, hne, if_true, List.lookup_cons, ih]

/-- The full invariant of the replication storage's state: `Inv`, and every open upload of the
primary has an id below the counter, belongs to one bucket name, and has an id-map entry. -/
structure Inv2 (rs : RState) : Prop extends Inv rs where
  ub : ∀ n uid, UpIn rs.primary n uid → uid < rs.primary.nextUid
  uf : UidFunctional rs.primary
  um : ∀ n uid, UpIn rs.primary n uid → (rs.umap.lookup uid).isSome = true


/-- The upload ids handed to `forwardAll` are the right ones: the lookup found the entry. -/
theorem fw_key (q : Quirks) {rs : RState} (hi : Inv2 rs) (op : XOp)
    (hok : (xstep q rs.primary op).2.isErr = false) :
    ∃ u, (uidOf op = none ∨ uidOf op = some u) ∧
        (∀ i, i < rs.secs.length → ((usOf rs op).drop i).headD 0 = u) ∧
        ((uidOf op).isSome = true → rs.secs.length ≤ (usOf rs op).length) := by
  cases hu : uidOf op with
  | none => exact ⟨0, Or.inl rfl, by simp [usOf, hu], by simp⟩
  | some u =>
    refine ⟨u, Or.inr rfl, ?_⟩
    obtain ⟨b, hb⟩ := xstep_uid_ok q rs.primary op u hu hok
    have hsome := hi.um b u hb
    cases hl : rs.umap.lookup u with
    | none => rw [hl] at hsome; simp at hsome
    | some l =>
      have hl' := hi.ids u l (lookup_mem u _ l hl)
      subst hl'
      simp only [usOf, hu, hl, Option.getD_some, List.length_replicate, Nat.le_refl, implies_true, and_true]
      intro i hi'
      exact drop_replicate_headD _ _ _ hi'

/-- **The id-map lookup never misses**: every upload the primary accepts a multipart call for has
an entry (it was recorded when the upload was created and is removed only when the upload is). -/
theorem no_miss (q : Quirks) {rs : RState} (hi : Inv2 rs) (op : XOp) (hv : op.namesVersion = false) :
    (rstep q rs op).2.mapMiss = false := by
  by_cases hc : ((xstep q rs.primary op).2.isErr || !forwarded op) = true
  · rw [rstep_skip q rs op hc]
  · have hc' : ((xstep q rs.primary op).2.isErr || !forwarded op) = false := by simpa using hc
    have hok : (xstep q rs.primary op).2.isErr = false := by
      cases h : (xstep q rs.primary op).2.isErr <;> simp [h] at hc' ⊢
    have hrs := rstep_forward q rs op hc'
    dsimp only at hrs
    rw [hrs]
    dsimp only
    have key := fw_key q hi op hok
    obtain ⟨u, hu, hus, hlen⟩ := key
    exact (forwardAll_spec q hi.wf op u hv hu hok (uidOf op).isSome rs.secs (usOf rs op) hi.conv hus hlen).1


theorem isMpu_cases (op : XOp) (h : isMpu op = true) : ∃ b k o, op = .base (.mpu b k o) := by
  cases op with
  | base op => cases op <;> simp [isMpu] at h; exact ⟨_, _, _, rfl⟩
  | partCopy sb sk svid db dk uid n range => simp [isMpu] at h
  | delMany b keys => simp [isMpu] at h

theorem endsUpload_uid (op : XOp) (h : endsUpload op = true) : ∃ u, uidOf op = some u := by
  cases op with
  | base op => cases op <;> simp [endsUpload] at h <;> exact ⟨_, rfl⟩
  | partCopy sb sk svid db dk uid n range => simp [endsUpload] at h
  | delMany b keys => simp [endsUpload] at h

theorem isMpu_not_ends (op : XOp) (h : isMpu op = true) : endsUpload op = false := by
  obtain ⟨b, k, o, rfl⟩ := isMpu_cases op h; rfl

/-- `rstep` keeps the full invariant — for every call that names no version id. -/
theorem rstep_inv2 (q : Quirks) {rs : RState} (hi : Inv2 rs) (op : XOp) (hv : op.namesVersion = false) :
    Inv2 (rstep q rs op).1 := by
  have hbase : Inv (rstep q rs op).1 := rstep_inv q hi.toInv op hv (no_miss q hi op hv)
  obtain ⟨hinv, hub, huf, hum⟩ := hi
  by_cases hc : ((xstep q rs.primary op).2.isErr || !forwarded op) = true
  · -- failed on the primary, or a read: the id map is as it was
    rw [rstep_skip q rs op hc] at hbase ⊢
    by_cases hmp : isMpu op = true
    · obtain ⟨b, k, o, rfl⟩ := isMpu_cases op hmp
      have herr : (xstep q rs.primary (.base (.mpu b k o))).2.isErr = true := by
        rcases Bool.or_eq_true _ _ |>.mp hc with h | h
        · exact h
        · simp [forwarded, forwardedBase] at h
      have hst : (xstep q rs.primary (.base (.mpu b k o))).1 = tick rs.primary := by
        rcases step_mpu_k q rs.primary b k o with ⟨_, h⟩ | ⟨h, _⟩
        · simpa [xstep] using h
        · simp [xstep, XOut.isErr, h] at herr
      refine { toInv := hbase, ub := ?_, uf := ?_, um := ?_ } <;> dsimp only <;> rw [hst]
      · exact hub
      · exact huf
      · exact hum
    · have hk := xstep_k1 q rs.primary op hv (by simpa using hmp)
      refine { toInv := hbase, ub := ?_, uf := ?_, um := ?_ } <;> dsimp only
      · intro n uid h; rw [hk.1]; exact hub n uid (hk.2 n uid h)
      · intro n1 n2 uid h1 h2; exact huf n1 n2 uid (hk.2 _ _ h1) (hk.2 _ _ h2)
      · intro n uid h; exact hum n uid (hk.2 n uid h)
  · have hc' : ((xstep q rs.primary op).2.isErr || !forwarded op) = false := by simpa using hc
    have hok : (xstep q rs.primary op).2.isErr = false := by
      cases h : (xstep q rs.primary op).2.isErr <;> simp [h] at hc' ⊢
    have hmiss := no_miss q ⟨hinv, hub, huf, hum⟩ op hv
    have hrs := rstep_forward q rs op hc'
    dsimp only at hrs
    rw [hrs] at hbase hmiss ⊢
    dsimp only at hbase hmiss ⊢
    -- the forwarding succeeded everywhere (as in `rstep_inv`)
    have hkey := fw_key q (rs := rs) ⟨hinv, hub, huf, hum⟩ op hok
    obtain ⟨u0, hu0, hus, hlen⟩ := hkey
    obtain ⟨s1, s2, s3, s4, s5⟩ :=
      forwardAll_spec q hinv.wf op u0 hv hu0 hok (uidOf op).isSome rs.secs (usOf rs op) hinv.conv hus hlen
    have hfail := find_isErr_none _ _ hok s5
    simp only [hfail, s1, Option.isNone_none, Bool.not_false, Bool.and_self, Bool.not_true, Bool.false_eq_true,
      if_false] at hbase ⊢
    by_cases hmp : isMpu op = true
    · -- CreateMultipartUpload: the new upload gets its entry
      obtain ⟨b, k, o, rfl⟩ := isMpu_cases op hmp
      rcases step_mpu_k q rs.primary b k o with ⟨herr, _⟩ | ⟨hout, hnext, hup⟩
      · simp [xstep, XOut.isErr] at hok
        cases hso : (step q rs.primary (.mpu b k o)).2 <;> simp [hso, isErrOut] at herr hok
      · have hpu : uploadUid (xstep q rs.primary (.base (.mpu b k o))).2 = some rs.primary.nextUid := by
          simp [xstep, hout, uploadUid]
        simp only [isMpu, if_true, hpu] at hbase ⊢
        refine { toInv := hbase, ub := ?_, uf := ?_, um := ?_ } <;> dsimp only
        · intro n uid h
          simp only [xstep] at h ⊢
          rw [hnext]
          rcases hup n uid h with h' | ⟨_, rfl⟩
          · exact Nat.lt_succ_of_lt (hub n uid h')
          · exact Nat.lt_succ_self _
        · intro n1 n2 uid h1 h2
          simp only [xstep] at h1 h2
          rcases hup n1 uid h1 with a1 | ⟨d1, d2⟩ <;> rcases hup n2 uid h2 with a2 | ⟨e2, e3⟩
          · exact huf n1 n2 uid a1 a2
          · subst e3; exact absurd (hub n1 _ a1) (Nat.lt_irrefl _)
          · subst d2; exact absurd (hub n2 _ a2) (Nat.lt_irrefl _)
          · rw [d1, e2]
        · intro n uid h
          simp only [xstep] at h
          by_cases he : uid = rs.primary.nextUid
          · subst he; simp
          · have hne : (uid == rs.primary.nextUid) = false := by simpa using he
            simp only [List.lookup_cons, hne]
            rw [lookup_filter_ne _ _ _ he]
            rcases hup n uid h with h' | ⟨_, h'⟩
            · exact hum n uid h'
            · exact absurd h' he
    · have hmp' : isMpu op = false := by simpa using hmp
      have hk := xstep_k1 q rs.primary op hv hmp'
      simp only [hmp', Bool.false_eq_true, if_false] at hbase ⊢
      by_cases hen : endsUpload op = true
      · -- Complete / Abort: the entry goes, and so did every upload with that id
        obtain ⟨u, hu⟩ := endsUpload_uid op hen
        have hgone := xstep_ends q rs.primary op u hu hen huf hok
        simp only [hen, if_true, hu] at hbase ⊢
        refine { toInv := hbase, ub := ?_, uf := ?_, um := ?_ } <;> dsimp only
        · intro n uid h; rw [hk.1]; exact hub n uid (hk.2 n uid h)
        · intro n1 n2 uid h1 h2; exact huf n1 n2 uid (hk.2 _ _ h1) (hk.2 _ _ h2)
        · intro n uid h
          rw [lookup_filter_ne _ _ _ (hgone n uid h)]
          exact hum n uid (hk.2 n uid h)
      · have hen' : endsUpload op = false := by simpa using hen
        simp only [hen', Bool.false_eq_true, if_false] at hbase ⊢
        refine { toInv := hbase, ub := ?_, uf := ?_, um := ?_ } <;> dsimp only
        · intro n uid h; rw [hk.1]; exact hub n uid (hk.2 n uid h)
        · intro n1 n2 uid h1 h2; exact huf n1 n2 uid (hk.2 _ _ h1) (hk.2 _ _ h2)
        · intro n uid h; exact hum n uid (hk.2 n uid h)


/-- Under the invariant the caller always gets the primary's answer: no secondary fails. -/
theorem rstep_answer (q : Quirks) {rs : RState} (hi : Inv2 rs) (op : XOp) (hv : op.namesVersion = false) :
    (rstep q rs op).2.out = (xstep q rs.primary op).2 := by
  by_cases hc : ((xstep q rs.primary op).2.isErr || !forwarded op) = true
  · rw [rstep_skip q rs op hc]
  · have hc' : ((xstep q rs.primary op).2.isErr || !forwarded op) = false := by simpa using hc
    have hok : (xstep q rs.primary op).2.isErr = false := by
      cases h : (xstep q rs.primary op).2.isErr <;> simp [h] at hc' ⊢
    have hrs := rstep_forward q rs op hc'
    dsimp only at hrs
    rw [hrs]
    dsimp only
    obtain ⟨u, hu, hus, hlen⟩ := fw_key q hi op hok
    obtain ⟨_, _, _, _, s5⟩ :=
      forwardAll_spec q hi.wf op u hv hu hok (uidOf op).isSome rs.secs (usOf rs op) hi.conv hus hlen
    rw [find_isErr_none _ _ hok s5]; rfl

theorem inv2_init (n : Nat) : Inv2 (init n) :=
  { toInv := inv_init n
    ub := by rintro nm uid ⟨bk, hbk, _⟩; simp [init] at hbk
    uf := by rintro n1 n2 uid ⟨bk, hbk, _⟩; simp [init] at hbk
    um := by rintro nm uid ⟨bk, hbk, _⟩; simp [init] at hbk }

theorem rrun_inv2 (q : Quirks) (ops : List XOp) {rs : RState} (hi : Inv2 rs)
    (hv : ∀ op ∈ ops, op.namesVersion = false) : Inv2 (rrun q rs ops).1 := by
  induction ops generalizing rs with
  | nil => exact hi
  | cons op ops ih =>
    simp only [rrun]
    exact ih (rstep_inv2 q hi op (hv op (List.mem_cons_self ..))) (fun o ho => hv o (List.mem_cons_of_mem _ ho))

theorem rrun_no_miss (q : Quirks) (ops : List XOp) {rs : RState} (hi : Inv2 rs)
    (hv : ∀ op ∈ ops, op.namesVersion = false) : ∀ o ∈ (rrun q rs ops).2, o.mapMiss = false := by
  induction ops generalizing rs with
  | nil => intro o ho; simp [rrun] at ho
  | cons op ops ih =>
    intro o ho
    simp only [rrun, List.mem_cons] at ho
    rcases ho with rfl | ho
    · exact no_miss q hi op (hv op (List.mem_cons_self ..))
    · exact ih (rstep_inv2 q hi op (hv op (List.mem_cons_self ..))) (fun o ho => hv o (List.mem_cons_of_mem _ ho)) o ho

-- ---------------------------------------------------------------- bucket names (used by C24)

/-! Bucket names: only CreateBucket adds one, only DeleteBucket removes one. -/

def names (s : State) : List String := s.buckets.map (·.name)

theorem names_setBucket (s : State) (X : Bucket) : names (setBucket s X) = names s := by
  simp only [names, setBucket, List.map_map]
  apply List.map_congr_left
  intro x _
  simp only [Function.comp]
  by_cases h : x.name = X.name <;> simp [h]

/-- "The bucket names are those of `s`." -/
def NF (s : State) (x : State × Out) : Prop := names x.1 = names s

theorem NF.same (s : State) (o : Out) : NF s (s, o) := rfl
theorem NF.ite {s : State} {c : Bool} {a b : State × Out} (ha : NF s a) (hb : NF s b) :
    NF s (if c = true then a else b) := by cases c <;> simpa

theorem NF.of_buckets {s : State} {x : State × Out} (X : Bucket) (h : x.1.buckets = (setBucket s X).buckets) : NF s x := by
  unfold NF names; rw [h]; exact names_setBucket s X

theorem NF.of_rp {s : State} {name : String} {L : List Nat} {x : State × Out} (h : RP s name L x) : NF s x := by
  obtain ⟨_, hb | ⟨X, hb, _, _⟩⟩ := h
  · unfold NF names; rw [hb]
  · exact NF.of_buckets X hb

theorem NF.withB {s : State} (b : String) {f : Bucket → State × Out}
    (hf : ∀ bk ∈ s.buckets, bk.name = b → NF s (f bk)) : NF s (Replication.withB s b f) :=
  withB_rp b (NF.same s _) hf

theorem NF.unpack {s : State} {bk : Bucket} (f : Option Nat → Out) (x : Except Err (State × Option Nat))
    (hx : ∀ r, x = .ok r → ∀ o, RP s bk.name (uids bk) (r.1, o)) : NF s (Replication.unpack s f x) :=
  NF.of_rp (unpack_rp f x hx)

theorem NF.res {s : State} (f : Row → State × Out) (hf : ∀ r, NF s (f r)) (x : Except Err Row) :
    NF s (match x with | .error e => (s, Out.err e) | .ok r => f r) := by
  cases x with
  | error e => exact NF.same s _
  | ok r => exact hf r

theorem delNone_nf (q : Quirks) (s : State) (bk : Bucket) (k : String) (im : IfMatch) : NF s (delNone q s bk k im) := by
  unfold delNone
  refine NF.ite (NF.ite (NF.same s _) (NF.same s _)) (NF.ite (NF.same s _) (NF.ite ?_ ?_))
  · exact NF.of_buckets _ rfl
  · cases latestRow bk k with
    | none => exact NF.same s _
    | some r => exact NF.of_buckets _ rfl

theorem appendOn_nf (q : Quirks) (s : State) (bk : Bucket) (k : String) (body : Bytes) (off : Option Nat) :
    NF s (appendOn q s bk k body off) := by
  unfold appendOn appendBody
  refine NF.ite (NF.same s _) ?_
  cases latestRow bk k with
  | none =>
    dsimp only
    cases hq : q.appendLatestInPlace <;>
      simp only [Bool.false_eq_true, if_false, if_true] <;>
      repeat' (first
        | exact NF.same s _
        | exact NF.unpack _ _ (fun r hr o => putRow_rp q s bk k _ _ _ r hr o)
        | exact NF.of_buckets _ rfl
        | apply NF.ite)
  | some a =>
    cases a with
    | mk rowId key vid dm latest created updated wrote parts etag ct md tags cls seqBase =>
    cases dm <;> cases hq : q.appendLatestInPlace <;> cases vid <;>
      simp only [Bool.false_eq_true, if_false, if_true, Option.isNone_none, Option.isNone_some] <;>
      repeat' (first
        | exact NF.same s _
        | exact NF.unpack _ _ (fun r hr o => putRow_rp q s bk k _ _ _ r hr o)
        | exact NF.of_buckets _ rfl
        | apply NF.ite)

/-- Every call but CreateBucket / DeleteBucket (and not naming a version id) leaves the bucket
names as they were. -/
theorem deleteOp_nf (q : Quirks) (s : State) (bk : Bucket) (k : String) (vid : Option (Option Nat)) (im : IfMatch) :
    NF s (deleteOp q s bk k vid im) := by
  cases vid with
  | none => rw [deleteOp_none_eq]; exact delNone_nf q s bk k im
  | some v =>
    unfold deleteOp
    dsimp only
    repeat' split
    all_goals first
      | exact NF.same s _
      | exact NF.of_buckets _ rfl

theorem step_names (q : Quirks) (s : State) (op : Op)
    (hmk : ∀ b, op ≠ .mkb b) (hrm : ∀ b, op ≠ .rmb b) : names (step q s op).1 = names s := by
  have key : NF (tick s) (step q s op) := by
    cases op with
    | mkb b => exact absurd rfl (hmk b)
    | rmb b => exact absurd rfl (hrm b)
    | setVer b v =>
      rw [step_setVer_eq]; exact NF.withB b fun bk _ _ => NF.of_buckets { bk with ver := v } rfl
    | put b k body o inm im =>
      rw [step_put_eq]
      exact NF.withB b fun bk _ _ => NF.unpack _ _ (fun r hr o => putRow_rp q _ bk k _ _ _ r hr o)
    | get b k vid =>
      rw [step_get_eq]; exact NF.withB b fun bk _ _ => by cases resolve bk k vid <;> exact NF.same _ _
    | head b k vid =>
      rw [step_head_eq]; exact NF.withB b fun bk _ _ => by cases resolve bk k vid <;> exact NF.same _ _
    | del b k vid im =>
      rw [step_del_eq]
      exact NF.withB b fun bk _ _ => deleteOp_nf q _ bk k vid im
    | copy sb sk svid db dk rm rt o =>
      rw [step_copy_eq]
      cases findBucket (tick s) sb with
      | none => exact NF.same _ _
      | some sbk =>
        dsimp only
        cases resolve sbk sk svid with
        | error e => exact NF.same _ _
        | ok src =>
          exact NF.withB db fun bk _ _ => NF.unpack _ _ (fun r hr o => putRow_rp q _ bk dk _ _ _ r hr o)
    | append b k body off =>
      rw [step_append_eq]; exact NF.withB b fun bk _ _ => appendOn_nf q _ bk k body off
    | mpu b k o =>
      rw [step_mpu_eq]
      exact NF.withB b fun bk _ _ => NF.of_buckets { bk with uploads := bk.uploads ++
        [{ uid := (tick s).nextUid, key := k, created := (tick s).clock, ct := o.ct, md := o.md, tags := o.tags, cls := o.cls }] } rfl
    | uploadPart b k uid n body =>
      rw [step_uploadPart_eq]
      refine NF.withB b fun bk _ _ => ?_
      cases hfu : bk.uploads.find? (fun u => u.uid == uid && u.key == k) with
      | none => exact NF.same _ _
      | some u => exact NF.of_rp (uploadPart_rp2 _ bk uid k n body u hfu _).rp
    | complete b k uid declared inm im =>
      rw [step_complete_eq]
      refine NF.withB b fun bk _ _ => ?_
      cases bk.uploads.find? (fun u => u.uid == uid && u.key == k) with
      | none => exact NF.same _ _
      | some u =>
        dsimp only
        refine NF.ite (NF.same _ _) ?_
        cases declaredErr u declared with
        | some e => exact NF.same _ _
        | none =>
          exact NF.unpack (bk := { bk with uploads := bk.uploads.filter (·.uid != uid) }) _ _
            (fun r hr o => putRow_rp q _ _ k _ _ _ r hr o)
    | abort b k uid =>
      rw [step_abort_eq]
      refine NF.withB b fun bk _ _ => ?_
      cases bk.uploads.find? (fun u => u.uid == uid && u.key == k) with
      | none => exact NF.same _ _
      | some u => exact NF.of_buckets { bk with uploads := bk.uploads.filter (·.uid != uid) } rfl
    | getTags b k vid =>
      rw [step_getTags_eq]; exact NF.withB b fun bk _ _ => by cases resolve bk k vid <;> exact NF.same _ _
    | putTags b k vid tags =>
      rw [step_putTags_eq]; exact NF.withB b fun bk _ _ => NF.res _ (fun r => NF.of_buckets _ rfl) _
    | delTags b k vid =>
      rw [step_delTags_eq]; exact NF.withB b fun bk _ _ => NF.res _ (fun r => NF.of_buckets _ rfl) _
    | transition b k cls vid =>
      rw [step_transition_eq]
      refine NF.withB b fun bk _ _ => ?_
      cases vid with
      | none =>
        dsimp only
        cases latestRow bk k with
        | none => exact NF.same _ _
        | some r => exact NF.ite (NF.same _ _) (NF.of_buckets _ rfl)
      | some v =>
        dsimp only
        cases rowByVid bk k v with
        | none => exact NF.same _ _
        | some r => exact NF.ite (NF.same _ _) (NF.of_buckets _ rfl)
    | list b => rw [step_list_eq]; exact NF.withB b fun bk _ _ => NF.same _ _
    | listVersions b => rw [step_listVersions_eq]; exact NF.withB b fun bk _ _ => NF.same _ _
    | listBuckets => exact NF.same _ _
  exact key

theorem step_mkb_names (q : Quirks) (s : State) (b : String) :
    names (step q s (.mkb b)).1 = names s ∨ (b ∉ names s ∧ names (step q s (.mkb b)).1 = names s ++ [b]) := by
  rw [step_mkb_eq]
  cases h : (findBucket (tick s) b).isSome
  · right
    simp only [Bool.false_eq_true, if_false]
    refine ⟨?_, by simp [names, tick]⟩
    intro hmem
    simp only [names, List.mem_map] at hmem
    obtain ⟨bk, hbk, hn⟩ := hmem
    have : (findBucket (tick s) b).isSome = true := by
      simp only [findBucket, List.find?_isSome]
      exact ⟨bk, hbk, by simp [hn]⟩
    rw [h] at this; cases this
  · left; simp [names, tick]

theorem step_rmb_names (q : Quirks) (s : State) (b : String) :
    (names (step q s (.rmb b)).1).Sublist (names s) := by
  rw [step_rmb_eq]
  unfold Replication.withB
  cases findBucket (tick s) b with
  | none => exact List.Sublist.refl _
  | some bk =>
    dsimp only
    split
    · exact List.Sublist.refl _
    · exact List.Sublist.map _ List.filter_sublist

theorem delManyLoop_names (q : Quirks) (b : String) (keys : List String) (s : State) :
    names (delManyLoop q b s keys).1 = names s := by
  induction keys generalizing s with
  | nil => rfl
  | cons k ks ih =>
    simp only [delManyLoop]
    rw [ih, step_names q s _ (fun _ h => by cases h) (fun _ h => by cases h)]

/-- The bucket names after any call: unchanged, or `b` appended by a CreateBucket of an absent `b`,
or a sublist after DeleteBucket. -/
theorem xstep_names (q : Quirks) (s : State) (op : XOp) :
    names (xstep q s op).1 = names s ∨
    (∃ b, op = .base (.mkb b) ∧ b ∉ names s ∧ names (xstep q s op).1 = names s ++ [b]) ∨
    (∃ b, op = .base (.rmb b) ∧ (names (xstep q s op).1).Sublist (names s)) := by
  cases op with
  | base op =>
    by_cases hmk : ∃ b, op = .mkb b
    · obtain ⟨b, rfl⟩ := hmk
      rcases step_mkb_names q s b with h | ⟨h1, h2⟩
      · exact Or.inl h
      · exact Or.inr (Or.inl ⟨b, rfl, h1, h2⟩)
    · by_cases hrm : ∃ b, op = .rmb b
      · obtain ⟨b, rfl⟩ := hrm
        exact Or.inr (Or.inr ⟨b, rfl, step_rmb_names q s b⟩)
      · exact Or.inl (step_names q s op (fun b h => hmk ⟨b, h⟩) (fun b h => hrm ⟨b, h⟩))
  | partCopy sb sk svid db dk uid n range =>
    left
    simp only [xstep]
    cases readSource s sb sk svid with
    | error e => rfl
    | ok r =>
      dsimp only
      cases sliceOf r.content range with
      | error e => rfl
      | ok body => exact step_names q s _ (fun _ h => by cases h) (fun _ h => by cases h)
  | delMany b keys =>
    left
    simp only [xstep]
    cases findBucket s b with
    | none => rfl
    | some bk => exact delManyLoop_names q b keys s

end Pithos.Replication

