/-
Helper lemmas for C23 (Props/C23.lean): `S3.step` cannot tell two states apart that differ only in
timestamps, as long as the call names no explicit version id (the only place where the model reads
a timestamp back — `promote` after deleting a version by id — is then unreachable).

`REqv`/`UEqv`/`BEqv`/`Equiv` = "equal after erasing timestamps". The lemmas are congruences: every
helper of `S3.step` maps related arguments to related results.
-/
import Pithos.Model.Replication

namespace Pithos.Replication
open Pithos.S3 Pithos.S3Ext

-- ---------------------------------------------------------------- generic list facts

/-- Relatedness of two optional values. -/
inductive OptRel {α : Type} (R : α → α → Prop) : Option α → Option α → Prop
  | none : OptRel R none none
  | some {a b : α} : R a b → OptRel R (some a) (some b)

theorem find?_congr {α : Type} (f : α → α) (p : α → Bool) (hp : ∀ a b, f a = f b → p a = p b) :
    ∀ l l' : List α, l.map f = l'.map f → OptRel (fun a b => f a = f b) (l.find? p) (l'.find? p)
  | [], [], _ => .none
  | [], _ :: _, h => by simp at h
  | _ :: _, [], h => by simp at h
  | a :: l, b :: l', h => by
    simp only [List.map_cons, List.cons.injEq] at h
    have hab := hp a b h.1
    simp only [List.find?_cons, hab]
    cases p b
    · exact find?_congr f p hp l l' h.2
    · exact .some h.1

theorem filter_congr {α : Type} (f : α → α) (p : α → Bool) (hp : ∀ a b, f a = f b → p a = p b) :
    ∀ l l' : List α, l.map f = l'.map f → (l.filter p).map f = (l'.filter p).map f
  | [], [], _ => rfl
  | [], _ :: _, h => by simp at h
  | _ :: _, [], h => by simp at h
  | a :: l, b :: l', h => by
    simp only [List.map_cons, List.cons.injEq] at h
    have hab := hp a b h.1
    simp only [List.filter_cons, hab]
    cases p b
    · exact filter_congr f p hp l l' h.2
    · simp [h.1, filter_congr f p hp l l' h.2]

theorem map_congr_rel {α : Type} (f : α → α) (g g' : α → α) (hg : ∀ a b, f a = f b → f (g a) = f (g' b)) :
    ∀ l l' : List α, l.map f = l'.map f → (l.map g).map f = (l'.map g').map f
  | [], [], _ => rfl
  | [], _ :: _, h => by simp at h
  | _ :: _, [], h => by simp at h
  | a :: l, b :: l', h => by
    simp only [List.map_cons, List.cons.injEq] at h
    simp [hg a b h.1, map_congr_rel f g g' hg l l' h.2]

theorem any_congr {α : Type} (f : α → α) (p : α → Bool) (hp : ∀ a b, f a = f b → p a = p b) :
    ∀ l l' : List α, l.map f = l'.map f → l.any p = l'.any p
  | [], [], _ => rfl
  | [], _ :: _, h => by simp at h
  | _ :: _, [], h => by simp at h
  | a :: l, b :: l', h => by
    simp only [List.map_cons, List.cons.injEq] at h
    simp [hp a b h.1, any_congr f p hp l l' h.2]

theorem isEmpty_congr {α : Type} (f : α → α) (l l' : List α) (h : l.map f = l'.map f) : l.isEmpty = l'.isEmpty := by
  cases l <;> cases l' <;> simp at h ⊢

-- ---------------------------------------------------------------- rows, uploads, buckets, states

abbrev REqv (r r' : Row) : Prop := eraseRow r = eraseRow r'
abbrev UEqv (u u' : Upload) : Prop := eraseUpload u = eraseUpload u'
abbrev BEqv (b b' : Bucket) : Prop := eraseBucket b = eraseBucket b'

theorem REqv.fields {r r' : Row} (h : REqv r r') :
    r.rowId = r'.rowId ∧ r.key = r'.key ∧ r.vid = r'.vid ∧ r.dm = r'.dm ∧ r.latest = r'.latest ∧
    r.parts = r'.parts ∧ r.etag = r'.etag ∧ r.ct = r'.ct ∧ r.md = r'.md ∧ r.tags = r'.tags ∧
    r.cls = r'.cls ∧ r.seqBase = r'.seqBase := by
  cases r; cases r'; simpa [REqv, eraseRow] using h

theorem REqv.of_fields {r r' : Row} (h : r.rowId = r'.rowId ∧ r.key = r'.key ∧ r.vid = r'.vid ∧ r.dm = r'.dm ∧
    r.latest = r'.latest ∧ r.parts = r'.parts ∧ r.etag = r'.etag ∧ r.ct = r'.ct ∧ r.md = r'.md ∧
    r.tags = r'.tags ∧ r.cls = r'.cls ∧ r.seqBase = r'.seqBase) : REqv r r' := by
  cases r; cases r'; simpa [REqv, eraseRow] using h

theorem UEqv.fields {u u' : Upload} (h : UEqv u u') :
    u.uid = u'.uid ∧ u.key = u'.key ∧ u.ct = u'.ct ∧ u.md = u'.md ∧ u.tags = u'.tags ∧ u.cls = u'.cls ∧
    u.parts = u'.parts := by
  cases u; cases u'; simpa [UEqv, eraseUpload] using h

theorem BEqv.fields {b b' : Bucket} (h : BEqv b b') :
    b.name = b'.name ∧ b.ver = b'.ver ∧ b.rows.map eraseRow = b'.rows.map eraseRow ∧
    b.uploads.map eraseUpload = b'.uploads.map eraseUpload := by
  cases b; cases b'; simpa [BEqv, eraseBucket] using h

theorem BEqv.of_fields {b b' : Bucket} (h : b.name = b'.name ∧ b.ver = b'.ver ∧
    b.rows.map eraseRow = b'.rows.map eraseRow ∧ b.uploads.map eraseUpload = b'.uploads.map eraseUpload) :
    BEqv b b' := by
  cases b; cases b'; simpa [BEqv, eraseBucket] using h

theorem Equiv.fields {s t : State} (h : Equiv s t) :
    s.buckets.map eraseBucket = t.buckets.map eraseBucket ∧ s.nextVid = t.nextVid ∧ s.nextUid = t.nextUid ∧
    s.nextRow = t.nextRow := by
  cases s; cases t; simpa [Equiv, erase] using h

theorem Equiv.of_fields {s t : State} (h : s.buckets.map eraseBucket = t.buckets.map eraseBucket ∧
    s.nextVid = t.nextVid ∧ s.nextUid = t.nextUid ∧ s.nextRow = t.nextRow) : Equiv s t := by
  cases s; cases t; simpa [Equiv, erase] using h

theorem Equiv.refl (s : State) : Equiv s s := rfl
theorem Equiv.symm {s t : State} (h : Equiv s t) : Equiv t s := Eq.symm h
theorem Equiv.trans {s t u : State} (h : Equiv s t) (h' : Equiv t u) : Equiv s u := Eq.trans h h'

/-- The clock is not part of the comparison. -/
theorem Equiv.clock (s : State) (c : Nat) : Equiv { s with clock := c } s := rfl
theorem equiv_tick (s : State) : Equiv (tick s) s := rfl

-- lookups

theorem latestRow_congr {bk bk' : Bucket} (h : BEqv bk bk') (k : String) :
    OptRel REqv (latestRow bk k) (latestRow bk' k) :=
  find?_congr eraseRow _ (fun a b hab => by obtain ⟨_, h2, _, _, h5, _⟩ := REqv.fields hab; simp [h2, h5]) _ _ h.fields.2.2.1

theorem rowByVid_congr {bk bk' : Bucket} (h : BEqv bk bk') (k : String) (v : Option Nat) :
    OptRel REqv (rowByVid bk k v) (rowByVid bk' k v) :=
  find?_congr eraseRow _ (fun a b hab => by obtain ⟨_, h2, h3, _⟩ := REqv.fields hab; simp [h2, h3]) _ _ h.fields.2.2.1

theorem nullRow_congr {bk bk' : Bucket} (h : BEqv bk bk') (k : String) :
    OptRel REqv (nullRow bk k) (nullRow bk' k) := rowByVid_congr h k none

theorem findBucket_congr {s t : State} (h : Equiv s t) (b : String) :
    OptRel BEqv (findBucket s b) (findBucket t b) :=
  find?_congr eraseBucket _ (fun a c hac => by simp [(BEqv.fields hac).1]) _ _ h.fields.1

theorem findUpload_congr {bk bk' : Bucket} (h : BEqv bk bk') (uid : Nat) (k : String) :
    OptRel UEqv (bk.uploads.find? fun u => u.uid == uid && u.key == k) (bk'.uploads.find? fun u => u.uid == uid && u.key == k) :=
  find?_congr eraseUpload _ (fun a b hab => by obtain ⟨h1, h2, _⟩ := UEqv.fields hab; simp [h1, h2]) _ _ h.fields.2.2.2

-- updates

theorem eraseRow_touch (q : Quirks) (n : Nat) (r : Row) : eraseRow (touch q n r) = eraseRow r := by
  cases r; rfl

theorem touch_congr (q : Quirks) (n n' : Nat) {r r' : Row} (h : REqv r r') : REqv (touch q n r) (touch q n' r') := by
  simp only [REqv, eraseRow_touch]; exact h

theorem replaceRow_congr {bk bk' : Bucket} {r r' : Row} (h : BEqv bk bk') (hr : REqv r r') :
    BEqv (replaceRow bk r) (replaceRow bk' r') := by
  obtain ⟨h1, h2, h3, h4⟩ := h.fields
  refine BEqv.of_fields ⟨h1, h2, ?_, h4⟩
  refine map_congr_rel eraseRow _ _ ?_ _ _ h3
  intro a b hab
  have e1 := (REqv.fields hab).1
  have e2 := (REqv.fields hr).1
  by_cases hc : b.rowId = r'.rowId
  · simp [e1, e2, hc]; exact hr
  · simp [e1, e2, hc]; exact hab

theorem removeRow_congr {bk bk' : Bucket} (h : BEqv bk bk') (id : Nat) :
    BEqv (removeRow bk id) (removeRow bk' id) := by
  obtain ⟨h1, h2, h3, h4⟩ := h.fields
  refine BEqv.of_fields ⟨h1, h2, ?_, h4⟩
  exact filter_congr eraseRow _ (fun a b hab => by simp [(REqv.fields hab).1]) _ _ h3

theorem addRow_congr {bk bk' : Bucket} {r r' : Row} (h : BEqv bk bk') (hr : REqv r r') :
    BEqv (addRow bk r) (addRow bk' r') := by
  obtain ⟨h1, h2, h3, h4⟩ := h.fields
  refine BEqv.of_fields ⟨h1, h2, ?_, h4⟩
  simp only [addRow, List.map_append, h3, List.map_cons, List.map_nil]
  rw [show eraseRow r = eraseRow r' from hr]

theorem unlatest_congr (q : Quirks) (n n' : Nat) {bk bk' : Bucket} {r r' : Row} (h : BEqv bk bk') (hr : REqv r r') :
    BEqv (unlatest q n bk r) (unlatest q n' bk' r') := by
  refine replaceRow_congr h ?_
  obtain ⟨f1, f2, f3, f4, f5, f6, f7, f8, f9, f10, f11, f12⟩ := REqv.fields hr
  exact REqv.of_fields ⟨f1, f2, f3, f4, rfl, f6, f7, f8, f9, f10, f11, f12⟩

theorem setBucket_congr {s t : State} {bk bk' : Bucket} (h : Equiv s t) (hb : BEqv bk bk') :
    Equiv (setBucket s bk) (setBucket t bk') := by
  obtain ⟨h1, h2, h3, h4⟩ := h.fields
  refine Equiv.of_fields ⟨?_, h2, h3, h4⟩
  refine map_congr_rel eraseBucket _ _ ?_ _ _ h1
  intro a b hab
  have e1 := (BEqv.fields hab).1
  have e2 := (BEqv.fields hb).1
  by_cases hc : b.name = bk'.name
  · simp [e1, e2, hc]; exact hb
  · simp [e1, e2, hc]; exact hab

-- ---------------------------------------------------------------- the write path

theorem mkRow_congr (id : Nat) (k : String) (vid : Option Nat) (c c' n n' : Nat) (x : NewObj) :
    REqv (mkRow id k vid c n x) (mkRow id k vid c' n' x) := rfl

theorem Equiv.with2 {s t : State} (h : Equiv s t) (a b : Nat) :
    Equiv { s with nextVid := a, nextRow := b } { t with nextVid := a, nextRow := b } := by
  obtain ⟨h1, _, h3, _⟩ := h.fields
  exact Equiv.of_fields ⟨h1, rfl, h3, rfl⟩

theorem Equiv.with1 {s t : State} (h : Equiv s t) (b : Nat) :
    Equiv { s with nextRow := b } { t with nextRow := b } := by
  obtain ⟨h1, h2, h3, _⟩ := h.fields
  exact Equiv.of_fields ⟨h1, h2, h3, rfl⟩

theorem Equiv.withUid {s t : State} (h : Equiv s t) (b : Nat) :
    Equiv { s with nextUid := b } { t with nextUid := b } := by
  obtain ⟨h1, h2, _, h4⟩ := h.fields
  exact Equiv.of_fields ⟨h1, h2, rfl, h4⟩

theorem unlatestCur_congr (q : Quirks) (n n' : Nat) {bk bk' : Bucket} (h : BEqv bk bk') (k : String) :
    BEqv (unlatestCur q n bk k) (unlatestCur q n' bk' k) := by
  unfold unlatestCur
  have hl := latestRow_congr h k
  generalize latestRow bk k = x at hl ⊢
  generalize latestRow bk' k = y at hl ⊢
  cases hl with
  | none => exact h
  | some hr => exact unlatest_congr q n n' h hr

theorem install_congr (q : Quirks) {s t : State} {bk bk' : Bucket} (h : Equiv s t) (hb : BEqv bk bk')
    (k : String) (n : NewObj) :
    Equiv (install q s bk k n).1 (install q t bk' k n).1 ∧ (install q s bk k n).2 = (install q t bk' k n).2 := by
  obtain ⟨e1, e2, e3, e4⟩ := h.fields
  have hv := hb.fields.2.1
  have hu := unlatestCur_congr q s.clock t.clock hb k
  unfold install
  simp only [hv, e2, e4]
  split
  · exact ⟨Equiv.with2 (setBucket_congr h (addRow_congr hu (mkRow_congr ..))) _ _, rfl⟩
  · have hn := nullRow_congr hb k
    generalize nullRow bk k = x at hn ⊢
    generalize nullRow bk' k = y at hn ⊢
    cases hn with
    | none => exact ⟨Equiv.with1 (setBucket_congr h (addRow_congr hu (mkRow_congr ..))) _, rfl⟩
    | @some a b hr =>
      dsimp only
      rw [(REqv.fields hr).1]
      exact ⟨setBucket_congr h (replaceRow_congr hu (mkRow_congr ..)), rfl⟩


/-- Relatedness of two `putRow` results. -/
inductive ExRel : Except Err (State × Option Nat) → Except Err (State × Option Nat) → Prop
  | error (e : Err) : ExRel (.error e) (.error e)
  | ok {s t : State} (v : Option Nat) : Equiv s t → ExRel (.ok (s, v)) (.ok (t, v))

theorem ExRel.of_install {a b : State × Option Nat} (h : Equiv a.1 b.1 ∧ a.2 = b.2) : ExRel (.ok a) (.ok b) := by
  obtain ⟨a1, a2⟩ := a; obtain ⟨b1, b2⟩ := b
  simp only at h
  obtain ⟨h1, h2⟩ := h
  subst h2
  exact .ok _ h1

theorem isSome_congr {α : Type} {R : α → α → Prop} {x y : Option α} (h : OptRel R x y) : x.isSome = y.isSome := by
  cases h <;> rfl

theorem ifMatchOk_congr (im : IfMatch) {x y : Option Row} (h : OptRel REqv x y) : ifMatchOk im x = ifMatchOk im y := by
  cases h with
  | none => rfl
  | some hr =>
    obtain ⟨_, _, _, f4, _, _, f7, _⟩ := REqv.fields hr
    cases im <;> simp [ifMatchOk, f4, f7]

theorem putRow_tail (q : Quirks) {s t : State} (h : Equiv s t) {B B' : Bucket} (hb1 : BEqv B B') (k : String)
    (n : NewObj) (c1 c2 c3 : Bool) :
    ExRel
      (if c1 = true then Except.error Err.preconditionFailed
       else if c2 = true then Except.error Err.preconditionFailed
       else if (c3 && (nullRow B k).isSome) = true then Except.error Err.preconditionFailed
       else Except.ok (install q s B k n))
      (if c1 = true then Except.error Err.preconditionFailed
       else if c2 = true then Except.error Err.preconditionFailed
       else if (c3 && (nullRow B' k).isSome) = true then Except.error Err.preconditionFailed
       else Except.ok (install q t B' k n)) := by
  have hs := isSome_congr (nullRow_congr hb1 k)
  simp only [hs]
  split
  · exact .error _
  · split
    · exact .error _
    · split
      · exact .error _
      · exact ExRel.of_install (install_congr q h hb1 k n)

theorem putRow_congr (q : Quirks) {s t : State} {bk bk' : Bucket} (h : Equiv s t) (hb : BEqv bk bk')
    (k : String) (n : NewObj) (inm : Bool) (im : IfMatch) :
    ExRel (putRow q s bk k n inm im) (putRow q t bk' k n inm im) := by
  unfold putRow
  have hl := latestRow_congr hb k
  have hv := hb.fields.2.1
  have him := ifMatchOk_congr im hl
  generalize latestRow bk k = x at hl him ⊢
  generalize latestRow bk' k = y at hl him ⊢
  dsimp only
  simp only [him, hv]
  cases hl with
  | none => exact putRow_tail q h hb k n _ _ _
  | @some a b hr =>
    dsimp only
    simp only [(REqv.fields hr).2.2.2.1]
    have hb1 : BEqv (if (inm || im != IfMatch.none) = true then replaceRow bk (touch q s.clock a) else bk)
        (if (inm || im != IfMatch.none) = true then replaceRow bk' (touch q t.clock b) else bk') := by
      split
      · exact replaceRow_congr hb (touch_congr q _ _ hr)
      · exact hb
    exact putRow_tail q h hb1 k n _ _ _

end Pithos.Replication

