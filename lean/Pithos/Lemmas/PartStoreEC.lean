/-
`Sim` is preserved by the erasure-coding middleware over `c.n` copies of a correct inner store
(helper for C15). As the code is, a `get` of an absent part is not covered (`absentGet := false`):
it heals an empty part into existence; with `notFoundWhenAllMissing` it is.
-/
import Pithos.Lemmas.PartStoreOutbox
import Pithos.Lemmas.ErasureCoding

namespace Pithos.PartStore
open Pithos.Codec

def ecStreams {S : Store} {R : Restr} (sim : Sim R S) (c : EC.Cfg) (s : Nat → S.σ) (i : PartId) : List (Option Bytes) :=
  (List.range c.n).map fun k => sim.abs (s k) i

/-- The content of the erasure-coded store for an id: what the (repaired) read logic makes of the
contents of the shard stores. -/
def ecAbs {S : Store} {R : Restr} (P : Prims) (sim : Sim R S) (c : EC.Cfg) (s : Nat → S.σ) (i : PartId) : Option Bytes :=
  match EC.read c P.code P.hash EC.Fix.repaired (ecStreams sim c s i) with
  | .result r => if r.failed then none else some r.out
  | .notFound => none

/-- Either no shard store holds the id, or shard store `k` holds exactly shard stream `k` of one part. -/
def ECInv {S : Store} {R : Restr} (P : Prims) (sim : Sim R S) (c : EC.Cfg) (s : Nat → S.σ) : Prop :=
  (∀ k, k < c.n → sim.Inv (s k)) ∧
  ∀ i, (∀ k, k < c.n → sim.abs (s k) i = none) ∨
    ∃ b, ∀ k, k < c.n → sim.abs (s k) i = some (EC.shardStream c P.code P.hash k b)

theorem ecStreams_none {S : Store} {R : Restr} (sim : Sim R S) (c : EC.Cfg) (s : Nat → S.σ) (i : PartId)
    (h : ∀ k, k < c.n → sim.abs (s k) i = none) : ecStreams sim c s i = List.replicate c.n none := by
  unfold ecStreams
  apply List.ext_getElem
  · simp
  · intro k h1 h2
    simp only [List.getElem_map, List.getElem_range, List.getElem_replicate]
    exact h k (by simpa using h1)

theorem ecStreams_some {S : Store} {R : Restr} (P : Prims) (sim : Sim R S) (c : EC.Cfg) (s : Nat → S.σ) (i : PartId) (b : Bytes)
    (h : ∀ k, k < c.n → sim.abs (s k) i = some (EC.shardStream c P.code P.hash k b)) :
    ecStreams sim c s i = (List.range c.n).map fun k => some (EC.shardStream c P.code P.hash k b) := by
  unfold ecStreams
  apply List.map_congr_left
  intro k hk
  exact h k (List.mem_range.1 hk)

theorem ecAbs_none {S : Store} {R : Restr} (P : Prims) (sim : Sim R S) (c : EC.Cfg) (s : Nat → S.σ) (i : PartId)
    (h : ∀ k, k < c.n → sim.abs (s k) i = none) : ecAbs P sim c s i = none := by
  unfold ecAbs
  rw [ecStreams_none sim c s i h, EC.read_absent]
  rfl

theorem ecAbs_some {S : Store} {R : Restr} (P : Prims) (sim : Sim R S) (c : EC.Cfg) (wf : EC.WF c P.code P.hash)
    (s : Nat → S.σ) (i : PartId) (b : Bytes)
    (h : ∀ k, k < c.n → sim.abs (s k) i = some (EC.shardStream c P.code P.hash k b)) : ecAbs P sim c s i = some b := by
  unfold ecAbs
  rw [ecStreams_some P sim c s i b h, EC.read_intact c P.code P.hash wf _ b]
  rfl

theorem ecAbs_congr {S : Store} {R : Restr} (P : Prims) (sim : Sim R S) (c : EC.Cfg) (s s' : Nat → S.σ) (i : PartId)
    (h : ∀ k, k < c.n → sim.abs (s' k) i = sim.abs (s k) i) : ecAbs P sim c s' i = ecAbs P sim c s i := by
  unfold ecAbs ecStreams
  have : ((List.range c.n).map fun k => sim.abs (s' k) i) = (List.range c.n).map fun k => sim.abs (s k) i :=
    List.map_congr_left fun k hk => h k (List.mem_range.1 hk)
  rw [this]

/-- pointwise update of the shard stores preserves the invariant when every shard store's content
changes in the same way -/
theorem ecInv_of {S : Store} {R : Restr} (P : Prims) (sim : Sim R S) (c : EC.Cfg) (s s' : Nat → S.σ)
    (h : ECInv P sim c s) (hI : ∀ k, k < c.n → sim.Inv (s' k))
    (hA : ∀ k, k < c.n → sim.abs (s' k) = sim.abs (s k)) : ECInv P sim c s' := by
  refine ⟨hI, fun i => ?_⟩
  rcases h.2 i with h1 | ⟨b, h1⟩
  · exact Or.inl fun k hk => by rw [hA k hk]; exact h1 k hk
  · exact Or.inr ⟨b, fun k hk => by rw [hA k hk]; exact h1 k hk⟩

theorem ec_get_spec (P : Prims) (F : Fixes) (c : EC.Cfg) (wf : EC.WF c P.code P.hash) {S : Store}
    {Q : Bytes → Prop} {g cin : Bool} (sim : Sim ⟨Q, g, cin⟩ S) (tx : Bool) (s : Nat → S.σ) (i : PartId)
    (h : ECInv P sim c s)
    (a : (g && F.ec.notFoundWhenAllMissing) = true ∨ (ecAbs P sim c s i).isSome = true) :
    ECInv P sim c ((ecWrap P F c S).get tx s i).st ∧
    (∀ j, ecAbs P sim c ((ecWrap P F c S).get tx s i).st j = ecAbs P sim c s j) ∧
    OutOk ((ecWrap P F c S).get tx s i).out (ecAbs P sim c s i) ∧
    (∀ st, ((ecWrap P F c S).get tx s i).out = .ok st → st.afterEof = []) ∧
    ((ecWrap P F c S).get tx s i).panicked = false := by
  have hn1 : 1 ≤ c.n := by have := wf.d_pos; simp [EC.Cfg.n]; omega
  -- every shard store's own get is covered
  have hallow : ∀ k, k < c.n → Allowed ⟨Q, g, cin⟩ (sim.abs (s k) i) := by
    intro k hk
    rcases h.2 i with h1 | ⟨b, h1⟩
    · rcases a with a | a
      · exact Or.inl (by simp at a; exact a.1)
      · rw [ecAbs_none P sim c s i h1] at a; cases a
    · exact Or.inr (by rw [h1 k hk]; rfl)
  have hI1 : ∀ k, k < c.n → sim.Inv (S.get tx (s k) i).st := fun k hk => sim.get_inv tx (s k) i (h.1 k hk) (hallow k hk)
  have hA1 : ∀ k, k < c.n → sim.abs (S.get tx (s k) i).st = sim.abs (s k) :=
    fun k hk => sim.get_abs tx (s k) i (h.1 k hk) (hallow k hk)
  have hO1 : ∀ k, k < c.n → OutOk (S.get tx (s k) i).out (sim.abs (s k) i) :=
    fun k hk => sim.get_out tx (s k) i (h.1 k hk) (hallow k hk)
  have hQ1 : ∀ k, k < c.n → (S.get tx (s k) i).panicked = false :=
    fun k hk => sim.get_quiet tx (s k) i (h.1 k hk) (hallow k hk)
  have hpan : ((List.range c.n).map fun k => S.get tx (s k) i).any (·.panicked) = false := by
    rw [List.any_eq_false]
    intro r hr
    obtain ⟨k, hk, rfl⟩ := List.mem_map.1 hr
    simp [hQ1 k (List.mem_range.1 hk)]
  -- the state after the shard stores' gets
  have hs1 : ECInv P sim c (fun k => if k < c.n then (S.get tx (s k) i).st else s k) :=
    ecInv_of P sim c s _ h (fun k hk => by simp only [hk, if_true]; exact hI1 k hk)
      (fun k hk => by simp only [hk, if_true]; exact hA1 k hk)
  have hs1abs : ∀ j, ecAbs P sim c (fun k => if k < c.n then (S.get tx (s k) i).st else s k) j = ecAbs P sim c s j :=
    fun j => ecAbs_congr P sim c s _ j (fun k hk => by simp only [hk, if_true]; rw [hA1 k hk])
  rcases h.2 i with h1 | ⟨b, h1⟩
  · -- no shard: only covered with the repair
    have hg : (g && F.ec.notFoundWhenAllMissing) = true := by
      rcases a with a | a
      · exact a
      · rw [ecAbs_none P sim c s i h1] at a; cases a
    have hfix : F.ec.notFoundWhenAllMissing = true := by simp at hg; exact hg.2
    have houts : ∀ k, k < c.n → (S.get tx (s k) i).out = .notFound := by
      intro k hk; have := hO1 k hk; rw [h1 k hk] at this; exact this
    have herr : ((List.range c.n).map fun k => S.get tx (s k) i).any (fun r => r.out == GetOut.err) = false := by
      rw [List.any_eq_false]
      intro r hr
      obtain ⟨k, hk, rfl⟩ := List.mem_map.1 hr
      simp [houts k (List.mem_range.1 hk)]
    have hstreams : (((List.range c.n).map fun k => S.get tx (s k) i).map fun r => r.out.bytes?)
        = List.replicate c.n none := by
      rw [List.map_map]
      apply List.ext_getElem
      · simp
      · intro k hk1 hk2
        simp only [List.getElem_map, List.getElem_range, Function.comp, List.getElem_replicate]
        rw [houts k (by simpa using hk1)]
        rfl
    simp only [ecWrap, herr, Bool.false_eq_true, if_false, hstreams, EC.read_absent, hfix, if_true, hpan]
    rw [ecAbs_none P sim c s i h1]
    exact ⟨hs1, hs1abs, rfl, (fun st he => by cases he), by trivial⟩
  · -- all shards present and intact
    have houts : ∀ k, k < c.n → ∃ st, (S.get tx (s k) i).out = .ok st ∧ st.bytes = EC.shardStream c P.code P.hash k b := by
      intro k hk; have := hO1 k hk; rw [h1 k hk] at this; exact this
    have herr : ((List.range c.n).map fun k => S.get tx (s k) i).any (fun r => r.out == GetOut.err) = false := by
      rw [List.any_eq_false]
      intro r hr
      obtain ⟨k, hk, rfl⟩ := List.mem_map.1 hr
      obtain ⟨st, hst, _⟩ := houts k (List.mem_range.1 hk)
      simp [hst]
    have hstreams : (((List.range c.n).map fun k => S.get tx (s k) i).map fun r => r.out.bytes?)
        = (List.range c.n).map fun k => some (EC.shardStream c P.code P.hash k b) := by
      rw [List.map_map]
      apply List.map_congr_left
      intro k hk
      obtain ⟨st, hst, hbytes⟩ := houts k (List.mem_range.1 hk)
      simp only [Function.comp, hst, GetOut.bytes?, hbytes]
    simp only [ecWrap, herr, Bool.false_eq_true, if_false, hstreams, EC.read_intact c P.code P.hash wf F.ec b, hpan]
    have hheal : ∀ k, (List.replicate c.n (none : Option Bytes)).getD k none = none := by
      intro k; simp [List.getD_eq_getElem?_getD, List.getElem?_replicate]; split <;> rfl
    have hany : (List.replicate c.n (none : Option Bytes)).any Option.isSome = false := by simp
    simp only [hheal, hany, Bool.false_and, Bool.or_false]
    rw [ecAbs_some P sim c wf s i b h1]
    exact ⟨hs1, hs1abs, ⟨_, rfl, rfl⟩, (fun st he => by injection he with he; rw [← he]), by trivial⟩

/-- The contents the erasure-coded store is claimed for: those all of whose shard streams are contents
the shard stores are claimed for. -/
def ecOk (P : Prims) (c : EC.Cfg) (Q : Bytes → Prop) (b : Bytes) : Prop :=
  ∀ k, k < c.n → Q (EC.shardStream c P.code P.hash k b)

/-- **erasure coding preserves correctness** over `d + p` copies of a correct inner store. A `get` of
an absent part is covered only with the repair (`notFoundWhenAllMissing`). The streams handed out
are always clean (a pipe). -/
def ecSim (P : Prims) (F : Fixes) (c : EC.Cfg) (wf : EC.WF c P.code P.hash) {S : Store}
    {Q : Bytes → Prop} {g cin : Bool} (sim : Sim ⟨Q, g, cin⟩ S) :
    Sim ⟨ecOk P c Q, g && F.ec.notFoundWhenAllMissing, true⟩ (ecWrap P F c S) where
  Inv (s : Nat → S.σ) := ECInv P sim c s
  abs (s : Nat → S.σ) := ecAbs P sim c s
  inv_init := ⟨fun _ _ => sim.inv_init, fun i => Or.inl fun _ _ => sim.abs_init i⟩
  abs_init i := ecAbs_none P sim c _ i fun _ _ => sim.abs_init i
  put_inv tx s i b h hb := by
    have hA : ∀ k, k < c.n → sim.abs (S.put tx (s k) i (EC.shardStream c P.code P.hash k b))
        = upd (sim.abs (s k)) i (some (EC.shardStream c P.code P.hash k b)) :=
      fun k hk => sim.put_abs tx (s k) i _ (h.1 k hk) (hb k hk)
    refine ⟨fun k hk => ?_, fun j => ?_⟩
    · simp only [hk, if_true]
      exact sim.put_inv tx (s k) i _ (h.1 k hk) (hb k hk)
    · by_cases hj : j = i
      · subst hj
        exact Or.inr ⟨b, fun k hk => by simp only [hk, if_true]; rw [hA k hk, upd_self]⟩
      · rcases h.2 j with h1 | ⟨b', h1⟩
        · exact Or.inl fun k hk => by simp only [hk, if_true]; rw [hA k hk, upd_ne _ _ _ _ hj]; exact h1 k hk
        · exact Or.inr ⟨b', fun k hk => by simp only [hk, if_true]; rw [hA k hk, upd_ne _ _ _ _ hj]; exact h1 k hk⟩
  put_abs tx s i b h hb := by
    have hA : ∀ k, k < c.n → sim.abs (S.put tx (s k) i (EC.shardStream c P.code P.hash k b))
        = upd (sim.abs (s k)) i (some (EC.shardStream c P.code P.hash k b)) :=
      fun k hk => sim.put_abs tx (s k) i _ (h.1 k hk) (hb k hk)
    funext j
    by_cases hj : j = i
    · subst hj
      rw [upd_self]
      exact ecAbs_some P sim c wf _ j b fun k hk => by simp only [hk, if_true]; rw [hA k hk, upd_self]
    · rw [upd_ne _ _ _ _ hj]
      exact ecAbs_congr P sim c s _ j fun k hk => by simp only [hk, if_true]; rw [hA k hk, upd_ne _ _ _ _ hj]
  get_inv tx s i h a := (ec_get_spec P F c wf sim tx s i h a).1
  get_abs tx s i h a := funext (ec_get_spec P F c wf sim tx s i h a).2.1
  get_out tx s i h a := (ec_get_spec P F c wf sim tx s i h a).2.2.1
  get_clean tx s i st h a _ he := (ec_get_spec P F c wf sim tx s i h a).2.2.2.1 st he
  get_quiet tx s i h a := (ec_get_spec P F c wf sim tx s i h a).2.2.2.2
  del_inv tx s i h := by
    have hA : ∀ k, k < c.n → sim.abs (S.del tx (s k) i) = upd (sim.abs (s k)) i none :=
      fun k hk => sim.del_abs tx (s k) i (h.1 k hk)
    refine ⟨fun k hk => ?_, fun j => ?_⟩
    · simp only [hk, if_true]
      exact sim.del_inv tx (s k) i (h.1 k hk)
    · by_cases hj : j = i
      · subst hj
        exact Or.inl fun k hk => by simp only [hk, if_true]; rw [hA k hk, upd_self]
      · rcases h.2 j with h1 | ⟨b', h1⟩
        · exact Or.inl fun k hk => by simp only [hk, if_true]; rw [hA k hk, upd_ne _ _ _ _ hj]; exact h1 k hk
        · exact Or.inr ⟨b', fun k hk => by simp only [hk, if_true]; rw [hA k hk, upd_ne _ _ _ _ hj]; exact h1 k hk⟩
  del_abs tx s i h := by
    have hA : ∀ k, k < c.n → sim.abs (S.del tx (s k) i) = upd (sim.abs (s k)) i none :=
      fun k hk => sim.del_abs tx (s k) i (h.1 k hk)
    funext j
    by_cases hj : j = i
    · subst hj
      rw [upd_self]
      exact ecAbs_none P sim c _ j fun k hk => by simp only [hk, if_true]; rw [hA k hk, upd_self]
    · rw [upd_ne _ _ _ _ hj]
      exact ecAbs_congr P sim c s _ j fun k hk => by simp only [hk, if_true]; rw [hA k hk, upd_ne _ _ _ _ hj]
  tick_inv s h :=
    ecInv_of P sim c s _ h (fun k hk => by simp only [hk, if_true]; exact sim.tick_inv (s k) (h.1 k hk))
      (fun k hk => by simp only [hk, if_true]; exact sim.tick_abs (s k) (h.1 k hk))
  tick_abs s h := by
    funext j
    exact ecAbs_congr P sim c s _ j fun k hk => by simp only [hk, if_true]; rw [sim.tick_abs (s k) (h.1 k hk)]
  ids_mem s i h := by
    have hn1 : 1 ≤ c.n := by have := wf.d_pos; simp [EC.Cfg.n]; omega
    show i ∈ dedup ((List.range c.n).flatMap fun k => S.ids (s k)) ↔ (ecAbs P sim c s i).isSome = true
    rw [mem_dedup, List.mem_flatMap]
    rcases h.2 i with h1 | ⟨b, h1⟩
    · rw [ecAbs_none P sim c s i h1]
      constructor
      · rintro ⟨k, hk, hi⟩
        have hk' := List.mem_range.1 hk
        rw [sim.ids_mem (s k) i (h.1 k hk'), h1 k hk'] at hi
        cases hi
      · intro hc; cases hc
    · rw [ecAbs_some P sim c wf s i b h1]
      constructor
      · intro _; rfl
      · intro _
        refine ⟨0, List.mem_range.2 (by omega), ?_⟩
        rw [sim.ids_mem (s 0) i (h.1 0 (by omega)), h1 0 (by omega)]
        rfl
  ids_nodup s _ := nodup_dedup _

end Pithos.PartStore
