/-
Helper lemmas for the transaction/filesystem model (Model/TxFs.lean), used by Props/C03 and
Props/C10. Core Lean only.
-/
import Pithos.Model.TxFs

namespace Pithos.TxFs

-- ---------------------------------------------------------------- basics

def FName.id : FName → Nat
  | .part id => id
  | .backup id _ => id
  | .temp id _ => id

@[simp] theorem set_same (fs : Files) (n : FName) (v : Option Bytes) : (fs.set n v) n = v := by
  simp [Files.set]

theorem set_other (fs : Files) (n m : FName) (v : Option Bytes) (h : m ≠ n) : (fs.set n v) m = fs m := by
  simp [Files.set, h]

/-- The temp file a registration creates (none for DeletePart). -/
def eraseTemp (r : Reg) (i : Nat) (fs : Files) : Files :=
  match r with
  | .put id _ => fs.set (.temp id i) none
  | .del _ => fs

/-- `nm` is the temp file of one of the registrations `rs` (slots `i, i+1, …`). -/
def isTempOf : List Reg → Nat → FName → Bool
  | [], _, _ => false
  | r :: rs, i, nm => (match r with | .put id _ => nm == .temp id i | .del _ => false) || isTempOf rs (i + 1) nm

/-- Names of this transaction are unused before it starts; every PutPart has written its temp file. -/
def Ready : List Reg → Nat → Files → Prop
  | [], _, _ => True
  | r :: rs, i, fs =>
    fs (.backup r.id i) = none ∧ (∀ id c, r = .put id c → fs (.temp id i) = some c) ∧ Ready rs (i + 1) fs

theorem isTempOf_slot_lt (rs : List Reg) (i : Nat) (nm : FName) (h : isTempOf rs i nm = true) :
    ∃ id j, nm = .temp id j ∧ i ≤ j := by
  induction rs generalizing i with
  | nil => simp [isTempOf] at h
  | cons r rs ih =>
    simp only [isTempOf, Bool.or_eq_true] at h
    rcases h with h | h
    · cases r with
      | put id c => exact ⟨id, i, by simpa using h, Nat.le_refl _⟩
      | del id => simp at h
    · obtain ⟨id, j, hj, hle⟩ := ih (i + 1) h
      exact ⟨id, j, hj, by omega⟩

theorem isTempOf_part (rs : List Reg) (i id : Nat) : isTempOf rs i (.part id) = false := by
  cases h : isTempOf rs i (.part id) with
  | false => rfl
  | true => obtain ⟨_, _, hj, _⟩ := isTempOf_slot_lt rs i _ h; cases hj

theorem isTempOf_backup (rs : List Reg) (i id j : Nat) : isTempOf rs i (.backup id j) = false := by
  cases h : isTempOf rs i (.backup id j) with
  | false => rfl
  | true => obtain ⟨_, _, hj, _⟩ := isTempOf_slot_lt rs i _ h; cases hj

theorem isTempOf_temp_lt (rs : List Reg) (i id j : Nat) (hlt : j < i) : isTempOf rs i (.temp id j) = false := by
  cases h : isTempOf rs i (.temp id j) with
  | false => rfl
  | true =>
    obtain ⟨_, _, hj, hle⟩ := isTempOf_slot_lt rs i _ h
    cases hj; omega

-- ---------------------------------------------------------------- one closure undone

theorem preLoop_zero (rs : List Reg) (i : Nat) (fs : Files) :
    preLoop rs i 0 fs = (fs, rs.map (fun _ => ({} : Flags)), true) := by
  cases rs with
  | nil => rfl
  | cons r rs => simp [preLoop]

/-- The heart of C03: running one pre-commit closure and later its rollback closure — whatever
happened to the temp files of *later* registrations in between (`G` = the directory after the
later closures were run and rolled back) — gives back the directory before the closure, minus
this registration's temp file. -/
theorem undo_step (r : Reg) (i : Nat) (fs G : Files) (T : FName → Bool)
    (hb : fs (.backup r.id i) = none)
    (ht : ∀ id c, r = .put id c → fs (.temp id i) = some c)
    (hG : ∀ nm, G nm = if T nm then none else (preHook r i fs).1 nm)
    (hTp : T (.part r.id) = false) (hTb : T (.backup r.id i) = false) (hTt : T (.temp r.id i) = false) :
    (preHook r i fs).2.2 = true ∧
    ∀ nm, rollbackHook r i (preHook r i fs).2.1 G nm = if T nm then none else eraseTemp r i fs nm := by
  cases r with
  | del id =>
    simp only [Reg.id] at hb hTp hTb hTt
    cases hp : fs (.part id) with
    | none =>
      have hpre : preHook (.del id) i fs = (fs, {}, true) := by simp [preHook, renameAway, Reg.id, hp]
      rw [hpre] at hG ⊢
      refine ⟨rfl, fun nm => ?_⟩
      simp [rollbackHook, eraseTemp, hG]
    | some v =>
      have hpre : preHook (.del id) i fs =
          (((fs.set (.part id) none).set (.backup id i) (some v)), { backupCreated := true }, true) := by
        simp [preHook, renameAway, Reg.id, hp]
      rw [hpre] at hG ⊢
      refine ⟨rfl, fun nm => ?_⟩
      have hGb : G (.backup id i) = some v := by rw [hG]; simp [hTb]
      simp only [rollbackHook, restoreBackup, hGb, eraseTemp, if_true]
      by_cases h1 : nm = .part id
      · subst h1; simp [hTp, hp]
      · by_cases h2 : nm = .backup id i
        · subst h2; simp [Files.set, hTb, hb]
        · simp [Files.set, h1, h2, hG]
  | put id c =>
    simp only [Reg.id] at hb hTp hTb hTt
    have htmp : fs (.temp id i) = some c := ht id c rfl
    cases hp : fs (.part id) with
    | none =>
      have hpre : preHook (.put id c) i fs =
          (((fs.set (.temp id i) none).set (.part id) (some c)), { backupCreated := false, published := true }, true) := by
        simp [preHook, renameAway, publish, Reg.id, hp, htmp]
      rw [hpre] at hG ⊢
      refine ⟨rfl, fun nm => ?_⟩
      simp only [rollbackHook, eraseTemp, if_true, Bool.false_eq_true, if_false]
      by_cases h1 : nm = .part id
      · subst h1; simp [hTp, hp, Files.set]
      · by_cases h2 : nm = .temp id i
        · subst h2; simp [Files.set, hTt, hG]
        · simp [Files.set, h1, h2, hG]
    | some v =>
      have hpre : preHook (.put id c) i fs =
          (((((fs.set (.part id) none).set (.backup id i) (some v)).set (.temp id i) none).set (.part id) (some c)),
            { backupCreated := true, published := true }, true) := by
        simp [preHook, renameAway, publish, Reg.id, hp, htmp, Files.set]
      rw [hpre] at hG ⊢
      refine ⟨rfl, fun nm => ?_⟩
      have hGb : (G.set (.part id) none) (.backup id i) = some v := by
        rw [set_other _ _ _ _ (by simp), hG]; simp [hTb, Files.set]
      simp only [rollbackHook, restoreBackup, hGb, eraseTemp, if_true]
      by_cases h1 : nm = .part id
      · subst h1; simp [hTp, hp, Files.set]
      · by_cases h2 : nm = .backup id i
        · subst h2; simp [Files.set, hTb, hb]
        · by_cases h3 : nm = .temp id i
          · subst h3; simp [Files.set, hTt, hG]
          · simp [Files.set, h1, h2, h3, hG]

/-- A pre-commit closure touches only its own three names. -/
theorem preHook_other (r : Reg) (i : Nat) (fs : Files) (nm : FName)
    (h1 : nm ≠ .part r.id) (h2 : nm ≠ .backup r.id i) (h3 : nm ≠ .temp r.id i) :
    (preHook r i fs).1 nm = fs nm := by
  cases r with
  | del id =>
    simp only [Reg.id] at h1 h2 h3
    cases hp : fs (.part id) <;> simp [preHook, renameAway, Reg.id, hp, Files.set, h1, h2]
  | put id c =>
    simp only [Reg.id] at h1 h2 h3
    cases hp : fs (.part id) <;> cases ht : fs (.temp id i) <;>
      simp [preHook, renameAway, publish, restoreBackup, Reg.id, hp, ht, Files.set, h1, h2, h3]

theorem ready_preHook (r : Reg) (i : Nat) (rs : List Reg) (j : Nat) (fs : Files) (hij : i < j)
    (h : Ready rs j fs) : Ready rs j (preHook r i fs).1 := by
  induction rs generalizing j with
  | nil => trivial
  | cons r' rs ih =>
    obtain ⟨hb, ht, hr⟩ := h
    refine ⟨?_, ?_, ih (j + 1) (by omega) hr⟩
    · rw [preHook_other r i fs _ (by simp) (by simp; omega) (by simp)]; exact hb
    · intro id c hrc
      rw [preHook_other r i fs _ (by simp) (by simp) (by simp; omega)]; exact ht id c hrc

/-- The reverse-order core: pre-commit closures `0..k-1` of `rs`, then every rollback closure in
reverse order, give the directory back without the temp files. -/
theorem undo_all (rs : List Reg) (i k : Nat) (fs : Files) (h : Ready rs i fs) :
    ∀ nm, rollbackLoop true rs i (preLoop rs i k fs).2.1 (preLoop rs i k fs).1 nm
      = if isTempOf rs i nm then none else fs nm := by
  induction rs generalizing i k fs with
  | nil => intro nm; simp [rollbackLoop, preLoop, isTempOf]
  | cons r rs ih =>
    obtain ⟨hb, ht, hr⟩ := h
    intro nm
    cases k with
    | zero =>
      -- no closure has run; every rollback closure sees its initial flags
      have hin := ih (i + 1) 0 fs hr
      simp only [preLoop_zero] at hin
      simp only [preLoop, rollbackLoop, List.headD_cons, List.tail_cons, if_true]
      have hG : ∀ nm, rollbackLoop true rs (i + 1) (rs.map fun _ => ({} : Flags)) fs nm
          = if isTempOf rs (i + 1) nm then none else fs nm := hin
      cases r with
      | del id =>
        simp only [rollbackHook, isTempOf, Bool.false_or]
        simpa using hG nm
      | put id c =>
        simp only [rollbackHook, isTempOf]
        by_cases h1 : nm = .temp id i
        · subst h1; simp
        · simp [Files.set, h1, hG nm]
    | succ k =>
      have hin := ih (i + 1) k (preHook r i fs).1 (ready_preHook r i rs (i + 1) fs (by omega) hr)
      have hstep := undo_step r i fs
        (rollbackLoop true rs (i + 1) (preLoop rs (i + 1) k (preHook r i fs).1).2.1 (preLoop rs (i + 1) k (preHook r i fs).1).1)
        (isTempOf rs (i + 1)) hb ht hin (isTempOf_part _ _ _) (isTempOf_backup _ _ _ _)
        (isTempOf_temp_lt _ _ _ _ (by omega))
      obtain ⟨hok, hres⟩ := hstep
      have hpre : preHook r i fs = ((preHook r i fs).1, (preHook r i fs).2.1, true) := by
        rw [← hok]
      simp only [preLoop]
      rw [hpre]
      simp only [rollbackLoop, List.headD_cons, List.tail_cons, if_true]
      rw [hres nm]
      cases r with
      | del id => simp [isTempOf, eraseTemp]
      | put id c =>
        simp only [isTempOf, eraseTemp]
        by_cases h1 : nm = .temp id i
        · subst h1; simp
        · simp [Files.set, h1]

-- ---------------------------------------------------------------- registrations

theorem registerAll_other (rs : List Reg) (i : Nat) (fs : Files) (nm : FName)
    (h : isTempOf rs i nm = false) : registerAll rs i fs nm = fs nm := by
  induction rs generalizing i fs with
  | nil => rfl
  | cons r rs ih =>
    simp only [isTempOf, Bool.or_eq_false_iff] at h
    simp only [registerAll]
    rw [ih (i + 1) _ h.2]
    cases r with
    | del id => rfl
    | put id c =>
      have : nm ≠ .temp id i := by simpa using h.1
      simp [register, Files.set, this]

theorem fresh_set_temp (rs : List Reg) (j i id : Nat) (v : Option Bytes) (fs : Files) (hij : i < j)
    (h : Fresh rs j fs) : Fresh rs j (fs.set (.temp id i) v) := by
  induction rs generalizing j with
  | nil => trivial
  | cons r rs ih =>
    obtain ⟨hb, ht, hr⟩ := h
    refine ⟨?_, ?_, ih (j + 1) (by omega) hr⟩
    · rw [set_other _ _ _ _ (by simp)]; exact hb
    · rw [set_other _ _ _ _ (by simp; omega)]; exact ht

theorem ready_registerAll (rs : List Reg) (i : Nat) (fs : Files) (h : Fresh rs i fs) :
    Ready rs i (registerAll rs i fs) := by
  induction rs generalizing i fs with
  | nil => trivial
  | cons r rs ih =>
    obtain ⟨hb, ht, hr⟩ := h
    simp only [registerAll]
    have hfresh' : Fresh rs (i + 1) (register r i fs) := by
      cases r with
      | del id => exact hr
      | put id c => exact fresh_set_temp rs (i + 1) i id _ fs (by omega) hr
    refine ⟨?_, ?_, ih (i + 1) _ hfresh'⟩
    · rw [registerAll_other _ _ _ _ (isTempOf_backup _ _ _ _)]
      cases r with
      | del id => exact hb
      | put id c => simp only [register, Reg.id] at hb ⊢; rw [set_other _ _ _ _ (by simp)]; exact hb
    · intro id c hrc
      subst hrc
      rw [registerAll_other _ _ _ _ (isTempOf_temp_lt _ _ _ _ (by omega))]
      simp [register]

/-- Registering and erasing the temp files of a fresh transaction is the identity. -/
theorem registerAll_erased (rs : List Reg) (i : Nat) (fs : Files) (h : Fresh rs i fs) (nm : FName) :
    (if isTempOf rs i nm then none else registerAll rs i fs nm) = fs nm := by
  induction rs generalizing i fs with
  | nil => simp [isTempOf, registerAll]
  | cons r rs ih =>
    obtain ⟨hb, ht, hr⟩ := h
    have hfresh' : Fresh rs (i + 1) (register r i fs) := by
      cases r with
      | del id => exact hr
      | put id c => exact fresh_set_temp rs (i + 1) i id _ fs (by omega) hr
    have := ih (i + 1) (register r i fs) hfresh'
    simp only [registerAll, isTempOf]
    cases r with
    | del id => simpa [register] using this
    | put id c =>
      by_cases h1 : nm = .temp id i
      · subst h1; simpa [Reg.id] using ht.symm
      · simp only [Reg.id] at ht
        simp [h1] 
        rw [this]; simp [register, Files.set, h1]

-- ---------------------------------------------------------------- closures of different part ids commute

/-- `f` reads and writes only files of part `a` (its part file, its backups, its temp files). -/
structure LocalTo (a : Nat) (f : Files → Files) : Prop where
  outside : ∀ X nm, nm.id ≠ a → f X nm = X nm
  inside : ∀ X Y, (∀ nm, nm.id = a → X nm = Y nm) → ∀ nm, nm.id = a → f X nm = f Y nm

theorem LocalTo.comm {a b : Nat} {f g : Files → Files} (hf : LocalTo a f) (hg : LocalTo b g)
    (hab : a ≠ b) (X : Files) : f (g X) = g (f X) := by
  funext nm
  by_cases ha : nm.id = a
  · have hb : nm.id ≠ b := by rw [ha]; exact hab
    rw [hg.outside _ _ hb]
    exact hf.inside _ _ (fun m hm => hg.outside _ _ (by rw [hm]; exact hab)) nm ha
  · rw [hf.outside _ _ ha]
    by_cases hb : nm.id = b
    · exact (hg.inside _ _ (fun m hm => hf.outside _ _ (by rw [hm]; exact fun e => hab e.symm)) nm hb).symm
    · rw [hg.outside _ _ hb, hg.outside _ _ hb, hf.outside _ _ ha]

theorem ne_of_id_ne {nm m : FName} (h : nm.id ≠ m.id) : nm ≠ m := fun e => h (by rw [e])

theorem rollbackHook_local (r : Reg) (i : Nat) (fl : Flags) : LocalTo r.id (rollbackHook r i fl) := by
  obtain ⟨bc, pu⟩ := fl
  constructor
  · intro X nm h
    cases r with
    | del id =>
      have h2 : nm ≠ .backup id i := ne_of_id_ne h
      have h1 : nm ≠ .part id := ne_of_id_ne h
      cases bc <;> cases hq : X (.backup id i) <;>
        simp [rollbackHook, restoreBackup, hq, Files.set, h1, h2]
    | put id c =>
      have h2 : nm ≠ .backup id i := ne_of_id_ne h
      have h1 : nm ≠ .part id := ne_of_id_ne h
      have h3 : nm ≠ .temp id i := ne_of_id_ne h
      cases bc <;> cases pu <;> cases hq : X (.backup id i) <;>
        simp [rollbackHook, restoreBackup, hq, Files.set, h1, h2, h3]
  · intro X Y hXY nm hnm
    have en := hXY nm hnm
    cases r with
    | del id =>
      have eb : X (.backup id i) = Y (.backup id i) := hXY _ rfl
      cases bc <;> cases hq : Y (.backup id i) <;>
        simp [rollbackHook, restoreBackup, eb, hq, Files.set, en]
    | put id c =>
      have eb : X (.backup id i) = Y (.backup id i) := hXY _ rfl
      cases bc <;> cases pu <;> cases hq : Y (.backup id i) <;>
        simp [rollbackHook, restoreBackup, eb, hq, Files.set, en]

theorem rollbackLoop_rev_comm (H : Files → Files) (a : Nat) (hH : LocalTo a H) (rs : List Reg) (i : Nat)
    (fls : List Flags) (X : Files) (hne : ∀ r ∈ rs, r.id ≠ a) :
    H (rollbackLoop true rs i fls X) = rollbackLoop true rs i fls (H X) := by
  induction rs generalizing i fls with
  | nil => rfl
  | cons r rs ih =>
    simp only [rollbackLoop, if_true]
    rw [← ih (i + 1) fls.tail (fun r' hr' => hne r' (List.mem_cons_of_mem _ hr'))]
    exact hH.comm (rollbackHook_local r i _) (fun e => hne r (List.mem_cons_self ..) e.symm) _

/-- With pairwise different part ids the order of the rollback closures does not matter. -/
theorem rollbackLoop_fwd_eq_rev (rs : List Reg) (i : Nat) (fls : List Flags) (X : Files)
    (hd : rs.Pairwise fun a b => a.id ≠ b.id) :
    rollbackLoop false rs i fls X = rollbackLoop true rs i fls X := by
  induction rs generalizing i fls X with
  | nil => rfl
  | cons r rs ih =>
    rw [List.pairwise_cons] at hd
    simp only [rollbackLoop, if_true, Bool.false_eq_true, if_false]
    rw [ih (i + 1) fls.tail _ hd.2]
    exact (rollbackLoop_rev_comm _ r.id (rollbackHook_local r i _) rs (i + 1) fls.tail X
      (fun r' hr' e => hd.1 r' hr' e.symm)).symm

-- ---------------------------------------------------------------- atomic steps

def Act.reg : Act → Reg
  | .createTemp r _ => r
  | .renameAway r _ => r
  | .publish r _ => r
  | .removeBackup r _ => r

def Act.slot : Act → Nat
  | .createTemp _ i => i
  | .renameAway _ i => i
  | .publish _ i => i
  | .removeBackup _ i => i

/-- A step touches only files of its own part id. -/
theorem applyAct_other (s : Live) (a : Act) (nm : FName) (h : nm.id ≠ a.reg.id) :
    (applyAct s a).files nm = s.files nm := by
  cases a with
  | createTemp r i =>
    cases r with
    | del id => rfl
    | put id c =>
      have : nm ≠ .temp id i := ne_of_id_ne h
      simp [applyAct, register, Files.set, this]
  | renameAway r i =>
    have h1 : nm ≠ .part r.id := ne_of_id_ne h
    have h2 : nm ≠ .backup r.id i := ne_of_id_ne h
    simp only [applyAct, renameAway]
    split <;> simp [Files.set, h1, h2]
  | publish r i =>
    have h1 : nm ≠ .part r.id := ne_of_id_ne h
    have h3 : nm ≠ .temp r.id i := ne_of_id_ne h
    cases hq : s.files (.temp r.id i) <;> simp [applyAct, publish, hq, Files.set, h1, h3]
  | removeBackup r i =>
    have h2 : nm ≠ .backup r.id i := ne_of_id_ne h
    simp only [applyAct]
    split <;> simp [Files.set, h2]

theorem runActs_other (s : Live) (as : List Act) (nm : FName) (h : ∀ a ∈ as, nm.id ≠ a.reg.id) :
    (runActs s as).files nm = s.files nm := by
  induction as generalizing s with
  | nil => rfl
  | cons a as ih =>
    simp only [runActs, List.foldl_cons] at ih ⊢
    rw [ih _ (fun a' ha' => h a' (List.mem_cons_of_mem _ ha'))]
    exact applyAct_other s a nm (h a (List.mem_cons_self ..))

/-- After-commit steps never touch a part file. -/
theorem applyAct_removeBackup_part (s : Live) (r : Reg) (i id : Nat) :
    (applyAct s (.removeBackup r i)).files (.part id) = s.files (.part id) := by
  simp only [applyAct]
  split <;> simp [Files.set]

theorem mem_bodyActs (rs : List Reg) (i : Nat) (a : Act) (h : a ∈ bodyActs rs i) :
    a.reg ∈ rs ∧ a.slot < i + rs.length ∧ ∃ r j, a = .createTemp r j ∧ r.isPut = true := by
  induction rs generalizing i with
  | nil => simp [bodyActs] at h
  | cons r rs ih =>
    simp only [bodyActs, List.mem_append] at h
    rcases h with h | h
    · by_cases hp : r.isPut
      · simp [hp] at h
        subst h
        exact ⟨by simp [Act.reg], by simp [Act.slot], r, i, rfl, hp⟩
      · simp [hp] at h
    · obtain ⟨h1, h2, h3⟩ := ih (i + 1) h
      exact ⟨List.mem_cons_of_mem _ h1, by simp only [List.length_cons]; omega, h3⟩

theorem mem_preActs (rs : List Reg) (i : Nat) (a : Act) (h : a ∈ preActs rs i) :
    a.reg ∈ rs ∧ a.slot < i + rs.length ∧
      ((∃ r j, a = .renameAway r j) ∨ (∃ r j, a = .publish r j ∧ r.isPut = true)) := by
  induction rs generalizing i with
  | nil => simp [preActs] at h
  | cons r rs ih =>
    simp only [preActs, List.mem_append, List.mem_cons] at h
    rcases h with (h | h) | h
    · subst h
      exact ⟨by simp [Act.reg], by simp [Act.slot], Or.inl ⟨r, i, rfl⟩⟩
    · by_cases hp : r.isPut
      · simp [hp] at h
        subst h
        exact ⟨by simp [Act.reg], by simp [Act.slot], Or.inr ⟨r, i, rfl, hp⟩⟩
      · simp [hp] at h
    · obtain ⟨h1, h2, h3⟩ := ih (i + 1) h
      exact ⟨List.mem_cons_of_mem _ h1, by simp only [List.length_cons]; omega, h3⟩

theorem mem_afterActs (rs : List Reg) (i : Nat) (a : Act) (h : a ∈ afterActs rs i) :
    ∃ r j, a = .removeBackup r j := by
  induction rs generalizing i with
  | nil => simp [afterActs] at h
  | cons r rs ih =>
    simp only [afterActs, List.mem_cons] at h
    rcases h with h | h
    · exact ⟨r, i, h⟩
    · exact ih (i + 1) h

theorem runActs_after_part (s : Live) (as : List Act) (id : Nat)
    (h : ∀ a ∈ as, ∃ r j, a = .removeBackup r j) :
    (runActs s as).files (.part id) = s.files (.part id) := by
  induction as generalizing s with
  | nil => rfl
  | cons a as ih =>
    simp only [runActs, List.foldl_cons] at ih ⊢
    rw [ih _ (fun a' ha' => h a' (List.mem_cons_of_mem _ ha'))]
    obtain ⟨r, j, e⟩ := h a (List.mem_cons_self ..)
    subst e
    exact applyAct_removeBackup_part s r j id

/-- Every step before the database commit belongs to a registration of the transaction. -/
theorem mem_beforeCommitActs (regs : List Reg) (a : Act) (h : a ∈ beforeCommitActs regs) :
    a.reg ∈ regs ∧ a.slot < regs.length ∧
      ((∃ r j, a = .createTemp r j ∧ r.isPut = true) ∨ (∃ r j, a = .renameAway r j) ∨
        (∃ r j, a = .publish r j ∧ r.isPut = true)) := by
  simp only [beforeCommitActs, List.mem_append] at h
  rcases h with h | h
  · obtain ⟨h1, h2, h3⟩ := mem_bodyActs regs 0 a h
    exact ⟨h1, by omega, Or.inl h3⟩
  · obtain ⟨h1, h2, h3⟩ := mem_preActs regs 0 a h
    exact ⟨h1, by omega, Or.inr h3⟩

-- ---------------------------------------------------------------- start-up recovery

theorem firstBackup_congr (n : Nat) (fs fs' : Files) (id : Nat)
    (h : ∀ i, fs (.backup id i) = fs' (.backup id i)) : firstBackup n fs id = firstBackup n fs' id := by
  induction n with
  | zero => rfl
  | succ n ih => simp only [firstBackup, ih, h n]

theorem firstBackup_none (n : Nat) (fs : Files) (id : Nat) (h : ∀ i, i < n → fs (.backup id i) = none) :
    firstBackup n fs id = none := by
  induction n with
  | zero => rfl
  | succ n ih =>
    simp only [firstBackup, ih (fun i hi => h i (by omega)), h n (by omega)]
    rfl

theorem firstBackup_single (n : Nat) (fs : Files) (id i : Nat) (v : Bytes) (hi : i < n)
    (hv : fs (.backup id i) = some v) (ho : ∀ j, j ≠ i → fs (.backup id j) = none) :
    firstBackup n fs id = some (i, v) := by
  induction n with
  | zero => omega
  | succ n ih =>
    by_cases hlt : i < n
    · simp only [firstBackup, ih hlt]
    · have hin : i = n := by omega
      subst hin
      simp only [firstBackup, firstBackup_none i fs id (fun j hj => ho j (by omega)), hv]
      rfl

/-- The database expects part `id` to hold `b`, and recovery will find it: either the part file
is in place (and no backup of it lies around), or it was renamed away and its backup is the one
recovery picks. -/
def Held (n : Nat) (fs : Files) (id : Nat) (b : Bytes) : Prop :=
  (fs (.part id) = some b ∧ ∀ i, fs (.backup id i) = none) ∨
  (fs (.part id) = none ∧ ∃ i, firstBackup n fs id = some (i, b))

theorem held_recover (n : Nat) (fs : Files) (id : Nat) (b : Bytes) (h : Held n fs id b) :
    recover n fs (.part id) = some b := by
  rcases h with ⟨hp, _⟩ | ⟨hp, i, hf⟩
  · simp [recover, hp]
  · simp [recover, hp, hf]

theorem held_congr (n : Nat) (fs fs' : Files) (id : Nat) (b : Bytes)
    (h : ∀ nm : FName, nm.id = id → fs' nm = fs nm) (hh : Held n fs id b) : Held n fs' id b := by
  have hb : ∀ i, fs' (.backup id i) = fs (.backup id i) := fun i => h _ rfl
  rcases hh with ⟨hp, hn⟩ | ⟨hp, i, hf⟩
  · exact Or.inl ⟨by rw [h _ rfl]; exact hp, fun i => by rw [hb]; exact hn i⟩
  · exact Or.inr ⟨by rw [h _ rfl]; exact hp, i, by rw [firstBackup_congr n fs' fs id hb]; exact hf⟩

/-- One atomic step keeps `Held` when it belongs to another part id, or is the rename-away of a
DeletePart of this id. -/
theorem held_applyAct (n : Nat) (s : Live) (a : Act) (id : Nat) (b : Bytes)
    (ha : a.reg.id ≠ id ∨ ∃ i, i < n ∧ a = .renameAway (.del id) i)
    (hh : Held n s.files id b) : Held n (applyAct s a).files id b := by
  rcases ha with ha | ⟨i, hi, rfl⟩
  · exact held_congr n _ _ id b (fun nm hnm => applyAct_other s a nm (by rw [hnm]; exact fun e => ha e.symm)) hh
  · rcases hh with ⟨hp, hn⟩ | ⟨hp, j, hf⟩
    · refine Or.inr ⟨?_, i, ?_⟩
      · simp [applyAct, renameAway, Reg.id, hp, Files.set]
      · apply firstBackup_single n _ id i b hi
        · simp [applyAct, renameAway, Reg.id, hp, Files.set]
        · intro j hj
          simp [applyAct, renameAway, Reg.id, hp, Files.set, hj, hn j]
    · refine Or.inr ⟨?_, j, ?_⟩
      · simp [applyAct, renameAway, Reg.id, hp]
      · simpa [applyAct, renameAway, Reg.id, hp] using hf

theorem held_runActs (n : Nat) (s : Live) (as : List Act) (id : Nat) (b : Bytes)
    (ha : ∀ a ∈ as, a.reg.id ≠ id ∨ ∃ i, i < n ∧ a = .renameAway (.del id) i)
    (hh : Held n s.files id b) : Held n (runActs s as).files id b := by
  induction as generalizing s with
  | nil => exact hh
  | cons a as ih =>
    simp only [runActs, List.foldl_cons] at ih ⊢
    exact ih _ (fun a' ha' => ha a' (List.mem_cons_of_mem _ ha'))
      (held_applyAct n s a id b (ha a (List.mem_cons_self ..)) hh)

theorem recover_part_of_some (n : Nat) (fs : Files) (id : Nat) (v : Bytes) (h : fs (.part id) = some v) :
    recover n fs (.part id) = some v := by
  simp [recover, h]

theorem consistentB_iff (fs : Files) (refs : Refs) : consistentB fs refs = true ↔ Consistent fs refs := by
  simp [consistentB, Consistent]

end Pithos.TxFs
