/-
C01 frame theorem: `frame_T` / `frame` — an operation that does not write (b, k) leaves the
current-version view of (b, k) unchanged; `frame_run` lifts it to operation sequences.
-/
import Pithos.Lemmas.S3FrameOps

namespace Pithos.S3

/-- The operations that may change which bytes a plain GET of (b, k) returns. -/
def Writes (op : Op) (b k : String) : Prop :=
  match op with
  | .put b' k' _ _ _ _ => b' = b ∧ k' = k
  | .del b' k' _ _ => b' = b ∧ k' = k
  | .copy _ _ _ db dk _ _ _ => db = b ∧ dk = k
  | .append b' k' _ _ => b' = b ∧ k' = k
  | .complete b' k' _ _ _ _ => b' = b ∧ k' = k
  | _ => False

instance (op : Op) (b k : String) : Decidable (Writes op b k) := by
  unfold Writes; cases op <;> simp only [] <;> infer_instance

theorem cur_putRow {q : Quirks} {s : State} {bk1 : Bucket} {b b' k k' : String} {n : NewObj}
    {inm : Bool} {im : IfMatch} {s' : State} {vid : Option Nat} (hinv : Inv s)
    (hfb' : findBucket s b' = some bk1) (bkx : Bucket) (hbx : bkx.name = bk1.name) (hrows : bkx.rows = bk1.rows)
    (hok : putRow q s bkx k' n inm im = .ok (s', vid)) (hne : ¬(b' = b ∧ k' = k)) :
    curView s' b k = curView s b k := by
  obtain ⟨X, h1, h2, h3⟩ := putRow_shape hok k
  refine cur_update hfb' (by rw [h2, hbx]) h1 (fun hbb => ?_)
  have hb1 := hinv bk1 (findBucket_mem hfb')
  rw [h3 (fun hk => hne ⟨hbb, hk⟩) (by rw [hrows]; exact hb1), hrows]

theorem cur_shape {s st : State} {bk1 : Bucket} {b b' k k' : String} (hinv : Inv s)
    (hfb' : findBucket s b' = some bk1) (hsh : Shape s bk1 k' k st) (hne : ¬(b' = b ∧ k' = k)) :
    curView st b k = curView s b k := by
  rcases hsh with h | ⟨X, h1, h2, h3⟩
  · exact curView_congr h b k
  · exact cur_update hfb' h2 h1 (fun hbb => h3 (fun hk => hne ⟨hbb, hk⟩) (hinv bk1 (findBucket_mem hfb')))

/-- Updates that leave the rows of the bucket alone (versioning state, uploads). -/
theorem cur_sameRows {s : State} {bk1 X : Bucket} {b b' k : String}
    (hfb' : findBucket s b' = some bk1) (hX : X.name = bk1.name) (hr : X.rows = bk1.rows) :
    curView (setBucket s X) b k = curView s b k :=
  cur_update hfb' hX rfl (fun _ => by rw [hr])

/-- Re-saving a row with other tags / class / part numbering / Last-Modified. -/
theorem cur_resave {q : Quirks} {s : State} {bk1 : Bucket} {b b' k : String} {c c' : Row} (hinv : Inv s)
    (hfb' : findBucket s b' = some bk1) (hc : c ∈ bk1.rows) (hid : c'.rowId = c.rowId) (hkey : c'.key = c.key)
    (hl : c'.latest = c.latest) (hcv : cv c = cv c') :
    curView (setBucket s (replaceRow bk1 (touch q s.clock c'))) b k = curView s b k := by
  refine cur_update hfb' (replaceRow_name _ _) rfl (fun _ => ?_)
  rw [replaceRow_rows]
  exact cvr_repl_same (hinv bk1 (findBucket_mem hfb')) hc (by simp [touch, hid]) (by simp [touch, hkey])
    (by simp [touch, hl]) (by rw [hcv]; simp [touch, cv])

theorem find?_filter_irrel {α : Type} (p f : α → Bool) : ∀ (l : List α), (∀ x ∈ l, f x = false → p x = false) →
    (l.filter f).find? p = l.find? p
  | [], _ => rfl
  | a :: t, h => by
    have ih := find?_filter_irrel p f t (fun x hx => h x (List.mem_cons_of_mem _ hx))
    rw [List.filter_cons]
    cases hf : f a with
    | true =>
      simp only [if_true, List.find?_cons]
      cases p a
      · exact ih
      · rfl
    | false =>
      have hpa : p a = false := h a (by simp) hf
      simp only [Bool.false_eq_true, if_false, List.find?_cons, hpa]
      exact ih

theorem frame_T (q : Quirks) (s : State) (hinv : Inv s) (op : Op) (b k : String) (hnw : ¬ Writes op b k) :
    curView (stepT q s op).1 b k = curView s b k := by
  cases op with
  | mkb b' =>
    simp only [stepT]
    apply cur_ite rfl
    unfold curView findBucket
    simp only [List.find?_append]
    cases hfd : s.buckets.find? (·.name == b) with
    | some bk => rfl
    | none =>
      simp only [Option.none_or, List.find?_cons]
      cases (b' == b) <;> rfl
  | rmb b' =>
    simp only [stepT]
    cases hfb' : findBucket s b' with
    | none => rfl
    | some bk1 =>
      simp only []
      apply cur_dite
      · intro _; rfl
      · intro hne
        have hempty : bk1.rows = [] := by
          cases hrows : bk1.rows with
          | nil => rfl
          | cons a t => exfalso; apply hne; simp [hrows]
        unfold curView findBucket
        simp only []
        by_cases hbb : b' = b
        · subst hbb
          have hnone : (s.buckets.filter (fun x => x.name != b')).find? (·.name == b') = none := by
            rw [List.find?_eq_none]
            intro x hx
            have := (List.mem_filter.1 hx).2
            simpa using this
          unfold findBucket at hfb'
          rw [hnone, hfb']
          simp [CVr, hempty]
        · rw [find?_filter_irrel]
          intro x _ hf
          have hx : x.name = b' := by simpa using hf
          simp [hx, hbb]
  | setVer b' v =>
    simp only [stepT]
    cases hfb' : findBucket s b' with
    | none => rfl
    | some bk1 => exact cur_sameRows hfb' rfl rfl
  | put b' k' body o inm im =>
    simp only [stepT]
    cases hfb' : findBucket s b' with
    | none => rfl
    | some bk1 =>
      simp only []
      cases hp : putRow q s bk1 k' { parts := [body], etag := singleETag body, o := o } inm im with
      | error e => rfl
      | ok x => obtain ⟨s', vid⟩ := x; exact cur_putRow hinv hfb' bk1 rfl rfl hp hnw
  | get b' k' vid =>
    simp only [stepT]
    cases hfb' : findBucket s b' with
    | none => rfl
    | some bk1 => simp only []; cases resolve bk1 k' vid <;> rfl
  | head b' k' vid =>
    simp only [stepT]
    cases hfb' : findBucket s b' with
    | none => rfl
    | some bk1 => simp only []; cases resolve bk1 k' vid <;> rfl
  | del b' k' vid im =>
    simp only [stepT]
    cases hfb' : findBucket s b' with
    | none => rfl
    | some bk1 => exact cur_shape hinv hfb' (deleteOp_shape q s bk1 k' vid im k) hnw
  | copy sb sk svid db dk rm rt o =>
    simp only [stepT]
    cases hsb : findBucket s sb with
    | none => rfl
    | some sbk =>
      simp only []
      cases hres : resolve sbk sk svid with
      | error e => rfl
      | ok src =>
        simp only []
        cases hdb : findBucket s db with
        | none => rfl
        | some dbk =>
          simp only []
          generalize hn : ({ parts := src.parts, etag := src.etag, o := _ } : NewObj) = n
          cases hp : putRow q s dbk dk n false IfMatch.none with
          | error e => rfl
          | ok x => obtain ⟨s', vid⟩ := x; exact cur_putRow hinv hdb dbk rfl rfl hp hnw
  | append b' k' body off =>
    simp only [stepT]
    cases hfb' : findBucket s b' with
    | none => rfl
    | some bk1 =>
      simp only []
      have putPath : ∀ (n : NewObj) (e : ETag) (sz : Nat), curView
          (match putRow q s bk1 k' n false IfMatch.none with
           | .error e => (s, Out.err e)
           | .ok (s', _) => (s', Out.appended e sz)).1 b k = curView s b k := by
        intro n e sz
        cases hp : putRow q s bk1 k' n false IfMatch.none with
        | error e => rfl
        | ok x => obtain ⟨s', vid⟩ := x; exact cur_putRow hinv hfb' bk1 rfl rfl hp hnw
      have hb1 := hinv bk1 (findBucket_mem hfb')
      have hk : b' = b → k' ≠ k := fun hbb hkk => hnw ⟨hbb, hkk⟩
      -- in-place extension of a row of key k'
      have inPlace : ∀ (r r' : Row), r ∈ bk1.rows → r.key = k' → r'.rowId = r.rowId → r'.key = r.key →
          curView (setBucket s (replaceRow bk1 r')) b k = curView s b k := by
        intro r r' hr hrk hid hkey
        refine cur_update hfb' (replaceRow_name _ _) rfl (fun hbb => ?_)
        rw [replaceRow_rows]
        exact cvr_repl_other hb1 hr hid (by rw [hrk]; exact hk hbb) (by rw [hkey, hrk]; exact hk hbb)
      -- a fresh row of key k' is added
      have addPath : ∀ (y : Row) (st : State), y.key = k' → st.buckets = (setBucket s (addRow bk1 y)).buckets →
          curView st b k = curView s b k := by
        intro y st hyk hst
        refine cur_update hfb' (addRow_name _ _) hst (fun hbb => ?_)
        rw [addRow_rows]
        exact cvr_append _ _ _ (pk_false_of_key (by rw [hyk]; exact hk hbb))
      apply cur_ite rfl
      apply cur_ite
      · exact putPath _ _ _
      · cases hl : latestRow bk1 k' with
        | none =>
          simp only []
          cases hq : q.appendLatestInPlace with
          | true =>
            simp only [if_true]
            exact addPath _ _ rfl rfl
          | false =>
            simp only [Bool.false_eq_true, if_false]
            exact putPath _ _ _
        | some r0 =>
          obtain ⟨hr0, hr0k, _⟩ := latestRow_some hl
          simp only []
          cases hq : q.appendLatestInPlace with
          | true =>
            simp only [if_true]
            apply cur_ite rfl
            exact inPlace r0 _ hr0 hr0k rfl rfl
          | false =>
            simp only [Bool.false_eq_true, if_false]
            by_cases hdm : r0.dm = true
            · simp only [hdm, if_true]
              exact putPath _ _ _
            · simp only [hdm, Bool.false_eq_true, if_false]
              by_cases hv0 : r0.vid.isNone = true
              · simp only [hv0, if_true]
                apply cur_ite rfl
                exact inPlace r0 _ hr0 hr0k rfl rfl
              · simp only [hv0, Bool.false_eq_true, if_false]
                exact putPath _ _ _
  | mpu b' k' o =>
    simp only [stepT]
    cases hfb' : findBucket s b' with
    | none => rfl
    | some bk1 =>
      exact cur_update hfb' (X := { bk1 with uploads := bk1.uploads ++ [_] }) rfl rfl (fun _ => rfl)
  | uploadPart b' k' uid n body =>
    simp only [stepT]
    cases hfb' : findBucket s b' with
    | none => rfl
    | some bk1 =>
      simp only []
      cases bk1.uploads.find? (fun u => u.uid == uid && u.key == k') with
      | none => rfl
      | some u => simp only []; exact cur_sameRows hfb' rfl rfl
  | complete b' k' uid declared inm im =>
    simp only [stepT]
    cases hfb' : findBucket s b' with
    | none => rfl
    | some bk1 =>
      simp only []
      cases bk1.uploads.find? (fun u => u.uid == uid && u.key == k') with
      | none => rfl
      | some u =>
        simp only []
        apply cur_ite rfl
        cases declaredErr u declared with
        | some e => rfl
        | none =>
          simp only []
          generalize hn : (NewObj.mk _ _ _ _ _) = n
          cases hp : putRow q s { bk1 with uploads := bk1.uploads.filter (fun x => x.uid != uid) } k' n inm im with
          | error e => rfl
          | ok x =>
            obtain ⟨s', vid⟩ := x
            exact cur_putRow hinv hfb' { bk1 with uploads := bk1.uploads.filter (fun x => x.uid != uid) } rfl rfl hp hnw
  | abort b' k' uid =>
    simp only [stepT]
    cases hfb' : findBucket s b' with
    | none => rfl
    | some bk1 =>
      simp only []
      cases bk1.uploads.find? (fun u => u.uid == uid && u.key == k') with
      | none => rfl
      | some u => simp only []; exact cur_sameRows hfb' rfl rfl
  | getTags b' k' vid =>
    simp only [stepT]
    cases hfb' : findBucket s b' with
    | none => rfl
    | some bk1 => simp only []; cases resolve bk1 k' vid <;> rfl
  | putTags b' k' vid tags =>
    simp only [stepT]
    cases hfb' : findBucket s b' with
    | none => rfl
    | some bk1 =>
      simp only []
      cases hres : resolve bk1 k' vid with
      | error e => rfl
      | ok c => exact cur_resave hinv hfb' (resolve_mem hres) rfl rfl rfl rfl
  | delTags b' k' vid =>
    simp only [stepT]
    cases hfb' : findBucket s b' with
    | none => rfl
    | some bk1 =>
      simp only []
      cases hres : resolve bk1 k' vid with
      | error e => rfl
      | ok c => exact cur_resave hinv hfb' (resolve_mem hres) rfl rfl rfl rfl
  | transition b' k' cls vid =>
    simp only [stepT]
    cases hfb' : findBucket s b' with
    | none => rfl
    | some bk1 =>
      simp only []
      have key : ∀ (ro : Option Row), (∀ c, ro = some c → c ∈ bk1.rows) →
          curView (match ro with
            | none => (s, Out.err Err.noSuchKey)
            | some c => if c.dm = true then (s, Out.err Err.noSuchKey)
              else (setBucket s (replaceRow bk1 (touch q s.clock { c with cls := some cls, seqBase := 0 })), Out.unit)).1 b k
            = curView s b k := by
        intro ro hro
        cases ro with
        | none => rfl
        | some c =>
          simp only []
          apply cur_ite rfl
          exact cur_resave hinv hfb' (hro c rfl) rfl rfl rfl rfl
      cases vid with
      | none => exact key (latestRow bk1 k') (fun c hc => (latestRow_some hc).1)
      | some v => exact key (rowByVid bk1 k' v) (fun c hc => (rowByVid_mem hc).1)
  | list b' =>
    simp only [stepT]
    cases hfb' : findBucket s b' with
    | none => rfl
    | some bk1 => rfl
  | listVersions b' =>
    simp only [stepT]
    cases hfb' : findBucket s b' with
    | none => rfl
    | some bk1 => rfl
  | listBuckets => simp only [stepT]

theorem frame (q : Quirks) (s : State) (hinv : Inv s) (op : Op) (b k : String) (hnw : ¬ Writes op b k) :
    curView (step q s op).1 b k = curView s b k :=
  frame_T q _ (inv_tick hinv) op b k hnw

theorem frame_run (q : Quirks) (ops : List Op) (b k : String) (hnw : ∀ op ∈ ops, ¬ Writes op b k) :
    ∀ (s : State), Inv s → curView (run q s ops).1 b k = curView s b k := by
  induction ops with
  | nil => intro s _; rfl
  | cons op ops ih =>
    intro s hinv
    have h1 := ih (fun o ho => hnw o (List.mem_cons_of_mem _ ho)) (step q s op).1 (step_inv q s op hinv)
    have h2 := frame q s hinv op b k (hnw op (by simp))
    simp only [run]
    rw [h1, h2]

end Pithos.S3
