/-
Lemmas about the byte-level codecs of `Pithos.Model.PartCodec` (helpers for C15/C16/C17).
-/
import Pithos.Model.PartCodec

namespace Pithos.Codec

/-! ## chunking -/

theorem concat_chunksF (f n : Nat) (bs : Bytes) (hn : 0 < n) (hf : bs.length ≤ f) :
    concat (chunksF f n bs) = bs := by
  induction f generalizing bs with
  | zero =>
    have : bs = [] := List.eq_nil_of_length_eq_zero (by omega)
    subst this; simp [chunksF, concat]
  | succ f ih =>
    unfold chunksF
    by_cases hb : bs.isEmpty
    · have : bs = [] := by simpa using hb
      subst this; simp [concat]
    · simp only [hb]
      have hlen : (bs.drop n).length ≤ f := by
        have : bs.length ≠ 0 := by
          intro h0; apply hb; simp [List.eq_nil_of_length_eq_zero h0]
        simp [List.length_drop]; omega
      have := ih (bs.drop n) hlen
      simp only [concat, List.flatten_cons] at this ⊢
      simp [this]

/-- **chunks_concat.** Cutting a stream into rows of at most `n` bytes and gluing the rows together
gives the stream back — for every row size and every content, the empty one included. -/
theorem concat_chunks (n : Nat) (bs : Bytes) : concat (chunks n bs) = bs := by
  unfold chunks
  by_cases hn : n = 0
  · simp only [hn, if_true]
    by_cases hb : bs.isEmpty
    · have : bs = [] := by simpa using hb
      subst this; simp [concat]
    · simp [hb, concat]
  · simp only [hn, if_false]
    exact concat_chunksF _ n bs (by omega) (Nat.le_refl _)

/-- The empty content has no row at all (this is what the SQL store trips over). -/
theorem chunks_nil (n : Nat) : chunks n [] = [] := by
  unfold chunks; by_cases hn : n = 0 <;> simp [hn, chunksF]

theorem chunks_eq_nil_iff (n : Nat) (bs : Bytes) : chunks n bs = [] ↔ bs = [] := by
  constructor
  · intro h
    have := concat_chunks n bs
    rw [h] at this
    simpa [concat] using this.symm
  · intro h; subst h; exact chunks_nil n

theorem chunksF_mem (f n : Nat) (bs : Bytes) (hn : 0 < n) (x : Bytes) (hx : x ∈ chunksF f n bs) :
    x ≠ [] ∧ x.length ≤ n := by
  induction f generalizing bs with
  | zero => simp [chunksF] at hx
  | succ f ih =>
    unfold chunksF at hx
    by_cases hb : bs.isEmpty
    · simp [hb] at hx
    · simp only [hb, Bool.false_eq_true, if_false, List.mem_cons] at hx
      rcases hx with rfl | hx
      · refine ⟨?_, by simp [List.length_take]; omega⟩
        intro h
        have : bs.take n = [] := h
        rw [List.take_eq_nil_iff] at this
        rcases this with h0 | h0
        · omega
        · apply hb; simp [h0]
      · exact ih _ hx

theorem chunksF_length_le (f n : Nat) (bs : Bytes) (hn : 0 < n) : (chunksF f n bs).length ≤ bs.length := by
  induction f generalizing bs with
  | zero => simp [chunksF]
  | succ f ih =>
    unfold chunksF
    by_cases hb : bs.isEmpty
    · simp [hb]
    · simp only [hb, Bool.false_eq_true, if_false, List.length_cons]
      have := ih (bs.drop n)
      have hne : bs.length ≠ 0 := by
        intro h0; apply hb; simp [List.eq_nil_of_length_eq_zero h0]
      simp [List.length_drop] at this
      omega

/-- every row is non-empty and at most `n` bytes long -/
theorem chunks_mem (n : Nat) (bs : Bytes) (hn : 0 < n) (x : Bytes) (hx : x ∈ chunks n bs) : x ≠ [] ∧ x.length ≤ n := by
  unfold chunks at hx
  have : ¬ n = 0 := by omega
  simp only [this, if_false] at hx
  exact chunksF_mem _ n bs hn x hx

theorem chunks_length_le (n : Nat) (bs : Bytes) (hn : 0 < n) : (chunks n bs).length ≤ bs.length := by
  unfold chunks
  have : ¬ n = 0 := by omega
  simp only [this, if_false]
  exact chunksF_length_le _ n bs hn

/-! ## big-endian fields -/

theorem beN_length (w v : Nat) : (beN w v).length = w := by
  induction w with
  | zero => rfl
  | succ w ih => simp [beN, ih]

theorem fromBE_go (bs : Bytes) (a : Nat) :
    bs.foldl (fun acc b => acc * 256 + b.toNat) a = a * 256 ^ bs.length + fromBE bs := by
  induction bs generalizing a with
  | nil => simp [fromBE]
  | cons x t ih =>
    simp only [List.foldl_cons, List.length_cons, fromBE]
    rw [ih, ih (0 * 256 + x.toNat)]
    simp [Nat.pow_succ, Nat.add_mul, Nat.mul_assoc, Nat.add_assoc]
    rw [Nat.mul_comm 256]

theorem fromBE_cons (x : UInt8) (t : Bytes) : fromBE (x :: t) = x.toNat * 256 ^ t.length + fromBE t := by
  simp only [fromBE, List.foldl_cons]
  rw [fromBE_go]
  simp [fromBE]

theorem fromBE_beN (w v : Nat) : fromBE (beN w v) = v % 256 ^ w := by
  induction w with
  | zero => simp [beN, fromBE, Nat.mod_one]
  | succ w ih =>
    simp only [beN]
    rw [fromBE_cons, ih, beN_length]
    have h256 : (UInt8.ofNat (v / 256 ^ w % 256)).toNat = v / 256 ^ w % 256 := by
      simp [UInt8.toNat_ofNat']
    rw [h256]
    rw [Nat.pow_succ, Nat.mod_mul, Nat.mul_comm]
    omega

theorem fromBE_beN_of_lt (w v : Nat) (h : v < 256 ^ w) : fromBE (beN w v) = v := by
  rw [fromBE_beN, Nat.mod_eq_of_lt h]

/-! ## compression header -/

theorem headerPrefix_length (a : Alg) : (headerPrefix a).length = 24 := by
  simp [headerPrefix, headerMagic]

theorem newHeader_length (crc : Bytes → Nat) (a : Alg) : (newHeader crc a).length = headerSize := by
  simp [newHeader, headerPrefix_length, be64, beN_length, headerSize]

theorem newHeader_take24 (crc : Bytes → Nat) (a : Alg) : (newHeader crc a).take 24 = headerPrefix a := by
  simp [newHeader, List.take_append_of_le_length, headerPrefix_length]

theorem newHeader_drop24 (crc : Bytes → Nat) (a : Alg) :
    (newHeader crc a).drop 24 = be64 (crc (headerPrefix a)) := by
  have h := headerPrefix_length a
  simp [newHeader, List.drop_append, h]

theorem Alg.ofId_id (a : Alg) : Alg.ofId a.id = some a := by
  cases a <;> decide

/-- **header_roundtrip.** `parseHeader (newHeader a) = a` for every algorithm and every checksum
function. -/
theorem parseHeader_newHeader (crc : Bytes → Nat) (a : Alg) :
    parseHeader crc (newHeader crc a) = some a := by
  have hlen := newHeader_length crc a
  have h24 := newHeader_take24 crc a
  have hd24 := newHeader_drop24 crc a
  have h16 : (newHeader crc a).take 16 = headerMagic := by
    have : (newHeader crc a).take 16 = ((newHeader crc a).take 24).take 16 := by
      simp [List.take_take]
    rw [this, h24]; simp [headerPrefix, headerMagic]
  have hget (k : Nat) (hk : k < 24) : (newHeader crc a).getD k 0 = (headerPrefix a).getD k 0 := by
    rw [← h24]
    simp [List.getD_eq_getElem?_getD, List.getElem?_take, hk]
  have g16 := hget 16 (by omega)
  have g17 := hget 17 (by omega)
  have g18 := hget 18 (by omega)
  have hp16 : (headerPrefix a).getD 16 0 = headerVersion := by simp [headerPrefix, headerMagic]
  have hp17 : (headerPrefix a).getD 17 0 = a.id := by simp [headerPrefix, headerMagic]
  have hp18 : (headerPrefix a).getD 18 0 = 0 := by simp [headerPrefix, headerMagic]
  have hres : (headerPrefix a).drop 19 = List.replicate 5 0 := by simp [headerPrefix, headerMagic]
  unfold parseHeader
  simp only [headerPrefixSize, hlen, h16, g16, g17, g18, hp16, hp17, hp18, h24, hd24, hres]
  simp [Alg.ofId_id]

/-- **header_non_confusion (1).** What `compression.PutPart` stores always begins with a header that
parses: stored streams are never mistaken for legacy (unframed) content, whatever the content is. -/
theorem stored_begins_with_header (crc : Bytes → Nat) (a : Alg) (body : Bytes) :
    (newHeader crc a ++ body).length ≥ headerSize ∧
    parseHeader crc ((newHeader crc a ++ body).take headerSize) = some a ∧
    (newHeader crc a ++ body).drop headerSize = body := by
  have hlen := newHeader_length crc a
  refine ⟨by simp [hlen], ?_, ?_⟩
  · rw [List.take_append_of_le_length (by omega)]
    rw [← hlen, List.take_length]
    exact parseHeader_newHeader crc a
  · rw [← hlen]; simp

/-! ## erasure-coding stripes -/

theorem padTo_length (n : Nat) (bs : Bytes) : (padTo n bs).length = max n bs.length := by
  simp [padTo]; omega

theorem padTo_take_append (x : Bytes) (K L : Nat) :
    padTo K (x.take K) ++ padTo L ((x.drop K).take L) = padTo (K + L) (x.take (K + L)) := by
  by_cases h : K ≤ x.length
  · -- no padding in the first part
    have h1 : (x.take K).length = K := by simp [List.length_take]; omega
    have e2 : x.take (K + L) = x.take K ++ (x.drop K).take L := by rw [List.take_add]
    rw [e2]
    simp only [padTo, List.length_append, h1, List.append_assoc, Nat.sub_self, List.replicate_zero,
      List.nil_append]
    generalize ((x.drop K).take L).length = m
    rw [show K + L - (K + m) = L - m by omega]
  · -- the content ended before K: the second part is all padding
    have d0 : x.drop K = [] := by simp [List.drop_eq_nil_iff]; omega
    have t1 : x.take K = x := List.take_of_length_le (by omega)
    have t2 : x.take (K + L) = x := List.take_of_length_le (by omega)
    rw [d0, t1, t2]
    simp only [padTo, List.take_nil, List.length_nil, List.nil_append, Nat.sub_zero, List.append_assoc,
      List.replicate_append_replicate]
    rw [show K - x.length + L = K + L - x.length by omega]

/-- The first `k` data shards glued together = the first `k*L` bytes of the stripe, zero padded. -/
theorem flatten_stripe_prefix (L : Nat) (x : Bytes) (k : Nat) :
    ((List.range k).map fun i => padTo L ((x.drop (i * L)).take L)).flatten
      = padTo (k * L) (x.take (k * L)) := by
  induction k with
  | zero => simp [padTo]
  | succ k ih =>
    rw [List.range_succ, List.map_append, List.flatten_append, ih]
    simp only [List.map_cons, List.map_nil, List.flatten_cons, List.flatten_nil, List.append_nil]
    have hk : (k + 1) * L = k * L + L := by rw [Nat.add_mul, Nat.one_mul]
    rw [hk]
    exact padTo_take_append x (k * L) L

theorem le_mul_shardLen (d n : Nat) (hd : 0 < d) : n ≤ d * shardLen d n := by
  unfold shardLen
  have := Nat.div_add_mod (n + d - 1) d
  have hm := Nat.mod_lt (n + d - 1) hd
  omega

/-- **unstripe_stripe.** For every number of data shards `d ≥ 1` and every stripe content `x`: cutting
into `d` zero-padded shards and gluing them back with `dataBytes = |x|` gives `x`. -/
theorem unstripe_stripe (d : Nat) (x : Bytes) (hd : 0 < d) : unstripe x.length (stripe d x) = x := by
  unfold unstripe stripe
  simp only
  rw [flatten_stripe_prefix]
  have hle := le_mul_shardLen d x.length hd
  have t : x.take (d * shardLen d x.length) = x := List.take_of_length_le hle
  rw [t]
  simp only [padTo, List.length_append, List.length_replicate]
  split
  · simp
  · have : d * shardLen d x.length - x.length = 0 := by omega
    simp [this]

theorem stripe_length (d : Nat) (x : Bytes) : (stripe d x).length = d := by
  simp [stripe]

theorem stripe_shard_length (d : Nat) (x : Bytes) (s : Bytes) (hs : s ∈ stripe d x) :
    s.length = shardLen d x.length := by
  simp only [stripe, List.mem_map, List.mem_range] at hs
  obtain ⟨i, _, rfl⟩ := hs
  rw [padTo_length]
  simp [List.length_take]
  omega

theorem shardLen_pos (d n : Nat) (hd : 0 < d) (hn : 0 < n) : 0 < shardLen d n := by
  unfold shardLen
  exact Nat.div_pos (by omega) hd

end Pithos.Codec
