/-
The row invariant of the storage model and its preservation by every operation:
in every reachable state, in every bucket,
  * row ids are below the allocation counter and pairwise distinct, and
  * every key has AT MOST ONE row flagged `latest`.
(`Pithos.Props.C02.reachable_one_latest` is the statement for all histories.)
-/
import Pithos.Lemmas.S3Rows

namespace Pithos.S3

structure RowsInv (nextRow : Nat) (rows : List Row) : Prop where
  fresh : ∀ r ∈ rows, r.rowId < nextRow
  nodup : (ids rows).Nodup
  one   : ∀ k, lc rows k ≤ 1

def Inv (s : State) : Prop := ∀ bk ∈ s.buckets, RowsInv s.nextRow bk.rows

theorem RowsInv.mono {n m : Nat} {rows : List Row} (h : RowsInv n rows) (hnm : n ≤ m) : RowsInv m rows :=
  ⟨fun r hr => Nat.lt_of_lt_of_le (h.fresh r hr) hnm, h.nodup, h.one⟩

theorem RowsInv.nil (n : Nat) : RowsInv n [] := ⟨by simp, by simp [ids], by simp [lc]⟩

theorem RowsInv.filter {n : Nat} {rows : List Row} (h : RowsInv n rows) (q : Row → Bool) : RowsInv n (rows.filter q) :=
  ⟨fun r hr => h.fresh r (List.mem_filter.1 hr).1, ids_filter_nodup rows q h.nodup,
   fun k => Nat.le_trans (lc_filter_le rows k q) (h.one k)⟩

/-- Replacing a row by one with the same id and key that does not newly raise the latest flag. -/
theorem RowsInv.repl_keep {n : Nat} {rows : List Row} (h : RowsInv n rows) {r y : Row}
    (hr : r ∈ rows) (hid : y.rowId = r.rowId) (hkey : y.key = r.key) (hl : y.latest = true → r.latest = true) :
    RowsInv n (repl rows y) := by
  refine ⟨?_, ?_, ?_⟩
  · intro z hz
    rcases mem_repl hz with rfl | ⟨hz', _⟩
    · rw [hid]; exact h.fresh r hr
    · exact h.fresh z hz'
  · rw [ids_repl]; exact h.nodup
  · intro k
    have hc := countP_repl (fun x => x.key == k && x.latest) rows r y h.nodup hr hid
    have hone := h.one k
    unfold lc at *
    by_cases hy : (y.key == k && y.latest) = true
    · have hrr : (r.key == k && r.latest) = true := by
        simp at hy ⊢; exact ⟨by rw [← hkey]; exact hy.1, hl hy.2⟩
      simp [hy, hrr] at hc; omega
    · simp [hy] at hc
      split at hc <;> omega

/-- Replacing a row by one (same id) that IS latest, when no row of its key is latest. -/
theorem RowsInv.repl_raise {n : Nat} {rows : List Row} (h : RowsInv n rows) {r y : Row}
    (hr : r ∈ rows) (hid : y.rowId = r.rowId) (hz : lc rows y.key = 0) :
    RowsInv n (repl rows y) := by
  refine ⟨?_, ?_, ?_⟩
  · intro z hz'
    rcases mem_repl hz' with rfl | ⟨hz'', _⟩
    · rw [hid]; exact h.fresh r hr
    · exact h.fresh z hz''
  · rw [ids_repl]; exact h.nodup
  · intro k
    have hc := countP_repl (fun x => x.key == k && x.latest) rows r y h.nodup hr hid
    have hone := h.one k
    unfold lc at *
    by_cases hk : y.key = k
    · subst hk
      split at hc <;> split at hc <;> omega
    · have hy : (y.key == k && y.latest) = false := by simp [hk]
      simp [hy] at hc
      split at hc <;> omega

theorem RowsInv.add {n : Nat} {rows : List Row} (h : RowsInv n rows) {y : Row}
    (hid : y.rowId = n) (hz : lc rows y.key = 0 ∨ y.latest = false) : RowsInv (n + 1) (rows ++ [y]) := by
  refine ⟨?_, ?_, ?_⟩
  · intro z hz'
    rcases List.mem_append.1 hz' with hz'' | hz''
    · exact Nat.lt_succ_of_lt (h.fresh z hz'')
    · simp at hz''; subst hz''; omega
  · unfold ids
    rw [List.map_append, List.nodup_append]
    refine ⟨h.nodup, by simp, ?_⟩
    intro a ha b hb
    simp at hb; subst hb
    obtain ⟨x, hx, rfl⟩ := List.mem_map.1 ha
    have := h.fresh x hx
    omega
  · intro k
    rw [lc_append, lc_single]
    have hone := h.one k
    by_cases hy : (y.key == k && y.latest) = true
    · simp [hy]
      rcases hz with hz | hz
      · have : y.key = k := by simp at hy; exact hy.1
        subst this; omega
      · simp [hz] at hy
    · simp [hy]; exact hone

-- ---------------------------------------------------------------- bucket-level primitives

theorem unlatest_rows (q : Quirks) (now : Nat) (bk : Bucket) (r : Row) :
    (unlatest q now bk r).rows = repl bk.rows { r with latest := false, updated := if q.touchOnAnySave then now else r.updated } := rfl

theorem inv_unlatest {n : Nat} (q : Quirks) (now : Nat) (bk : Bucket) (r : Row)
    (h : RowsInv n bk.rows) (hr : r ∈ bk.rows) : RowsInv n (unlatest q now bk r).rows := by
  rw [unlatest_rows]
  exact h.repl_keep hr rfl rfl (by simp)

/-- After clearing the flag of the current latest row, no row of `k` is latest. -/
theorem lc_unlatestCur (q : Quirks) (now : Nat) (bk : Bucket) (k : String) {n : Nat}
    (h : RowsInv n bk.rows) : lc (unlatestCur q now bk k).rows k = 0 := by
  unfold unlatestCur
  cases hl : latestRow bk k with
  | none => simpa using latestRow_none hl
  | some r =>
    obtain ⟨hr, hk, hlat⟩ := latestRow_some hl
    simp only [unlatest_rows]
    generalize hy : ({ r with latest := false, updated := if q.touchOnAnySave then now else r.updated } : Row) = y
    have hyl : y.latest = false := by rw [← hy]
    have hyid : y.rowId = r.rowId := by rw [← hy]
    have hc := countP_repl (fun x => x.key == k && x.latest) bk.rows r y h.nodup hr hyid
    have hone := h.one k
    unfold lc at *
    have hpr : (r.key == k && r.latest) = true := by simp [hk, hlat]
    have hpy : (y.key == k && y.latest) = false := by simp [hyl]
    simp only [hpr, hpy, if_true] at hc
    simp at hc
    omega

theorem inv_unlatestCur (q : Quirks) (now : Nat) (bk : Bucket) (k : String) {n : Nat}
    (h : RowsInv n bk.rows) : RowsInv n (unlatestCur q now bk k).rows := by
  unfold unlatestCur
  cases hl : latestRow bk k with
  | none => exact h
  | some r => exact inv_unlatest q now bk r h (latestRow_some hl).1

theorem unlatestCur_ids (q : Quirks) (now : Nat) (bk : Bucket) (k : String) :
    ids (unlatestCur q now bk k).rows = ids bk.rows := by
  unfold unlatestCur
  cases latestRow bk k with
  | none => rfl
  | some r => simp only [unlatest_rows, ids_repl]

theorem touch_inv {n : Nat} (q : Quirks) (now : Nat) (bk : Bucket) (r : Row)
    (h : RowsInv n bk.rows) (hr : r ∈ bk.rows) : RowsInv n (replaceRow bk (touch q now r)).rows := by
  rw [replaceRow_rows]
  exact h.repl_keep hr rfl rfl (by simp [touch])

theorem rowByVid_mem {bk : Bucket} {k : String} {v : Option Nat} {r : Row} (h : rowByVid bk k v = some r) :
    r ∈ bk.rows ∧ r.key = k ∧ r.vid = v := by
  unfold rowByVid at h
  have hm := List.mem_of_find?_eq_some h
  have hp := List.find?_some h
  simp at hp
  exact ⟨hm, hp.1, hp.2⟩

/-- Some row with the id of `r` is still present after `unlatestCur`. -/
theorem mem_ids_unlatestCur (q : Quirks) (now : Nat) (bk : Bucket) (k : String) {r : Row} (hr : r ∈ bk.rows) :
    ∃ r' ∈ (unlatestCur q now bk k).rows, r'.rowId = r.rowId := by
  have : r.rowId ∈ ids (unlatestCur q now bk k).rows := by
    rw [unlatestCur_ids]; exact List.mem_map.2 ⟨r, hr, rfl⟩
  obtain ⟨r', hr', he⟩ := List.mem_map.1 this
  exact ⟨r', hr', he⟩

-- ---------------------------------------------------------------- setBucket

theorem mem_setBucket {s : State} {bk b : Bucket} (h : b ∈ (setBucket s bk).buckets) :
    b = bk ∨ b ∈ s.buckets := by
  unfold setBucket at h
  simp only at h
  obtain ⟨x, hx, rfl⟩ := List.mem_map.1 h
  by_cases hq : (x.name == bk.name) = true
  · left; simp [hq]
  · right; simp [hq]; exact hx

theorem setBucket_nextRow (s : State) (bk : Bucket) : (setBucket s bk).nextRow = s.nextRow := rfl

theorem inv_setBucket {s : State} {bk : Bucket} (h : Inv s) (hb : RowsInv s.nextRow bk.rows) : Inv (setBucket s bk) := by
  intro b hbm
  rcases mem_setBucket hbm with rfl | hold
  · exact hb
  · exact h b hold

theorem findBucket_mem {s : State} {b : String} {bk : Bucket} (h : findBucket s b = some bk) : bk ∈ s.buckets :=
  List.mem_of_find?_eq_some h

/-- State with a bigger allocation counter. -/
theorem inv_bump {s : State} {bk : Bucket} {m v : Nat} (h : Inv s) (hm : s.nextRow ≤ m)
    (hb : RowsInv m bk.rows) : Inv { setBucket s bk with nextVid := v, nextRow := m } := by
  intro b hbm
  have hbm' : b ∈ (setBucket s bk).buckets := hbm
  rcases mem_setBucket hbm' with rfl | hold
  · exact hb
  · exact (h b hold).mono hm

-- ---------------------------------------------------------------- install / putRow

theorem inv_install (q : Quirks) (s : State) (bk : Bucket) (k : String) (n : NewObj)
    (h : Inv s) (hb : RowsInv s.nextRow bk.rows) : Inv (install q s bk k n).1 := by
  unfold install
  have h2 := inv_unlatestCur q s.clock bk k hb
  have hz := lc_unlatestCur q s.clock bk k hb
  simp only []
  split
  · -- enabled: fresh row
    apply inv_bump h (Nat.le_succ _)
    rw [addRow_rows]
    exact h2.add (by simp [mkRow]) (Or.inl (by simpa [mkRow] using hz))
  · split
    · -- the null row is replaced in place
      rename_i nr hnr
      apply inv_setBucket h
      rw [replaceRow_rows]
      obtain ⟨hmem, _, _⟩ := rowByVid_mem (by simpa [nullRow] using hnr)
      obtain ⟨r', hr', hid⟩ := mem_ids_unlatestCur q s.clock bk k hmem
      exact h2.repl_raise hr' (by simp [mkRow, hid]) (by simpa [mkRow] using hz)
    · apply inv_bump h (Nat.le_succ _)
      rw [addRow_rows]
      exact h2.add (by simp [mkRow]) (Or.inl (by simpa [mkRow] using hz))

/-- Shape of a successful `putRow`: the bucket is (possibly) lock-touched, then `install`ed into. -/
theorem putRow_ok {q : Quirks} {s : State} {bk : Bucket} {k : String} {n : NewObj} {inm : Bool} {im : IfMatch}
    {x : State × Option Nat} (hok : putRow q s bk k n inm im = .ok x) :
    ∃ bk1, (bk1 = bk ∨ ∃ r, latestRow bk k = some r ∧ bk1 = replaceRow bk (touch q s.clock r)) ∧
      x = install q s bk1 k n := by
  unfold putRow at hok
  simp only [] at hok
  by_cases h1 : (!ifMatchOk im (latestRow bk k)) = true
  · simp [h1] at hok
  · simp only [h1] at hok
    cases hl : latestRow bk k with
    | none =>
      simp only [hl] at hok
      by_cases h3 : (inm && bk.ver != Versioning.enabled && (nullRow bk k).any (·.latest)) = true
      · simp [h3] at hok
      · simp [h3] at hok
        exact ⟨bk, Or.inl rfl, hok.symm⟩
    | some r =>
      simp only [hl] at hok
      by_cases h2 : (inm && !r.dm) = true
      · simp [h2] at hok
      · simp only [h2] at hok
        by_cases hc : (inm || im != IfMatch.none) = true
        · simp only [hc, if_true] at hok
          by_cases h3 : (inm && bk.ver != Versioning.enabled && (nullRow (replaceRow bk (touch q s.clock r)) k).any (·.latest)) = true
          · simp [h3] at hok
          · simp [h3] at hok
            exact ⟨_, Or.inr ⟨r, rfl, rfl⟩, hok.symm⟩
        · simp only [hc] at hok
          by_cases h3 : (inm && bk.ver != Versioning.enabled && (nullRow bk k).any (·.latest)) = true
          · simp [h3] at hok
          · simp [h3] at hok
            exact ⟨bk, Or.inl rfl, hok.symm⟩

theorem inv_putRow (q : Quirks) (s : State) (bk : Bucket) (k : String) (n : NewObj) (inm : Bool) (im : IfMatch)
    (h : Inv s) (hb : RowsInv s.nextRow bk.rows) {s' : State} {vid : Option Nat}
    (hok : putRow q s bk k n inm im = .ok (s', vid)) : Inv s' := by
  obtain ⟨bk1, hbk1, hx⟩ := putRow_ok hok
  have : s' = (install q s bk1 k n).1 := by rw [← hx]
  rw [this]
  apply inv_install q s bk1 k n h
  rcases hbk1 with rfl | ⟨r, hl, rfl⟩
  · exact hb
  · exact touch_inv q s.clock bk r hb (latestRow_some hl).1

end Pithos.S3
