/-
Helper lemmas for C06 (listings): the byte order, insertion sort, keyset pagination over a sorted
table, the paging loop of ListObjectVersions, SQLite LIKE vs. byte prefix, determineCommonPrefix
vs. the S3 grouping. Core Lean only.
-/
import Pithos.Model.Listing

namespace Pithos.Listing
open Pithos.S3List (Key keyLt keyLe sortBy insertBy Entry Row)
open List

/-! ## 1. The byte order is a strict total order -/

theorem keyLt_irrefl (a : Key) : keyLt a a = false := by
  induction a with
  | nil => rfl
  | cons x xs ih => simp [keyLt, ih, UInt8.lt_irrefl]

theorem keyLt_trans {a b c : Key} (h1 : keyLt a b = true) (h2 : keyLt b c = true) : keyLt a c = true := by
  induction a generalizing b c with
  | nil =>
    cases b with
    | nil => simp [keyLt] at h1
    | cons y ys => cases c with
      | nil => simp [keyLt] at h2
      | cons z zs => simp [keyLt]
  | cons x xs ih =>
    cases b with
    | nil => simp [keyLt] at h1
    | cons y ys =>
      cases c with
      | nil => simp [keyLt] at h2
      | cons z zs =>
        simp only [keyLt] at h1 h2 ⊢
        by_cases hxy : x < y
        · by_cases hyz : y < z
          · simp [UInt8.lt_trans hxy hyz]
          · simp only [hyz, if_false] at h2
            by_cases hzy : z < y
            · simp [hzy] at h2
            · have : y = z := UInt8.le_antisymm (UInt8.not_lt.mp hzy) (UInt8.not_lt.mp hyz)
              subst this; simp [hxy]
        · simp only [hxy, if_false] at h1
          by_cases hyx : y < x
          · simp [hyx] at h1
          · have : x = y := UInt8.le_antisymm (UInt8.not_lt.mp hyx) (UInt8.not_lt.mp hxy)
            subst this
            simp only [hyx, if_false] at h1
            by_cases hxz : x < z
            · simp [hxz]
            · simp only [hxz, if_false] at h2 ⊢
              by_cases hzx : z < x
              · simp [hzx] at h2
              · simp only [hzx, if_false] at h2 ⊢
                exact ih h1 h2

theorem keyLt_asymm {a b : Key} (h : keyLt a b = true) : keyLt b a = false := by
  cases hba : keyLt b a with
  | false => rfl
  | true => have := keyLt_trans h hba; simp [keyLt_irrefl] at this

/-- Trichotomy. -/
theorem keyLt_total (a b : Key) : keyLt a b = true ∨ a = b ∨ keyLt b a = true := by
  induction a generalizing b with
  | nil => cases b <;> simp [keyLt]
  | cons x xs ih =>
    cases b with
    | nil => simp [keyLt]
    | cons y ys =>
      simp only [keyLt]
      by_cases hxy : x < y
      · simp [hxy]
      · by_cases hyx : y < x
        · simp [hxy, hyx]
        · have : x = y := UInt8.le_antisymm (UInt8.not_lt.mp hyx) (UInt8.not_lt.mp hxy)
          subst this
          simp only [hxy, if_false, List.cons.injEq, true_and]
          exact ih ys

theorem keyLe_trans {a b c : Key} (h1 : keyLe a b = true) (h2 : keyLe b c = true) : keyLe a c = true := by
  simp only [keyLe, Bool.not_eq_true'] at *
  cases hca : keyLt c a with
  | false => rfl
  | true =>
    rcases keyLt_total b c with h | h | h
    · have := keyLt_trans h hca; simp [this] at h1
    · subst h; simp [hca] at h1
    · simp [h] at h2

theorem keyLe_total (a b : Key) : (keyLe a b || keyLe b a) = true := by
  simp only [keyLe, Bool.or_eq_true, Bool.not_eq_true']
  cases h : keyLt b a with
  | false => simp
  | true => right; exact keyLt_asymm h

theorem keyLt_of_le_of_ne {a b : Key} (h : keyLe a b = true) (hne : a ≠ b) : keyLt a b = true := by
  simp only [keyLe, Bool.not_eq_true'] at h
  rcases keyLt_total a b with h' | h' | h'
  · exact h'
  · exact absurd h' hne
  · simp [h'] at h

/-! ## 2. Insertion sort -/

theorem perm_insertBy (le : α → α → Bool) (a : α) (l : List α) : insertBy le a l ~ a :: l := by
  induction l with
  | nil => simp [insertBy]
  | cons b bs ih =>
    simp only [insertBy]
    split
    · exact Perm.refl _
    · exact (Perm.cons b ih).trans (Perm.swap a b bs)

theorem perm_sortBy (le : α → α → Bool) (l : List α) : sortBy le l ~ l := by
  induction l with
  | nil => simp [sortBy]
  | cons a as ih => exact (perm_insertBy le a _).trans (Perm.cons a ih)

theorem pairwise_insertBy {le : α → α → Bool}
    (trans : ∀ a b c, le a b = true → le b c = true → le a c = true)
    (total : ∀ a b, (le a b || le b a) = true) (a : α) (l : List α)
    (h : l.Pairwise (fun x y => le x y = true)) : (insertBy le a l).Pairwise (fun x y => le x y = true) := by
  induction l with
  | nil => simp [insertBy]
  | cons b bs ih =>
    simp only [insertBy]
    have hb : ∀ {x}, x ∈ bs → le b x = true := fun hx => List.rel_of_pairwise_cons h hx
    split
    · rename_i hab
      refine Pairwise.cons ?_ h
      intro x hx
      rcases List.mem_cons.mp hx with rfl | hx
      · exact hab
      · exact trans _ _ _ hab (hb hx)
    · rename_i hab
      have hba : le b a = true := by
        have := total a b
        simp only [Bool.or_eq_true] at this
        rcases this with h' | h'
        · exact absurd h' hab
        · exact h'
      refine Pairwise.cons ?_ (ih h.tail)
      intro x hx
      have := (perm_insertBy le a bs).subset hx
      rcases List.mem_cons.mp this with rfl | hx
      · exact hba
      · exact hb hx

theorem pairwise_sortBy {le : α → α → Bool}
    (trans : ∀ a b c, le a b = true → le b c = true → le a c = true)
    (total : ∀ a b, (le a b || le b a) = true) (l : List α) :
    (sortBy le l).Pairwise (fun x y => le x y = true) := by
  induction l with
  | nil => simp [sortBy]
  | cons a as ih => exact pairwise_insertBy trans total a _ ih

/-! ## 3. Keyset pagination over a strictly sorted list -/

structure StrictOrder (lt : α → α → Bool) : Prop where
  irrefl : ∀ a, lt a a = false
  trans : ∀ a b c, lt a b = true → lt b c = true → lt a c = true

theorem StrictOrder.asymm {lt : α → α → Bool} (h : StrictOrder lt) {a b : α} (hab : lt a b = true) :
    lt b a = false := by
  cases hba : lt b a with
  | false => rfl
  | true => have := h.trans _ _ _ hab hba; simp [h.irrefl] at this

abbrev Sorted (lt : α → α → Bool) (l : List α) : Prop := l.Pairwise (fun a b => lt a b = true)

/-- In a strictly sorted list, the rows after `x` are exactly the rows to its right. -/
theorem filter_lt_of_sorted {lt : α → α → Bool} (h : StrictOrder lt) {l1 l2 : List α} {x : α}
    (hs : Sorted lt (l1 ++ x :: l2)) : (l1 ++ x :: l2).filter (lt x) = l2 := by
  have hs' := List.pairwise_append.mp hs
  rw [List.filter_append, List.filter_cons]
  have h1 : l1.filter (lt x) = [] := by
    rw [List.filter_eq_nil_iff]
    intro a ha
    have := hs'.2.2 a ha x (by simp)
    simp [h.asymm this]
  have h2 : l2.filter (lt x) = l2 := by
    rw [List.filter_eq_self]
    intro b hb
    exact List.rel_of_pairwise_cons hs'.2.1 hb
  simp [h1, h2, h.irrefl]

theorem Sorted.filter {lt : α → α → Bool} {l : List α} (h : Sorted lt l) (p : α → Bool) :
    Sorted lt (l.filter p) := List.Pairwise.sublist List.filter_sublist h

/-! ## 4. The client that follows markers -/

/-- If every page delivers a prefix of what remains and its marker leads to the rest (strictly
shorter), the client terminates with `done` and the pages concatenate to everything. -/
theorem follow_exact {μ ρ ε β : Type} (page : Option μ → Option ρ) (truncated : ρ → Bool)
    (next : ρ → Option μ) (out : ρ → List ε) (rem : Option μ → List β) (F : List β → List ε)
    (maxN : Nat) (Inv : Option μ → Prop)
    (contract : ∀ m, Inv m → ∃ p, page m = some p ∧ (out p).length ≤ maxN ∧
        (truncated p = false → out p = F (rem m)) ∧
        (truncated p = true → ∃ n, next p = some n ∧ Inv (some n) ∧
            out p ++ F (rem (some n)) = F (rem m) ∧ (rem (some n)).length < (rem m).length)) :
    ∀ fuel m, Inv m → (rem m).length < fuel →
      (follow page truncated next fuel m).2 = .done ∧
      ((follow page truncated next fuel m).1.map out).flatten = F (rem m) ∧
      ∀ p ∈ (follow page truncated next fuel m).1, (out p).length ≤ maxN := by
  intro fuel
  induction fuel with
  | zero => intro m _ h; omega
  | succ f ih =>
    intro m hinv hlen
    obtain ⟨p, hp, hsz, hnt, ht⟩ := contract m hinv
    cases htr : truncated p with
    | false =>
      have hout := hnt htr
      simp only [follow, hp, htr]
      refine ⟨rfl, by simp [hout], ?_⟩
      intro q hq
      simp at hq
      subst hq
      exact hsz
    | true =>
      obtain ⟨n, hn, hinvn, hcat, hdec⟩ := ht htr
      have := ih (some n) hinvn (by omega)
      simp only [follow, hp, htr, hn, if_true]
      refine ⟨this.1, ?_, ?_⟩
      · simp only [List.map_cons, List.flatten_cons, this.2.1, hcat]
      · intro q hq
        rcases List.mem_cons.mp hq with rfl | hq
        · exact hsz
        · exact this.2.2 q hq

/-! ## 5. The paging loop of ListObjectVersions (`groupedLoop`) -/

open Pithos.S3List (dedupCPs)

/-- The entry a row turns into under a grouping function. -/
def entOf (keyOf : α → Key) (cpOf : Key → Option Key) (r : α) : Entry α :=
  match cpOf (keyOf r) with
  | some c => .cp c
  | none => .item r

/-- The set of common prefixes seen after `dedupCPs seen es`. -/
def seenAfter : List Key → List (Entry α) → List Key
  | s, [] => s
  | s, .item _ :: es => seenAfter s es
  | s, .cp c :: es => if s.contains c then seenAfter s es else seenAfter (c :: s) es

theorem dedupCPs_append (s : List Key) (a b : List (Entry α)) :
    dedupCPs s (a ++ b) = dedupCPs s a ++ dedupCPs (seenAfter s a) b := by
  induction a generalizing s with
  | nil => simp [dedupCPs, seenAfter]
  | cons e es ih =>
    cases e with
    | item x => simp [dedupCPs, seenAfter, ih]
    | cp c =>
      simp only [List.cons_append, dedupCPs, seenAfter]
      split <;> simp [ih]

theorem mem_seenAfter {s : List Key} {es : List (Entry α)} {c : Key} (h : c ∈ seenAfter s es) :
    c ∈ s ∨ Entry.cp c ∈ es := by
  induction es generalizing s with
  | nil => exact Or.inl h
  | cons e es ih =>
    cases e with
    | item x =>
      rcases ih (by simpa [seenAfter] using h) with h | h
      · exact Or.inl h
      · exact Or.inr (List.mem_cons_of_mem _ h)
    | cp d =>
      simp only [seenAfter] at h
      split at h
      · rcases ih h with h | h
        · exact Or.inl h
        · exact Or.inr (List.mem_cons_of_mem _ h)
      · rcases ih h with h | h
        · rcases List.mem_cons.mp h with rfl | h
          · exact Or.inr (by simp)
          · exact Or.inl h
        · exact Or.inr (List.mem_cons_of_mem _ h)

/-- Common prefixes that cannot occur in `es` may be dropped from the seen-set. -/
theorem dedupCPs_irrelevant (s s' : List Key) (es : List (Entry α))
    (h : ∀ c, Entry.cp c ∈ es → c ∉ s) : dedupCPs (s' ++ s) es = dedupCPs s' es := by
  induction es generalizing s' with
  | nil => simp [dedupCPs]
  | cons e es ih =>
    have hes : ∀ c, Entry.cp c ∈ es → c ∉ s := fun c hc => h c (List.mem_cons_of_mem _ hc)
    cases e with
    | item x => simp [dedupCPs, ih s' hes]
    | cp c =>
      have hc : c ∉ s := h c (by simp)
      have hcont : (s' ++ s).contains c = s'.contains c := by
        simp [hc]
      simp only [dedupCPs, hcont]
      split
      · exact ih s' hes
      · have := ih (c :: s') hes
        simp only [List.cons_append] at this
        rw [this]

def lastOr (l : List α) (d : Option α) : Option α :=
  match l.getLast? with
  | some x => some x
  | none => d

theorem lastOr_nil (d : Option α) : lastOr [] d = d := rfl

theorem lastOr_cons (r : α) (l : List α) (d : Option α) : lastOr (r :: l) d = lastOr l (some r) := by
  cases l with
  | nil => simp [lastOr]
  | cons a as =>
    simp only [lastOr, List.getLast?_cons_cons]
    cases h : (a :: as).getLast? with
    | none => simp at h
    | some x => rfl

theorem lastOr_of_ne_nil {l : List α} (h : l ≠ []) (d : Option α) : ∃ x ∈ l, lastOr l d = some x := by
  cases hl : l.getLast? with
  | none => simp [List.getLast?_eq_none_iff] at hl; exact absurd hl h
  | some x => exact ⟨x, List.mem_of_getLast? hl, by simp [lastOr, hl]⟩

/-- Does the row emit an entry given the seen-set? -/
def Emits (keyOf : α → Key) (cpOf : Key → Option Key) (s : List Key) (r : α) : Prop :=
  ∀ c, cpOf (keyOf r) = some c → c ∉ s

section LoopEqs
variable (keyOf : α → Key) (cpOf : Key → Option Key) (keep : Key → Bool) (maxKeys : Nat)

theorem groupedLoop_seen {r : α} {c : Key} (rs : List α) (seen : List Key) (em : Nat) (last : Option α)
    (h : cpOf (keyOf r) = some c) (hs : seen.contains c = true) :
    groupedLoop keyOf cpOf keep maxKeys seen em last (r :: rs)
      = groupedLoop keyOf cpOf keep maxKeys seen em (some r) rs := by
  simp only [groupedLoop, h, hs, ↓reduceIte]

theorem groupedLoop_full_cp {r : α} {c : Key} (rs : List α) (seen : List Key) (em : Nat) (last : Option α)
    (h : cpOf (keyOf r) = some c) (hs : seen.contains c = false) (hf : em ≥ maxKeys) :
    groupedLoop keyOf cpOf keep maxKeys seen em last (r :: rs) = ⟨[], true, last⟩ := by
  simp only [groupedLoop, h, hs, hf, Bool.false_eq_true, ↓reduceIte]

theorem groupedLoop_emit_cp {r : α} {c : Key} (rs : List α) (seen : List Key) (em : Nat) (last : Option α)
    (h : cpOf (keyOf r) = some c) (hs : seen.contains c = false) (hf : ¬ em ≥ maxKeys) :
    groupedLoop keyOf cpOf keep maxKeys seen em last (r :: rs)
      = ⟨.cp c :: (groupedLoop keyOf cpOf keep maxKeys (c :: seen) (em + 1) (some r) rs).entries,
         (groupedLoop keyOf cpOf keep maxKeys (c :: seen) (em + 1) (some r) rs).truncated,
         (groupedLoop keyOf cpOf keep maxKeys (c :: seen) (em + 1) (some r) rs).last⟩ := by
  simp only [groupedLoop, h, hs, hf, Bool.false_eq_true, ↓reduceIte]

theorem groupedLoop_full_item {r : α} (rs : List α) (seen : List Key) (em : Nat) (last : Option α)
    (h : cpOf (keyOf r) = none) (hf : em ≥ maxKeys) :
    groupedLoop keyOf cpOf keep maxKeys seen em last (r :: rs) = ⟨[], true, last⟩ := by
  simp only [groupedLoop, h, hf, ↓reduceIte]

theorem groupedLoop_emit_item {r : α} (rs : List α) (seen : List Key) (em : Nat) (last : Option α)
    (h : cpOf (keyOf r) = none) (hf : ¬ em ≥ maxKeys) (hk : keep (keyOf r) = true) :
    groupedLoop keyOf cpOf keep maxKeys seen em last (r :: rs)
      = ⟨.item r :: (groupedLoop keyOf cpOf keep maxKeys seen (em + 1) (some r) rs).entries,
         (groupedLoop keyOf cpOf keep maxKeys seen (em + 1) (some r) rs).truncated,
         (groupedLoop keyOf cpOf keep maxKeys seen (em + 1) (some r) rs).last⟩ := by
  simp only [groupedLoop, h, hf, hk, ↓reduceIte]

end LoopEqs

/-- One run of the loop consumes a prefix `l1` of the rows, emits exactly the deduplicated entries
of `l1`, reports the last row of `l1`, and is truncated iff rows remain — in which case the page is
full and the first remaining row would emit a new entry. -/
theorem groupedLoop_spec (keyOf : α → Key) (cpOf : Key → Option Key) (keep : Key → Bool) (maxKeys : Nat)
    (rows : List α) (hkeep : ∀ r ∈ rows, cpOf (keyOf r) = none → keep (keyOf r) = true)
    (seen : List Key) (em : Nat) (last : Option α) (hem : em ≤ maxKeys) :
    ∃ l1 l2, rows = l1 ++ l2 ∧
      (groupedLoop keyOf cpOf keep maxKeys seen em last rows).entries
        = dedupCPs seen (l1.map (entOf keyOf cpOf)) ∧
      (groupedLoop keyOf cpOf keep maxKeys seen em last rows).last = lastOr l1 last ∧
      em + (groupedLoop keyOf cpOf keep maxKeys seen em last rows).entries.length ≤ maxKeys ∧
      ((groupedLoop keyOf cpOf keep maxKeys seen em last rows).truncated = false → l2 = []) ∧
      ((groupedLoop keyOf cpOf keep maxKeys seen em last rows).truncated = true →
        em + (groupedLoop keyOf cpOf keep maxKeys seen em last rows).entries.length = maxKeys ∧
        ∃ r0 rest, l2 = r0 :: rest ∧ Emits keyOf cpOf (seenAfter seen (l1.map (entOf keyOf cpOf))) r0) := by
  induction rows generalizing seen em last with
  | nil =>
    refine ⟨[], [], rfl, ?_⟩
    simp [groupedLoop, dedupCPs, lastOr_nil, hem]
  | cons r rs ih =>
    have hkeep' : ∀ x ∈ rs, cpOf (keyOf x) = none → keep (keyOf x) = true :=
      fun x hx => hkeep x (List.mem_cons_of_mem _ hx)
    cases hcp : cpOf (keyOf r) with
    | some c =>
      have hent_r : entOf keyOf cpOf r = .cp c := by simp [entOf, hcp]
      cases hseen : seen.contains c with
      | true =>
        -- already represented: consumed silently
        obtain ⟨l1, l2, hrows, hent, hlast, hcnt, hnt, ht⟩ := ih hkeep' seen em (some r) hem
        refine ⟨r :: l1, l2, by simp [hrows], ?_⟩
        rw [groupedLoop_seen keyOf cpOf keep maxKeys rs seen em last hcp hseen]
        simp only [List.map_cons, hent_r, dedupCPs, seenAfter, hseen, if_true, lastOr_cons]
        exact ⟨hent, hlast, hcnt, hnt, ht⟩
      | false =>
        by_cases hfull : em ≥ maxKeys
        · refine ⟨[], r :: rs, rfl, ?_⟩
          rw [groupedLoop_full_cp keyOf cpOf keep maxKeys rs seen em last hcp hseen hfull]
          refine ⟨by simp [dedupCPs], by simp [lastOr_nil], by simp; omega, by simp, fun _ => ⟨by simp; omega, r, rs, rfl, ?_⟩⟩
          intro c' hc'
          rw [hcp] at hc'
          cases hc'
          simpa [seenAfter, List.contains_iff_mem] using hseen
        · obtain ⟨l1, l2, hrows, hent, hlast, hcnt, hnt, ht⟩ :=
            ih hkeep' (c :: seen) (em + 1) (some r) (by omega)
          refine ⟨r :: l1, l2, by simp [hrows], ?_⟩
          rw [groupedLoop_emit_cp keyOf cpOf keep maxKeys rs seen em last hcp hseen hfull]
          simp only [List.map_cons, hent_r, dedupCPs, seenAfter, hseen, lastOr_cons,
            List.length_cons, Bool.false_eq_true, if_false]
          refine ⟨by rw [hent], hlast, by omega, hnt, fun h => ?_⟩
          obtain ⟨h1, h2⟩ := ht h
          exact ⟨by omega, h2⟩
    | none =>
      have hent_r : entOf keyOf cpOf r = .item r := by simp [entOf, hcp]
      have hk : keep (keyOf r) = true := hkeep r (by simp) hcp
      by_cases hfull : em ≥ maxKeys
      · refine ⟨[], r :: rs, rfl, ?_⟩
        rw [groupedLoop_full_item keyOf cpOf keep maxKeys rs seen em last hcp hfull]
        refine ⟨by simp [dedupCPs], by simp [lastOr_nil], by simp; omega, by simp, fun _ => ⟨by simp; omega, r, rs, rfl, ?_⟩⟩
        intro c' hc'
        rw [hcp] at hc'
        cases hc'
      · obtain ⟨l1, l2, hrows, hent, hlast, hcnt, hnt, ht⟩ :=
          ih hkeep' seen (em + 1) (some r) (by omega)
        refine ⟨r :: l1, l2, by simp [hrows], ?_⟩
        rw [groupedLoop_emit_item keyOf cpOf keep maxKeys rs seen em last hcp hfull hk]
        simp only [List.map_cons, hent_r, dedupCPs, seenAfter, lastOr_cons, List.length_cons]
        refine ⟨by rw [hent], hlast, by omega, hnt, fun h => ?_⟩
        obtain ⟨h1, h2⟩ := ht h
        exact ⟨by omega, h2⟩

theorem entOf_eq_cp {keyOf : α → Key} {cpOf : Key → Option Key} {r : α} {c : Key} :
    entOf keyOf cpOf r = .cp c ↔ cpOf (keyOf r) = some c := by
  unfold entOf
  cases h : cpOf (keyOf r) <;> simp

/-- The entries of the S3 listing of already selected rows. -/
def listed (keyOf : α → Key) (cpOf : Key → Option Key) (l : List α) : List (Entry α) :=
  dedupCPs [] (l.map (entOf keyOf cpOf))

/-- **Page contract of the loop.** On the rows selected by an upward-closed marker predicate out of
a strictly sorted table whose groups are convex, one page is a prefix of the listing; if it is
truncated, the last consumed row `x` is a valid marker: the listing of the rows after `x` is
exactly the rest, and it is strictly shorter. -/
theorem grouped_contract (keyOf : α → Key) (cpOf : Key → Option Key) (keep : Key → Bool)
    (maxKeys : Nat) (hmax : 1 ≤ maxKeys) {lt : α → α → Bool} (hlt : StrictOrder lt)
    (rows : List α) (hsorted : Sorted lt rows)
    (hkeep : ∀ r ∈ rows, cpOf (keyOf r) = none → keep (keyOf r) = true)
    (hconvex : ∀ y x z, y ∈ rows → x ∈ rows → z ∈ rows → lt y x = true → lt x z = true →
      ∀ c, cpOf (keyOf y) = some c → cpOf (keyOf z) = some c → cpOf (keyOf x) = some c)
    (aft : α → Bool)
    (haft : ∀ a b, a ∈ rows → b ∈ rows → aft a = true → lt a b = true → aft b = true) :
    (groupedLoop keyOf cpOf keep maxKeys [] 0 none (rows.filter aft)).entries.length ≤ maxKeys ∧
    ((groupedLoop keyOf cpOf keep maxKeys [] 0 none (rows.filter aft)).truncated = false →
      (groupedLoop keyOf cpOf keep maxKeys [] 0 none (rows.filter aft)).entries
        = listed keyOf cpOf (rows.filter aft)) ∧
    ((groupedLoop keyOf cpOf keep maxKeys [] 0 none (rows.filter aft)).truncated = true →
      ∃ x, x ∈ rows ∧ (groupedLoop keyOf cpOf keep maxKeys [] 0 none (rows.filter aft)).last = some x ∧
        (groupedLoop keyOf cpOf keep maxKeys [] 0 none (rows.filter aft)).entries
          ++ listed keyOf cpOf (rows.filter (lt x)) = listed keyOf cpOf (rows.filter aft) ∧
        (rows.filter (lt x)).length < (rows.filter aft).length) := by
  have hsub : ∀ r, r ∈ rows.filter aft → r ∈ rows := fun r hr => (List.mem_filter.mp hr).1
  obtain ⟨l1, l2, hsel, hent, hlast, hcnt, hnt, ht⟩ :=
    groupedLoop_spec keyOf cpOf keep maxKeys (rows.filter aft)
      (fun r hr => hkeep r (hsub r hr)) [] 0 none (by omega)
  refine ⟨by omega, ?_, ?_⟩
  · intro h
    have := hnt h
    subst this
    rw [hent, listed, hsel]
    simp
  · intro h
    obtain ⟨hfull, r0, rest, hl2, hemit⟩ := ht h
    have hl1 : l1 ≠ [] := by
      intro hnil
      rw [hent, hnil] at hfull
      simp [dedupCPs] at hfull
      omega
    obtain ⟨x, hx1, hxlast⟩ := lastOr_of_ne_nil hl1 none
    have hxsel : x ∈ rows.filter aft := by rw [hsel]; exact List.mem_append_left _ hx1
    have hxrows := hsub x hxsel
    have hxaft : aft x = true := (List.mem_filter.mp hxsel).2
    -- l1 = init ++ [x]
    have hsplit : l1 = l1.dropLast ++ [x] := by
      have hg : l1.getLast? = some x := by
        cases hgl : l1.getLast? with
        | none => simp [lastOr, hgl] at hxlast
        | some y => simp [lastOr, hgl] at hxlast; rw [hxlast]
      rw [List.getLast?_eq_some_iff] at hg
      obtain ⟨ys, hys⟩ := hg
      rw [hys]; simp
    -- the rows after x are exactly l2
    have hafter : rows.filter (lt x) = l2 := by
      have h1 : rows.filter (lt x) = (rows.filter aft).filter (lt x) := by
        rw [List.filter_filter]
        apply List.filter_congr
        intro r hr
        cases hltx : lt x r with
        | false => simp
        | true => simp [haft x r hxrows hr hxaft hltx]
      rw [h1]
      have hs : Sorted lt (l1.dropLast ++ x :: l2) := by
        have := Sorted.filter hsorted aft
        rw [hsel, hsplit] at this
        simpa using this
      have := filter_lt_of_sorted hlt hs
      rw [hsel]
      conv => lhs; rw [hsplit]
      simpa using this
    refine ⟨x, hxrows, by rw [hlast, hxlast], ?_, ?_⟩
    · rw [hafter, hent, listed, listed, hsel, List.map_append, dedupCPs_append]
      congr 1
      have := dedupCPs_irrelevant (seenAfter [] (l1.map (entOf keyOf cpOf))) [] (l2.map (entOf keyOf cpOf)) ?_
      · simpa using this.symm
      · intro c hc hcs
        obtain ⟨z, hz, hzc⟩ := List.mem_map.mp hc
        have hzcp := entOf_eq_cp.mp hzc
        rcases mem_seenAfter hcs with hnil | hin1
        · simp at hnil
        · obtain ⟨y, hy, hyc⟩ := List.mem_map.mp hin1
          have hycp := entOf_eq_cp.mp hyc
          have hsortedSel : Sorted lt (l1 ++ l2) := by
            have := Sorted.filter hsorted aft
            rwa [hsel] at this
          have hpa := List.pairwise_append.mp hsortedSel
          have hr0mem : r0 ∈ l2 := by rw [hl2]; simp
          have hyr0 : lt y r0 = true := hpa.2.2 y hy r0 hr0mem
          have hyrows : y ∈ rows := hsub y (by rw [hsel]; exact List.mem_append_left _ hy)
          have hr0rows : r0 ∈ rows := hsub r0 (by rw [hsel]; exact List.mem_append_right _ hr0mem)
          have hzrows : z ∈ rows := hsub z (by rw [hsel]; exact List.mem_append_right _ hz)
          rw [hl2] at hz
          rcases List.mem_cons.mp hz with rfl | hzrest
          · exact hemit c hzcp hcs
          · have hr0z : lt r0 z = true := by
              have := hpa.2.1
              rw [hl2] at this
              exact List.rel_of_pairwise_cons this hzrest
            have := hconvex y r0 z hyrows hr0rows hzrows hyr0 hr0z c hycp hzcp
            exact hemit c this hcs
    · rw [hafter, hsel]
      have : l1.length ≠ 0 := by
        intro h0; exact hl1 (List.length_eq_zero_iff.mp h0)
      simp; omega

/-- When every row emits an item (no delimiter), `LIMIT maxKeys + 1` does not change the page. -/
theorem groupedLoop_take (keyOf : α → Key) (cpOf : Key → Option Key) (keep : Key → Bool) (maxKeys : Nat)
    (rows : List α) (hall : ∀ r ∈ rows, cpOf (keyOf r) = none ∧ keep (keyOf r) = true)
    (seen : List Key) (em : Nat) (last : Option α) (k : Nat) (hem : em ≤ maxKeys)
    (hk : maxKeys + 1 ≤ em + k) :
    groupedLoop keyOf cpOf keep maxKeys seen em last (rows.take k)
      = groupedLoop keyOf cpOf keep maxKeys seen em last rows := by
  induction rows generalizing em last k with
  | nil => simp
  | cons r rs ih =>
    have hr := hall r (by simp)
    have hrs : ∀ x ∈ rs, cpOf (keyOf x) = none ∧ keep (keyOf x) = true :=
      fun x hx => hall x (List.mem_cons_of_mem _ hx)
    cases k with
    | zero => omega
    | succ k' =>
      rw [List.take_succ_cons]
      by_cases hfull : em ≥ maxKeys
      · rw [groupedLoop_full_item keyOf cpOf keep maxKeys _ seen em last hr.1 hfull,
          groupedLoop_full_item keyOf cpOf keep maxKeys _ seen em last hr.1 hfull]
      · rw [groupedLoop_emit_item keyOf cpOf keep maxKeys _ seen em last hr.1 hfull hr.2,
          groupedLoop_emit_item keyOf cpOf keep maxKeys _ seen em last hr.1 hfull hr.2,
          ih hrs (em + 1) (some r) k' (by omega) (by omega)]

/-! ## 6. SQLite LIKE against a byte prefix -/

/-- Bytes that `LIKE` treats literally and case-sensitively: everything except `%`, `_` and the
ASCII letters. -/
def likeSafeByte (b : UInt8) : Bool :=
  b != 0x25 && b != 0x5F && !(0x41 ≤ b && b ≤ 0x5A) && !(0x61 ≤ b && b ≤ 0x7A)

/-- The prefix contains no `%`, no `_` and no ASCII letter. -/
def LikeSafe (pfx : Key) : Bool := pfx.all likeSafeByte

theorem asciiLower_toNat (b : UInt8) : (asciiLower b).toNat = if 0x41 ≤ b.toNat ∧ b.toNat ≤ 0x5A then b.toNat + 0x20 else b.toNat := by
  unfold asciiLower
  have hb := b.toNat_lt
  by_cases h : (0x41 ≤ b && b ≤ 0x5A) = true
  · have h' : 0x41 ≤ b.toNat ∧ b.toNat ≤ 0x5A := by
      simp only [Bool.and_eq_true, decide_eq_true_eq, UInt8.le_iff_toNat_le] at h
      exact h
    rw [if_pos h, if_pos h', UInt8.toNat_add]
    have : (0x20 : UInt8).toNat = 0x20 := rfl
    rw [this]; omega
  · have h' : ¬ (0x41 ≤ b.toNat ∧ b.toNat ≤ 0x5A) := by
      simp only [Bool.and_eq_true, decide_eq_true_eq, UInt8.le_iff_toNat_le] at h
      exact h
    rw [if_neg h, if_neg h']

theorem likeByteEq_of_safe {c : UInt8} (hc : likeSafeByte c = true) (d : UInt8) :
    likeByteEq c d = (c == d) := by
  cases hcd : c == d with
  | true => simp [likeByteEq, hcd]
  | false =>
    have hne : c ≠ d := by simpa using hcd
    have hcn : c.toNat ≠ d.toNat := fun h => hne (UInt8.toNat_inj.mp h)
    have hlow : asciiLower c ≠ asciiLower d ∨ ¬ (c.toNat < 0x80) := by
      by_cases h80 : c.toNat < 0x80
      · left
        intro heq
        have h1 := congrArg UInt8.toNat heq
        rw [asciiLower_toNat, asciiLower_toNat] at h1
        simp only [likeSafeByte, Bool.and_eq_true, bne_iff_ne, ne_eq, Bool.not_eq_true',
          Bool.and_eq_false_imp, decide_eq_true_eq, decide_eq_false_iff_not, UInt8.le_iff_toNat_le] at hc
        obtain ⟨⟨⟨h25, h5f⟩, hup⟩, hlo⟩ := hc
        have e41 : (0x41 : UInt8).toNat = 0x41 := rfl
        have e5a : (0x5A : UInt8).toNat = 0x5A := rfl
        have e61 : (0x61 : UInt8).toNat = 0x61 := rfl
        have e7a : (0x7A : UInt8).toNat = 0x7A := rfl
        rw [e41, e5a] at hup
        rw [e61, e7a] at hlo
        split at h1 <;> split at h1 <;> omega
      · right; exact h80
    rcases hlow with h | h
    · simp [likeByteEq, hcd, h]
    · have : (c < 0x80) = False := by
        rw [UInt8.lt_iff_toNat_lt]
        have e80 : (0x80 : UInt8).toNat = 0x80 := rfl
        rw [e80]; simp [h]
      simp [likeByteEq, hcd, this]

theorem likeStar_of_nil {k : Key → Bool} (h : k [] = true) (s : Key) : likeStar k s = true := by
  induction s with
  | nil => simpa [likeStar] using h
  | cons d s ih => simp [likeStar, ih]

/-- **LIKE is exact for safe prefixes**: for a prefix without `%`, `_` and ASCII letters,
`key LIKE prefix || '%'` holds exactly for the keys that start with the prefix, byte for byte. -/
theorem sqliteLike_eq_isPrefixOf (pfx : Key) (h : LikeSafe pfx = true) (k : Key) :
    sqliteLike (pfx ++ [0x25]) k = pfx.isPrefixOf k := by
  induction pfx generalizing k with
  | nil =>
    simp only [List.nil_append, sqliteLike, beq_self_eq_true, if_true, List.isPrefixOf]
    exact likeStar_of_nil (by simp) k
  | cons c p ih =>
    simp only [LikeSafe, List.all_cons, Bool.and_eq_true] at h
    have hc := h.1
    have hc25 : (c == 0x25) = false := by
      simp only [likeSafeByte, Bool.and_eq_true, bne_iff_ne, ne_eq] at hc
      simpa using hc.1.1.1
    have hc5f : (c == 0x5F) = false := by
      simp only [likeSafeByte, Bool.and_eq_true, bne_iff_ne, ne_eq] at hc
      simpa using hc.1.1.2
    cases k with
    | nil => simp [sqliteLike, hc25, hc5f, List.isPrefixOf]
    | cons d k' =>
      simp only [List.cons_append, sqliteLike, hc25, hc5f, Bool.false_eq_true, if_false,
        List.isPrefixOf, likeByteEq_of_safe hc d]
      rw [ih h.2 k']

theorem matchPrefix_eq_isPrefixOf (f : PrefixFilter) (pfx : Key)
    (h : f = .exact ∨ LikeSafe pfx = true) (k : Key) : matchPrefix f pfx k = pfx.isPrefixOf k := by
  cases f with
  | exact => rfl
  | like =>
    rcases h with h | h
    · cases h
    · exact sqliteLike_eq_isPrefixOf pfx h k

/-! ## 7. determineCommonPrefix against the S3 grouping, for a delimiter of at most one byte -/

open Pithos.S3List (throughDelim groupOf)

/-- What `splitGo` does to the first segment when a non-separator byte is prepended. -/
def consHead (c : UInt8) : List Key → List Key
  | hd :: tl => (c :: hd) :: tl
  | [] => [[c]]

theorem splitGo_ne_nil (sep : Key) (n : Nat) (s : Key) : splitGo sep n s ≠ [] := by
  induction s generalizing n with
  | nil => simp [splitGo]
  | cons c cs ih =>
    cases n with
    | zero =>
      simp only [splitGo]
      split
      · simp
      · split <;> simp
    | succ k => simpa [splitGo] using ih k

theorem splitGo1_eq (d : UInt8) (cs : Key) : splitGo [d] 0 (d :: cs) = [] :: splitGo [d] 0 cs := by
  simp [splitGo, List.isPrefixOf]

theorem splitGo1_ne {c d : UInt8} (h : c ≠ d) (cs : Key) :
    splitGo [d] 0 (c :: cs) = consHead c (splitGo [d] 0 cs) := by
  have : (d == c) = false := by simpa using fun e : d = c => h e.symm
  simp only [splitGo, List.isPrefixOf, this, Bool.false_and, Bool.false_eq_true, if_false]
  cases splitGo [d] 0 cs <;> rfl

theorem length_consHead (c : UInt8) {l : List Key} (h : l ≠ []) : (consHead c l).length = l.length := by
  cases l with
  | nil => exact absurd rfl h
  | cons a as => rfl

theorem length_splitGo1 (d : UInt8) (s : Key) : (splitGo [d] 0 s).length = s.count d + 1 := by
  induction s with
  | nil => simp [splitGo]
  | cons c cs ih =>
    by_cases h : c = d
    · subst h; simp [splitGo1_eq, ih]
    · rw [splitGo1_ne h, length_consHead c (splitGo_ne_nil _ _ _), ih, List.count_cons_of_ne h]

theorem head_splitGo1 (d : UInt8) (s : Key) :
    ∃ tl, splitGo [d] 0 s = s.takeWhile (· != d) :: tl := by
  induction s with
  | nil => exact ⟨[], by simp [splitGo]⟩
  | cons c cs ih =>
    by_cases h : c = d
    · subst h; exact ⟨splitGo [c] 0 cs, by simp [splitGo1_eq]⟩
    · obtain ⟨tl, htl⟩ := ih
      refine ⟨tl, ?_⟩
      rw [splitGo1_ne h, htl]
      simp [consHead, h]

/-- Joining the first `|segments(p)|` segments of `p ++ rest`, each followed by the delimiter, gives
`p` plus `rest` up to and including its first delimiter byte. -/
theorem join_take_splitGo1 (d : UInt8) (p rest : Key) :
    (((splitGo [d] 0 (p ++ rest)).take (splitGo [d] 0 p).length).map (· ++ [d])).flatten
      = p ++ (rest.takeWhile (· != d) ++ [d]) := by
  induction p with
  | nil =>
    obtain ⟨tl, htl⟩ := head_splitGo1 d rest
    simp [splitGo, htl]
  | cons c p' ih =>
    by_cases h : c = d
    · subst h
      simp only [List.cons_append, splitGo1_eq, List.length_cons, List.take_succ_cons, List.map_cons,
        List.flatten_cons, List.nil_append, ih]
    · have hL : (splitGo [d] 0 p').length ≠ 0 := by
        rw [length_splitGo1]; omega
      rw [List.cons_append, splitGo1_ne h, splitGo1_ne h, length_consHead c (splitGo_ne_nil _ _ _)]
      cases hsp : splitGo [d] 0 (p' ++ rest) with
      | nil => exact absurd hsp (splitGo_ne_nil _ _ _)
      | cons hd tl =>
        obtain ⟨n, hn⟩ : ∃ n, (splitGo [d] 0 p').length = n + 1 := ⟨_, (Nat.succ_pred_eq_of_ne_zero hL).symm⟩
        rw [hsp, hn] at ih
        rw [hn]
        simp only [consHead, List.take_succ_cons, List.map_cons, List.flatten_cons] at ih ⊢
        rw [List.cons_append, List.cons_append, ih]
        rfl

theorem throughDelim1 (d : UInt8) (s : Key) :
    throughDelim [d] s = if d ∈ s then some (s.takeWhile (· != d) ++ [d]) else none := by
  induction s with
  | nil => simp [throughDelim]
  | cons c cs ih =>
    by_cases h : c = d
    · subst h; simp [throughDelim, List.isPrefixOf]
    · have h' : (d == c) = false := by simpa using fun e : d = c => h e.symm
      have hmem : d ∈ c :: cs ↔ d ∈ cs := by
        simp only [List.mem_cons]
        exact ⟨fun hh => hh.resolve_left (fun e => h e.symm), Or.inr⟩
      simp only [throughDelim, List.isPrefixOf, h', Bool.false_and, Bool.false_eq_true, if_false, ih,
        List.takeWhile_cons, hmem]
      split <;> simp [h]

theorem isPrefixOf_append (p r : Key) : p.isPrefixOf (p ++ r) = true := by
  induction p with
  | nil => simp [List.isPrefixOf]
  | cons a as ih => simp [ih]

theorem goContains1 (d : UInt8) (s : Key) : goContains [d] s = s.contains d := by
  induction s with
  | nil => simp [goContains]
  | cons c cs ih =>
    simp only [goContains, List.isPrefixOf, Bool.and_true, ih, List.contains_cons]

/-- **The code's grouping is the S3 grouping** for keys that start with the prefix, when the
delimiter is empty or a single byte. -/
theorem code_grouping_eq (pfx delim k : Key) (hd : delim.length ≤ 1) (hp : pfx.isPrefixOf k = true) :
    codeCP pfx delim k = groupOf pfx delim k ∧
    codeKeep pfx delim k = (groupOf pfx delim k).isNone := by
  obtain ⟨rest, rfl⟩ := List.isPrefixOf_iff_prefix.mp hp
  cases delim with
  | nil => simp [codeCP, codeKeep, groupOf]
  | cons d ds =>
    have : ds = [] := by
      cases ds with
      | nil => rfl
      | cons _ _ => simp at hd
    subst this
    have hdrop : (pfx ++ rest).drop pfx.length = rest := by simp
    constructor
    · simp only [codeCP, List.isEmpty_cons, Bool.false_eq_true, if_false, determineCommonPrefix,
        goSplit, groupOf, hdrop, throughDelim1, length_splitGo1, List.count_append]
      by_cases hmem : d ∈ rest
      · have : rest.count d ≠ 0 := by
          intro h0; exact (List.count_eq_zero.mp h0) hmem
        have hlen : ¬ (pfx.count d + 1 ≥ pfx.count d + rest.count d + 1) := by omega
        rw [if_neg hlen, if_pos hmem]
        have := join_take_splitGo1 d pfx rest
        rw [length_splitGo1] at this
        rw [this]
        rfl
      · have : rest.count d = 0 := List.count_eq_zero.mpr hmem
        simp [this, hmem]
    · simp only [codeKeep, List.isEmpty_cons, Bool.false_or, goTrimPrefix, isPrefixOf_append,
        if_true, hdrop, goContains1, groupOf, Bool.false_eq_true, if_false, throughDelim1]
      by_cases hmem : d ∈ rest <;> simp [hmem]

/-! ## 8. Groups are convex in the byte order -/

theorem keyLe_cons_cons {a b : UInt8} {as bs : Key} (h : keyLe (a :: as) (b :: bs) = true) :
    ¬ b < a ∧ (a = b → keyLe as bs = true) := by
  simp only [keyLe, keyLt, Bool.not_eq_true'] at h ⊢
  by_cases hba : b < a
  · simp [hba] at h
  · refine ⟨hba, fun hab => ?_⟩
    subst hab
    simpa [UInt8.lt_irrefl] using h

/-- A common prefix of two keys is a prefix of every key between them. -/
theorem prefix_between (c : Key) {a' b' x : Key} (hax : keyLe (c ++ a') x = true)
    (hxb : keyLe x (c ++ b') = true) : ∃ x', x = c ++ x' := by
  induction c generalizing x with
  | nil => exact ⟨x, rfl⟩
  | cons h t ih =>
    cases x with
    | nil => simp [keyLe, keyLt] at hax
    | cons y xs =>
      have h1 := keyLe_cons_cons hax
      have h2 := keyLe_cons_cons hxb
      have hy : h = y := UInt8.le_antisymm (UInt8.not_lt.mp h1.1) (UInt8.not_lt.mp h2.1)
      subst hy
      obtain ⟨x', hx'⟩ := ih (h1.2 rfl) (h2.2 rfl)
      exact ⟨x', by simp [hx']⟩

theorem takeWhile_append_stop {p : UInt8 → Bool} {u : Key} {y : UInt8} {t : Key}
    (hu : ∀ x ∈ u, p x = true) (hy : p y = false) : (u ++ y :: t).takeWhile p = u := by
  induction u with
  | nil => simp [hy]
  | cons a as ih =>
    have ha := hu a (by simp)
    simp [ha, ih (fun x hx => hu x (List.mem_cons_of_mem _ hx))]

theorem split_at_first (d : UInt8) {r : Key} (h : d ∈ r) :
    ∃ tail, r = r.takeWhile (· != d) ++ d :: tail := by
  induction r with
  | nil => simp at h
  | cons c cs ih =>
    by_cases hc : c = d
    · subst hc; exact ⟨cs, by simp⟩
    · have hmem : d ∈ cs := by
        rcases List.mem_cons.mp h with e | e
        · exact absurd e.symm hc
        · exact e
      obtain ⟨tail, ht⟩ := ih hmem
      refine ⟨tail, ?_⟩
      have : (c != d) = true := by simpa using hc
      simp only [List.takeWhile_cons, this, if_true, List.cons_append]
      rw [← ht]

theorem groupOf1_eq_some_iff (pfx : Key) (d : UInt8) (rest c : Key) :
    groupOf pfx [d] (pfx ++ rest) = some c ↔
      d ∈ rest ∧ c = pfx ++ (rest.takeWhile (· != d) ++ [d]) := by
  have hdrop : (pfx ++ rest).drop pfx.length = rest := by simp
  simp only [groupOf, List.isEmpty_cons, Bool.false_eq_true, if_false, hdrop, throughDelim1]
  by_cases hmem : d ∈ rest
  · simp [hmem, eq_comm]
  · simp [hmem]

/-- The keys of one common prefix form an interval of the byte order (delimiter of ≤ 1 byte). -/
theorem groupOf_convex (pfx delim : Key) (hd : delim.length ≤ 1) {k1 k2 k3 : Key}
    (h1p : pfx.isPrefixOf k1 = true) (h2p : pfx.isPrefixOf k2 = true) (h3p : pfx.isPrefixOf k3 = true)
    (h12 : keyLe k1 k2 = true) (h23 : keyLe k2 k3 = true) (c : Key)
    (h1 : groupOf pfx delim k1 = some c) (h3 : groupOf pfx delim k3 = some c) :
    groupOf pfx delim k2 = some c := by
  cases delim with
  | nil => simp [groupOf] at h1
  | cons d ds =>
    have : ds = [] := by
      cases ds with
      | nil => rfl
      | cons _ _ => simp at hd
    subst this
    obtain ⟨r1, rfl⟩ := List.isPrefixOf_iff_prefix.mp h1p
    obtain ⟨r2, rfl⟩ := List.isPrefixOf_iff_prefix.mp h2p
    obtain ⟨r3, rfl⟩ := List.isPrefixOf_iff_prefix.mp h3p
    obtain ⟨hm1, hc1⟩ := (groupOf1_eq_some_iff pfx d r1 c).mp h1
    obtain ⟨hm3, hc3⟩ := (groupOf1_eq_some_iff pfx d r3 c).mp h3
    obtain ⟨t1, ht1⟩ := split_at_first d hm1
    obtain ⟨t3, ht3⟩ := split_at_first d hm3
    have hk1 : pfx ++ r1 = c ++ t1 := by
      rw [hc1]; conv => lhs; rw [ht1]
      simp
    have hk3 : pfx ++ r3 = c ++ t3 := by
      rw [hc3]; conv => lhs; rw [ht3]
      simp
    rw [hk1] at h12
    rw [hk3] at h23
    obtain ⟨t2, ht2⟩ := prefix_between c h12 h23
    have hr2 : r2 = r1.takeWhile (· != d) ++ d :: t2 := by
      have : pfx ++ r2 = pfx ++ (r1.takeWhile (· != d) ++ d :: t2) := by
        rw [ht2, hc1]; simp
      exact List.append_cancel_left this
    rw [groupOf1_eq_some_iff]
    refine ⟨by rw [hr2]; simp, ?_⟩
    rw [hc1]
    congr 2
    rw [hr2]
    exact (takeWhile_append_stop (fun x hx => List.all_eq_true.mp List.all_takeWhile x hx) (by simp)).symm

/-! ## 9. Sorted tables -/

theorem sorted_of_le_of_ne {le lt : α → α → Bool} {R : α → α → Prop} {l : List α}
    (hle : l.Pairwise (fun a b => le a b = true)) (hne : l.Pairwise R)
    (h : ∀ a b, le a b = true → R a b → lt a b = true) : Sorted lt l :=
  (hle.and hne).imp (fun ⟨h1, h2⟩ => h _ _ h1 h2)

theorem sorted_sortBy_keys (keys : List Key) (h : keys.Nodup) : Sorted keyLt (sortBy keyLe keys) :=
  sorted_of_le_of_ne (pairwise_sortBy (fun a b c => @keyLe_trans a b c) keyLe_total keys)
    ((perm_sortBy keyLe keys).nodup_iff.mpr h) (fun _ _ h1 h2 => keyLt_of_le_of_ne h1 h2)

theorem keyLt_strict : StrictOrder keyLt := ⟨keyLt_irrefl, fun _ _ _ => keyLt_trans⟩

/-- Order facts about the secondary sort key. -/
structure SubOrd (slt sle : Nat → Nat → Bool) : Prop where
  irrefl : ∀ a, slt a a = false
  trans : ∀ a b c, slt a b = true → slt b c = true → slt a c = true
  tri : ∀ a b, slt a b = true ∨ a = b ∨ slt b a = true
  le_iff : ∀ a b, sle a b = !slt b a

theorem subOrd_asc : SubOrd (fun a b => decide (a < b)) (fun a b => decide (a ≤ b)) where
  irrefl := by intro a; show decide (a < a) = false; simp
  trans := by
    intro a b c h1 h2
    have h1 : a < b := by simpa using h1
    have h2 : b < c := by simpa using h2
    show decide (a < c) = true
    simp; omega
  tri := by
    intro a b
    show decide (a < b) = true ∨ a = b ∨ decide (b < a) = true
    simp; omega
  le_iff := by
    intro a b
    show decide (a ≤ b) = !decide (b < a)
    by_cases h : a ≤ b <;> simp [h] <;> omega

theorem subOrd_desc : SubOrd (fun a b => decide (b < a)) (fun a b => decide (b ≤ a)) where
  irrefl := by intro a; show decide (a < a) = false; simp
  trans := by
    intro a b c h1 h2
    have h1 : b < a := by simpa using h1
    have h2 : c < b := by simpa using h2
    show decide (c < a) = true
    simp; omega
  tri := by
    intro a b
    show decide (b < a) = true ∨ a = b ∨ decide (a < b) = true
    simp; omega
  le_iff := by
    intro a b
    show decide (b ≤ a) = !decide (a < b)
    by_cases h : b ≤ a <;> simp [h] <;> omega

/-- Rows ordered by key, then by `sub` under `slt` — in the shape of the statements' marker
predicates (`key > $m OR (key = $m AND …)`). -/
def lexLt (slt : Nat → Nat → Bool) (a b : Row) : Bool :=
  keyLt a.key b.key || (b.key == a.key && slt a.sub b.sub)

def lexLe (sle : Nat → Nat → Bool) (a b : Row) : Bool :=
  keyLt a.key b.key || (a.key == b.key && sle a.sub b.sub)

section Lex
variable {slt sle : Nat → Nat → Bool} (h : SubOrd slt sle)
include h

theorem lexLt_irrefl (a : Row) : lexLt slt a a = false := by
  simp [lexLt, keyLt_irrefl, h.irrefl]

theorem lexLt_trans {a b c : Row} (h1 : lexLt slt a b = true) (h2 : lexLt slt b c = true) :
    lexLt slt a c = true := by
  simp only [lexLt, Bool.or_eq_true, Bool.and_eq_true, beq_iff_eq] at *
  rcases h1 with h1 | ⟨e1, s1⟩ <;> rcases h2 with h2 | ⟨e2, s2⟩
  · exact Or.inl (keyLt_trans h1 h2)
  · rw [e2]; exact Or.inl h1
  · rw [← e1]; exact Or.inl h2
  · exact Or.inr ⟨by rw [e2, e1], h.trans _ _ _ s1 s2⟩

theorem lexLt_strict : StrictOrder (lexLt slt) := ⟨lexLt_irrefl h, fun _ _ _ => lexLt_trans h⟩

theorem lexLt_tri (a b : Row) :
    lexLt slt a b = true ∨ (a.key = b.key ∧ a.sub = b.sub) ∨ lexLt slt b a = true := by
  simp only [lexLt, Bool.or_eq_true, Bool.and_eq_true, beq_iff_eq]
  rcases keyLt_total a.key b.key with hk | hk | hk
  · exact Or.inl (Or.inl hk)
  · rcases h.tri a.sub b.sub with hs | hs | hs
    · exact Or.inl (Or.inr ⟨hk.symm, hs⟩)
    · exact Or.inr (Or.inl ⟨hk, hs⟩)
    · exact Or.inr (Or.inr (Or.inr ⟨hk, hs⟩))
  · exact Or.inr (Or.inr (Or.inl hk))

theorem lexLe_eq (a b : Row) : lexLe sle a b = !lexLt slt b a := by
  simp only [lexLe, lexLt, h.le_iff]
  rcases keyLt_total a.key b.key with hk | hk | hk
  · have : (a.key == b.key) = false := by
      simp only [beq_eq_false_iff_ne, ne_eq]
      intro e; rw [e, keyLt_irrefl] at hk; cases hk
    simp [hk, keyLt_asymm hk, this]
  · simp [hk, keyLt_irrefl]
  · have : (a.key == b.key) = false := by
      simp only [beq_eq_false_iff_ne, ne_eq]
      intro e; rw [e, keyLt_irrefl] at hk; cases hk
    simp [hk, keyLt_asymm hk, this]

omit h in
theorem lexLt_congr_left {a a' : Row} (hk : a.key = a'.key) (hs : a.sub = a'.sub) (b : Row) :
    lexLt slt a b = lexLt slt a' b := by
  simp [lexLt, hk, hs]

theorem lexLe_trans {a b c : Row} (h1 : lexLe sle a b = true) (h2 : lexLe sle b c = true) :
    lexLe sle a c = true := by
  rw [lexLe_eq h] at *
  simp only [Bool.not_eq_true'] at *
  cases hca : lexLt slt c a with
  | false => rfl
  | true =>
    rcases lexLt_tri h c b with hcb | ⟨ek, es⟩ | hbc
    · rw [hcb] at h2; cases h2
    · rw [lexLt_congr_left ek es] at hca; rw [hca] at h1; cases h1
    · have := lexLt_trans h hbc hca; rw [this] at h1; cases h1

theorem lexLe_total (a b : Row) : (lexLe sle a b || lexLe sle b a) = true := by
  rw [lexLe_eq h, lexLe_eq h]
  cases hba : lexLt slt b a with
  | false => simp
  | true => simp [(lexLt_strict h).asymm hba]

theorem lexLt_of_le_of_ne {a b : Row} (h1 : lexLe sle a b = true)
    (hne : (a.key, a.sub) ≠ (b.key, b.sub)) : lexLt slt a b = true := by
  rw [lexLe_eq h] at h1
  rcases lexLt_tri h a b with h' | ⟨ek, es⟩ | h'
  · exact h'
  · exact absurd (by rw [ek, es]) hne
  · rw [h'] at h1; cases h1

/-- A table whose `(key, sub)` pairs are distinct sorts strictly. -/
theorem sorted_sortBy_rows (table : List Row) (hnd : (table.map fun r => (r.key, r.sub)).Nodup) :
    Sorted (lexLt slt) (sortBy (lexLe sle) table) := by
  have hperm := perm_sortBy (lexLe sle) table
  have hne : (sortBy (lexLe sle) table).Pairwise (fun a b => (a.key, a.sub) ≠ (b.key, b.sub)) := by
    have : ((sortBy (lexLe sle) table).map fun r => (r.key, r.sub)).Nodup :=
      (hperm.map _).nodup_iff.mpr hnd
    exact List.pairwise_map.mp this
  exact sorted_of_le_of_ne (pairwise_sortBy (fun a b c => @lexLe_trans _ _ h a b c) (lexLe_total h) table) hne
    (fun _ _ h1 h2 => lexLt_of_le_of_ne h h1 h2)

end Lex

/-- Insertion sort only looks at the comparisons between elements of the list. -/
theorem sortBy_congr {le1 le2 : α → α → Bool} (l : List α)
    (h : ∀ a ∈ l, ∀ b ∈ l, le1 a b = le2 a b) : sortBy le1 l = sortBy le2 l := by
  induction l with
  | nil => rfl
  | cons a as ih =>
    have ih' := ih (fun x hx y hy => h x (List.mem_cons_of_mem _ hx) y (List.mem_cons_of_mem _ hy))
    simp only [sortBy, ih']
    have hmem : ∀ b ∈ sortBy le2 as, le1 a b = le2 a b := fun b hb =>
      h a (by simp) b (List.mem_cons_of_mem _ ((perm_sortBy le2 as).subset hb))
    generalize sortBy le2 as = l at hmem
    induction l with
    | nil => rfl
    | cons b bs ihb =>
      simp only [insertBy, hmem b (by simp)]
      split
      · rfl
      · rw [ihb (fun x hx => hmem x (List.mem_cons_of_mem _ hx))]

/-! ## 10. Following the markers of the grouped paging loop -/

theorem groupedLoop_congr (keyOf : α → Key) {cp1 cp2 : Key → Option Key} {keep1 keep2 : Key → Bool}
    (maxKeys : Nat) (rows : List α)
    (h : ∀ r ∈ rows, cp1 (keyOf r) = cp2 (keyOf r) ∧ keep1 (keyOf r) = keep2 (keyOf r))
    (seen : List Key) (em : Nat) (last : Option α) :
    groupedLoop keyOf cp1 keep1 maxKeys seen em last rows
      = groupedLoop keyOf cp2 keep2 maxKeys seen em last rows := by
  induction rows generalizing seen em last with
  | nil => rfl
  | cons r rs ih =>
    have hr := h r (by simp)
    have hrs : ∀ x ∈ rs, cp1 (keyOf x) = cp2 (keyOf x) ∧ keep1 (keyOf x) = keep2 (keyOf x) :=
      fun x hx => h x (List.mem_cons_of_mem _ hx)
    simp only [groupedLoop, hr.1, hr.2, ih hrs]

/-- Two pages that a client cannot tell apart. -/
def PageEq (p q : GroupedPage α) : Prop :=
  p.entries = q.entries ∧ p.truncated = q.truncated ∧ (q.truncated = true → p.last = q.last)

/-- **Grouped paging delivers the S3 listing.** For a strictly sorted table whose rows all start
with the prefix, a delimiter of at most one byte and any page size ≥ 1: if every page is the
paging loop (with the code's grouping) run over the rows after the marker, then following the
markers terminates, the pages concatenate to the S3 listing of the rows after the start position,
and no page has more than `maxKeys` entries. -/
theorem grouped_follow (keyOf : α → Key) {lt : α → α → Bool} (hlt : StrictOrder lt)
    (hkey : ∀ a b, lt a b = true → keyLe (keyOf a) (keyOf b) = true)
    (rows : List α) (hsorted : Sorted lt rows) (pfx delim : Key) (hd : delim.length ≤ 1)
    (hpfx : ∀ r ∈ rows, pfx.isPrefixOf (keyOf r) = true)
    (maxKeys : Nat) (hmax : 1 ≤ maxKeys)
    (aft0 : α → Bool)
    (haft0 : ∀ a b, a ∈ rows → b ∈ rows → aft0 a = true → lt a b = true → aft0 b = true)
    (page : Option α → GroupedPage α)
    (hpage0 : PageEq (page none)
      (groupedLoop keyOf (codeCP pfx delim) (codeKeep pfx delim) maxKeys [] 0 none (rows.filter aft0)))
    (hpageS : ∀ x ∈ rows, PageEq (page (some x))
      (groupedLoop keyOf (codeCP pfx delim) (codeKeep pfx delim) maxKeys [] 0 none (rows.filter (lt x))))
    (fuel : Nat) (hfuel : rows.length < fuel) :
    (follow (fun m => some (page m)) (·.truncated) (·.last) fuel none).2 = .done ∧
    ((follow (fun m => some (page m)) (·.truncated) (·.last) fuel none).1.map (·.entries)).flatten
      = listed keyOf (groupOf pfx delim) (rows.filter aft0) ∧
    ∀ p ∈ (follow (fun m => some (page m)) (·.truncated) (·.last) fuel none).1,
      p.entries.length ≤ maxKeys := by
  let cpS := groupOf pfx delim
  let keepS : Key → Bool := fun k => (groupOf pfx delim k).isNone
  let aft : Option α → α → Bool := fun m => match m with
    | none => aft0
    | some x => lt x
  have hcongr : ∀ l : List α, (∀ r ∈ l, r ∈ rows) →
      groupedLoop keyOf (codeCP pfx delim) (codeKeep pfx delim) maxKeys [] 0 none l
        = groupedLoop keyOf cpS keepS maxKeys [] 0 none l := by
    intro l hl
    apply groupedLoop_congr
    intro r hr
    exact code_grouping_eq pfx delim (keyOf r) hd (hpfx r (hl r hr))
  have hconvex : ∀ y x z, y ∈ rows → x ∈ rows → z ∈ rows → lt y x = true → lt x z = true →
      ∀ c, cpS (keyOf y) = some c → cpS (keyOf z) = some c → cpS (keyOf x) = some c := by
    intro y x z hy hx hz hyx hxz c h1 h3
    exact groupOf_convex pfx delim hd (hpfx y hy) (hpfx x hx) (hpfx z hz) (hkey _ _ hyx) (hkey _ _ hxz) c h1 h3
  have hup : ∀ m, (m = none ∨ ∃ x, x ∈ rows ∧ m = some x) →
      ∀ a b, a ∈ rows → b ∈ rows → aft m a = true → lt a b = true → aft m b = true := by
    intro m hm a b ha hb haa hab
    rcases hm with rfl | ⟨x, _, rfl⟩
    · exact haft0 a b ha hb haa hab
    · exact hlt.trans _ _ _ haa hab
  have hpage : ∀ m, (m = none ∨ ∃ x, x ∈ rows ∧ m = some x) →
      PageEq (page m) (groupedLoop keyOf cpS keepS maxKeys [] 0 none (rows.filter (aft m))) := by
    intro m hm
    rcases hm with rfl | ⟨x, hx, rfl⟩
    · have := hpage0
      rwa [hcongr _ (fun r hr => (List.mem_filter.mp hr).1)] at this
    · have := hpageS x hx
      rwa [hcongr _ (fun r hr => (List.mem_filter.mp hr).1)] at this
  have := follow_exact (fun m => some (page m)) (·.truncated) (·.last) (·.entries)
    (fun m => rows.filter (aft m)) (listed keyOf cpS) maxKeys
    (fun m => m = none ∨ ∃ x, x ∈ rows ∧ m = some x) ?_ fuel none (Or.inl rfl)
    (Nat.lt_of_le_of_lt (List.length_filter_le _ _) hfuel)
  · exact this
  · intro m hm
    obtain ⟨he, ht, hl⟩ := hpage m hm
    obtain ⟨c1, c2, c3⟩ := grouped_contract keyOf cpS keepS maxKeys hmax hlt rows hsorted
      (fun r _ h => by simp [keepS, cpS] at *; simp [h]) hconvex (aft m) (hup m hm)
    refine ⟨page m, rfl, by rw [he]; exact c1, ?_, ?_⟩
    · intro h
      rw [he]; exact c2 (by rw [← ht]; exact h)
    · intro h
      have h' : (groupedLoop keyOf cpS keepS maxKeys [] 0 none (rows.filter (aft m))).truncated = true := by
        rw [← ht]; exact h
      obtain ⟨x, hx, hlast, hcat, hlen⟩ := c3 h'
      exact ⟨x, by rw [hl h', hlast], Or.inr ⟨x, hx, rfl⟩, by rw [he]; exact hcat, hlen⟩

/-! ## 11. Plain keyset paging (no delimiter): `take maxN` pages with the last row as marker -/

/-- In a sorted table filtered by an upward-closed predicate, the rows after the last row of the
first `n` selected rows are exactly the remaining selected rows. -/
theorem rows_after_take {lt : α → α → Bool} (hlt : StrictOrder lt) (rows : List α)
    (hsorted : Sorted lt rows) (aft : α → Bool)
    (haft : ∀ a b, a ∈ rows → b ∈ rows → aft a = true → lt a b = true → aft b = true)
    (n : Nat) (x : α) (hx : ((rows.filter aft).take n).getLast? = some x) :
    x ∈ rows ∧ rows.filter (lt x) = (rows.filter aft).drop n := by
  have hxmem : x ∈ (rows.filter aft).take n := List.mem_of_getLast? hx
  have hxsel : x ∈ rows.filter aft := List.mem_of_mem_take hxmem
  have hxrows : x ∈ rows := (List.mem_filter.mp hxsel).1
  have hxaft : aft x = true := (List.mem_filter.mp hxsel).2
  refine ⟨hxrows, ?_⟩
  have h1 : rows.filter (lt x) = (rows.filter aft).filter (lt x) := by
    rw [List.filter_filter]
    apply List.filter_congr
    intro r hr
    cases hltx : lt x r with
    | false => simp
    | true => simp [haft x r hxrows hr hxaft hltx]
  rw [h1]
  obtain ⟨ys, hys⟩ := List.getLast?_eq_some_iff.mp hx
  have hsplit : rows.filter aft = ys ++ x :: (rows.filter aft).drop n := by
    conv => lhs; rw [← List.take_append_drop n (rows.filter aft), hys]
    simp
  have hs : Sorted lt (ys ++ x :: (rows.filter aft).drop n) := by
    rw [← hsplit]; exact Sorted.filter hsorted aft
  have := filter_lt_of_sorted hlt hs
  rw [← hsplit] at this
  exact this

/-- The selection predicate of a request: the caller's on the first one, the marker's afterwards. -/
def afterOpt {α μ : Type} (aft0 : α → Bool) (aftM : μ → α → Bool) : Option μ → α → Bool
  | none => aft0
  | some k => aftM k

/-- **Plain paging delivers every selected row once, in order.** -/
theorem plain_follow {α μ : Type} {lt : α → α → Bool} (hlt : StrictOrder lt) (rows : List α)
    (hsorted : Sorted lt rows) (maxN : Nat) (hmax : 1 ≤ maxN) (mkOf : α → μ)
    (aft0 : α → Bool)
    (haft0 : ∀ a b, a ∈ rows → b ∈ rows → aft0 a = true → lt a b = true → aft0 b = true)
    (aftM : μ → α → Bool) (haftM : ∀ x ∈ rows, ∀ r ∈ rows, aftM (mkOf x) r = lt x r)
    {ρ : Type} (page : Option μ → Option ρ) (items : ρ → List α) (truncated : ρ → Bool)
    (next : ρ → Option μ)
    (hpage : ∀ m, ∃ p, page m = some p ∧
      items p = (rows.filter (afterOpt aft0 aftM m)).take maxN ∧
      truncated p = decide ((rows.filter (afterOpt aft0 aftM m)).length > maxN) ∧
      (truncated p = true → next p = (items p).getLast?.map mkOf))
    (fuel : Nat) (hfuel : rows.length < fuel) :
    (follow page truncated next fuel none).2 = .done ∧
    ((follow page truncated next fuel none).1.map items).flatten = rows.filter aft0 ∧
    ∀ p ∈ (follow page truncated next fuel none).1, (items p).length ≤ maxN := by
  let aft : Option μ → α → Bool := afterOpt aft0 aftM
  have := follow_exact page truncated next items (fun m => rows.filter (aft m)) id maxN
    (fun m => m = none ∨ ∃ x, x ∈ rows ∧ m = some (mkOf x)) ?_ fuel none (Or.inl rfl)
    (Nat.lt_of_le_of_lt (List.length_filter_le _ _) hfuel)
  · exact this
  · intro m hm
    obtain ⟨p, hp, hit, htr, hnx⟩ := hpage m
    have hup : ∀ a b, a ∈ rows → b ∈ rows → aft m a = true → lt a b = true → aft m b = true := by
      intro a b ha hb haa hab
      rcases hm with rfl | ⟨x, hx, rfl⟩
      · exact haft0 a b ha hb haa hab
      · show aftM (mkOf x) b = true
        have h1 : aftM (mkOf x) a = true := haa
        rw [haftM x hx a ha] at h1
        rw [haftM x hx b hb]
        exact hlt.trans _ _ _ h1 hab
    refine ⟨p, hp, by rw [hit]; simp [List.length_take]; omega, ?_, ?_⟩
    · intro h
      rw [htr] at h
      have hle : (rows.filter (aft m)).length ≤ maxN := by simpa using h
      show items p = rows.filter (aft m)
      rw [hit]; exact List.take_of_length_le hle
    · intro h
      have hgt : (rows.filter (aft m)).length > maxN := by rw [htr] at h; simpa using h
      have hne : (rows.filter (aft m)).take maxN ≠ [] := by
        intro h0
        have hl : ((rows.filter (aft m)).take maxN).length = min maxN (rows.filter (aft m)).length :=
          List.length_take
        rw [h0] at hl
        simp only [List.length_nil] at hl
        omega
      obtain ⟨x, hxl⟩ : ∃ x, ((rows.filter (aft m)).take maxN).getLast? = some x := by
        cases hg : ((rows.filter (aft m)).take maxN).getLast? with
        | none => exact absurd (List.getLast?_eq_none_iff.mp hg) hne
        | some x => exact ⟨x, rfl⟩
      obtain ⟨hxrows, hafter⟩ := rows_after_take hlt rows hsorted (aft m) hup maxN x hxl
      refine ⟨mkOf x, by rw [hnx h, hit]; show Option.map mkOf ((rows.filter (aft m)).take maxN).getLast? = _; rw [hxl]; rfl,
        Or.inr ⟨x, hxrows, rfl⟩, ?_, ?_⟩
      · show items p ++ rows.filter (aftM (mkOf x)) = rows.filter (aft m)
        rw [List.filter_congr (fun r hr => haftM x hxrows r hr), hafter, hit]
        exact List.take_append_drop _ _
      · show (rows.filter (aftM (mkOf x))).length < (rows.filter (aft m)).length
        rw [List.filter_congr (fun r hr => haftM x hxrows r hr), hafter]
        simp [List.length_drop]; omega

/-! ## 12. The HTTP loop on a storage result without common prefixes -/

theorem takeItems_short {α μ : Type} (mkOf : α → μ) (maxN : Nat) (tailMore : Bool) (items : List α)
    (col : List α) (last : Option μ) (h : col.length + items.length < maxN) :
    ∃ l, takeItems mkOf maxN tailMore col last items = .inr (col ++ items, l) := by
  induction items generalizing col last with
  | nil => exact ⟨last, by simp [takeItems]⟩
  | cons o os ih =>
    have hlen : ¬ (col ++ [o]).length ≥ maxN := by simp at h ⊢; omega
    obtain ⟨l, hl⟩ := ih (col ++ [o]) (some (mkOf o)) (by simp at h ⊢; omega)
    refine ⟨l, ?_⟩
    simp only [takeItems, hlen, if_false, hl]
    simp

theorem takeItems_full {α μ : Type} (mkOf : α → μ) (maxN : Nat) (tailMore : Bool) (items : List α)
    (col : List α) (last : Option μ) (hne : items ≠ []) (h : col.length + items.length = maxN) :
    takeItems mkOf maxN tailMore col last items
      = .inl (col ++ items, tailMore, items.getLast?.map mkOf) := by
  induction items generalizing col last with
  | nil => exact absurd rfl hne
  | cons o os ih =>
    cases os with
    | nil =>
      have hlen : (col ++ [o]).length ≥ maxN := by simp at h ⊢; omega
      simp only [takeItems, hlen, ↓reduceIte]
      simp
    | cons o2 os2 =>
      have hlen : ¬ (col ++ [o]).length ≥ maxN := by simp at h ⊢; omega
      have := ih (col ++ [o]) (some (mkOf o)) (by simp) (by simp at h ⊢; omega)
      simp only [takeItems, hlen, if_false] at this ⊢
      rw [this]
      simp [List.getLast?_cons_cons]

/-- When the storage result has no common prefixes and is the first `maxN` selected rows, the
HTTP loop returns it unchanged after one iteration, with the last row as the marker. -/
theorem listAndFilter_plain {α μ σ : Type} [BEq μ] (list : σ → StoreRes α) (mkOf : α → μ) (cpMk : Key → μ)
    (cur : σ → Option μ) (cont : μ → σ) (maxN : Nat) (hmax : 1 ≤ maxN) (fuel : Nat) (st : σ)
    (sel : List α) (h1 : (list st).items = sel.take maxN) (h2 : (list st).cps = [])
    (h3 : (list st).truncated = decide (sel.length > maxN)) :
    ∃ p, listAndFilter list mkOf cpMk cur cont maxN (fuel + 1) [] [] st = some p ∧
      p.items = sel.take maxN ∧ p.cps = [] ∧ p.truncated = decide (sel.length > maxN) ∧
      (p.truncated = true → p.next = p.items.getLast?.map mkOf) := by
  by_cases hlen : sel.length < maxN
  · have htake : sel.take maxN = sel := List.take_of_length_le (by omega)
    have htr : decide (sel.length > maxN) = false := by simp; omega
    obtain ⟨l, hl⟩ := takeItems_short mkOf maxN (!(list st).cps.isEmpty || (list st).truncated)
      (list st).items [] (cur st) (by rw [h1, htake]; simpa using hlen)
    refine ⟨⟨sel, [], false, none⟩, ?_, by rw [htake], rfl, by rw [htr], by simp⟩
    rw [h1, h2, h3, htake, htr] at hl
    simp only [listAndFilter, h1, h2, h3, htake, htr, hl, takePrefixes, Bool.not_false, if_true,
      List.nil_append]
  · have hl : (sel.take maxN).length = maxN := by
      rw [List.length_take]; omega
    have hne : sel.take maxN ≠ [] := by
      intro h0; rw [h0] at hl; simp at hl; omega
    have hfull := takeItems_full mkOf maxN (!(list st).cps.isEmpty || (list st).truncated)
      (list st).items [] (cur st) (by rw [h1]; exact hne) (by rw [h1]; simpa using hl)
    refine ⟨⟨sel.take maxN, [], decide (sel.length > maxN),
      if decide (sel.length > maxN) = true then (sel.take maxN).getLast?.map mkOf else none⟩, ?_, rfl, rfl, rfl, ?_⟩
    · rw [h1, h2, h3] at hfull
      simp only [listAndFilter, h1, h2, h3, hfull, List.nil_append]
      simp
    · intro h
      simp only at h ⊢
      rw [if_pos h]

/-! ## 13. From the generic theorems to the five listings -/

open Pithos.S3List (listing entryOf)

theorem follow_all {μ ρ : Type} (page : Option μ → Option ρ) (truncated : ρ → Bool) (next : ρ → Option μ)
    (P : ρ → Prop) (h : ∀ m p, page m = some p → P p) (fuel : Nat) (m : Option μ) :
    ∀ p ∈ (follow page truncated next fuel m).1, P p := by
  induction fuel generalizing m with
  | zero => simp [follow]
  | succ f ih =>
    simp only [follow]
    cases hp : page m with
    | none => simp
    | some p =>
      simp only
      cases htr : truncated p with
      | false => simp; exact h m p hp
      | true =>
        cases hn : next p with
        | none => simp; exact h m p hp
        | some n =>
          simp only [if_true]
          intro q hq
          rcases List.mem_cons.mp hq with rfl | hq
          · exact h m _ hp
          · exact ih (some n) q hq

theorem listing_eq_listed {α : Type} (keyOf : α → Key) (pfx delim : Key) (after : α → Bool) (rows : List α) :
    listing keyOf pfx delim after rows
      = listed keyOf (groupOf pfx delim) ((rows.filter fun r => pfx.isPrefixOf (keyOf r)).filter after) := by
  have he : entryOf keyOf pfx delim = entOf keyOf (groupOf pfx delim) := by funext r; rfl
  simp only [listing, listed, List.filter_filter, he]
  congr 2
  apply List.filter_congr
  intro r _
  exact Bool.and_comm _ _

theorem listed_nodelim {α : Type} (keyOf : α → Key) (pfx : Key) (l : List α) :
    listed keyOf (groupOf pfx []) l = l.map Entry.item := by
  induction l with
  | nil => rfl
  | cons a as ih =>
    simp only [listed] at ih ⊢
    simp [entOf, groupOf, dedupCPs, ih]

theorem length_sortBy (le : α → α → Bool) (l : List α) : (sortBy le l).length = l.length :=
  (perm_sortBy le l).length_eq

theorem filter_matchPrefix {α : Type} (keyOf : α → Key) (f : PrefixFilter) (pfx : Key)
    (hf : f = .exact ∨ LikeSafe pfx = true) (aft : α → Bool) (rows : List α) :
    rows.filter (fun r => matchPrefix f pfx (keyOf r) && aft r)
      = (rows.filter fun r => pfx.isPrefixOf (keyOf r)).filter aft := by
  rw [List.filter_filter]
  apply List.filter_congr
  intro r _
  rw [matchPrefix_eq_isPrefixOf f pfx hf, Bool.and_comm]

/-! ### ListObjects as is, without a delimiter -/

theorem listObjects_nodelim (f : PrefixFilter) (table : List Key) (pfx sa : Key) (maxKeys : Nat) :
    listObjects f table pfx [] sa maxKeys
      = ⟨((sortBy keyLe table).filter fun k => matchPrefix f pfx k && afterKey sa k).take maxKeys, [],
         decide (((sortBy keyLe table).filter fun k => matchPrefix f pfx k && afterKey sa k).length > maxKeys)⟩ := by
  simp only [listObjects, List.isEmpty_nil, if_true, List.take_take, List.length_take]
  congr 1
  · congr 1; omega
  · simp only [decide_eq_decide]; omega

theorem keyLe_of_keyLt {a b : Key} (h : keyLt a b = true) : keyLe a b = true := by
  simp [keyLe, keyLt_asymm h]

/-- ListObjects v1 / v2 as is, no delimiter: following the markers returns exactly the selected
keys after the start position, in order, in pages of at most `maxKeys`, never a common prefix. -/
theorem objects_http_nodelim (f : PrefixFilter) (table : List Key) (pfx : Key) (maxKeys : Nat)
    (start : Option Key) (hmax : 1 ≤ maxKeys) (hf : f = .exact ∨ LikeSafe pfx = true)
    (hnd : table.Nodup) :
    (followObjectsHttp f table pfx [] maxKeys start).2 = .done ∧
    ((followObjectsHttp f table pfx [] maxKeys start).1.map (·.items)).flatten
      = ((sortBy keyLe table).filter fun k => pfx.isPrefixOf k).filter (afterKey (start.getD [])) ∧
    ∀ p ∈ (followObjectsHttp f table pfx [] maxKeys start).1, p.items.length ≤ maxKeys ∧ p.cps = [] := by
  let rows := (sortBy keyLe table).filter fun k => pfx.isPrefixOf k
  have hsorted : Sorted keyLt rows := Sorted.filter (sorted_sortBy_keys table hnd) _
  have key : ∀ st : Option Key, ∃ p, httpListObjects f table pfx [] maxKeys st = some p ∧
      p.items = (rows.filter (afterKey (st.getD []))).take maxKeys ∧
      p.truncated = decide ((rows.filter (afterKey (st.getD []))).length > maxKeys) ∧
      (p.truncated = true → p.next = p.items.getLast?.map id) ∧ p.cps = [] := by
    intro st
    have hsel : (sortBy keyLe table).filter (fun k => matchPrefix f pfx k && afterKey (st.getD []) k)
        = rows.filter (afterKey (st.getD [])) := filter_matchPrefix id f pfx hf _ _
    obtain ⟨p, hp, h1, h2, h3, h4⟩ := listAndFilter_plain
      (fun sa : Option Key => let r := listObjects f table pfx [] (sa.getD []) maxKeys
        (⟨r.objects, r.cps, r.truncated⟩ : StoreRes Key))
      id id id some maxKeys hmax (2 * table.length + 3) st (rows.filter (afterKey (st.getD [])))
      (by simp only [listObjects_nodelim, hsel]) (by simp only [listObjects_nodelim])
      (by simp only [listObjects_nodelim, hsel])
    exact ⟨p, hp, h1, h3, h4, h2⟩
  have hpage : ∀ m : Option Key, ∃ p,
      httpListObjects f table pfx [] maxKeys (m.or start) = some p ∧
      p.items = (rows.filter (afterOpt (afterKey (start.getD [])) afterKey m)).take maxKeys ∧
      p.truncated = decide ((rows.filter (afterOpt (afterKey (start.getD [])) afterKey m)).length > maxKeys) ∧
      (p.truncated = true → p.next = p.items.getLast?.map id) ∧ p.cps = [] := by
    intro m
    cases m with
    | none => exact key start
    | some k => exact key (some k)
  have := plain_follow keyLt_strict rows hsorted maxKeys hmax id (afterKey (start.getD []))
    (fun a b _ _ ha hab => keyLt_trans ha hab) afterKey (fun _ _ _ _ => rfl)
    (fun m => httpListObjects f table pfx [] maxKeys (m.or start))
    (·.items) (·.truncated) (·.next)
    (fun m => by obtain ⟨p, h1, h2, h3, h4, _⟩ := hpage m; exact ⟨p, h1, h2, h3, h4⟩)
    (clientFuel table.length)
    (by
      have : rows.length ≤ table.length := by
        rw [← length_sortBy keyLe table]; exact List.length_filter_le _ _
      simp [clientFuel]; omega)
  refine ⟨this.1, this.2.1, fun p hp => ⟨this.2.2 p hp, ?_⟩⟩
  exact follow_all _ _ _ (fun p => p.cps = [])
    (fun m p hmp => by
      obtain ⟨q, h1, _, _, _, h5⟩ := hpage m
      have : some q = some p := h1.symm.trans hmp
      cases this; exact h5)
    _ _ p hp

/-! ### ListObjectVersions as is; ListObjects / ListMultipartUploads with the reference paging -/

abbrev sltAsc : Nat → Nat → Bool := fun a b => decide (a < b)
abbrev sleAsc : Nat → Nat → Bool := fun a b => decide (a ≤ b)
abbrev sltDesc : Nat → Nat → Bool := fun a b => decide (b < a)
abbrev sleDesc : Nat → Nat → Bool := fun a b => decide (b ≤ a)

theorem rowLeAsc_eq : Listing.rowLeAsc = lexLe sleAsc := rfl
theorem rowLeDesc_eq : Listing.rowLeDesc = lexLe sleDesc := rfl

theorem afterVersion_eq (x : Row) : afterVersion x.key x.sub = lexLt sltDesc x := rfl

theorem afterUpload_eq (x : Row) (h : x.sub ≠ 0) : afterUpload x.key x.sub = lexLt sltAsc x := by
  funext r
  have : (x.sub != 0) = true := by simpa using h
  simp [afterUpload, lexLt, this]

theorem keyLe_of_lexLt {slt : Nat → Nat → Bool} {a b : Row} (h : lexLt slt a b = true) :
    keyLe a.key b.key = true := by
  simp only [lexLt, Bool.or_eq_true, Bool.and_eq_true, beq_iff_eq] at h
  rcases h with h | ⟨e, _⟩
  · exact keyLe_of_keyLt h
  · simp [keyLe, e, keyLt_irrefl]

theorem keyLt_of_lt_of_le {a b c : Key} (h1 : keyLt a b = true) (h2 : keyLe b c = true) :
    keyLt a c = true := by
  rcases keyLt_total b c with h | h | h
  · exact keyLt_trans h1 h
  · rw [← h]; exact h1
  · simp [keyLe, h] at h2

theorem afterVersion_up (mk : Key) (mv : Nat) {a b : Row} (ha : afterVersion mk mv a = true)
    (hab : lexLt sltDesc a b = true) : afterVersion mk mv b = true := by
  simp only [afterVersion, lexLt, Bool.or_eq_true, Bool.and_eq_true, beq_iff_eq, decide_eq_true_eq] at *
  rcases ha with ha | ⟨ea, sa⟩
  · left
    rcases hab with hab | ⟨eb, _⟩
    · exact keyLt_trans ha hab
    · rw [eb]; exact ha
  · rcases hab with hab | ⟨eb, sb⟩
    · left; rw [← ea]; exact hab
    · right; exact ⟨by rw [eb, ea], by omega⟩

theorem afterUpload_up (mk : Key) (mu : Nat) {a b : Row} (ha : afterUpload mk mu a = true)
    (hab : lexLt sltAsc a b = true) : afterUpload mk mu b = true := by
  simp only [afterUpload, lexLt, Bool.or_eq_true, Bool.and_eq_true, beq_iff_eq, decide_eq_true_eq,
    bne_iff_ne, ne_eq] at *
  rcases ha with ha | ⟨⟨hm, ea⟩, sa⟩
  · left
    rcases hab with hab | ⟨eb, _⟩
    · exact keyLt_trans ha hab
    · rw [eb]; exact ha
  · rcases hab with hab | ⟨eb, sb⟩
    · left; rw [← ea]; exact hab
    · right; exact ⟨⟨hm, by rw [eb, ea]⟩, by omega⟩

theorem pageEq_refl (p : GroupedPage α) : PageEq p p := ⟨rfl, rfl, fun _ => rfl⟩

/-- One call of `ListObjectVersions` is the paging loop over the selected rows after the marker. -/
theorem listObjectVersions_pageEq (f : PrefixFilter) (table : List Row) (pfx delim mk : Key) (mv : Nat)
    (maxKeys : Nat) (hmax : 1 ≤ maxKeys) (hf : f = .exact ∨ LikeSafe pfx = true) :
    PageEq (listObjectVersions f table pfx delim mk mv maxKeys)
      (groupedLoop (·.key) (codeCP pfx delim) (codeKeep pfx delim) maxKeys [] 0 none
        (((sortBy Listing.rowLeDesc table).filter fun r => pfx.isPrefixOf r.key).filter (afterVersion mk mv))) := by
  have hm0 : (maxKeys == 0) = false := by simp; omega
  have hsel := filter_matchPrefix (fun r : Row => r.key) f pfx hf (afterVersion mk mv) (sortBy Listing.rowLeDesc table)
  simp only [listObjectVersions, hm0, Bool.false_eq_true, if_false, hsel]
  by_cases hde : delim.isEmpty = true
  · simp only [hde, if_true]
    rw [groupedLoop_take (fun r : Row => r.key) (codeCP pfx delim) (codeKeep pfx delim) maxKeys _
      (fun r _ => by simp [codeCP, codeKeep, hde]) [] 0 none (maxKeys + 1) (by omega) (by omega)]
    exact ⟨rfl, rfl, fun h => by simp only [h, ↓reduceIte]⟩
  · simp only [hde, Bool.false_eq_true, if_false]
    exact ⟨rfl, rfl, fun h => by simp only [h, ↓reduceIte]⟩

/-- **ListObjectVersions (as-is paging).** In the implementation's own order of the versions of a
key (ULID string order, `null` last) following NextKeyMarker / NextVersionIdMarker delivers exactly
the S3 listing of the rows after the marker. -/
theorem versions_follow (f : PrefixFilter) (table : List Row) (pfx delim km : Key) (mv : Nat)
    (maxKeys : Nat) (hmax : 1 ≤ maxKeys) (hd : delim.length ≤ 1)
    (hf : f = .exact ∨ LikeSafe pfx = true)
    (hnd : (table.map fun r => (r.key, r.sub)).Nodup) :
    (followVersions f table pfx delim km mv maxKeys).2 = .done ∧
    ((followVersions f table pfx delim km mv maxKeys).1.map (·.entries)).flatten
      = listing (·.key) pfx delim (afterVersion km mv) (sortBy Listing.rowLeDesc table) ∧
    ∀ p ∈ (followVersions f table pfx delim km mv maxKeys).1, p.entries.length ≤ maxKeys := by
  let rows := (sortBy Listing.rowLeDesc table).filter fun r => pfx.isPrefixOf r.key
  have hsorted : Sorted (lexLt sltDesc) rows := by
    have := sorted_sortBy_rows subOrd_desc table hnd
    rw [← rowLeDesc_eq] at this
    exact Sorted.filter this _
  have hlen : rows.length < clientFuel table.length := by
    have : rows.length ≤ table.length := by
      rw [← length_sortBy Listing.rowLeDesc table]; exact List.length_filter_le _ _
    simp [clientFuel]; omega
  have := grouped_follow (fun r : Row => r.key) (lexLt_strict subOrd_desc) (fun _ _ h => keyLe_of_lexLt h)
    rows hsorted pfx delim hd (fun r hr => (List.mem_filter.mp hr).2) maxKeys hmax
    (afterVersion km mv) (fun a b _ _ ha hab => afterVersion_up km mv ha hab)
    (fun m => listObjectVersions f table pfx delim (markerOf km mv m).1 (markerOf km mv m).2 maxKeys)
    (listObjectVersions_pageEq f table pfx delim km mv maxKeys hmax hf)
    (fun x _ => by
      have := listObjectVersions_pageEq f table pfx delim x.key x.sub maxKeys hmax hf
      rwa [afterVersion_eq] at this)
    (clientFuel table.length) hlen
  refine ⟨this.1, ?_, this.2.2⟩
  rw [listing_eq_listed]
  exact this.2.1

/-- **ListObjects with the reference paging** (the loop of ListObjectVersions over the objects
statement): complete, ordered, duplicate-free for every delimiter of at most one byte. -/
theorem refObjects_follow (f : PrefixFilter) (table : List Key) (pfx delim start : Key)
    (maxKeys : Nat) (hmax : 1 ≤ maxKeys) (hd : delim.length ≤ 1)
    (hf : f = .exact ∨ LikeSafe pfx = true) (hnd : table.Nodup) :
    (followRefObjects f table pfx delim maxKeys start).2 = .done ∧
    ((followRefObjects f table pfx delim maxKeys start).1.map (·.entries)).flatten
      = S3List.expectedObjects table pfx delim start ∧
    ∀ p ∈ (followRefObjects f table pfx delim maxKeys start).1, p.entries.length ≤ maxKeys := by
  let rows := (sortBy keyLe table).filter fun k => pfx.isPrefixOf k
  have hsorted : Sorted keyLt rows := Sorted.filter (sorted_sortBy_keys table hnd) _
  have hlen : rows.length < clientFuel table.length := by
    have : rows.length ≤ table.length := by
      rw [← length_sortBy keyLe table]; exact List.length_filter_le _ _
    simp [clientFuel]; omega
  have hpage : ∀ sa : Key, PageEq (refObjectsPage f table pfx delim maxKeys sa)
      (groupedLoop id (codeCP pfx delim) (codeKeep pfx delim) maxKeys [] 0 none (rows.filter (afterKey sa))) := by
    intro sa
    have hsel := filter_matchPrefix (fun k : Key => k) f pfx hf (afterKey sa) (sortBy keyLe table)
    simp only [refObjectsPage, hsel]
    exact pageEq_refl _
  have := grouped_follow (fun k : Key => k) keyLt_strict (fun _ _ h => keyLe_of_keyLt h)
    rows hsorted pfx delim hd (fun r hr => (List.mem_filter.mp hr).2) maxKeys hmax
    (afterKey start) (fun a b _ _ ha hab => keyLt_trans ha hab)
    (fun m => refObjectsPage f table pfx delim maxKeys (m.getD start))
    (hpage start) (fun x _ => hpage x)
    (clientFuel table.length) hlen
  refine ⟨this.1, ?_, this.2.2⟩
  rw [S3List.expectedObjects, listing_eq_listed]
  exact this.2.1

/-- **ListMultipartUploads with the reference paging.** -/
theorem refUploads_follow (f : PrefixFilter) (table : List Row) (pfx delim km : Key) (mu : Nat)
    (maxUploads : Nat) (hmax : 1 ≤ maxUploads) (hd : delim.length ≤ 1)
    (hf : f = .exact ∨ LikeSafe pfx = true)
    (hnd : (table.map fun r => (r.key, r.sub)).Nodup) (hsub : ∀ r ∈ table, r.sub ≠ 0) :
    (followRefUploads f table pfx delim maxUploads km mu).2 = .done ∧
    ((followRefUploads f table pfx delim maxUploads km mu).1.map (·.entries)).flatten
      = listing (·.key) pfx delim (afterUpload km mu) (sortBy Listing.rowLeAsc table) ∧
    ∀ p ∈ (followRefUploads f table pfx delim maxUploads km mu).1, p.entries.length ≤ maxUploads := by
  let rows := (sortBy Listing.rowLeAsc table).filter fun r => pfx.isPrefixOf r.key
  have hsorted : Sorted (lexLt sltAsc) rows := by
    have := sorted_sortBy_rows subOrd_asc table hnd
    rw [← rowLeAsc_eq] at this
    exact Sorted.filter this _
  have hlen : rows.length < clientFuel table.length := by
    have : rows.length ≤ table.length := by
      rw [← length_sortBy Listing.rowLeAsc table]; exact List.length_filter_le _ _
    simp [clientFuel]; omega
  have hpage : ∀ (k : Key) (u : Nat), PageEq (refUploadsPage f table pfx delim maxUploads k u)
      (groupedLoop (fun r : Row => r.key) (codeCP pfx delim) (codeKeep pfx delim) maxUploads [] 0 none
        (rows.filter (afterUpload k u))) := by
    intro k u
    have hsel := filter_matchPrefix (fun r : Row => r.key) f pfx hf (afterUpload k u) (sortBy Listing.rowLeAsc table)
    simp only [refUploadsPage, hsel]
    exact pageEq_refl _
  have := grouped_follow (fun r : Row => r.key) (lexLt_strict subOrd_asc) (fun _ _ h => keyLe_of_lexLt h)
    rows hsorted pfx delim hd (fun r hr => (List.mem_filter.mp hr).2) maxUploads hmax
    (afterUpload km mu) (fun a b _ _ ha hab => afterUpload_up km mu ha hab)
    (fun m => refUploadsPage f table pfx delim maxUploads (markerOf km mu m).1 (markerOf km mu m).2)
    (hpage km mu)
    (fun x hx => by
      have hxt : x ∈ table := (perm_sortBy Listing.rowLeAsc table).subset (List.mem_filter.mp hx).1
      have := hpage x.key x.sub
      rwa [afterUpload_eq x (hsub x hxt)] at this)
    (clientFuel table.length) hlen
  refine ⟨this.1, ?_, this.2.2⟩
  rw [listing_eq_listed]
  exact this.2.1

/-! ### ListMultipartUploads as is, without a delimiter -/

theorem foldl_uplStep_nodelim (pfx : Key) (maxUploads : Nat) (ents : List Row) (acc : UplResult)
    (h : acc.uploads.length + ents.length ≤ maxUploads) :
    (ents.foldl (uplStep pfx [] maxUploads) acc).uploads = acc.uploads ++ ents ∧
    (ents.foldl (uplStep pfx [] maxUploads) acc).cps = acc.cps ∧
    (ents.foldl (uplStep pfx [] maxUploads) acc).truncated = acc.truncated := by
  induction ents generalizing acc with
  | nil => simp
  | cons r rs ih =>
    have hlt : acc.uploads.length < maxUploads := by simp at h; omega
    have hstep : uplStep pfx [] maxUploads acc r
        = { acc with uploads := acc.uploads ++ [r], nextKey := r.key, nextSub := r.sub } := by
      simp [uplStep, codeCP, codeKeep, hlt]
    simp only [List.foldl_cons, hstep]
    obtain ⟨h1, h2, h3⟩ := ih { acc with uploads := acc.uploads ++ [r], nextKey := r.key, nextSub := r.sub }
      (by simp at h ⊢; omega)
    exact ⟨by rw [h1]; simp, h2, h3⟩

theorem listMultipartUploads_nodelim (f : PrefixFilter) (table : List Row) (pfx mk : Key) (mu : Nat)
    (maxUploads : Nat) :
    (listMultipartUploads f table pfx [] mk mu maxUploads).uploads
      = ((sortBy Listing.rowLeAsc table).filter fun r => matchPrefix f pfx r.key && afterUpload mk mu r).take maxUploads ∧
    (listMultipartUploads f table pfx [] mk mu maxUploads).cps = [] ∧
    (listMultipartUploads f table pfx [] mk mu maxUploads).truncated
      = decide (((sortBy Listing.rowLeAsc table).filter fun r => matchPrefix f pfx r.key && afterUpload mk mu r).length > maxUploads) := by
  simp only [listMultipartUploads, List.isEmpty_nil, if_true, List.take_take]
  have hmin : min maxUploads (maxUploads + 1) = maxUploads := by omega
  rw [hmin]
  obtain ⟨h1, h2, h3⟩ := foldl_uplStep_nodelim pfx maxUploads
    (((sortBy Listing.rowLeAsc table).filter fun r => matchPrefix f pfx r.key && afterUpload mk mu r).take maxUploads)
    { uploads := [], cps := [], truncated := decide ((((sortBy Listing.rowLeAsc table).filter fun r => matchPrefix f pfx r.key && afterUpload mk mu r).take (maxUploads + 1)).length > maxUploads), nextKey := [], nextSub := 0 }
    (by simp [List.length_take]; omega)
  refine ⟨by rw [h1]; simp, h2, ?_⟩
  rw [h3]
  simp only [List.length_take, decide_eq_decide]
  omega

/-- ListMultipartUploads over HTTP as is, no delimiter. -/
theorem uploads_http_nodelim (f : PrefixFilter) (table : List Row) (pfx : Key) (maxUploads : Nat)
    (mk : Option Key) (mu : Option Nat) (hmax : 1 ≤ maxUploads)
    (hf : f = .exact ∨ LikeSafe pfx = true)
    (hnd : (table.map fun r => (r.key, r.sub)).Nodup) (hsub : ∀ r ∈ table, r.sub ≠ 0) :
    (followUploadsHttp f table pfx [] maxUploads mk mu).2 = .done ∧
    ((followUploadsHttp f table pfx [] maxUploads mk mu).1.map (·.items)).flatten
      = ((sortBy Listing.rowLeAsc table).filter fun r => pfx.isPrefixOf r.key).filter
          (afterUpload (mk.getD []) (mu.getD 0)) ∧
    ∀ p ∈ (followUploadsHttp f table pfx [] maxUploads mk mu).1, p.items.length ≤ maxUploads ∧ p.cps = [] := by
  let rows := (sortBy Listing.rowLeAsc table).filter fun r => pfx.isPrefixOf r.key
  have hsorted : Sorted (lexLt sltAsc) rows := by
    have := sorted_sortBy_rows subOrd_asc table hnd
    rw [← rowLeAsc_eq] at this
    exact Sorted.filter this _
  have hrows : ∀ r ∈ rows, r ∈ table := fun r hr =>
    (perm_sortBy Listing.rowLeAsc table).subset (List.mem_filter.mp hr).1
  have key : ∀ (k : Option Key) (u : Option Nat), ∃ p,
      httpListUploads f table pfx [] maxUploads k u = some p ∧
      p.items = (rows.filter (afterUpload (k.getD []) (u.getD 0))).take maxUploads ∧
      p.truncated = decide ((rows.filter (afterUpload (k.getD []) (u.getD 0))).length > maxUploads) ∧
      (p.truncated = true → p.next = p.items.getLast?.map fun r : Row => (r.key, r.sub)) ∧ p.cps = [] := by
    intro k u
    have hsel : (sortBy Listing.rowLeAsc table).filter
        (fun r => matchPrefix f pfx r.key && afterUpload (k.getD []) (u.getD 0) r)
        = rows.filter (afterUpload (k.getD []) (u.getD 0)) :=
      filter_matchPrefix (fun r : Row => r.key) f pfx hf _ _
    obtain ⟨n1, n2, n3⟩ := listMultipartUploads_nodelim f table pfx (k.getD []) (u.getD 0) maxUploads
    rw [hsel] at n1 n3
    obtain ⟨p, hp, h1, h2, h3, h4⟩ := listAndFilter_plain
      (fun (st : Option Key × Option Nat) =>
        let r := listMultipartUploads f table pfx [] (st.1.getD []) (st.2.getD 0) maxUploads
        (⟨r.uploads, r.cps, r.truncated⟩ : StoreRes Row))
      (fun u : Row => (u.key, u.sub)) (fun c => (c, 0))
      (fun st => match st with
        | (some k, some u) => some (k, u)
        | _ => none)
      (fun l => (some l.1, some l.2)) maxUploads hmax (2 * table.length + 3) (k, u)
      (rows.filter (afterUpload (k.getD []) (u.getD 0))) n1 n2 n3
    exact ⟨p, hp, h1, h3, h4, h2⟩
  have hpage : ∀ m : Option (Key × Nat), ∃ p,
      httpListUploads f table pfx [] maxUploads (uplState mk mu m).1 (uplState mk mu m).2 = some p ∧
      p.items = (rows.filter (afterOpt (afterUpload (mk.getD []) (mu.getD 0))
        (fun l : Key × Nat => afterUpload l.1 l.2) m)).take maxUploads ∧
      p.truncated = decide ((rows.filter (afterOpt (afterUpload (mk.getD []) (mu.getD 0))
        (fun l : Key × Nat => afterUpload l.1 l.2) m)).length > maxUploads) ∧
      (p.truncated = true → p.next = p.items.getLast?.map fun r : Row => (r.key, r.sub)) ∧ p.cps = [] := by
    intro m
    cases m with
    | none => exact key mk mu
    | some l => exact key (some l.1) (some l.2)
  have := plain_follow (lexLt_strict subOrd_asc) rows hsorted maxUploads hmax
    (fun r : Row => (r.key, r.sub)) (afterUpload (mk.getD []) (mu.getD 0))
    (fun a b _ _ ha hab => afterUpload_up _ _ ha hab)
    (fun l : Key × Nat => afterUpload l.1 l.2)
    (fun x hx r _ => by
      show afterUpload x.key x.sub r = lexLt sltAsc x r
      rw [afterUpload_eq x (hsub x (hrows x hx))])
    (fun m => httpListUploads f table pfx [] maxUploads (uplState mk mu m).1 (uplState mk mu m).2)
    (·.items) (·.truncated) (·.next)
    (fun m => by obtain ⟨p, h1, h2, h3, h4, _⟩ := hpage m; exact ⟨p, h1, h2, h3, h4⟩)
    (clientFuel table.length)
    (by
      have : rows.length ≤ table.length := by
        rw [← length_sortBy Listing.rowLeAsc table]; exact List.length_filter_le _ _
      simp [clientFuel]; omega)
  refine ⟨this.1, this.2.1, fun p hp => ⟨this.2.2 p hp, ?_⟩⟩
  exact follow_all _ _ _ (fun p => p.cps = [])
    (fun m p hmp => by
      obtain ⟨q, h1, _, _, _, h5⟩ := hpage m
      have : some q = some p := h1.symm.trans hmp
      cases this; exact h5)
    _ _ p hp

/-! ### ListParts as is -/

abbrev natLt : Nat → Nat → Bool := fun a b => decide (a < b)
abbrev natLe : Nat → Nat → Bool := fun a b => decide (a ≤ b)

theorem natLt_strict : StrictOrder natLt :=
  ⟨fun a => by simp [natLt], fun a b c h1 h2 => by simp [natLt] at *; omega⟩

theorem sorted_sortBy_nat (parts : List Nat) (hnd : parts.Nodup) : Sorted natLt (sortBy natLe parts) :=
  sorted_of_le_of_ne
    (pairwise_sortBy (fun a b c h1 h2 => by simp [natLe] at *; omega) (fun a b => by simp [natLe]; omega) parts)
    ((perm_sortBy natLe parts).nodup_iff.mpr hnd)
    (fun a b h1 h2 => by simp [natLe, natLt] at *; omega)

/-- The loop of `ListParts` over parts in ascending order: the first `maxParts` parts after the
marker, truncated iff more follow, the last returned part as the next marker. -/
theorem partsLoop_spec (maxParts marker : Nat) (ps : List Nat) (hs : Sorted natLt ps) (acc : List Nat)
    (hacc : acc.length < maxParts) :
    (partsLoop maxParts marker acc ps).parts
      = acc ++ (ps.filter fun p => decide (marker < p)).take (maxParts - acc.length) ∧
    (partsLoop maxParts marker acc ps).truncated
      = decide ((ps.filter fun p => decide (marker < p)).length > maxParts - acc.length) ∧
    ((partsLoop maxParts marker acc ps).truncated = true →
      (partsLoop maxParts marker acc ps).next = (partsLoop maxParts marker acc ps).parts.getLast?) := by
  induction ps generalizing acc with
  | nil => simp [partsLoop]
  | cons p ps' ih =>
    have hs' : Sorted natLt ps' := hs.tail
    by_cases hp : p ≤ marker
    · have hf : ¬ marker < p := by omega
      have := ih hs' acc hacc
      simp only [partsLoop, hp, if_true, List.filter_cons, hf, decide_false, Bool.false_eq_true, if_false]
      exact this
    · have hf : marker < p := by omega
      have hall : ps'.filter (fun q => decide (marker < q)) = ps' := by
        rw [List.filter_eq_self]
        intro q hq
        have : natLt p q = true := List.rel_of_pairwise_cons hs hq
        simp [natLt] at this
        simp; omega
      by_cases hfull : (acc ++ [p]).length ≥ maxParts
      · have hk : maxParts - acc.length = 1 := by simp at hfull; omega
        simp only [partsLoop, hp, if_false, hfull, if_true, List.filter_cons, hf, decide_true, hall, hk]
        refine ⟨by simp, ?_, fun _ => by simp⟩
        cases ps' <;> simp
      · have hlt : (acc ++ [p]).length < maxParts := by omega
        obtain ⟨h1, h2, h3⟩ := ih hs' (acc ++ [p]) hlt
        simp only [partsLoop, hp, if_false, hfull, List.filter_cons, hf, decide_true, if_true]
        have hk : maxParts - acc.length = (maxParts - (acc ++ [p]).length) + 1 := by
          simp at hlt ⊢; omega
        refine ⟨?_, ?_, h3⟩
        · rw [h1, hk, List.take_succ_cons]; simp
        · rw [h2, hk]; simp

theorem listParts_spec (parts : List Nat) (marker maxParts : Nat) (hmax : 1 ≤ maxParts) (hnd : parts.Nodup) :
    (listParts parts marker maxParts).parts
      = ((sortBy natLe parts).filter fun p => decide (marker < p)).take maxParts ∧
    (listParts parts marker maxParts).truncated
      = decide (((sortBy natLe parts).filter fun p => decide (marker < p)).length > maxParts) ∧
    ((listParts parts marker maxParts).truncated = true →
      (listParts parts marker maxParts).next = (listParts parts marker maxParts).parts.getLast?) := by
  have := partsLoop_spec maxParts marker (sortBy natLe parts) (sorted_sortBy_nat parts hnd) [] (by simp; omega)
  simpa [listParts] using this

/-- ListParts at the storage API, following NextPartNumberMarker. -/
theorem parts_storage_follow (parts : List Nat) (maxParts marker : Nat) (hmax : 1 ≤ maxParts)
    (hnd : parts.Nodup) :
    (followPartsStorage parts maxParts marker).2 = .done ∧
    ((followPartsStorage parts maxParts marker).1.map (·.parts)).flatten
      = S3List.expectedParts parts marker ∧
    ∀ p ∈ (followPartsStorage parts maxParts marker).1, p.parts.length ≤ maxParts := by
  have := plain_follow natLt_strict (sortBy natLe parts) (sorted_sortBy_nat parts hnd) maxParts hmax id
    (fun p => decide (marker < p)) (fun a b _ _ ha hab => by simp [natLt] at *; omega)
    (fun k p => decide (k < p)) (fun _ _ _ _ => rfl)
    (fun m => some (listParts parts (m.getD marker) maxParts)) (·.parts) (·.truncated) (·.next)
    (fun m => by
      obtain ⟨h1, h2, h3⟩ := listParts_spec parts (m.getD marker) maxParts hmax hnd
      refine ⟨_, rfl, ?_, ?_, fun h => by rw [h3 h]; simp⟩
      · cases m <;> exact h1
      · cases m <;> exact h2)
    (clientFuel parts.length) (by rw [length_sortBy]; simp [clientFuel])
  exact this

/-- ListParts over HTTP (`listAndFilterParts`), following NextPartNumberMarker. -/
theorem parts_http_follow (parts : List Nat) (maxParts : Nat) (marker : Option Nat) (hmax : 1 ≤ maxParts)
    (hnd : parts.Nodup) :
    (followPartsHttp parts maxParts marker).2 = .done ∧
    ((followPartsHttp parts maxParts marker).1.map (·.items)).flatten
      = S3List.expectedParts parts (marker.getD 0) ∧
    ∀ p ∈ (followPartsHttp parts maxParts marker).1, p.items.length ≤ maxParts := by
  have key : ∀ st : Option Nat, ∃ p, httpListParts parts maxParts st = some p ∧
      p.items = ((sortBy natLe parts).filter fun q => decide (st.getD 0 < q)).take maxParts ∧
      p.truncated = decide (((sortBy natLe parts).filter fun q => decide (st.getD 0 < q)).length > maxParts) ∧
      (p.truncated = true → p.next = p.items.getLast?.map id) := by
    intro st
    obtain ⟨n1, n2, _⟩ := listParts_spec parts (st.getD 0) maxParts hmax hnd
    obtain ⟨p, hp, h1, _, h3, h4⟩ := listAndFilter_plain
      (fun m : Option Nat => let r := listParts parts (m.getD 0) maxParts
        (⟨r.parts, [], r.truncated⟩ : StoreRes Nat))
      id (fun _ => 0) id some maxParts hmax (2 * parts.length + 3) st
      ((sortBy natLe parts).filter fun q => decide (st.getD 0 < q)) n1 rfl n2
    exact ⟨p, hp, h1, h3, h4⟩
  have := plain_follow natLt_strict (sortBy natLe parts) (sorted_sortBy_nat parts hnd) maxParts hmax id
    (fun p => decide (marker.getD 0 < p)) (fun a b _ _ ha hab => by simp [natLt] at *; omega)
    (fun k p => decide (k < p)) (fun _ _ _ _ => rfl)
    (fun m => httpListParts parts maxParts (m.or marker)) (·.items) (·.truncated) (·.next)
    (fun m => by
      cases m with
      | none => exact key marker
      | some k => exact key (some k))
    (clientFuel parts.length) (by rw [length_sortBy]; simp [clientFuel])
  exact this

end Pithos.Listing
