/-
Simulation framework for part stores (helpers for C15): `Sim R S` says that the store `S` refines
the reference map `PartId → Option Bytes` for the histories allowed by the restriction `R`; one lemma
per base store and per middleware shows how `Sim` is preserved.
-/
import Pithos.Model.PartStore
import Pithos.Lemmas.PartCodec

namespace Pithos.PartStore
open Pithos.Codec

/-! ## association lists -/

namespace KV
variable {V : Type}

theorem find_cons (k : PartId) (v : V) (m : KV V) (i : PartId) :
    KV.find ((k, v) :: m) i = if k = i then some v else KV.find m i := by
  unfold KV.find
  by_cases h : k = i <;> simp [List.find?_cons, h]

theorem find_erase_self (m : KV V) (i : PartId) : KV.find (KV.erase m i) i = none := by
  induction m with
  | nil => rfl
  | cons e t ih =>
    obtain ⟨k, v⟩ := e
    unfold KV.erase at ih ⊢
    by_cases h : k = i
    · simp [List.filter_cons, h, ih]
    · have hk : (k != i) = true := by simp [h]
      simp only [List.filter_cons, hk, if_true]
      rw [find_cons]; simp [h, ih]

theorem find_erase_ne (m : KV V) (i j : PartId) (h : j ≠ i) : KV.find (KV.erase m i) j = KV.find m j := by
  induction m with
  | nil => rfl
  | cons e t ih =>
    obtain ⟨k, v⟩ := e
    unfold KV.erase at ih ⊢
    by_cases hk : k = i
    · subst hk
      have : (k != k) = false := by simp
      simp only [List.filter_cons, this]
      rw [find_cons]
      have : ¬ k = j := fun e => h e.symm
      simp [this, ih]
    · have hk' : (k != i) = true := by simp [hk]
      simp only [List.filter_cons, hk', if_true]
      rw [find_cons, find_cons, ih]

theorem find_set_self (m : KV V) (i : PartId) (v : V) : KV.find (KV.set m i v) i = some v := by
  unfold KV.set; rw [find_cons]; simp

theorem find_set_ne (m : KV V) (i j : PartId) (v : V) (h : j ≠ i) :
    KV.find (KV.set m i v) j = KV.find m j := by
  unfold KV.set; rw [find_cons]
  have : ¬ i = j := fun e => h e.symm
  simp [this, find_erase_ne m i j h]

theorem mem_keys_iff (m : KV V) (i : PartId) : i ∈ KV.keys m ↔ (KV.find m i).isSome = true := by
  induction m with
  | nil => simp [KV.keys, KV.find]
  | cons e t ih =>
    obtain ⟨k, v⟩ := e
    rw [find_cons]
    unfold KV.keys at ih ⊢
    by_cases h : k = i
    · simp [h]
    · have : ¬ i = k := fun e => h e.symm
      simp [h, this, ih]

theorem keys_erase_sub (m : KV V) (i j : PartId) (h : j ∈ KV.keys (KV.erase m i)) : j ∈ KV.keys m ∧ j ≠ i := by
  unfold KV.keys KV.erase at *
  simp only [List.mem_map, List.mem_filter] at h
  obtain ⟨e, ⟨he, hne⟩, rfl⟩ := h
  exact ⟨List.mem_map.2 ⟨e, he, rfl⟩, by simpa using hne⟩

theorem nodup_erase (m : KV V) (i : PartId) (h : (KV.keys m).Nodup) : (KV.keys (KV.erase m i)).Nodup := by
  unfold KV.keys KV.erase at *
  induction m with
  | nil => simp
  | cons e t ih =>
    simp only [List.map_cons, List.nodup_cons] at h
    by_cases hk : (e.1 != i) = true
    · simp only [List.filter_cons, hk, if_true, List.map_cons, List.nodup_cons]
      refine ⟨?_, ih h.2⟩
      intro hm
      apply h.1
      simp only [List.mem_map, List.mem_filter] at hm ⊢
      obtain ⟨x, ⟨hx, _⟩, hxe⟩ := hm
      exact ⟨x, hx, hxe⟩
    · simp only [List.filter_cons, hk]
      exact ih h.2

theorem nodup_set (m : KV V) (i : PartId) (v : V) (h : (KV.keys m).Nodup) : (KV.keys (KV.set m i v)).Nodup := by
  have h1 := nodup_erase m i h
  unfold KV.set
  show (KV.keys ((i, v) :: KV.erase m i)).Nodup
  unfold KV.keys at *
  simp only [List.map_cons, List.nodup_cons]
  refine ⟨?_, h1⟩
  intro hm
  exact (keys_erase_sub m i i hm).2 rfl

end KV

/-! ## the simulation -/

/-- Which histories a statement about a store covers. -/
structure Restr where
  /-- contents for which `put` is covered -/
  okContent : Bytes → Prop
  /-- `get` of an id that holds no part is covered -/
  absentGet : Bool
  /-- guarantee: every stream handed out keeps answering EOF after EOF -/
  clean : Bool

def Restr.full : Restr := ⟨fun _ => True, true, true⟩

def upd (m : PartId → Option Bytes) (i : PartId) (v : Option Bytes) : PartId → Option Bytes :=
  fun j => if j = i then v else m j

@[simp] theorem upd_self (m : PartId → Option Bytes) (i : PartId) (v : Option Bytes) : upd m i v i = v := by
  simp [upd]

theorem upd_ne (m : PartId → Option Bytes) (i j : PartId) (v : Option Bytes) (h : j ≠ i) : upd m i v j = m j := by
  simp [upd, h]

/-- What the caller may observe of a `get`, against the reference content. -/
def OutOk (o : GetOut) (e : Option Bytes) : Prop :=
  match e with
  | none => o = .notFound
  | some b => ∃ st, o = .ok st ∧ st.bytes = b

def Allowed (R : Restr) (e : Option Bytes) : Prop := R.absentGet = true ∨ e.isSome = true

theorem Allowed.of_eq {R : Restr} {e e' : Option Bytes} (h : Allowed R e) (he : e = e') : Allowed R e' := he ▸ h

structure Sim (R : Restr) (S : Store) where
  Inv : S.σ → Prop
  abs : S.σ → PartId → Option Bytes
  inv_init : Inv S.init
  abs_init : ∀ i, abs S.init i = none
  put_inv : ∀ tx s i b, Inv s → R.okContent b → Inv (S.put tx s i b)
  put_abs : ∀ tx s i b, Inv s → R.okContent b → abs (S.put tx s i b) = upd (abs s) i (some b)
  get_inv : ∀ tx s i, Inv s → Allowed R (abs s i) → Inv (S.get tx s i).st
  get_abs : ∀ tx s i, Inv s → Allowed R (abs s i) → abs (S.get tx s i).st = abs s
  get_out : ∀ tx s i, Inv s → Allowed R (abs s i) → OutOk (S.get tx s i).out (abs s i)
  get_clean : ∀ tx s i st, Inv s → Allowed R (abs s i) → R.clean = true →
    (S.get tx s i).out = .ok st → st.afterEof = []
  get_quiet : ∀ tx s i, Inv s → Allowed R (abs s i) → (S.get tx s i).panicked = false
  del_inv : ∀ tx s i, Inv s → Inv (S.del tx s i)
  del_abs : ∀ tx s i, Inv s → abs (S.del tx s i) = upd (abs s) i none
  tick_inv : ∀ s, Inv s → Inv (S.tick s)
  tick_abs : ∀ s, Inv s → abs (S.tick s) = abs s
  ids_mem : ∀ s i, Inv s → (i ∈ S.ids s ↔ (abs s i).isSome = true)
  ids_nodup : ∀ s, Inv s → (S.ids s).Nodup

/-- A statement for more histories implies the statement for fewer. -/
def Sim.weaken {R R' : Restr} {S : Store} (sim : Sim R S)
    (hc : ∀ b, R'.okContent b → R.okContent b) (hg : R'.absentGet = true → R.absentGet = true)
    (hcl : R'.clean = true → R.clean = true) : Sim R' S :=
  have al : ∀ e, Allowed R' e → Allowed R e := fun e h => h.elim (fun h => Or.inl (hg h)) Or.inr
  { Inv := sim.Inv, abs := sim.abs, inv_init := sim.inv_init, abs_init := sim.abs_init
    put_inv := fun tx s i b h hb => sim.put_inv tx s i b h (hc b hb)
    put_abs := fun tx s i b h hb => sim.put_abs tx s i b h (hc b hb)
    get_inv := fun tx s i h a => sim.get_inv tx s i h (al _ a)
    get_abs := fun tx s i h a => sim.get_abs tx s i h (al _ a)
    get_out := fun tx s i h a => sim.get_out tx s i h (al _ a)
    get_clean := fun tx s i st h a c e => sim.get_clean tx s i st h (al _ a) (hcl c) e
    get_quiet := fun tx s i h a => sim.get_quiet tx s i h (al _ a)
    del_inv := sim.del_inv, del_abs := sim.del_abs, tick_inv := sim.tick_inv, tick_abs := sim.tick_abs
    ids_mem := sim.ids_mem, ids_nodup := sim.ids_nodup }

/-! ## base stores -/

def fsSim : Sim Restr.full fsStore where
  Inv (s : KV Bytes) := (KV.keys s).Nodup
  abs (s : KV Bytes) i := KV.find s i
  inv_init := by simp [fsStore, KV.keys]
  abs_init i := rfl
  put_inv tx s i b h _ := KV.nodup_set s i b h
  put_abs tx s i b _ _ := by
    funext j
    show KV.find (KV.set s i b) j = upd (KV.find s) i (some b) j
    by_cases hj : j = i
    · subst hj; rw [upd_self]; exact KV.find_set_self (V := Bytes) s j b
    · rw [upd_ne _ _ _ _ hj]; exact KV.find_set_ne (V := Bytes) s i j b hj
  get_inv tx s i h _ := by
    show (KV.keys (fsStore.get tx s i).st).Nodup
    simp only [fsStore]; split <;> exact h
  get_abs tx s i _ _ := by
    simp only [fsStore]; split <;> rfl
  get_out tx s i _ _ := by
    simp only [fsStore, OutOk]
    cases hf : KV.find s i with
    | none => simp
    | some b => exact ⟨_, rfl, rfl⟩
  get_clean tx s i st _ _ _ he := by
    simp only [fsStore] at he
    cases hf : KV.find s i with
    | none => simp [hf] at he
    | some b => simp [hf] at he; rw [← he]
  get_quiet tx s i _ _ := by
    simp only [fsStore]; split <;> rfl
  del_inv tx s i h := KV.nodup_erase s i h
  del_abs tx s i _ := by
    funext j
    show KV.find (KV.erase s i) j = upd (KV.find s) i none j
    by_cases hj : j = i
    · subst hj; rw [upd_self]; exact KV.find_erase_self (V := Bytes) s j
    · rw [upd_ne _ _ _ _ hj]; exact KV.find_erase_ne (V := Bytes) s i j hj
  tick_inv s h := h
  tick_abs s _ := rfl
  ids_mem s i _ := KV.mem_keys_iff s i
  ids_nodup s h := h

/-- The contents the SQL store handles correctly: everything with the repair, everything but the
empty content as the code is. -/
def sqlOk (F : Fixes) (b : Bytes) : Prop := F.sqlEmptyRow = true ∨ b ≠ []

def sqlSim (F : Fixes) : Sim ⟨sqlOk F, true, true⟩ (sqlStore F) where
  Inv (s : KV (List Bytes)) := (KV.keys s).Nodup
  abs (s : KV (List Bytes)) i := (KV.find s i).map concat
  inv_init := by simp [sqlStore, KV.keys]
  abs_init i := rfl
  put_inv tx s i b h _ := by
    simp only [sqlStore]
    split
    · split
      · exact KV.nodup_set s i _ h
      · exact KV.nodup_erase s i h
    · exact KV.nodup_set s i _ h
  put_abs tx (s : KV (List Bytes)) i b _ hb := by
    funext j
    show (KV.find (if (chunks sqlChunkSize b).isEmpty then (if F.sqlEmptyRow then KV.set s i [[]] else KV.erase s i)
        else KV.set s i (chunks sqlChunkSize b)) j).map concat = upd (fun k => (KV.find s k).map concat) i (some b) j
    by_cases hj : j = i
    · subst hj
      rw [upd_self]
      by_cases he : (chunks sqlChunkSize b).isEmpty = true
      · have hnil : chunks sqlChunkSize b = [] := by simpa using he
        have hb0 : b = [] := (chunks_eq_nil_iff _ _).1 hnil
        have hF : F.sqlEmptyRow = true := by
          rcases hb with h | h
          · exact h
          · exact absurd hb0 h
        rw [if_pos he, if_pos hF, KV.find_set_self (V := List Bytes) s j [[]], hb0]
        rfl
      · rw [if_neg he, KV.find_set_self (V := List Bytes) s j]
        simp [concat_chunks]
    · rw [upd_ne _ _ _ _ hj]
      split
      · split
        · rw [KV.find_set_ne (V := List Bytes) s i j _ hj]
        · rw [KV.find_erase_ne (V := List Bytes) s i j hj]
      · rw [KV.find_set_ne (V := List Bytes) s i j _ hj]
  get_inv tx s i h _ := by
    show (KV.keys ((sqlStore F).get tx s i).st).Nodup
    simp only [sqlStore]; split <;> exact h
  get_abs tx s i _ _ := by
    simp only [sqlStore]; split <;> rfl
  get_out tx s i _ _ := by
    simp only [sqlStore, OutOk]
    cases hf : KV.find s i with
    | none => simp
    | some b => exact ⟨_, rfl, rfl⟩
  get_clean tx s i st _ _ _ he := by
    simp only [sqlStore] at he
    cases hf : KV.find s i with
    | none => simp [hf] at he
    | some b => simp [hf] at he; rw [← he]
  get_quiet tx s i _ _ := by
    simp only [sqlStore]; split <;> rfl
  del_inv tx s i h := KV.nodup_erase s i h
  del_abs tx (s : KV (List Bytes)) i _ := by
    funext j
    show (KV.find (KV.erase s i) j).map concat = upd (fun k => (KV.find s k).map concat) i none j
    by_cases hj : j = i
    · subst hj; rw [upd_self, KV.find_erase_self (V := List Bytes) s j]; rfl
    · rw [upd_ne _ _ _ _ hj, KV.find_erase_ne (V := List Bytes) s i j hj]
  tick_inv s h := h
  tick_abs s _ := rfl
  ids_mem (s : KV (List Bytes)) i _ := by
    show i ∈ KV.keys s ↔ ((KV.find s i).map concat).isSome = true
    rw [KV.mem_keys_iff]
    cases KV.find s i <;> simp
  ids_nodup s h := h

end Pithos.PartStore
