/-
Helper lemmas for C33: the URL codec (`esc`, `unesc`) and list facts about hosts. Core Lean only.
-/
import Pithos.Model.VHost

namespace Pithos.VHost
open Pithos.Ascii

/-! ### codec -/

theorem hexVal_hexd : ∀ n, n < 16 → hexVal? (hexd n) = some n := by decide

theorem keep_ne_pct (c : Char) (h : keepPath c = true) : c ≠ '%' := by
  intro e; subst e; revert h; decide

theorem esc_append (a b : List Char) : esc (a ++ b) = esc a ++ esc b := by
  simp [esc]

theorem esc_cons (c : Char) (s : List Char) : esc (c :: s) = escChar c ++ esc s := by
  simp [esc]

theorem esc_keep (s : List Char) (h : ∀ c ∈ s, keepPath c = true) : esc s = s := by
  induction s with
  | nil => rfl
  | cons c s ih =>
    have hc := h c List.mem_cons_self
    rw [esc_cons, ih (fun d hd => h d (List.mem_cons_of_mem _ hd))]
    simp [escChar, hc]

theorem unescGo_normal_cons (c : Char) (r : List Char) (h : c ≠ '%') :
    unescGo .normal (c :: r) = (unescGo .normal r).map (c :: ·) := by
  have hb : (c == '%') = false := by simpa using h
  simp [unescGo, hb]

theorem unescGo_pct (x y : Nat) (hx : x < 16) (hy : y < 16) (r : List Char) :
    unescGo .normal ('%' :: hexd x :: hexd y :: r)
      = (unescGo .normal r).map (Char.ofNat (16 * x + y) :: ·) := by
  simp [unescGo, hexVal_hexd x hx, hexVal_hexd y hy]

/-- A percent-free prefix is copied by `unesc`. -/
theorem unesc_append_plain (a b : List Char) (h : ∀ c ∈ a, c ≠ '%') :
    unesc (a ++ b) = (unesc b).map (a ++ ·) := by
  induction a with
  | nil => simp [unesc]
  | cons c a ih =>
    have hc := h c List.mem_cons_self
    have ih' := ih (fun d hd => h d (List.mem_cons_of_mem _ hd))
    simp only [unesc] at ih' ⊢
    rw [List.cons_append, unescGo_normal_cons c _ hc, ih']
    cases unescGo .normal b <;> simp

theorem ofNat_toNat_split (c : Char) :
    Char.ofNat (16 * (c.toNat / 16) + c.toNat % 16) = c := by
  have : 16 * (c.toNat / 16) + c.toNat % 16 = c.toNat := Nat.div_add_mod c.toNat 16
  rw [this]; exact Char.ofNat_toNat c

/-- `unescape(escape(p)) = p` for byte strings. -/
theorem unesc_esc (p : List Char) (hb : ∀ c ∈ p, c.toNat < 256) : unesc (esc p) = some p := by
  induction p with
  | nil => rfl
  | cons c p ih =>
    have ih' := ih (fun d hd => hb d (List.mem_cons_of_mem _ hd))
    have hc := hb c List.mem_cons_self
    simp only [unesc] at ih' ⊢
    rw [esc_cons]
    by_cases hk : keepPath c = true
    · simp only [escChar, hk, if_true, List.singleton_append]
      rw [unescGo_normal_cons c _ (keep_ne_pct c hk), ih']; rfl
    · have hk' : keepPath c = false := by simpa using hk
      simp only [escChar, hk', Bool.false_eq_true, if_false, List.cons_append, List.nil_append]
      rw [unescGo_pct _ _ (by omega) (Nat.mod_lt _ (by omega)), ih', ofNat_toNat_split]; rfl

theorem unesc_nil_iff (ek : List Char) (h : unesc ek = some []) : ek = [] := by
  cases ek with
  | nil => rfl
  | cons c r =>
    exfalso
    simp only [unesc, unescGo] at h
    split at h
    · -- '%' then two hex digits then rest: result is non-empty
      cases r with
      | nil => simp [unescGo] at h
      | cons a r' =>
        simp only [unescGo] at h
        cases hx : hexVal? a with
        | none => simp [hx] at h
        | some x =>
          simp only [hx] at h
          cases r' with
          | nil => simp [unescGo] at h
          | cons b r'' =>
            simp only [unescGo] at h
            cases hy : hexVal? b with
            | none => simp [hy] at h
            | some y => simp only [hy] at h; cases unescGo .normal r'' <;> simp at h
    · cases unescGo .normal r <;> simp at h

/-! ### hosts -/

theorem lastIdx_none_of_not_mem (c : Char) (s : List Char) (h : c ∉ s) : lastIdx c s = none := by
  simp only [lastIdx, Option.map_eq_none_iff, List.findIdx?_eq_none_iff, List.mem_reverse]
  intro x hx
  have : x ≠ c := fun e => h (e ▸ hx)
  simpa using this

theorem stripPort_of_no_colon (h : List Char) (hc : ':' ∉ h) : stripPort h = h := by
  simp [stripPort, lastIdx_none_of_not_mem ':' h hc]

theorem trimSuffix_append (a s : List Char) : trimSuffix (a ++ s) s = a := by
  have h : s.isSuffixOf (a ++ s) = true := by
    rw [List.isSuffixOf_iff_suffix]; exact List.suffix_append a s
  simp [trimSuffix, h]

theorem trimSuffix_of_not_suffix (a s : List Char) (h : s.isSuffixOf a = false) :
    trimSuffix a s = a := by
  simp [trimSuffix, h]

end Pithos.VHost
