/-
Helper lemmas for C30 (core Lean only): the frame-level validation `check`, the encoder, and the
correspondence between the Go reader (`decode`) and `check` on rendered frames.
-/
import Pithos.Lemmas.SigV4
import Pithos.Model.Http.Chunked

namespace Pithos.Chunked
open Pithos.SigV4

-- ---------------------------------------------------------------- splitting a payload

theorem flatten_splitSizes (sizes : List Nat) (p : Bytes) : (splitSizes sizes p).flatten = p := by
  induction sizes generalizing p with
  | nil =>
    unfold splitSizes
    split
    · rename_i h; simp at h; simp [h]
    · simp
  | cons n ns ih =>
    unfold splitSizes
    split
    · exact ih p
    · simp [ih]

theorem splitSizes_nonempty (sizes : List Nat) (p : Bytes) : ∀ d ∈ splitSizes sizes p, d ≠ [] := by
  induction sizes generalizing p with
  | nil =>
    unfold splitSizes
    split
    · simp
    · rename_i h
      intro d hd
      simp only [List.mem_singleton] at hd
      subst hd
      intro e; simp [e] at h
  | cons n ns ih =>
    unfold splitSizes
    split
    · exact ih p
    · rename_i h
      simp only [Bool.or_eq_true, beq_iff_eq, not_or] at h
      intro d hd
      rcases List.mem_cons.1 hd with rfl | hd
      · intro e
        cases p with
        | nil => simp at h
        | cons c t =>
          cases n with
          | zero => exact h.1 rfl
          | succ m => simp at e
      · exact ih _ d hd

theorem splitSizes_length_le (sizes : List Nat) (p : Bytes) : ∀ d ∈ splitSizes sizes p, d.length ≤ p.length := by
  induction sizes generalizing p with
  | nil =>
    unfold splitSizes
    split
    · simp
    · intro d hd; simp only [List.mem_singleton] at hd; subst hd; exact Nat.le_refl _
  | cons n ns ih =>
    unfold splitSizes
    split
    · exact ih p
    · intro d hd
      rcases List.mem_cons.1 hd with rfl | hd
      · simp [List.length_take]; omega
      · have := ih _ d hd
        simp only [List.length_drop] at this
        omega

-- ---------------------------------------------------------------- frame-level validation

theorem checkChunks_append (P : Params) (prev acc : Bytes) (l1 l2 : List (Bytes × Bytes)) :
    checkChunks P prev acc (l1 ++ l2) =
      match checkChunks P prev acc l1 with
      | .error e => .error e
      | .ok (prev1, acc1) => checkChunks P prev1 acc1 l2 := by
  induction l1 generalizing prev acc with
  | nil => simp [checkChunks]
  | cons c t ih =>
    obtain ⟨d, s⟩ := c
    simp only [List.cons_append, checkChunks]
    split
    · rfl
    · exact ih _ _

theorem checkChunks_signChain (P : Params) (hs : P.skipValidation = false) (prev acc : Bytes) (ds : List Bytes) :
    checkChunks P prev acc (signChain P prev ds).1 = .ok ((signChain P prev ds).2, acc ++ ds.flatten) := by
  induction ds generalizing prev acc with
  | nil => simp [signChain, checkChunks]
  | cons d t ih =>
    simp only [signChain, checkChunks, hs, Bool.not_false, Bool.true_and, bne_self_eq_false,
      Bool.false_eq_true, if_false, List.flatten_cons]
    rw [ih]
    simp

theorem checkChunks_unsigned (P : Params) (hs : P.skipValidation = true) (prev acc : Bytes) (ds : List Bytes) :
    checkChunks P prev acc (ds.map (·, [])) = .ok (prev, acc ++ ds.flatten) := by
  induction ds generalizing acc with
  | nil => simp [checkChunks]
  | cons d t ih =>
    simp only [List.map_cons, checkChunks, hs, Bool.not_true, Bool.false_and, Bool.false_eq_true,
      if_false, if_true, List.flatten_cons]
    rw [ih]
    simp

/-- the checksum trailer line a conforming client writes passes `validateTrailerChecksum` -/
structure TrailerOK (P : Params) : Prop where
  /-- the declared name is what `strings.ToLower(strings.TrimSpace(·))` left, and has no colon -/
  name : lower (trimSpace P.trailerName) = P.trailerName ∧ (58 : UInt8) ∉ P.trailerName
  /-- the checksum text (base64) has no surrounding white space -/
  value : ∀ f, P.cksum = some f → ∀ p, trimSpace (f p) = f p
  /-- no unsupported `x-amz-checksum-*` algorithm is declared -/
  supported : P.cksum = none → hasPrefix (b! "x-amz-checksum-") P.trailerName = false
  /-- a signed trailer only comes with signed chunks (the four real modes) -/
  modes : P.skipValidation = true → P.trailerSigned = false

theorem cutColon_append (a b : Bytes) (h : (58 : UInt8) ∉ a) : cutColon (a ++ 58 :: b) = some (a, b) := by
  induction a with
  | nil => simp [cutColon]
  | cons c t ih =>
    have hc : c ≠ 58 := by intro e; apply h; simp [e]
    have ht : (58 : UInt8) ∉ t := by intro m; apply h; simp [m]
    simp [cutColon, hc, ih ht]

theorem validate_own_line (P : Params) (ok : TrailerOK P) (payload : Bytes) (hh : P.hasTrailer = true) :
    validateTrailerChecksum P payload (checksumLine P payload) = .ok () := by
  unfold validateTrailerChecksum checksumLine
  cases hc : P.cksum with
  | none => simp [ok.supported hc]
  | some f =>
    simp only [hh, if_true]
    rw [cutColon_append _ _ ok.name.2]
    simp [ok.name.1, ok.value f hc payload]

/-- **A conforming client's frame validates and yields the payload.** -/
theorem check_frameOf (P : Params) (ok : TrailerOK P) (payload : Bytes) (sizes : List Nat) :
    check P (frameOf P payload sizes) = .ok payload := by
  unfold check frameOf
  cases hs : P.skipValidation with
  | true =>
    simp only [if_true]
    rw [checkChunks_unsigned P hs, flatten_splitSizes]
    simp only [List.nil_append, Bool.not_true, Bool.false_and, Bool.false_eq_true, if_false]
    cases hh : P.hasTrailer with
    | false => simp
    | true => simp [ok.modes hs, validate_own_line P ok payload hh]
  | false =>
    simp only [Bool.false_eq_true, if_false]
    rw [checkChunks_signChain P hs, flatten_splitSizes]
    simp only [List.nil_append, Bool.not_false, Bool.true_and, bne_self_eq_false, Bool.false_eq_true,
      if_false]
    cases hh : P.hasTrailer with
    | false => simp
    | true =>
      cases ht : P.trailerSigned with
      | false => simp [validate_own_line P ok payload hh]
      | true => simp [validate_own_line P ok payload hh]

-- ---------------------------------------------------------------- single mutations are caught

theorem signature_injective (c : Crypto) (hunf : Unforgeable c.hmac) (k m m' : Bytes)
    (h : signature c k m = signature c k m') : m = m' :=
  (hunf _ _ _ _ (hexL_injective _ _ h)).2

/-- a chunk signature binds the chunk's data -/
theorem chunkSig_binds_data (P : Params) (hcf : CollisionFree P.c.sha256hex) (hunf : Unforgeable P.c.hmac)
    (prev d d' : Bytes) (h : chunkSig P prev d = chunkSig P prev d') : d = d' := by
  have := signature_injective P.c hunf _ _ _ h
  unfold chunkStringToSign at this
  exact hcf _ _ (List.append_cancel_left this)

/-- a trailer signature binds the checksum line -/
theorem trailerSig_binds_line (P : Params) (hcf : CollisionFree P.c.sha256hex) (hunf : Unforgeable P.c.hmac)
    (prev l l' : Bytes) (h : trailerSig P prev l = trailerSig P prev l') : l = l' := by
  have := signature_injective P.c hunf _ _ _ h
  unfold trailerStringToSign at this
  have := hcf _ _ (List.append_cancel_left this)
  exact List.append_cancel_right this

/-- what a passing chunk list tells about one of its members -/
theorem checkChunks_split (P : Params) (prev acc : Bytes) (l1 l2 : List (Bytes × Bytes)) (d s : Bytes)
    (r : Bytes × Bytes) (h : checkChunks P prev acc (l1 ++ (d, s) :: l2) = .ok r) :
    ∃ prev1 acc1, checkChunks P prev acc l1 = .ok (prev1, acc1) ∧
      (P.skipValidation = false → s = chunkSig P prev1 d) ∧
      checkChunks P (if P.skipValidation then prev1 else s) (acc1 ++ d) l2 = .ok r := by
  rw [checkChunks_append] at h
  cases h1 : checkChunks P prev acc l1 with
  | error e => rw [h1] at h; contradiction
  | ok pa =>
    obtain ⟨prev1, acc1⟩ := pa
    rw [h1] at h
    simp only [checkChunks] at h
    split at h
    · contradiction
    · rename_i hc
      refine ⟨prev1, acc1, rfl, ?_, h⟩
      intro hs
      simpa [hs] using hc

/-- acc of a passing chunk list is the concatenation of the data -/
theorem checkChunks_acc (P : Params) (prev acc : Bytes) (l : List (Bytes × Bytes)) (r : Bytes × Bytes)
    (h : checkChunks P prev acc l = .ok r) : r.2 = acc ++ (l.map (·.1)).flatten := by
  induction l generalizing prev acc with
  | nil => simp only [checkChunks] at h; injection h with h; subst h; simp
  | cons c t ih =>
    obtain ⟨d, s⟩ := c
    simp only [checkChunks] at h
    split at h
    · contradiction
    · have := ih _ _ h
      simp [this]

/-- **M1.** Signed chunks: changing the data of any one chunk makes validation fail. -/
theorem mutated_chunk_data_rejected (P : Params) (hcf : CollisionFree P.c.sha256hex) (hunf : Unforgeable P.c.hmac)
    (hs : P.skipValidation = false) (f : Frame) (p : Bytes) (hok : check P f = .ok p)
    (l1 l2 : List (Bytes × Bytes)) (d s d' : Bytes) (hf : f.chunks = l1 ++ (d, s) :: l2) (hd : d' ≠ d) :
    check P { f with chunks := l1 ++ (d', s) :: l2 } = .error .sigMismatch := by
  unfold check at hok
  rw [hf] at hok
  cases hc : checkChunks P P.seed [] (l1 ++ (d, s) :: l2) with
  | error e => rw [hc] at hok; contradiction
  | ok r =>
    obtain ⟨prev1, acc1, h1, hsig, _⟩ := checkChunks_split P _ _ l1 l2 d s r hc
    unfold check
    simp only
    rw [checkChunks_append, h1]
    simp only [checkChunks, hs, Bool.not_false, Bool.true_and]
    have : (s != chunkSig P prev1 d') = true := by
      simp only [bne_iff_ne, ne_eq]
      intro e
      rw [hsig hs] at e
      exact hd (chunkSig_binds_data P hcf hunf _ _ _ e).symm
    simp [this]

/-- **M2.** Signed chunks: changing any one chunk signature makes validation fail. -/
theorem mutated_chunk_signature_rejected (P : Params) (hs : P.skipValidation = false) (f : Frame) (p : Bytes)
    (hok : check P f = .ok p) (l1 l2 : List (Bytes × Bytes)) (d s s' : Bytes)
    (hf : f.chunks = l1 ++ (d, s) :: l2) (hd : s' ≠ s) :
    check P { f with chunks := l1 ++ (d, s') :: l2 } = .error .sigMismatch := by
  unfold check at hok
  rw [hf] at hok
  cases hc : checkChunks P P.seed [] (l1 ++ (d, s) :: l2) with
  | error e => rw [hc] at hok; contradiction
  | ok r =>
    obtain ⟨prev1, acc1, h1, hsig, _⟩ := checkChunks_split P _ _ l1 l2 d s r hc
    unfold check
    simp only
    rw [checkChunks_append, h1]
    simp only [checkChunks, hs, Bool.not_false, Bool.true_and]
    have : (s' != chunkSig P prev1 d) = true := by
      simp only [bne_iff_ne, ne_eq]
      rw [← hsig hs]; exact hd
    simp [this]

/-- **M3.** Signed chunks: changing the signature of the final (zero-length) chunk fails. -/
theorem mutated_final_signature_rejected (P : Params) (hs : P.skipValidation = false) (f : Frame) (p : Bytes)
    (hok : check P f = .ok p) (s' : Bytes) (hd : s' ≠ f.finalSig) :
    check P { f with finalSig := s' } = .error .sigMismatch := by
  unfold check at hok ⊢
  simp only at hok ⊢
  cases hc : checkChunks P P.seed [] f.chunks with
  | error e => rw [hc] at hok; contradiction
  | ok r =>
    obtain ⟨prev, acc⟩ := r
    rw [hc] at hok
    simp only [hs, Bool.not_false, Bool.true_and] at hok ⊢
    split at hok
    · contradiction
    · rename_i hfin
      have hfin' : f.finalSig = chunkSig P prev [] := by simpa using hfin
      have : (s' != chunkSig P prev []) = true := by
        simp only [bne_iff_ne, ne_eq]; rw [← hfin']; exact hd
      simp [this]

/-- **M4.** Signed trailer: changing the trailer signature fails. -/
theorem mutated_trailer_signature_rejected (P : Params) (ht : P.hasTrailer = true) (hts : P.trailerSigned = true)
    (f : Frame) (p : Bytes) (hok : check P f = .ok p) (s' : Bytes) (hd : s' ≠ f.trailerSignature) :
    check P { f with trailerSignature := s' } = .error .sigMismatch := by
  unfold check at hok ⊢
  simp only at hok ⊢
  cases hc : checkChunks P P.seed [] f.chunks with
  | error e => rw [hc] at hok; contradiction
  | ok r =>
    obtain ⟨prev, acc⟩ := r
    rw [hc] at hok
    simp only at hok ⊢
    split at hok
    · contradiction
    · rename_i hfin
      rw [if_neg hfin]
      simp only [ht, hts, if_true, Bool.true_and] at hok ⊢
      generalize (if P.skipValidation = true then prev else f.finalSig) = pv at hok ⊢
      split at hok
      · contradiction
      · rename_i htr
        have htr' : f.trailerSignature = trailerSig P pv f.trailerLine := by simpa using htr
        have : (s' != trailerSig P pv f.trailerLine) = true := by
          simp only [bne_iff_ne, ne_eq]; rw [← htr']; exact hd
        simp [this]

/-- **M5 (signed trailer).** Changing the checksum line under a signed trailer fails: the trailer
signature binds it. -/
theorem mutated_signed_trailer_checksum_rejected (P : Params) (hcf : CollisionFree P.c.sha256hex)
    (hunf : Unforgeable P.c.hmac) (ht : P.hasTrailer = true) (hts : P.trailerSigned = true)
    (f : Frame) (p : Bytes) (hok : check P f = .ok p) (l' : Bytes) (hd : l' ≠ f.trailerLine) :
    check P { f with trailerLine := l' } = .error .sigMismatch := by
  unfold check at hok ⊢
  simp only at hok ⊢
  cases hc : checkChunks P P.seed [] f.chunks with
  | error e => rw [hc] at hok; contradiction
  | ok r =>
    obtain ⟨prev, acc⟩ := r
    rw [hc] at hok
    simp only at hok ⊢
    split at hok
    · contradiction
    · rename_i hfin
      rw [if_neg hfin]
      simp only [ht, hts, if_true, Bool.true_and] at hok ⊢
      generalize (if P.skipValidation = true then prev else f.finalSig) = pv at hok ⊢
      split at hok
      · contradiction
      · rename_i htr
        have htr' : f.trailerSignature = trailerSig P pv f.trailerLine := by simpa using htr
        have : (f.trailerSignature != trailerSig P pv l') = true := by
          simp only [bne_iff_ne, ne_eq]
          intro e
          rw [htr'] at e
          exact hd (trailerSig_binds_line P hcf hunf _ _ _ e).symm
        simp [this]

/-- **M5 (checksum value).** Whatever the signatures say, a trailer whose checksum value is not the
checksum of the received payload is refused (`BadDigest`) unless an earlier check already failed. -/
theorem wrong_trailer_checksum_rejected (P : Params) (ht : P.hasTrailer = true) (g : Bytes → Bytes)
    (hg : P.cksum = some g) (f : Frame) (n v' : Bytes) (hl : f.trailerLine = n ++ 58 :: v')
    (hn : (58 : UInt8) ∉ n) (hname : lower (trimSpace n) = P.trailerName)
    (hv : trimSpace v' ≠ g ((f.chunks.map (·.1)).flatten)) :
    ∃ e, check P f = .error e := by
  unfold check
  cases hc : checkChunks P P.seed [] f.chunks with
  | error e => exact ⟨e, rfl⟩
  | ok r =>
    obtain ⟨prev, acc⟩ := r
    have hacc := checkChunks_acc P _ _ _ _ hc
    simp only [List.nil_append] at hacc
    have hv' : validateTrailerChecksum P acc f.trailerLine = .error .badDigest := by
      unfold validateTrailerChecksum
      rw [hg, hl]
      simp only
      rw [cutColon_append _ _ hn]
      simp only [hname, bne_self_eq_false, Bool.false_eq_true, if_false]
      rw [hacc]
      simp [hv]
    simp only [hv', ht, if_true]
    repeat (first | exact ⟨_, rfl⟩ | split)

/-- **M6.** Unsigned chunks with a checksum trailer: changing the data of a chunk is caught by the
checksum (the checksum being collision free). -/
theorem mutated_data_caught_by_checksum (P : Params) (ht : P.hasTrailer = true) (g : Bytes → Bytes)
    (hg : P.cksum = some g) (hcg : CollisionFree g)
    (hname : lower (trimSpace P.trailerName) = P.trailerName ∧ (58 : UInt8) ∉ P.trailerName)
    (hval : ∀ p, trimSpace (g p) = g p)
    (f : Frame) (l1 l2 : List (Bytes × Bytes)) (d s d' : Bytes) (hf : f.chunks = l1 ++ (d, s) :: l2)
    (hl : f.trailerLine = P.trailerName ++ 58 :: g ((f.chunks.map (·.1)).flatten)) (hd : d' ≠ d) :
    ∃ e, check P { f with chunks := l1 ++ (d', s) :: l2 } = .error e := by
  refine wrong_trailer_checksum_rejected P ht g hg { f with chunks := l1 ++ (d', s) :: l2 } P.trailerName
    (g ((f.chunks.map (·.1)).flatten)) hl hname.2 hname.1 ?_
  rw [hval]
  intro e
  have := hcg _ _ e
  rw [hf] at this
  simp only [List.map_append, List.map_cons, List.flatten_append, List.flatten_cons] at this
  have := List.append_cancel_left this
  have := List.append_cancel_right this
  exact hd this.symm


-- ---------------------------------------------------------------- the Go reader on a rendered frame

theorem readLine_append (a r : Bytes) (h : (10 : UInt8) ∉ a) : readLine (a ++ 10 :: r) = some (a ++ [10], r) := by
  induction a with
  | nil => simp [readLine]
  | cons c t ih =>
    have hc : c ≠ 10 := by intro e; apply h; simp [e]
    have ht : (10 : UInt8) ∉ t := by intro m; apply h; simp [m]
    simp [readLine, hc, ih ht]

/-- no carriage return or line feed -/
def noCRLF (x : Bytes) : Prop := ∀ b ∈ x, isCRLF b = false

theorem trimCRLF_line (x : Bytes) (hx : x ≠ []) (h : noCRLF x) : trimCRLF (x ++ [13, 10]) = x := by
  unfold trimCRLF
  have h1 : (x ++ [13, 10]).dropWhile isCRLF = x ++ [13, 10] := by
    cases x with
    | nil => exact absurd rfl hx
    | cons c t => simp [List.dropWhile, h c (by simp)]
  rw [h1]
  have h2 : (x ++ [13, 10]).reverse = 10 :: 13 :: x.reverse := by simp
  rw [h2]
  have h3 : (10 :: 13 :: x.reverse).dropWhile isCRLF = x.reverse := by
    simp only [List.dropWhile, isCRLF]
    simp only [show ((10 : UInt8) == 13 || (10 : UInt8) == 10) = true by decide,
               show ((13 : UInt8) == 13 || (13 : UInt8) == 10) = true by decide]
    cases hr : x.reverse with
    | nil => rfl
    | cons c t =>
      have : c ∈ x := by
        have : c ∈ x.reverse := by rw [hr]; simp
        exact List.mem_reverse.1 this
      have hc := h c this
      simp [List.dropWhile, hc]
  rw [h3, List.reverse_reverse]

theorem hasPrefix_sigSep_false (c : UInt8) (t : Bytes) (h : c ≠ 59) : hasPrefix sigSep (c :: t) = false := by
  unfold hasPrefix sigSep
  simp only [List.length_cons, List.length_nil, List.take_succ_cons]
  simp [h]

theorem splitAtSub_found (pre post : Bytes) (h : ∀ b ∈ pre, b ≠ 59) :
    splitAtSub sigSep (pre ++ sigSep ++ post) = some (pre, post) := by
  induction pre with
  | nil =>
    show splitAtSub sigSep (sigSep ++ post) = _
    have : sigSep ++ post = 59 :: (sigSep.tail ++ post) := rfl
    rw [this, splitAtSub]
    have hp : hasPrefix sigSep (59 :: (sigSep.tail ++ post)) = true := by
      rw [← this]; unfold hasPrefix; simp
    rw [if_pos hp, ← this]
    simp
  | cons c t ih =>
    have hc := h c (by simp)
    simp only [List.cons_append, splitAtSub, hasPrefix_sigSep_false c _ hc, Bool.false_eq_true, if_false]
    have := ih (fun b hb => h b (by simp [hb]))
    simp only [List.append_assoc] at this
    simp [this]

theorem splitAtSub_none (s : Bytes) (h : ∀ b ∈ s, b ≠ 59) : splitAtSub sigSep s = none := by
  induction s with
  | nil => simp [splitAtSub, sigSep]
  | cons c t ih =>
    simp only [splitAtSub, hasPrefix_sigSep_false c _ (h c (by simp)), Bool.false_eq_true, if_false]
    rw [ih (fun b hb => h b (by simp [hb]))]


theorem hexDigitL_facts : ∀ k : Fin 16,
    isHexChar (hexDigitL k.val) = true ∧ hexDigitVal (hexDigitL k.val) = k.val ∧ hexDigitL k.val ≠ 59 ∧
    isCRLF (hexDigitL k.val) = false := by
  decide

theorem toHexNat_unfold (n : Nat) :
    toHexNat n = if n < 16 then [hexDigitL n] else toHexNat (n / 16) ++ [hexDigitL (n % 16)] := by
  rw [toHexNat]

theorem toHexNat_ne_nil (n : Nat) : toHexNat n ≠ [] := by
  rw [toHexNat_unfold]; split <;> simp

theorem toHexNat_all (n : Nat) : ∀ b ∈ toHexNat n, isHexChar b = true ∧ b ≠ 59 ∧ isCRLF b = false := by
  induction n using Nat.strongRecOn with
  | _ n ih =>
    rw [toHexNat_unfold]
    split
    · rename_i h
      intro b hb
      simp only [List.mem_singleton] at hb
      subst hb
      have := hexDigitL_facts ⟨n, h⟩
      exact ⟨this.1, this.2.2.1, this.2.2.2⟩
    · rename_i h
      intro b hb
      rcases List.mem_append.1 hb with hb | hb
      · exact ih (n / 16) (by omega) b hb
      · simp only [List.mem_singleton] at hb
        subst hb
        have := hexDigitL_facts ⟨n % 16, by omega⟩
        exact ⟨this.1, this.2.2.1, this.2.2.2⟩

theorem toHexNat_value (n : Nat) : (toHexNat n).foldl (fun a d => a * 16 + hexDigitVal d) 0 = n := by
  induction n using Nat.strongRecOn with
  | _ n ih =>
    rw [toHexNat_unfold]
    split
    · rename_i h
      have := hexDigitL_facts ⟨n, h⟩
      simp [this.2.1]
    · rename_i h
      rw [List.foldl_append, ih (n / 16) (by omega)]
      have := hexDigitL_facts ⟨n % 16, by omega⟩
      simp only [List.foldl_cons, List.foldl_nil, this.2.1]
      omega

theorem parseHex64_toHexNat (n : Nat) (h : n < 18446744073709551616) : parseHex64 (toHexNat n) = some n := by
  unfold parseHex64
  have hne : (toHexNat n).isEmpty = false := by
    cases hh : toHexNat n with
    | nil => exact absurd hh (toHexNat_ne_nil n)
    | cons _ _ => rfl
  have hall : (toHexNat n).all isHexChar = true := by
    apply List.all_eq_true.2
    intro b hb
    exact (toHexNat_all n b hb).1
  simp only [hne, hall, Bool.not_true, Bool.or_self, Bool.false_eq_true, if_false, toHexNat_value, h, if_true]

theorem parseHex64_zero : parseHex64 [48] = some 0 := by decide


/-- the header line of a chunk: hex length, optionally `;chunk-signature=<sig>` -/
def chunkHeader (sg : Bool) (n : Nat) (s : Bytes) : Bytes := toHexNat n ++ (if sg then sigSep ++ s else [])

theorem sigSep_noCRLF : noCRLF sigSep := by
  intro b hb
  revert b
  decide

theorem chunkHeader_noCRLF (sg : Bool) (n : Nat) (s : Bytes) (hs : noCRLF s) : noCRLF (chunkHeader sg n s) := by
  intro b hb
  unfold chunkHeader at hb
  rcases List.mem_append.1 hb with hb | hb
  · exact (toHexNat_all n b hb).2.2
  · cases sg with
    | false => simp at hb
    | true =>
      simp only [if_true] at hb
      rcases List.mem_append.1 hb with hb | hb
      · exact sigSep_noCRLF b hb
      · exact hs b hb

theorem noCRLF_not10 (x : Bytes) (h : noCRLF x) : (10 : UInt8) ∉ x := by
  intro hm
  have := h 10 hm
  revert this
  decide

theorem chunkHeader_ne_nil (sg : Bool) (n : Nat) (s : Bytes) : chunkHeader sg n s ≠ [] := by
  unfold chunkHeader
  intro e
  exact toHexNat_ne_nil n (List.append_eq_nil_iff.1 e).1

/-- reading a chunk header line and splitting it -/
theorem header_parse (sg : Bool) (n : Nat) (s rest : Bytes) (hs : noCRLF s) :
    readLine (chunkHeader sg n s ++ crlf ++ rest) = some (chunkHeader sg n s ++ [13, 10], rest) ∧
    trimCRLF (chunkHeader sg n s ++ [13, 10]) = chunkHeader sg n s ∧
    splitAtSub sigSep (chunkHeader sg n s) = if sg then some (toHexNat n, s) else none := by
  have hn := chunkHeader_noCRLF sg n s hs
  refine ⟨?_, trimCRLF_line _ (chunkHeader_ne_nil sg n s) hn, ?_⟩
  · have h13 : (10 : UInt8) ∉ chunkHeader sg n s ++ [13] := by
      intro hm
      rcases List.mem_append.1 hm with hm | hm
      · exact noCRLF_not10 _ hn hm
      · revert hm; decide
    have := readLine_append (chunkHeader sg n s ++ [13]) rest h13
    simpa [crlf] using this
  · unfold chunkHeader
    cases sg with
    | true =>
      simp only [if_true]
      have := splitAtSub_found (toHexNat n) s (fun b hb => (toHexNat_all n b hb).2.1)
      simpa using this
    | false =>
      simp only [Bool.false_eq_true, if_false, List.append_nil]
      exact splitAtSub_none _ (fun b hb => (toHexNat_all n b hb).2.1)

theorem renderChunk_eq (sg : Bool) (d s : Bytes) :
    renderChunk sg (d, s) = chunkHeader sg d.length s ++ crlf ++ (d ++ crlf) := by
  simp [renderChunk, chunkHeader, List.append_assoc]

/-- **one data chunk**: what `Read` does with it is what `checkChunks` does with it -/
theorem decodeLoop_chunk (P : Params) (sg : Bool) (fuel : Nat) (prev acc d s rest : Bytes)
    (hd : d ≠ []) (hlen : d.length < 9223372036854775808) (hs : noCRLF s)
    (hmode : sg = true ∨ P.skipValidation = true) :
    decodeLoop P (fuel + 1) prev acc (renderChunk sg (d, s) ++ rest) =
      if !P.skipValidation && s != chunkSig P prev d then .error .sigMismatch
      else decodeLoop P fuel (if P.skipValidation then prev else s) (acc ++ d) rest := by
  rw [renderChunk_eq, List.append_assoc]
  obtain ⟨h1, h2, h3⟩ := header_parse sg d.length s ((d ++ crlf) ++ rest) hs
  rw [decodeLoop, h1]
  simp only [h2, h3]
  have hlen64 : d.length < 18446744073709551616 := by omega
  have hn0 : (d.length == 0) = false := by
    cases d with
    | nil => exact absurd rfl hd
    | cons _ _ => simp
  have hnotbig : ¬ (d.length ≥ 9223372036854775808) := by omega
  have hrest : ((d ++ crlf) ++ rest).isEmpty = false := by
    cases d with
    | nil => exact absurd rfl hd
    | cons _ _ => rfl
  have hlen2 : ¬ (((d ++ crlf) ++ rest).length < d.length) := by simp [crlf]
  have htake : ((d ++ crlf) ++ rest).take d.length = d := by simp [List.append_assoc]
  have hdrop : ((d ++ crlf) ++ rest).drop d.length = crlf ++ rest := by simp [List.append_assoc]
  cases sg with
  | true =>
    simp only [if_true, Option.isNone_some, Bool.false_and, Bool.false_eq_true, if_false,
      parseHex64_toHexNat _ hlen64, Option.getD_some, hn0, hnotbig, hrest, hlen2, htake, hdrop]
    have h2' : ¬ ((crlf ++ rest).length < 2) := by simp [crlf]
    rw [if_neg h2']
    have : (crlf ++ rest).drop 2 = rest := by simp [crlf]
    rw [this]
  | false =>
    have hsk : P.skipValidation = true := by
      rcases hmode with h | h
      · contradiction
      · exact h
    have hch : chunkHeader false d.length s = toHexNat d.length := by simp [chunkHeader]
    simp only [hch, Bool.false_eq_true, if_false, Option.isNone_none, hsk, Bool.not_true, Bool.and_false,
      Bool.false_and, parseHex64_toHexNat _ hlen64, Option.getD_none, hn0, hnotbig, hrest, hlen2, htake,
      hdrop, if_true]
    have h2' : ¬ ((crlf ++ rest).length < 2) := by simp [crlf]
    rw [if_neg h2']
    have : (crlf ++ rest).drop 2 = rest := by simp [crlf]
    rw [this]


theorem toHexNat_zero : toHexNat 0 = [48] := by
  rw [toHexNat_unfold]; rfl

/-- **the zero-length chunk** -/
theorem decodeLoop_final (P : Params) (sg : Bool) (fuel : Nat) (prev acc fs tail : Bytes)
    (hs : noCRLF fs) (hmode : sg = true ∨ P.skipValidation = true) :
    decodeLoop P (fuel + 1) prev acc (chunkHeader sg 0 fs ++ crlf ++ tail) =
      if !P.skipValidation && fs != chunkSig P prev [] then .error .sigMismatch
      else finish P (if P.skipValidation then prev else fs) acc tail := by
  obtain ⟨h1, h2, h3⟩ := header_parse sg 0 fs tail hs
  rw [decodeLoop, h1]
  simp only [h2, h3]
  cases sg with
  | true =>
    simp only [if_true, Option.isNone_some, Bool.false_and, Bool.false_eq_true, if_false, toHexNat_zero,
      parseHex64_zero, Option.getD_some, BEq.rfl]
  | false =>
    have hsk : P.skipValidation = true := by
      rcases hmode with h | h
      · contradiction
      · exact h
    have hch : chunkHeader false 0 fs = [48] := by simp [chunkHeader, toHexNat_zero]
    simp only [hch, Bool.false_eq_true, if_false, Option.isNone_none, hsk, Bool.not_true, Bool.and_false,
      Bool.false_and, parseHex64_zero, Option.getD_none, BEq.rfl, if_true]

def tsPrefix : Bytes := b! "x-amz-trailer-signature:"

theorem trimSpace_line (x : Bytes) (hx : x ≠ []) (h1 : headOK x = true) (h2 : lastOK x = true) :
    trimSpace (x ++ [13, 10]) = x := by
  unfold trimSpace
  have hl : trimLeft (x ++ [13, 10]) = x ++ [13, 10] := by
    apply trimLeft_of_headOK
    rw [headOK_append]
    cases x with
    | nil => exact absurd rfl hx
    | cons c t => simpa using h1
  rw [hl]
  unfold trimRight
  have hr : (x ++ [13, 10]).reverse = 10 :: 13 :: x.reverse := by simp
  rw [hr]
  have hd : (10 :: 13 :: x.reverse).dropWhile isSpaceByte = x.reverse := by
    simp only [List.dropWhile, show isSpaceByte 10 = true by decide, show isSpaceByte 13 = true by decide]
    cases hrv : x.reverse with
    | nil => rfl
    | cons c t =>
      have hlast : x.getLast? = some c := by rw [← List.head?_reverse, hrv]; rfl
      simp only [lastOK, hlast, Bool.not_eq_true'] at h2
      simp [List.dropWhile, h2]
  rw [hd, List.reverse_reverse]

/-- one line of the trailer section that is not the last thing in the body -/
theorem trailerLoop_line (fuel i : Nat) (x rest ck sg : Bytes) (hx : (10 : UInt8) ∉ x) :
    readTrailerLoop (fuel + 1) i (x ++ crlf ++ rest) ck sg =
      (let line := trimSpace (x ++ [13, 10])
       if line.isEmpty then (if i == 0 then readTrailerLoop fuel (i + 1) rest ck sg else (ck, sg))
       else
         match cutPrefix tsPrefix line with
         | some v => readTrailerLoop fuel (i + 1) rest ck (trimSpace v)
         | none => readTrailerLoop fuel (i + 1) rest (if ck.isEmpty then line else ck) sg) := by
  have h13 : (10 : UInt8) ∉ x ++ [13] := by
    intro hm
    rcases List.mem_append.1 hm with hm | hm
    · exact hx hm
    · revert hm; decide
  have hr : readLine (x ++ crlf ++ rest) = some (x ++ [13, 10], rest) := by
    have := readLine_append (x ++ [13]) rest h13
    simpa [crlf] using this
  rw [readTrailerLoop, hr]
  simp only [Bool.not_false, Bool.and_true, Bool.false_eq_true, if_false]
  split
  · rfl
  · cases hc : cutPrefix (b! "x-amz-trailer-signature:") (trimSpace (x ++ [13, 10])) with
    | none => simp [tsPrefix, hc]
    | some v => simp [tsPrefix, hc]

/-- the checksum line of a frame: absent, or a line without line break and outer white space that
is not itself a trailer-signature line -/
def LineOK (line : Bytes) : Prop :=
  line = [] ∨ ((10 : UInt8) ∉ line ∧ headOK line = true ∧ lastOK line = true ∧ cutPrefix tsPrefix line = none)

/-- a signature as written into the body: no line break, no outer white space -/
def SigOK (s : Bytes) : Prop := noCRLF s ∧ headOK s = true ∧ lastOK s = true

/-- the trailer section as rendered -/
def trailerTail (sg : Bool) (line tsig : Bytes) : Bytes :=
  (if line.isEmpty then [] else line ++ crlf) ++ (if sg then tsPrefix ++ tsig ++ crlf else []) ++ crlf

theorem readTrailerLoop_end (fuel i : Nat) (ck sg : Bytes) (hi : i ≠ 0) :
    readTrailerLoop (fuel + 1) i crlf ck sg = (ck, sg) := by
  have := trailerLoop_line fuel i [] [] ck sg (by simp)
  simp only [List.nil_append, List.append_nil] at this
  rw [this]
  have : trimSpace [13, 10] = [] := by decide
  simp [this, hi]

theorem cutPrefix_tsPrefix (t : Bytes) : cutPrefix tsPrefix (tsPrefix ++ t) = some t := by
  unfold cutPrefix hasPrefix
  simp

theorem readTrailerSection_tail (sg : Bool) (line tsig : Bytes) (hl : LineOK line) (ht : SigOK tsig) :
    readTrailerSection (trailerTail sg line tsig) = (line, if sg then tsig else []) := by
  unfold readTrailerSection trailerTail
  have sigLine : ∀ fuel i rest ck s0, readTrailerLoop (fuel + 1) i (tsPrefix ++ tsig ++ crlf ++ rest) ck s0 =
      readTrailerLoop fuel (i + 1) rest ck tsig := by
    intro fuel i rest ck s0
    have hx : (10 : UInt8) ∉ tsPrefix ++ tsig := by
      intro hm
      rcases List.mem_append.1 hm with hm | hm
      · revert hm; decide
      · exact noCRLF_not10 _ ht.1 hm
    rw [trailerLoop_line fuel i (tsPrefix ++ tsig) rest ck s0 hx]
    have hne : tsPrefix ++ tsig ≠ [] := by simp [tsPrefix]
    have h1 : headOK (tsPrefix ++ tsig) = true := by
      rw [headOK_append]
      simp only [show tsPrefix.isEmpty = false from rfl, Bool.false_eq_true, if_false]
      decide
    have h2 : lastOK (tsPrefix ++ tsig) = true := by
      rw [lastOK_append]
      split
      · show lastOK tsPrefix = true
        decide
      · exact ht.2.2
    simp only [trimSpace_line _ hne h1 h2]
    have : (tsPrefix ++ tsig).isEmpty = false := by simp [tsPrefix]
    simp only [this, Bool.false_eq_true, if_false, cutPrefix_tsPrefix]
    rw [trimSpace_of_OK _ ht.2.1 ht.2.2]
  have emptyCase : line = [] → readTrailerLoop 8 0
      ((if line.isEmpty = true then [] else line ++ crlf) ++ (if sg = true then tsPrefix ++ tsig ++ crlf else []) ++ crlf)
      [] [] = (line, if sg = true then tsig else []) := by
    intro e
    subst e
    simp only [List.isEmpty_nil, if_true, List.nil_append]
    cases sg with
    | true =>
      simp only [if_true]
      rw [sigLine, readTrailerLoop_end _ _ _ _ (by decide)]
    | false =>
      simp only [Bool.false_eq_true, if_false, List.nil_append]
      decide
  by_cases hne : line = []
  · exact emptyCase hne
  rcases hl with hl | ⟨hl10, hlh, hll, hlp⟩
  · exact absurd hl hne
  · have hie : line.isEmpty = false := by
      cases line with
      | nil => exact absurd rfl hne
      | cons _ _ => rfl
    simp only [hie, Bool.false_eq_true, if_false]
    have lineStep : ∀ fuel rest, readTrailerLoop (fuel + 1) 0 (line ++ crlf ++ rest) [] [] =
        readTrailerLoop fuel 1 rest line [] := by
      intro fuel rest
      rw [trailerLoop_line fuel 0 line rest [] [] hl10]
      simp only [trimSpace_line _ hne hlh hll, hie, Bool.false_eq_true, if_false, hlp, List.isEmpty_nil, if_true]
    cases sg with
    | true =>
      simp only [if_true]
      have e : line ++ crlf ++ (tsPrefix ++ tsig ++ crlf) ++ crlf = line ++ crlf ++ (tsPrefix ++ tsig ++ crlf ++ crlf) := by
        simp [List.append_assoc]
      rw [e, lineStep, sigLine, readTrailerLoop_end _ _ _ _ (by decide)]
    | false =>
      simp only [Bool.false_eq_true, if_false, List.append_nil]
      rw [lineStep, readTrailerLoop_end _ _ _ _ (by decide)]


/-- a frame whose parts can be written on lines: non-empty chunks below 2^63 bytes, signatures
without line breaks, a checksum line / trailer signature without outer white space -/
structure FrameWF (f : Frame) : Prop where
  chunks : ∀ c ∈ f.chunks, c.1 ≠ [] ∧ c.1.length < 9223372036854775808 ∧ noCRLF c.2
  final : noCRLF f.finalSig
  line : LineOK f.trailerLine
  tsig : SigOK f.trailerSignature

theorem render_eq (sg ht : Bool) (f : Frame) :
    render sg ht f = f.chunks.flatMap (renderChunk sg) ++
      (chunkHeader sg 0 f.finalSig ++ crlf ++
        (if ht then trailerTail sg f.trailerLine f.trailerSignature else crlf)) := by
  unfold render chunkHeader trailerTail tsPrefix
  rw [toHexNat_zero]
  cases ht <;> simp [List.append_assoc]

theorem decodeLoop_chunks (P : Params) (sg : Bool) (hmode : sg = true ∨ P.skipValidation = true)
    (chunks : List (Bytes × Bytes))
    (wf : ∀ c ∈ chunks, c.1 ≠ [] ∧ c.1.length < 9223372036854775808 ∧ noCRLF c.2)
    (k : Nat) (prev acc tail : Bytes) :
    decodeLoop P (chunks.length + k) prev acc (chunks.flatMap (renderChunk sg) ++ tail) =
      match checkChunks P prev acc chunks with
      | .error e => .error e
      | .ok (pv, ac) => decodeLoop P k pv ac tail := by
  induction chunks generalizing prev acc with
  | nil => simp [checkChunks]
  | cons c t ih =>
    obtain ⟨d, s⟩ := c
    obtain ⟨h1, h2, h3⟩ := wf (d, s) (by simp)
    have e : (List.length ((d, s) :: t) + k) = (t.length + k) + 1 := by simp; omega
    rw [e, List.flatMap_cons, List.append_assoc, decodeLoop_chunk P sg _ prev acc d s _ h1 h2 h3 hmode]
    simp only [checkChunks]
    split
    · rfl
    · exact ih (fun c hc => wf c (by simp [hc])) _ _

theorem finish_tail (P : Params) (sg : Bool) (hts : P.trailerSigned = true → sg = true) (pv acc : Bytes)
    (line tsig : Bytes) (hl : LineOK line) (ht : SigOK tsig) :
    finish P pv acc (if P.hasTrailer then trailerTail sg line tsig else crlf) =
      if P.hasTrailer then
        if P.trailerSigned && tsig != trailerSig P pv line then .error .sigMismatch
        else match validateTrailerChecksum P acc line with
          | .error e => .error e
          | .ok () => .ok acc
      else .ok acc := by
  unfold finish
  cases hh : P.hasTrailer with
  | false => simp
  | true =>
    simp only [if_true, readTrailerSection_tail sg line tsig hl ht]
    cases hs : P.trailerSigned with
    | false =>
      simp only [Bool.false_and, Bool.false_eq_true, if_false]
      cases validateTrailerChecksum P acc line <;> rfl
    | true =>
      simp only [hts hs, if_true, Bool.true_and]
      cases validateTrailerChecksum P acc line <;> rfl

/-- **The Go reader, run on a rendered frame, performs exactly the frame-level validation.** -/
theorem decode_render (P : Params) (sg : Bool) (f : Frame) (wf : FrameWF f)
    (hmode : sg = true ∨ P.skipValidation = true) (hts : P.trailerSigned = true → sg = true) :
    decode P (render sg P.hasTrailer f) = check P f := by
  unfold decode
  rw [render_eq]
  -- enough fuel: one unit per chunk, one for the final chunk
  have hlen : f.chunks.length + 1 ≤ (f.chunks.flatMap (renderChunk sg) ++
      (chunkHeader sg 0 f.finalSig ++ crlf ++
        (if P.hasTrailer then trailerTail sg f.trailerLine f.trailerSignature else crlf))).length := by
    have h1 : ∀ l : List (Bytes × Bytes), l.length ≤ (l.flatMap (renderChunk sg)).length := by
      intro l
      induction l with
      | nil => simp
      | cons c t ih =>
        simp only [List.flatMap_cons, List.length_append, List.length_cons]
        have : 1 ≤ (renderChunk sg c).length := by
          simp [renderChunk, crlf]; omega
        omega
    have h2 : 1 ≤ (chunkHeader sg 0 f.finalSig ++ crlf ++
        (if P.hasTrailer then trailerTail sg f.trailerLine f.trailerSignature else crlf)).length := by
      simp [crlf]; omega
    simp only [List.length_append] at h2 ⊢
    have := h1 f.chunks
    omega
  generalize hw : (f.chunks.flatMap (renderChunk sg) ++
      (chunkHeader sg 0 f.finalSig ++ crlf ++
        (if P.hasTrailer then trailerTail sg f.trailerLine f.trailerSignature else crlf))) = wire at hlen ⊢
  obtain ⟨k, hk⟩ : ∃ k, wire.length + 1 = f.chunks.length + (k + 1) :=
    ⟨wire.length - f.chunks.length, by omega⟩
  rw [hk, ← hw]
  rw [decodeLoop_chunks P sg hmode f.chunks wf.chunks]
  unfold check
  cases hc : checkChunks P P.seed [] f.chunks with
  | error e => rfl
  | ok r =>
    obtain ⟨pv, ac⟩ := r
    simp only
    rw [decodeLoop_final P sg k pv ac f.finalSig _ wf.final hmode]
    split
    · rfl
    · rw [finish_tail P sg hts _ _ _ _ wf.line wf.tsig]
      cases validateTrailerChecksum P ac f.trailerLine <;> rfl


def hexLFactsB (c : UInt8) : Bool :=
  !isCRLF (hexNibbleL (c >>> 4)) && !isCRLF (hexNibbleL (c &&& 15)) &&
  !isSpaceByte (hexNibbleL (c >>> 4)) && !isSpaceByte (hexNibbleL (c &&& 15))

set_option maxRecDepth 100000 in
theorem hexLFactsB_all : ∀ c : UInt8, hexLFactsB c = true := by
  apply forall_uint8
  decide

theorem hexL_bytes (s : Bytes) : ∀ b ∈ hexL s, isCRLF b = false ∧ isSpaceByte b = false := by
  induction s with
  | nil => simp [hexL]
  | cons c t ih =>
    have h := hexLFactsB_all c
    simp only [hexLFactsB, Bool.and_eq_true, Bool.not_eq_true'] at h
    intro b hb
    simp only [hexL, List.mem_cons] at hb
    rcases hb with rfl | rfl | hb
    · exact ⟨h.1.1.1, h.1.2⟩
    · exact ⟨h.1.1.2, h.2⟩
    · exact ih b hb

theorem headOK_of_nospace (s : Bytes) (h : ∀ b ∈ s, isSpaceByte b = false) : headOK s = true := by
  cases s with
  | nil => rfl
  | cons c t => simp [headOK, h c (by simp)]

theorem lastOK_of_nospace (s : Bytes) (h : ∀ b ∈ s, isSpaceByte b = false) : lastOK s = true := by
  unfold lastOK
  cases hl : s.getLast? with
  | none => rfl
  | some c =>
    have : c ∈ s := List.mem_of_getLast? hl
    simp [h c this]

theorem signature_SigOK (c : Crypto) (k m : Bytes) : SigOK (signature c k m) := by
  unfold signature
  refine ⟨fun b hb => (hexL_bytes _ b hb).1, headOK_of_nospace _ fun b hb => (hexL_bytes _ b hb).2,
    lastOK_of_nospace _ fun b hb => (hexL_bytes _ b hb).2⟩

theorem SigOK_nil : SigOK [] := ⟨fun _ h => by simp at h, rfl, rfl⟩

theorem signChain_spec (P : Params) (prev : Bytes) (ds : List Bytes) :
    (signChain P prev ds).1.map (·.1) = ds ∧ ∀ c ∈ (signChain P prev ds).1, SigOK c.2 := by
  induction ds generalizing prev with
  | nil => simp [signChain]
  | cons d t ih =>
    simp only [signChain, List.map_cons, List.mem_cons]
    refine ⟨by rw [(ih _).1], ?_⟩
    intro c hc
    rcases hc with rfl | hc
    · exact signature_SigOK _ _ _
    · exact (ih _).2 c hc

/-- what the encoder needs from the parameters so that its output is line-structured -/
structure EncodeOK (P : Params) : Prop where
  trailer : TrailerOK P
  nameHead : headOK P.trailerName = true
  name10 : (10 : UInt8) ∉ P.trailerName
  notSigLine : ∀ v, cutPrefix tsPrefix (P.trailerName ++ 58 :: v) = none
  cksumText : ∀ f, P.cksum = some f → ∀ p, (10 : UInt8) ∉ f p ∧ lastOK (f p) = true

theorem checksumLine_OK (P : Params) (ok : EncodeOK P) (payload : Bytes) : LineOK (checksumLine P payload) := by
  unfold checksumLine
  cases hc : P.cksum with
  | none => exact Or.inl rfl
  | some f =>
    simp only
    split
    · right
      obtain ⟨h10, hl⟩ := ok.cksumText f hc payload
      refine ⟨?_, ?_, ?_, ok.notSigLine _⟩
      · intro hm
        rcases List.mem_append.1 hm with hm | hm
        · exact ok.name10 hm
        · rcases List.mem_cons.1 hm with hm | hm
          · revert hm; decide
          · exact h10 hm
      · rw [headOK_append]
        split
        · rfl
        · exact ok.nameHead
      · rw [lastOK_append]
        simp only [List.isEmpty_cons, Bool.false_eq_true, if_false]
        have : (58 : UInt8) :: f payload = [58] ++ f payload := rfl
        rw [this, lastOK_append]
        split
        · decide
        · exact hl
    · exact Or.inl rfl

theorem frameOf_WF (P : Params) (ok : EncodeOK P) (payload : Bytes) (hlen : payload.length < 9223372036854775808)
    (sizes : List Nat) : FrameWF (frameOf P payload sizes) := by
  have hdata : ∀ d ∈ splitSizes sizes payload, d ≠ [] ∧ d.length < 9223372036854775808 := by
    intro d hd
    exact ⟨splitSizes_nonempty sizes payload d hd, Nat.lt_of_le_of_lt (splitSizes_length_le sizes payload d hd) hlen⟩
  unfold frameOf
  cases hs : P.skipValidation with
  | true =>
    simp only [if_true]
    refine ⟨?_, SigOK_nil.1, checksumLine_OK P ok payload, SigOK_nil⟩
    intro c hc
    obtain ⟨d, hd, rfl⟩ := List.mem_map.1 hc
    exact ⟨(hdata d hd).1, (hdata d hd).2, SigOK_nil.1⟩
  | false =>
    simp only [Bool.false_eq_true, if_false]
    obtain ⟨hm, hsig⟩ := signChain_spec P P.seed (splitSizes sizes payload)
    refine ⟨?_, (signature_SigOK _ _ _).1, checksumLine_OK P ok payload, ?_⟩
    · intro c hc
      have hd : c.1 ∈ splitSizes sizes payload := by
        rw [← hm]; exact List.mem_map.2 ⟨c, hc, rfl⟩
      exact ⟨(hdata _ hd).1, (hdata _ hd).2, (hsig c hc).1⟩
    · split
      · exact signature_SigOK _ _ _
      · exact SigOK_nil

/-- **decode_encode.** For every payload below 2^63 bytes, every chunking and every one of the
four streaming modes, the Go reader returns exactly the payload the encoder framed. -/
theorem decode_encode (P : Params) (ok : EncodeOK P) (payload : Bytes)
    (hlen : payload.length < 9223372036854775808) (sizes : List Nat) :
    decode P (encode P payload sizes) = .ok payload := by
  unfold encode
  rw [decode_render P (!P.skipValidation) _ (frameOf_WF P ok payload hlen sizes)]
  · exact check_frameOf P ok.trailer payload sizes
  · cases P.skipValidation <;> simp
  · intro ht
    cases hs : P.skipValidation with
    | false => rfl
    | true => rw [ok.trailer.modes hs] at ht; contradiction

theorem checkChunks_skip (P : Params) (hs : P.skipValidation = true) (prev acc : Bytes) (l : List (Bytes × Bytes)) :
    checkChunks P prev acc l = .ok (prev, acc ++ (l.map (·.1)).flatten) := by
  induction l generalizing acc with
  | nil => simp [checkChunks]
  | cons c t ih =>
    obtain ⟨d, s⟩ := c
    simp only [checkChunks, hs, Bool.not_true, Bool.false_and, Bool.false_eq_true, if_false, if_true]
    rw [ih]; simp

/-- **A framing-only decoder recovers the payload of every conforming upload**, signed or not —
this is what the configuration without credentials needs (and lacks in the unchanged tree). -/
theorem framingOnly_decode_encode (P : Params) (ok : EncodeOK P) (payload : Bytes)
    (hlen : payload.length < 9223372036854775808) (sizes : List Nat) :
    decode (framingOnly P) (encode P payload sizes) = .ok payload := by
  unfold encode
  have hwf := frameOf_WF P ok payload hlen sizes
  have e : (framingOnly P).hasTrailer = P.hasTrailer := rfl
  rw [← e, decode_render (framingOnly P) (!P.skipValidation) _ hwf (Or.inr rfl) (by intro h; cases h)]
  unfold check
  rw [checkChunks_skip (framingOnly P) rfl]
  have hdatas : ((frameOf P payload sizes).chunks.map (·.1)).flatten = payload := by
    unfold frameOf
    cases hs : P.skipValidation with
    | true => simp [List.map_map, Function.comp_def, flatten_splitSizes]
    | false =>
      simp only [Bool.false_eq_true, if_false]
      rw [(signChain_spec P P.seed _).1, flatten_splitSizes]
  simp only [List.nil_append, hdatas]
  have hline : (frameOf P payload sizes).trailerLine = checksumLine P payload := by
    unfold frameOf; cases P.skipValidation <;> rfl
  simp only [show (framingOnly P).skipValidation = true from rfl, Bool.not_true, Bool.false_and,
    Bool.false_eq_true, if_false, show (framingOnly P).trailerSigned = false from rfl, e, hline]
  cases hh : P.hasTrailer with
  | false => simp
  | true =>
    simp only [if_true]
    have ok' : TrailerOK (framingOnly P) :=
      ⟨ok.trailer.name, ok.trailer.value, ok.trailer.supported, fun _ => rfl⟩
    have := validate_own_line (framingOnly P) ok' payload hh
    have hcl : checksumLine (framingOnly P) payload = checksumLine P payload := rfl
    rw [hcl] at this
    rw [this]


/-- the framed body is always longer than the payload it carries -/
theorem encode_longer (P : Params) (payload : Bytes) (sizes : List Nat) :
    payload.length < (encode P payload sizes).length := by
  unfold encode
  rw [render_eq]
  have hdatas : ((frameOf P payload sizes).chunks.map (·.1)).flatten = payload := by
    unfold frameOf
    cases hs : P.skipValidation with
    | true => simp [List.map_map, Function.comp_def, flatten_splitSizes]
    | false =>
      simp only [Bool.false_eq_true, if_false]
      rw [(signChain_spec P P.seed _).1, flatten_splitSizes]
  have h1 : ∀ (sg : Bool) (l : List (Bytes × Bytes)),
      ((l.map (·.1)).flatten).length ≤ (l.flatMap (renderChunk sg)).length := by
    intro sg l
    induction l with
    | nil => simp
    | cons c t ih =>
      simp only [List.map_cons, List.flatten_cons, List.flatMap_cons, List.length_append]
      have : c.1.length ≤ (renderChunk sg c).length := by simp [renderChunk]; omega
      omega
  have := h1 (!P.skipValidation) (frameOf P payload sizes).chunks
  rw [hdatas] at this
  simp only [List.length_append, crlf, List.length_cons, List.length_nil] at this ⊢
  omega

/-- `hexL` of a non-empty string is non-empty -/
theorem hexL_ne_nil (s : Bytes) (h : s ≠ []) : hexL s ≠ [] := by
  cases s with
  | nil => exact absurd rfl h
  | cons c t => simp [hexL]

/-- **A signed-trailer upload whose trailer section carries no (recognisable) signature line is
refused**: an empty signature is never the trailer signature (a MAC tag is not empty). -/
theorem finish_without_trailer_signature (P : Params) (ht : P.hasTrailer = true) (hts : P.trailerSigned = true)
    (hmac : ∀ k m, P.c.hmac k m ≠ []) (prev payload rest : Bytes)
    (hno : (readTrailerSection rest).2 = []) :
    finish P prev payload rest = .error .sigMismatch := by
  unfold finish
  simp only [ht, if_true, hts, Bool.true_and]
  have hne : (readTrailerSection rest).2 != trailerSig P prev (readTrailerSection rest).1 := by
    rw [hno]
    simp only [bne_iff_ne, ne_eq]
    intro e
    exact hexL_ne_nil _ (hmac _ _) e.symm
  simp [hne]

end Pithos.Chunked
