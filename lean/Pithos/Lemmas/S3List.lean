/-
Listings of the storage model agree with reads: `sortBy` is a permutation, so a listing shows
exactly the rows it selects — no entry lost, none duplicated.
-/
import Pithos.Lemmas.S3EditStep

namespace Pithos.S3

theorem insertSorted_perm {α : Type} (lt : α → α → Bool) (x : α) : ∀ (l : List α), (insertSorted lt x l).Perm (x :: l)
  | [] => List.Perm.refl _
  | y :: ys => by
    unfold insertSorted
    split
    · exact List.Perm.refl _
    · exact ((insertSorted_perm lt x ys).cons y).trans (List.Perm.swap x y ys)

theorem sortBy_perm {α : Type} (lt : α → α → Bool) : ∀ (l : List α), (sortBy lt l).Perm l
  | [] => List.Perm.refl _
  | x :: xs => by
    show (insertSorted lt x (sortBy lt xs)).Perm (x :: xs)
    exact (insertSorted_perm lt x _).trans ((sortBy_perm lt xs).cons x)

theorem mem_sortBy {α : Type} (lt : α → α → Bool) (l : List α) (a : α) : a ∈ sortBy lt l ↔ a ∈ l :=
  (sortBy_perm lt l).mem_iff

/-- The rows a plain listing shows: current, not a delete marker. -/
def listed (bk : Bucket) : List Row := bk.rows.filter fun r => r.latest && !r.dm

theorem list_out {q : Quirks} {s : State} {b : String} {bk : Bucket} (hfb : findBucket s b = some bk) :
    (step q s (.list b)).2 = .listing ((sortBy (fun a b => a.key < b.key) (listed bk)).map
      fun r => (r.key, r.size, r.etag, r.cls)) := by
  have hfb' : findBucket { s with clock := s.clock + 1 } b = some bk := hfb
  simp [step, stepT, hfb', listed]

theorem filter_latest_keys_nodup : ∀ (rows : List Row), (∀ k, lc rows k ≤ 1) →
    ((rows.filter fun r => r.latest && !r.dm).map (·.key)).Nodup
  | [], _ => by simp
  | a :: t, hone => by
    have hone' : ∀ k, lc t k ≤ 1 := by
      intro k
      have := hone k
      unfold lc at this ⊢
      rw [List.countP_cons] at this
      omega
    have ih := filter_latest_keys_nodup t hone'
    rw [List.filter_cons]
    split
    · rename_i ha
      rw [List.map_cons, List.nodup_cons]
      refine ⟨?_, ih⟩
      intro hmem
      obtain ⟨x, hx, hxk⟩ := List.mem_map.1 hmem
      have hx' := List.mem_filter.1 hx
      have h2 := hone a.key
      unfold lc at h2
      rw [List.countP_cons] at h2
      have hpa : (a.key == a.key && a.latest) = true := by
        have : a.latest = true := by
          have := ha; simp only [Bool.and_eq_true] at this; exact this.1
        simp [this]
      have hpos : 0 < t.countP (fun r => r.key == a.key && r.latest) := by
        rw [List.countP_pos_iff]
        refine ⟨x, hx'.1, ?_⟩
        have : x.latest = true := by
          have := hx'.2; simp only [Bool.and_eq_true] at this; exact this.1
        simp [hxk, this]
      simp only [hpa, if_true] at h2
      omega
    · exact ih

/-- With at most one latest row per key, the listed rows have pairwise distinct keys. -/
theorem listed_keys_nodup {n : Nat} {bk : Bucket} (hb : RowsInv n bk.rows) : ((listed bk).map (·.key)).Nodup :=
  filter_latest_keys_nodup bk.rows hb.one

end Pithos.S3
