/-
Helper lemmas for C34: `splitStar`, `wildcardMatch` and the spec's `glob`. Core Lean only.
-/
import Pithos.Model.Cors
import Pithos.Spec.Cors

namespace Pithos.Cors
open Pithos.Ascii Pithos.Cors.Spec

/-! ### splitStar -/

theorem splitStar_none {p : List Char} : splitStar p = none ↔ '*' ∉ p := by
  induction p with
  | nil => simp [splitStar]
  | cons c p ih =>
    by_cases hc : c = '*'
    · subst hc; simp [splitStar]
    · have hb : (c == '*') = false := by simpa using hc
      have hne : ¬ '*' = c := fun h => hc h.symm
      simp only [splitStar, hb, List.mem_cons, hne, false_or]
      cases hs : splitStar p with
      | none => simpa [hs] using ih
      | some x => simp [hs] at ih ⊢; exact ih

theorem splitStar_some {p pre suf : List Char} :
    splitStar p = some (pre, suf) ↔ p = pre ++ '*' :: suf ∧ '*' ∉ pre := by
  induction p generalizing pre with
  | nil => simp [splitStar]
  | cons c p ih =>
    by_cases hc : c = '*'
    · subst hc
      simp only [splitStar, beq_self_eq_true, if_true, Option.some.injEq, Prod.mk.injEq]
      constructor
      · rintro ⟨rfl, rfl⟩; simp
      · rintro ⟨h, hn⟩
        cases pre with
        | nil => simp at h; exact ⟨rfl, h⟩
        | cons d pre' =>
          simp only [List.cons_append, List.cons.injEq] at h
          exact absurd (by rw [← h.1]; simp) hn
    · have hb : (c == '*') = false := by simpa using hc
      simp only [splitStar, hb]
      cases hs : splitStar p with
      | none =>
        simp only [Bool.false_eq_true, if_false, reduceCtorEq, false_iff]
        rintro ⟨h, -⟩
        have hmem : '*' ∉ p := splitStar_none.1 hs
        cases pre with
        | nil => simp at h; exact absurd h.1 hc
        | cons d pre' =>
          simp only [List.cons_append, List.cons.injEq] at h
          exact absurd (by rw [h.2]; simp) hmem
      | some x =>
        obtain ⟨pre0, suf0⟩ := x
        have ih0 := (ih (pre := pre0)).1
        simp only [Bool.false_eq_true, if_false, Option.some.injEq, Prod.mk.injEq]
        constructor
        · rintro ⟨rfl, rfl⟩
          have := (ih (pre := pre0) |>.1) (by rw [hs])
          refine ⟨by rw [this.1]; simp, ?_⟩
          simp only [List.mem_cons, not_or]
          exact ⟨fun h => hc h.symm, this.2⟩
        · rintro ⟨h, hn⟩
          cases pre with
          | nil => simp at h; exact absurd h.1 hc
          | cons d pre' =>
            simp only [List.cons_append, List.cons.injEq] at h
            simp only [List.mem_cons, not_or] at hn
            have := (ih (pre := pre')).2 ⟨h.2, hn.2⟩
            rw [hs] at this
            simp only [Option.some.injEq, Prod.mk.injEq] at this
            exact ⟨by rw [h.1, this.1], this.2⟩

/-! ### wildcardMatch -/

/-- What `wildcardMatch` computes, for every pattern: the first `*` is a wildcard, the text after
it a literal suffix. -/
theorem wildcardMatch_iff (p v : List Char) :
    wildcardMatch p v = true ↔
      ('*' ∉ p ∧ v = p) ∨
      (∃ pre suf m, p = pre ++ '*' :: suf ∧ '*' ∉ pre ∧ v = pre ++ m ++ suf) := by
  unfold wildcardMatch
  cases hs : splitStar p with
  | none =>
    have hn := splitStar_none.1 hs
    simp only [beq_iff_eq]
    constructor
    · intro h; exact Or.inl ⟨hn, h.symm⟩
    · rintro (⟨_, h⟩ | ⟨pre, suf, m, hp, _, _⟩)
      · exact h.symm
      · exact absurd (by rw [hp]; simp) hn
  | some x =>
    obtain ⟨pre, suf⟩ := x
    obtain ⟨hp, hnp⟩ := splitStar_some.1 hs
    simp only
    constructor
    · intro h
      split at h
      · exact absurd h (by simp)
      · rename_i hlen
        simp only [Bool.and_eq_true, List.isPrefixOf_iff_prefix, List.isSuffixOf_iff_suffix] at h
        obtain ⟨⟨t, ht⟩, hsuf⟩ := h
        have hlen' : suf.length ≤ t.length := by
          have : v.length = pre.length + t.length := by rw [← ht]; simp
          omega
        have hsuf' : suf <:+ t :=
          List.suffix_of_suffix_length_le (ht ▸ hsuf) (List.suffix_append pre t) hlen'
        obtain ⟨m, hm⟩ := hsuf'
        exact Or.inr ⟨pre, suf, m, hp, hnp, by rw [← ht, ← hm, List.append_assoc]⟩
    · rintro (⟨hn, _⟩ | ⟨pre', suf', m, hp', hnp', hv⟩)
      · exact absurd (by rw [hp]; simp) hn
      · have := splitStar_some.2 ⟨hp', hnp'⟩
        rw [hs] at this
        simp only [Option.some.injEq, Prod.mk.injEq] at this
        obtain ⟨rfl, rfl⟩ := this
        have hlen : ¬ v.length < pre.length + suf.length := by rw [hv]; simp only [List.length_append]; omega
        simp only [hlen, if_false, Bool.and_eq_true, List.isPrefixOf_iff_prefix,
          List.isSuffixOf_iff_suffix]
        exact ⟨⟨m ++ suf, by rw [hv, List.append_assoc]⟩, ⟨pre ++ m, by rw [hv]⟩⟩

/-! ### glob -/

theorem glob_nil (v : List Char) : glob [] v = true ↔ v = [] := by
  simp [glob]

theorem glob_star_iff (q w : List Char) :
    glob ('*' :: q) w = true ↔ ∃ k, k ≤ w.length ∧ glob q (w.drop k) = true := by
  simp only [glob, beq_self_eq_true, if_true, List.any_eq_true, List.mem_range]
  constructor
  · rintro ⟨k, hk, h⟩; exact ⟨k, by omega, h⟩
  · rintro ⟨k, hk, h⟩; exact ⟨k, by omega, h⟩

theorem glob_char (c : Char) (hc : c ≠ '*') (q : List Char) (d : Char) (w : List Char) :
    glob (c :: q) (d :: w) = (c == d && glob q w) := by
  have hb : (c == '*') = false := by simpa using hc
  simp [glob, hb]

theorem glob_char_nil (c : Char) (hc : c ≠ '*') (q : List Char) : glob (c :: q) [] = false := by
  have hb : (c == '*') = false := by simpa using hc
  simp [glob, hb]

/-- A star-free prefix is matched literally. -/
theorem glob_lit_prefix (pre q w : List Char) (h : '*' ∉ pre) :
    glob (pre ++ q) (pre ++ w) = glob q w := by
  induction pre with
  | nil => rfl
  | cons c pre ih =>
    simp only [List.mem_cons, not_or] at h
    have hc : c ≠ '*' := fun e => h.1 e.symm
    simp [glob_char c hc, ih h.2]

theorem glob_star_intro (q w m : List Char) (h : glob q w = true) :
    glob ('*' :: q) (m ++ w) = true :=
  (glob_star_iff q (m ++ w)).2 ⟨m.length, by simp, by simpa using h⟩

theorem glob_refl (q : List Char) : glob q q = true := by
  induction q with
  | nil => simp [glob]
  | cons c q ih =>
    by_cases hc : c = '*'
    · subst hc
      exact (glob_star_iff q ('*' :: q)).2 ⟨1, by simp, by simpa using ih⟩
    · simp [glob_char c hc, ih]

/-- The code never matches more than the documented wildcard reading (any number of stars). -/
theorem glob_of_wildcardMatch (p v : List Char) (h : wildcardMatch p v = true) :
    glob p v = true := by
  rcases (wildcardMatch_iff p v).1 h with ⟨_, rfl⟩ | ⟨pre, suf, m, rfl, hn, rfl⟩
  · exact glob_refl _
  · rw [List.append_assoc, glob_lit_prefix pre _ _ hn]
    exact glob_star_intro suf suf m (glob_refl suf)

/-- A star-free pattern matches only itself. -/
theorem glob_lit (q w : List Char) (h : '*' ∉ q) : glob q w = true ↔ w = q := by
  induction q generalizing w with
  | nil => simpa using glob_nil w
  | cons c q ih =>
    simp only [List.mem_cons, not_or] at h
    have hc : c ≠ '*' := fun e => h.1 e.symm
    cases w with
    | nil => simp [glob_char_nil c hc]
    | cons d w =>
      simp only [glob_char c hc, Bool.and_eq_true, beq_iff_eq, ih w h.2, List.cons.injEq]
      constructor
      · rintro ⟨rfl, rfl⟩; exact ⟨rfl, rfl⟩
      · rintro ⟨rfl, rfl⟩; exact ⟨rfl, rfl⟩

theorem glob_lit_prefix_inv (pre q v : List Char) (hn : '*' ∉ pre)
    (h : glob (pre ++ q) v = true) : ∃ w, v = pre ++ w ∧ glob q w = true := by
  induction pre generalizing v with
  | nil => exact ⟨v, rfl, h⟩
  | cons c pre ih =>
    simp only [List.mem_cons, not_or] at hn
    have hc : c ≠ '*' := fun e => hn.1 e.symm
    cases v with
    | nil => simp [glob_char_nil c hc] at h
    | cons d v =>
      simp only [List.cons_append, glob_char c hc, Bool.and_eq_true, beq_iff_eq] at h
      obtain ⟨w, hw, hg⟩ := ih v hn.2 h.2
      exact ⟨w, by rw [h.1, hw]; rfl, hg⟩

/-- For a pattern with at most one star the code's matcher IS the documented one. -/
theorem wildcardMatch_eq_glob_of_one_star (p v : List Char) (h1 : p.count '*' ≤ 1) :
    wildcardMatch p v = glob p v := by
  apply Bool.eq_iff_iff.2
  constructor
  · exact glob_of_wildcardMatch p v
  · intro hg
    apply (wildcardMatch_iff p v).2
    cases hs : splitStar p with
    | none =>
      have hn := splitStar_none.1 hs
      exact Or.inl ⟨hn, (glob_lit p v hn).1 hg⟩
    | some x =>
      obtain ⟨pre, suf⟩ := x
      obtain ⟨hp, hnp⟩ := splitStar_some.1 hs
      have hns : '*' ∉ suf := by
        intro hm
        have : p.count '*' ≥ 2 := by
          rw [hp, List.count_append, List.count_cons_self]
          have := List.count_pos_iff.2 hm
          omega
        omega
      rw [hp] at hg
      obtain ⟨w, hw, hg'⟩ := glob_lit_prefix_inv pre _ v hnp hg
      obtain ⟨k, _, hk⟩ := (glob_star_iff suf w).1 hg'
      have hd := (glob_lit suf _ hns).1 hk
      refine Or.inr ⟨pre, suf, w.take k, hp, hnp, ?_⟩
      rw [hw, List.append_assoc, ← hd, List.take_append_drop]

end Pithos.Cors
