/-
Helper lemmas for C04: the digest-level code model (`Pithos.Model.ObjectChecksums`) refines the
byte-level specification (`Pithos.Spec.ObjectChecksums`). Core Lean only.
-/
import Pithos.Spec.ObjectChecksums
import Pithos.Lemmas.Checksum


set_option linter.unusedSimpArgs false  -- `cases … <;> simp […]`: an argument is used in some branches only
namespace Pithos.ObjSums
open Pithos.Checksum

/-- The part row the code stores for a part with bytes `b`. -/
abbrev pm (H : Hashes) (b : Bytes) : PartMeta := (digestsOf H b).partMeta

/-! ### association lists under `map` -/

theorem lookup_map {α β : Type} (f : α → β) (k : Nat) (l : List (Nat × α)) :
    lookup k (l.map fun p => (p.1, f p.2)) = (lookup k l).map f := by
  induction l with
  | nil => rfl
  | cons a t ih =>
    simp only [List.map_cons, lookup]
    split <;> simp [ih]

theorem remove_map {α β : Type} (f : α → β) (k : Nat) (l : List (Nat × α)) :
    remove k (l.map fun p => (p.1, f p.2)) = (remove k l).map fun p => (p.1, f p.2) := by
  simp [remove, List.filter_map, Function.comp_def]

theorem setKey_map {α β : Type} (f : α → β) (k : Nat) (v : α) (l : List (Nat × α)) :
    setKey k (f v) (l.map fun p => (p.1, f p.2)) = (setKey k v l).map fun p => (p.1, f p.2) := by
  simp [setKey, remove_map]

theorem insertPart_map (H : Hashes) (n : Nat) (b : Bytes) (l : List (Nat × Bytes)) :
    insertPart n (pm H b) (l.map fun p => (p.1, pm H p.2))
      = (insertBody n b l).map fun p => (p.1, pm H p.2) := by
  induction l with
  | nil => rfl
  | cons a t ih =>
    simp only [List.map_cons, insertPart, insertBody]
    split
    · rfl
    · split
      · rfl
      · simp [ih]

theorem contiguous_map (H : Hashes) (i : Nat) (l : List (Nat × Bytes)) :
    contiguousFrom i (l.map fun p => (p.1, pm H p.2)) = contiguousBodies i l := by
  induction l generalizing i with
  | nil => rfl
  | cons a t ih => simp [contiguousFrom, contiguousBodies, ih]

theorem sum_sizes (H : Hashes) (bs : List Bytes) :
    ((bs.map (pm H)).map (·.size)).sum = bs.flatten.length := by
  induction bs with
  | nil => rfl
  | cons b t ih =>
    simp only [List.map_cons, List.sum_cons, List.flatten_cons, List.length_append, ih]
    rfl

/-! ### FULL_OBJECT: folding `CombineCrc*` over the part list -/

/-- The loop body of `foldFull`. -/
def fullStep (comb : Bytes → Bytes → Nat → Bytes) (sel : PartMeta → Option Bytes)
    (acc : Option Bytes × Bool) (p : PartMeta) : Option Bytes × Bool :=
  match sel p with
  | some d => (match acc.1 with
      | none => some d
      | some c => some (comb c d p.size), acc.2)
  | none => (acc.1, true)

theorem foldFull_eq (comb : Bytes → Bytes → Nat → Bytes) (sel : PartMeta → Option Bytes)
    (parts : List PartMeta) :
    foldFull comb sel parts
      = (if (parts.foldl (fullStep comb sel) (none, false)).2 then none
         else (parts.foldl (fullStep comb sel) (none, false)).1) := rfl

/-- Invariant of the loop: after the parts `pre` (non-empty), the accumulator is the CRC of their
concatenation; it stays so over any further parts — any sizes, any count. -/
theorem foldl_combine_acc {n : Nat} (H : Hashes) (p : Params n)
    (comb : Bytes → Bytes → Nat → Bytes) (sel : PartMeta → Option Bytes)
    (hc : ∀ a b : Bytes, comb (sumBE p a) (sumBE p b) b.length = sumBE p (a ++ b))
    (hsel : ∀ b : Bytes, sel (pm H b) = some (sumBE p b))
    (bs : List Bytes) (pre : Bytes) :
    (bs.map (pm H)).foldl (fullStep comb sel) (some (sumBE p pre), false)
      = (some (sumBE p (pre ++ bs.flatten)), false) := by
  induction bs generalizing pre with
  | nil => simp
  | cons b t ih =>
    simp only [List.map_cons, List.foldl_cons, List.flatten_cons]
    have h1 : fullStep comb sel (some (sumBE p pre), false) (pm H b)
        = (some (sumBE p (pre ++ b)), false) := by
      simp only [fullStep, hsel]
      have : (pm H b).size = b.length := rfl
      rw [this, hc]
    rw [h1, ih, List.append_assoc]

/-- **foldl_combine_eq_crc_concat.** Folding the combine function over the CRCs and sizes of any
non-empty list of parts yields the CRC of the concatenation of the parts. -/
theorem foldl_combine_eq_crc_concat {n : Nat} (H : Hashes) (p : Params n)
    (comb : Bytes → Bytes → Nat → Bytes) (sel : PartMeta → Option Bytes)
    (hc : ∀ a b : Bytes, comb (sumBE p a) (sumBE p b) b.length = sumBE p (a ++ b))
    (hsel : ∀ b : Bytes, sel (pm H b) = some (sumBE p b))
    (bs : List Bytes) :
    foldFull comb sel (bs.map (pm H)) = if bs.isEmpty then none else some (sumBE p bs.flatten) := by
  rw [foldFull_eq]
  cases bs with
  | nil => rfl
  | cons b t =>
    simp only [List.map_cons, List.foldl_cons]
    have h1 : fullStep comb sel (none, false) (pm H b) = (some (sumBE p b), false) := by
      simp only [fullStep, hsel]
    rw [h1, foldl_combine_acc H p comb sel hc hsel]
    simp

theorem comb32_ok (a b : Bytes) :
    comb32 (sumBE crc32IEEE a) (sumBE crc32IEEE b) b.length = sumBE crc32IEEE (a ++ b) := by
  simp [comb32, combineCrc32_sumBE]

theorem comb32c_ok (a b : Bytes) :
    comb32c (sumBE crc32C a) (sumBE crc32C b) b.length = sumBE crc32C (a ++ b) := by
  simp [comb32c, combineCrc32c_sumBE]

theorem comb64_ok (a b : Bytes) :
    comb64 (sumBE crc64NVME a) (sumBE crc64NVME b) b.length = sumBE crc64NVME (a ++ b) := by
  simp [comb64, combineCrc64Nvme_sumBE]

/-! ### COMPOSITE -/

theorem foldComposite_pm (H : Hashes) (hash : Bytes → Bytes) (sel : PartMeta → Option Bytes)
    (dig : Bytes → Bytes) (hsel : ∀ b : Bytes, sel (pm H b) = some (dig b)) (bs : List Bytes) :
    foldComposite hash sel (bs.map (pm H)) = some ⟨hash (bs.flatMap dig), some bs.length⟩ := by
  unfold foldComposite
  have hall : (bs.map (pm H)).all (fun p => (sel p).isSome) = true := by
    simp [List.all_eq_true, hsel]
  have hfm : ((bs.map (pm H)).flatMap fun p => (sel p).getD []) = bs.flatMap dig := by
    induction bs with
    | nil => rfl
    | cons b t ih => simp [List.flatMap_cons, hsel, ih]
  simp [hall, hfm]

theorem flatMap_etag (H : Hashes) (bs : List Bytes) :
    (bs.map (pm H)).flatMap (·.etag) = bs.flatMap H.md5 := by
  induction bs with
  | nil => rfl
  | cons b t ih => simp only [List.map_cons, List.flatMap_cons, ih]; rfl

/-- `CalculateMultipartChecksums` on the stored rows of the parts = the spec values of the
assembled object. -/
theorem calculateMultipart_pm (H : Hashes) (bs : List Bytes) (ct : CType) (ob : Bool) :
    calculateMultipart H (bs.map (pm H)) ct = specVals H ⟨bs, kindOf ct, ob⟩ := by
  cases ct with
  | composite =>
    simp only [calculateMultipart, specVals, kindOf, etagOfParts, flatMap_etag, List.length_map]
    rw [foldComposite_pm H _ (·.crc32) (sumBE crc32IEEE) (fun _ => rfl),
        foldComposite_pm H _ (·.crc32c) (sumBE crc32C) (fun _ => rfl),
        foldComposite_pm H _ (·.sha1) H.sha1 (fun _ => rfl),
        foldComposite_pm H _ (·.sha256) H.sha256 (fun _ => rfl)]
  | fullObject =>
    simp only [calculateMultipart, specVals, kindOf, etagOfParts, flatMap_etag, List.length_map]
    rw [foldl_combine_eq_crc_concat H crc32IEEE comb32 (·.crc32) comb32_ok (fun _ => rfl),
        foldl_combine_eq_crc_concat H crc32C comb32c (·.crc32c) comb32c_ok (fun _ => rfl),
        foldl_combine_eq_crc_concat H crc64NVME comb64 (·.crc64) comb64_ok (fun _ => rfl)]
    cases bs <;> simp [GObj.content]

/-! ### AppendObject: only ETag and size of each part row are used -/

def stripRow (p : PartMeta) : PartMeta :=
  { etag := p.etag, crc32 := none, crc32c := none, crc64 := none, sha1 := none, sha256 := none, size := p.size }

theorem append_etag (H : Hashes) (bs : List Bytes) :
    (calculateMultipart H ((bs.map (pm H)).map stripRow) .fullObject).etag = some (etagOfParts H bs) := by
  simp only [calculateMultipart, etagOfParts, List.length_map]
  have : ((bs.map (pm H)).map stripRow).flatMap (·.etag) = bs.flatMap H.md5 := by
    induction bs with
    | nil => rfl
    | cons b t ih => simp only [List.map_cons, List.flatMap_cons, ih]; rfl
  rw [this]

/-! ### UploadPartCopy: the wholly covered source part -/

theorem slice_mid (pre b post : Bytes) :
    slice (pre ++ (b ++ post)) pre.length (pre.length + b.length) = b := by
  simp [slice]

theorem findCovered_pm (H : Hashes) (bs : List Bytes) (start stop : Nat) (pre : Bytes) (p : PartMeta)
    (h : findCovered start stop pre.length (bs.map (pm H)) = some p) :
    p = pm H (slice (pre ++ bs.flatten) start stop) := by
  induction bs generalizing pre with
  | nil => simp [findCovered] at h
  | cons b t ih =>
    simp only [List.map_cons, findCovered] at h
    split at h
    · next hc =>
      have hsz : (pm H b).size = b.length := rfl
      rw [hsz] at hc
      obtain ⟨h1, h2⟩ := hc
      subst h1; subst h2
      simp only [List.flatten_cons]
      rw [slice_mid]
      exact (Option.some.inj h).symm
    · have hsz : (pm H b).size = b.length := rfl
      rw [hsz] at h
      have := ih (pre ++ b) (by simpa using h)
      simpa [List.append_assoc] using this

/-! ### the refinement, one request at a time -/

theorem lookup_objects (H : Hashes) (g : GState) (k : Nat) :
    lookup k (absState H g).objects = (lookup k g.objects).map (absObj H) := by
  simp only [absState]; exact lookup_map (absObj H) k g.objects

theorem lookup_uploads (H : Hashes) (g : GState) (k : Nat) :
    lookup k (absState H g).uploads = (lookup k g.uploads).map (absUpload H) := by
  simp only [absState]; exact lookup_map (absUpload H) k g.uploads

theorem abs_setObject (H : Hashes) (g : GState) (k : Nat) (o : GObj) :
    ({ absState H g with objects := setKey k (absObj H o) (absState H g).objects } : State)
      = absState H { g with objects := setKey k o g.objects } := by
  simp only [absState]; rw [setKey_map (absObj H)]

theorem abs_setUpload (H : Hashes) (g : GState) (k : Nat) (u : GUpload) :
    ({ absState H g with uploads := setKey k (absUpload H u) (absState H g).uploads } : State)
      = absState H { g with uploads := setKey k u g.uploads } := by
  simp only [absState]; rw [setKey_map (absUpload H)]

theorem single_vals (H : Hashes) (body : Bytes) :
    specVals H ⟨[body], .single, false⟩ = (digestsOf H body).values := by
  simp [specVals, GObj.content]

theorem absObj_single (H : Hashes) (body : Bytes) :
    absObj H ⟨[body], .single, false⟩ =
      { vals := (digestsOf H body).values, ctype := .fullObject, size := (digestsOf H body).size,
        parts := [(digestsOf H body).partMeta], oneBased := false } := by
  simp [absObj, single_vals, specCType, GObj.content, digestsOf]

theorem step_put (H : Hashes) (strict : Bool) (g : GState) (key : Nat) (body : Bytes)
    (input : Option Input) :
    step H strict (absState H g) (.put key (digestsOf H body) input)
      = (absState H (gstep H strict g (.put key body input)).1, (gstep H strict g (.put key body input)).2) := by
  simp only [step, gstep, single_vals]
  split
  · rfl
  · rw [← absObj_single, abs_setObject]

theorem step_uploadPart (H : Hashes) (strict : Bool) (g : GState) (uid n : Nat) (body : Bytes)
    (input : Option Input) :
    step H strict (absState H g) (.uploadPart uid n (digestsOf H body) input)
      = (absState H (gstep H strict g (.uploadPart uid n body input)).1,
         (gstep H strict g (.uploadPart uid n body input)).2) := by
  simp only [step, gstep, lookup_uploads]
  cases hu : lookup uid g.uploads with
  | none => rfl
  | some u =>
    simp only [Option.map_some]
    split
    · rfl
    · have e : ({ absUpload H u with parts := insertPart n (digestsOf H body).partMeta (absUpload H u).parts } : Upload)
          = absUpload H { u with parts := insertBody n body u.parts } := by
        simp only [absUpload]; rw [← insertPart_map]
      rw [e, abs_setUpload]

theorem step_create (H : Hashes) (strict : Bool) (g : GState) (uid key : Nat) (ct : CType) :
    step H strict (absState H g) (.create uid key ct)
      = (absState H (gstep H strict g (.create uid key ct)).1, (gstep H strict g (.create uid key ct)).2) := by
  simp only [step, gstep]
  have e : ({ key := key, ctype := ct, parts := [] } : Upload) = absUpload H ⟨key, ct, []⟩ := rfl
  rw [e, abs_setUpload]

theorem specCType_kindOf (bs : List Bytes) (ct : CType) (ob : Bool) : specCType ⟨bs, kindOf ct, ob⟩ = ct := by
  cases ct <;> rfl

theorem step_complete (H : Hashes) (strict : Bool) (g : GState) (uid : Nat) (input : Option Input) :
    step H strict (absState H g) (.complete uid input)
      = (absState H (gstep H strict g (.complete uid input)).1, (gstep H strict g (.complete uid input)).2) := by
  simp only [step, gstep, lookup_uploads]
  cases hu : lookup uid g.uploads with
  | none => rfl
  | some u =>
    simp only [Option.map_some]
    have hparts : (absUpload H u).parts.map (·.2) = (u.parts.map (·.2)).map (pm H) := by
      simp [absUpload, List.map_map, Function.comp_def]
    have hcont : contiguousFrom 1 (absUpload H u).parts = contiguousBodies 1 u.parts := contiguous_map H 1 u.parts
    have hct : (absUpload H u).ctype = u.ctype := rfl
    have hkey : (absUpload H u).key = u.key := rfl
    rw [hparts, hcont, hct, hkey, calculateMultipart_pm H _ _ true]
    split
    · rfl
    · split
      · rfl
      · have e : ({ vals := specVals H ⟨u.parts.map (·.2), kindOf u.ctype, true⟩, ctype := u.ctype,
                    size := (((u.parts.map (·.2)).map (pm H)).map (·.size)).sum,
                    parts := (u.parts.map (·.2)).map (pm H), oneBased := true } : Obj)
            = absObj H ⟨u.parts.map (·.2), kindOf u.ctype, true⟩ := by
          simp only [absObj, sum_sizes, specCType_kindOf, GObj.content]
        rw [e]
        simp only [absState]
        rw [setKey_map (absObj H), remove_map (absUpload H)]

theorem step_head (H : Hashes) (strict : Bool) (g : GState) (key : Nat) :
    step H strict (absState H g) (.head key)
      = (absState H (gstep H strict g (.head key)).1, (gstep H strict g (.head key)).2) := by
  simp only [step, gstep, lookup_objects]
  cases lookup key g.objects <;> rfl

theorem step_delete (H : Hashes) (strict : Bool) (g : GState) (key : Nat) :
    step H strict (absState H g) (.delete key)
      = (absState H (gstep H strict g (.delete key)).1, (gstep H strict g (.delete key)).2) := by
  simp only [step, gstep, absState]
  rw [remove_map (absObj H)]

theorem step_copy (H : Hashes) (strict : Bool) (g : GState) (src dst : Nat) :
    step H strict (absState H g) (.copy src dst)
      = (absState H (gstep H strict g (.copy src dst)).1, (gstep H strict g (.copy src dst)).2) := by
  simp only [step, gstep, lookup_objects]
  cases lookup src g.objects with
  | none => rfl
  | some so =>
    simp only [Option.map_some]
    have e : ({ absObj H so with oneBased := false } : Obj) = absObj H { so with oneBased := false } := rfl
    rw [e, abs_setObject]
    rfl

theorem step_copyRange (H : Hashes) (strict : Bool) (g : GState) (src dst : Nat) (body : Bytes) :
    step H strict (absState H g) (.copyRange src dst (digestsOf H body))
      = (match lookup src g.objects with
         | none => (absState H g, .err .noSuchKey)
         | some _ => (absState H { g with objects := setKey dst ⟨[body], .single, false⟩ g.objects },
                      .ok { etag := (specVals H ⟨[body], .single, false⟩).etag } none none)) := by
  simp only [step, lookup_objects]
  cases lookup src g.objects with
  | none => rfl
  | some so =>
    simp only [Option.map_some]
    rw [← absObj_single, abs_setObject, single_vals]

/-- The object row `AppendObject` writes. -/
def appendedRow (H : Hashes) (oldParts : List Bytes) (body : Bytes) : Obj :=
  { vals := { etag := (calculateMultipart H
      (List.map stripRow (oldParts.map (pm H) ++ [(digestsOf H body).partMeta])) CType.fullObject).etag },
    ctype := CType.fullObject,
    size := oldParts.flatten.length + (digestsOf H body).size,
    parts := oldParts.map (pm H) ++ [(digestsOf H body).partMeta] }

theorem append_core (H : Hashes) (g : GState) (key : Nat) (body : Bytes) (oldParts : List Bytes) :
    (({ absState H g with objects := setKey key (appendedRow H oldParts body) (absState H g).objects } : State),
      Out.ok { etag := (appendedRow H oldParts body).vals.etag } none (some (appendedRow H oldParts body).size))
    = (absState H { g with objects := setKey key (GObj.mk (oldParts ++ [body]) .appended false) g.objects },
       Out.ok { etag := (specVals H ⟨oldParts ++ [body], .appended, false⟩).etag } none
        (some (GObj.content ⟨oldParts ++ [body], .appended, false⟩).length)) := by
  unfold appendedRow
  have hall : oldParts.map (pm H) ++ [(digestsOf H body).partMeta] = (oldParts ++ [body]).map (pm H) := by
    simp
  rw [hall]
  rw [append_etag H (oldParts ++ [body])]
  have hsz : oldParts.flatten.length + (digestsOf H body).size = (oldParts ++ [body]).flatten.length := by
    simp [digestsOf]
  rw [hsz]
  have e : ({ vals := { etag := some (etagOfParts H (oldParts ++ [body])) }, ctype := .fullObject,
              size := (oldParts ++ [body]).flatten.length, parts := (oldParts ++ [body]).map (pm H) } : Obj)
        = absObj H ⟨oldParts ++ [body], .appended, false⟩ := by
    simp [absObj, specVals, specCType, GObj.content]
  rw [e]
  have := abs_setObject H g key ⟨oldParts ++ [body], .appended, false⟩
  simp only [] at this
  rw [this]
  simp [specVals, GObj.content, absObj]

theorem step_append (H : Hashes) (strict : Bool) (g : GState) (key : Nat) (body : Bytes)
    (input : Option Input) :
    step H strict (absState H g) (.append key (digestsOf H body) input)
      = (absState H (gstep H strict g (.append key body input)).1, (gstep H strict g (.append key body input)).2) := by
  simp only [step, gstep, lookup_objects]
  split
  · rfl
  · have hv : (absState H g).versioned = g.versioned := rfl
    rw [hv]
    cases lookup key g.objects with
    | none =>
      have hc : appendCollides g.versioned (Option.map (absObj H) none) = gAppendCollides g.versioned none := rfl
      rw [hc]
      split
      · rfl
      · exact append_core H g key body []
    | some o =>
      have hc : appendCollides g.versioned (Option.map (absObj H) (some o)) = gAppendCollides g.versioned (some o) := by
        simp [appendCollides, gAppendCollides, absObj]
      rw [hc]
      split
      · rfl
      · exact append_core H g key body o.parts

theorem covered_or_streamed (H : Hashes) (so : GObj) (start stop : Nat) :
    chooseCopiedRow (findCovered start stop 0 (absObj H so).parts)
      (digestsOf H (slice so.content start stop)).partMeta
    = pm H (slice so.content start stop) := by
  unfold chooseCopiedRow
  cases hf : findCovered start stop 0 (absObj H so).parts with
  | none => rfl
  | some p =>
    have := findCovered_pm H so.parts start stop [] p (by simpa [absObj] using hf)
    simp only [List.nil_append] at this
    subst this
    rfl

theorem step_uploadPartCopy (H : Hashes) (strict : Bool) (g : GState) (uid n src start stop : Nat) :
    step H strict (absState H g) (lower H g (.uploadPartCopy uid n src start stop))
      = (absState H (gstep H strict g (.uploadPartCopy uid n src start stop)).1,
         (gstep H strict g (.uploadPartCopy uid n src start stop)).2) := by
  simp only [step, gstep, lower, lookup_objects, lookup_uploads]
  cases lookup src g.objects with
  | none => rfl
  | some so =>
    simp only [Option.map_some]
    have hsz : (absObj H so).size = so.content.length := rfl
    rw [hsz]
    split
    · rfl
    · cases lookup uid g.uploads with
      | none => rfl
      | some u =>
        simp only [Option.map_some]
        rw [covered_or_streamed]
        have e : ({ absUpload H u with parts := insertPart n (pm H (slice so.content start stop)) (absUpload H u).parts } : Upload)
            = absUpload H { u with parts := insertBody n (slice so.content start stop) u.parts } := by
          simp only [absUpload]; rw [← insertPart_map]
        rw [e, abs_setUpload]
        rfl

/-- **step_refines.** For every request: the code model on the stored (digest-level) state does
exactly what the byte-level specification does — same answer, and the new stored state is the
abstraction of the new contents. -/
theorem step_refines (H : Hashes) (strict : Bool) (g : GState) (bop : BOp) :
    step H strict (absState H g) (lower H g bop)
      = (absState H (gstep H strict g bop).1, (gstep H strict g bop).2) := by
  cases bop with
  | put key body input => exact step_put H strict g key body input
  | create uid key ct => exact step_create H strict g uid key ct
  | uploadPart uid n body input => exact step_uploadPart H strict g uid n body input
  | uploadPartCopy uid n src start stop => exact step_uploadPartCopy H strict g uid n src start stop
  | complete uid input => exact step_complete H strict g uid input
  | append key body input => exact step_append H strict g key body input
  | copy src dst => exact step_copy H strict g src dst
  | copyRange src dst start stop =>
    simp only [lower, gstep]
    rw [step_copyRange]
    cases lookup src g.objects <;> rfl
  | head key => exact step_head H strict g key
  | delete key => exact step_delete H strict g key

/-- **run_refines.** Over every history, starting from any stored state that abstracts some
contents, code model and specification give the same answers, request by request. -/
theorem run_refines (H : Hashes) (strict : Bool) (g : GState) (ops : List BOp) :
    ∀ p ∈ runBoth H strict (absState H g, g) ops, p.1 = p.2 := by
  induction ops generalizing g with
  | nil => intro p hp; cases hp
  | cons bop rest ih =>
    intro p hp
    simp only [runBoth, List.mem_cons] at hp
    rcases hp with hp | hp
    · rw [hp, step_refines]
    · rw [step_refines] at hp
      exact ih _ p hp

/-- The stored state after any history is the abstraction of the contents after that history. -/
theorem final_abs (H : Hashes) (strict : Bool) (g : GState) (ops : List BOp) :
    (finalBoth H strict (absState H g, g) ops).1 = absState H (finalBoth H strict (absState H g, g) ops).2 := by
  induction ops generalizing g with
  | nil => rfl
  | cons bop rest ih =>
    simp only [finalBoth]
    rw [step_refines]
    exact ih _

/-! ### ValidateChecksums -/

/-- Some supplied value differs from what was computed (or nothing was computed for it). -/
def Disagrees (i : Input) (cv : Values) : Prop :=
  (∃ x, i.etag = some x ∧ cv.etag ≠ some x) ∨ (∃ x, i.crc32 = some x ∧ cv.crc32 ≠ some x) ∨
  (∃ x, i.crc32c = some x ∧ cv.crc32c ≠ some x) ∨ (∃ x, i.crc64 = some x ∧ cv.crc64 ≠ some x) ∨
  (∃ x, i.sha1 = some x ∧ cv.sha1 ≠ some x) ∨ (∃ x, i.sha256 = some x ∧ cv.sha256 ≠ some x)

/-- Some supplied value differs from a value that WAS computed. -/
def DisagreesComputed (i : Input) (cv : Values) : Prop :=
  (∃ x y, i.etag = some x ∧ cv.etag = some y ∧ x ≠ y) ∨ (∃ x y, i.crc32 = some x ∧ cv.crc32 = some y ∧ x ≠ y) ∨
  (∃ x y, i.crc32c = some x ∧ cv.crc32c = some y ∧ x ≠ y) ∨ (∃ x y, i.crc64 = some x ∧ cv.crc64 = some y ∧ x ≠ y) ∨
  (∃ x y, i.sha1 = some x ∧ cv.sha1 = some y ∧ x ≠ y) ∨ (∃ x y, i.sha256 = some x ∧ cv.sha256 = some y ∧ x ≠ y)

theorem fieldBad_strict (x : Sum) (c : Option Sum) (h : c ≠ some x) : fieldBad true (some x) c = true := by
  cases c with
  | none => rfl
  | some y =>
    simp only [fieldBad, bne_iff_ne, ne_eq]
    intro e; exact h (by rw [e])

theorem fieldBad_computed (strict : Bool) (x y : Sum) (h : x ≠ y) : fieldBad strict (some x) (some y) = true := by
  simp [fieldBad, h]

theorem badDigest_strict (i : Input) (cv : Values) (h : Disagrees i cv) : badDigest true (some i) cv = true := by
  simp only [badDigest, Bool.or_eq_true]
  rcases h with ⟨x, h1, h2⟩ | ⟨x, h1, h2⟩ | ⟨x, h1, h2⟩ | ⟨x, h1, h2⟩ | ⟨x, h1, h2⟩ | ⟨x, h1, h2⟩ <;>
    rw [h1] <;> have := fieldBad_strict x _ h2 <;> simp [this]

theorem badDigest_computed (strict : Bool) (i : Input) (cv : Values) (h : DisagreesComputed i cv) :
    badDigest strict (some i) cv = true := by
  simp only [badDigest, Bool.or_eq_true]
  rcases h with ⟨x, y, h1, h2, h3⟩ | ⟨x, y, h1, h2, h3⟩ | ⟨x, y, h1, h2, h3⟩ | ⟨x, y, h1, h2, h3⟩ |
      ⟨x, y, h1, h2, h3⟩ | ⟨x, y, h1, h2, h3⟩ <;>
    rw [h1, h2] <;> have := fieldBad_computed strict x y h3 <;> simp [this]

/-- For a streamed body every value is computed, so any disagreement is with a computed value. -/
theorem disagrees_streamed (i : Input) (d : Digests) (h : Disagrees i d.values) :
    DisagreesComputed i d.values := by
  unfold Disagrees at h
  unfold DisagreesComputed
  simp only [Digests.values] at h ⊢
  rcases h with ⟨x, h1, h2⟩ | ⟨x, h1, h2⟩ | ⟨x, h1, h2⟩ | ⟨x, h1, h2⟩ | ⟨x, h1, h2⟩ | ⟨x, h1, h2⟩
  · exact Or.inl ⟨x, _, h1, rfl, fun e => h2 (by rw [e])⟩
  · exact Or.inr (Or.inl ⟨x, _, h1, rfl, fun e => h2 (by rw [e])⟩)
  · exact Or.inr (Or.inr (Or.inl ⟨x, _, h1, rfl, fun e => h2 (by rw [e])⟩))
  · exact Or.inr (Or.inr (Or.inr (Or.inl ⟨x, _, h1, rfl, fun e => h2 (by rw [e])⟩)))
  · exact Or.inr (Or.inr (Or.inr (Or.inr (Or.inl ⟨x, _, h1, rfl, fun e => h2 (by rw [e])⟩))))
  · exact Or.inr (Or.inr (Or.inr (Or.inr (Or.inr ⟨x, _, h1, rfl, fun e => h2 (by rw [e])⟩))))

end Pithos.ObjSums
