/-
C01 frame: an operation that does not write key `k` of bucket `b` (PutObject, DeleteObject,
CopyObject-to, AppendObject, CompleteMultipartUpload on exactly (b, k)) leaves the current version
of (b, k) — key, version id, delete-marker flag, parts (content, size), ETag, content type and user
metadata — exactly as it was. Tagging and storage-class transitions of (b, k) itself are included:
they change tags/class/Last-Modified only.
-/
import Pithos.Lemmas.S3FrozenStep

namespace Pithos.S3

/-- The fields of a row that a GET of the current version shows and that only a write may change. -/
structure CV where
  key   : String
  vid   : Option Nat
  dm    : Bool
  parts : List Bytes
  etag  : ETag
  ct    : Option String
  md    : Pairs

def cv (r : Row) : CV := ⟨r.key, r.vid, r.dm, r.parts, r.etag, r.ct, r.md⟩
def pk (k : String) (r : Row) : Bool := r.key == k && r.latest
def CVr (k : String) (rows : List Row) : Option CV := (rows.find? (pk k)).map cv

theorem latestRow_pk (bk : Bucket) (k : String) : latestRow bk k = bk.rows.find? (pk k) := rfl

/-- The current version of (b, k) as a read sees it (none: no bucket, or no current row). -/
def curView (s : State) (b k : String) : Option CV := (findBucket s b).bind fun bk => CVr k bk.rows

theorem cvr_repl (k : String) : ∀ (rows : List Row) (y : Row),
    (∀ x ∈ rows, x.rowId = y.rowId → pk k x = pk k y ∧ (pk k y = true → cv x = cv y)) →
    CVr k (repl rows y) = CVr k rows
  | [], _, _ => rfl
  | a :: t, y, h => by
    have ih := cvr_repl k t y (fun x hx => h x (List.mem_cons_of_mem _ hx))
    unfold CVr at *
    by_cases ha : a.rowId = y.rowId
    · obtain ⟨h1, h2⟩ := h a (by simp) ha
      have hhead : repl (a :: t) y = y :: repl t y := by simp [repl, ha]
      rw [hhead, List.find?_cons, List.find?_cons]
      cases hp : pk k y with
      | true =>
        have hpa : pk k a = true := h1.trans hp
        simp only [hpa, Option.map_some, h2 hp]
      | false =>
        have hpa : pk k a = false := h1.trans hp
        simp only [hpa]
        exact ih
    · have hhead : repl (a :: t) y = a :: repl t y := by simp [repl, ha]
      rw [hhead, List.find?_cons, List.find?_cons]
      cases hp : pk k a with
      | true => rfl
      | false => exact ih

theorem cvr_filter (k : String) (f : Row → Bool) : ∀ (rows : List Row),
    (∀ x ∈ rows, f x = false → pk k x = false) → CVr k (rows.filter f) = CVr k rows
  | [], _ => rfl
  | a :: t, h => by
    have ih := cvr_filter k f t (fun x hx => h x (List.mem_cons_of_mem _ hx))
    unfold CVr at *
    rw [List.filter_cons]
    cases hf : f a with
    | true =>
      simp only [if_true, List.find?_cons]
      cases hp : pk k a with
      | true => rfl
      | false => exact ih
    | false =>
      have hpa : pk k a = false := h a (by simp) hf
      simp only [Bool.false_eq_true, if_false, List.find?_cons, hpa]
      exact ih

theorem cvr_append (k : String) (rows : List Row) (y : Row) (h : pk k y = false) : CVr k (rows ++ [y]) = CVr k rows := by
  unfold CVr
  rw [List.find?_append]
  cases hfd : rows.find? (pk k) with
  | some r => rfl
  | none => simp [List.find?_cons, h]

theorem pk_false_of_key {k : String} {r : Row} (h : r.key ≠ k) : pk k r = false := by
  unfold pk; simp [h]

/-- Replacing (by id) a row of another key by a row of another key. -/
theorem cvr_repl_other {k : String} {rows : List Row} {n : Nat} {c y : Row} (hb : RowsInv n rows) (hc : c ∈ rows)
    (hid : y.rowId = c.rowId) (hck : c.key ≠ k) (hyk : y.key ≠ k) : CVr k (repl rows y) = CVr k rows := by
  apply cvr_repl
  intro x hx hxy
  have : x = c := eq_of_id_eq hb.nodup hx hc (hxy.trans hid)
  subst this
  rw [pk_false_of_key hck, pk_false_of_key hyk]
  exact ⟨rfl, fun h => by cases h⟩

/-- Replacing (by id) a row by one with the same key, latest flag and content view. -/
theorem cvr_repl_same {k : String} {rows : List Row} {n : Nat} {c y : Row} (hb : RowsInv n rows) (hc : c ∈ rows)
    (hid : y.rowId = c.rowId) (hkey : y.key = c.key) (hl : y.latest = c.latest) (hcv : cv c = cv y) :
    CVr k (repl rows y) = CVr k rows := by
  apply cvr_repl
  intro x hx hxy
  have : x = c := eq_of_id_eq hb.nodup hx hc (hxy.trans hid)
  subst this
  exact ⟨by unfold pk; rw [hkey, hl], fun _ => hcv⟩

end Pithos.S3
