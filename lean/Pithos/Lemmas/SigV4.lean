/-
Helper lemmas for C28/C29 (core Lean only). Byte-level facts are proved by exhaustive kernel
evaluation over the 256 bytes (`forall_uint8` + `decide`), list-level facts by induction.
-/
import Pithos.Model.Http.SigV4

namespace Pithos.SigV4

theorem forall_uint8 (P : UInt8 → Prop) (h : ∀ i : Fin 256, P (UInt8.ofNat i.val)) : ∀ c, P c := by
  intro c
  have := h ⟨c.toNat, UInt8.toNat_lt c⟩
  simpa using this

-- ---------------------------------------------------------------- bytes

def pctFactsB (c : UInt8) : Bool :=
  isHexChar (hexNibbleU (c >>> 4)) && isHexChar (hexNibbleU (c &&& 15)) &&
  upperHexChar (hexNibbleU (c >>> 4)) == hexNibbleU (c >>> 4) &&
  upperHexChar (hexNibbleU (c &&& 15)) == hexNibbleU (c &&& 15)

set_option maxRecDepth 100000 in
theorem pctFactsB_all : ∀ c : UInt8, pctFactsB c = true := by
  apply forall_uint8
  decide

theorem pct_hex (c : UInt8) :
    isHexChar (hexNibbleU (c >>> 4)) = true ∧ isHexChar (hexNibbleU (c &&& 15)) = true ∧
    upperHexChar (hexNibbleU (c >>> 4)) = hexNibbleU (c >>> 4) ∧
    upperHexChar (hexNibbleU (c &&& 15)) = hexNibbleU (c &&& 15) := by
  have h := pctFactsB_all c
  simp only [pctFactsB, Bool.and_eq_true, beq_iff_eq] at h
  exact ⟨h.1.1.1, h.1.1.2, h.1.2, h.2⟩

def keepFactsB (c : UInt8) : Bool :=
  !(isUnreserved c || c == 47) || (c != 37 && emitURIByte c == [c])

set_option maxRecDepth 100000 in
theorem keepFactsB_all : ∀ c : UInt8, keepFactsB c = true := by
  apply forall_uint8
  decide

theorem keep_facts (c : UInt8) (h : (isUnreserved c || c == 47) = true) :
    c ≠ 37 ∧ emitURIByte c = [c] := by
  have k := keepFactsB_all c
  simp only [keepFactsB, h, Bool.not_true, Bool.false_or, Bool.and_eq_true, bne_iff_ne, ne_eq,
    beq_iff_eq] at k
  exact k

-- ---------------------------------------------------------------- canonical URI

theorem canonURILoop_plain (c : UInt8) (t : Bytes) (h : c ≠ 37) :
    canonURILoop (c :: t) = emitURIByte c ++ canonURILoop t := by
  match t with
  | [] => simp [canonURILoop]
  | [a] => simp [canonURILoop]
  | a :: b :: t' => simp [canonURILoop, h]

theorem canonURILoop_pct (h1 h2 : UInt8) (t : Bytes) (hh1 : isHexChar h1 = true) (hh2 : isHexChar h2 = true) :
    canonURILoop (37 :: h1 :: h2 :: t) = 37 :: upperHexChar h1 :: upperHexChar h2 :: canonURILoop t := by
  simp [canonURILoop, hh1, hh2]

theorem sdkEscapePath_cons (c : UInt8) (t : Bytes) :
    sdkEscapePath (c :: t) = (if isUnreserved c || c == 47 then [c] else pct c) ++ sdkEscapePath t := by
  simp [sdkEscapePath]

/-- The server's canonical-URI loop leaves every path the S3 client can write unchanged. -/
theorem canonURILoop_sdkEscapePath (p : Bytes) : canonURILoop (sdkEscapePath p) = sdkEscapePath p := by
  induction p with
  | nil => simp [sdkEscapePath, canonURILoop]
  | cons c t ih =>
    rw [sdkEscapePath_cons]
    by_cases hk : (isUnreserved c || c == 47) = true
    · obtain ⟨h37, hemit⟩ := keep_facts c hk
      simp only [hk, if_true, List.singleton_append]
      rw [canonURILoop_plain c _ h37, hemit, ih]
      rfl
    · obtain ⟨a, b, u1, u2⟩ := pct_hex c
      simp only [hk, pct]
      simp only [Bool.false_eq_true, if_false, List.cons_append, List.nil_append]
      rw [canonURILoop_pct _ _ _ a b, u1, u2, ih]

-- ---------------------------------------------------------------- sorting

theorem mem_insertBy {α : Type} (le : α → α → Bool) (x y : α) (l : List α) :
    y ∈ insertBy le x l ↔ y = x ∨ y ∈ l := by
  induction l with
  | nil => simp [insertBy]
  | cons z t ih =>
    simp only [insertBy]
    split
    · simp
    · simp only [List.mem_cons, ih]
      constructor
      · rintro (h | h | h) <;> simp [h]
      · rintro (h | h | h) <;> simp [h]

theorem mem_sortBy {α : Type} (le : α → α → Bool) (y : α) (l : List α) : y ∈ sortBy le l ↔ y ∈ l := by
  induction l with
  | nil => simp [sortBy]
  | cons x t ih => simp [sortBy, mem_insertBy, ih]

theorem insertBy_map {α β : Type} (f : α → β) (le1 : α → α → Bool) (le2 : β → β → Bool) (x : α) (l : List α)
    (h : ∀ y ∈ l, le1 x y = le2 (f x) (f y)) :
    insertBy le2 (f x) (l.map f) = (insertBy le1 x l).map f := by
  induction l with
  | nil => simp [insertBy]
  | cons z t ih =>
    have hz := h z (by simp)
    simp only [List.map_cons, insertBy, ← hz]
    split
    · simp
    · simp only [List.map_cons]
      rw [ih (fun y hy => h y (by simp [hy]))]

/-- Sorting commutes with a map under which the two orders agree on the elements present. -/
theorem sortBy_map {α β : Type} (f : α → β) (le1 : α → α → Bool) (le2 : β → β → Bool) (l : List α)
    (h : ∀ a ∈ l, ∀ b ∈ l, le1 a b = le2 (f a) (f b)) :
    sortBy le2 (l.map f) = (sortBy le1 l).map f := by
  induction l with
  | nil => simp [sortBy]
  | cons x t ih =>
    simp only [List.map_cons, sortBy]
    rw [ih (fun a ha b hb => h a (by simp [ha]) b (by simp [hb]))]
    apply insertBy_map
    intro y hy
    exact h x (by simp) y (by simp [(mem_sortBy le1 y t).1 hy])

theorem filterMap_congr_mem {α β : Type} (f g : α → Option β) (l : List α) (h : ∀ x ∈ l, f x = g x) :
    l.filterMap f = l.filterMap g := by
  induction l with
  | nil => rfl
  | cons x t ih =>
    simp only [List.filterMap_cons, h x (by simp)]
    rw [ih (fun y hy => h y (by simp [hy]))]

-- ---------------------------------------------------------------- header values

/-- first byte is not white space (or the value is empty) -/
def headOK : Bytes → Bool
  | [] => true
  | c :: _ => !isSpaceByte c

/-- last byte is not white space (or the value is empty) -/
def lastOK (v : Bytes) : Bool :=
  match v.getLast? with
  | none => true
  | some c => !isSpaceByte c

theorem trimLeft_of_headOK (v : Bytes) (h : headOK v = true) : trimLeft v = v := by
  cases v with
  | nil => rfl
  | cons c t =>
    simp only [headOK, Bool.not_eq_true'] at h
    simp [trimLeft, List.dropWhile, h]

theorem trimRight_of_lastOK (v : Bytes) (h : lastOK v = true) : trimRight v = v := by
  unfold trimRight
  have : v.reverse.dropWhile isSpaceByte = v.reverse := by
    cases hr : v.reverse with
    | nil => rfl
    | cons c t =>
      have hl : v.getLast? = some c := by
        rw [← List.head?_reverse, hr]; rfl
      simp only [lastOK, hl, Bool.not_eq_true'] at h
      simp [List.dropWhile, h]
  rw [this, List.reverse_reverse]

theorem trimSpace_of_OK (v : Bytes) (h1 : headOK v = true) (h2 : lastOK v = true) : trimSpace v = v := by
  unfold trimSpace
  rw [trimLeft_of_headOK v h1, trimRight_of_lastOK v h2]

theorem headOK_ne32 (c : UInt8) (t : Bytes) (h : headOK (c :: t) = true) : (c == 32) = false := by
  simp only [headOK, isSpaceByte, Bool.not_eq_true', Bool.or_eq_false_iff] at h
  exact h.1

theorem trim32_of_OK (v : Bytes) (h1 : headOK v = true) (h2 : lastOK v = true) : trim32 v = v := by
  unfold trim32
  have a : v.dropWhile (· == 32) = v := by
    cases v with
    | nil => rfl
    | cons c t => simp [List.dropWhile, headOK_ne32 c t h1]
  rw [a]
  have : v.reverse.dropWhile (· == 32) = v.reverse := by
    cases hr : v.reverse with
    | nil => rfl
    | cons c t =>
      have hl : v.getLast? = some c := by
        rw [← List.head?_reverse, hr]; rfl
      simp only [lastOK, hl, Bool.not_eq_true', isSpaceByte, Bool.or_eq_false_iff] at h2
      simp [List.dropWhile, h2.1]
  rw [this, List.reverse_reverse]

theorem collapse_cons_cons (c d : UInt8) (t : Bytes) :
    collapse (c :: d :: t) = if c == 32 && d == 32 then collapse (d :: t) else c :: collapse (d :: t) := by
  simp [collapse]

theorem collapse_ne_nil (c : UInt8) (t : Bytes) : collapse (c :: t) ≠ [] := by
  induction t generalizing c with
  | nil => simp [collapse]
  | cons d t ih =>
    rw [collapse_cons_cons]
    split
    · exact ih d
    · simp

theorem headOK_collapse (v : Bytes) (h : headOK v = true) : headOK (collapse v) = true := by
  match v with
  | [] => simp [collapse, headOK]
  | [c] => simpa [collapse] using h
  | c :: d :: t =>
    rw [collapse_cons_cons]
    have := headOK_ne32 c _ h
    simp only [this, Bool.false_and, Bool.false_eq_true, if_false]
    simpa [headOK] using h

theorem getLast?_collapse (v : Bytes) : (collapse v).getLast? = v.getLast? := by
  match v with
  | [] => simp [collapse]
  | [c] => simp [collapse]
  | c :: d :: t =>
    rw [collapse_cons_cons]
    have ih := getLast?_collapse (d :: t)
    split
    · rw [ih]; simp [List.getLast?_cons_cons]
    · have hne := collapse_ne_nil d t
      cases hc : collapse (d :: t) with
      | nil => exact absurd hc hne
      | cons e u =>
        rw [List.getLast?_cons_cons, ← hc, ih]
        simp [List.getLast?_cons_cons]

theorem lastOK_collapse (v : Bytes) (h : lastOK v = true) : lastOK (collapse v) = true := by
  unfold lastOK at *
  rw [getLast?_collapse]; exact h

/-- what the SDK does to one header value that the transport can deliver -/
theorem sdk_value_of_OK (v : Bytes) (h1 : headOK v = true) (h2 : lastOK v = true) :
    trimSpace (stripExcess v) = collapse v := by
  unfold stripExcess
  rw [trim32_of_OK v h1 h2]
  exact trimSpace_of_OK _ (headOK_collapse v h1) (lastOK_collapse v h2)

theorem collapse_comma_cons (b : Bytes) : collapse (44 :: b) = 44 :: collapse b := by
  cases b with
  | nil => simp [collapse]
  | cons d t => rw [collapse_cons_cons]; simp

theorem collapse_append_comma (a b : Bytes) :
    collapse (a ++ 44 :: b) = collapse a ++ 44 :: collapse b := by
  match a with
  | [] => simp [collapse_comma_cons, collapse]
  | [c] =>
    show collapse (c :: 44 :: b) = _
    rw [collapse_cons_cons, collapse_comma_cons]
    simp [collapse]
  | c :: d :: t =>
    have ih := collapse_append_comma (d :: t) b
    show collapse (c :: d :: (t ++ 44 :: b)) = _
    rw [collapse_cons_cons, collapse_cons_cons]
    have e : d :: (t ++ 44 :: b) = (d :: t) ++ 44 :: b := rfl
    rw [e, ih]
    split <;> simp

theorem join_cons_cons (sep x y : Bytes) (t : List Bytes) :
    join sep (x :: y :: t) = x ++ sep ++ join sep (y :: t) := rfl

theorem collapse_join (vs : List Bytes) :
    collapse (join [44] vs) = join [44] (vs.map collapse) := by
  match vs with
  | [] => simp [join, collapse]
  | [x] => simp [join]
  | x :: y :: t =>
    have ih := collapse_join (y :: t)
    rw [join_cons_cons, List.map_cons, List.map_cons, join_cons_cons]
    have : x ++ [44] ++ join [44] (y :: t) = x ++ 44 :: join [44] (y :: t) := by simp
    rw [this, collapse_append_comma, ih]
    simp

theorem headOK_append (a b : Bytes) : headOK (a ++ b) = if a.isEmpty then headOK b else headOK a := by
  cases a <;> simp [headOK]

theorem lastOK_append (a b : Bytes) : lastOK (a ++ b) = if b.isEmpty then lastOK a else lastOK b := by
  cases b with
  | nil => simp
  | cons d t =>
    unfold lastOK
    rw [List.getLast?_append]
    cases h : (d :: t).getLast? with
    | none => simp at h
    | some x => simp

theorem join_ends_OK (vs : List Bytes) (h : ∀ v ∈ vs, headOK v = true ∧ lastOK v = true) :
    headOK (join [44] vs) = true ∧ lastOK (join [44] vs) = true := by
  match vs with
  | [] => simp [join, headOK, lastOK]
  | [x] => simpa [join] using h x (by simp)
  | x :: y :: t =>
    have ih := join_ends_OK (y :: t) (fun v hv => h v (by simp [hv]))
    have hx := h x (by simp)
    rw [join_cons_cons]
    constructor
    · rw [List.append_assoc, headOK_append]
      split
      · simp [headOK, isSpaceByte]
      · exact hx.1
    · rw [lastOK_append]
      split
      · rw [lastOK_append]; simp [lastOK, isSpaceByte]
      · exact ih.2

/-- every value the transport can deliver: no white space at either end -/
def valuesOK (vs : List Bytes) : Bool := vs.all fun v => headOK v && lastOK v

theorem valuesOK_mem {vs : List Bytes} (h : valuesOK vs = true) : ∀ v ∈ vs, headOK v = true ∧ lastOK v = true := by
  intro v hv
  have := List.all_eq_true.1 h v hv
  simpa using this

/-- With the repair, the server's canonical header value is the SDK's. -/
theorem headerValue_collapse_eq_sdk (sd : Bool) (vs : List Bytes) (h : valuesOK vs = true) :
    headerValue ⟨true, sd⟩ vs = sdkHeaderValue vs := by
  have hm := valuesOK_mem h
  have je := join_ends_OK vs hm
  simp only [headerValue, if_true]
  rw [trimSpace_of_OK _ je.1 je.2, collapse_join]
  unfold sdkHeaderValue
  congr 1
  apply List.map_congr_left
  intro v hv
  exact (sdk_value_of_OK v (hm v hv).1 (hm v hv).2).symm

/-- no value contains two spaces in a row -/
def noSpaceRuns (vs : List Bytes) : Bool := vs.all fun v => collapse v == v

/-- As the code is, the values agree when there is no run of inner spaces. -/
theorem headerValue_asIs_eq_sdk (sd : Bool) (vs : List Bytes) (h : valuesOK vs = true)
    (hr : noSpaceRuns vs = true) : headerValue ⟨false, sd⟩ vs = sdkHeaderValue vs := by
  have hm := valuesOK_mem h
  have je := join_ends_OK vs hm
  simp only [headerValue, Bool.false_eq_true, if_false]
  rw [trimSpace_of_OK _ je.1 je.2]
  unfold sdkHeaderValue
  congr 1
  have : vs.map (fun v => trimSpace (stripExcess v)) = vs.map id := by
    apply List.map_congr_left
    intro v hv
    rw [sdk_value_of_OK v (hm v hv).1 (hm v hv).2]
    have := List.all_eq_true.1 hr v hv
    simpa using this
  rw [this]; simp

end Pithos.SigV4
