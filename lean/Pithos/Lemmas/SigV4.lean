/-
Helper lemmas for C28/C29 (core Lean only). Byte-level facts are proved by exhaustive kernel
evaluation over the 256 bytes (`forall_uint8` + `decide`), list-level facts by induction.
-/
import Pithos.Model.Http.SigV4

namespace Pithos.SigV4

theorem forall_uint8 (P : UInt8 → Prop) (h : ∀ i : Fin 256, P (UInt8.ofNat i.val)) : ∀ c, P c := by
  intro c
  have := h ⟨c.toNat, UInt8.toNat_lt c⟩
  simpa using this

-- ---------------------------------------------------------------- bytes

def pctFactsB (c : UInt8) : Bool :=
  isHexChar (hexNibbleU (c >>> 4)) && isHexChar (hexNibbleU (c &&& 15)) &&
  upperHexChar (hexNibbleU (c >>> 4)) == hexNibbleU (c >>> 4) &&
  upperHexChar (hexNibbleU (c &&& 15)) == hexNibbleU (c &&& 15)

set_option maxRecDepth 100000 in
theorem pctFactsB_all : ∀ c : UInt8, pctFactsB c = true := by
  apply forall_uint8
  decide

theorem pct_hex (c : UInt8) :
    isHexChar (hexNibbleU (c >>> 4)) = true ∧ isHexChar (hexNibbleU (c &&& 15)) = true ∧
    upperHexChar (hexNibbleU (c >>> 4)) = hexNibbleU (c >>> 4) ∧
    upperHexChar (hexNibbleU (c &&& 15)) = hexNibbleU (c &&& 15) := by
  have h := pctFactsB_all c
  simp only [pctFactsB, Bool.and_eq_true, beq_iff_eq] at h
  exact ⟨h.1.1.1, h.1.1.2, h.1.2, h.2⟩

def keepFactsB (c : UInt8) : Bool :=
  !(isUnreserved c || c == 47) || (c != 37 && emitURIByte c == [c])

set_option maxRecDepth 100000 in
theorem keepFactsB_all : ∀ c : UInt8, keepFactsB c = true := by
  apply forall_uint8
  decide

theorem keep_facts (c : UInt8) (h : (isUnreserved c || c == 47) = true) :
    c ≠ 37 ∧ emitURIByte c = [c] := by
  have k := keepFactsB_all c
  simp only [keepFactsB, h, Bool.not_true, Bool.false_or, Bool.and_eq_true, bne_iff_ne, ne_eq,
    beq_iff_eq] at k
  exact k

-- ---------------------------------------------------------------- canonical URI

theorem canonURILoop_plain (c : UInt8) (t : Bytes) (h : c ≠ 37) :
    canonURILoop (c :: t) = emitURIByte c ++ canonURILoop t := by
  match t with
  | [] => simp [canonURILoop]
  | [a] => simp [canonURILoop]
  | a :: b :: t' => simp [canonURILoop, h]

theorem canonURILoop_pct (h1 h2 : UInt8) (t : Bytes) (hh1 : isHexChar h1 = true) (hh2 : isHexChar h2 = true) :
    canonURILoop (37 :: h1 :: h2 :: t) = 37 :: upperHexChar h1 :: upperHexChar h2 :: canonURILoop t := by
  simp [canonURILoop, hh1, hh2]

theorem sdkEscapePath_cons (c : UInt8) (t : Bytes) :
    sdkEscapePath (c :: t) = (if isUnreserved c || c == 47 then [c] else pct c) ++ sdkEscapePath t := by
  simp [sdkEscapePath]

/-- The server's canonical-URI loop leaves every path the S3 client can write unchanged. -/
theorem canonURILoop_sdkEscapePath (p : Bytes) : canonURILoop (sdkEscapePath p) = sdkEscapePath p := by
  induction p with
  | nil => simp [sdkEscapePath, canonURILoop]
  | cons c t ih =>
    rw [sdkEscapePath_cons]
    by_cases hk : (isUnreserved c || c == 47) = true
    · obtain ⟨h37, hemit⟩ := keep_facts c hk
      simp only [hk, if_true, List.singleton_append]
      rw [canonURILoop_plain c _ h37, hemit, ih]
      rfl
    · obtain ⟨a, b, u1, u2⟩ := pct_hex c
      simp only [hk, pct]
      simp only [Bool.false_eq_true, if_false, List.cons_append, List.nil_append]
      rw [canonURILoop_pct _ _ _ a b, u1, u2, ih]

-- ---------------------------------------------------------------- sorting

theorem mem_insertBy {α : Type} (le : α → α → Bool) (x y : α) (l : List α) :
    y ∈ insertBy le x l ↔ y = x ∨ y ∈ l := by
  induction l with
  | nil => simp [insertBy]
  | cons z t ih =>
    simp only [insertBy]
    split
    · simp
    · simp only [List.mem_cons, ih]
      constructor
      · rintro (h | h | h) <;> simp [h]
      · rintro (h | h | h) <;> simp [h]

theorem mem_sortBy {α : Type} (le : α → α → Bool) (y : α) (l : List α) : y ∈ sortBy le l ↔ y ∈ l := by
  induction l with
  | nil => simp [sortBy]
  | cons x t ih => simp [sortBy, mem_insertBy, ih]

theorem insertBy_map {α β : Type} (f : α → β) (le1 : α → α → Bool) (le2 : β → β → Bool) (x : α) (l : List α)
    (h : ∀ y ∈ l, le1 x y = le2 (f x) (f y)) :
    insertBy le2 (f x) (l.map f) = (insertBy le1 x l).map f := by
  induction l with
  | nil => simp [insertBy]
  | cons z t ih =>
    have hz := h z (by simp)
    simp only [List.map_cons, insertBy, ← hz]
    split
    · simp
    · simp only [List.map_cons]
      rw [ih (fun y hy => h y (by simp [hy]))]

/-- Sorting commutes with a map under which the two orders agree on the elements present. -/
theorem sortBy_map {α β : Type} (f : α → β) (le1 : α → α → Bool) (le2 : β → β → Bool) (l : List α)
    (h : ∀ a ∈ l, ∀ b ∈ l, le1 a b = le2 (f a) (f b)) :
    sortBy le2 (l.map f) = (sortBy le1 l).map f := by
  induction l with
  | nil => simp [sortBy]
  | cons x t ih =>
    simp only [List.map_cons, sortBy]
    rw [ih (fun a ha b hb => h a (by simp [ha]) b (by simp [hb]))]
    apply insertBy_map
    intro y hy
    exact h x (by simp) y (by simp [(mem_sortBy le1 y t).1 hy])

theorem filterMap_congr_mem {α β : Type} (f g : α → Option β) (l : List α) (h : ∀ x ∈ l, f x = g x) :
    l.filterMap f = l.filterMap g := by
  induction l with
  | nil => rfl
  | cons x t ih =>
    simp only [List.filterMap_cons, h x (by simp)]
    rw [ih (fun y hy => h y (by simp [hy]))]

-- ---------------------------------------------------------------- header values

/-- first byte is not white space (or the value is empty) -/
def headOK : Bytes → Bool
  | [] => true
  | c :: _ => !isSpaceByte c

/-- last byte is not white space (or the value is empty) -/
def lastOK (v : Bytes) : Bool :=
  match v.getLast? with
  | none => true
  | some c => !isSpaceByte c

theorem trimLeft_of_headOK (v : Bytes) (h : headOK v = true) : trimLeft v = v := by
  cases v with
  | nil => rfl
  | cons c t =>
    simp only [headOK, Bool.not_eq_true'] at h
    simp [trimLeft, List.dropWhile, h]

theorem trimRight_of_lastOK (v : Bytes) (h : lastOK v = true) : trimRight v = v := by
  unfold trimRight
  have : v.reverse.dropWhile isSpaceByte = v.reverse := by
    cases hr : v.reverse with
    | nil => rfl
    | cons c t =>
      have hl : v.getLast? = some c := by
        rw [← List.head?_reverse, hr]; rfl
      simp only [lastOK, hl, Bool.not_eq_true'] at h
      simp [List.dropWhile, h]
  rw [this, List.reverse_reverse]

theorem trimSpace_of_OK (v : Bytes) (h1 : headOK v = true) (h2 : lastOK v = true) : trimSpace v = v := by
  unfold trimSpace
  rw [trimLeft_of_headOK v h1, trimRight_of_lastOK v h2]

theorem headOK_ne32 (c : UInt8) (t : Bytes) (h : headOK (c :: t) = true) : (c == 32) = false := by
  simp only [headOK, isSpaceByte, Bool.not_eq_true', Bool.or_eq_false_iff] at h
  exact h.1

theorem trim32_of_OK (v : Bytes) (h1 : headOK v = true) (h2 : lastOK v = true) : trim32 v = v := by
  unfold trim32
  have a : v.dropWhile (· == 32) = v := by
    cases v with
    | nil => rfl
    | cons c t => simp [List.dropWhile, headOK_ne32 c t h1]
  rw [a]
  have : v.reverse.dropWhile (· == 32) = v.reverse := by
    cases hr : v.reverse with
    | nil => rfl
    | cons c t =>
      have hl : v.getLast? = some c := by
        rw [← List.head?_reverse, hr]; rfl
      simp only [lastOK, hl, Bool.not_eq_true', isSpaceByte, Bool.or_eq_false_iff] at h2
      simp [List.dropWhile, h2.1]
  rw [this, List.reverse_reverse]

theorem collapse_cons_cons (c d : UInt8) (t : Bytes) :
    collapse (c :: d :: t) = if c == 32 && d == 32 then collapse (d :: t) else c :: collapse (d :: t) := by
  simp [collapse]

theorem collapse_ne_nil (c : UInt8) (t : Bytes) : collapse (c :: t) ≠ [] := by
  induction t generalizing c with
  | nil => simp [collapse]
  | cons d t ih =>
    rw [collapse_cons_cons]
    split
    · exact ih d
    · simp

theorem headOK_collapse (v : Bytes) (h : headOK v = true) : headOK (collapse v) = true := by
  match v with
  | [] => simp [collapse, headOK]
  | [c] => simpa [collapse] using h
  | c :: d :: t =>
    rw [collapse_cons_cons]
    have := headOK_ne32 c _ h
    simp only [this, Bool.false_and, Bool.false_eq_true, if_false]
    simpa [headOK] using h

theorem getLast?_collapse (v : Bytes) : (collapse v).getLast? = v.getLast? := by
  match v with
  | [] => simp [collapse]
  | [c] => simp [collapse]
  | c :: d :: t =>
    rw [collapse_cons_cons]
    have ih := getLast?_collapse (d :: t)
    split
    · rw [ih]; simp [List.getLast?_cons_cons]
    · have hne := collapse_ne_nil d t
      cases hc : collapse (d :: t) with
      | nil => exact absurd hc hne
      | cons e u =>
        rw [List.getLast?_cons_cons, ← hc, ih]
        simp [List.getLast?_cons_cons]

theorem lastOK_collapse (v : Bytes) (h : lastOK v = true) : lastOK (collapse v) = true := by
  unfold lastOK at *
  rw [getLast?_collapse]; exact h

/-- what the SDK does to one header value that the transport can deliver -/
theorem sdk_value_of_OK (v : Bytes) (h1 : headOK v = true) (h2 : lastOK v = true) :
    trimSpace (stripExcess v) = collapse v := by
  unfold stripExcess
  rw [trim32_of_OK v h1 h2]
  exact trimSpace_of_OK _ (headOK_collapse v h1) (lastOK_collapse v h2)

theorem collapse_comma_cons (b : Bytes) : collapse (44 :: b) = 44 :: collapse b := by
  cases b with
  | nil => simp [collapse]
  | cons d t => rw [collapse_cons_cons]; simp

theorem collapse_append_comma (a b : Bytes) :
    collapse (a ++ 44 :: b) = collapse a ++ 44 :: collapse b := by
  match a with
  | [] => simp [collapse_comma_cons, collapse]
  | [c] =>
    show collapse (c :: 44 :: b) = _
    rw [collapse_cons_cons, collapse_comma_cons]
    simp [collapse]
  | c :: d :: t =>
    have ih := collapse_append_comma (d :: t) b
    show collapse (c :: d :: (t ++ 44 :: b)) = _
    rw [collapse_cons_cons, collapse_cons_cons]
    have e : d :: (t ++ 44 :: b) = (d :: t) ++ 44 :: b := rfl
    rw [e, ih]
    split <;> simp

theorem join_cons_cons (sep x y : Bytes) (t : List Bytes) :
    join sep (x :: y :: t) = x ++ sep ++ join sep (y :: t) := rfl

theorem collapse_join (vs : List Bytes) :
    collapse (join [44] vs) = join [44] (vs.map collapse) := by
  match vs with
  | [] => simp [join, collapse]
  | [x] => simp [join]
  | x :: y :: t =>
    have ih := collapse_join (y :: t)
    rw [join_cons_cons, List.map_cons, List.map_cons, join_cons_cons]
    have : x ++ [44] ++ join [44] (y :: t) = x ++ 44 :: join [44] (y :: t) := by simp
    rw [this, collapse_append_comma, ih]
    simp

theorem headOK_append (a b : Bytes) : headOK (a ++ b) = if a.isEmpty then headOK b else headOK a := by
  cases a <;> simp [headOK]

theorem lastOK_append (a b : Bytes) : lastOK (a ++ b) = if b.isEmpty then lastOK a else lastOK b := by
  cases b with
  | nil => simp
  | cons d t =>
    unfold lastOK
    rw [List.getLast?_append]
    cases h : (d :: t).getLast? with
    | none => simp at h
    | some x => simp

theorem join_ends_OK (vs : List Bytes) (h : ∀ v ∈ vs, headOK v = true ∧ lastOK v = true) :
    headOK (join [44] vs) = true ∧ lastOK (join [44] vs) = true := by
  match vs with
  | [] => simp [join, headOK, lastOK]
  | [x] => simpa [join] using h x (by simp)
  | x :: y :: t =>
    have ih := join_ends_OK (y :: t) (fun v hv => h v (by simp [hv]))
    have hx := h x (by simp)
    rw [join_cons_cons]
    constructor
    · rw [List.append_assoc, headOK_append]
      split
      · simp [headOK, isSpaceByte]
      · exact hx.1
    · rw [lastOK_append]
      split
      · rw [lastOK_append]; simp [lastOK, isSpaceByte]
      · exact ih.2

/-- every value the transport can deliver: no white space at either end -/
def valuesOK (vs : List Bytes) : Bool := vs.all fun v => headOK v && lastOK v

theorem valuesOK_mem {vs : List Bytes} (h : valuesOK vs = true) : ∀ v ∈ vs, headOK v = true ∧ lastOK v = true := by
  intro v hv
  have := List.all_eq_true.1 h v hv
  simpa using this

/-- With the repair, the server's canonical header value is the SDK's. -/
theorem headerValue_collapse_eq_sdk (sd : Bool) (vs : List Bytes) (h : valuesOK vs = true) :
    headerValue ⟨true, sd⟩ vs = sdkHeaderValue vs := by
  have hm := valuesOK_mem h
  have je := join_ends_OK vs hm
  simp only [headerValue, if_true]
  rw [trimSpace_of_OK _ je.1 je.2, collapse_join]
  unfold sdkHeaderValue
  congr 1
  apply List.map_congr_left
  intro v hv
  exact (sdk_value_of_OK v (hm v hv).1 (hm v hv).2).symm

/-- no value contains two spaces in a row -/
def noSpaceRuns (vs : List Bytes) : Bool := vs.all fun v => collapse v == v

/-- As the code is, the values agree when there is no run of inner spaces. -/
theorem headerValue_asIs_eq_sdk (sd : Bool) (vs : List Bytes) (h : valuesOK vs = true)
    (hr : noSpaceRuns vs = true) : headerValue ⟨false, sd⟩ vs = sdkHeaderValue vs := by
  have hm := valuesOK_mem h
  have je := join_ends_OK vs hm
  simp only [headerValue, Bool.false_eq_true, if_false]
  rw [trimSpace_of_OK _ je.1 je.2]
  unfold sdkHeaderValue
  congr 1
  have : vs.map (fun v => trimSpace (stripExcess v)) = vs.map id := by
    apply List.map_congr_left
    intro v hv
    rw [sdk_value_of_OK v (hm v hv).1 (hm v hv).2]
    have := List.all_eq_true.1 hr v hv
    simpa using this
  rw [this]; simp

-- ---------------------------------------------------------------- what an accepted request has passed

/-- everything `checkAuth` has established when it answers `ok` -/
structure AuthFacts (c : Crypto) (fx : Fix) (cfg : Config) (r : Req) (a : Accepted) : Prop where
  params : parseSigParams r = .ok a.params
  alg : a.params.alg = algV4
  cred : ∃ date secret,
      splitOn 47 a.params.credential = [a.accessKey, date, cfg.region, b! "s3", b! "aws4_request"] ∧
      cfg.creds.find? (fun k => k.accessKey == a.accessKey) = some ⟨a.accessKey, secret⟩ ∧
      date = a.params.timestamp.take 8 ∧
      a.scope = join [47] [date, cfg.region, b! "s3", b! "aws4_request"] ∧
      signature c (signingKey c secret date cfg.region (b! "s3") (b! "aws4_request"))
        (stringToSign c a.params.alg a.params.timestamp a.scope
          (canonicalRequest c fx r a.signed a.params.presigned)) = a.params.signature
  time : ∃ t, parseTimestamp a.params.timestamp = some t ∧ t - 900 ≤ cfg.now ∧
      cfg.now ≤ t + (a.params.expires : Int)
  signed : a.signed = parseSignedHeaders a.params.signedHeaders
  host : a.signed.contains hostKey = true
  sensitive : ∀ h ∈ r.headers, mustBeSigned (lower h.1) = true → a.signed.contains (lower h.1) = true

theorem checkAuth_ok (c : Crypto) (fx : Fix) (cfg : Config) (r : Req) (a : Accepted)
    (h : checkAuth c fx cfg r = .ok a) : AuthFacts c fx cfg r a := by
  unfold checkAuth at h
  split at h
  · contradiction
  · rename_i p hp
    split at h
    · contradiction
    · rename_i halg
      split at h
      · rename_i ak date region service request hsplit
        split at h
        · contradiction
        · rename_i hregion
          split at h
          · contradiction
          · rename_i cred hfind
            split at h
            · contradiction
            · rename_i hservice
              split at h
              · contradiction
              · rename_i hrequest
                split at h
                · contradiction
                · rename_i t ht
                  split at h
                  · contradiction
                  · rename_i hdate
                    split at h
                    · contradiction
                    · rename_i hwin
                      simp only at h
                      split at h
                      · contradiction
                      · rename_i hhost
                        split at h
                        · contradiction
                        · rename_i hsens
                          split at h
                          · contradiction
                          · rename_i hsig
                            split at h
                            · contradiction
                            · injection h with h
                              subst h
                              have halg' : p.alg = algV4 := by simpa using halg
                              have hregion' : region = cfg.region := by simpa using hregion
                              have hservice' : service = b! "s3" := by simpa using hservice
                              have hrequest' : request = b! "aws4_request" := by simpa using hrequest
                              have hdate' : date = p.timestamp.take 8 := by simpa using hdate
                              have hsig' := by simpa using hsig
                              have hak : cred.accessKey = ak := by
                                have := List.find?_some hfind
                                simpa using this
                              have hcred : cred = ⟨ak, cred.secret⟩ := by
                                cases cred; simp at hak; simp [hak]
                              subst hregion' hservice' hrequest'
                              refine ⟨hp, halg', ⟨date, cred.secret, hsplit, ?_, hdate', rfl, hsig'⟩,
                                ⟨t, ht, ?_, ?_⟩, rfl, ?_, ?_⟩
                              · rw [hfind, ← hcred]
                              · simp only [Bool.or_eq_true, decide_eq_true_eq, not_or] at hwin
                                omega
                              · simp only [Bool.or_eq_true, decide_eq_true_eq, not_or] at hwin
                                show cfg.now ≤ t + (p.expires : Int)
                                omega
                              · simpa using hhost
                              · intro hh hm hms
                                simp only [List.any_eq_true, Bool.and_eq_true, Bool.not_eq_true',
                                  not_exists, not_and] at hsens
                                have := hsens hh hm hms
                                simpa using this
      · contradiction

-- ---------------------------------------------------------------- unique decomposition of joined fields

theorem split_unique (sep : UInt8) (a a' b b' : Bytes) (ha : sep ∉ a) (ha' : sep ∉ a')
    (h : a ++ sep :: b = a' ++ sep :: b') : a = a' ∧ b = b' := by
  induction a generalizing a' with
  | nil =>
    cases a' with
    | nil => simpa using h
    | cons x t =>
      simp only [List.nil_append, List.cons_append, List.cons.injEq] at h
      exact absurd h.1 (by intro e; apply ha'; simp [e])
  | cons x t ih =>
    cases a' with
    | nil =>
      simp only [List.nil_append, List.cons_append, List.cons.injEq] at h
      exact absurd h.1 (by intro e; apply ha; simp [e])
    | cons y u =>
      simp only [List.cons_append, List.cons.injEq] at h
      have := ih u (by intro m; apply ha; simp [m]) (by intro m; apply ha'; simp [m]) h.2
      exact ⟨by rw [h.1, this.1], this.2⟩

/-- well-formed header pair of a canonical request: no newline in key or value, no colon in the key -/
def headerWF (h : Bytes × Bytes) : Prop := (10 : UInt8) ∉ h.1 ∧ (58 : UInt8) ∉ h.1 ∧ (10 : UInt8) ∉ h.2

theorem canonicalHeaders_cons (h : Bytes × Bytes) (t : List (Bytes × Bytes)) :
    canonicalHeaders (h :: t) = h.1 ++ 58 :: (h.2 ++ 10 :: canonicalHeaders t) := by
  simp [canonicalHeaders]

/-- the header block (terminated by the empty line) determines the header list and what follows -/
theorem headers_block_unique (hs hs' : List (Bytes × Bytes)) (rest rest' : Bytes)
    (w : ∀ h ∈ hs, headerWF h) (w' : ∀ h ∈ hs', headerWF h)
    (e : canonicalHeaders hs ++ 10 :: rest = canonicalHeaders hs' ++ 10 :: rest') :
    hs = hs' ∧ rest = rest' := by
  induction hs generalizing hs' with
  | nil =>
    cases hs' with
    | nil => simpa [canonicalHeaders] using e
    | cons h' t' =>
      exfalso
      rw [canonicalHeaders_cons] at e
      have hw := w' h' (by simp)
      simp only [canonicalHeaders, List.flatMap_nil, List.nil_append] at e
      cases hk : h'.1 with
      | nil => rw [hk] at e; simp at e
      | cons x u =>
        rw [hk] at e
        simp only [List.cons_append, List.cons.injEq] at e
        apply hw.1; rw [hk, ← e.1]; simp
  | cons h t ih =>
    cases hs' with
    | nil =>
      exfalso
      rw [canonicalHeaders_cons] at e
      have hw := w h (by simp)
      simp only [canonicalHeaders, List.flatMap_nil, List.nil_append] at e
      cases hk : h.1 with
      | nil => rw [hk] at e; simp at e
      | cons x u =>
        rw [hk] at e
        simp only [List.cons_append, List.cons.injEq] at e
        apply hw.1; rw [hk, e.1]; simp
    | cons h' t' =>
      rw [canonicalHeaders_cons, canonicalHeaders_cons] at e
      have hw := w h (by simp)
      have hw' := w' h' (by simp)
      simp only [List.append_assoc, List.cons_append] at e
      obtain ⟨ek, e2⟩ := split_unique 58 _ _ _ _ hw.2.1 hw'.2.1 e
      obtain ⟨ev, e3⟩ := split_unique 10 _ _ _ _ hw.2.2 hw'.2.2 e2
      obtain ⟨et, er⟩ := ih t' (fun x hx => w x (by simp [hx])) (fun x hx => w' x (by simp [hx])) e3
      refine ⟨?_, er⟩
      rw [et]
      congr 1
      exact Prod.ext ek ev

/-- well-formed canonical request: the line-structured fields contain no newline -/
structure CanonWF (k : Canon) : Prop where
  method : (10 : UInt8) ∉ k.method
  uri : (10 : UInt8) ∉ k.uri
  query : (10 : UInt8) ∉ k.query
  headers : ∀ h ∈ k.headers, headerWF h

/-- **The canonical request is an injective encoding of its components.** -/
theorem render_injective (k k' : Canon) (w : CanonWF k) (w' : CanonWF k') (e : k.render = k'.render) :
    k = k' := by
  unfold Canon.render at e
  simp only [List.append_assoc, List.singleton_append] at e
  obtain ⟨e1, e⟩ := split_unique 10 _ _ _ _ w.method w'.method e
  obtain ⟨e2, e⟩ := split_unique 10 _ _ _ _ w.uri w'.uri e
  obtain ⟨e3, e⟩ := split_unique 10 _ _ _ _ w.query w'.query e
  obtain ⟨e4, e⟩ := headers_block_unique _ _ _ _ w.headers w'.headers e
  rw [e4] at e
  have e5 := List.append_cancel_left e
  simp only [List.cons.injEq, true_and] at e5
  cases k; cases k'
  simp only at e1 e2 e3 e4 e5
  simp [e1, e2, e3, e4, e5]

-- ---------------------------------------------------------------- canonical requests are well formed

def byteFactsB (c : UInt8) : Bool :=
  hexNibbleU (c >>> 4) != 10 && hexNibbleU (c &&& 15) != 10 &&
  hexNibbleL (c >>> 4) != 10 && hexNibbleL (c &&& 15) != 10 &&
  (!isUnreserved c || c != 10) && (!isHexChar c || upperHexChar c != 10) &&
  (lowerByte c != 10 || c == 10) && (lowerByte c != 58 || c == 58)

set_option maxRecDepth 100000 in
theorem byteFactsB_all : ∀ c : UInt8, byteFactsB c = true := by
  apply forall_uint8
  decide

theorem byte_facts (c : UInt8) :
    hexNibbleU (c >>> 4) ≠ 10 ∧ hexNibbleU (c &&& 15) ≠ 10 ∧ hexNibbleL (c >>> 4) ≠ 10 ∧ hexNibbleL (c &&& 15) ≠ 10 ∧
    (isUnreserved c = true → c ≠ 10) ∧ (isHexChar c = true → upperHexChar c ≠ 10) ∧
    (lowerByte c = 10 → c = 10) ∧ (lowerByte c = 58 → c = 58) := by
  have h := byteFactsB_all c
  simp only [byteFactsB, Bool.and_eq_true, bne_iff_ne, ne_eq, Bool.or_eq_true, Bool.not_eq_true',
    beq_iff_eq] at h
  obtain ⟨⟨⟨⟨⟨⟨⟨h1, h2⟩, h3⟩, h4⟩, h5⟩, h6⟩, h7⟩, h8⟩ := h
  refine ⟨h1, h2, h3, h4, ?_, ?_, ?_, ?_⟩
  · intro hu; rcases h5 with h | h
    · rw [hu] at h; contradiction
    · exact h
  · intro hu; rcases h6 with h | h
    · rw [hu] at h; contradiction
    · exact h
  · intro hl; rcases h7 with h | h
    · exact absurd hl h
    · exact h
  · intro hl; rcases h8 with h | h
    · exact absurd hl h
    · exact h

theorem not_mem_pct (c : UInt8) : (10 : UInt8) ∉ pct c := by
  obtain ⟨a, b, _⟩ := byte_facts c
  simp only [pct, List.mem_cons, List.not_mem_nil, or_false, not_or]
  exact ⟨by decide, fun e => a e.symm, fun e => b e.symm⟩

theorem not_mem_emitURIByte (c : UInt8) : (10 : UInt8) ∉ emitURIByte c := by
  unfold emitURIByte
  split
  · simp
  · split
    · rename_i hu
      obtain ⟨_, _, _, _, h5, _⟩ := byte_facts c
      simp only [List.mem_singleton]
      exact fun e => h5 hu e.symm
    · exact not_mem_pct c

theorem not_mem_canonURILoop (p : Bytes) : (10 : UInt8) ∉ canonURILoop p := by
  match p with
  | [] => simp [canonURILoop]
  | [c] => simpa [canonURILoop] using not_mem_emitURIByte c
  | [c, d] =>
    simp only [canonURILoop, List.append_nil, List.mem_append, not_or]
    exact ⟨not_mem_emitURIByte c, not_mem_emitURIByte d⟩
  | c :: h1 :: h2 :: rest =>
    have ih1 := not_mem_canonURILoop rest
    have ih2 := not_mem_canonURILoop (h1 :: h2 :: rest)
    rw [canonURILoop]
    split
    · rename_i hc
      simp only [Bool.and_eq_true] at hc
      obtain ⟨_, _, _, _, _, a6, _⟩ := byte_facts h1
      obtain ⟨_, _, _, _, _, b6, _⟩ := byte_facts h2
      simp only [List.mem_cons, not_or]
      exact ⟨by decide, fun e => a6 hc.1.2 e.symm, fun e => b6 hc.2 e.symm, ih1⟩
    · simp only [List.mem_append, not_or]
      exact ⟨not_mem_emitURIByte c, ih2⟩

theorem not_mem_canonicalURI (p : Bytes) : (10 : UInt8) ∉ canonicalURI p := by
  unfold canonicalURI
  split
  · decide
  · exact not_mem_canonURILoop p

theorem not_mem_uriEncode (s : Bytes) : (10 : UInt8) ∉ uriEncode s := by
  unfold uriEncode
  intro h
  obtain ⟨c, _, hc⟩ := List.mem_flatMap.1 h
  split at hc
  · rename_i hu
    obtain ⟨_, _, _, _, h5, _⟩ := byte_facts c
    simp only [List.mem_singleton] at hc
    exact h5 hu hc.symm
  · exact not_mem_pct c hc

theorem mem_join (sep : Bytes) (l : List Bytes) (b : UInt8) (h : b ∈ join sep l) :
    b ∈ sep ∨ ∃ x ∈ l, b ∈ x := by
  match l with
  | [] => simp [join] at h
  | [x] => exact Or.inr ⟨x, by simp, by simpa [join] using h⟩
  | x :: y :: t =>
    rw [join_cons_cons] at h
    simp only [List.mem_append] at h
    rcases h with (h | h) | h
    · exact Or.inr ⟨x, by simp, h⟩
    · exact Or.inl h
    · rcases mem_join sep (y :: t) b h with h | ⟨z, hz, hb⟩
      · exact Or.inl h
      · exact Or.inr ⟨z, by simp [hz], hb⟩

theorem not_mem_canonicalQuery (fx : Fix) (q : List (Bytes × Bytes)) : (10 : UInt8) ∉ canonicalQuery fx q := by
  have key : ∀ ps : List (Bytes × Bytes), (∀ p ∈ ps, (10 : UInt8) ∉ p.1 ∧ (10 : UInt8) ∉ p.2) →
      (10 : UInt8) ∉ renderQuery ps := by
    intro ps hps h
    unfold renderQuery at h
    rcases mem_join _ _ _ h with h | ⟨x, hx, hb⟩
    · simp at h
    · obtain ⟨p, hp, rfl⟩ := List.mem_map.1 hx
      simp only [List.append_assoc, List.singleton_append, List.mem_append, List.mem_cons] at hb
      rcases hb with hb | hb | hb
      · exact (hps p hp).1 hb
      · simp at hb
      · exact (hps p hp).2 hb
  unfold canonicalQuery
  simp only
  split
  · apply key
    intro p hp
    obtain ⟨p0, _, rfl⟩ := List.mem_map.1 hp
    exact ⟨not_mem_uriEncode _, not_mem_uriEncode _⟩
  · apply key
    intro p hp
    have hp' := (mem_sortBy _ _ _).1 hp
    obtain ⟨p0, _, rfl⟩ := List.mem_map.1 hp'
    exact ⟨not_mem_uriEncode _, not_mem_uriEncode _⟩

theorem mem_of_mem_trimSpace (s : Bytes) (b : UInt8) (h : b ∈ trimSpace s) : b ∈ s := by
  unfold trimSpace trimRight trimLeft at h
  have h1 := List.mem_reverse.1 h
  have h2 := (List.dropWhile_sublist _).subset h1
  have h3 := List.mem_reverse.1 h2
  exact (List.dropWhile_sublist _).subset h3

theorem mem_of_mem_collapse (s : Bytes) (b : UInt8) (h : b ∈ collapse s) : b ∈ s := by
  match s with
  | [] => simp [collapse] at h
  | [c] => simpa [collapse] using h
  | c :: d :: t =>
    rw [collapse_cons_cons] at h
    split at h
    · exact List.mem_cons_of_mem _ (mem_of_mem_collapse (d :: t) b h)
    · rcases List.mem_cons.1 h with h | h
      · simp [h]
      · exact List.mem_cons_of_mem _ (mem_of_mem_collapse (d :: t) b h)

theorem not_mem_headerValue (fx : Fix) (vs : List Bytes) (h : ∀ v ∈ vs, (10 : UInt8) ∉ v) :
    (10 : UInt8) ∉ headerValue fx vs := by
  have base : (10 : UInt8) ∉ trimSpace (join [44] vs) := by
    intro hm
    rcases mem_join _ _ _ (mem_of_mem_trimSpace _ _ hm) with hj | ⟨x, hx, hb⟩
    · simp at hj
    · exact h x hx hb
  unfold headerValue
  simp only
  split
  · exact fun hm => base (mem_of_mem_collapse _ _ hm)
  · exact base

theorem not_mem_lower (b : UInt8) (hb : ∀ c, lowerByte c = b → c = b) (k : Bytes) (h : b ∉ k) : b ∉ lower k := by
  intro hm
  obtain ⟨c, hc, e⟩ := List.mem_map.1 hm
  exact h (hb c e ▸ hc)

/-- what `net/http` guarantees about a request it hands to a handler: the method and the header
names are tokens, header values and the host contain no line break -/
structure ReqWF (r : Req) : Prop where
  method : (10 : UInt8) ∉ r.method
  host : (10 : UInt8) ∉ r.host
  headers : ∀ h ∈ r.headers, (10 : UInt8) ∉ h.1 ∧ (58 : UInt8) ∉ h.1 ∧ ∀ v ∈ h.2, (10 : UInt8) ∉ v

theorem serverCanon_wf (c : Crypto) (fx : Fix) (r : Req) (S : List Bytes) (presigned : Bool) (w : ReqWF r) :
    CanonWF (serverCanon c fx r S presigned) := by
  refine ⟨w.method, not_mem_canonicalURI _, not_mem_canonicalQuery _ _, ?_⟩
  intro h hm
  simp only [serverCanon, collectSignedHeaders] at hm
  have hm' := (mem_sortBy _ _ _).1 hm
  rcases List.mem_cons.1 hm' with rfl | hm''
  · refine ⟨?_, ?_, ?_⟩
    · show (10 : UInt8) ∉ hostKey
      decide
    · show (58 : UInt8) ∉ hostKey
      decide
    · exact fun hx => w.host (mem_of_mem_trimSpace _ _ hx)
  · obtain ⟨h0, hh0, e⟩ := List.mem_filterMap.1 hm''
    split at e
    · injection e with e
      subst e
      obtain ⟨a, b, cc⟩ := w.headers h0 hh0
      refine ⟨?_, ?_, not_mem_headerValue fx _ cc⟩
      · exact not_mem_lower 10 (fun c => (byte_facts c).2.2.2.2.2.2.1) _ a
      · exact not_mem_lower 58 (fun c => (byte_facts c).2.2.2.2.2.2.2) _ b
    · contradiction

-- ---------------------------------------------------------------- idealised primitives (hypotheses, never axioms)

/-- idealised hash: no two inputs share a digest -/
def CollisionFree (h : Bytes → Bytes) : Prop := ∀ a b, h a = h b → a = b

/-- idealised MAC: a tag determines the key and the message it was computed for — nobody can
present a valid tag for a message (or under a key) other than the one it was made for -/
def Unforgeable (mac : Bytes → Bytes → Bytes) : Prop := ∀ k m k' m', mac k m = mac k' m' → k = k' ∧ m = m'

/-- toy hash for the non-vacuity examples: the identity -/
def toySha (b : Bytes) : Bytes := b

/-- toy MAC for the non-vacuity examples: unary length of the key, a zero, the key, the message -/
def toyMac (k m : Bytes) : Bytes := List.replicate k.length 1 ++ 0 :: (k ++ m)

theorem toySha_collisionFree : CollisionFree toySha := fun _ _ h => h

-- ---------------------------------------------------------------- hex is injective

/-- value of a lower-case hex digit produced by `hexNibbleL` -/
def unhexNibble (d : UInt8) : UInt8 := if d < 58 then d - 48 else d - 87

def unhexB (c : UInt8) : Bool :=
  (unhexNibble (hexNibbleL (c >>> 4)) <<< 4 ||| unhexNibble (hexNibbleL (c &&& 15))) == c

set_option maxRecDepth 100000 in
theorem unhexB_all : ∀ c : UInt8, unhexB c = true := by
  apply forall_uint8
  decide

theorem unhex_hexL (c : UInt8) :
    unhexNibble (hexNibbleL (c >>> 4)) <<< 4 ||| unhexNibble (hexNibbleL (c &&& 15)) = c := by
  have h := unhexB_all c
  simpa [unhexB] using h

def unhexL : Bytes → Bytes
  | a :: b :: t => (unhexNibble a <<< 4 ||| unhexNibble b) :: unhexL t
  | _ => []

theorem unhexL_hexL (s : Bytes) : unhexL (hexL s) = s := by
  induction s with
  | nil => rfl
  | cons c t ih => simp [hexL, unhexL, unhex_hexL, ih]

theorem hexL_injective (a b : Bytes) (h : hexL a = hexL b) : a = b := by
  have := congrArg unhexL h
  simpa [unhexL_hexL] using this

-- ---------------------------------------------------------------- the canonical URI denotes the request path

def decFactsB (c : UInt8) : Bool :=
  -- a %XX escape written by the server decodes to the byte it stands for
  (UInt8.ofNat (hexDigitVal (hexNibbleU (c >>> 4)) * 16 + hexDigitVal (hexNibbleU (c &&& 15))) == c) &&
  (!isHexChar c || (isHexChar (upperHexChar c) && hexDigitVal (upperHexChar c) == hexDigitVal c)) &&
  (!(c == 47 || isUnreserved c) || c != 37)

set_option maxRecDepth 100000 in
theorem decFactsB_all : ∀ c : UInt8, decFactsB c = true := by
  apply forall_uint8
  decide

theorem pctDecode_plain (c : UInt8) (t : Bytes) (h : c ≠ 37) : pctDecode (c :: t) = c :: pctDecode t := by
  match t with
  | [] => simp [pctDecode]
  | [a] => simp [pctDecode]
  | a :: b :: t' => simp [pctDecode, h]

theorem pctDecode_pct (c : UInt8) (t : Bytes) : pctDecode (pct c ++ t) = c :: pctDecode t := by
  have h := decFactsB_all c
  simp only [decFactsB, Bool.and_eq_true, beq_iff_eq] at h
  obtain ⟨a, b, _, _⟩ := pct_hex c
  simp [pct, pctDecode, a, b, h.1.1]

theorem pctDecode_emit (c : UInt8) (t : Bytes) : pctDecode (emitURIByte c ++ t) = c :: pctDecode t := by
  have h := decFactsB_all c
  simp only [decFactsB, Bool.and_eq_true, Bool.or_eq_true, Bool.not_eq_true', bne_iff_ne, ne_eq, beq_iff_eq] at h
  unfold emitURIByte
  split
  · rename_i h47
    have : c = 47 := by simpa using h47
    subst this
    exact pctDecode_plain 47 t (by decide)
  · split
    · rename_i hu
      have h37 : c ≠ 37 := by
        rcases h.2 with h' | h'
        · simp [hu] at h'
        · exact h'
      exact pctDecode_plain c t h37
    · exact pctDecode_pct c t

/-- The canonical URI denotes the same path as the raw request path: percent-decoding either
gives the bytes the router sees. -/
theorem pctDecode_canonURILoop (p : Bytes) : pctDecode (canonURILoop p) = pctDecode p := by
  match p with
  | [] => rfl
  | [c] => simpa [canonURILoop, pctDecode] using pctDecode_emit c []
  | [c, d] =>
    simp only [canonURILoop, List.append_nil]
    rw [pctDecode_emit]
    have := pctDecode_emit d []
    simp only [List.append_nil] at this
    rw [this]; simp [pctDecode]
  | c :: h1 :: h2 :: rest =>
    have ih1 := pctDecode_canonURILoop rest
    have ih2 := pctDecode_canonURILoop (h1 :: h2 :: rest)
    rw [canonURILoop, pctDecode]
    split
    · rename_i hc
      simp only [Bool.and_eq_true, beq_iff_eq] at hc
      have f1 := decFactsB_all h1
      have f2 := decFactsB_all h2
      simp only [decFactsB, Bool.and_eq_true, Bool.or_eq_true, Bool.not_eq_true', beq_iff_eq] at f1 f2
      have g1 : isHexChar (upperHexChar h1) = true ∧ hexDigitVal (upperHexChar h1) = hexDigitVal h1 := by
        rcases f1.1.2 with h | h
        · rw [hc.1.2] at h; contradiction
        · exact h
      have g2 : isHexChar (upperHexChar h2) = true ∧ hexDigitVal (upperHexChar h2) = hexDigitVal h2 := by
        rcases f2.1.2 with h | h
        · rw [hc.2] at h; contradiction
        · exact h
      simp [pctDecode, g1.1, g2.1, g1.2, g2.2, ih1]
    · rw [pctDecode_emit, ih2]

-- ---------------------------------------------------------------- accepted timestamps contain no line break

theorem num2_ne10 (a b : UInt8) (n : Nat) (h : num2 a b = some n) : a ≠ 10 ∧ b ≠ 10 := by
  unfold num2 at h
  split at h
  · rename_i hd
    simp only [Bool.and_eq_true] at hd
    constructor
    · intro e; rw [e] at hd; exact absurd hd.1 (by decide)
    · intro e; rw [e] at hd; exact absurd hd.2 (by decide)
  · contradiction

theorem not_mem_of_dropWhile_digit (l : Bytes) (h : l.dropWhile isDigit = [90]) : (10 : UInt8) ∉ l := by
  induction l with
  | nil => simp
  | cons c t ih =>
    simp only [List.dropWhile] at h
    split at h
    · rename_i hd
      simp only [List.mem_cons, not_or]
      refine ⟨?_, ih h⟩
      intro e; rw [← e] at hd; exact absurd hd (by decide)
    · rw [h]; decide

theorem not_mem_of_skipFraction (rest : Bytes) (h : skipFraction rest = [90]) : (10 : UInt8) ∉ rest := by
  unfold skipFraction at h
  split at h
  · rename_i p q more
    split at h
    · rename_i hpq
      simp only [Bool.and_eq_true, Bool.or_eq_true, beq_iff_eq] at hpq
      have := not_mem_of_dropWhile_digit _ h
      simp only [List.mem_cons, not_or] at this ⊢
      refine ⟨?_, this⟩
      rcases hpq.1 with e | e <;> (rw [e]; decide)
    · rw [h]; decide
  · rw [h]; decide

theorem parseTimestamp_no_newline (ts : Bytes) (t : Int) (h : parseTimestamp ts = some t) : (10 : UInt8) ∉ ts := by
  unfold parseTimestamp at h
  split at h
  · rename_i y1 y2 y3 y4 m1 m2 d1 d2 tt h1 h2 n1 n2 s1 s2 rest
    split at h
    · rename_i ya yb mo dd hh mi ss e1 e2 e3 e4 e5 e6 e7
      simp only at h
      split at h
      · contradiction
      · rename_i hc
        simp only [Bool.or_eq_true, bne_iff_ne, ne_eq, not_or, Decidable.not_not] at hc
        obtain ⟨htt, hrest⟩ := hc
        have a1 := num2_ne10 _ _ _ e1
        have a2 := num2_ne10 _ _ _ e2
        have a3 := num2_ne10 _ _ _ e3
        have a4 := num2_ne10 _ _ _ e4
        have a5 := num2_ne10 _ _ _ e5
        have a6 := num2_ne10 _ _ _ e6
        have a7 := num2_ne10 _ _ _ e7
        have hr := not_mem_of_skipFraction _ hrest
        simp only [List.mem_cons, not_or]
        refine ⟨a1.1.symm, a1.2.symm, a2.1.symm, a2.2.symm, a3.1.symm, a3.2.symm, a4.1.symm, a4.2.symm, ?_,
          a5.1.symm, a5.2.symm, a6.1.symm, a6.2.symm, a7.1.symm, a7.2.symm, hr⟩
        rw [htt]; decide
    · contradiction
  · contradiction

theorem toyMac_unforgeable : Unforgeable toyMac := by
  intro k m k' m' h
  unfold toyMac at h
  obtain ⟨h1, h2⟩ := split_unique 0 _ _ _ _ (by simp) (by simp) h
  have hl : k.length = k'.length := by
    have := congrArg List.length h1
    simpa using this
  exact List.append_inj h2 hl

-- ---------------------------------------------------------------- the canonical query determines the parameters

def encFactsB (c : UInt8) : Bool :=
  hexNibbleU (c >>> 4) != 38 && hexNibbleU (c &&& 15) != 38 && hexNibbleU (c >>> 4) != 61 && hexNibbleU (c &&& 15) != 61 &&
  (!isUnreserved c || (c != 38 && c != 61 && c != 37))

set_option maxRecDepth 100000 in
theorem encFactsB_all : ∀ c : UInt8, encFactsB c = true := by
  apply forall_uint8
  decide

theorem uriEncode_clean (s : Bytes) : (38 : UInt8) ∉ uriEncode s ∧ (61 : UInt8) ∉ uriEncode s := by
  have key : ∀ b ∈ uriEncode s, b ≠ 38 ∧ b ≠ 61 := by
    intro b hb
    unfold uriEncode at hb
    obtain ⟨c, _, hc⟩ := List.mem_flatMap.1 hb
    have f := encFactsB_all c
    simp only [encFactsB, Bool.and_eq_true, bne_iff_ne, ne_eq, Bool.or_eq_true, Bool.not_eq_true'] at f
    obtain ⟨⟨⟨⟨f1, f2⟩, f3⟩, f4⟩, f5⟩ := f
    split at hc
    · rename_i hu
      simp only [List.mem_singleton] at hc
      subst hc
      rcases f5 with h | h
      · rw [hu] at h; contradiction
      · exact ⟨h.1.1, h.1.2⟩
    · simp only [pct, List.mem_cons, List.not_mem_nil, or_false] at hc
      rcases hc with rfl | rfl | rfl
      · exact ⟨by decide, by decide⟩
      · exact ⟨f1, f3⟩
      · exact ⟨f2, f4⟩
  exact ⟨fun h => (key 38 h).1 rfl, fun h => (key 61 h).2 rfl⟩

/-- percent-decoding undoes `uriEncode` -/
theorem pctDecode_uriEncode (s : Bytes) : pctDecode (uriEncode s) = s := by
  induction s with
  | nil => rfl
  | cons c t ih =>
    have e : uriEncode (c :: t) = (if isUnreserved c then [c] else pct c) ++ uriEncode t := by
      simp [uriEncode]
    rw [e]
    split
    · rename_i hu
      have f := encFactsB_all c
      simp only [encFactsB, Bool.and_eq_true, bne_iff_ne, ne_eq, Bool.or_eq_true, Bool.not_eq_true'] at f
      have h37 : c ≠ 37 := by
        rcases f.2 with h | h
        · rw [hu] at h; contradiction
        · exact h.2
      simp only [List.singleton_append]
      rw [pctDecode_plain c _ h37, ih]
    · rw [pctDecode_pct, ih]

theorem renderQuery_cons_cons (p q : Bytes × Bytes) (t : List (Bytes × Bytes)) :
    renderQuery (p :: q :: t) = p.1 ++ 61 :: (p.2 ++ 38 :: renderQuery (q :: t)) := by
  simp [renderQuery, join, List.append_assoc]

theorem renderQuery_single (p : Bytes × Bytes) : renderQuery [p] = p.1 ++ 61 :: p.2 := by
  simp [renderQuery, join]

/-- a rendered pair list can be read back: keys without `=`/`&`, values without `&` -/
theorem renderQuery_injective (ps ps' : List (Bytes × Bytes))
    (w : ∀ p ∈ ps, (61 : UInt8) ∉ p.1 ∧ (38 : UInt8) ∉ p.1 ∧ (38 : UInt8) ∉ p.2)
    (w' : ∀ p ∈ ps', (61 : UInt8) ∉ p.1 ∧ (38 : UInt8) ∉ p.1 ∧ (38 : UInt8) ∉ p.2)
    (e : renderQuery ps = renderQuery ps') : ps = ps' := by
  induction ps generalizing ps' with
  | nil =>
    cases ps' with
    | nil => rfl
    | cons p' t' =>
      exfalso
      cases t' with
      | nil => rw [renderQuery_single] at e; simp [renderQuery, join] at e
      | cons q' u' => rw [renderQuery_cons_cons] at e; simp [renderQuery, join] at e
  | cons p t ih =>
    cases ps' with
    | nil =>
      exfalso
      cases t with
      | nil => rw [renderQuery_single] at e; simp [renderQuery, join] at e
      | cons q u => rw [renderQuery_cons_cons] at e; simp [renderQuery, join] at e
    | cons p' t' =>
      have hw := w p (by simp)
      have hw' := w' p' (by simp)
      cases t with
      | nil =>
        cases t' with
        | nil =>
          rw [renderQuery_single, renderQuery_single] at e
          obtain ⟨e1, e2⟩ := split_unique 61 _ _ _ _ hw.1 hw'.1 e
          rw [Prod.ext e1 e2]
        | cons q' u' =>
          exfalso
          rw [renderQuery_single, renderQuery_cons_cons] at e
          obtain ⟨_, e2⟩ := split_unique 61 _ _ _ _ hw.1 hw'.1 e
          apply hw.2.2; rw [e2]; simp
      | cons q u =>
        cases t' with
        | nil =>
          exfalso
          rw [renderQuery_single, renderQuery_cons_cons] at e
          obtain ⟨_, e2⟩ := split_unique 61 _ _ _ _ hw.1 hw'.1 e
          apply hw'.2.2; rw [← e2]; simp
        | cons q' u' =>
          rw [renderQuery_cons_cons, renderQuery_cons_cons] at e
          obtain ⟨e1, e2⟩ := split_unique 61 _ _ _ _ hw.1 hw'.1 e
          obtain ⟨e3, e4⟩ := split_unique 38 _ _ _ _ hw.2.2 hw'.2.2 e2
          have := ih (q' :: u') (fun x hx => w x (by simp [hx])) (fun x hx => w' x (by simp [hx])) e4
          rw [this, Prod.ext e1 e3]

theorem insertBy_perm {α : Type} (le : α → α → Bool) (x : α) (l : List α) : (insertBy le x l).Perm (x :: l) := by
  induction l with
  | nil => simp [insertBy]
  | cons y t ih =>
    simp only [insertBy]
    split
    · exact List.Perm.refl _
    · exact (List.Perm.cons y ih).trans (List.Perm.swap x y t)

theorem sortBy_perm {α : Type} (le : α → α → Bool) (l : List α) : (sortBy le l).Perm l := by
  induction l with
  | nil => exact List.Perm.refl _
  | cons x t ih => exact (insertBy_perm le x _).trans (List.Perm.cons x ih)

def encPair (p : Bytes × Bytes) : Bytes × Bytes := (uriEncode p.1, uriEncode p.2)
def decPair (p : Bytes × Bytes) : Bytes × Bytes := (pctDecode p.1, pctDecode p.2)

theorem decPair_encPair (l : List (Bytes × Bytes)) : (l.map encPair).map decPair = l := by
  induction l with
  | nil => rfl
  | cons p t ih => simp [encPair, decPair, pctDecode_uriEncode, ih]

/-- **The canonical query string determines the multiset of (decoded) query parameters** other
than the signature parameter itself. -/
theorem canonicalQuery_determines (fx : Fix) (q1 q2 : List (Bytes × Bytes))
    (e : canonicalQuery fx q1 = canonicalQuery fx q2) :
    (q1.filter (fun p => p.1 != amzSignatureKey)).Perm (q2.filter (fun p => p.1 != amzSignatureKey)) := by
  have encW : ∀ (l : List (Bytes × Bytes)), ∀ p ∈ l.map encPair,
      (61 : UInt8) ∉ p.1 ∧ (38 : UInt8) ∉ p.1 ∧ (38 : UInt8) ∉ p.2 := by
    intro l p hp
    obtain ⟨p0, _, rfl⟩ := List.mem_map.1 hp
    exact ⟨(uriEncode_clean p0.1).2, (uriEncode_clean p0.1).1, (uriEncode_clean p0.2).1⟩
  unfold canonicalQuery at e
  simp only at e
  generalize q1.filter (fun p => p.1 != amzSignatureKey) = a at e ⊢
  generalize q2.filter (fun p => p.1 != amzSignatureKey) = b at e ⊢
  have hf : (fun (p : Bytes × Bytes) => (uriEncode p.1, uriEncode p.2)) = encPair := rfl
  rw [hf] at e
  split at e
  · have := renderQuery_injective _ _ (encW _) (encW _) e
    have := congrArg (List.map decPair) this
    rw [decPair_encPair, decPair_encPair] at this
    exact (sortBy_perm pairLe a).symm.trans (this ▸ sortBy_perm pairLe b)
  · have h := renderQuery_injective _ _
      (fun p hp => encW a p ((mem_sortBy _ _ _).1 hp)) (fun p hp => encW b p ((mem_sortBy _ _ _).1 hp)) e
    have hp : (a.map encPair).Perm (b.map encPair) :=
      (sortBy_perm pairLe _).symm.trans (h ▸ sortBy_perm pairLe _)
    have := hp.map decPair
    rwa [decPair_encPair, decPair_encPair] at this

-- ---------------------------------------------------------------- acceptance of a correctly signed request

theorem splitOn_no_sep (sep : UInt8) (a : Bytes) (h : sep ∉ a) : splitOn sep a = [a] := by
  induction a with
  | nil => rfl
  | cons c t ih =>
    have hc : c ≠ sep := by intro e; apply h; simp [e]
    have ht : sep ∉ t := by intro m; apply h; simp [m]
    simp [splitOn, hc, ih ht]

theorem splitOn_append (sep : UInt8) (a rest : Bytes) (h : sep ∉ a) :
    splitOn sep (a ++ sep :: rest) = a :: splitOn sep rest := by
  induction a with
  | nil => simp [splitOn]
  | cons c t ih =>
    have hc : c ≠ sep := by intro e; apply h; simp [e]
    have ht : sep ∉ t := by intro m; apply h; simp [m]
    simp [splitOn, hc, ih ht]

theorem splitOn_join5 (a b c d e : Bytes) (ha : (47 : UInt8) ∉ a) (hb : (47 : UInt8) ∉ b) (hc : (47 : UInt8) ∉ c)
    (hd : (47 : UInt8) ∉ d) (he : (47 : UInt8) ∉ e) :
    splitOn 47 (join [47] [a, b, c, d, e]) = [a, b, c, d, e] := by
  simp only [join, List.append_assoc, List.singleton_append]
  rw [splitOn_append _ _ _ ha, splitOn_append _ _ _ hb, splitOn_append _ _ _ hc, splitOn_append _ _ _ hd,
    splitOn_no_sep _ _ he]

/-- General form of `sdk_signed_accepted`, for whichever model variant has the SDK's canonical request.
Original statement: A request of the S3 client's shape that carries the
credential of a configured key for the configured region, a timestamp inside the window, the
SDK's list of signed headers (containing `host` and every `x-amz-*` / `Content-MD5` header it
sent) and the signature the SDK computes with that key's secret is authenticated as that key. -/
theorem accepted_of_canonical_eq (c : Crypto) (fx : Fix) (cfg : Config) (r : Req) (p : SigParams)
    (ak secret date : Bytes) (t : Int)
    (hp : parseSigParams r = .ok p) (halg : p.alg = algV4)
    (hcred : p.credential = join [47] [ak, date, cfg.region, b! "s3", b! "aws4_request"])
    (hak : (47 : UInt8) ∉ ak) (hdt : (47 : UInt8) ∉ date) (hrg : (47 : UInt8) ∉ cfg.region)
    (hkey : cfg.creds.find? (fun k => k.accessKey == ak) = some ⟨ak, secret⟩)
    (hts : parseTimestamp p.timestamp = some t) (hdate : date = p.timestamp.take 8)
    (hwin : t - 900 ≤ cfg.now ∧ cfg.now ≤ t + (p.expires : Int))
    (hhost : (parseSignedHeaders p.signedHeaders).contains hostKey = true)
    (hsens : ∀ h ∈ r.headers, mustBeSigned (lower h.1) = true →
      (parseSignedHeaders p.signedHeaders).contains (lower h.1) = true)
    (hcanon : canonicalRequest c fx r (parseSignedHeaders p.signedHeaders) p.presigned =
      (sdkCanon r (parseSignedHeaders p.signedHeaders) p.presigned).render)
    (hstream : ¬ (headerGet r contentSHA256Header = streamingECDSA ∨ headerGet r contentSHA256Header = streamingECDSATrailer))
    (hsig : p.signature = sdkSignature c secret date cfg.region p.timestamp r (parseSignedHeaders p.signedHeaders) p.presigned) :
    checkAuth c fx cfg r =
      .ok { accessKey := ak, params := p,
            scope := join [47] [date, cfg.region, b! "s3", b! "aws4_request"],
            signed := parseSignedHeaders p.signedHeaders } := by
  unfold checkAuth
  simp only [hp, halg, bne_self_eq_false, Bool.false_eq_true, if_false, hcred]
  rw [splitOn_join5 ak date cfg.region _ _ hak hdt hrg (by decide) (by decide)]
  simp only [bne_self_eq_false, Bool.false_eq_true, if_false, hkey, hts, ← hdate]
  have hw : (decide (cfg.now < t - 900) || decide (cfg.now > t + (p.expires : Int))) = false := by
    simp only [Bool.or_eq_false_iff, decide_eq_false_iff_not]
    constructor <;> omega
  simp only [hw, Bool.false_eq_true, if_false, hhost, Bool.not_true]
  have hany : (r.headers.any fun h => mustBeSigned (lower h.1) &&
      !(parseSignedHeaders p.signedHeaders).contains (lower h.1)) = false := by
    apply Bool.eq_false_iff.2
    intro hex
    obtain ⟨h, hm, hb⟩ := List.any_eq_true.1 hex
    simp only [Bool.and_eq_true, Bool.not_eq_true'] at hb
    rw [hsens h hm hb.1] at hb
    exact absurd hb.2 (by simp)
  simp only [hany, Bool.false_eq_true, if_false]
  have hsig' : signature c (signingKey c secret date cfg.region (b! "s3") (b! "aws4_request"))
      (stringToSign c algV4 p.timestamp (join [47] [date, cfg.region, b! "s3", b! "aws4_request"])
        (canonicalRequest c fx r (parseSignedHeaders p.signedHeaders) p.presigned)) = p.signature := by
    rw [hsig, hcanon]; rfl
  simp only [hsig', bne_self_eq_false, Bool.false_eq_true, if_false]
  have hnot : (headerGet r contentSHA256Header == streamingECDSA ||
      headerGet r contentSHA256Header == streamingECDSATrailer) = false := by
    simp only [Bool.or_eq_false_iff, beq_eq_false_iff_ne, ne_eq]
    exact ⟨fun e => hstream (Or.inl e), fun e => hstream (Or.inr e)⟩
  simp only [hnot, Bool.and_false, Bool.false_eq_true, if_false]


end Pithos.SigV4
