/-
`Sim` is preserved by the compression, tink, cache and outbox middlewares (helpers for C15).
-/
import Pithos.Lemmas.PartStore

namespace Pithos.PartStore
open Pithos.Codec

theorem upd_map (m : PartId → Option Bytes) (f : Bytes → Bytes) (i : PartId) (x : Bytes) :
    (fun j => (upd m i (some x) j).map f) = upd (fun j => (m j).map f) i (some (f x)) := by
  funext j; by_cases h : j = i <;> simp [upd, h]

theorem upd_map_none (m : PartId → Option Bytes) (f : Bytes → Bytes) (i : PartId) :
    (fun j => (upd m i none j).map f) = upd (fun j => (m j).map f) i none := by
  funext j; by_cases h : j = i <;> simp [upd, h]

theorem Allowed.map {R R' : Restr} {e : Option Bytes} {e' : Option Bytes} (hg : R'.absentGet = R.absentGet)
    (hs : e'.isSome = e.isSome) (h : Allowed R' e') : Allowed R e := by
  rcases h with h | h
  · exact Or.inl (hg ▸ h)
  · exact Or.inr (hs ▸ h)

/-! ## compression -/

/-- Round-trip hypothesis about the (opaque) compressors. -/
def CompressOK (P : Prims) : Prop := ∀ a b, a ≠ Alg.none → P.decompress a (P.compress a b) = some b

theorem compressDecode_encode (P : Prims) (hP : CompressOK P) (alg : Alg) (halg : alg ≠ .none) (sample : Nat)
    (b : Bytes) (st : Stream) (hst : st.bytes = compressEncode P alg sample b) :
    ∃ st', compressDecode P st = .ok st' ∧ st'.bytes = b ∧ (st.afterEof = [] → st'.afterEof = []) := by
  unfold compressEncode at hst
  unfold compressDecode
  by_cases hs : P.shouldCompress sample alg b = true
  · rw [if_pos hs] at hst
    obtain ⟨h1, h2, h3⟩ := stored_begins_with_header P.crc alg (P.compress alg b)
    rw [← hst] at h1 h2 h3
    have hlt : ¬ st.bytes.length < headerSize := by omega
    rw [if_neg hlt, h2, h3]
    cases alg with
    | none => exact absurd rfl halg
    | gzip => simp only [hP .gzip b (by decide)]; exact ⟨_, rfl, rfl, fun _ => rfl⟩
    | zstd => simp only [hP .zstd b (by decide)]; exact ⟨_, rfl, rfl, fun _ => rfl⟩
  · rw [if_neg hs] at hst
    obtain ⟨h1, h2, h3⟩ := stored_begins_with_header P.crc .none b
    rw [← hst] at h1 h2 h3
    have hlt : ¬ st.bytes.length < headerSize := by omega
    rw [if_neg hlt, h2]
    exact ⟨_, rfl, h3, fun h => h⟩

/-- bytes of the decoded stream of a stored stream (only used on stored streams) -/
def compressDecB (P : Prims) (x : Bytes) : Bytes :=
  match compressDecode P ⟨x, false, []⟩ with
  | .ok st => st.bytes
  | _ => []

theorem compressDecB_encode (P : Prims) (hP : CompressOK P) (alg : Alg) (halg : alg ≠ .none) (sample : Nat) (b : Bytes) :
    compressDecB P (compressEncode P alg sample b) = b := by
  obtain ⟨st', h1, h2, _⟩ := compressDecode_encode P hP alg halg sample b ⟨compressEncode P alg sample b, false, []⟩ rfl
  simp [compressDecB, h1, h2]

theorem compressWrap_get_st (P : Prims) (alg : Alg) (n : Nat) (S : Store) (tx : Bool) (s : S.σ) (i : PartId) :
    ((compressWrap P alg n S).get tx s i).st = (S.get tx s i).st := by
  simp only [compressWrap]; split <;> rfl

theorem compressWrap_get_panicked (P : Prims) (alg : Alg) (n : Nat) (S : Store) (tx : Bool) (s : S.σ) (i : PartId) :
    ((compressWrap P alg n S).get tx s i).panicked = (S.get tx s i).panicked := by
  simp only [compressWrap]; split <;> rfl

theorem compressWrap_get_out (P : Prims) (alg : Alg) (n : Nat) (S : Store) (tx : Bool) (s : S.σ) (i : PartId) :
    ((compressWrap P alg n S).get tx s i).out =
      match (S.get tx s i).out with
      | .ok st => compressDecode P st
      | o => o := by
  simp only [compressWrap]; split <;> simp_all

/-- **compression preserves correctness.** If the inner store is correct for the encoded streams, the
compression middleware over it is correct for the plain contents. -/
def compressSim (P : Prims) (hP : CompressOK P) (alg : Alg) (halg : alg ≠ .none) (n : Nat) {S : Store}
    {Q P' : Bytes → Prop} {g c : Bool} (sim : Sim ⟨Q, g, c⟩ S)
    (hPQ : ∀ b, P' b → Q (compressEncode P alg n b)) : Sim ⟨P', g, c⟩ (compressWrap P alg n S) where
  Inv (s : S.σ) := sim.Inv s ∧ ∀ i x, sim.abs s i = some x → ∃ b, x = compressEncode P alg n b
  abs (s : S.σ) i := (sim.abs s i).map (compressDecB P)
  inv_init := ⟨sim.inv_init, fun i x h => by have h' : sim.abs S.init i = some x := h; rw [sim.abs_init] at h'; cases h'⟩
  abs_init i := by show (sim.abs S.init i).map _ = none; rw [sim.abs_init]; rfl
  put_inv tx s i b h hb := by
    refine ⟨sim.put_inv tx s i _ h.1 (hPQ b hb), fun j x hx => ?_⟩
    have := sim.put_abs tx s i _ h.1 (hPQ b hb)
    rw [show (compressWrap P alg n S).put tx s i b = S.put tx s i (compressEncode P alg n b) from rfl, this] at hx
    by_cases hj : j = i
    · subst hj; rw [upd_self] at hx; exact ⟨b, (Option.some.inj hx).symm⟩
    · rw [upd_ne _ _ _ _ hj] at hx; exact h.2 j x hx
  put_abs tx s i b h hb := by
    show (fun j => (sim.abs (S.put tx s i (compressEncode P alg n b)) j).map (compressDecB P)) = _
    rw [sim.put_abs tx s i _ h.1 (hPQ b hb), upd_map, compressDecB_encode P hP alg halg n b]
  get_inv tx s i h a := by
    have a' : Allowed ⟨Q, g, c⟩ (sim.abs s i) := Allowed.map rfl (by simp) a
    rw [compressWrap_get_st]
    refine ⟨sim.get_inv tx s i h.1 a', fun j x hx => ?_⟩
    rw [sim.get_abs tx s i h.1 a'] at hx
    exact h.2 j x hx
  get_abs tx s i h a := by
    have a' : Allowed ⟨Q, g, c⟩ (sim.abs s i) := Allowed.map rfl (by simp) a
    funext j
    show (sim.abs ((compressWrap P alg n S).get tx s i).st j).map _ = _
    rw [compressWrap_get_st, sim.get_abs tx s i h.1 a']
  get_out tx s i h a := by
    have a' : Allowed ⟨Q, g, c⟩ (sim.abs s i) := Allowed.map rfl (by simp) a
    have ho := sim.get_out tx s i h.1 a'
    rw [compressWrap_get_out]
    show OutOk _ ((sim.abs s i).map (compressDecB P))
    cases hx : sim.abs s i with
    | none => rw [hx] at ho; simp only [OutOk] at ho; rw [ho]; simp [OutOk]
    | some x =>
      rw [hx] at ho
      obtain ⟨st, hst, hb⟩ := ho
      obtain ⟨b, hxb⟩ := h.2 i x hx
      obtain ⟨st', h1, h2, _⟩ := compressDecode_encode P hP alg halg n b st (hb.trans hxb)
      rw [hst]
      show OutOk (compressDecode P st) _
      rw [h1, hxb, Option.map_some, compressDecB_encode P hP alg halg n b]
      exact ⟨st', rfl, h2⟩
  get_clean tx s i st' h a hc he := by
    have a' : Allowed ⟨Q, g, c⟩ (sim.abs s i) := Allowed.map rfl (by simp) a
    have ho := sim.get_out tx s i h.1 a'
    rw [compressWrap_get_out] at he
    cases hx : sim.abs s i with
    | none => rw [hx] at ho; simp only [OutOk] at ho; rw [ho] at he; cases he
    | some x =>
      rw [hx] at ho
      obtain ⟨st, hst, hb⟩ := ho
      obtain ⟨b, hxb⟩ := h.2 i x hx
      obtain ⟨st'', h1, _, h3⟩ := compressDecode_encode P hP alg halg n b st (hb.trans hxb)
      rw [hst] at he
      have he' : compressDecode P st = .ok st' := he
      rw [h1] at he'
      have : st'' = st' := by injection he'
      subst this
      exact h3 (sim.get_clean tx s i st h.1 a' hc hst)
  get_quiet tx s i h a := by
    have a' : Allowed ⟨Q, g, c⟩ (sim.abs s i) := Allowed.map rfl (by simp) a
    rw [compressWrap_get_panicked]; exact sim.get_quiet tx s i h.1 a'
  del_inv tx s i h := by
    refine ⟨sim.del_inv tx s i h.1, fun j x hx => ?_⟩
    rw [show (compressWrap P alg n S).del tx s i = S.del tx s i from rfl, sim.del_abs tx s i h.1] at hx
    by_cases hj : j = i
    · subst hj; rw [upd_self] at hx; cases hx
    · rw [upd_ne _ _ _ _ hj] at hx; exact h.2 j x hx
  del_abs tx s i h := by
    show (fun j => (sim.abs (S.del tx s i) j).map (compressDecB P)) = _
    rw [sim.del_abs tx s i h.1, upd_map_none]
  tick_inv s h := by
    refine ⟨sim.tick_inv s h.1, fun j x hx => ?_⟩
    rw [show (compressWrap P alg n S).tick s = S.tick s from rfl, sim.tick_abs s h.1] at hx
    exact h.2 j x hx
  tick_abs s h := by
    show (fun j => (sim.abs (S.tick s) j).map (compressDecB P)) = _
    rw [sim.tick_abs s h.1]
  ids_mem s i h := by
    show i ∈ S.ids s ↔ ((sim.abs s i).map _).isSome = true
    rw [sim.ids_mem s i h.1]; simp
  ids_nodup s h := sim.ids_nodup s h.1

/-! ## tink -/

/-- Round-trip hypotheses about the (opaque) envelope: what `PutPart` stores for a part opens to the
plaintext under the same part id, and is never the empty stream. `Model/TinkSeek` + C16 derive this
from an ideal AEAD. -/
structure TinkOK (P : Prims) : Prop where
  opens : ∀ r i b, P.tinkOpen i (P.tinkSeal r i b) = some b
  nonempty : ∀ r i b, P.tinkSeal r i b ≠ []

theorem tinkDecode_seal (P : Prims) (hT : TinkOK P) (F : Fixes) (r : Nat) (i : PartId) (b : Bytes) (st : Stream)
    (hst : st.bytes = P.tinkSeal r i b) (hok : F.tinkStickyEof = true ∨ st.afterEof = []) :
    ∃ st', tinkDecode P F i st = .ok st' ∧ st'.bytes = b ∧ (F.tinkStickyEof = true → st'.afterEof = []) := by
  unfold tinkDecode
  have hne : (P.tinkSeal r i b).isEmpty = false := by
    cases h : P.tinkSeal r i b with
    | nil => exact absurd h (hT.nonempty r i b)
    | cons _ _ => rfl
  simp only [hst, hne, hT.opens r i b]
  by_cases hs : st.seekable = true
  · simp only [hs, if_true]; exact ⟨_, rfl, rfl, fun _ => rfl⟩
  · simp only [hs]
    by_cases hf : F.tinkStickyEof = true
    · simp only [hf, if_true]; exact ⟨_, rfl, rfl, fun _ => rfl⟩
    · have ha : st.afterEof = [] := hok.resolve_left hf
      have hf' : F.tinkStickyEof = false := by simpa using hf
      simp only [hf', ha]
      exact ⟨_, rfl, rfl, fun h => by cases h⟩

theorem tinkWrap_get_st (P : Prims) (F : Fixes) (S : Store) (tx : Bool) (s : S.σ × Nat) (i : PartId) :
    ((tinkWrap P F S).get tx s i).st = ((S.get tx s.1 i).st, s.2) := by
  simp only [tinkWrap]; split <;> rfl

theorem tinkWrap_get_panicked (P : Prims) (F : Fixes) (S : Store) (tx : Bool) (s : S.σ × Nat) (i : PartId) :
    ((tinkWrap P F S).get tx s i).panicked = (S.get tx s.1 i).panicked := by
  simp only [tinkWrap]; split <;> rfl

theorem tinkWrap_get_out (P : Prims) (F : Fixes) (S : Store) (tx : Bool) (s : S.σ × Nat) (i : PartId) :
    ((tinkWrap P F S).get tx s i).out =
      match (S.get tx s.1 i).out with
      | .ok st => tinkDecode P F i st
      | o => o := by
  simp only [tinkWrap]; split <;> simp_all

theorem upd_bind (m : PartId → Option Bytes) (f : PartId → Bytes → Option Bytes) (i : PartId) (x : Bytes) :
    (fun j => (upd m i (some x) j).bind (f j)) = upd (fun j => (m j).bind (f j)) i (f i x) := by
  funext j; by_cases h : j = i
  · subst h; simp [upd]
  · simp [upd, h]

theorem upd_bind_none (m : PartId → Option Bytes) (f : PartId → Bytes → Option Bytes) (i : PartId) :
    (fun j => (upd m i none j).bind (f j)) = upd (fun j => (m j).bind (f j)) i none := by
  funext j; by_cases h : j = i
  · subst h; simp [upd]
  · simp [upd, h]

/-- **tink preserves correctness** — as the code is, provided the streams of the inner store answer EOF
again after EOF (`cin = true`; not the case for a second sequential tink layer); always with the
repaired reader (`F.tinkStickyEof`). The result is "clean" only with the repair. -/
def tinkSim (P : Prims) (hT : TinkOK P) (F : Fixes) {S : Store}
    {Q P' : Bytes → Prop} {g cin : Bool} (sim : Sim ⟨Q, g, cin⟩ S)
    (hPQ : ∀ r i b, P' b → Q (P.tinkSeal r i b)) (hclean : F.tinkStickyEof = true ∨ cin = true) :
    Sim ⟨P', g, F.tinkStickyEof⟩ (tinkWrap P F S) where
  Inv (s : S.σ × Nat) := sim.Inv s.1 ∧ ∀ i x, sim.abs s.1 i = some x → ∃ r b, x = P.tinkSeal r i b
  abs (s : S.σ × Nat) i := (sim.abs s.1 i).bind (P.tinkOpen i)
  inv_init := ⟨sim.inv_init, fun i x h => by have h' : sim.abs S.init i = some x := h; rw [sim.abs_init] at h'; cases h'⟩
  abs_init i := by show (sim.abs S.init i).bind _ = none; rw [sim.abs_init]; rfl
  put_inv tx s i b h hb := by
    refine ⟨sim.put_inv tx s.1 i _ h.1 (hPQ _ _ b hb), fun j x hx => ?_⟩
    have hx' : sim.abs (S.put tx s.1 i (P.tinkSeal s.2 i b)) j = some x := hx
    rw [sim.put_abs tx s.1 i _ h.1 (hPQ _ _ b hb)] at hx'
    by_cases hj : j = i
    · subst hj; rw [upd_self] at hx'; exact ⟨s.2, b, (Option.some.inj hx').symm⟩
    · rw [upd_ne _ _ _ _ hj] at hx'; exact h.2 j x hx'
  put_abs tx s i b h hb := by
    show (fun j => (sim.abs (S.put tx s.1 i (P.tinkSeal s.2 i b)) j).bind (P.tinkOpen j)) = _
    rw [sim.put_abs tx s.1 i _ h.1 (hPQ _ _ b hb), upd_bind, hT.opens]
  get_inv tx s i h a := by
    have a' : Allowed ⟨Q, g, cin⟩ (sim.abs s.1 i) := by
      rcases a with a | a
      · exact Or.inl a
      · refine Or.inr ?_
        cases hx : sim.abs s.1 i with
        | none => rw [show (sim.abs s.1 i).bind (P.tinkOpen i) = none by rw [hx]; rfl] at a; cases a
        | some _ => rfl
    rw [tinkWrap_get_st]
    refine ⟨sim.get_inv tx s.1 i h.1 a', fun j x hx => ?_⟩
    have hx' : sim.abs (S.get tx s.1 i).st j = some x := hx
    rw [sim.get_abs tx s.1 i h.1 a'] at hx'
    exact h.2 j x hx'
  get_abs tx s i h a := by
    have a' : Allowed ⟨Q, g, cin⟩ (sim.abs s.1 i) := by
      rcases a with a | a
      · exact Or.inl a
      · refine Or.inr ?_
        cases hx : sim.abs s.1 i with
        | none => rw [show (sim.abs s.1 i).bind (P.tinkOpen i) = none by rw [hx]; rfl] at a; cases a
        | some _ => rfl
    funext j
    show (sim.abs ((tinkWrap P F S).get tx s i).st.1 j).bind _ = _
    rw [tinkWrap_get_st, sim.get_abs tx s.1 i h.1 a']
  get_out tx s i h a := by
    have a' : Allowed ⟨Q, g, cin⟩ (sim.abs s.1 i) := by
      rcases a with a | a
      · exact Or.inl a
      · refine Or.inr ?_
        cases hx : sim.abs s.1 i with
        | none => rw [show (sim.abs s.1 i).bind (P.tinkOpen i) = none by rw [hx]; rfl] at a; cases a
        | some _ => rfl
    have ho := sim.get_out tx s.1 i h.1 a'
    rw [tinkWrap_get_out]
    show OutOk _ ((sim.abs s.1 i).bind (P.tinkOpen i))
    cases hx : sim.abs s.1 i with
    | none => rw [hx] at ho; simp only [OutOk] at ho; rw [ho]; simp [OutOk]
    | some x =>
      rw [hx] at ho
      obtain ⟨st, hst, hb⟩ := ho
      obtain ⟨r, b, hxb⟩ := h.2 i x hx
      have hok : F.tinkStickyEof = true ∨ st.afterEof = [] := by
        rcases hclean with hc | hc
        · exact Or.inl hc
        · exact Or.inr (sim.get_clean tx s.1 i st h.1 a' hc hst)
      obtain ⟨st', h1, h2, _⟩ := tinkDecode_seal P hT F r i b st (hb.trans hxb) hok
      rw [hst]
      show OutOk (tinkDecode P F i st) _
      rw [h1, hxb, Option.bind_some, hT.opens]
      exact ⟨st', rfl, h2⟩
  get_clean tx s i st' h a hc he := by
    have a' : Allowed ⟨Q, g, cin⟩ (sim.abs s.1 i) := by
      rcases a with a | a
      · exact Or.inl a
      · refine Or.inr ?_
        cases hx : sim.abs s.1 i with
        | none => rw [show (sim.abs s.1 i).bind (P.tinkOpen i) = none by rw [hx]; rfl] at a; cases a
        | some _ => rfl
    have ho := sim.get_out tx s.1 i h.1 a'
    rw [tinkWrap_get_out] at he
    cases hx : sim.abs s.1 i with
    | none => rw [hx] at ho; simp only [OutOk] at ho; rw [ho] at he; cases he
    | some x =>
      rw [hx] at ho
      obtain ⟨st, hst, hb⟩ := ho
      obtain ⟨r, b, hxb⟩ := h.2 i x hx
      obtain ⟨st'', h1, _, h3⟩ := tinkDecode_seal P hT F r i b st (hb.trans hxb) (Or.inl hc)
      rw [hst] at he
      have he' : tinkDecode P F i st = .ok st' := he
      rw [h1] at he'
      have : st'' = st' := by injection he'
      subst this
      exact h3 hc
  get_quiet tx s i h a := by
    have a' : Allowed ⟨Q, g, cin⟩ (sim.abs s.1 i) := by
      rcases a with a | a
      · exact Or.inl a
      · refine Or.inr ?_
        cases hx : sim.abs s.1 i with
        | none => rw [show (sim.abs s.1 i).bind (P.tinkOpen i) = none by rw [hx]; rfl] at a; cases a
        | some _ => rfl
    rw [tinkWrap_get_panicked]; exact sim.get_quiet tx s.1 i h.1 a'
  del_inv tx s i h := by
    refine ⟨sim.del_inv tx s.1 i h.1, fun j x hx => ?_⟩
    have hx' : sim.abs (S.del tx s.1 i) j = some x := hx
    rw [sim.del_abs tx s.1 i h.1] at hx'
    by_cases hj : j = i
    · subst hj; rw [upd_self] at hx'; cases hx'
    · rw [upd_ne _ _ _ _ hj] at hx'; exact h.2 j x hx'
  del_abs tx s i h := by
    show (fun j => (sim.abs (S.del tx s.1 i) j).bind (P.tinkOpen j)) = _
    rw [sim.del_abs tx s.1 i h.1, upd_bind_none]
  tick_inv s h := by
    refine ⟨sim.tick_inv s.1 h.1, fun j x hx => ?_⟩
    have hx' : sim.abs (S.tick s.1) j = some x := hx
    rw [sim.tick_abs s.1 h.1] at hx'
    exact h.2 j x hx'
  tick_abs s h := by
    show (fun j => (sim.abs (S.tick s.1) j).bind (P.tinkOpen j)) = _
    rw [sim.tick_abs s.1 h.1]
  ids_mem s i h := by
    show i ∈ S.ids s.1 ↔ ((sim.abs s.1 i).bind _).isSome = true
    rw [sim.ids_mem s.1 i h.1]
    cases hx : sim.abs s.1 i with
    | none => simp
    | some x =>
      obtain ⟨r, b, hxb⟩ := h.2 i x hx
      simp [hxb, hT.opens]
  ids_nodup s h := sim.ids_nodup s.1 h.1

end Pithos.PartStore
