/-
Helper lemmas for C19 (part 2): the eviction checkers, the LFU bookkeeping invariants, and the
association lists used as persistor / part-store contents.
-/
import Pithos.Lemmas.Cache

namespace Pithos.Cache
open List

set_option linter.unusedSimpArgs false
set_option linter.unusedVariables false

/-! ### association lists (`filter`/`find?`) -/

theorem fne_cons_eq {α} (a : Nat × α) (t : List (Nat × α)) (k : Nat) (h : a.1 = k) :
    (a :: t).filter (fun p => p.1 != k) = t.filter (fun p => p.1 != k) := by
  rw [List.filter_cons_of_neg]; simp [h]

theorem fne_cons_ne {α} (a : Nat × α) (t : List (Nat × α)) (k : Nat) (h : a.1 ≠ k) :
    (a :: t).filter (fun p => p.1 != k) = a :: t.filter (fun p => p.1 != k) := by
  rw [List.filter_cons_of_pos]; simp [h]

theorem find_cons_eq {α} (a : Nat × α) (t : List (Nat × α)) (k : Nat) (h : a.1 = k) :
    (a :: t).find? (fun p => p.1 == k) = some a := by
  rw [List.find?_cons_of_pos]; simp [h]

theorem find_cons_ne {α} (a : Nat × α) (t : List (Nat × α)) (k : Nat) (h : a.1 ≠ k) :
    (a :: t).find? (fun p => p.1 == k) = t.find? (fun p => p.1 == k) := by
  rw [List.find?_cons_of_neg]; simp [h]

theorem find_filter_ne {α} (st : List (Nat × α)) (k k' : Nat) (h : k' ≠ k) :
    (st.filter (fun p => p.1 != k)).find? (fun p => p.1 == k') = st.find? (fun p => p.1 == k') := by
  induction st with
  | nil => rfl
  | cons a t ih =>
    by_cases ha : a.1 = k
    · rw [fne_cons_eq a t k ha, ih, find_cons_ne a t k' (by rw [ha]; exact Ne.symm h)]
    · rw [fne_cons_ne a t k ha]
      by_cases hk' : a.1 = k'
      · rw [find_cons_eq _ _ k' hk', find_cons_eq _ _ k' hk']
      · rw [find_cons_ne _ _ k' hk', find_cons_ne _ _ k' hk', ih]

theorem find_filter_self {α} (st : List (Nat × α)) (k : Nat) :
    (st.filter (fun p => p.1 != k)).find? (fun p => p.1 == k) = none := by
  induction st with
  | nil => rfl
  | cons a t ih =>
    by_cases ha : a.1 = k
    · rw [fne_cons_eq a t k ha, ih]
    · rw [fne_cons_ne a t k ha, find_cons_ne _ _ k ha, ih]

theorem mem_of_find {α} (st : List (Nat × α)) (k : Nat) (p : Nat × α)
    (h : st.find? (fun q => q.1 == k) = some p) : p ∈ st ∧ p.1 = k := by
  refine ⟨List.mem_of_find?_eq_some h, ?_⟩
  have := List.find?_some h
  simpa using this

/-! ### eviction checkers -/

/-- Bookkeeping invariant of a checker: one entry per key, and (size limit) the running counter is the
sum of the recorded sizes. -/
def Checker.Ok (c : Checker) : Prop :=
  c.keys.Nodup ∧ (∀ m, c.limit = .size m → c.cur = (c.tracked.map (·.2)).sum)

theorem Checker.ok_init (l : Limit) : (Checker.init l).Ok := by
  constructor
  · simp [Checker.init, Checker.keys]
  · intro m _; simp [Checker.init]

theorem keys_filter (tr : List (Key × Nat)) (k k' : Key) :
    k' ∈ (tr.filter (fun p => p.1 != k)).map (·.1) ↔ k' ∈ tr.map (·.1) ∧ k' ≠ k := by
  simp only [List.mem_map, List.mem_filter]
  constructor
  · rintro ⟨p, ⟨hp, hne⟩, rfl⟩
    exact ⟨⟨p, hp, rfl⟩, by simpa using hne⟩
  · rintro ⟨⟨p, hp, rfl⟩, hne⟩
    exact ⟨p, ⟨hp, by simpa using hne⟩, rfl⟩

theorem nodup_filter_keys (tr : List (Key × Nat)) (k : Key) (h : (tr.map (·.1)).Nodup) :
    ((tr.filter (fun p => p.1 != k)).map (·.1)).Nodup := by
  induction tr with
  | nil => simp
  | cons a t ih =>
    simp only [List.map_cons, List.nodup_cons] at h
    by_cases ha : a.1 = k
    · rw [fne_cons_eq a t k ha]; exact ih h.2
    · rw [fne_cons_ne a t k ha]
      simp only [List.map_cons, List.nodup_cons]
      refine ⟨?_, ih h.2⟩
      intro hm
      exact h.1 ((keys_filter t k a.1).1 hm).1

/-- With one entry per key, the sum of the sizes splits into the entry of `k` and the rest. -/
theorem sum_split (tr : List (Key × Nat)) (k : Key) (h : (tr.map (·.1)).Nodup) :
    (tr.map (·.2)).sum = ((tr.find? (fun p => p.1 == k)).map (·.2)).getD 0 + ((tr.filter (fun p => p.1 != k)).map (·.2)).sum := by
  induction tr with
  | nil => simp
  | cons a t ih =>
    simp only [List.map_cons, List.nodup_cons] at h
    by_cases ha : a.1 = k
    · -- `k` does not occur in the tail
      have hnot : ∀ p ∈ t, (p.1 != k) = true := by
        intro p hp
        have : p.1 ≠ a.1 := fun e => h.1 (List.mem_map.2 ⟨p, hp, e⟩)
        simpa [ha] using this
      have hfil : t.filter (fun p => p.1 != k) = t := List.filter_eq_self.2 hnot
      rw [fne_cons_eq a t k ha, find_cons_eq a t k ha, hfil]
      simp
    · have := ih h.2
      rw [fne_cons_ne a t k ha, find_cons_ne a t k ha]
      simp only [List.map_cons, List.sum_cons]
      rw [this]
      exact Nat.add_left_comm _ _ _

theorem Checker.mem_keys_trackRemove (c : Checker) (k k' : Key) :
    k' ∈ (c.trackRemove k).keys ↔ k' ∈ c.keys ∧ k' ≠ k := by
  simp only [Checker.trackRemove, Checker.keys]
  exact keys_filter c.tracked k k'

theorem Checker.ok_trackRemove (c : Checker) (k : Key) (h : c.Ok) : (c.trackRemove k).Ok := by
  constructor
  · exact nodup_filter_keys c.tracked k h.1
  · intro m hm
    have h2 := h.2 m hm
    have := sum_split c.tracked k h.1
    simp only [Checker.trackRemove, Checker.sizeOf] at *
    omega

theorem Checker.mem_keys_trackSet (c : Checker) (k k' : Key) (sz : Nat) :
    k' ∈ (c.trackSet k sz).keys ↔ k' = k ∨ k' ∈ c.keys := by
  unfold Checker.trackSet
  cases hl : c.limit with
  | size m =>
    simp only [Checker.keys, List.map_cons, List.mem_cons]
    rw [keys_filter]
    by_cases e : k' = k <;> simp [e]
  | keys m =>
    simp only []
    split
    · next hs =>
      -- already tracked: nothing changes, and `k` is a key
      have : k ∈ c.keys := by
        simp only [Checker.sizeOf, Option.isSome_map] at hs
        obtain ⟨p, hp⟩ := Option.isSome_iff_exists.1 hs
        obtain ⟨h1, h2⟩ := mem_of_find _ _ _ hp
        exact List.mem_map.2 ⟨p, h1, h2⟩
      constructor
      · exact Or.inr
      · rintro (rfl | h)
        · exact this
        · exact h
    · simp only [Checker.keys, List.map_cons, List.mem_cons]

theorem Checker.ok_trackSet (c : Checker) (k : Key) (sz : Nat) (h : c.Ok) : (c.trackSet k sz).Ok := by
  unfold Checker.trackSet
  cases hl : c.limit with
  | size m =>
    constructor
    · simp only [Checker.keys, List.map_cons, List.nodup_cons]
      refine ⟨?_, nodup_filter_keys c.tracked k h.1⟩
      intro hm
      exact ((keys_filter c.tracked k k).1 hm).2 rfl
    · intro m' _
      have h2 := h.2 m hl
      have := sum_split c.tracked k h.1
      simp only [Checker.sizeOf, List.map_cons, List.sum_cons] at *
      omega
  | keys m =>
    simp only []
    split
    · exact h
    · next hs =>
      constructor
      · simp only [Checker.keys, List.map_cons, List.nodup_cons]
        refine ⟨?_, h.1⟩
        intro hm
        apply hs
        obtain ⟨p, hp, hpk⟩ := List.mem_map.1 hm
        simp only [Checker.sizeOf, Option.isSome_map]
        rw [List.find?_isSome]
        exact ⟨p, hp, by simpa using hpk⟩
      · intro m' hm'
        simp [hl] at hm'

theorem Checker.limit_trackRemove (c : Checker) (k : Key) : (c.trackRemove k).limit = c.limit := rfl

theorem Checker.limit_trackSet (c : Checker) (k : Key) (sz : Nat) : (c.trackSet k sz).limit = c.limit := by
  unfold Checker.trackSet
  cases hl : c.limit with
  | size m => simp only [hl]
  | keys m =>
    simp only []
    split
    · exact hl
    · simp only [hl]

/-- Size limit: the recorded size of `k` after `TrackSet(k, sz)` is `sz`. -/
theorem Checker.size_trackSet (c : Checker) (k : Key) (sz m : Nat) (hl : c.limit = .size m) :
    ∀ p ∈ (c.trackSet k sz).tracked, p.1 = k → p.2 = sz := by
  unfold Checker.trackSet
  simp only [hl]
  intro p hp hk
  simp only [List.mem_cons, List.mem_filter] at hp
  rcases hp with rfl | ⟨_, hne⟩
  · rfl
  · simp [hk] at hne

theorem Checker.size_trackRemove (c : Checker) (k k' : Key) (sz : Nat)
    (h : ∀ p ∈ c.tracked, p.1 = k → p.2 = sz) : ∀ p ∈ (c.trackRemove k').tracked, p.1 = k → p.2 = sz := by
  intro p hp hk
  simp only [Checker.trackRemove, List.mem_filter] at hp
  exact h p hp.1 hk

/-- A checker whose only possible key is `k`, recorded with a size that fits, does not ask for eviction. -/
theorem Checker.no_evict_of_only (c : Checker) (k : Key) (sz : Nat) (h : c.Ok)
    (honly : ∀ k' ∈ c.keys, k' = k) (hsz : ∀ m, c.limit = .size m → ∀ p ∈ c.tracked, p.1 = k → p.2 = sz)
    (hfit : match c.limit with | .size m => sz ≤ m | .keys m => 1 ≤ m) : c.shouldEvict = false := by
  -- at most one entry
  have hlen : c.tracked.length ≤ 1 := by
    match hc : c.tracked with
    | [] => simp
    | [_] => simp
    | a :: b :: t =>
      exfalso
      have h1 := h.1
      simp only [Checker.keys, hc, List.map_cons, List.nodup_cons, List.mem_cons] at h1
      have ha := honly a.1 (by simp [Checker.keys, hc])
      have hb := honly b.1 (by simp [Checker.keys, hc])
      exact h1.1 (Or.inl (ha.trans hb.symm))
  unfold Checker.shouldEvict
  cases hl : c.limit with
  | size m =>
    simp only [hl] at hfit
    have hcur := h.2 m hl
    simp only [decide_eq_false_iff_not, Nat.not_lt, gt_iff_lt]
    match hc : c.tracked with
    | [] => simp [hc] at hcur; omega
    | [a] =>
      have ha := honly a.1 (by simp [Checker.keys, hc])
      have := hsz m hl a (by simp [hc]) ha
      simp [hc] at hcur; omega
    | a :: b :: t => simp [hc] at hlen
  | keys m =>
    simp only [hl] at hfit
    simp only [decide_eq_false_iff_not, Nat.not_lt, gt_iff_lt]
    omega

/-! ### the eviction loop -/

theorem evictLoop_inv (g : Bool) (P : Checker → Heap → Prop)
    (hstep : ∀ c h e h', P c h → c.shouldEvict = true → pop h = some (e, h') → P (c.trackRemove e.key) h') :
    ∀ (f : Nat) (c : Checker) (h : Heap) (ev : List Key) (r : Checker × Heap × List Key),
      P c h → evictLoop g f c h ev = some r → P r.1 r.2.1
  | 0, c, h, ev, r, hp, he => by
    simp only [evictLoop, Option.some.injEq] at he
    subst he; exact hp
  | f + 1, c, h, ev, r, hp, he => by
    simp only [evictLoop] at he
    split at he
    · next hs =>
      split at he
      · split at he
        · simp only [Option.some.injEq] at he; subst he; exact hp
        · cases he
      · next e h' hpop => exact evictLoop_inv g P hstep f _ _ _ r (hstep c h e h' hp hs hpop) he
    · simp only [Option.some.injEq] at he; subst he; exact hp

theorem evictLoop_guarded_some : ∀ (f : Nat) (c : Checker) (h : Heap) (ev : List Key),
    (evictLoop true f c h ev).isSome = true
  | 0, _, _, _ => rfl
  | f + 1, c, h, ev => by
    simp only [evictLoop]
    split
    · split
      · rfl
      · exact evictLoop_guarded_some f _ _ _
    · rfl

theorem evictLoop_some (g : Bool) (P : Checker → Heap → Prop)
    (hstep : ∀ c h e h', P c h → c.shouldEvict = true → pop h = some (e, h') → P (c.trackRemove e.key) h')
    (hne : ∀ c h, P c h → c.shouldEvict = true → h ≠ []) :
    ∀ (f : Nat) (c : Checker) (h : Heap) (ev : List Key), P c h → (evictLoop g f c h ev).isSome = true
  | 0, _, _, _, _ => rfl
  | f + 1, c, h, ev, hp => by
    simp only [evictLoop]
    split
    · next hs =>
      split
      · next hpop => exact absurd ((pop_none h).1 hpop) (hne c h hp hs)
      · next e h' hpop => exact evictLoop_some g P hstep hne f _ _ _ (hstep c h e h' hp hs hpop)
    · rfl

theorem hkeys_pop (h h' : Heap) (e : Entry) (hp : pop h = some (e, h')) :
    (e.key :: hkeys h').Perm (hkeys h) := hkeys_perm (pop_perm h e h' hp)

theorem hkeys_set_same : ∀ (h : Heap) (i : Nat) (e e' : Entry), h[i]? = some e → e'.key = e.key →
    hkeys (h.set i e') = hkeys h
  | [], _, _, _, hi, _ => by simp at hi
  | a :: t, 0, e, e', hi, hk => by
    simp only [List.getElem?_cons_zero, Option.some.injEq] at hi
    subst hi
    simp [hkeys, hk]
  | a :: t, i + 1, e, e', hi, hk => by
    simp only [List.getElem?_cons_succ] at hi
    have := hkeys_set_same t i e e' hi hk
    simp only [hkeys, List.set_cons_succ, List.map_cons] at this ⊢
    rw [this]

end Pithos.Cache
