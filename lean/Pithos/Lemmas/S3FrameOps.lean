/-
C01 frame, operation level: `install`, `putRow` and `deleteOp` on another key (or another bucket)
leave the current-version view of (b, k) unchanged.
-/
import Pithos.Lemmas.S3Frame

namespace Pithos.S3

theorem curView_congr {s s' : State} (h : s'.buckets = s.buckets) (b k : String) : curView s' b k = curView s b k := by
  unfold curView; rw [findBucket_congr h]

/-- One bucket (found under `b'`) is replaced by `X` of the same name. -/
theorem cur_update {s st' : State} {b b' k : String} {bk1 X : Bucket}
    (hfb' : findBucket s b' = some bk1) (hX : X.name = bk1.name) (hst : st'.buckets = (setBucket s X).buckets)
    (hk : b' = b → CVr k X.rows = CVr k bk1.rows) : curView st' b k = curView s b k := by
  have hn1 := findBucket_some_name hfb'
  rw [curView_congr hst]
  unfold curView
  by_cases hbb : b' = b
  · subst hbb
    rw [findBucket_setBucket hfb' (by rw [hX, hn1]), hfb']
    exact hk rfl
  · rw [findBucket_setBucket_ne (by rw [hX, hn1]; exact hbb)]

theorem cur_ite {b k : String} {v : Option CV} {c : Prop} [Decidable c] {x y : State × Out}
    (hx : curView x.1 b k = v) (hy : curView y.1 b k = v) : curView (if c then x else y).1 b k = v := by
  split <;> assumption

theorem cur_dite {b k : String} {v : Option CV} {c : Prop} [Decidable c] {x y : State × Out}
    (hx : c → curView x.1 b k = v) (hy : ¬c → curView y.1 b k = v) : curView (if c then x else y).1 b k = v := by
  split
  · exact hx ‹_›
  · exact hy ‹_›

-- ------------------------------------------------------------------ rows-level edits on another key

theorem cvr_unlatest {q : Quirks} {k : String} {bk : Bucket} {n : Nat} (now : Nat) (c : Row) (hb : RowsInv n bk.rows)
    (hc : c ∈ bk.rows) (hck : c.key ≠ k) : CVr k (unlatest q now bk c).rows = CVr k bk.rows := by
  rw [unlatest_rows]
  exact cvr_repl_other hb hc rfl hck hck

theorem cvr_unlatestCur {q : Quirks} {k k' : String} {bk : Bucket} {n : Nat} (now : Nat) (hb : RowsInv n bk.rows)
    (hne : k' ≠ k) : CVr k (unlatestCur q now bk k').rows = CVr k bk.rows := by
  unfold unlatestCur
  cases hl : latestRow bk k' with
  | none => rfl
  | some c =>
    obtain ⟨hc, hk, _⟩ := latestRow_some hl
    exact cvr_unlatest now c hb hc (by rw [hk]; exact hne)

/-- Shape of `install`: the bucket is replaced by one of the same name; for another key the
current-version view is untouched. -/
theorem install_shape (q : Quirks) (s : State) (bk : Bucket) (k' : String) (n : NewObj) (k : String) :
    ∃ X, (install q s bk k' n).1.buckets = (setBucket s X).buckets ∧ X.name = bk.name ∧
      (k' ≠ k → RowsInv s.nextRow bk.rows → CVr k X.rows = CVr k bk.rows) := by
  unfold install
  simp only []
  split
  · refine ⟨_, rfl, by rw [addRow_name, unlatestCur_name], ?_⟩
    intro hne hb
    rw [addRow_rows, cvr_append _ _ _ (pk_false_of_key (by simp [mkRow]; exact hne))]
    exact cvr_unlatestCur s.clock hb hne
  · split
    · rename_i nr hnr
      refine ⟨_, rfl, by rw [replaceRow_name, unlatestCur_name], ?_⟩
      intro hne hb
      obtain ⟨hmem, hkey, _⟩ := rowByVid_mem (by simpa [nullRow] using hnr)
      obtain ⟨r', hr', hid⟩ := mem_ids_unlatestCur q s.clock bk k' hmem
      have hb2 := inv_unlatestCur q s.clock bk k' hb
      rw [replaceRow_rows]
      -- r' (the row with nr's id after clearing the latest flag) still has key k'
      have hr'k : r'.key ≠ k := by
        -- rows of unlatestCur keep their keys
        have : r'.key = nr.key := by
          unfold unlatestCur at hr'
          cases hl : latestRow bk k' with
          | none => rw [hl] at hr'; simp only [] at hr'; rw [eq_of_id_eq hb.nodup hr' hmem hid]
          | some c =>
            rw [hl] at hr'; simp only [] at hr'
            rw [unlatest_rows] at hr'
            rcases mem_repl hr' with hy | ⟨hin, _⟩
            · -- r' is the re-saved c, and c has nr's id, so c = nr
              have hcid : c.rowId = nr.rowId := by rw [← hid, hy]
              have : c = nr := eq_of_id_eq hb.nodup (latestRow_some hl).1 hmem hcid
              rw [hy, ← this]
            · rw [eq_of_id_eq hb.nodup hin hmem hid]
        rw [this, hkey]; exact hne
      rw [cvr_repl_other hb2 hr' (by simp [mkRow, hid]) hr'k (by simp [mkRow]; exact hne)]
      exact cvr_unlatestCur s.clock hb hne
    · refine ⟨_, rfl, by rw [addRow_name, unlatestCur_name], ?_⟩
      intro hne hb
      rw [addRow_rows, cvr_append _ _ _ (pk_false_of_key (by simp [mkRow]; exact hne))]
      exact cvr_unlatestCur s.clock hb hne

theorem cvr_touch {q : Quirks} {k : String} {bk : Bucket} {n : Nat} (now : Nat) (c : Row) (hb : RowsInv n bk.rows)
    (hc : c ∈ bk.rows) (hck : c.key ≠ k) : CVr k (replaceRow bk (touch q now c)).rows = CVr k bk.rows := by
  rw [replaceRow_rows]
  exact cvr_repl_other hb hc rfl hck hck

/-- Shape of a successful `putRow`. -/
theorem putRow_shape {q : Quirks} {s : State} {bk : Bucket} {k' : String} {n : NewObj} {inm : Bool} {im : IfMatch}
    {s' : State} {vid : Option Nat} (hok : putRow q s bk k' n inm im = .ok (s', vid)) (k : String) :
    ∃ X, s'.buckets = (setBucket s X).buckets ∧ X.name = bk.name ∧
      (k' ≠ k → RowsInv s.nextRow bk.rows → CVr k X.rows = CVr k bk.rows) := by
  obtain ⟨bk1, hbk1, hx⟩ := putRow_ok hok
  have hs : s' = (install q s bk1 k' n).1 := by rw [← hx]
  obtain ⟨X, h1, h2, h3⟩ := install_shape q s bk1 k' n k
  rw [hs]
  rcases hbk1 with rfl | ⟨c, hl, rfl⟩
  · exact ⟨X, h1, h2, h3⟩
  · refine ⟨X, h1, by rw [h2, replaceRow_name], ?_⟩
    intro hne hb
    obtain ⟨hc, hk, _⟩ := latestRow_some hl
    rw [h3 hne (touch_inv q s.clock bk c hb hc)]
    exact cvr_touch s.clock c hb hc (by rw [hk]; exact hne)

theorem cvr_removeRow {k : String} {bk : Bucket} {n : Nat} (c : Row) (hb : RowsInv n bk.rows)
    (hc : c ∈ bk.rows) (hck : c.key ≠ k) : CVr k (removeRow bk c.rowId).rows = CVr k bk.rows := by
  rw [removeRow_rows]
  apply cvr_filter
  intro x hx hf
  have : x = c := eq_of_id_eq hb.nodup hx hc (by simpa using hf)
  subst this
  exact pk_false_of_key hck

theorem cvr_promote {q : Quirks} {k k' : String} {bk : Bucket} {n : Nat} (now : Nat) (hb : RowsInv n bk.rows)
    (hne : k' ≠ k) : CVr k (promote q now bk k').rows = CVr k bk.rows := by
  unfold promote
  simp only []
  split
  · rfl
  · rename_i r hr
    have hm := List.mem_filter.1 (maxBy_mem _ _ _ hr)
    have hrk : r.key = k' := by simpa using hm.2
    rw [replaceRow_rows]
    exact cvr_repl_other hb hm.1 rfl (by rw [hrk]; exact hne) (by simp [hrk]; exact hne)

/-- Nothing stored changes, or the bucket is replaced by one of the same name whose
current-version view of every other key is untouched. -/
def Shape (s : State) (bk : Bucket) (k' k : String) (st : State) : Prop :=
  st.buckets = s.buckets ∨
    ∃ X, st.buckets = (setBucket s X).buckets ∧ X.name = bk.name ∧
      (k' ≠ k → RowsInv s.nextRow bk.rows → CVr k X.rows = CVr k bk.rows)

theorem shape_ite {s : State} {bk : Bucket} {k' k : String} {c : Prop} [Decidable c] {x y : State × Out}
    (hx : Shape s bk k' k x.1) (hy : Shape s bk k' k y.1) : Shape s bk k' k (if c then x else y).1 := by
  split <;> assumption

theorem deleteOp_shape (q : Quirks) (s : State) (bk : Bucket) (k' : String) (vid : Option (Option Nat)) (im : IfMatch)
    (k : String) : Shape s bk k' k (deleteOp q s bk k' vid im).1 := by
  cases vid with
  | some v =>
    unfold deleteOp
    simp only []
    apply shape_ite
    · apply shape_ite <;> exact Or.inl rfl
    · cases hv : rowByVid bk k' v with
      | none => exact Or.inl rfl
      | some r =>
        simp only []
        apply shape_ite
        · exact Or.inl rfl
        · right
          obtain ⟨hr, hk, _⟩ := rowByVid_mem hv
          refine ⟨_, rfl, ?_, ?_⟩
          · split
            · unfold promote; simp only []; split
              · exact removeRow_name _ _
              · rw [replaceRow_name, removeRow_name]
            · exact removeRow_name _ _
          · intro hne hb
            have h1 : RowsInv s.nextRow (removeRow bk r.rowId).rows := by rw [removeRow_rows]; exact hb.filter _
            have h2 := cvr_removeRow (k := k) r hb hr (by rw [hk]; exact hne)
            split
            · rw [cvr_promote s.clock h1 hne, h2]
            · exact h2
  | none =>
    unfold deleteOp
    simp only []
    apply shape_ite
    · apply shape_ite <;> exact Or.inl rfl
    · apply shape_ite
      · exact Or.inl rfl
      · apply shape_ite
        · -- versioned
          right
          -- bk1: possibly without the null row
          generalize hb1 : (if (bk.ver == Versioning.suspended) = true then
              match nullRow bk k' with
              | some n => removeRow bk n.rowId
              | none => bk
            else bk) = bk1
          have hbk1 : bk1.name = bk.name ∧ (k' ≠ k → RowsInv s.nextRow bk.rows →
              RowsInv s.nextRow bk1.rows ∧ CVr k bk1.rows = CVr k bk.rows) := by
            rw [← hb1]
            split
            · cases hn : nullRow bk k' with
              | none => exact ⟨rfl, fun _ hb => ⟨hb, rfl⟩⟩
              | some nr =>
                simp only []
                refine ⟨removeRow_name _ _, fun hne hb => ⟨by rw [removeRow_rows]; exact hb.filter _, ?_⟩⟩
                obtain ⟨hmem, hkey, _⟩ := rowByVid_mem (by simpa [nullRow] using hn)
                exact cvr_removeRow nr hb hmem (by rw [hkey]; exact hne)
            · exact ⟨rfl, fun _ hb => ⟨hb, rfl⟩⟩
          refine ⟨_, rfl, ?_, ?_⟩
          · rw [addRow_name]
            cases hc : latestRow bk k' with
            | none => exact hbk1.1
            | some r =>
              simp only []
              split
              · unfold unlatest; rw [replaceRow_name]; exact hbk1.1
              · exact hbk1.1
          · intro hne hb
            obtain ⟨hinv1, hcv1⟩ := hbk1.2 hne hb
            rw [addRow_rows, cvr_append _ _ _ (pk_false_of_key (by simpa using hne))]
            cases hc : latestRow bk k' with
            | none => exact hcv1
            | some r =>
              simp only []
              obtain ⟨hr, hk, _⟩ := latestRow_some hc
              split
              · rename_i hany
                obtain ⟨x, hx, hxe⟩ := List.any_eq_true.1 hany
                -- x ∈ bk1.rows has r's id; rows of bk1 are rows of bk
                have hsub : ∀ y ∈ bk1.rows, y ∈ bk.rows := by
                  rw [← hb1]
                  intro y hy
                  split at hy
                  · cases hn : nullRow bk k' with
                    | none => rw [hn] at hy; exact hy
                    | some nr => rw [hn] at hy; simp only [] at hy; rw [removeRow_rows] at hy; exact (List.mem_filter.1 hy).1
                  · exact hy
                have hxr : x = r := eq_of_id_eq hb.nodup (hsub x hx) hr (by simpa using hxe)
                rw [cvr_unlatest s.clock r hinv1 (by rw [← hxr]; exact hx) (by rw [hk]; exact hne)]
                exact hcv1
              · exact hcv1
        · -- unversioned: remove the current row
          cases hc : latestRow bk k' with
          | none => exact Or.inl rfl
          | some r =>
            simp only []
            right
            refine ⟨_, rfl, removeRow_name _ _, ?_⟩
            intro hne hb
            obtain ⟨hr, hk, _⟩ := latestRow_some hc
            exact cvr_removeRow r hb hr (by rw [hk]; exact hne)

end Pithos.S3
