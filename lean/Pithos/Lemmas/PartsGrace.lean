/-
Helper lemmas for C08: the grace-window system `Pithos.Parts.Grace` — the collector's candidate
list is harmless as long as no part of a still-open transaction is old enough to be listed.
Core Lean only.
-/
import Pithos.Model.Parts

namespace Pithos.Parts.Grace

/-- Every part referenced by a committed row is present. -/
def Safe (g : G) : Prop := ∀ p ∈ g.committed, p ∈ ids g

/-- No part of a still-open transaction is older than the grace window. -/
def Young (grace : Nat) (g : G) : Prop := ∀ e ∈ g.store, e.1 ∈ g.inflight → ¬ (e.2 + grace < g.now)

/-- The timing assumption, stated exactly where it is used: at every listing of a store that
shows uncommitted parts. -/
def Timely (grace : Nat) : G → List GA → Prop
  | _, [] => True
  | g, a :: as => (a = .list → Young grace g) ∧ Timely grace (gstep grace g a) as

structure GInv (g : G) : Prop where
  safe : ∀ p ∈ g.committed, p ∈ ids g
  infl : ∀ f ∈ g.inflight, f ∈ ids g ∧ f ∉ g.cands
  disj : ∀ f ∈ g.inflight, f ∉ g.committed
  ucands : ∀ p ∈ g.cands, p ∈ g.used
  ustore : ∀ p ∈ ids g, p ∈ g.used

theorem ginv_init : GInv G.init := by
  refine ⟨?_, ?_, ?_, ?_, ?_⟩ <;> simp [G.init, ids]

theorem mem_ids_filter {store : List (PartId × Nat)} {p q : PartId} (h : p ∈ store.map (·.1)) (hne : p ≠ q) :
    p ∈ (store.filter (fun e => e.1 != q)).map (·.1) := by
  obtain ⟨e, he, hp⟩ := List.mem_map.1 h
  exact List.mem_map.2 ⟨e, List.mem_filter.2 ⟨he, by simp [hp, hne]⟩, hp⟩

theorem mem_ids_of_filter {store : List (PartId × Nat)} {p : PartId} {f : PartId × Nat → Bool}
    (h : p ∈ (store.filter f).map (·.1)) : p ∈ store.map (·.1) := by
  obtain ⟨e, he, hp⟩ := List.mem_map.1 h
  exact List.mem_map.2 ⟨e, (List.mem_filter.1 he).1, hp⟩

theorem gstep_inv (grace : Nat) {g : G} (h : GInv g) (a : GA) (ht : a = .list → Young grace g) :
    GInv (gstep grace g a) := by
  cases a with
  | put f =>
    simp only [gstep]
    split
    · exact h
    · next hf =>
      refine ⟨?_, ?_, ?_, ?_, ?_⟩
      · intro p hp; simp only [ids, List.map_cons]; exact List.mem_cons_of_mem _ (h.safe p hp)
      · intro x hx
        rcases List.mem_cons.1 hx with hx | hx
        · subst hx
          exact ⟨by simp [ids], fun hc => hf (h.ucands _ hc)⟩
        · exact ⟨by simp only [ids, List.map_cons]; exact List.mem_cons_of_mem _ (h.infl x hx).1, (h.infl x hx).2⟩
      · intro x hx
        rcases List.mem_cons.1 hx with hx | hx
        · subst hx; intro hc; exact hf (h.ustore _ (h.safe _ hc))
        · exact h.disj x hx
      · intro p hp; exact List.mem_cons_of_mem _ (h.ucands p hp)
      · intro p hp
        simp only [ids, List.map_cons] at hp
        rcases List.mem_cons.1 hp with hp | hp
        · subst hp; simp
        · exact List.mem_cons_of_mem _ (h.ustore p hp)
  | commit f =>
    simp only [gstep]
    split
    · next hf =>
      refine ⟨?_, ?_, ?_, h.ucands, h.ustore⟩
      · intro p hp
        rcases List.mem_cons.1 hp with hp | hp
        · subst hp; exact (h.infl _ hf).1
        · exact h.safe p hp
      · intro x hx; exact h.infl x (List.mem_filter.1 hx).1
      · intro x hx hc
        obtain ⟨hx1, hx2⟩ := List.mem_filter.1 hx
        rcases List.mem_cons.1 hc with hc | hc
        · simp [hc] at hx2
        · exact h.disj x hx1 hc
    · exact h
  | rollback f =>
    simp only [gstep]
    split
    · next hf =>
      refine ⟨?_, ?_, ?_, h.ucands, ?_⟩
      · intro p hp
        have hne : p ≠ f := by intro heq; subst heq; exact h.disj _ hf hp
        exact mem_ids_filter (h.safe p hp) hne
      · intro x hx
        obtain ⟨hx1, hx2⟩ := List.mem_filter.1 hx
        have hne : x ≠ f := by simpa using hx2
        exact ⟨mem_ids_filter (h.infl x hx1).1 hne, (h.infl x hx1).2⟩
      · intro x hx; exact h.disj x (List.mem_filter.1 hx).1
      · intro p hp; exact h.ustore p (mem_ids_of_filter hp)
    · exact h
  | tick n => exact ⟨h.safe, h.infl, h.disj, h.ucands, h.ustore⟩
  | list =>
    have hy := ht rfl
    refine ⟨h.safe, ?_, h.disj, ?_, h.ustore⟩
    · intro x hx
      refine ⟨(h.infl x hx).1, ?_⟩
      intro hc
      simp only [gstep] at hc
      obtain ⟨e, he, hp⟩ := List.mem_map.1 hc
      obtain ⟨he1, he2⟩ := List.mem_filter.1 he
      have : e.1 ∈ g.inflight := by rw [hp]; exact hx
      exact hy e he1 this (by simpa using he2)
    · intro p hp
      simp only [gstep] at hp
      exact h.ustore p (mem_ids_of_filter hp)
  | listTx =>
    refine ⟨h.safe, ?_, h.disj, ?_, h.ustore⟩
    · intro x hx
      refine ⟨(h.infl x hx).1, ?_⟩
      intro hc
      simp only [gstep] at hc
      obtain ⟨e, he, hp⟩ := List.mem_map.1 hc
      obtain ⟨_, he2⟩ := List.mem_filter.1 he
      simp at he2
      exact he2.2 (by rw [hp]; exact hx)
    · intro p hp
      simp only [gstep] at hp
      exact h.ustore p (mem_ids_of_filter hp)
  | condemn =>
    simp only [gstep]
    cases hc : g.cands with
    | nil => exact h
    | cons p rest =>
      simp only []
      have hsub : ∀ x, x ∈ rest → x ∈ g.cands := by intro x hx; rw [hc]; exact List.mem_cons_of_mem _ hx
      split
      · exact ⟨h.safe, fun x hx => ⟨(h.infl x hx).1, fun hr => (h.infl x hx).2 (hsub x hr)⟩, h.disj,
          fun x hx => h.ucands x (hsub x hx), h.ustore⟩
      · next hnc =>
        refine ⟨?_, ?_, h.disj, fun x hx => h.ucands x (hsub x hx), ?_⟩
        · intro q hq
          have hne : q ≠ p := by intro heq; subst heq; exact hnc hq
          exact mem_ids_filter (h.safe q hq) hne
        · intro x hx
          have hne : x ≠ p := by
            intro heq; subst heq
            exact (h.infl x hx).2 (by rw [hc]; simp)
          exact ⟨mem_ids_filter (h.infl x hx).1 hne, fun hr => (h.infl x hx).2 (hsub x hr)⟩
        · intro q hq; exact h.ustore q (mem_ids_of_filter hq)

theorem grun_inv (grace : Nat) {g : G} (h : GInv g) (as : List GA) (ht : Timely grace g as) :
    GInv (grun grace g as) := by
  induction as generalizing g with
  | nil => exact h
  | cons a as ih =>
    simp only [Timely] at ht
    exact ih (gstep_inv grace h a ht.1) ht.2

end Pithos.Parts.Grace
