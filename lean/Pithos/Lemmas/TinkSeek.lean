/-
Lemmas about the segment arithmetic of seekable.go and the layout tink-go's writer produces
(helpers for C16). `css` is the ciphertext segment size; everything is for every `css > 56`
(= tink header + tag, the smallest size both tink-go and seekable.go accept).
-/
import Pithos.Model.TinkSeek
import Pithos.Lemmas.PartCodec

namespace Pithos.Tink
open Pithos.Codec

/-- plaintext capacity of segment `j` -/
def capOf (css j : Nat) : Nat := if j = 0 then cap0 css else pss css

/-! ## positions ↔ (segment, offset in segment) -/

theorem cap0_pos (css : Nat) (h : 56 < css) : 0 < cap0 css := by simp [cap0, tagLen, hdrLen]; omega
theorem pss_pos (css : Nat) (h : 56 < css) : 0 < pss css := by simp [pss, tagLen]; omega
theorem capOf_pos (css j : Nat) (h : 56 < css) : 0 < capOf css j := by
  unfold capOf; split
  · exact cap0_pos css h
  · exact pss_pos css h

theorem ptStart_succ (css j : Nat) : ptStart css (j + 1) = ptStart css j + capOf css j := by
  unfold ptStart capOf
  cases j with
  | zero => simp
  | succ j => simp [Nat.add_mul]; omega

/-- **segment_of_position.** Position `ptStart j + i` with `i` below the capacity of segment `j` lies in
segment `j` … -/
theorem segFor_ptStart_add (css j i : Nat) (h : 56 < css) (hi : i < capOf css j) :
    segFor css (ptStart css j + i) = j := by
  unfold segFor ptStart capOf at *
  cases j with
  | zero => simp at hi ⊢; omega
  | succ j =>
    simp only [Nat.add_one_ne_zero, if_false, Nat.add_sub_cancel] at hi ⊢
    have hp := pss_pos css h
    have : ¬ cap0 css + j * pss css + i < cap0 css := by omega
    rw [if_neg this]
    have e : cap0 css + j * pss css + i - cap0 css = i + pss css * j := by
      rw [Nat.mul_comm]; omega
    rw [e, Nat.add_mul_div_left _ _ hp, Nat.div_eq_of_lt hi]
    omega

/-- … and every position lies in exactly the segment `segFor` says, at an offset below its capacity:
positions and (segment, in-segment offset) pairs are in bijection. -/
theorem ptStart_segFor (css off : Nat) (h : 56 < css) :
    ptStart css (segFor css off) ≤ off ∧ off < ptStart css (segFor css off) + capOf css (segFor css off) := by
  unfold segFor
  by_cases h0 : off < cap0 css
  · simp [h0, ptStart, capOf]
  · simp only [h0, if_false]
    have hp := pss_pos css h
    have hdm := Nat.div_add_mod (off - cap0 css) (pss css)
    have hm := Nat.mod_lt (off - cap0 css) hp
    generalize (off - cap0 css) / pss css = q at *
    generalize (off - cap0 css) % pss css = r at *
    have hne : 1 + q ≠ 0 := by omega
    have e : 1 + q - 1 = q := by omega
    simp only [ptStart, capOf, hne, if_false, e]
    rw [Nat.mul_comm]
    generalize pss css * q = X at *
    constructor <;> omega

/-! ## the reader's segment count and plaintext length invert the writer's layout -/

theorem ceil_div_eq (css k C : Nat) (hcss : 0 < css) (hk : 1 ≤ k) (h1 : (k - 1) * css < C) (h2 : C ≤ k * css) :
    (C + css - 1) / css = k := by
  apply Nat.div_eq_of_lt_le
  · have : k * css = (k - 1) * css + css := by
      have : k = (k - 1) + 1 := by omega
      conv => lhs; rw [this, Nat.add_mul, Nat.one_mul]
    omega
  · rw [Nat.add_mul, Nat.one_mul]; omega

/-- The ciphertext length of a part whose `k ≥ 1` segments are all full except the last, which holds `r`
plaintext bytes. -/
def ctLenOf (css k r : Nat) : Nat := (k - 1) * css + (if k = 1 then hdrLen else 0) + r + tagLen

/-- the plaintext length of such a part -/
def ptLenOf (css k r : Nat) : Nat := ptStart css (k - 1) + r

/-- **layout_inverse.** For every number of segments `k ≥ 1` and every fill `r` of the last segment within
its capacity (non-empty unless it is the only segment), seekable.go recomputes from the ciphertext
length alone exactly `k` segments and exactly the plaintext length. -/
theorem layout_inverse (css k r : Nat) (h : 56 < css) (hk : 1 ≤ k) (hr : r ≤ capOf css (k - 1)) (hr1 : k = 1 ∨ 1 ≤ r) :
    numSegR css (ctLenOf css k r) = k ∧ ptLenR css (ctLenOf css k r) = ptLenOf css k r := by
  have hnum : numSegR css (ctLenOf css k r) = k := by
    unfold numSegR ctLenOf
    apply ceil_div_eq css k _ (by omega) hk
    · simp [hdrLen, tagLen]; split <;> omega
    · have hk' : k * css = (k - 1) * css + css := by
        have : k = (k - 1) + 1 := by omega
        conv => lhs; rw [this, Nat.add_mul, Nat.one_mul]
      unfold capOf at hr
      by_cases h1 : k = 1
      · subst h1; simp [hdrLen, tagLen, cap0] at hr ⊢; omega
      · have : k - 1 ≠ 0 := by omega
        simp only [this, if_false, pss, tagLen] at hr
        simp [h1, tagLen]; omega
  refine ⟨hnum, ?_⟩
  unfold ptLenR
  rw [hnum]
  unfold ctLenOf ptLenOf ptStart
  by_cases h1 : k = 1
  · subst h1; simp [hdrLen, tagLen]; omega
  · have hk1 : k - 1 ≠ 0 := by omega
    simp only [h1, hk1, if_false, Nat.add_zero, cap0, pss, hdrLen, tagLen]
    have hk2 : k - 1 - 1 = k - 2 := by omega
    rw [hk2]
    have e1 : (k - 1) * css = (k - 2) * css + css := by
      have : k - 1 = (k - 2) + 1 := by omega
      rw [this, Nat.add_mul, Nat.one_mul]
    have e2 : (k - 2) * css = (k - 2) * (css - 16) + 16 * (k - 2) := by
      have : css = (css - 16) + 16 := by omega
      conv => lhs; rw [this, Nat.mul_add]
      rw [Nat.mul_comm (k - 2) 16]
    have e3 : 16 * k = 16 * (k - 2) + 32 := by omega
    omega

/-! ## the layout tink-go's writer produces -/

theorem chunksF_full (f n : Nat) (bs : Bytes) (hn : 0 < n) :
    ∀ i, i + 1 < (chunksF f n bs).length → ((chunksF f n bs).getD i []).length = n := by
  induction f generalizing bs with
  | zero => intro i hi; simp [chunksF] at hi
  | succ f ih =>
    intro i hi
    unfold chunksF at hi ⊢
    by_cases hb : bs.isEmpty
    · simp [hb] at hi
    · simp only [hb, Bool.false_eq_true, if_false, List.length_cons] at hi ⊢
      cases i with
      | zero =>
        simp only [List.getD_cons_zero]
        -- a second row exists, so more than n bytes were there
        have hne : chunksF f n (bs.drop n) ≠ [] := by
          intro h0; rw [h0] at hi; simp at hi
        have hdrop : bs.drop n ≠ [] := by
          intro h0
          apply hne
          rw [h0]
          cases f <;> simp [chunksF]
        have : n < bs.length := by
          rcases Nat.lt_or_ge n bs.length with h | h
          · exact h
          · exact absurd (List.drop_eq_nil_iff.2 h) hdrop
        simp [List.length_take]; omega
      | succ i =>
        simp only [List.getD_cons_succ]
        exact ih (bs.drop n) i (by omega)

/-- all rows but the last are full -/
theorem chunks_full (n : Nat) (bs : Bytes) (hn : 0 < n) :
    ∀ i, i + 1 < (chunks n bs).length → ((chunks n bs).getD i []).length = n := by
  unfold chunks
  have : ¬ n = 0 := by omega
  simp only [this, if_false]
  exact chunksF_full _ n bs hn

theorem getD_mem_of_lt {α : Type} (l : List α) (i : Nat) (d : α) (h : i < l.length) : l.getD i d ∈ l := by
  rw [List.getD_eq_getElem?_getD, List.getElem?_eq_getElem h]
  exact List.getElem_mem h

/-- What `segments` guarantees: at least one segment; every segment but the last is filled to its
capacity; the last fits its capacity; with more than one segment none is empty. -/
structure SegLayout (css : Nat) (segs : List Bytes) : Prop where
  ne : segs ≠ []
  full : ∀ i, i + 1 < segs.length → (segs.getD i []).length = capOf css i
  last_le : (segs.getD (segs.length - 1) []).length ≤ capOf css (segs.length - 1)
  pos_of_multi : 1 < segs.length → ∀ i, i < segs.length → 0 < (segs.getD i []).length

theorem segments_flatten (css : Nat) (pt : Bytes) (h : 56 < css) : (segments css pt).flatten = pt := by
  unfold segments
  split
  · simp
  · have := concat_chunks (pss css) (pt.drop (cap0 css))
    simp only [concat] at this
    simp [this]

theorem segments_layout (css : Nat) (pt : Bytes) (h : 56 < css) : SegLayout css (segments css pt) := by
  have hp := pss_pos css h
  unfold segments
  by_cases hle : pt.length ≤ cap0 css
  · simp only [hle, if_true]
    exact ⟨by simp, fun i hi => by simp at hi, by simpa [capOf] using hle, fun h1 => by simp at h1⟩
  · simp only [hle, if_false]
    have hrest : pt.drop (cap0 css) ≠ [] := by
      intro h0; rw [List.drop_eq_nil_iff] at h0; omega
    have hcne : chunks (pss css) (pt.drop (cap0 css)) ≠ [] := fun h0 => hrest ((chunks_eq_nil_iff _ _).1 h0)
    have hfirst : (pt.take (cap0 css)).length = cap0 css := by simp [List.length_take]; omega
    refine ⟨by simp, ?_, ?_, ?_⟩
    · intro i hi
      cases i with
      | zero => simpa [capOf] using hfirst
      | succ i =>
        simp only [List.getD_cons_succ, capOf, Nat.add_one_ne_zero, if_false]
        exact chunks_full _ _ hp i (by simpa using hi)
    · simp only [List.length_cons, Nat.add_sub_cancel]
      have hl : 0 < (chunks (pss css) (pt.drop (cap0 css))).length := List.length_pos_iff.2 hcne
      obtain ⟨m, hm⟩ : ∃ m, (chunks (pss css) (pt.drop (cap0 css))).length = m + 1 := ⟨_, (Nat.succ_pred_eq_of_pos hl).symm⟩
      rw [hm, List.getD_cons_succ]
      have hmem := getD_mem_of_lt (chunks (pss css) (pt.drop (cap0 css))) m [] (by omega)
      have := (chunks_mem _ _ hp _ hmem).2
      simpa [capOf] using this
    · intro _ i hi
      cases i with
      | zero => simp only [List.getD_cons_zero, hfirst]; exact cap0_pos css h
      | succ i =>
        simp only [List.getD_cons_succ]
        have hmem := getD_mem_of_lt (chunks (pss css) (pt.drop (cap0 css))) i [] (by simpa using hi)
        have := (chunks_mem _ _ hp _ hmem).1
        exact List.length_pos_iff.2 this

end Pithos.Tink
