/-
Helper lemmas for C07: the invariant of `Pithos.CondProto` (one If-Match writer against an arbitrary
environment) and the safety theorem for code-path shapes whose lock-supplying read is a compared read.
-/
import Pithos.Model.CondProto
namespace Pithos.CondProto

/-- The shape condition: the read that supplies (id, version) of the guarded statement exists and its
ETag was compared with the If-Match value. -/
def Spec.Safe (sp : Spec) : Prop := sp.compared.contains sp.lockGen = true ∧ 1 ≤ sp.lockGen ∧ sp.lockGen ≤ sp.reads

instance (sp : Spec) : Decidable sp.Safe := by unfold Spec.Safe; exact inferInstance

structure Inv (sp : Spec) (e : List Nat) (d : Db) (w : Writer) : Prop where
  rowId : ∀ r, d.row = some r → r.id < d.nextId
  seen : ∀ c, w.lockSeen = some (some c) → c.id < d.nextId ∧
    ∀ r, d.row = some r → r.id = c.id → c.ver ≤ r.ver ∧ (c.ver = r.ver → r = c)
  cmp : ∀ x, w.lockSeen = some x → hasEtag e x = true
  have_ : sp.lockGen ≤ w.pc → w.lockSeen ≠ none
  pcle : w.pc ≤ sp.reads
  done : ∀ b, w.st = .committed b → ∃ c, b = some c ∧ c.parts = e

theorem inv_env {sp : Spec} {e : List Nat} {d : Db} {w : Writer} (h : Inv sp e d w) (c : Change) :
    Inv sp e (applyChange d c) w := by
  cases c with
  | update bump parts =>
    cases hr : d.row with
    | none => simpa [applyChange, hr] using h
    | some r =>
      refine ⟨?_, ?_, h.cmp, h.have_, h.pcle, h.done⟩
      · intro r' hr'
        simp only [applyChange, hr, Option.some.injEq] at hr'
        subst hr'
        simpa [applyChange, hr] using h.rowId r hr
      · intro c hc
        have := h.seen c hc
        refine ⟨by simpa [applyChange, hr] using this.1, ?_⟩
        intro r' hr' hid
        simp only [applyChange, hr, Option.some.injEq] at hr'
        subst hr'
        have h2 := this.2 r hr hid
        simp only at hid ⊢
        constructor
        · omega
        · intro heq; omega
  | delete =>
    refine ⟨?_, ?_, h.cmp, h.have_, h.pcle, h.done⟩
    · intro r hr; simp [applyChange] at hr
    · intro c hc
      refine ⟨by simpa [applyChange] using (h.seen c hc).1, ?_⟩
      intro r hr; simp [applyChange] at hr
  | insert parts =>
    cases hr : d.row with
    | some r => simpa [applyChange, hr] using h
    | none =>
      refine ⟨?_, ?_, h.cmp, h.have_, h.pcle, h.done⟩
      · intro r' hr'
        simp only [applyChange, hr, Option.some.injEq] at hr'
        subst hr'
        simp [applyChange, hr]
      · intro c hc
        have := (h.seen c hc).1
        refine ⟨by simp only [applyChange, hr]; omega, ?_⟩
        intro r' hr' hid
        simp only [applyChange, hr, Option.some.injEq] at hr'
        subst hr'
        simp only at hid
        omega

theorem inv_a {sp : Spec} {e : List Nat} (new : List Nat) {d : Db} {w : Writer} (hs : sp.Safe) (h : Inv sp e d w) :
    Inv sp e (stepA sp e new d w).1 (stepA sp e new d w).2 := by
  obtain ⟨hc, h1, h2⟩ := hs
  unfold stepA
  cases hst : w.st with
  | failed => simpa [hst] using h
  | committed b => simpa [hst] using h
  | running =>
    simp only
    by_cases hpc : w.pc < sp.reads
    · simp only [hpc, if_true]
      by_cases hfail : (sp.compared.contains (w.pc + 1) && !hasEtag e d.row) = true
      · simp only [hfail, if_true]
        exact ⟨h.rowId, h.seen, h.cmp, h.have_, h.pcle, by intro b hb; simp at hb⟩
      · simp only [hfail, Bool.false_eq_true, if_false]
        by_cases hg : (w.pc + 1 == sp.lockGen) = true
        · have hg' : w.pc + 1 = sp.lockGen := by simpa using hg
          simp only [hg, if_true]
          refine ⟨h.rowId, ?_, ?_, by intro _; simp, by show w.pc + 1 ≤ sp.reads; omega, ?_⟩
          · intro c hcs
            simp only [Option.some.injEq] at hcs
            refine ⟨h.rowId c hcs, ?_⟩
            intro r hr _
            rw [hcs] at hr
            cases hr
            exact ⟨Nat.le_refl _, fun _ => rfl⟩
          · intro x hx
            simp only [Option.some.injEq] at hx
            subst hx
            rw [hg'] at hfail
            simp only [hc, Bool.true_and, Bool.not_eq_true', Bool.not_eq_false] at hfail
            simpa using hfail
          · intro b hb; simp at hb
        · simp only [hg, Bool.false_eq_true, if_false]
          refine ⟨h.rowId, h.seen, h.cmp, ?_, by show w.pc + 1 ≤ sp.reads; omega, ?_⟩
          · intro hle
            have hle : sp.lockGen ≤ w.pc + 1 := hle
            have hne : w.pc + 1 ≠ sp.lockGen := by simpa using hg
            exact h.have_ (by omega)
          · intro b hb; simp at hb
    · simp only [hpc, if_false]
      have hpc' : w.pc = sp.reads := by have := h.pcle; omega
      have hsome : w.lockSeen ≠ none := h.have_ (by omega)
      cases hls : w.lockSeen with
      | none => exact absurd hls hsome
      | some x =>
        have hx := h.cmp x hls
        cases x with
        | none => simp [hasEtag] at hx
        | some c =>
          simp only
          have hsc := h.seen c hls
          by_cases hgd : guard c d = true
          · simp only [hgd, if_true]
            -- the guarded statement matched: the current row is exactly the row that was read and compared
            obtain ⟨r, hr, hid, hver⟩ : ∃ r, d.row = some r ∧ r.id = c.id ∧ r.ver = c.ver := by
              unfold guard at hgd
              cases hr : d.row with
              | none => simp [hr] at hgd
              | some r =>
                simp only [hr, Bool.and_eq_true, beq_iff_eq] at hgd
                exact ⟨r, rfl, hgd.1, hgd.2⟩
            have hrc : r = c := (hsc.2 r hr hid).2 hver.symm
            refine ⟨?_, ?_, ?_, by intro _; simp, h.pcle, ?_⟩
            · intro r' hr'
              simp only [Option.some.injEq] at hr'
              subst hr'
              exact hsc.1
            · intro c' hc'
              simp only [Option.some.injEq] at hc'
              subst hc'
              refine ⟨hsc.1, ?_⟩
              intro r' hr' _
              simp only [Option.some.injEq] at hr'
              subst hr'
              simp only
              constructor
              · omega
              · intro heq; omega
            · intro x hx'
              simp only [Option.some.injEq] at hx'
              subst hx'
              exact hx
            · intro b hb
              simp only [Status.committed.injEq] at hb
              subst hb
              refine ⟨r, hr, ?_⟩
              rw [hrc]
              simpa [hasEtag] using hx
          · simp only [hgd, Bool.false_eq_true, if_false]
            refine ⟨h.rowId, ?_, ?_, by intro _; simp, h.pcle, by intro b hb; simp at hb⟩
            · intro c' hc'
              simp only [Option.some.injEq] at hc'
              subst hc'
              exact hsc
            · intro x hx'
              simp only [Option.some.injEq] at hx'
              subst hx'
              exact hx

theorem inv_run {sp : Spec} {e : List Nat} (new : List Nat) (hs : sp.Safe) (evs : List Ev) {s : Db × Writer}
    (h : Inv sp e s.1 s.2) : Inv sp e (run sp e new s evs).1 (run sp e new s evs).2 := by
  induction evs generalizing s with
  | nil => exact h
  | cons ev evs ih =>
    simp only [run, List.foldl_cons]
    apply ih
    cases ev with
    | a => exact inv_a new hs h
    | env c => exact inv_env h c

theorem inv_init (sp : Spec) (e : List Nat) (d : Db) (hs : sp.Safe) (hd : ∀ r, d.row = some r → r.id < d.nextId) :
    Inv sp e d {} := by
  refine ⟨hd, by intro c hc; simp at hc, by intro x hx; simp at hx, ?_, Nat.zero_le _, by intro b hb; simp at hb⟩
  intro hle
  have : sp.lockGen ≤ 0 := hle
  have := hs.2.1
  omega

-- ---------------------------------------------------------------- create-if-absent

structure InvI (reads : Nat) (w : InmWriter) : Prop where
  nullNone : w.nullSeen = none
  done : ∀ b, w.st = .committed b → b = none

theorem invI_step (reads : Nat) (new : List Nat) (d : Db) (w : InmWriter) (h : InvI reads w) :
    InvI reads (stepInm reads true new d w).2 := by
  unfold stepInm
  cases hst : w.st with
  | failed => simpa [hst] using h
  | committed b => simpa [hst] using h
  | running =>
    simp only
    by_cases h1 : w.pc < reads
    · simp only [h1, if_true]
      split
      · exact ⟨h.nullNone, by intro b hb; simp at hb⟩
      · exact ⟨h.nullNone, by intro b hb; simp [hst] at hb⟩
    · simp only [h1, if_false]
      by_cases h2 : (w.pc == reads) = true
      · simp only [h2, if_true, Bool.true_and]
        cases hr : d.row with
        | none => exact ⟨by simp, by intro b hb; simp [hst] at hb⟩
        | some r => exact ⟨by simpa using h.nullNone, by intro b hb; simp at hb⟩
      · simp only [h2, Bool.false_eq_true, if_false]
        rw [h.nullNone]
        simp only
        cases hr : d.row with
        | none => exact ⟨by simp, by intro b hb; simp at hb; exact hb.symm⟩
        | some r => exact ⟨by simp, by intro b hb; simp at hb⟩

theorem invI_run (reads : Nat) (new : List Nat) (evs : List Ev) (s : Db × InmWriter) (h : InvI reads s.2) :
    InvI reads (runInm reads true new s evs).2 := by
  induction evs generalizing s with
  | nil => exact h
  | cons ev evs ih =>
    simp only [runInm, List.foldl_cons]
    apply ih
    cases ev with
    | a => exact invI_step reads new s.1 s.2 h
    | env c => exact h

end Pithos.CondProto
