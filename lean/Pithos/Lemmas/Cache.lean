/-
Helper lemmas for C19: Go's container/heap operations (as modelled in `Pithos.Model.Cache`) only
permute the heap array; Pop/Remove take out exactly the element they are documented to take out.
None of this needs the heap *order* – the no-panic and uniqueness invariants are about membership.
-/
import Pithos.Model.Cache

namespace Pithos.Cache
open List

theorem swap_perm (h : Heap) (i j : Nat) : (swap h i j).Perm h := by
  unfold swap
  split
  · next hh => exact List.set_set_perm hh.1 hh.2
  · exact List.Perm.refl _

@[simp] theorem swap_length (h : Heap) (i j : Nat) : (swap h i j).length = h.length :=
  (swap_perm h i j).length_eq

theorem swap_getElem?_other (h : Heap) (i j m : Nat) (h1 : m ≠ i) (h2 : m ≠ j) :
    (swap h i j)[m]? = h[m]? := by
  unfold swap
  split
  · rw [List.getElem?_set_ne (Ne.symm h2), List.getElem?_set_ne (Ne.symm h1)]
  · rfl

theorem swap_getElem?_right (h : Heap) (i j : Nat) (hi : i < h.length) (hj : j < h.length) :
    (swap h i j)[j]? = h[i]? := by
  unfold swap
  simp only [hi, hj, and_self, dite_true]
  rw [List.getElem?_set_self (by simpa using hj)]
  exact (List.getElem?_eq_getElem hi).symm

theorem up_perm : ∀ (f : Nat) (h : Heap) (j : Nat), (up f h j).Perm h
  | 0, h, _ => List.Perm.refl h
  | f + 1, h, j => by
    simp only [up]
    split
    · exact List.Perm.refl _
    · exact (up_perm f _ _).trans (swap_perm _ _ _)

theorem child_lt (h : Heap) (j1 n : Nat) (hj : j1 < n) : child h j1 n < n := by
  unfold child; split
  · next hc => simp at hc; exact hc.1
  · exact hj

theorem child_ge (h : Heap) (j1 n : Nat) : j1 ≤ child h j1 n := by
  unfold child; split <;> omega

theorem down_perm : ∀ (f : Nat) (h : Heap) (i n : Nat), (down f h i n).1.Perm h
  | 0, h, _, _ => List.Perm.refl h
  | f + 1, h, i, n => by
    simp only [down]
    split
    · exact List.Perm.refl _
    · split
      · exact List.Perm.refl _
      · exact (down_perm f _ _ _).trans (swap_perm _ _ _)

/-- `up` from position `j` never touches a position above `j`. -/
theorem up_getElem?_gt : ∀ (f : Nat) (h : Heap) (j m : Nat), j < m → (up f h j)[m]? = h[m]?
  | 0, _, _, _, _ => rfl
  | f + 1, h, j, m, hm => by
    simp only [up]
    split
    · rfl
    · have hp : (j - 1) / 2 ≤ j := Nat.le_trans (Nat.div_le_self _ _) (Nat.sub_le _ _)
      rw [up_getElem?_gt f _ _ m (by omega)]
      exact swap_getElem?_other h _ _ m (by omega) (by omega)

/-- `down(i, n)` never touches a position `≥ n`. -/
theorem down_getElem?_ge : ∀ (f : Nat) (h : Heap) (i n m : Nat), n ≤ m → (down f h i n).1[m]? = h[m]?
  | 0, _, _, _, _, _ => rfl
  | f + 1, h, i, n, m, hm => by
    simp only [down]
    split
    · rfl
    · next hj1 =>
      split
      · rfl
      · rw [down_getElem?_ge f _ _ n m hm]
        have := child_lt h (2 * i + 1) n (by omega)
        exact swap_getElem?_other h _ _ m (by omega) (by omega)

theorem push_perm (h : Heap) (e : Entry) : (push h e).Perm (e :: h) :=
  (up_perm _ _ _).trans (List.perm_append_singleton e h)

theorem pop_none (h : Heap) : pop h = none ↔ h = [] := by
  cases h <;> simp [pop]

/-- `heap.Pop` returns one element of the heap and leaves exactly the others. -/
theorem pop_perm (h : Heap) (e : Entry) (h' : Heap) (hp : pop h = some (e, h')) : (e :: h').Perm h := by
  cases h with
  | nil => simp [pop] at hp
  | cons e0 t =>
    simp only [pop, Option.some.injEq, Prod.mk.injEq] at hp
    obtain ⟨he, hh⟩ := hp
    generalize hh2 : (down (e0 :: t).length (swap (e0 :: t) 0 ((e0 :: t).length - 1)) 0 ((e0 :: t).length - 1)).1 = h2 at he hh
    have hperm : h2.Perm (e0 :: t) := hh2 ▸ (down_perm _ _ _ _).trans (swap_perm _ _ _)
    have hne : h2 ≠ [] := by
      intro h0; rw [h0] at hperm; exact absurd hperm.length_eq (by simp)
    have hlast : h2.getLastD e0 = h2.getLast hne := by
      rw [List.getLastD_eq_getLast?, List.getLast?_eq_some_getLast hne]; rfl
    subst he hh
    rw [hlast]
    have := List.dropLast_concat_getLast hne
    exact ((List.perm_append_singleton _ _).symm.trans (List.Perm.of_eq this)).trans hperm

/-- Splitting a non-empty list at its last position. -/
theorem dropLast_getElem? (l : Heap) (e : Entry) (hl : l[l.length - 1]? = some e) :
    (e :: l.dropLast).Perm l := by
  have hne : l ≠ [] := by
    intro h0; subst h0; simp at hl
  have h1 : l.getLast hne = e := by
    have := List.getLast?_eq_getElem? (l := l)
    rw [hl, List.getLast?_eq_some_getLast hne] at this
    exact Option.some.inj this
  have := List.dropLast_concat_getLast hne
  rw [h1] at this
  exact (List.perm_append_singleton _ _).symm.trans (List.Perm.of_eq this)

/-- `heap.Remove(i)` takes out exactly the element at position `i`. -/
theorem remove_perm (h : Heap) (i : Nat) (e : Entry) (hi : h[i]? = some e) : (e :: remove h i).Perm h := by
  have hlt : i < h.length := by
    rcases Nat.lt_or_ge i h.length with hl | hl
    · exact hl
    · rw [List.getElem?_eq_none hl] at hi; cases hi
  unfold remove
  simp only []
  split
  · next hn => exact dropLast_getElem? h e (hn ▸ hi)
  · next hn =>
    have hnlt : h.length - 1 < h.length := by omega
    generalize hr : down h.length (swap h i (h.length - 1)) i (h.length - 1) = r
    -- the array after the sift operations: a permutation of `h` with `e` at the last position
    have key : ∀ h3 : Heap, h3.Perm (swap h i (h.length - 1)) → h3[h.length - 1]? = (swap h i (h.length - 1))[h.length - 1]? →
        (e :: h3.dropLast).Perm h := by
      intro h3 hp hl
      rw [swap_getElem?_right h i _ hlt hnlt, hi] at hl
      have hlen : h3.length = h.length := by rw [hp.length_eq, swap_length]
      have := dropLast_getElem? h3 e (by rw [hlen]; exact hl)
      exact this.trans (hp.trans (swap_perm _ _ _))
    have hd : r.1.Perm (swap h i (h.length - 1)) := hr ▸ down_perm _ _ _ _
    have hdl : r.1[h.length - 1]? = (swap h i (h.length - 1))[h.length - 1]? :=
      hr ▸ down_getElem?_ge _ _ _ _ _ (Nat.le_refl _)
    split
    · exact key r.1 hd hdl
    · refine key _ ((up_perm _ _ _).trans hd) ?_
      rw [up_getElem?_gt _ _ _ _ (by omega)]
      exact hdl

theorem fix_perm (h : Heap) (i : Nat) : (fix h i).Perm h := by
  unfold fix
  simp only []
  split
  · exact down_perm _ _ _ _
  · exact (up_perm _ _ _).trans (down_perm _ _ _ _)

/-- What `findKey` finds. -/
theorem findKey_some (h : Heap) (k : Key) (i : Nat) (hf : findKey h k = some i) :
    ∃ e, h[i]? = some e ∧ e.key = k := by
  unfold findKey at hf
  simp only [] at hf
  split at hf
  · next hlt =>
    cases hf
    refine ⟨h[h.findIdx (fun e => e.key == k)], List.getElem?_eq_getElem hlt, ?_⟩
    have := List.findIdx_getElem (w := hlt)
    simpa using this
  · cases hf

theorem findKey_none (h : Heap) (k : Key) (hf : findKey h k = none) : ∀ e ∈ h, e.key ≠ k := by
  unfold findKey at hf
  simp only [] at hf
  split at hf
  · cases hf
  · next hge =>
    have hle := List.findIdx_le_length (p := fun e => e.key == k) (xs := h)
    have heq : h.findIdx (fun e => e.key == k) = h.length := by omega
    have := List.findIdx_eq_length.1 heq
    intro e he hk
    have := this e he
    simp [hk] at this

/-- Keys of a heap. -/
def hkeys (h : Heap) : List Key := h.map (·.key)

theorem hkeys_perm {a b : Heap} (p : a.Perm b) : (hkeys a).Perm (hkeys b) := p.map _

end Pithos.Cache
