/-
C13: deletes that are not the explicit delete of version `r` keep `r` (frozen fields):
explicit deletes of other versions (including the promotion of `r` to current, a row save), and
key-only deletes in a versioned bucket (delete marker added, null version possibly replaced).
-/
import Pithos.Lemmas.S3Frozen

namespace Pithos.S3

/-- Nothing stored changes, or the bucket is replaced by one of the same name that keeps `r`
(the latter under the side conditions `C`). -/
def KShape (q : Quirks) (s : State) (bk : Bucket) (r : Row) (C : Prop) (st : State) : Prop :=
  st.buckets = s.buckets ∨ ∃ X, st.buckets = (setBucket s X).buckets ∧ X.name = bk.name ∧ (C → KeepsRow q r X.rows)

theorem kshape_ite {q : Quirks} {s : State} {bk : Bucket} {r : Row} {C : Prop} {c : Prop} [Decidable c] {x y : State × Out}
    (hx : KShape q s bk r C x.1) (hy : KShape q s bk r C y.1) : KShape q s bk r C (if c then x else y).1 := by
  split <;> assumption

theorem keeps_removeRow {q : Quirks} {r c : Row} {bk : Bucket} {n : Nat} (hb : RowsInv n bk.rows)
    (hr : r ∈ bk.rows) (hc : c ∈ bk.rows) (hne : c ≠ r) : KeepsRow q r (removeRow bk c.rowId).rows := by
  rw [removeRow_rows]
  apply keeps_filter _ (keeps_self hr)
  intro x hx hxr
  have hxeq : x = r := eq_of_id_eq hb.nodup hx hr hxr
  subst hxeq
  simp only [bne_iff_ne, ne_eq]
  intro hid
  exact hne (eq_of_id_eq hb.nodup hc hr hid.symm)

theorem keeps_promote {q : Quirks} {r : Row} {bk : Bucket} {n : Nat} (now : Nat) (k' : String) (hb : RowsInv n bk.rows)
    (h : KeepsRow q r bk.rows) : KeepsRow q r (promote q now bk k').rows := by
  unfold promote
  simp only []
  split
  · exact h
  · rename_i c hc
    have hm := (List.mem_filter.1 (maxBy_mem _ _ _ hc)).1
    rw [replaceRow_rows]
    apply keeps_repl hb.nodup h
    intro x hx hxy _
    have : x = c := eq_of_id_eq hb.nodup hx hm hxy
    subst this
    refine ⟨rfl, rfl, rfl, rfl, rfl, rfl, ?_⟩
    intro hq; simp [hq]

theorem deleteOp_keeps (q : Quirks) (s : State) (bk : Bucket) (k' : String) (vid : Option (Option Nat)) (im : IfMatch)
    (r : Row) :
    KShape q s bk r (RowsInv s.nextRow bk.rows ∧ r ∈ bk.rows ∧ r.vid ≠ none ∧ (vid = none → bk.ver = .off → k' ≠ r.key) ∧
        ¬(k' = r.key ∧ vid = some r.vid)) (deleteOp q s bk k' vid im).1 := by
  cases vid with
  | some v =>
    unfold deleteOp
    simp only []
    apply kshape_ite
    · apply kshape_ite <;> exact Or.inl rfl
    · cases hv : rowByVid bk k' v with
      | none => exact Or.inl rfl
      | some c =>
        simp only []
        apply kshape_ite
        · exact Or.inl rfl
        · right
          obtain ⟨hc, hck, hcv⟩ := rowByVid_mem hv
          refine ⟨_, rfl, ?_, ?_⟩
          · split
            · unfold promote; simp only []; split
              · exact removeRow_name _ _
              · rw [replaceRow_name, removeRow_name]
            · exact removeRow_name _ _
          · intro ⟨hb, hr, _, _, hnot⟩
            have hne : c ≠ r := by
              intro e; subst e
              exact hnot ⟨hck.symm, by rw [hcv]⟩
            have h1 : RowsInv s.nextRow (removeRow bk c.rowId).rows := by rw [removeRow_rows]; exact hb.filter _
            have h2 := keeps_removeRow (q := q) hb hr hc hne
            split
            · exact keeps_promote s.clock k' h1 h2
            · exact h2
  | none =>
    unfold deleteOp
    simp only []
    apply kshape_ite
    · apply kshape_ite <;> exact Or.inl rfl
    · apply kshape_ite
      · exact Or.inl rfl
      · by_cases hver : bk.ver = .off
        · -- unversioned: the side condition excludes this case
          have hv : (bk.ver != Versioning.off) = false := by simp [hver]
          simp only [hv, Bool.false_eq_true, if_false]
          cases hc : latestRow bk k' with
          | none => exact Or.inl rfl
          | some c =>
            simp only []
            right
            refine ⟨_, rfl, removeRow_name _ _, fun hC => ?_⟩
            obtain ⟨hb, hr, _, hk, _⟩ := hC
            obtain ⟨hcm, hck, _⟩ := latestRow_some hc
            exact keeps_removeRow hb hr hcm (by intro e; subst e; exact hk trivial hver hck.symm)
        · have hv : (bk.ver != Versioning.off) = true := by simp [hver]
          simp only [hv, if_true]
          right
          generalize hb1 : (if (bk.ver == Versioning.suspended) = true then
              match nullRow bk k' with
              | some n => removeRow bk n.rowId
              | none => bk
            else bk) = bk1
          have hbk1 : bk1.name = bk.name ∧ (RowsInv s.nextRow bk.rows → r ∈ bk.rows → r.vid ≠ none →
              RowsInv s.nextRow bk1.rows ∧ KeepsRow q r bk1.rows ∧ ∀ y ∈ bk1.rows, y ∈ bk.rows) := by
            rw [← hb1]
            split
            · cases hn : nullRow bk k' with
              | none => exact ⟨rfl, fun hb hr _ => ⟨hb, keeps_self hr, fun _ h => h⟩⟩
              | some nr =>
                simp only []
                refine ⟨removeRow_name _ _, fun hb hr hvn => ⟨by rw [removeRow_rows]; exact hb.filter _, ?_, ?_⟩⟩
                · obtain ⟨hmem, _, hnv⟩ := rowByVid_mem (by simpa [nullRow] using hn)
                  exact keeps_removeRow hb hr hmem (by intro e; subst e; exact hvn hnv)
                · intro y hy; rw [removeRow_rows] at hy; exact (List.mem_filter.1 hy).1
            · exact ⟨rfl, fun hb hr _ => ⟨hb, keeps_self hr, fun _ h => h⟩⟩
          refine ⟨_, rfl, ?_, ?_⟩
          · rw [addRow_name]
            cases hc : latestRow bk k' with
            | none => exact hbk1.1
            | some c =>
              simp only []
              split
              · unfold unlatest; rw [replaceRow_name]; exact hbk1.1
              · exact hbk1.1
          · intro ⟨hb, hr, hvn, _, _⟩
            obtain ⟨hinv1, hk1, hsub⟩ := hbk1.2 hb hr hvn
            rw [addRow_rows]
            apply keeps_append
            cases hc : latestRow bk k' with
            | none => exact hk1
            | some c =>
              simp only []
              split
              · rename_i hany
                obtain ⟨x, hx, hxe⟩ := List.any_eq_true.1 hany
                have hxc : x = c := eq_of_id_eq hb.nodup (hsub x hx) (latestRow_some hc).1 (by simpa using hxe)
                exact keeps_unlatest s.clock c hinv1 hk1 (by rw [← hxc]; exact hx)
              · exact hk1

end Pithos.S3
