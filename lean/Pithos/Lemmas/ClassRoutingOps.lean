/-
Every operation of the routing model preserves the invariant (`apply_inv`), and the facts about
the transition loop the C14 theorems need (`moveParts_rows`, `moveParts_same_store`).
-/
import Pithos.Lemmas.ClassRoutingTxn

namespace Pithos.ClassRouting

theorem lookupStore_mem {m : List (String × String)} {cls n : String} (h : lookupStore m cls = some n) :
    (cls, n) ∈ m := by
  induction m with
  | nil => simp [lookupStore] at h
  | cons x xs ih =>
    obtain ⟨c, n'⟩ := x
    simp only [lookupStore] at h
    split at h
    · rename_i hc
      cases h
      subst hc
      exact List.mem_cons_self
    · exact List.mem_cons_of_mem _ (ih h)

theorem storeFor_mem {s : State} (h : Inv s) (cls : String) : storeFor s.cmap cls ∈ s.stores := by
  unfold storeFor
  cases hl : lookupStore s.cmap cls with
  | none => exact h.defStore
  | some n =>
    simp only []
    split
    · exact h.defStore
    · rename_i hne
      rcases h.cfgOk cls n (lookupStore_mem hl) with h1 | h1
      · exact absurd h1 hne
      · exact h1

theorem findEnt_some {s : State} {t : Nat} {e : Ent} (h : findEnt s t = some e) : e ∈ s.ents ∧ e.id = t := by
  unfold findEnt at h
  exact ⟨List.mem_of_find?_eq_some h, by simpa using List.find?_some h⟩

theorem parts_sub_rows {s : State} {e : Ent} (he : e ∈ s.ents) : ∀ r ∈ e.parts, r ∈ rows s :=
  fun _ hr => mem_rows.mpr ⟨e, he, hr⟩

theorem partsOf_find_list {L : List Ent} {t : Nat} {e : Ent} (hnd : (L.map (·.id)).Nodup)
    (hf : L.find? (·.id == t) = some e) : (L.filter (·.id == t)).flatMap (·.parts) = e.parts := by
  induction L with
  | nil => simp at hf
  | cons x xs ih =>
    simp only [List.map_cons, List.nodup_cons] at hnd
    by_cases hx : x.id = t
    · have hfx : (x :: xs).find? (·.id == t) = some x := by simp [hx]
      rw [hfx] at hf
      cases hf
      have hnone : xs.filter (·.id == t) = [] := by
        rw [List.filter_eq_nil_iff]
        intro y hy
        simp only [beq_iff_eq]
        intro hyt
        apply hnd.1
        rw [List.mem_map]
        exact ⟨y, hy, by rw [hyt, hx]⟩
      simp [hx, hnone]
    · have hfx : (x :: xs).find? (·.id == t) = xs.find? (·.id == t) := by simp [hx]
      rw [hfx] at hf
      simp [hx, ih hnd.2 hf]

theorem partsOf_find {s : State} (h : Inv s) {t : Nat} {e : Ent} (hf : findEnt s t = some e) :
    partsOf s t = e.parts := partsOf_find_list h.ids hf

theorem Txn.partsOf_eq {s0 s : State} {acq pend : List Nat} {news : List NewPart}
    (h : Txn s0 s acq pend news) (t : Nat) : partsOf s t = partsOf s0 t := by
  unfold partsOf; rw [h.mid.ents]

/-- The closing commit of a call that replaces all part rows of entity `t` by the new parts. -/
theorem Txn.commit_replace {s0 s s' : State} {acq : List Nat} {news : List NewPart} {t : Nat}
    {cls : Option String} (h0 : Inv s0) (h : Txn s0 s acq [] news)
    (hc : commit s t (partsOf s t) news (some ⟨t, cls, newRows news⟩) = some s') : Inv s' := by
  rw [h.partsOf_eq] at hc
  refine commit_inv h0 h.mid h.ok (by intro p; simpa using h.bal p) ?_ ?_ ?_ ?_ hc
  · intro e he; cases he; rfl
  · intro p; simp only [entParts]; omega
  · intro r hr
    left
    simp only [entParts, newRows, List.mem_map] at hr
    obtain ⟨n, hn, rfl⟩ := hr
    exact ⟨n, hn, rfl, rfl, rfl⟩
  · intro p; exact Nat.le_refl _

theorem pc_insertSeq (r : PartRow) (l : List PartRow) (p : Nat) :
    pc (insertSeq r l) p = pc l p + if r.pid = p then 1 else 0 := by
  induction l with
  | nil => simp [insertSeq, pc_cons]
  | cons x xs ih =>
    unfold insertSeq
    split
    · rw [pc_cons]
    · rw [pc_cons, ih, pc_cons]; omega

theorem mem_insertSeq {r x : PartRow} {l : List PartRow} : x ∈ insertSeq r l ↔ x = r ∨ x ∈ l := by
  induction l with
  | nil => simp [insertSeq]
  | cons y ys ih =>
    unfold insertSeq
    split
    · simp
    · rw [List.mem_cons, ih, List.mem_cons]; exact or_left_comm

theorem pc_filter_seq (l : List PartRow) (n p : Nat) :
    pc (l.filter fun r => r.seq == n) p + pc (l.filter fun r => r.seq != n) p = pc l p := by
  induction l with
  | nil => simp
  | cons x xs ih =>
    by_cases hx : x.seq = n
    · simp [hx, pc_cons]; omega
    · simp [hx, pc_cons]; omega

/-- The closing commit of a call that replaces the part with sequence number `n` of entity `u`. -/
theorem commit_slot_inv {s0 s s' : State} {acq : List Nat} {np : NewPart} {e : Ent} {u n : Nat}
    (h0 : Inv s0) (h : Txn s0 s acq [] [np]) (hf : findEnt s0 u = some e)
    (hc : commit s u (e.parts.filter fun r => r.seq == n) [np]
      (some { e with parts := insertSeq np.row (e.parts.filter fun r => r.seq != n) }) = some s') : Inv s' := by
  have hprev := partsOf_find h0 hf
  have hid := (findEnt_some hf).2
  refine commit_inv h0 h.mid h.ok (by intro p; simpa using h.bal p) ?_ ?_ ?_ ?_ hc
  · intro x hx; cases hx; exact hid
  · intro p
    rw [hprev]
    simp only [entParts, newRows, List.map_cons, List.map_nil]
    rw [pc_insertSeq, pc_cons, pc_nil]
    have := pc_filter_seq e.parts n p
    omega
  · intro r hr
    simp only [entParts] at hr
    rcases mem_insertSeq.mp hr with hr | hr
    · left; exact ⟨np, List.mem_singleton.mpr rfl, by rw [hr], by rw [hr], by rw [hr]⟩
    · right
      rw [hprev]
      exact ⟨r, (List.mem_filter.mp hr).1, rfl, rfl, rfl⟩
  · intro p
    rw [hprev]
    have := pc_filter_seq e.parts n p
    omega

theorem keepAll_txn {s0 : State} (h0 : Inv s0) :
    ∀ (ps : List PartRow) (i : Nat) (pend : List Nat) (news : List NewPart),
      (∀ r ∈ ps, r ∈ rows s0) → Txn s0 s0 [] pend news →
      Txn s0 s0 [] (pend ++ ps.map (·.pid)) (news ++ (renumFrom i ps).map (⟨·, true⟩)) := by
  intro ps
  induction ps with
  | nil => intro i pend news _ h; simpa [renumFrom] using h
  | cons r rs ih =>
    intro i pend news hps h
    have hk := keep_txn h0 h (hps r List.mem_cons_self) i
    have := ih (i + 1) _ _ (fun x hx => hps x (List.mem_cons_of_mem _ hx)) hk
    simpa [renumFrom, List.append_assoc] using this

-- ---------------------------------------------------------------- garbage collection, rename

theorem minPid_mem {l : List PartRow} {p : Nat} (h : minPid l = some p) : ∃ r ∈ l, r.pid = p := by
  induction l generalizing p with
  | nil => simp [minPid] at h
  | cons x xs ih =>
    unfold minPid at h
    cases hm : minPid xs with
    | none =>
      rw [hm] at h
      cases h
      exact ⟨x, List.mem_cons_self, rfl⟩
    | some m =>
      rw [hm] at h
      simp only [Option.some.injEq] at h
      split at h
      · exact ⟨x, List.mem_cons_self, h⟩
      · obtain ⟨r, hr, hrp⟩ := ih hm
        exact ⟨r, List.mem_cons_of_mem _ hr, by rw [hrp, h]⟩

theorem gc_inv {s : State} (h : Inv s) : Inv (gc s) := by
  have hrows : rows (gc s) = rows s := rfl
  have hrefs : ∀ p, refs (gc s) p = refs s p := fun _ => rfl
  have hlive : ∀ r ∈ rows s, decide (0 < refs s r.pid) = true := by
    intro r hr
    rw [decide_eq_true_iff, refs_eq]
    exact pc_pos.mpr ⟨r, hr, rfl⟩
  have hphys : ∀ r ∈ rows s, ∀ st, (gc s).phys st r.pid = s.phys st r.pid := by
    intro r hr st
    show (if s.stores.contains st && !decide (0 < refs s r.pid) then none else s.phys st r.pid) = _
    rw [hlive r hr]
    simp
  refine { held := ?_, cnt := fun p => rfl, idxOk := ?_, physFresh := ?_, ids := h.ids,
           defStore := h.defStore, cfgOk := h.cfgOk }
  · intro r hr
    rw [hrows] at hr
    have := h.held r hr
    exact ⟨this.1, by rw [hphys r hr]; exact this.2⟩
  · intro st c p hp
    have hp' : (match (match s.idx st c with
        | some p => if decide (0 < refs s p) then some p else none
        | none => none) with
      | some p => some p
      | none => minPid ((rows s).filter fun r => r.store == st && r.content == c)) = some p := hp
    have hback : minPid ((rows s).filter fun r => r.store == st && r.content == c) = some p →
        (gc s).phys st p = some c := by
      intro hmin
      obtain ⟨r, hr, hrp⟩ := minPid_mem hmin
      rw [List.mem_filter] at hr
      obtain ⟨hr, hsc⟩ := hr
      simp only [Bool.and_eq_true, beq_iff_eq] at hsc
      have := (h.held r hr).2
      rw [← hrp, hphys r hr, ← hsc.1, ← hsc.2]
      exact this
    cases hi : s.idx st c with
    | none =>
      rw [hi] at hp'
      exact hback hp'
    | some q =>
      rw [hi] at hp'
      simp only [] at hp'
      by_cases hq : decide (0 < refs s q) = true
      · rw [if_pos hq] at hp'
        simp only [Option.some.injEq] at hp'
        subst hp'
        show (if s.stores.contains st && !decide (0 < refs s q) then none else s.phys st q) = _
        rw [hq]
        simpa using h.idxOk st c q hi
      · rw [if_neg hq] at hp'
        exact hback hp'
  · intro st p hp
    show (if s.stores.contains st && !decide (0 < refs s p) then none else s.phys st p) = none
    split
    · rfl
    · exact h.physFresh st p hp

theorem flatMap_rename (L : List Ent) (u t : Nat) :
    (L.map fun e => if e.id == u then { e with id := t } else e).flatMap (·.parts) = L.flatMap (·.parts) := by
  induction L with
  | nil => rfl
  | cons x xs ih =>
    simp only [List.map_cons, List.flatMap_cons, ih]
    congr 1
    split <;> rfl

theorem nodup_rename {l : List Nat} {u t : Nat} (hnd : l.Nodup) (ht : t ∉ l) :
    (l.map fun i => if i = u then t else i).Nodup := by
  induction l with
  | nil => simp
  | cons a l ih =>
    simp only [List.nodup_cons] at hnd
    simp only [List.mem_cons, not_or] at ht
    simp only [List.map_cons, List.nodup_cons]
    refine ⟨?_, ih hnd.2 ht.2⟩
    intro hm
    rw [List.mem_map] at hm
    obtain ⟨x, hx, hxe⟩ := hm
    have hxa : x ≠ a := fun e => hnd.1 (e ▸ hx)
    by_cases hau : a = u
    · rw [if_pos hau] at hxe
      by_cases hxu : x = u
      · exact hxa (hxu.trans hau.symm)
      · rw [if_neg hxu] at hxe
        exact ht.2 (hxe ▸ hx)
    · rw [if_neg hau] at hxe
      by_cases hxu : x = u
      · rw [if_pos hxu] at hxe
        exact ht.1 hxe
      · rw [if_neg hxu] at hxe
        exact hxa hxe

theorem rename_inv {s : State} (h : Inv s) {u t : Nat} (ht : ∀ e ∈ s.ents, e.id ≠ t) :
    Inv { s with ents := s.ents.map fun e => if e.id == u then { e with id := t } else e } := by
  have hrows : rows { s with ents := s.ents.map fun e => if e.id == u then { e with id := t } else e } = rows s :=
    flatMap_rename s.ents u t
  refine { held := ?_, cnt := ?_, idxOk := h.idxOk, physFresh := h.physFresh, ids := ?_,
           defStore := h.defStore, cfgOk := h.cfgOk }
  · intro r hr
    rw [hrows] at hr
    exact h.held r hr
  · intro p
    rw [refs_eq, hrows]
    exact h.cnt p
  · have : (s.ents.map fun e => if e.id == u then { e with id := t } else e).map (·.id) =
        (s.ents.map (·.id)).map fun i => if i = u then t else i := by
      rw [List.map_map, List.map_map]
      apply List.map_congr_left
      intro e _
      simp only [Function.comp]
      by_cases he : e.id = u <;> simp [he]
    show ((s.ents.map fun e => if e.id == u then { e with id := t } else e).map (·.id)).Nodup
    rw [this]
    apply nodup_rename h.ids
    intro hm
    rw [List.mem_map] at hm
    obtain ⟨e, he, het⟩ := hm
    exact ht e he het

theorem delete_inv {s s' : State} {t : Nat} (h : Inv s) (hc : commit s t (partsOf s t) [] none = some s') :
    Inv s' := by
  have htx := Txn.start h
  refine commit_inv h htx.mid htx.ok (by intro p; rfl) ?_ ?_ ?_ ?_ hc
  · intro e he; cases he
  · intro p; simp [entParts, newRows]
  · intro r hr; simp [entParts] at hr
  · intro p; exact Nat.le_refl _

theorem coveredShared_some {se : Ent} {covered : Option Nat} {st : SName} {r : PartRow}
    (h : coveredShared se covered st = some r) : r ∈ se.parts ∧ r.store = st := by
  unfold coveredShared at h
  cases covered with
  | none => cases h
  | some i =>
    simp only [] at h
    cases hg : se.parts[i]? with
    | none => rw [hg] at h; cases h
    | some x =>
      rw [hg] at h
      simp only [] at h
      split at h
      · rename_i hx
        cases h
        exact ⟨List.mem_of_getElem? hg, hx⟩
      · cases h

-- ---------------------------------------------------------------- every operation preserves the invariant

theorem apply_inv {s s' : State} {op : Op} (h : Inv s) (ha : apply s op = some s') : Inv s' := by
  cases op with
  | put t cls c =>
    simp only [apply] at ha
    obtain ⟨⟨acq', htx⟩, -, -, -⟩ := writeFresh_txn (Txn.start h) (storeFor_mem h (effective cls)) c 0
    exact htx.commit_replace h ha
  | append t c =>
    simp only [apply] at ha
    cases hf : findEnt s t with
    | none => rw [hf] at ha; cases ha
    | some e =>
      rw [hf] at ha
      simp only [] at ha
      split at ha
      · cases ha
      · obtain ⟨⟨acq', htx⟩, -, -, -⟩ :=
          writeFresh_txn (Txn.start h) (storeFor_mem h (effective e.cls)) c e.parts.length
        have hprev := partsOf_find h hf
        have hid := (findEnt_some hf).2
        refine commit_inv h htx.mid htx.ok (by intro p; simpa using htx.bal p) ?_ ?_ ?_ ?_ ha
        · intro x hx; cases hx; exact hid
        · intro p
          rw [hprev]
          simp only [entParts, newRows, List.nil_append, List.map_cons, List.map_nil, pc_append, pc_nil]
          omega
        · intro r hr
          simp only [entParts, List.mem_append, List.mem_singleton] at hr
          rcases hr with hr | hr
          · right; rw [hprev]; exact ⟨r, hr, rfl, rfl, rfl⟩
          · left; exact ⟨_, List.mem_append_right _ (List.mem_singleton.mpr rfl), by rw [hr], by rw [hr], by rw [hr]⟩
        · intro p; simp
  | appendNew src t c =>
    simp only [apply] at ha
    cases hf : findEnt s src with
    | none => rw [hf] at ha; cases ha
    | some e =>
      rw [hf] at ha
      simp only [] at ha
      have he := (findEnt_some hf).1
      have hk := keepAll_txn h e.parts 0 [] [] (parts_sub_rows he) (Txn.start h)
      obtain ⟨⟨acq', htx⟩, -, -, -⟩ :=
        writeFresh_txn hk (storeFor_mem h (effective e.cls)) c e.parts.length
      simp only [List.nil_append] at htx
      cases hadd : tryAddRefs (writeFresh s (storeFor s.cmap (effective e.cls)) c e.parts.length).1
          (e.parts.map (·.pid)) with
      | none => rw [hadd] at ha; cases ha
      | some s2 =>
        rw [hadd] at ha
        simp only [] at ha
        have htx2 := addRefs_txn htx hadd
        have hnr : newRows ((renumFrom 0 e.parts).map (⟨·, true⟩) ++
            [(writeFresh s (storeFor s.cmap (effective e.cls)) c e.parts.length).2]) =
            renumFrom 0 e.parts ++ [(writeFresh s (storeFor s.cmap (effective e.cls)) c e.parts.length).2.row] := by
          simp [newRows, Function.comp_def]
        rw [← hnr] at ha
        exact htx2.commit_replace h ha
  | copy src t cls =>
    simp only [apply, copyWith] at ha
    cases hf : findEnt s src with
    | none => rw [hf] at ha; cases ha
    | some e =>
      rw [hf] at ha
      simp only [] at ha
      have he := (findEnt_some hf).1
      have hdst := storeFor_mem h (effective cls)
      cases hcp : copyParts (storeFor s.cmap (effective cls)) s e.parts 0 with
      | none => rw [hcp] at ha; cases ha
      | some res =>
        obtain ⟨s1, news⟩ := res
        rw [hcp] at ha
        simp only [] at ha
        obtain ⟨acq', htx⟩ := copyParts_txn h hdst e.parts s [] [] [] 0 s1 news (parts_sub_rows he) (Txn.start h) hcp
        simp only [List.nil_append] at htx
        cases hadd : tryAddRefs s1 (sharedIds (storeFor s.cmap (effective cls)) e.parts) with
        | none => rw [hadd] at ha; cases ha
        | some s2 =>
          rw [hadd] at ha
          simp only [] at ha
          exact (addRefs_txn htx hadd).commit_replace h ha
  | transition t cls =>
    simp only [apply, transitionWith] at ha
    split at ha
    · cases hf : findEnt s t with
      | none => rw [hf] at ha; cases ha
      | some e =>
        rw [hf] at ha
        simp only [] at ha
        obtain ⟨he, hid⟩ := findEnt_some hf
        have hdst := storeFor_mem h cls
        cases hmv : moveParts (storeFor s.cmap cls) s e.parts 0 with
        | none => rw [hmv] at ha; cases ha
        | some res =>
          obtain ⟨s1, news⟩ := res
          rw [hmv] at ha
          simp only [] at ha
          have htx := moveParts_txn h hdst e.parts s [] [] [] 0 s1 news (parts_sub_rows he) (Txn.start h) hmv
          simp only [List.nil_append] at htx
          cases hadd : tryAddRefs s1 (sharedIds (storeFor s.cmap cls) e.parts) with
          | none => rw [hadd] at ha; cases ha
          | some s2 =>
            rw [hadd] at ha
            simp only [] at ha
            subst hid
            exact (addRefs_txn htx hadd).commit_replace h ha
    · cases ha
  | delete t =>
    simp only [apply] at ha
    exact delete_inv h ha
  | mpu u cls =>
    simp only [apply] at ha
    split at ha
    · cases ha
    · rename_i hnone
      cases ha
      have hrows : rows { s with ents := s.ents ++ [(⟨u, cls, []⟩ : Ent)] } = rows s := by
        simp [rows, List.flatMap_append]
      refine { held := ?_, cnt := ?_, idxOk := h.idxOk, physFresh := h.physFresh, ids := ?_,
               defStore := h.defStore, cfgOk := h.cfgOk }
      · intro r hr; rw [hrows] at hr; exact h.held r hr
      · intro p; rw [refs_eq, hrows]; exact h.cnt p
      · show ((s.ents ++ [(⟨u, cls, []⟩ : Ent)]).map (·.id)).Nodup
        rw [List.map_append, List.nodup_append]
        refine ⟨h.ids, by simp, ?_⟩
        intro a ha b hb
        simp only [List.map_cons, List.map_nil, List.mem_singleton] at hb
        subst hb
        intro hab
        subst hab
        rw [List.mem_map] at ha
        obtain ⟨e, he, heu⟩ := ha
        apply hnone
        have : (findEnt s e.id).isSome = true := by
          unfold findEnt
          rw [List.find?_isSome]
          exact ⟨e, he, by simp⟩
        rw [heu] at this
        exact this
  | uploadPart u n c =>
    simp only [apply] at ha
    cases hf : findEnt s u with
    | none => rw [hf] at ha; cases ha
    | some e =>
      rw [hf] at ha
      simp only [] at ha
      obtain ⟨⟨acq', htx⟩, -, -, -⟩ := writeFresh_txn (Txn.start h) (storeFor_mem h (effective e.cls)) c n
      exact commit_slot_inv h htx hf ha
  | uploadPartCopy u n src covered c =>
    simp only [apply] at ha
    cases hf : findEnt s u with
    | none => rw [hf] at ha; cases ha
    | some e =>
      rw [hf] at ha
      simp only [] at ha
      cases hfs : findEnt s src with
      | none => rw [hfs] at ha; cases ha
      | some se =>
        rw [hfs] at ha
        simp only [] at ha
        cases hcs : coveredShared se covered (storeFor s.cmap (effective e.cls)) with
        | none =>
          rw [hcs] at ha
          simp only [] at ha
          obtain ⟨⟨acq', htx⟩, -, -, -⟩ := writeFresh_txn (Txn.start h) (storeFor_mem h (effective e.cls)) c n
          exact commit_slot_inv h htx hf ha
        | some r =>
          rw [hcs] at ha
          simp only [] at ha
          have hr : r ∈ rows s := parts_sub_rows (findEnt_some hfs).1 r (coveredShared_some hcs).1
          have hk := keep_txn h (Txn.start h) hr n
          simp only [List.nil_append] at hk
          cases hadd : tryAddRefs s [r.pid] with
          | none => rw [hadd] at ha; cases ha
          | some s1 =>
            rw [hadd] at ha
            simp only [] at ha
            exact commit_slot_inv h (addRefs_txn hk hadd) hf ha
  | complete u t =>
    simp only [apply] at ha
    split at ha
    · cases ha
    · cases hf : findEnt s u with
      | none => rw [hf] at ha; cases ha
      | some e =>
        rw [hf] at ha
        simp only [] at ha
        cases hc : commit s t (partsOf s t) [] none with
        | none => rw [hc] at ha; cases ha
        | some s1 =>
          rw [hc] at ha
          simp only [Option.some.injEq] at ha
          subst ha
          have h1 := delete_inv h hc
          apply rename_inv h1
          intro x hx
          obtain ⟨_, _, _, hents, _⟩ := commit_some hc
          rw [hents] at hx
          simp only [Option.toList_none, List.append_nil, List.mem_filter, bne_iff_ne, ne_eq] at hx
          exact hx.2
  | remap m =>
    simp only [apply] at ha
    split at ha
    · rename_i hall
      cases ha
      refine { held := h.held, cnt := h.cnt, idxOk := h.idxOk, physFresh := h.physFresh, ids := h.ids,
               defStore := h.defStore, cfgOk := ?_ }
      intro c n hcn
      rw [List.all_eq_true] at hall
      have := hall (c, n) hcn
      simp only [Bool.and_eq_true, Bool.or_eq_true, beq_iff_eq, List.contains_iff_mem] at this
      exact this.2
    · cases ha
  | gc =>
    simp only [apply, Option.some.injEq] at ha
    subst ha
    exact gc_inv h

theorem step_inv {s : State} (h : Inv s) (op : Op) : Inv (step s op).1 := by
  unfold step
  cases ha : apply s op with
  | none => exact h
  | some s' => exact apply_inv h ha

theorem run_inv {s : State} (h : Inv s) (ops : List Op) : Inv (run s ops) := by
  induction ops generalizing s with
  | nil => exact h
  | cons op ops ih => exact ih (step_inv h op)

theorem init_inv {stores : List SName} {cmap : List (String × String)} (hdef : "" ∈ stores)
    (hcfg : ∀ c n, (c, n) ∈ cmap → n = defaultStoreName ∨ n ∈ stores) : Inv (init stores cmap) :=
  { held := by intro r hr; simp [rows, init] at hr
    cnt := by intro p; simp [refs, rows, init]
    idxOk := by intro st c p hp; simp [init] at hp
    physFresh := by intro st p _; rfl
    ids := by simp [init]
    defStore := hdef
    cfgOk := hcfg }

-- ---------------------------------------------------------------- the transition loop

theorem moveParts_rows {dst : SName} :
    ∀ (ps : List PartRow) (s : State) (i : Nat) (s' : State) (ns : List NewPart),
      moveParts dst s ps i = some (s', ns) →
      (∀ n ∈ ns, n.row.store = dst) ∧ ns.map (·.row.content) = ps.map (·.content) := by
  intro ps
  induction ps with
  | nil =>
    intro s i s' ns hm
    simp only [moveParts, Option.some.injEq, Prod.mk.injEq] at hm
    obtain ⟨_, h2⟩ := hm
    subst h2
    simp
  | cons r rs ih =>
    intro s i s' ns hm
    unfold moveParts at hm
    split at hm
    · rename_i hst
      cases hrec : moveParts dst s rs (i + 1) with
      | none => rw [hrec] at hm; cases hm
      | some res =>
        obtain ⟨s2, ns2⟩ := res
        rw [hrec] at hm
        simp only [Option.some.injEq, Prod.mk.injEq] at hm
        obtain ⟨_, h2⟩ := hm
        subst h2
        obtain ⟨a, b⟩ := ih s (i + 1) s2 ns2 hrec
        refine ⟨?_, by simp [b]⟩
        intro n hn
        rcases List.mem_cons.mp hn with hn | hn
        · rw [hn]; exact hst
        · exact a n hn
    · cases hcp : copyPart s r.store r.pid dst with
      | none => rw [hcp] at hm; cases hm
      | some res1 =>
        obtain ⟨s1, p⟩ := res1
        rw [hcp] at hm
        simp only [] at hm
        cases hrec : moveParts dst s1 rs (i + 1) with
        | none => rw [hrec] at hm; cases hm
        | some res =>
          obtain ⟨s2, ns2⟩ := res
          rw [hrec] at hm
          simp only [Option.some.injEq, Prod.mk.injEq] at hm
          obtain ⟨_, h2⟩ := hm
          subst h2
          obtain ⟨a, b⟩ := ih s1 (i + 1) s2 ns2 hrec
          refine ⟨?_, by simp [b]⟩
          intro n hn
          rcases List.mem_cons.mp hn with hn | hn
          · rw [hn]
          · exact a n hn

/-- All parts already in the target store: nothing is copied, the part ids stay. -/
theorem moveParts_same_store {dst : SName} :
    ∀ (ps : List PartRow) (s : State) (i : Nat) (s' : State) (ns : List NewPart),
      (∀ r ∈ ps, r.store = dst) → moveParts dst s ps i = some (s', ns) →
      s' = s ∧ ns.map (·.row.pid) = ps.map (·.pid) ∧ (∀ n ∈ ns, n.pre = true) ∧ sharedIds dst ps = ps.map (·.pid) := by
  intro ps
  induction ps with
  | nil =>
    intro s i s' ns _ hm
    simp only [moveParts, Option.some.injEq, Prod.mk.injEq] at hm
    obtain ⟨h1, h2⟩ := hm
    subst h1 h2
    simp [sharedIds]
  | cons r rs ih =>
    intro s i s' ns hall hm
    have hst : r.store = dst := hall r List.mem_cons_self
    unfold moveParts at hm
    rw [if_pos hst] at hm
    cases hrec : moveParts dst s rs (i + 1) with
    | none => rw [hrec] at hm; cases hm
    | some res =>
      obtain ⟨s2, ns2⟩ := res
      rw [hrec] at hm
      simp only [Option.some.injEq, Prod.mk.injEq] at hm
      obtain ⟨h1, h2⟩ := hm
      subst h1 h2
      obtain ⟨a, b, c, d⟩ := ih s (i + 1) s2 ns2 (fun x hx => hall x (List.mem_cons_of_mem _ hx)) hrec
      refine ⟨a, by simp [b], ?_, by rw [sharedIds_cons_eq dst r rs hst, d]; rfl⟩
      intro n hn
      rcases List.mem_cons.mp hn with hn | hn
      · rw [hn]
      · exact c n hn

-- ---------------------------------------------------------------- part-store faults

/-- A fault plan either makes the transition loop fail or leaves it exactly as without faults. -/
theorem movePartsF_dichotomy (dst : SName) :
    ∀ (ps : List PartRow) (flt : Option Fault) (s : State) (i : Nat),
      movePartsF dst flt s ps i = none ∨ movePartsF dst flt s ps i = moveParts dst s ps i := by
  intro ps
  induction ps with
  | nil => intro flt s i; right; simp [movePartsF, moveParts]
  | cons r rs ih =>
    intro flt s i
    unfold movePartsF moveParts
    by_cases hst : r.store = dst
    · rw [if_pos hst, if_pos hst]
      rcases ih flt s (i + 1) with h | h
      · left; rw [h]
      · right; rw [h]
    · rw [if_neg hst, if_neg hst]
      cases flt with
      | none =>
        simp only [copyPartF]
        cases hcp : copyPart s r.store r.pid dst with
        | none => left; rfl
        | some res =>
          obtain ⟨s1, p⟩ := res
          simp only []
          rcases ih none s1 (i + 1) with h | h
          · left; rw [h]
          · right; rw [h]
      | some f =>
        simp only [copyPartF]
        by_cases h0 : f.step = 0
        · rw [if_pos h0]
          simp only []
          by_cases hab : f.aborts = true
          · left; rw [if_pos hab]
          · rw [if_neg hab]
            cases hcp : copyPart s r.store r.pid dst with
            | none => left; rfl
            | some res =>
              obtain ⟨s1, p⟩ := res
              simp only []
              rcases ih none s1 (i + 1) with h | h
              · left; rw [h]
              · right; rw [h]
        · rw [if_neg h0]
          simp only []
          cases hcp : copyPart s r.store r.pid dst with
          | none => left; rfl
          | some res =>
            obtain ⟨s1, p⟩ := res
            simp only []
            rcases ih (some { f with step := f.step - 1 }) s1 (i + 1) with h | h
            · left; rw [h]
            · right; rw [h]

theorem copyPartsF_dichotomy (dst : SName) :
    ∀ (ps : List PartRow) (flt : Option Fault) (s : State) (i : Nat),
      copyPartsF dst flt s ps i = none ∨ copyPartsF dst flt s ps i = copyParts dst s ps i := by
  intro ps
  induction ps with
  | nil => intro flt s i; right; simp [copyPartsF, copyParts]
  | cons r rs ih =>
    intro flt s i
    unfold copyPartsF copyParts
    by_cases hst : r.store = dst
    · rw [if_pos hst, if_pos hst]
      rcases ih flt s (i + 1) with h | h
      · left; rw [h]
      · right; rw [h]
    · rw [if_neg hst, if_neg hst]
      cases hts : tryShare s dst r.content with
      | mk s1 o =>
        cases o with
        | some q =>
          simp only []
          rcases ih flt s1 (i + 1) with h | h
          · left; rw [h]
          · right; rw [h]
        | none =>
          simp only []
          cases flt with
          | none =>
            simp only [copyPartF]
            cases hcp : copyPart s1 r.store r.pid dst with
            | none => left; rfl
            | some res =>
              obtain ⟨s2, p⟩ := res
              simp only []
              rcases ih none (tryIndex s2 dst r.content p) (i + 1) with h | h
              · left; rw [h]
              · right; rw [h]
          | some f =>
            simp only [copyPartF]
            by_cases h0 : f.step = 0
            · rw [if_pos h0]
              simp only []
              by_cases hab : f.aborts = true
              · left; rw [if_pos hab]
              · rw [if_neg hab]
                cases hcp : copyPart s1 r.store r.pid dst with
                | none => left; rfl
                | some res =>
                  obtain ⟨s2, p⟩ := res
                  simp only []
                  rcases ih none (tryIndex s2 dst r.content p) (i + 1) with h | h
                  · left; rw [h]
                  · right; rw [h]
            · rw [if_neg h0]
              simp only []
              cases hcp : copyPart s1 r.store r.pid dst with
              | none => left; rfl
              | some res =>
                obtain ⟨s2, p⟩ := res
                simp only []
                rcases ih (some { f with step := f.step - 1 }) (tryIndex s2 dst r.content p) (i + 1) with h | h
                · left; rw [h]
                · right; rw [h]

theorem crossCount_cons_eq (dst : SName) (r : PartRow) (rs : List PartRow) (h : r.store = dst) :
    crossCount dst (r :: rs) = crossCount dst rs := by simp [crossCount, h]

theorem crossCount_cons_ne (dst : SName) (r : PartRow) (rs : List PartRow) (h : ¬ r.store = dst) :
    crossCount dst (r :: rs) = crossCount dst rs + 1 := by simp [crossCount, h]

/-- An aborting fault at a copy step the transition reaches makes the loop fail. -/
theorem movePartsF_abort (dst : SName) :
    ∀ (ps : List PartRow) (f : Fault) (s : State) (i : Nat),
      f.aborts = true → f.step < crossCount dst ps → movePartsF dst (some f) s ps i = none := by
  intro ps
  induction ps with
  | nil => intro f s i _ hlt; simp [crossCount] at hlt
  | cons r rs ih =>
    intro f s i hab hlt
    unfold movePartsF
    by_cases hst : r.store = dst
    · rw [if_pos hst]
      rw [crossCount_cons_eq dst r rs hst] at hlt
      rw [ih f s (i + 1) hab hlt]
    · rw [if_neg hst]
      rw [crossCount_cons_ne dst r rs hst] at hlt
      simp only [copyPartF]
      by_cases h0 : f.step = 0
      · rw [if_pos h0, if_pos hab]
      · rw [if_neg h0]
        simp only []
        cases hcp : copyPart s r.store r.pid dst with
        | none => rfl
        | some res =>
          obtain ⟨s1, p⟩ := res
          simp only []
          have hlt' : ({ f with step := f.step - 1 } : Fault).step < crossCount dst rs := by
            show f.step - 1 < crossCount dst rs
            omega
          rw [ih { f with step := f.step - 1 } s1 (i + 1) hab hlt']

/-- A fault that only concerns `Close`, or a step the transition never reaches, changes nothing. -/
theorem movePartsF_harmless (dst : SName) :
    ∀ (ps : List PartRow) (f : Fault) (s : State) (i : Nat),
      (f.aborts = false ∨ crossCount dst ps ≤ f.step) →
      movePartsF dst (some f) s ps i = moveParts dst s ps i := by
  have hnone : ∀ (ps : List PartRow) (s : State) (i : Nat), movePartsF dst none s ps i = moveParts dst s ps i := by
    intro ps
    induction ps with
    | nil => intro s i; simp [movePartsF, moveParts]
    | cons r rs ih =>
      intro s i
      unfold movePartsF moveParts
      by_cases hst : r.store = dst
      · rw [if_pos hst, if_pos hst, ih]
      · rw [if_neg hst, if_neg hst]
        simp only [copyPartF]
        cases hcp : copyPart s r.store r.pid dst with
        | none => rfl
        | some res =>
          obtain ⟨s1, p⟩ := res
          simp only []
          rw [ih]
  intro ps
  induction ps with
  | nil => intro f s i _; simp [movePartsF, moveParts]
  | cons r rs ih =>
    intro f s i h
    unfold movePartsF moveParts
    by_cases hst : r.store = dst
    · rw [if_pos hst, if_pos hst]
      rw [crossCount_cons_eq dst r rs hst] at h
      rw [ih f s (i + 1) h]
    · rw [if_neg hst, if_neg hst]
      rw [crossCount_cons_ne dst r rs hst] at h
      simp only [copyPartF]
      by_cases h0 : f.step = 0
      · rw [if_pos h0]
        simp only []
        have hab : f.aborts = false := by
          rcases h with h | h
          · exact h
          · omega
        rw [hab]
        simp only [Bool.false_eq_true, ↓reduceIte]
        cases hcp : copyPart s r.store r.pid dst with
        | none => rfl
        | some res =>
          obtain ⟨s1, p⟩ := res
          simp only []
          rw [hnone]
      · rw [if_neg h0]
        simp only []
        cases hcp : copyPart s r.store r.pid dst with
        | none => rfl
        | some res =>
          obtain ⟨s1, p⟩ := res
          simp only []
          have h' : (({ f with step := f.step - 1 } : Fault).aborts = false ∨
              crossCount dst rs ≤ ({ f with step := f.step - 1 } : Fault).step) := by
            rcases h with h | h
            · left; exact h
            · right; show crossCount dst rs ≤ f.step - 1; omega
          rw [ih { f with step := f.step - 1 } s1 (i + 1) h']

/-- Whatever the fault plan: the call fails, or it behaves exactly as without faults. -/
theorem applyF_dichotomy (s : State) (op : Op) (flt : Option Fault) :
    applyF s op flt = none ∨ applyF s op flt = apply s op := by
  cases op with
  | transition t cls =>
    simp only [applyF, apply, transitionWith]
    split
    · cases hf : findEnt s t with
      | none => left; rfl
      | some e =>
        simp only []
        rcases movePartsF_dichotomy (storeFor s.cmap cls) e.parts flt s 0 with h | h
        · left; rw [h]
        · right; rw [h]
    · left; rfl
  | copy src t cls =>
    simp only [applyF, apply, copyWith]
    cases hf : findEnt s src with
    | none => left; rfl
    | some e =>
      simp only []
      rcases copyPartsF_dichotomy (storeFor s.cmap (effective cls)) e.parts flt s 0 with h | h
      · left; rw [h]
      · right; rw [h]
  | _ => right; rfl

theorem stepF_inv {s : State} (h : Inv s) (op : Op) (flt : Option Fault) : Inv (stepF s op flt).1 := by
  unfold stepF
  rcases applyF_dichotomy s op flt with hd | hd
  · rw [hd]; exact h
  · rw [hd]
    cases ha : apply s op with
    | none => exact h
    | some s' => exact apply_inv h ha

theorem runF_inv {s : State} (h : Inv s) (ops : List (Op × Option Fault)) : Inv (runF s ops) := by
  induction ops generalizing s with
  | nil => exact h
  | cons o ops ih => exact ih (stepF_inv h o.1 o.2)

end Pithos.ClassRouting
