/-
Driver for C15. Trace lines of one case (produced by harness/cmd/verifharness/c15.go):

  stack <fs|sql|mix> <letters…|->      z:<sample> g:<sample> t c:<max> o e:<d>:<p>:<stripe>
  fixes sql=<0|1> ec=<0|1> tink=<0|1>  repairs present in the tree under test (probed by the harness)
  caps <get> <put> <del>
  put <tx|notx> <id> <content> <ok|err> [panic]
  get <tx|notx> <id> (nf | ok <content> | err <open|read>) [panic]
  del <tx|notx> <id> <ok|err> [panic]
  ids <ordinals,…|-> <dups 0|1>
  flush <ok|timeout>
  lose <leaf> <id> <ok|err>           a leaf store loses the part (fault below the stack; directed cases, judge only)
  panic <text>

Contents: hex, "-" (empty), "@n:len" (the n-th content of the case, too long to print; the harness
compared the bytes), "?len:hash" (bytes that equal no content of the case).

The driver (1) runs `Pithos.PartStore.stack` — the model of the code AS IT IS — on the same history
and compares every observation (tie), and (2) judges the observed history against the property
itself: a reference map id ↦ content (judge).
-/
import Pithos.Util.Proto
import Pithos.Model.PartStoreToy
import Pithos.Model.OutboxRead
open Pithos Pithos.Proto Pithos.Codec Pithos.PartStore

namespace C15

/-- Toy primitives: the tie compares API-level observations only, so any primitives that satisfy the
round-trip hypotheses of the theorems will do (`Pithos.PartStore.toyPrims`). -/
def prims : Prims := toyPrims

/-- The sampling decision of `compression.PutPart` (does the sample shrink to 95 % under the real gzip /
zstd?) is opaque to the model. It is observable in exactly one way: an uncompressed part is handed
out as the inner reader itself and stays seekable, which decides whether a second tink layer above
fails (known finding). The tie therefore runs the model under both constant decisions and accepts
an observation that matches either. -/
def primsYes : Prims := { toyPrims with shouldCompress := fun _ _ _ => true }
def primsNo : Prims := { toyPrims with shouldCompress := fun _ _ _ => false }

def parseLetter (s : String) : Option Mw :=
  match s.splitOn ":" with
  | ["z", n] => some (.compress .zstd n.toNat!)
  | ["g", n] => some (.compress .gzip n.toNat!)
  | ["t"] => some .tink
  | ["c", n] => some (.cache n.toNat!)
  | ["o"] => some .outbox
  | ["e", d, p, st] => some (.ec ⟨d.toNat!, p.toNat!, st.toNat!⟩)
  | _ => none

def isEc : Mw → Bool
  | .ec _ => true
  | _ => false

def isPassThrough : Mw → Bool
  | .cache _ => true
  | .outbox => true
  | _ => false

/-- Content token → bytes. References and unknown contents become placeholders longer than every
inline content (inline ≤ 2048 bytes), distinct for distinct tokens. -/
def tokBytes (t : String) : Option Bytes :=
  if t.startsWith "@" then
    match ((t.drop 1).toString.splitOn ":") with
    | [n, _] => some (List.replicate (2049 + n.toNat!) 0xEE)
    | _ => none
  else if t.startsWith "?" then
    some (List.replicate 3000 0xEF ++ t.toUTF8.toList)
  else unhex t

/-- length of a content for messages (placeholders stand for contents too long to print) -/
def descrLen (b : Bytes) : String :=
  if b.length ≤ 2048 then s!"{b.length}-bytes" else "long-content-see-trace"

inductive Res where
  | done (ok : Bool)
  | got (o : Option (Option Bytes))   -- none = error, some none = not found, some (some b) = bytes
  | ids (l : List Nat) (unknown : Bool) (dups : Bool)
  | flushed (ok : Bool)

structure Line where
  op : Op
  res : Res
  panicked : Bool := false

def parseLine (l : String) : Option Line :=
  let ts := tokens l
  let pan := ts.getLast? == some "panic"
  let ts := if pan then ts.dropLast else ts
  let tx (m : String) : Bool := m == "tx"
  match ts with
  | ["put", m, i, c, r] => (tokBytes c).map fun b => ⟨.put (tx m) i.toNat! b, .done (r == "ok"), pan⟩
  | ["del", m, i, r] => some ⟨.del (tx m) i.toNat!, .done (r == "ok"), pan⟩
  | ["get", m, i, "nf"] => some ⟨.get (tx m) i.toNat!, .got (some none), pan⟩
  | ["get", m, i, "ok", c] => (tokBytes c).map fun b => ⟨.get (tx m) i.toNat!, .got (some (some b)), pan⟩
  | ["get", m, i, "err", _] => some ⟨.get (tx m) i.toNat!, .got none, pan⟩
  | ["ids", "err", _] => some ⟨.ids, .done false, pan⟩
  | ["ids", l, d] =>
    let parts := if l == "-" then [] else l.splitOn ","
    some ⟨.ids, .ids ((parts.filter (· != "x")).map String.toNat!) (parts.contains "x") (d == "1"), pan⟩
  | ["flush", r] => some ⟨.flush, .flushed (r == "ok"), pan⟩
  | _ => none

def sortNat (l : List Nat) : List Nat := (l.toArray.qsort (· < ·)).toList

def showOut : GetOut → String
  | .notFound => "nf"
  | .ok s => s!"ok[{s.bytes.length}]"
  | .err => "err"

def showObs : Option (Option Bytes) → String
  | none => "err"
  | some none => "nf"
  | some (some b) => s!"ok[{b.length}]"

/-! ## statement-level races of outbox reads (harness: c15_race.go; model: `Pithos.OutboxRead`)

    race <fs|sql>
    ev put <hex|-> | ev del | ev flush
    rd <tx|notx> begin <none|put|del>     the read's first statement runs now
    rd end <nf | ok <hex|-> | err>        … the rest of it now
    rd <tx|notx> plain <nf | ok … | err>

Tie: the model reader is the program of the code (`OnVanished.retry` for both read paths — what
`Pithos.Gen.OutboxRead` records and `Props/C15.extracted_read_paths_reevaluate` checks on every run).
Judge: a divided read must return a value the store held at some moment between its first statement and
its end (the abstract value = newest pending entry, else the inner store); an undivided read the current
value. -/

def showRaceRes : OutboxRead.Res → String
  | .found b => s!"ok[{b.length}]"
  | .notFound => "nf"
  | .failed => "err"

def judgeRace (lines : List String) : Verdict := Id.run do
  let parseRes (ts : List String) : Option OutboxRead.Res :=
    match ts with
    | ["nf"] => some .notFound
    | ["err"] => some .failed
    | ["ok", h] => (unhex h).map .found
    | _ => none
  let mut s : OutboxRead.St := {}
  let mut first : Option OutboxRead.Entry := none
  let mut during : List (Option Bytes) := []     -- abstract values since the first statement of the open read
  let mut div : List String := []
  let mut vio : List (String × String) := []
  let mut i := 0
  let mut reads := 0
  let mut stats : List (String × Nat) := []
  for l in lines.drop 1 do
    let ts := tokens l
    match ts with
    | ["ev", "put", h] =>
      let some b := unhex h | return { diverge := ["unparsable-trace:race-put"] }
      s := s.apply (.put b); during := during ++ [s.abs]
    | ["ev", "del"] => s := s.apply .del; during := during ++ [s.abs]
    | ["ev", "flush"] => s := s.apply .flush; during := during ++ [s.abs]
    | ["rd", _, "begin", saw] =>
      first := s.lookup
      during := [s.abs]
      let msaw := match first with
        | none => "none"
        | some e => if e.isPut then "put" else "del"
      if msaw != saw then div := div ++ [s!"item{i}:first-statement:model={msaw},impl={saw}"]
      stats := addStats stats [(s!"race_first_{saw}", 1)]
    | "rd" :: "end" :: r =>
      let some got := parseRes r | return { diverge := ["unparsable-trace:race-result"] }
      let m := OutboxRead.rest .retry (OutboxRead.maxRetries - 1) first s
      if m != got then div := div ++ [s!"item{i}:divided-read:model={showRaceRes m},impl={showRaceRes got}"]
      if !(during.any fun v => OutboxRead.ofOpt v == got) then
        vio := vio ++ [("C15.outbox-read-returned-a-value-the-part-never-had-during-the-call", s!"item{i}:{showRaceRes got}")]
      reads := reads + 1
      stats := addStats stats [(if during.length > 1 then "race_divided_with_events" else "race_divided_no_events", 1)]
    | "rd" :: _ :: "plain" :: r =>
      let some got := parseRes r | return { diverge := ["unparsable-trace:race-result"] }
      let m := OutboxRead.read .retry s
      if m != got then div := div ++ [s!"item{i}:read:model={showRaceRes m},impl={showRaceRes got}"]
      if OutboxRead.ofOpt s.abs != got then
        vio := vio ++ [("C15.outbox-read-not-the-current-value", s!"item{i}:{showRaceRes got}")]
      reads := reads + 1
    | _ => return { diverge := ["unparsable-trace:race-line"] }
    i := i + 1
  return {
    diverge := div.take 5, violations := vio,
    nontrivial := reads ≥ 2,
    fingerprint := fpLines lines,
    stats := addStats stats [("race_cases", 1)],
    samples := [String.intercalate ";" ((lines.take 8).map fun l => (l.take 40).toString)]
  }

def judgeCase (_k : Nat) (lines : List String) : Verdict := Id.run do
  if (lines.head?.map tokens).bind List.head? == some "race" then
    if let some p := lines.find? (·.startsWith "panic ") then
      return { violations := [("C15.case-panicked", p)], fingerprint := fpLines lines }
    return judgeRace lines
  let (base, word) ← match lines.head?.map tokens with
    | some ("stack" :: b :: ws) => pure (b, if ws == ["-"] then [] else ws)
    | _ => return { diverge := ["unparsable-trace:no-stack-line"] }
  let some mws := word.mapM parseLetter | return { diverge := ["unparsable-trace:stack-letter"] }
  let mbase : Base := if base == "sql" then .sql else .fs   -- "mix": leaves alternate fs/sql; only ever below e
  -- which repairs the tree under test carries (probed by the harness): selects the model variant for the tie
  let fixTok := ((lines.find? (·.startsWith "fixes ")).map tokens).getD []
  let fx : Fixes := { sqlEmptyRow := fixTok.contains "sql=1",
                      ec := { notFoundWhenAllMissing := fixTok.contains "ec=1", healParity := false },
                      tinkStickyEof := fixTok.contains "tink=1" }
  let body := (lines.drop 1).filter fun l => !(l.startsWith "caps ") && !(l.startsWith "fixes ")
  if let some p := body.find? (·.startsWith "panic ") then
    return { violations := [("C15.case-panicked", p)], fingerprint := fpLines lines }
  if let some p := body.find? (·.startsWith "hang ") then
    return { violations := [("C15.operation-did-not-return", p)], fingerprint := fpLines lines }
  -- `lose <leaf> <id> ok`: a fault injected below the stack (directed cases): the model has no such operation,
  -- the judge applies unchanged (the part is still live), the tie is not attempted
  let faulted := body.any (·.startsWith "lose ")
  let body := body.filter fun l => !(l.startsWith "lose ")
  let some ls := body.mapM parseLine | return { diverge := ["unparsable-trace:op-line"] }
  let S := stack primsYes fx mws mbase
  let S2 := stack primsNo fx mws mbase
  -- facts about the stack used to make signatures narrow
  let hasEc := mws.any isEc
  let tinks := (mws.filter (· == .tink)).length
  let emptyReachesSql := base == "sql" && mws.all isPassThrough
  let outboxBelowEc := ((mws.dropWhile (fun m => !isEc m)).any (· == .outbox))
  let tinksBelowEc := ((mws.dropWhile (fun m => !isEc m)).filter (· == .tink)).length
  -- Three or more sequential tink layers below an erasure-coding layer: the lower two make every shard stream
  -- fail (known finding), and how far the third gets before it fails depends on tink's segmentation, which this
  -- abstract model does not have (Model/TinkSeek does). The judge still applies; the tie is not attempted.
  let tieOff := (hasEc && tinksBelowEc ≥ 3) || faulted
  let mut s := S.init
  let mut s2 := S2.init
  let mut live : List (Nat × Bytes) := []       -- the judge's reference map
  let mut ghosted : List Nat := []               -- ids read while absent (judge bookkeeping for signatures)
  let mut div : List String := []
  let mut vio : List (String × String) := []
  let mut idx := 0
  let mut roundTrips := 0
  let mut stats : List (String × Nat) := []
  for ln in ls do
    let (s', mobs) := step S s ln.op
    s := s'
    let (s2', mobs2) := step S2 s2 ln.op
    s2 := s2'
    let bump (name : String) (st : List (String × Nat)) := addStats st [(name, 1)]
    match ln.op, ln.res with
    | .put tx i b, .done ok =>
      stats := bump (if tx then "put_tx" else "put_notx") stats
      stats := bump (if b.isEmpty then "content_empty" else if b.length ≤ 2048 then "content_inline" else "content_ref") stats
      if !ok then div := div ++ [s!"op{idx}:put-failed"] else live := (i, b) :: live.filter (·.1 != i)
    | .del tx i, .done ok =>
      stats := bump (if tx then "del_tx" else "del_notx") stats
      if !ok then div := div ++ [s!"op{idx}:del-failed"] else live := live.filter (·.1 != i)
    | .get tx i, .got o =>
      stats := bump (if tx then "get_tx" else "get_notx") stats
      -- tie
      let view (ob : Obs) : Option (Option Bytes) × Bool := match ob with
        | .got .notFound p => (some none, p)
        | .got (.ok st) p => (some (some st.bytes), p)
        | .got .err p => (none, p)
        | _ => (none, false)
      let m := view mobs
      let m2 := view mobs2
      if m.1 != m2.1 then stats := bump "get_depends_on_compress_decision" stats
      if tieOff then stats := bump "get_not_predicted" stats
      else
        if m.1 != o && m2.1 != o then div := div ++ [s!"op{idx}:get-{i}:model={showObs m.1}|{showObs m2.1},impl={showObs o}"]
        if m.2 != ln.panicked && m2.2 != ln.panicked then div := div ++ [s!"op{idx}:get-{i}:model-panic={m.2},impl-panic={ln.panicked}"]
      -- judge
      let expect := (live.find? (·.1 == i)).map (·.2)
      match expect, o with
      | some c, some (some b) =>
        if b == c then
          roundTrips := roundTrips + 1
          stats := bump "get_live_ok" stats
        else
          let ctx := if hasEc && tinksBelowEc ≥ 2 && b.isEmpty then ".empty-result.double-tink-below-erasure-coding" else ""
          vio := vio ++ [("C15.get-returned-different-bytes" ++ ctx, s!"op{idx}:get-{i}:expected-{descrLen c},got-{descrLen b}")]
      | some c, some none =>
        let ctx := if c.isEmpty && emptyReachesSql then ".empty-content-reaches-sql-store" else ""
        vio := vio ++ [("C15.live-part-not-found" ++ ctx, s!"op{idx}:get-{i}:live-part-of-{descrLen c}-answered-not-found")]
      | some c, none =>
        let ctx := if tinks ≥ 2 then ".double-tink" else ""
        vio := vio ++ [("C15.live-part-read-error" ++ ctx, s!"op{idx}:get-{i}:live-part-of-{descrLen c}-failed-to-read")]
      | none, some none => stats := bump "get_absent_nf" stats
      | none, some (some b) =>
        ghosted := i :: ghosted
        let ctx := if hasEc && b.isEmpty then ".empty-result-through-erasure-coding" else ""
        vio := vio ++ [("C15.absent-part-readable" ++ ctx, s!"op{idx}:get-{i}:absent-part-answered-{descrLen b}")]
      | none, none =>
        let ctx := if hasEc && tinks ≥ 2 && ghosted.contains i then ".ghost-part-behind-double-tink" else ""
        vio := vio ++ [("C15.absent-part-error-instead-of-not-found" ++ ctx, s!"op{idx}:get-{i}")]
      if ln.panicked then
        let ctx := if hasEc && outboxBelowEc && !tx then ".ec-heal-without-tx-over-outbox" else ""
        vio := vio ++ [("C15.panic-in-shard-store-call" ++ ctx, s!"op{idx}:get-{i}")]
    | .ids, .ids l unknown dups =>
      stats := bump "ids" stats
      let m := match mobs with
        | .ids ml => sortNat ml
        | _ => []
      let m2 := match mobs2 with
        | .ids ml => sortNat ml
        | _ => []
      if !tieOff && m != sortNat l && m2 != sortNat l then div := div ++ [s!"op{idx}:ids:model={m},impl={l}"]
      let want := sortNat (live.map (·.1))
      if unknown then vio := vio ++ [("C15.ids-lists-foreign-id", s!"op{idx}")]
      if dups then vio := vio ++ [("C15.ids-duplicates", s!"op{idx}")]
      for i in want do
        if !l.contains i then
          let c := ((live.find? (·.1 == i)).map (·.2)).getD []
          let ctx := if c.isEmpty && emptyReachesSql then ".empty-content-reaches-sql-store" else ""
          vio := vio ++ [("C15.ids-missing-live-part" ++ ctx, s!"op{idx}:id-{i}")]
      for i in l do
        if !want.contains i then
          let ctx := if hasEc && ghosted.contains i then ".after-absent-read-through-erasure-coding" else ""
          vio := vio ++ [("C15.ids-lists-absent-part" ++ ctx, s!"op{idx}:id-{i}")]
    | .ids, .done _ => div := div ++ [s!"op{idx}:ids-failed"]
    | .flush, .flushed ok =>
      stats := bump "flush" stats
      if !ok then div := div ++ [s!"op{idx}:flush-timeout"]
    | _, _ => div := div ++ [s!"op{idx}:unexpected-result-shape"]
    if ln.panicked then
      match ln.op with
      | .get _ _ => pure ()
      | _ => vio := vio ++ [("C15.panic-in-shard-store-call", s!"op{idx}")]
    idx := idx + 1
  stats := addStats stats [(s!"depth_{mws.length}", 1), (s!"base_{base}", 1),
    (s!"model_variant_sql{if fx.sqlEmptyRow then 1 else 0}_ec{if fx.ec.notFoundWhenAllMissing then 1 else 0}_tink{if fx.tinkStickyEof then 1 else 0}", 1)]
  for m in mws do
    let nm := match m with
      | .compress .zstd _ => "mw_zstd" | .compress _ _ => "mw_gzip" | .tink => "mw_tink"
      | .cache _ => "mw_cache" | .outbox => "mw_outbox" | .ec _ => "mw_ec"
    stats := addStats stats [(nm, 1)]
  -- identical violations of one case collapse to one line per signature
  let vio' := vio.foldl (fun acc v => if acc.any (·.1 == v.1) then acc else acc ++ [v]) []
  return {
    diverge := div.take 5, violations := vio',
    nontrivial := roundTrips ≥ 1 && ls.length ≥ 3,
    fingerprint := fpLines lines,
    stats := stats,
    samples := [String.intercalate ";" ((lines.take 6).map fun l => (l.take 60).toString)]
  }

end C15

def main : IO Unit := runDriver C15.judgeCase
