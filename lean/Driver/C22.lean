/-
Driver for C22. Three kinds of case (first line `kind match|hist|disp`). Tokens are separated by
blanks; strings are hex ("-" = empty), "~" = absent / empty list.

match   m <dest> <events,…> <name=value,…> <eventname> <key> <0|1>        notification.RuleMatches
hist    shared <0|1>                         storage and middleware use one database handle
        cfg <bucket> <eventbridge 0|1> <versioned 0|1>
        rule <dest> <events,…> <name=value,…>
        op <kind> <key,…> <fault> <mutation,…> <ok|err> <changed 0|1|partial> <dest:event,…>
             fault = none | mutation | insert:<i> | commit ; mutation = the property's mutation kind per key;
             changed = what a reader of the key(s) sees differs from before the call; last token = the
             outbox rows that appeared
        count <n>                            rows the repository counts beyond the reported ones (must be 0)
disp    dcfg <maxAttempts> <minBackoff ms> <maxBackoff ms> <concurrency> <batch>
        entry <i> <script of 0/1>            outcomes of the successive Publish calls (then: succeed)
        pub <i> <attempt> <0|1> <delay ms|~> <early 0|1>   one Publish call; delay = the backoff scheduled after
             it (next scheduled instant − return of this call); early = the NEXT call started before its schedule
        final <i> delivered|dead|pending <attempts|~>
tie:   Pithos.Notify (ruleMatches / attempt / runScript) must reproduce result, state change, rows,
       publish sequence, final state, delays (± tolerance, the code computes them in float64);
judge: rows ⇔ committed ∧ selected (Pithos.NotifyS3), delivery / dead-letter accounting, backoff bounds.
-/
import Pithos.Util.Proto
import Pithos.Model.Notify
import Pithos.Spec.NotifyS3
open Pithos Pithos.Proto Pithos.Notify Pithos.NotifyS3

namespace C22

def strTok (s : String) : Str := ((unhexStr s).getD "").toList
def listTok (s : String) : List String := if s == "~" then [] else s.splitOn ","

def pairTok (sep : String) (s : String) : Str × Str :=
  match s.splitOn sep with
  | [a, b] => (strTok a, strTok b)
  | _ => ([], [])

def ruleTok (d e f : String) : Rule :=
  { dest := strTok d, events := (listTok e).map strTok,
    filters := (listTok f).map fun x => let p := pairTok "=" x; { name := p.1, value := p.2 } }

def showStr (s : Str) : String := String.ofList s

def mutationOf (s : String) : Option Mutation :=
  match s with
  | "put" => some .put | "copy" => some .copy | "completeMultipart" => some .completeMultipart
  | "append" => some .append | "delete" => some .delete | "deleteMarkerCreated" => some .deleteMarkerCreated
  | "taggingPut" => some .taggingPut | "taggingDelete" => some .taggingDelete
  | _ => none

/-- the events the MIDDLEWARE produces for a mutation kind: AppendObject is not overridden, so none -/
def codeEvents (m : Mutation) (key : Str) : List Event :=
  match m with
  | .append => []
  | m => [{ name := eventName m, key := key }]

def faultOf (s : String) : Option Fault :=
  if s == "none" then some .none
  else if s == "mutation" then some .mutationFails
  else if s == "commit" then some .commitFails
  else match s.splitOn ":" with
    | ["insert", i] => i.toNat?.map Fault.insertFails
    | _ => none

def rowLt (a b : Row) : Bool := (showStr a.dest ++ "|" ++ showStr a.event) < (showStr b.dest ++ "|" ++ showStr b.event)

def insertRow (r : Row) : List Row → List Row
  | [] => [r]
  | x :: xs => if rowLt r x then r :: x :: xs else x :: insertRow r xs

def sortRows (rs : List Row) : List Row := rs.foldr insertRow []

def showRows (rs : List Row) : String := String.intercalate "," (rs.map fun r => showStr r.dest ++ "|" ++ showStr r.event)

/-- remove one occurrence -/
def removeOne (r : Row) : List Row → Option (List Row)
  | [] => none
  | x :: xs => if x == r then some xs else (removeOne r xs).map (x :: ·)

/-- multiset difference a − b -/
def minus (a b : List Row) : List Row :=
  b.foldl (fun acc r => match removeOne r acc with | some acc' => acc' | none => acc) a

def delayTolMs : Nat := 30

end C22

open C22 in
def judgeMatch (lines : List String) : Verdict := Id.run do
  let mut div : List String := []
  let mut n := 0
  let mut pos := 0
  for l in lines do
    match tokens l with
    | ["m", d, e, f, name, key, res] =>
      n := n + 1
      let r := ruleTok d e f
      let ev : Event := { name := strTok name, key := strTok key }
      let m := ruleMatches r ev
      if m then pos := pos + 1
      if m != (res == "1") then
        div := div ++ [s!"RuleMatches events={e} filters={f} event={showStr ev.name} key={showStr ev.key}: model={m}, impl={res}"]
    | _ => div := div ++ [s!"unparsable:{l}"]
  return { diverge := div, nontrivial := n > 0, fingerprint := fpLines lines,
           stats := [("match_pairs", n), ("match_positive", pos)] }

open C22 in
def judgeHist (lines : List String) : Verdict := Id.run do
  let mut div : List String := []
  let mut vio : List (String × String) := []
  let mut stats : List (String × Nat) := []
  let mut cfg : Config := { rules := [], eventBridge := false, bucket := [] }
  let mut shared := true
  let mut nops := 0
  for l in lines do
    match tokens l with
    | ["shared", s] =>
      shared := s == "1"
      if !shared then div := div ++ ["premise: storage and middleware do not share one database handle"]
    | ["cfg", b, eb, _] => cfg := { cfg with bucket := strTok b, eventBridge := eb == "1" }
    | ["rule", d, e, f] => cfg := { cfg with rules := cfg.rules ++ [ruleTok d e f] }
    | ["count", n] => if n != "0" then div := div ++ [s!"repository count differs from the table by {n}"]
    | ["panic", m] => vio := vio ++ [("C22.panic", s!"panic: {(unhexStr m).getD m}")]
    | ["op", kind, keys, fault, muts, res, changed, rows] =>
      nops := nops + 1
      let ks := (listTok keys).map strTok
      let ms := (listTok muts).filterMap mutationOf
      let obsRows := sortRows ((listTok rows).map fun x => let p := pairTok ":" x; { dest := p.1, event := p.2 })
      match faultOf fault with
      | none => div := div ++ [s!"unparsable fault {fault}"]
      | some flt =>
        if ms.length != ks.length || ms.isEmpty then div := div ++ [s!"unparsable op {l}"]
        else
          -- tie
          let evsCode := (ms.zip ks).flatMap fun (m, k) => codeEvents m k
          let out := attempt shared (entriesForAll cfg evsCode) flt
          if out.ok != (res == "ok") then
            div := div ++ [s!"op {kind} fault={fault}: model ok={out.ok}, impl {res}"]
          if (if out.committed then "1" else "0") != changed then
            div := div ++ [s!"op {kind} fault={fault}: model committed={out.committed}, impl changed={changed}"]
          if sortRows out.rows != obsRows then
            div := div ++ [s!"op {kind} fault={fault}: model rows=[{showRows (sortRows out.rows)}], impl rows=[{showRows obsRows}]"]
          -- judge: rows ⇔ committed ∧ selected
          let evsSpec := (ms.zip ks).map fun (m, k) => ({ name := eventName m, key := k } : Event)
          let committed := changed == "1"
          let want := sortRows (evsSpec.flatMap (demanded cfg committed))
          if changed == "partial" then
            vio := vio ++ [("C22.partial-commit", s!"{kind}: some but not all targeted keys changed")]
          else
            if !committed && !obsRows.isEmpty then
              vio := vio ++ [("C22.row-without-committed-mutation", s!"{kind} fault={fault}: rows [{showRows obsRows}] exist although the mutation left no trace")]
            else
              let extra := minus obsRows want
              let missing := minus want obsRows
              if !extra.isEmpty then
                vio := vio ++ [("C22.row-without-selecting-rule", s!"{kind}: rows [{showRows extra}] are not demanded by any rule")]
              if !missing.isEmpty then
                let mk := (listTok muts).headD "?"
                vio := vio ++ [(s!"C22.committed-mutation-without-row.{mk}", s!"{kind} committed, rules demand [{showRows missing}], no such outbox row")]
            if (res == "ok") != committed then
              vio := vio ++ [("C22.result-disagrees-with-state", s!"{kind} fault={fault}: answered {res} but changed={changed}")]
          stats := addStats stats [("op_" ++ kind, 1), ("fault_" ++ (fault.splitOn ":").headD fault, 1),
            (if committed then "ops_committed" else "ops_rolled_back", 1), ("rows_observed", obsRows.length),
            (if want.isEmpty then "ops_no_rule_selects" else "ops_rule_selects", 1)]
    | ["kind", _] => pure ()
    | _ => div := div ++ [s!"unparsable:{l}"]
  return { diverge := div, violations := vio, nontrivial := nops ≥ 2, fingerprint := fpLines lines,
           stats := stats ++ [("hist_cases", 1)], samples := [String.intercalate ";" (lines.take 8)] }

structure PubObs where
  attempt : Nat
  ok : Bool
  delay : Option Nat
  early : Bool

structure EntryObs where
  idx : Nat
  script : List Bool
  pubs : List PubObs := []
  final : String := "?"
  attempts : Option Nat := none

open C22 in
def judgeDisp (lines : List String) : Verdict := Id.run do
  let mut div : List String := []
  let mut vio : List (String × String) := []
  let mut dc : DCfg := { maxAttempts := 0, minBackoff := 1, maxBackoff := 1 }
  let mut entries : List EntryObs := []
  for l in lines do
    match tokens l with
    | ["kind", _] => pure ()
    | ["dcfg", mx, mn, mb, _, _] => dc := { maxAttempts := mx.toNat!, minBackoff := mn.toNat!, maxBackoff := mb.toNat! }
    | ["entry", i, sc] =>
      entries := entries ++ [{ idx := i.toNat!, script := if sc == "~" then [] else sc.toList.map (· == '1') }]
    | ["pub", i, a, ok, d, early] =>
      let p : PubObs := { attempt := a.toNat!, ok := ok == "1", delay := if d == "~" then none else some d.toNat!, early := early == "1" }
      entries := entries.map fun e => if e.idx == i.toNat! then { e with pubs := e.pubs ++ [p] } else e
    | ["final", i, f, a] =>
      entries := entries.map fun e => if e.idx == i.toNat! then { e with final := f, attempts := a.toNat? } else e
    | ["panic", m] => vio := vio ++ [("C22.panic", s!"panic: {(unhexStr m).getD m}")]
    | _ => div := div ++ [s!"unparsable:{l}"]
  let mut npubs := 0
  let mut ndead := 0
  let mut ndelivered := 0
  let mut ndelays := 0
  for e in entries do
    npubs := npubs + e.pubs.length
    -- tie: the publisher double succeeds once its script is used up
    let (fin, pubs) := runScript dc 0 (e.script ++ [true])
    let finS := match fin with | .delivered => "delivered" | .dead => "dead" | .pending _ => "pending"
    if finS != e.final then div := div ++ [s!"entry {e.idx}: model final={finS}, impl {e.final}"]
    if pubs.map (fun p => (p.attempt, p.ok)) != e.pubs.map (fun p => (p.attempt, p.ok)) then
      div := div ++ [s!"entry {e.idx}: model publishes={pubs.map (fun p => (p.attempt, p.ok))}, impl {e.pubs.map (fun p => (p.attempt, p.ok))}"]
    else
      for (m, o) in pubs.zip e.pubs do
        match o.delay with
        | some d =>
          ndelays := ndelays + 1
          if d + delayTolMs < m.delay || m.delay + delayTolMs < d then
            div := div ++ [s!"entry {e.idx} attempt {o.attempt}: model backoff {m.delay} ms, observed {d} ms"]
        | none => pure ()
    -- judge: delivered at least once, or dead-lettered after exactly MaxAttempts failed attempts
    let fails := (e.pubs.filter (!·.ok)).length
    let oks := (e.pubs.filter (·.ok)).length
    if e.final == "delivered" then
      ndelivered := ndelivered + 1
      if oks == 0 then
        vio := vio ++ [("C22.entry-removed-without-delivery", s!"entry {e.idx}: row gone, no successful publish")]
      if (e.pubs.getLast?.map (·.ok)) != some true || oks > 1 then
        vio := vio ++ [("C22.published-after-settled", s!"entry {e.idx}: {oks} successful publishes / publish after success")]
      if dc.maxAttempts > 0 && fails ≥ dc.maxAttempts then
        vio := vio ++ [("C22.retried-beyond-max-attempts", s!"entry {e.idx}: {fails} failed attempts with MaxAttempts={dc.maxAttempts}")]
    else if e.final == "dead" then
      ndead := ndead + 1
      if dc.maxAttempts == 0 || fails != dc.maxAttempts || oks != 0 then
        vio := vio ++ [("C22.deadlettered-after-wrong-number-of-attempts", s!"entry {e.idx}: dead-lettered after {fails} failed / {oks} successful publishes, MaxAttempts={dc.maxAttempts}")]
    else
      vio := vio ++ [("C22.entry-neither-delivered-nor-deadlettered", s!"entry {e.idx}: final state {e.final} after its script and all backoffs elapsed")]
    -- judge: backoff bounded by the configured limits, never retried before it elapsed
    for o in e.pubs do
      if o.early then
        vio := vio ++ [("C22.retry-before-backoff-elapsed", s!"entry {e.idx}: the attempt after #{o.attempt} started before its scheduled instant")]
      match o.delay with
      | some d =>
        let lower := if dc.minBackoff * 2 ^ (o.attempt - 1) > dc.maxBackoff then dc.maxBackoff else dc.minBackoff * 2 ^ (o.attempt - 1)
        if d < lower || d > dc.maxBackoff + delayTolMs then
          vio := vio ++ [("C22.backoff-out-of-bounds", s!"entry {e.idx} after attempt {o.attempt}: delay {d} ms, expected min({dc.minBackoff}·2^{o.attempt - 1}, {dc.maxBackoff})")]
      | none => pure ()
  return { diverge := div, violations := vio, nontrivial := entries.length ≥ 2 && npubs > entries.length,
           fingerprint := fpLines (lines.map fun l => match tokens l with
             | ["pub", i, a, ok, _, e] => s!"pub {i} {a} {ok} {e}"       -- measured milliseconds are not part of the identity
             | _ => l),
           stats := [("disp_entries", entries.length), ("disp_publishes", npubs), ("disp_delivered", ndelivered),
                     ("disp_deadlettered", ndead), ("disp_delays_measured", ndelays), ("disp_cases", 1)] }

def judgeCase (_k : Nat) (lines : List String) : Verdict :=
  match lines.head?.map tokens with
  | some ["kind", "match"] => judgeMatch (lines.drop 1)
  | some ["kind", "hist"] => judgeHist lines
  | some ["kind", "disp"] => judgeDisp lines
  | _ => { diverge := ["unknown-case-kind"] }

def main : IO Unit := runDriver judgeCase
