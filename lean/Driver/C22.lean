/-
Driver for C22. Three kinds of case (first line `kind match|hist|disp`). Tokens are separated by
blanks; strings are hex ("-" = empty), "~" = absent / empty list.

match   m <dest> <events,…> <name=value,…> <eventname> <key> <0|1>        notification.RuleMatches
hist    shared <0|1>                         storage and middleware use one database handle
        cfg <i> <bucket> <eventbridge 0|1> <versioned 0|1>      two buckets (i = 0, 1) with DIFFERENT configurations
        rule <i> <dest> <events,…> <name=value,…>
        op <kind> <i> <key,…> <srcbucket:srckey|~> <fault> <mutation,…> <ok|err> <changed> <dest:event:bucket:key,…>
             i = the bucket that is mutated; src = the source of a copy / of an UploadPartCopy part (may be the
             other bucket); fault = none | mutation | insert:<n> | commit; changed = 0 | 1 | partial |
             source-changed: what a reader of the mutated key(s) sees differs from before; last token = the
             outbox rows that appeared, with the bucket and key their PAYLOAD names
        count <n>                            rows the repository counts beyond the reported ones (must be 0)
disp    stage <s> <maxAttempts> <minBackoff ms> <maxBackoff ms> <concurrency> <batch> <lease ms>   (1 or 2 stages: the
             dispatcher is restarted with another MaxAttempts)
        start <i> <attempts>                 the row already has this many attempts when the dispatcher starts (default 0)
        entry <i> <script per stage>         per Publish call: 1 ok · 0 failed, reported · K ok, delete lost · L failed,
             report lost (worker died between claim and report / ReleaseClaim or DeadLetter failed); then: succeed
        pub <i> <stage> <attempt> <outcome> <lo ms|~> <hi ms|~> <early 0|1>   the backoff after a reported, released failure lies
             in [lo, hi]: lo = nextAttemptAt − now as handed to ReleaseClaim (never more than the delay), hi = scheduled
             instant of the next Publish − return of this one (never less); early = the NEXT call started before its schedule
        final <i> delivered|dead|pending <attempts|~>
tie:   Pithos.Notify (ruleMatches / attempt / runScript) must reproduce result, state change, rows,
       publish sequence, final state, and the backoff must lie between the two measurements;
judge: rows ⇔ committed ∧ selected by the MUTATED bucket's rules and addressed to it (Pithos.NotifyS3), delivery /
       dead-letter accounting, bounded retries also with lost reports, backoff bounds.
-/
import Pithos.Util.Proto
import Pithos.Model.Notify
import Pithos.Spec.NotifyS3
open Pithos Pithos.Proto Pithos.Notify Pithos.NotifyS3

namespace C22

def strTok (s : String) : Str := ((unhexStr s).getD "").toList
def listTok (s : String) : List String := if s == "~" then [] else s.splitOn ","

def pairTok (sep : String) (s : String) : Str × Str :=
  match s.splitOn sep with
  | [a, b] => (strTok a, strTok b)
  | _ => ([], [])

def ruleTok (d e f : String) : Rule :=
  { dest := strTok d, events := (listTok e).map strTok,
    filters := (listTok f).map fun x => let p := pairTok "=" x; { name := p.1, value := p.2 } }

def showStr (s : Str) : String := String.ofList s

def mutationOf (s : String) : Option Mutation :=
  match s with
  | "put" => some .put | "copy" => some .copy | "completeMultipart" => some .completeMultipart
  | "append" => some .append | "delete" => some .delete | "deleteMarkerCreated" => some .deleteMarkerCreated
  | "taggingPut" => some .taggingPut | "taggingDelete" => some .taggingDelete
  | _ => none

/-- the call an `op` line stands for -/
def callOf (bucket : Str) (keys : List Str) (muts : List Mutation) (src : Target) (refused : List Str := []) : Option Call :=
  match muts, keys with
  | [.put], [k] => some (.put { bucket := bucket, key := k })
  | [.copy], [k] => some (.copy src { bucket := bucket, key := k })
  | [.completeMultipart], [k] => some (.complete { bucket := bucket, key := k })
  | [.delete], [k] => if refused.isEmpty then some (.delete { bucket := bucket, key := k } false) else some (.deleteObjects bucket [(k, false)] refused)
  | [.deleteMarkerCreated], [k] => if refused.isEmpty then some (.delete { bucket := bucket, key := k } true) else some (.deleteObjects bucket [(k, true)] refused)
  | [.taggingPut], [k] => some (.tagPut { bucket := bucket, key := k })
  | [.taggingDelete], [k] => some (.tagDel { bucket := bucket, key := k })
  | [.append], [k] => some (.append { bucket := bucket, key := k })
  | ms, ks =>
    if ms.length == ks.length && (ms.length ≥ 2 || !refused.isEmpty) && ms.all (fun m => m == .delete || m == .deleteMarkerCreated) then
      some (.deleteObjects bucket ((ks.zip ms).map fun (k, m) => (k, m == .deleteMarkerCreated)) refused)
    else none

def faultOf (s : String) : Option Fault :=
  if s == "none" then some .none
  else if s == "mutation" then some .mutationFails
  else if s == "commit" then some .commitFails
  else match s.splitOn ":" with
    | ["insert", i] => i.toNat?.map Fault.insertFails
    | _ => none

def rowKey (r : Row) : String := showStr r.dest ++ "|" ++ showStr r.event ++ "|" ++ showStr r.bucket ++ "|" ++ showStr r.key

def rowLt (a b : Row) : Bool := rowKey a < rowKey b

def insertRow (r : Row) : List Row → List Row
  | [] => [r]
  | x :: xs => if rowLt r x then r :: x :: xs else x :: insertRow r xs

def sortRows (rs : List Row) : List Row := rs.foldr insertRow []

def showRows (rs : List Row) : String := String.intercalate "," (rs.map rowKey)

/-- remove one occurrence -/
def removeOne (r : Row) : List Row → Option (List Row)
  | [] => none
  | x :: xs => if x == r then some xs else (removeOne r xs).map (x :: ·)

/-- multiset difference a − b -/
def minus (a b : List Row) : List Row :=
  b.foldl (fun acc r => match removeOne r acc with | some acc' => acc' | none => acc) a


end C22

open C22 in
def judgeMatch (lines : List String) : Verdict := Id.run do
  let mut div : List String := []
  let mut n := 0
  let mut pos := 0
  for l in lines do
    match tokens l with
    | ["m", d, e, f, name, key, res] =>
      n := n + 1
      let r := ruleTok d e f
      let ev : Event := { name := strTok name, bucket := [], key := strTok key }
      let m := ruleMatches r ev
      if m then pos := pos + 1
      if m != (res == "1") then
        div := div ++ [s!"RuleMatches events={e} filters={f} event={showStr ev.name} key={showStr ev.key}: model={m}, impl={res}"]
    | _ => div := div ++ [s!"unparsable:{l}"]
  return { diverge := div, nontrivial := n > 0, fingerprint := fpLines lines,
           stats := [("match_pairs", n), ("match_positive", pos)] }

open C22 in
def judgeHist (lines : List String) : Verdict := Id.run do
  let mut div : List String := []
  let mut vio : List (String × String) := []
  let mut stats : List (String × Nat) := []
  let mut cfgs : List (Nat × Str × Config) := []     -- bucket index, bucket name, configuration
  let mut shared := true
  let mut nops := 0
  for l in lines do
    match tokens l with
    | ["shared", sh] =>
      shared := sh == "1"
      if !shared then div := div ++ ["premise: storage and middleware do not share one database handle"]
    | ["cfg", i, b, eb, _] => cfgs := cfgs ++ [(i.toNat!, strTok b, { rules := [], eventBridge := eb == "1" })]
    | ["rule", i, d, e, f] =>
      cfgs := cfgs.map fun (j, b, c) => if j == i.toNat! then (j, b, { c with rules := c.rules ++ [ruleTok d e f] }) else (j, b, c)
    | ["count", n] => if n != "0" then div := div ++ [s!"repository count differs from the table by {n}"]
    | ["panic", m] => vio := vio ++ [("C22.panic", s!"panic: {(unhexStr m).getD m}")]
    | ["op", kind, bidx, keys, src, fault, muts, res, changed, rows] =>
      nops := nops + 1
      let cfgOf : Str → Config := fun b => ((cfgs.find? fun (_, n, _) => n == b).map (·.2.2)).getD { rules := [], eventBridge := false }
      let bucket := ((cfgs.find? fun (j, _, _) => j == bidx.toNat!).map (·.2.1)).getD []
      -- entries of a bulk delete that the storage must refuse carry the mutation token `refused`
      let pairs := (listTok muts).zip ((listTok keys).map strTok)
      let refusedKeys := (pairs.filter fun p => p.1 == "refused").map (·.2)
      let ks := (pairs.filter fun p => p.1 != "refused").map (·.2)
      let ms := (pairs.filter fun p => p.1 != "refused").filterMap fun p => mutationOf p.1
      let srcT : Target := if src == "~" then { bucket := [], key := [] } else let p := pairTok ":" src; { bucket := p.1, key := p.2 }
      let obsRows := sortRows ((listTok rows).filterMap fun x =>
        match x.splitOn ":" with
        | [d, e, b, k] => some { dest := strTok d, event := strTok e, bucket := strTok b, key := strTok k }
        | _ => none)
      match faultOf fault, callOf bucket ks ms srcT refusedKeys with
      | some flt, some call =>
        -- tie: the middleware's events for this call, evaluated against the configuration of the event's bucket
        let out := attempt shared (entriesForAll cfgOf (codeEvents call)) flt
        if out.ok != (res == "ok") then
          div := div ++ [s!"op {kind} fault={fault}: model ok={out.ok}, impl {res}"]
        if (if out.committed then "1" else "0") != changed then
          div := div ++ [s!"op {kind} fault={fault}: model committed={out.committed}, impl changed={changed}"]
        if sortRows out.rows != obsRows then
          div := div ++ [s!"op {kind} fault={fault}: model rows=[{showRows (sortRows out.rows)}], impl rows=[{showRows obsRows}]"]
        -- judge: rows ⇔ committed ∧ selected by the configuration of the bucket that was MUTATED, and addressed to it
        let committed := changed == "1"
        let want := sortRows ((specEvents call).flatMap (demanded cfgOf committed))
        if changed == "partial" then
          vio := vio ++ [("C22.partial-commit", s!"{kind}: some but not all targeted keys changed")]
        else if changed == "source-changed" then
          vio := vio ++ [("C22.copy-source-changed", s!"{kind}: the source object of the copy changed")]
        else
          if !committed && !obsRows.isEmpty then
            vio := vio ++ [("C22.row-without-committed-mutation", s!"{kind} fault={fault}: rows [{showRows obsRows}] exist although the mutation left no trace")]
          else
            let extra := minus obsRows want
            let missing := minus want obsRows
            let mk := (listTok muts).headD "?"
            -- a row for an object the call did not mutate (another bucket / key) gets its own signature
            let foreign := extra.filter fun r => !(mutated call).any fun mt => mt.2.bucket == r.bucket && mt.2.key == r.key
            -- … and a row for a bulk-delete entry that the storage refused
            let forRefused := foreign.filter fun r => r.bucket == bucket && refusedKeys.contains r.key
            let foreign := minus foreign forRefused
            if !forRefused.isEmpty then
              vio := vio ++ [("C22.row-for-refused-batch-delete-entry", s!"{kind} on bucket {showStr bucket}: rows [{showRows forRefused}] for entries the storage refused (the objects are still there)")]
            let extra := minus extra forRefused
            if !foreign.isEmpty then
              vio := vio ++ [(s!"C22.row-addressed-to-unmutated-object.{mk}", s!"{kind} on bucket {showStr bucket}: rows [{showRows foreign}] name a bucket/key this call did not mutate")]
            if !(minus extra foreign).isEmpty then
              vio := vio ++ [("C22.row-without-selecting-rule", s!"{kind}: rows [{showRows (minus extra foreign)}] are not demanded by any rule of the mutated bucket")]
            if !missing.isEmpty then
              vio := vio ++ [(s!"C22.committed-mutation-without-row.{mk}", s!"{kind} on bucket {showStr bucket} committed, its rules demand [{showRows missing}], no such outbox row")]
          if (res == "ok") != committed then
            vio := vio ++ [("C22.result-disagrees-with-state", s!"{kind} fault={fault}: answered {res} but changed={changed}")]
        stats := addStats stats [("op_" ++ kind, 1), ("fault_" ++ (fault.splitOn ":").headD fault, 1),
          (if committed then "ops_committed" else "ops_rolled_back", 1), ("rows_observed", obsRows.length),
          (if want.isEmpty then "ops_no_rule_selects" else "ops_rule_selects", 1),
          (if src != "~" && srcT.bucket != bucket then "ops_cross_bucket" else "ops_same_bucket", 1)]
      | _, _ => div := div ++ [s!"unparsable op {l}"]
    | ["kind", _] => pure ()
    | _ => div := div ++ [s!"unparsable:{l}"]
  return { diverge := div, violations := vio, nontrivial := nops ≥ 2, fingerprint := fpLines lines,
           stats := stats ++ [("hist_cases", 1)], samples := [String.intercalate ";" (lines.take 8)] }

structure PubObs where
  stage : Nat
  attempt : Nat
  outcome : Char
  lo : Option Int
  hi : Option Int
  early : Bool

structure EntryObs where
  idx : Nat
  scripts : List (List PubOutcome)
  start : Nat := 0
  pubs : List PubObs := []
  final : String := "?"
  attempts : Option Nat := none

def outcomeOf (c : Char) : PubOutcome :=
  if c == '1' then .ok else if c == 'K' then .okLost else if c == 'L' then .failLost else .fail

def outcomeChar : PubOutcome → Char
  | .ok => '1' | .fail => '0' | .okLost => 'K' | .failLost => 'L'

/-- the model over the stages: each stage continues with the attempt count the previous one left;
the publisher double succeeds once the last script is used up -/
def runStages (cfgs : List DCfg) (scripts : List (List PubOutcome)) (start : Nat := 0) : Final × List (Nat × Pub) := Id.run do
  let mut a := start
  let mut fin : Final := .pending 0
  let mut pubs : List (Nat × Pub) := []
  let n := scripts.length
  let mut i := 0
  for (c, sc) in cfgs.zip scripts do
    let sc' := if i + 1 == n then sc ++ [.ok] else sc
    let (f, ps) := runOutcomes c a sc'
    pubs := pubs ++ ps.map fun p => (i, p)
    fin := f
    i := i + 1
    match f with
    | .pending k => a := k
    | _ => break
  return (fin, pubs)

open C22 in
def judgeDisp (lines : List String) : Verdict := Id.run do
  let mut div : List String := []
  let mut vio : List (String × String) := []
  let mut dcs : List DCfg := []
  let mut entries : List EntryObs := []
  for l in lines do
    match tokens l with
    | ["kind", _] => pure ()
    | ["stage", _, mx, mn, mb, _, _, _] => dcs := dcs ++ [{ maxAttempts := mx.toNat!, minBackoff := mn.toNat!, maxBackoff := mb.toNat! }]
    | "entry" :: i :: scs =>
      entries := entries ++ [{ idx := i.toNat!, scripts := scs.map fun sc => if sc == "~" then [] else sc.toList.map outcomeOf }]
    | ["pub", i, st, a, o, lo, hi, early] =>
      let p : PubObs := { stage := st.toNat!, attempt := a.toNat!, outcome := (o.toList.headD '?'), lo := lo.toInt?, hi := hi.toInt?, early := early == "1" }
      entries := entries.map fun e => if e.idx == i.toNat! then { e with pubs := e.pubs ++ [p] } else e
    | ["start", i, a] =>
      entries := entries.map fun e => if e.idx == i.toNat! then { e with start := a.toNat! } else e
    | ["final", i, f, a] =>
      entries := entries.map fun e => if e.idx == i.toNat! then { e with final := f, attempts := a.toNat? } else e
    | ["panic", m] => vio := vio ++ [("C22.panic", s!"panic: {(unhexStr m).getD m}")]
    | _ => div := div ++ [s!"unparsable:{l}"]
  let mut npubs := 0
  let mut ndead := 0
  let mut ndelivered := 0
  let mut ndelays := 0
  let mut nlost := 0
  let mut delayMiss : List String := []
  let mut boundMiss : List String := []
  for e in entries do
    npubs := npubs + e.pubs.length
    -- tie
    let (fin, pubs) := runStages dcs e.scripts e.start
    let finS := match fin with | .delivered => "delivered" | .dead => "dead" | .pending _ => "pending"
    if finS != e.final then div := div ++ [s!"entry {e.idx}: model final={finS}, impl {e.final}"]
    let mseq := pubs.map fun (st, p) => (st, p.attempt, p.ok)
    let oseq := e.pubs.map fun p => (p.stage, p.attempt, p.outcome == '1' || p.outcome == 'K')
    if mseq != oseq then
      div := div ++ [s!"entry {e.idx}: model publishes (stage, attempt, ok)={mseq}, impl {oseq}"]
    else
      for ((_, m), o) in pubs.zip e.pubs do
        match o.lo with
        | some lo =>
          ndelays := ndelays + 1
          -- the computed delay lies between the two measurements — no tolerance involved
          if (m.delay : Int) < lo || (match o.hi with | some hi => hi < (m.delay : Int) | none => false) then
            delayMiss := delayMiss ++ [s!"entry {e.idx} attempt {o.attempt}: model backoff {m.delay} ms, observed between {lo} and {o.hi} ms"]
        | none => pure ()
    -- judge
    let lost := (e.pubs.filter fun p => p.outcome == 'L' || p.outcome == 'K').length
    nlost := nlost + lost
    let oks := (e.pubs.filter fun p => p.outcome == '1' || p.outcome == 'K').length
    let lostOks := (e.pubs.filter fun p => p.outcome == 'K').length
    let stageMax := fun (st : Nat) => (dcs.getD st { maxAttempts := 0, minBackoff := 1, maxBackoff := 1 }).maxAttempts
    -- delivered at least once, or dead-lettered
    if e.final == "delivered" then
      ndelivered := ndelivered + 1
      if oks == 0 then
        vio := vio ++ [("C22.entry-removed-without-delivery", s!"entry {e.idx}: row gone, no successful publish")]
      if oks > 1 + lostOks || (e.pubs.getLast?.map (·.outcome)) != some '1' then
        vio := vio ++ [("C22.published-after-settled", s!"entry {e.idx}: {oks} successful publishes with {lostOks} lost deletes / publish after the recorded success")]
    else if e.final == "dead" then
      ndead := ndead + 1
      match e.pubs.getLast? with
      | some p =>
        if stageMax p.stage == 0 || p.outcome != '0' || p.attempt < stageMax p.stage then
          vio := vio ++ [("C22.deadlettered-after-wrong-number-of-attempts", s!"entry {e.idx}: dead-lettered after attempt {p.attempt} (outcome {p.outcome}), MaxAttempts={stageMax p.stage}")]
      | none => vio := vio ++ [("C22.deadlettered-after-wrong-number-of-attempts", s!"entry {e.idx}: dead-lettered without any publish")]
      if lost == 0 && e.start == 0 && e.scripts.length == 1 && (e.pubs.filter (·.outcome == '0')).length != stageMax 0 then
        vio := vio ++ [("C22.deadlettered-after-wrong-number-of-attempts", s!"entry {e.idx}: dead-lettered after {(e.pubs.filter (·.outcome == '0')).length} failed publishes, MaxAttempts={stageMax 0}")]
    else
      vio := vio ++ [("C22.entry-neither-delivered-nor-deadlettered", s!"entry {e.idx}: final state {e.final} (attempts {e.attempts}) after its script, all backoffs and leases elapsed")]
    -- bounded retries: a REPORTED failure of an attempt numbered ≥ MaxAttempts is the entry's last publish
    let n := e.pubs.length
    let mut j := 0
    for p in e.pubs do
      j := j + 1
      if p.outcome == '0' && stageMax p.stage > 0 && p.attempt ≥ stageMax p.stage && j < n then
        vio := vio ++ [("C22.retried-after-exhausting-max-attempts", s!"entry {e.idx}: publish #{j} (attempt {p.attempt}, MaxAttempts={stageMax p.stage}) failed and was reported, yet {n - j} more publish(es) followed")]
        break
    -- … and with one stage the number of publishes is at most MaxAttempts + lost reports
    if e.scripts.length == 1 && e.start == 0 && stageMax 0 > 0 && n > stageMax 0 + lost then
      vio := vio ++ [("C22.attempts-exceed-bound", s!"entry {e.idx}: {n} publishes, MaxAttempts={stageMax 0}, {lost} lost reports")]
    -- backoff bounded by the configured limits, never retried before it elapsed
    for o in e.pubs do
      if o.early then
        vio := vio ++ [("C22.retry-before-backoff-elapsed", s!"entry {e.idx}: the attempt after #{o.attempt} started before its scheduled instant")]
      let dc := dcs.getD o.stage { maxAttempts := 0, minBackoff := 1, maxBackoff := 1 }
      let lower := if dc.minBackoff * 2 ^ (o.attempt - 1) > dc.maxBackoff then dc.maxBackoff else dc.minBackoff * 2 ^ (o.attempt - 1)
      match o.lo with
      | some lo =>
        if lo > (dc.maxBackoff : Int) then
          vio := vio ++ [("C22.backoff-out-of-bounds", s!"entry {e.idx} after attempt {o.attempt}: delay ≥ {lo} ms exceeds MaxBackoff {dc.maxBackoff}")]
      | none => pure ()
      match o.hi with
      | some hi =>
        if hi < (lower : Int) then
          boundMiss := boundMiss ++ [s!"entry {e.idx} after attempt {o.attempt}: delay ≤ {hi} ms, expected min({dc.minBackoff}·2^{o.attempt - 1}, {dc.maxBackoff})"]
      | none => pure ()
  div := div ++ delayMiss.take 3
  vio := vio ++ (boundMiss.take 3).map fun m => ("C22.backoff-out-of-bounds", m)
  return { diverge := div, violations := vio, nontrivial := entries.length ≥ 2 && npubs > entries.length,
           fingerprint := fpLines (lines.map fun l => match tokens l with
             | ["pub", i, st, a, o, _, _, e] => s!"pub {i} {st} {a} {o} {e}"       -- measured milliseconds are not part of the identity
             | _ => l),
           stats := [("disp_entries", entries.length), ("disp_publishes", npubs), ("disp_delivered", ndelivered),
                     ("disp_deadlettered", ndead), ("disp_delays_measured", ndelays), ("disp_lost_reports", nlost), ("disp_cases", 1)] }

def judgeCase (_k : Nat) (lines : List String) : Verdict :=
  match lines.head?.map tokens with
  | some ["kind", "match"] => judgeMatch (lines.drop 1)
  | some ["kind", "hist"] => judgeHist lines
  | some ["kind", "disp"] => judgeDisp lines
  | _ => { diverge := ["unknown-case-kind"] }

def main : IO Unit := runDriver judgeCase
