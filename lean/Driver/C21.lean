/-
Driver for C21. One case = one history through the real outbox storage
(harness/cmd/verifharness/c21.go). Trace lines:

  op …                                    operation issued through the outbox storage (s3hist format)
  queued <n> <Operation> <bucket> <key>   it stored outbox entry n
  wait <scope> <bucket> <key> last=<n|none> <before|after|->   it called a wait function
  flush <n> <Method> <bucket> <key> ok|err  the worker replayed entry n on the inner storage
  thru <Method>                           the caller's own call reached the inner storage
  res …                                   the operation's result (`res err BadDigest|ReadError` for a rejected put)
  rolledback <n>                          the transaction that stored entry n was rolled back (follows the res line)
  (`op put … cs=bad:<kind>` / `cs=ioerr`: the supplied checksum does not match the body / the body breaks
   off — the outbox layer must reject the call; `cs=ok:<kind>`: a matching checksum)
  jam                                     a replay failed; the case is abandoned
  dump                                    table drained; the following op/res pairs read the inner storage directly
  unexpected <text>

TIE: the events are replayed on `Pithos.OutboxStorage` over the S3 model with the policy read off
the regenerated T1 table (`policyCode`): queue-or-write-through decision, the wait scopes the caller
used, that nothing in scope was left in the table when the caller reached the inner storage, every
replay and every result, and the drained inner storage are compared → `diverge`.
JUDGE: the property itself — the sequential S3 model (`S3.step Quirks.code`, the inner storage's own
semantics) runs the accepted operations in acceptance order; every read issued through the outbox
must answer what the sequential run answers at that point (`C21.read-your-writes`), and after the
drain every read of the inner storage must answer what the sequential run answers at its end
(`C21.drained-state-differs`). Accepted = answered without error: an operation on the queue path
that is answered with an error must have left no outbox entry (`C21.rejected-op-left-outbox-entry`)
and is not part of the sequential run.
-/
import Pithos.Util.Proto
import Pithos.Util.S3Driver
import Pithos.Model.OutboxStorageS3
import Pithos.Model.Outbox
open Pithos Pithos.Proto Pithos.S3 Pithos.S3Driver Pithos.OutboxStorage

namespace C21Driver

def I := innerS3 Quirks.code
def P := policyCode

def isRead : S3.Op → Bool
  | .get .. | .head .. | .getTags .. | .list _ | .listVersions _ | .listBuckets => true
  | _ => false

def scopeTok : Scope → String
  | .keyAndGlobal b k => s!"keyAndGlobal {b} {if k == "" then "~" else k}"
  | .bucket b => s!"bucket {b} ~"
  | .bucketGlobal b => s!"bucketGlobal {b} ~"
  | .global => "global ~ ~"

def isErr : S3.Out → Bool
  | .err _ => true
  | _ => false

structure Cur where
  op : S3.Op
  bad : Bool := false          -- the outbox layer must reject it (mismatching checksum, broken body)
  line : String
  queued : Nat := 0
  waits : List String := []
  thru : Option S3.Out := none   -- model result computed when the caller reached the inner storage


/- Lease mode (`cfg mode=lease lease=<L>`): two outbox storage instances on one table, slow replays,
heartbeats, a clock (harness/cmd/verifharness/c21_lease.go). Lines besides op/queued/res/dump:
  claim <w> none|busy|ok <n> <version> | replay <w> <n> <Method> <bucket> <key> ok|err
  fin <w> deleted|skipped | rel <w> released|noop | ext <w> ok|lost | tick <d>
TIE: the lease protocol is `Pithos.Outbox.step false` (the model of C18: claim / extend / finalize /
release / tick over a table of entries); every step result is compared, each replay applies the
entry's operation to the S3 model of the inner storage, the dump is compared with that state.
JUDGE: the sequential S3 run of the accepted operations; as long as every lease was renewed in time
by its holder (checked on the trace: `claim ok` / `ext ok` at time t keep the lease until t + L) the
inner storage read at the end must answer like the sequential run (`C21.drained-state-differs`). -/
def judgeLease (lines : List String) : Verdict := Id.run do
  let lease := match lines.head?.map tokens with
    | some ("cfg" :: rest) => (kvOf rest "lease").toNat!
    | _ => 10
  let mut ls : Pithos.Outbox.St := Pithos.Outbox.init lease
  let mut entryOps : List COp := []
  let mut inner : S3.State := {}
  let mut ctx : Ctx := {}
  let mut seq : S3.State := {}
  let mut jctx : Ctx := {}
  let mut cur : Option Cur := none
  let mut div : List String := []
  let mut vio : List (String × String) := []
  let mut idx := 0
  let mut dumping := false
  -- judge's own bookkeeping of leases: worker ↦ time of its last acknowledged claim / heartbeat
  let mut now := 0
  let mut renewed : List (Nat × Nat) := []
  let mut lapsed := false
  let mut nSteps := 0
  let mut nExt := 0
  let mut nBusy := 0
  let mut nTakeover := 0
  let mut nReplay := 0
  let mut nQueued := 0
  let mut nDump := 0
  let mut elapsed := 0
  for l in lines do
    let t := tokens l
    let stepCmp (st : Pithos.Outbox.Step) (expect : Pithos.Outbox.Out → Bool) (ls : Pithos.Outbox.St) :
        Pithos.Outbox.St × Option String :=
      let (ls', o) := Pithos.Outbox.step false ls st
      (ls', if expect o then none else some s!"line{idx}:impl=[{l}],model={reprStr o}")
    match t with
    | "cfg" :: _ => pure ()
    | "op" :: _ =>
      match parseOp ctx l with
      | none => div := div ++ [s!"line{idx}:unparsable:{l}"]; cur := none
      | some op => cur := some { op := op, line := l }
    | "queued" :: _ =>
      if let some c := cur then cur := some { c with queued := c.queued + 1 }
      nQueued := nQueued + 1
    | "res" :: _ =>
      match cur with
      | none => div := div ++ [s!"line{idx}:res-without-op"]
      | some c =>
        if dumping then
          nDump := nDump + 1
          let r := S3.step Quirks.code inner c.op
          inner := r.1
          let (ctx', ms) := compareOut ctx r.2 l
          ctx := ctx'
          if !ms.isEmpty && div.length < 6 then div := div ++ [s!"line{idx}:dump[{(tokens c.line).getD 1 "?"}]:" ++ String.intercalate ";" ms]
          let jr := S3.step Quirks.code seq c.op
          seq := jr.1
          let (jctx', jms) := compareOut jctx jr.2 l
          jctx := jctx'
          if !jms.isEmpty && !lapsed then
            vio := vio ++ [("C21.drained-state-differs",
              s!"line{idx}:two-workers-heartbeats-on-time:{String.intercalate " " ((tokens c.line).take 4)}:" ++ String.intercalate ";" (jms.take 3))]
        else if c.queued > 0 && l.startsWith "res ok" then
          -- accepted and queued: one table row, in acceptance order
          ls := (Pithos.Outbox.step false ls (.commit [.del entryOps.length])).1
          entryOps := entryOps ++ [ok c.op]
          seq := (S3.step Quirks.code seq c.op).1
          match c.op with
          | .put _ _ body .. =>
            let (c1, _) := bindEtag ctx (singleETag body) (kvOf t "etag")
            ctx := c1
            let (j1, _) := bindEtag jctx (singleETag body) (kvOf t "etag")
            jctx := j1
          | _ => pure ()
        else
          div := div ++ [s!"line{idx}:lease-mode-operation-not-queued:{c.line}:{l}"]
        cur := none
    | "claim" :: w :: rest =>
      let w := w.toNat!
      let (ls', d) := stepCmp (.claim w) (fun o => match rest, o with
        | ["none"], .claimNone => true
        | ["busy"], .claimBusy => true
        | ["ok", e, v], .claimed e' v' => e.toNat! == e' && v.toNat! == v'
        | _, _ => false) ls
      ls := ls'
      if let some m := d then div := div ++ [m]
      match rest with
      | "ok" :: _ =>
        if renewed.any (fun (w', tm) => w' != w && now < tm + lease) then nTakeover := nTakeover + 1
        renewed := (w, now) :: renewed.filter (·.1 != w)
      | ["busy"] => nBusy := nBusy + 1
      | _ => pure ()
      nSteps := nSteps + 1
    | ["ext", w, res] =>
      let w := w.toNat!
      let (ls', d) := stepCmp (.extend w) (fun o => o == .extended (res == "ok")) ls
      ls := ls'
      if let some m := d then div := div ++ [m]
      if res == "ok" then renewed := (w, now) :: renewed.filter (·.1 != w)
      nExt := nExt + 1
      nSteps := nSteps + 1
    | ["tick", d] =>
      ls := (Pithos.Outbox.step false ls (.tick d.toNat!)).1
      now := now + d.toNat!
      elapsed := elapsed + d.toNat!
      -- did the schedule itself let a held lease run out?
      if renewed.any (fun (_, tm) => now ≥ tm + lease) then lapsed := true
    | ["replay", w, n, method, b, k, res] =>
      let w := w.toNat!
      let n := n.toNat!
      let (ls', d) := if res == "err" then stepCmp (.innerFail w) (fun o => o == .unit) ls
        else stepCmp (.innerWrite w) (fun o => o == .wrote) ls
      ls := ls'
      if let some m := d then div := div ++ [m]
      match entryOps[n]? with
      | none => div := div ++ [s!"line{idx}:replay-of-unknown-entry-{n}"]
      | some e =>
        let a := I.addr e
        if methodOf e.op != method || a.1 != b || (if a.2 == "" then "~" else a.2) != k then
          div := div ++ [s!"line{idx}:impl-replayed={method}/{b}/{k},entry-{n}-is={methodOf e.op}/{a.1}/{a.2}"]
        let r := I.step inner e
        if isErr r.2 != (res == "err") then div := div ++ [s!"line{idx}:replay-result:impl={res},model-err={isErr r.2}"]
        inner := r.1
      nReplay := nReplay + 1
      nSteps := nSteps + 1
    | ["fin", w, res] =>
      let w := w.toNat!
      let (ls', d) := stepCmp (.finalize w) (fun o => o == .finalized (res == "deleted")) ls
      ls := ls'
      if let some m := d then div := div ++ [m]
      renewed := renewed.filter (·.1 != w)
      nSteps := nSteps + 1
    | ["rel", w, res] =>
      let w := w.toNat!
      let (ls', d) := stepCmp (.release w) (fun o => o == .released (res == "released")) ls
      ls := ls'
      if let some m := d then div := div ++ [m]
      renewed := renewed.filter (·.1 != w)
      nSteps := nSteps + 1
    | ["dump"] =>
      if !ls.queue.isEmpty then div := div ++ [s!"line{idx}:impl-drained,model-table-has-{ls.queue.length}-entries"]
      dumping := true
    | "unexpected" :: rest => div := div ++ [s!"line{idx}:harness-protocol:{String.intercalate " " rest}"]
    | _ => div := div ++ [s!"line{idx}:unparsable:{l}"]
    idx := idx + 1
  return {
    diverge := div.take 6, violations := vio.take 6,
    nontrivial := nQueued ≥ 2 && nExt ≥ 2 && nReplay ≥ 2,
    fingerprint := fpLines (lines.filter fun l => !(l.startsWith "res ")),
    stats := [("lease_cases", 1), ("lease_steps", nSteps), ("lease_heartbeats", nExt), ("lease_claims_refused", nBusy),
              ("lease_live_takeovers", nTakeover), ("lease_replays", nReplay), ("lease_clock_elapsed", elapsed),
              ("lease_cases_with_lapsed_lease", if lapsed then 1 else 0), ("lease_dump_reads", nDump)],
    samples := []
  }

def judgeCase (_k : Nat) (lines : List String) : Verdict := Id.run do
  if (lines.head?.getD "").startsWith "cfg mode=lease" then return judgeLease lines
  let mut s : St S3.State COp := { inner := {}, queue := [] }
  let mut ctx : Ctx := {}
  let mut seq : S3.State := {}
  let mut jctx : Ctx := {}
  let mut cur : Option Cur := none
  let mut div : List String := []
  let mut vio : List (String × String) := []
  let mut idx := 0
  let mut dumping := false
  let mut jammed := false
  let mut nOps := 0
  let mut nQueued := 0
  let mut nThru := 0
  let mut nReads := 0
  let mut nWaitHit := 0
  let mut nAfter := 0
  let mut nFlush := 0
  let mut nDump := 0
  let mut nSeqErrAck := 0
  let mut nChecked := 0
  let mut nRejected := 0
  let mut opNames : List String := []
  for l in lines do
    if jammed then
      idx := idx + 1
      continue
    let t := tokens l
    match t with
    | "op" :: _ =>
      match parseOp ctx l with
      | none => div := div ++ [s!"line{idx}:unparsable:{l}"]; cur := none
      | some op =>
        let csTok := kvOf t "cs"
        cur := some { op := op, bad := csTok.startsWith "bad" || csTok == "ioerr", line := l }
        if csTok != "~" then nChecked := nChecked + 1
      nOps := nOps + 1
      opNames := opNames ++ [t.getD 1 "?"]
    | "queued" :: _ =>
      if let some c := cur then cur := some { c with queued := c.queued + 1 }
      nQueued := nQueued + 1
    | "wait" :: sc :: b :: k :: last :: mode :: _ =>
      if let some c := cur then cur := some { c with waits := c.waits ++ [s!"{sc} {b} {k}"] }
      if last != "last=none" then nWaitHit := nWaitHit + 1
      if mode == "after" then nAfter := nAfter + 1
    | ["flush", _, method, b, k, res] =>
      nFlush := nFlush + 1
      match s.queue with
      | [] => div := div ++ [s!"line{idx}:impl-replayed-an-entry,model-table-empty"]
      | e :: _ =>
        let a := I.addr e
        if methodOf e.op != method || a.1 != b || (if a.2 == "" then "~" else a.2) != k then
          div := div ++ [s!"line{idx}:impl-replayed={method}/{b}/{k},model-head={methodOf e.op}/{a.1}/{a.2}"]
        let mErr := isErr (I.step s.inner e).2
        if mErr != (res == "err") then
          div := div ++ [s!"line{idx}:replay-result:impl={res},model-err={mErr}"]
        s := flushN I 1 s
    | ["thru", _] =>
      if dumping then pure () else
      match cur with
      | none => div := div ++ [s!"line{idx}:thru-without-op"]
      | some c =>
        if c.thru.isNone then
          let cop : COp := { op := c.op, bad := c.bad }
          if P.queues s.inner cop then
            div := div ++ [s!"line{idx}:impl-wrote-through,model-queues:{c.line}"]
          let want := (P.scopes cop).map scopeTok
          if want != c.waits then
            div := div ++ [s!"line{idx}:wait-scopes:impl={c.waits},model={want}"]
          if (P.scopes cop).any (fun sc => needFor I sc s.queue > 0) then
            div := div ++ [s!"line{idx}:impl-reached-the-inner-storage-with-entries-of-its-scope-still-queued"]
          -- a `bad` operation is rejected by the inner storage without a trace (I.step leaves the state)
          let r := I.step s.inner cop
          s := { s with inner := r.1 }
          cur := some { c with thru := some r.2 }
          nThru := nThru + 1
    | "res" :: _ =>
      match cur with
      | none => div := div ++ [s!"line{idx}:res-without-op"]
      | some c =>
        if dumping then
          -- a direct read of the drained inner storage
          nDump := nDump + 1
          let r := I.step s.inner (ok c.op)
          s := { s with inner := r.1 }
          let (ctx', ms) := compareOut ctx r.2 l
          ctx := ctx'
          if !ms.isEmpty && div.length < 6 then div := div ++ [s!"line{idx}:dump[{(tokens c.line).getD 1 "?"}]:" ++ String.intercalate ";" ms]
          let jr := S3.step Quirks.code seq c.op
          seq := jr.1
          let (jctx', jms) := compareOut jctx jr.2 l
          jctx := jctx'
          if !jms.isEmpty then
            vio := vio ++ [("C21.drained-state-differs",
              s!"line{idx}:{String.intercalate " " ((tokens c.line).take 4)}:" ++ String.intercalate ";" (jms.take 3))]
        else
          let isErrRes := l.startsWith "res err"
          let rolledBack := (lines.getD (idx + 1) "").startsWith "rolledback"
          if c.bad then
            -- the outbox layer (queue path) or the inner storage (write-through path) must reject it
            nRejected := nRejected + 1
            if !isErrRes then
              div := div ++ [s!"line{idx}:impl-accepted-a-put-the-model-rejects:{l}"]
              -- the implementation accepted it: it is part of the accepted history
              let jr := S3.step Quirks.code seq c.op
              seq := jr.1
              if c.queued > 0 && c.thru.isNone then s := { s with queue := s.queue ++ [ok c.op] }
              else if c.thru.isSome then s := { s with inner := (I.step s.inner (ok c.op)).1 }
            else if c.queued > 0 && !rolledBack then
              -- JUDGE: answered with an error, yet its outbox entry stayed: it will be replayed
              vio := vio ++ [("C21.rejected-op-left-outbox-entry",
                s!"line{idx}:{String.intercalate " " ((tokens c.line).take 4)}:answered-{(tokens l).getD 2 "err"}-but-{c.queued}-outbox-entry-stays-queued")]
              s := { s with queue := s.queue ++ [ok c.op] }   -- follow what happened, so that its replay ties
          else
          -- sequential reference first (acceptance order): accepted = not answered by a rejection
          let jr := S3.step Quirks.code seq c.op
          if !(c.queued > 0 && c.thru.isNone && isErrRes) then seq := jr.1
          match c.thru with
          | some mout =>
            let (ctx', ms) := compareOut ctx mout l
            ctx := ctx'
            if !ms.isEmpty && div.length < 6 then div := div ++ [s!"line{idx}:[{(tokens c.line).getD 1 "?"}]:" ++ String.intercalate ";" ms]
            let (jctx', jms) := compareOut jctx jr.2 l
            jctx := jctx'
            if isRead c.op then
              nReads := nReads + 1
              if !jms.isEmpty then
                vio := vio ++ [("C21.read-your-writes",
                  s!"line{idx}:{String.intercalate " " ((tokens c.line).take 4)}:" ++ String.intercalate ";" (jms.take 3))]
            if c.queued > 0 then div := div ++ [s!"line{idx}:operation-both-queued-and-written-through"]
          | none =>
            if c.queued > 0 then
              if isErrRes then
                -- the model accepts this operation, the implementation answered with an error
                div := div ++ [s!"line{idx}:queued-operation-not-acknowledged:{l}"]
                if !rolledBack then
                  vio := vio ++ [("C21.rejected-op-left-outbox-entry",
                    s!"line{idx}:{String.intercalate " " ((tokens c.line).take 4)}:answered-{(tokens l).getD 2 "err"}-but-{c.queued}-outbox-entry-stays-queued")]
                  s := { s with queue := s.queue ++ [ok c.op] }
              else
              -- acknowledged at once
              if !P.queues s.inner (ok c.op) then
                div := div ++ [s!"line{idx}:impl-queued,model-writes-through:{c.line}"]
              if !c.waits.isEmpty then div := div ++ [s!"line{idx}:queued-operation-waited:{c.waits}"]
              s := { s with queue := s.queue ++ [ok c.op] }
              -- bind the acknowledged ETag on both sides
              match c.op with
              | .put _ _ body .. =>
                let (c1, e1) := bindEtag ctx (singleETag body) (kvOf t "etag")
                ctx := c1
                if let some m := e1 then div := div ++ [s!"line{idx}:ack-{m}"]
                let (j1, _) := bindEtag jctx (singleETag body) (kvOf t "etag")
                jctx := j1
              | _ => pure ()
              if isErr jr.2 then nSeqErrAck := nSeqErrAck + 1
            else
              -- neither queued nor through: the outbox itself failed the call
              div := div ++ [s!"line{idx}:operation-neither-queued-nor-written-through:{l}"]
        cur := none
    | ["dump"] =>
      if !s.queue.isEmpty then div := div ++ [s!"line{idx}:impl-drained,model-table-has-{s.queue.length}-entries"]
      s := { inner := drain I s, queue := [] }
      dumping := true
    | ["rolledback", _] => pure ()
    | ["jam"] => jammed := true
    | "unexpected" :: rest => div := div ++ [s!"line{idx}:harness-protocol:{String.intercalate " " rest}"]
    | _ => div := div ++ [s!"line{idx}:unparsable:{l}"]
    idx := idx + 1
  let stats := opNames.foldl (fun acc n => addStats acc [("op_" ++ n, 1)]) []
  return {
    diverge := div.take 6, violations := vio.take 6,
    nontrivial := !jammed && nQueued ≥ 1 && nReads ≥ 1 && nOps ≥ 5,
    fingerprint := fpLines (lines.filter fun l => l.startsWith "op " || l.startsWith "flush "),
    stats := stats ++ [("ops", nOps), ("queued_entries", nQueued), ("written_through", nThru), ("reads_judged", nReads),
              ("waits_that_found_entries", nWaitHit), ("waits_polling", nAfter), ("replays", nFlush),
              ("drained_state_reads", nDump), ("jammed_cases", if jammed then 1 else 0),
              ("acks_of_sequentially_failing_ops", nSeqErrAck), ("puts_with_client_checksum", nChecked),
              ("puts_that_must_be_rejected", nRejected)],
    samples := [String.intercalate ";" ((lines.filter fun l => l.startsWith "op " || l.startsWith "flush ").take 12 |>.map fun l => String.intercalate " " ((tokens l).take 5))]
  }

end C21Driver

def main : IO Unit := runDriver C21Driver.judgeCase
