/-
Driver for C38. Trace lines of one case (harness/cmd/verifharness/c38.go):

  cfg stack=<fs|sql> mode=<witness|clean> [name=<witness name>] [gen=<generator mode>]
                         clean: a history that avoids the recorded state-changing deviations — every
                         difference is reported under `C38.<op>.…`;  witness: a short directed history
                         that triggers one of them — its differences (the deviation and its visible
                         consequences) are reported under `C38.w-<name>.<op>.…` and the error model is not tied
  side c | side d        which side executes the next operation: c = S3ClientStorage → HTTP → pithos
                         server → stack A,  d = directly against the identical stack B
  op <name> <args…>      the operation (history language of s3hist.go), printed once per side
  res ok <fields…> | res err <Kind> [<hex message>] | res panic <hex>
  op lsvp <b> <n> / op lsp <b> <n>   ListObjectVersions / ListObjects read page by page with MaxKeys n,
                         following the returned markers; res ok <page>|<page>|…
  checkpoint             the following operations are the full-state sweep (listings, versions,
                         every key and version, tags)

Judge (the property): the two `res` lines of every operation must agree after canonicalisation;
what is canonicalised away is exactly what the S3 wire protocol cannot carry (see `normRes`).
Tie (error-kind model `Pithos.S3Client`, tables regenerated from s3client.go and handleError): the
kind observed through the client must be one the model admits for the kind the endpoint's storage
answered.
-/
import Pithos.Util.Proto
import Pithos.Util.S3Driver
import Pithos.Model.S3Client
open Pithos Pithos.Proto Pithos.S3 Pithos.S3Client

def kvTok (t : String) : String × String :=
  match t.splitOn "=" with
  | [a] => (a, "")
  | a :: rest => (a, String.intercalate "=" rest)
  | [] => ("", "")

def canonCls (v : String) : String := if v == "~" then "5354414e44415244" else v          -- nil ≡ "STANDARD"
def canonCt (v : String) : String :=
  if v == "~" || v == "-" then "6170706c69636174696f6e2f6f637465742d73747265616d" else v       -- nil ≡ "" ≡ application/octet-stream

/-- Canonical form of a `res` line for comparison: `(field, value)` pairs.
Dropped / identified because the S3 wire protocol does not carry them:
* `lm`   Last-Modified: the two stacks write at different instants, and the wire has 1 s resolution;
* `tags` on get/head: GetObject/HeadObject responses carry only `x-amz-tagging-count`; tag sets are
  compared through GetObjectTagging (`gtag`);
* `ct`   an object without (or with an empty) Content-Type is served as `application/octet-stream`;
* `cls`  an absent storage class and `STANDARD` are the same on the wire (listings always name a class,
  object responses omit the header for STANDARD);
* `lsv`  the order between versions and delete markers: ListObjectVersionsOutput carries them in two
  separate lists — entries are compared as a set (per-entry: key, version ordinal, IsLatest,
  delete-marker flag, size, class);
* error messages (only the kind is compared). -/
def normRes (op : String) (res : String) : List (String × String) :=
  match tokens res with
  | "res" :: "err" :: k :: _ => [("status", "err:" ++ k)]
  | "res" :: "panic" :: _ => [("status", "panic")]
  | "res" :: "ok" :: rest =>
    let base := [("status", "ok")]
    if op == "ls" then
      let items := (rest.headD "~").splitOn ","
      base ++ [("listing", String.intercalate "," (items.map fun it =>
        match it.splitOn ":" with
        | [k, sz, et, cls] => s!"{k}:{sz}:{et}:{canonCls cls}"
        | _ => it))]
    else if op == "lsv" then
      let items := (rest.headD "~").splitOn ","
      let canon := items.map fun it =>
        match it.splitOn ":" with
        | [k, vid, latest, dm, sz, _lm, cls] => s!"{k}:{vid}:{latest}:{dm}:{sz}:{canonCls cls}"
        | _ => it
      base ++ [("versions", String.intercalate "," (canon.mergeSort (· ≤ ·)))]
    else if op == "lsvp" then
      -- page by page; within a page the order between versions and delete markers is not carried
      let pages := (rest.headD "~").splitOn "|"
      base ++ [("version-pages", String.intercalate "|" (pages.map fun pg =>
        String.intercalate "," (((pg.splitOn ",").map fun it =>
          match it.splitOn ":" with
          | [k, vid, latest, dm, sz, _lm, cls] => s!"{k}:{vid}:{latest}:{dm}:{sz}:{canonCls cls}"
          | _ => it).mergeSort (· ≤ ·))))]
    else if op == "lsp" then
      let pages := (rest.headD "~").splitOn "|"
      base ++ [("listing-pages", String.intercalate "|" (pages.map fun pg =>
        String.intercalate "," ((pg.splitOn ",").map fun it =>
          match it.splitOn ":" with
          | [k, sz, et, cls] => s!"{k}:{sz}:{et}:{canonCls cls}"
          | _ => it)))]
    else if op == "lsb" then base ++ [("buckets", rest.headD "~")]
    else
      base ++ (rest.map kvTok).filterMap fun (f, v) =>
        if f == "lm" then none
        else if f == "tags" && (op == "get" || op == "head") then none
        else if f == "ct" then some (f, canonCt v)
        else if f == "cls" then some (f, canonCls v)
        else some (f, v)
  | _ => [("status", "unparsable")]

def kindOfStatus (s : String) : String := if s.startsWith "err:" then (s.drop 4).toString else s

def parseKind (k : String) : Err :=
  (allKinds.find? (·.toString == k)).getD .other

/-- The kinds the error model admits through the client, given what the endpoint's storage answered. -/
def admissible (op : String) (hasVid : Bool) (directStatus : String) : List String :=
  let t := genTables
  let ni := Gen.S3ClientMap.notImplemented
  if op == "app" && ni.contains ("AppendObject", "always") then ["Other"]
  else if op == "trans" && hasVid && ni.any (·.1 == "TransitionObjectStorageClass") then ["Other"]
  else if directStatus == "ok" then
    -- GetObject's HeadObject pre-flight ignores the version id: it may hit a delete marker / nothing
    if op == "get" && hasVid && Gen.S3ClientMap.getObjectHeadOptions == "nil" then ["ok", "NoSuchBucket"] else ["ok"]
  else
    let e := parseKind (kindOfStatus directStatus)
    let ms := methodsOfOp op
    let kinds : List Err :=
      if op == "get" then
        if hasVid && Gen.S3ClientMap.getObjectHeadOptions == "nil" then
          -- the pre-flight looks at the current version: it may pass (then GetObject itself fails) or hit a 404
          roundTrip t "GetObject" false e ++ roundTrip t "HeadObject" true .noSuchKey
        else roundTrip t "HeadObject" true e ++ roundTrip t "GetObject" false e
      else ms.flatMap fun (m, h) => roundTrip t m h e
    kinds.map (·.toString)

structure Pair where
  op : String
  line : String
  c : String
  d : String
  sweep : Bool

partial def collect (ls : List String) (sweep : Bool) (acc : Array Pair) : Array Pair × Bool :=
  match ls with
  | "side c" :: o1 :: r1 :: "side d" :: _o2 :: r2 :: rest =>
    let name := ((tokens o1).drop 1).headD "?"
    collect rest sweep (acc.push { op := name, line := o1, c := r1, d := r2, sweep := sweep })
  | "checkpoint" :: rest => collect rest true acc
  | l :: rest => if l.startsWith "cfg " then collect rest sweep acc else (acc, false)
  | [] => (acc, true)

def judgeCase (_k : Nat) (lines : List String) : Verdict := Id.run do
  let cfg := (lines.find? (fun l => l.startsWith "cfg ")).map tokens |>.getD []
  let mode := S3Driver.kvOf cfg "mode"
  let wname := S3Driver.kvOf cfg "name"
  let (pairs, wellFormed) := collect lines false #[]
  if !wellFormed then return { diverge := ["unparsable-trace"] }
  let mut div : List String := []
  let mut vio : List (String × String) := []
  let mut ndiff := 0
  let mut nerr := 0
  let mut okGets := 0
  let mut stats : List (String × Nat) := []
  let mut idx := 0
  for p in pairs do
    let nc := normRes p.op p.c
    let nd := normRes p.op p.d
    let sc := (nc.find? (·.1 == "status")).map (·.2) |>.getD "?"
    let sd := (nd.find? (·.1 == "status")).map (·.2) |>.getD "?"
    stats := addStats stats [("op_" ++ p.op, 1)]
    if sd.startsWith "err:" then
      nerr := nerr + 1
      stats := addStats stats [("direct_err_" ++ kindOfStatus sd, 1)]
    if p.op == "get" && sd == "ok" && sc == "ok" then okGets := okGets + 1
    if sc == "panic" then vio := vio ++ [(s!"C38.{p.op}.client-panicked", s!"op{idx}:{p.line.take 80}")]
    -- tie: error-kind model (in a witness case everything after the first difference is a consequence)
    let hasVid := (tokens p.line).any fun t => (t.startsWith "vid=" && t != "vid=~")
    let adm := admissible p.op hasVid sd
    if mode != "witness" && sc != "panic" && !adm.contains (kindOfStatus sc) then
      div := div ++ [s!"errmodel:op{idx}:{p.op}:direct={kindOfStatus sd},client={kindOfStatus sc},admissible={adm}"]
    -- judge
    if nc ≠ nd && sc != "panic" then
      ndiff := ndiff + 1
      let sigs : List (String × String) :=
        if sc ≠ sd then [(s!"C38.{p.op}.err.{kindOfStatus sd}-to-{kindOfStatus sc}", s!"op{idx}:{p.line.take 90}")]
        else if p.op == "get" && hasVid && (nc.find? (·.1 == "body")) == (nd.find? (·.1 == "body")) then
          -- the body is the requested version's, the attributes are not
          [("C38.get.version-attributes-from-current-version", s!"op{idx}:{p.line.take 90}")]
        else
          let fields := (nc.map (·.1) ++ nd.map (·.1)).eraseDups
          fields.filterMap fun f =>
            let a := (nc.find? (·.1 == f)).map (·.2)
            let b := (nd.find? (·.1 == f)).map (·.2)
            if a ≠ b then some (s!"C38.{p.op}.{f}-differs", s!"op{idx}:{p.line.take 90}:client={(a.getD "<absent>").take 60},direct={(b.getD "<absent>").take 60}")
            else none
      for s in sigs do
        -- (the missing PutObject version id is reported by the clean histories; in a witness it is noise)
        if mode == "witness" && s.1 == "C38.put.vid-differs" then continue
        let sig := if mode == "witness" then "C38.w-" ++ wname ++ (s.1.drop 3).toString else s.1
        if !vio.any (·.1 == sig) then vio := vio ++ [(sig, s.2)]
    idx := idx + 1
  return {
    diverge := div, violations := vio,
    nontrivial := pairs.size ≥ 20 && okGets ≥ 1,
    fingerprint := fpLines (lines.filter fun l => l.startsWith "op " || l.startsWith "cfg "),
    stats := addStats stats [("operations", pairs.size), ("operations_in_state_sweeps", (pairs.toList.countP (·.sweep))),
              ("direct_errors", nerr), ("result_differences", ndiff), ("mode_" ++ mode, 1)],
    samples := [String.intercalate ";" ((pairs.toList.take 4).map fun p => (p.line.take 60).toString)]
  }

/-- Every error-kind signature the regenerated error model predicts for a clean history: for each
operation, each kind its storage call can answer with (and success), each kind the model admits
through the client that differs. Used to keep known/C38.json in step with the model
(`drv_c38 --signatures`). -/
def predictedSignatures : List String :=
  let ops := ["mkb", "rmb", "ver", "put", "get", "head", "del", "cp", "mpu", "upp", "cmpl", "abort", "gtag", "ptag", "dtag", "ls", "lsv"]
  (ops.flatMap fun op =>
    let kinds := ((methodsOfOp op).reverse.head?.map fun m => relevantKinds m.1).getD []
    let directs := "ok" :: kinds.map fun e => "err:" ++ e.toString
    [false, true].flatMap fun hasVid =>
      if hasVid && !(op == "get" || op == "head" || op == "del" || op == "gtag" || op == "ptag" || op == "dtag") then [] else
      directs.flatMap fun d =>
        (admissible op hasVid d).filterMap fun c =>
          if c == kindOfStatus d then none else some s!"C38.{op}.err.{kindOfStatus d}-to-{c}").eraseDups

def main (args : List String) : IO Unit :=
  if args == ["--signatures"] then predictedSignatures.forM (fun s => IO.println s) *> pure ()
  else runDriver judgeCase
