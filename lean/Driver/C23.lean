/-
Driver for C23 (replicas converge to the primary). Trace of one case
(harness/cmd/verifharness/c23.go):

  cfg nsec=<n> kinds=…
  op <name> <args…>          s3hist op lines, plus
     op uppc <sb> <sk> <db> <dk> <u> <n> range=<a>-<b>|~
     op dels <b> <k1,k2,…|~>
  res ok … | res err <Kind> | res panic <hex>
  dump p <state>             the primary, read through its own storage API after the op
  dump s<i> <state>          every secondary, likewise

Per case the driver
 * TIE (a): steps `Replication.rstep Quirks.code` (primary = `S3.step Quirks.code`) on the same
   calls and compares what the caller got, field by field (`S3Driver.compareOut`);
 * TIE (b): renders the model's primary and secondary states and compares them with the dumps
   (this is what ties the *forwarding* described in Model/Replication.lean to replication.go);
 * JUDGE: after every successful call, the dump of each secondary must equal the dump of the
   primary: same buckets, same keys, same content (hash+size), content type, metadata, tags.
-/
import Pithos.Util.Proto
import Pithos.Util.S3Driver
import Pithos.Model.Replication

open Pithos Pithos.Proto Pithos.S3 Pithos.S3Ext Pithos.S3Driver Pithos.Replication

namespace C23

-- ---------------------------------------------------------------- ops

def parseRange (tok : String) : Option (Nat × Nat) :=
  if tok == "~" then none else
  match tok.splitOn "-" with
  | [a, b] => some (a.toNat!, b.toNat!)
  | _ => none

def parseXOp (c : Ctx) (line : String) : Option XOp :=
  let t := tokens line
  match t with
  | "op" :: "uppc" :: sb :: sk :: db :: dk :: u :: n :: _ =>
    some (.partCopy sb sk none db dk u.toNat! n.toNat! (parseRange (kvOf t "range")))
  | ["op", "dels", b, ks] => some (.delMany b (if ks == "~" then [] else ks.splitOn ","))
  | _ => (parseOp c line).map .base

/-- Compare the model's answer with the implementation's result line. -/
def compareX (c : Ctx) (out : XOut) (res : String) : Ctx × List String :=
  match out with
  | .base o => compareOut c o res
  | .many os =>
    match tokens res with
    | ["res", "ok", items] =>
      let its := if items == "~" then [] else items.splitOn ","
      -- per entry: Deleted is always true for unconditional entries; delete-marker flag as DeleteObject reports it
      let exp := os.map fun o => match o with
        | .deleted _ dm => if dm then "1:1" else "1:0"
        | .err e => "err:" ++ e.toString
        | _ => "?"
      let got := its.map fun it => match it.splitOn ":" with
        | [_, d, dm] => d ++ ":" ++ dm
        | _ => "unparsable"
      (c, if exp == got then [] else [s!"dels:model={exp},impl={got}"])
    | "res" :: "err" :: k :: _ => (c, [s!"model=ok,impl=err:{k}"])
    | _ => (c, [s!"shape:impl={res}"])

-- ---------------------------------------------------------------- dumps

def fnv64 (bs : List UInt8) : UInt64 :=
  bs.foldl (fun h b => (h ^^^ b.toUInt64) * 0x100000001b3) 0xcbf29ce484222325

def hex16 (x : UInt64) : String :=
  String.ofList ((List.range 16).map fun i => hexDigit ((x >>> (UInt64.ofNat (4 * (15 - i)))).toNat % 16))

structure Item where
  key : String          -- hex
  fields : List String  -- fnv, size, ct, md, tags[, sha]
  deriving BEq, Repr

abbrev Dump := List (String × List Item)

def parseDump (s : String) : Dump :=
  if s == "~" then [] else
  (s.splitOn ";").map fun b =>
    match b.splitOn "{" with
    | [name, rest] =>
      let inner := (rest.splitOn "}").headD ""
      (name, if inner == "" then [] else (inner.splitOn "+").map fun it =>
        match it.splitOn "=" with
        | [k, f] => { key := k, fields := f.splitOn "." }
        | _ => { key := it, fields := ["!unparsable"] })
    | _ => (b, [{ key := "!", fields := ["!unparsable"] }])

def renderNoSha (d : Dump) : String :=
  if d.isEmpty then "~" else
  String.intercalate ";" (d.map fun (n, its) =>
    n ++ "{" ++ String.intercalate "+" (its.map fun it => it.key ++ "=" ++ String.intercalate "." (it.fields.take 5)) ++ "}")

def strHex (s : String) : String := toHex (s.toList.map fun c => UInt8.ofNat c.toNat)

/-- The model state rendered like `c23Dump` renders a storage (without the SHA-256 field). -/
def modelDump (s : State) : String :=
  let obs := observe s
  if obs.isEmpty then "~" else
  String.intercalate ";" (obs.map fun (n, objs) =>
    n ++ "{" ++ String.intercalate "+" (objs.map fun o =>
      strHex o.key ++ "=" ++ hex16 (fnv64 o.body) ++ "." ++ toString o.body.length ++ "." ++ optTok o.ct ++ "."
        ++ pairsTok o.md ++ "." ++ pairsTok o.tags) ++ "}")

/-- First observable in which a secondary differs from the primary (`none` = they agree). -/
def firstDiff (p s : Dump) : Option String :=
  if p.map (·.1) != s.map (·.1) then some "buckets" else
  (p.zip s).foldl (fun (acc : Option String) ((_, pi), (_, si)) =>
    match acc with
    | some d => some d
    | none =>
      if pi.map (·.key) != si.map (·.key) then some "keys" else
      (pi.zip si).foldl (fun (acc : Option String) (a, b) =>
        match acc with
        | some d => some d
        | none =>
          if a.fields == b.fields then none
          else if a.fields.length != 6 || b.fields.length != 6 then some "unreadable"
          else if a.fields.getD 0 "" != b.fields.getD 0 "" || a.fields.getD 1 "" != b.fields.getD 1 ""
                  || a.fields.getD 5 "" != b.fields.getD 5 "" then some "content"
          else if a.fields.getD 2 "" != b.fields.getD 2 "" then some "content-type"
          else if a.fields.getD 3 "" != b.fields.getD 3 "" then some "metadata"
          else some "tags") none) none

-- ---------------------------------------------------------------- one case

structure Step where
  op : String
  res : String := ""
  dumps : List (String × String) := []   -- ("p" | "s<i>", state)

def groupSteps (lines : List String) : List Step := Id.run do
  let mut acc : Array Step := #[]
  for l in lines do
    if l.startsWith "op " then acc := acc.push { op := l }
    else if l.startsWith "res " then
      if h : acc.size > 0 then acc := acc.set (acc.size - 1) { acc[acc.size - 1] with res := l }
    else if l.startsWith "dump " then
      match tokens l with
      | ["dump", who, st] =>
        if h : acc.size > 0 then
          let cur := acc[acc.size - 1]
          acc := acc.set (acc.size - 1) { cur with dumps := cur.dumps ++ [(who, st)] }
      | _ => pure ()
  return acc.toList

def judgeCase (_k : Nat) (lines : List String) : Verdict := Id.run do
  let cfg := (lines.find? (·.startsWith "cfg")).map tokens |>.getD []
  let nsec := (kvOf cfg "nsec").toNat!
  let steps := groupSteps lines
  if steps.isEmpty then return { diverge := ["empty-or-unparsable-case"] }
  let mut ctx : Ctx := {}
  let mut rs : RState := Replication.init nsec
  let mut div : List String := []
  let mut vio : List (String × String) := []
  let mut stats : List (String × Nat) := []
  let mut idx := 0
  let mut nOk := 0
  let mut nErr := 0
  let mut nFwdOk := 0
  let mut multipartParts := 0
  let mut reported : List String := []     -- secondaries whose first divergence has been reported
  for st in steps do
    let name := (tokens st.op).getD 1 "?"
    match parseXOp ctx st.op with
    | none => div := div ++ [s!"op{idx}:unparsable:{st.op}"]
    | some op =>
      if op.namesVersion then div := div ++ [s!"op{idx}:history-names-a-version-id"]
      let (rs', ro) := rstep Quirks.code rs op
      -- TIE (a): the caller's result
      let (ctx', ms) := compareX ctx ro.out st.res
      if ro.mapMiss && !(st.res.startsWith "res panic") then
        div := div ++ [s!"op{idx}[{name}]:model-id-map-lookup-misses,impl-did-not-panic"]
      if !ms.isEmpty && div.length < 6 then div := div ++ [s!"op{idx}[{name}]:" ++ String.intercalate ";" ms]
      ctx := ctx'
      rs := rs'
      -- TIE (b): states
      for (who, dump) in st.dumps do
        let model : Option State :=
          if who == "p" then some rs.primary else rs.secs[(who.drop 1).toString.toNat!]?
        match model with
        | none => div := div ++ [s!"op{idx}:dump-of-unknown-storage-{who}"]
        | some m =>
          let a := modelDump m
          let b := renderNoSha (parseDump dump)
          if a != b && div.length < 6 then div := div ++ [s!"op{idx}[{name}]:state-of-{who}:model={a},impl={b}"]
      -- JUDGE
      let ok := st.res.startsWith "res ok"
      if st.res.startsWith "res panic" then
        vio := vio ++ [(s!"C23.panic.{name}", s!"op{idx}:the-replication-storage-panicked")]
      if ok then
        nOk := nOk + 1
        if forwarded op then nFwdOk := nFwdOk + 1
        match op with
        | .base (.uploadPart ..) | .partCopy .. => multipartParts := multipartParts + 1
        | _ => pure ()
        match st.dumps.find? (·.1 == "p") with
        | none => div := div ++ [s!"op{idx}:no-primary-dump"]
        | some (_, pd) =>
          let p := parseDump pd
          for (who, sd) in st.dumps.filter (·.1 != "p") do
            if !reported.contains who then
              match firstDiff p (parseDump sd) with
              | none => pure ()
              | some field =>
                reported := who :: reported
                vio := vio ++ [(s!"C23.{name}.{field}", s!"op{idx}:after-successful-{name}-secondary-{who}-differs-from-the-primary-in-{field}")]
          if (st.dumps.filter (·.1 != "p")).length != nsec then div := div ++ [s!"op{idx}:expected-{nsec}-secondary-dumps"]
      else nErr := nErr + 1
      stats := addStats stats [("op_" ++ name, 1)]
      if st.res.startsWith "res err" then stats := addStats stats [("err_" ++ (tokens st.res).getD 2 "?", 1)]
    idx := idx + 1
  return {
    diverge := div, violations := vio,
    nontrivial := nsec ≥ 1 && nFwdOk ≥ 5,
    fingerprint := fpLines (steps.map (·.op)),
    stats := stats ++ [("ops", steps.length), ("ok", nOk), ("err", nErr), ("forwarded_ok", nFwdOk),
                       ("parts_uploaded", multipartParts), ("secondaries", nsec), ("state_comparisons", nOk * nsec)],
    samples := [String.intercalate " ; " ((steps.take 8).map (·.op))]
  }

end C23

def main : IO Unit := runDriver C23.judgeCase
