/-
Driver for C33. Trace lines of one case:
  cfg <hex api endpoint> <hex website endpoint>
  api <hex bucket> <nil | =hex encoded key> <METHOD> <hex query>     one request, sent both ways
  skip <why>                                                          (the harness could not prepare it)
  p <status> <n> {<storage method> <nil|hex bucket> <nil|=hex key>}n  path style observation
  v <status> <n> {…}                                                  virtual-hosted observation
  site <hex host> <METHOD> <hex target>                               website / custom-domain request
  w <status> <n> {…}
(1) tie: `Pithos.VHost` (URL parsing, rewrite, EscapedPath, mux resolution, host routing) predicts
    redirect / bucket / (bucket,key) for each style — compared with status and recorded calls;
(2) judge: p-observation = v-observation; website/custom-domain requests reach read-only storage
    methods only.
-/
import Pithos.Util.Proto
import Pithos.Model.VHost
import Pithos.Spec.VHost
import Pithos.Gen.C33Routes
open Pithos Pithos.Proto Pithos.Ascii Pithos.VHost

/-- Which variant of the rewrite the tie compares against.
FLIP to `true` once fixes/C33-vhost-keep-trailing-slash.patch is committed in /repo. -/
def implRepaired : Bool := true

def unhexL (s : String) : List Char := ((unhex s).getD []).map fun b => Char.ofNat b.toNat

def optHex (t : String) : Option (List Char) :=
  if t == "nil" then none
  else if t.startsWith "=" then some (unhexL (t.drop 1).toString)
  else some (unhexL t)

structure Call where
  method : String
  bucket : Option (List Char)
  key : Option (List Char)
  deriving BEq

structure Obs where
  status : String
  calls : List Call
  deriving BEq

def parseCalls : List String → List Call
  | m :: b :: k :: r => { method := m, bucket := optHex b, key := optHex k } :: parseCalls r
  | _ => []

def parseObs (ts : List String) : Option Obs :=
  match ts with
  | _ :: st :: n :: r =>
    let cs := parseCalls r
    if cs.length == n.toNat! then some { status := st, calls := cs } else none
  | _ => none

def isRedirectStatus (s : String) : Bool := s == "301" || s == "307" || s == "308" || s == "302"

def showL (l : List Char) : String := String.ofList l

def showOutcome : Option Outcome → String
  | none => "bad-request"
  | some .redirect => "redirect"
  | some (.target .root) => "root"
  | some (.target (.bucket b)) => s!"bucket({showL b})"
  | some (.target (.object b k)) => s!"object({showL b},{showL k})"

def showObs (o : Obs) : String :=
  s!"{o.status}:" ++ String.intercalate "," (o.calls.map fun c =>
    s!"{c.method}({(c.bucket.map showL).getD "-"},{(c.key.map showL).getD "-"})")

/-- Does the observation fit the model's outcome? Returns a complaint or none. -/
def fits (m : Option Outcome) (o : Obs) : Option String :=
  match m with
  | none => if o.status == "bad" || (o.status == "400" && o.calls.isEmpty) then none else some "model=bad-request"
  | some .redirect =>
    if isRedirectStatus o.status && o.calls.isEmpty then none else some "model=redirect"
  | some (.target t) =>
    if o.status == "bad" then some s!"model={showOutcome m},impl=rejected-by-net/http"
    else if isRedirectStatus o.status then some s!"model={showOutcome m},impl=redirect"
    else match t with
      | .root => none
      | .bucket b =>
        if o.calls.all (fun c => (c.bucket == none || c.bucket == some b) && c.key == none) then none
        else some s!"model={showOutcome m}"
      | .object b k =>
        if o.calls.all (fun c => (c.bucket == none || c.bucket == some b) && (c.key == none || c.key == some k)) then none
        else some s!"model={showOutcome m}"

def judgeCase (_k : Nat) (lines : List String) : Verdict := Id.run do
  let (apiEp, webEp) := match lines.head?.map tokens with
    | some ["cfg", a, w] => (unhexL a, unhexL w)
    | _ => ([], [])
  if apiEp.isEmpty then return { diverge := ["unparsable-trace"] }
  let mut div : List String := []
  let mut vio : List (String × String) := []
  -- pending api op
  let mut cur : Option (List Char × Option (List Char) × String) := none
  let mut pObs : Option Obs := none
  let mut curSite : Option (List Char × String × List Char) := none
  let mut idx := 0
  let mut nApi := 0; let mut nActed := 0; let mut nRedirect := 0; let mut nSite := 0; let mut nSiteReads := 0
  let mut nSiteRefused := 0; let mut nApiControls := 0; let mut nTrailing := 0; let mut nEnc := 0; let mut nBucketLevel := 0; let mut nBad := 0
  for l in lines.drop 1 do
    let ts := tokens l
    match ts with
    | ["api", b, ek, meth, _q] =>
      cur := some (unhexL b, optHex ek, meth); pObs := none; idx := idx + 1
    | "skip" :: _ => cur := none
    | "p" :: _ =>
      match parseObs ts with
      | some o => pObs := some o
      | none => div := div ++ [s!"op{idx}:unparsable-p-line"]
    | "v" :: _ =>
      match cur, pObs, parseObs ts with
      | some (b, ek, _meth), some po, some vo =>
        nApi := nApi + 1
        let pRaw := match ek with | some e => pathObjTarget b e | none => '/' :: b
        let vRaw := match ek with | some e => vhostObjTarget e | none => ['/']
        let vHost := vhostHost b apiEp
        let mP := resolveTarget implRepaired apiEp apiEp pRaw
        let mV := resolveTarget implRepaired apiEp vHost vRaw
        -- tie
        match fits mP po with
        | some c => div := div ++ [s!"op{idx}:path-style:{c},impl={showObs po}"]
        | none => pure ()
        match fits mV vo with
        | some c => div := div ++ [s!"op{idx}:vhost-style:{c},impl={showObs vo}"]
        | none => pure ()
        -- stats
        if ek.isNone then nBucketLevel := nBucketLevel + 1
        if po.status == "bad" then nBad := nBad + 1
        if !po.calls.isEmpty then nActed := nActed + 1
        if isRedirectStatus po.status then nRedirect := nRedirect + 1
        match ek with
        | some e =>
          if e.getLast? == some '/' then nTrailing := nTrailing + 1
          if e.contains '%' then nEnc := nEnc + 1
        | none => pure ()
        -- judge: both ways must be the same action
        if po != vo then
          -- A mismatch is one of the two KNOWN kinds only if it is exactly what the model of the
          -- rewrite as it stands predicts: the model resolves the two spellings differently, each
          -- observation fits its prediction, and the shape is the known one. Anything else is new.
          let vDecodedEndsSlash := match (parseTarget vRaw) with
            | some u => u.path.length > 1 && u.path.getLast? == some '/'
            | none => false
          let explained := !implRepaired && mP != mV && (fits mP po).isNone && (fits mV vo).isNone
          let sg :=
            if explained && vDecodedEndsSlash then "C33.vhost-drops-trailing-slash"
            else if explained then "C33.vhost-stale-rawpath"
            else "C33.vhost-path-divergence"
          vio := vio ++ [(sg, s!"op{idx}:bucket={showL b},target={showL vRaw}:path-style={showObs po};vhost={showObs vo}")]
        cur := none
      | _, _, _ => div := div ++ [s!"op{idx}:unparsable-or-orphan-v-line"]
    | ["site", h, meth, t] => curSite := some (unhexL h, meth, unhexL t); idx := idx + 1
    | "w" :: _ =>
      match curSite, parseObs ts with
      | some (host, meth, target), some o =>
        nSite := nSite + 1
        let raw := target.takeWhile (· != '?')
        -- judge: a host that is not the API endpoint or a true subdomain of it never changes state
        let apiBySpec := Spec.isApiHost apiEp host
        if apiBySpec then nApiControls := nApiControls + 1
        else
          for c in o.calls do
            if !Spec.isReadOnly c.method then
              vio := vio ++ [("C33.website-request-mutates", s!"op{idx}:host={showL host},{meth} {showL target}:{showObs o}")]
        if !o.calls.isEmpty then nSiteReads := nSiteReads + 1
        -- tie
        match route apiEp webEp host, parseTarget raw with
        | .api, _ =>
          -- model: this host is served by the API mux (not constrained further here)
          if !apiBySpec then div := div ++ [s!"op{idx}:model-routes-non-api-host-to-api:{showL host}"]
        | _, none => if o.status != "bad" && o.status != "400" then div := div ++ [s!"op{idx}:site:model=bad-request,impl={showObs o}"]
        | fam, some u =>
          let bucket := match fam with | .website b => b | .custom b => b | .api => []
          let out := siteResolve bucket u
          if o.status == "bad" then pure ()   -- net/http refused the Host header / request line itself
          else if out == .redirect then
            if !(isRedirectStatus o.status && o.calls.isEmpty) then div := div ++ [s!"op{idx}:site:model=redirect,impl={showObs o}"]
          else if !Spec.safeHttpMethods.contains meth then
            nSiteRefused := nSiteRefused + 1
            if !(o.status == "405" && o.calls.isEmpty) then div := div ++ [s!"op{idx}:site:model=405,impl={showObs o}"]
          else
            let allowedCalls := Pithos.Gen.C33Routes.websiteStorageCalls.flatMap (·.2)
            if !(o.calls.all fun c => (c.bucket == none || c.bucket == some bucket) && allowedCalls.contains c.method) then
              div := div ++ [s!"op{idx}:site:model-bucket={showL bucket},calls-within-website-handlers,impl={showObs o}"]
        curSite := none
      | _, _ => div := div ++ [s!"op{idx}:unparsable-or-orphan-w-line"]
    | _ => div := div ++ [s!"unparsable-line:{l}"]
  return {
    diverge := div, violations := vio,
    nontrivial := nActed ≥ 1 || nSiteReads ≥ 1,
    fingerprint := fpLines lines,
    stats := [("api_request_pairs", nApi), ("pairs_reaching_storage", nActed), ("pairs_redirected", nRedirect),
              ("pairs_rejected_by_net_http", nBad), ("bucket_level_pairs", nBucketLevel),
              ("keys_with_trailing_slash", nTrailing), ("keys_percent_encoded", nEnc),
              ("site_requests", nSite), ("site_requests_reaching_storage", nSiteReads), ("site_requests_refused_405", nSiteRefused), ("site_matrix_api_host_controls", nApiControls)],
    samples := [String.intercalate ";" (lines.take 4)]
  }

def main : IO Unit := runDriver judgeCase
