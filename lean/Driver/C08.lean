/-
Driver for C08 (no referenced part content is ever deleted).  The trace protocol, the tie
(model `Pithos.Parts` vs implementation, `RefInv` on every observed state) and the judge live in
`Pithos.Model.PartsTrace`; this file only selects the C08 judge.
-/
import Pithos.Model.PartsTrace
open Pithos.Proto Pithos.PartsTrace
def main : IO Unit := runDriver (judgeCase .c08)
