/-
Driver for C17. Trace lines of one case (harness/cmd/verifharness/c17.go):

  cfg <d> <p> <stripe>
  content <hex>                 the part A; the other part B = A with every byte xor 0x5a
  orig <k> <len> <sha256>       what PutPart really wrote to shard store k
  fault <k> missing | trunc <n> | xor <off> <mask> | set <off> <hex> | foreign | misplaced <j> | append <hex>
  tx <0|1>
  read  <ok|err|nf> <bytes>     "=" = A, "=other" = B, "<n" = the first n bytes of A, else hex
  after <k> orig|absent|same|other <hex>
  read2 <ok|err|nf> <bytes>

Tie: the model (`Pithos.EC`, with the real Reed–Solomon code and SHA-256) must produce the same shard
streams as PutPart (length + SHA-256), and — given the same faults — the same read result, the same
shard contents after the healing read and the same second read.
Judge: the property itself. F = shards with a fault. |F| ≤ p ⇒ both reads return exactly A and every
MISSING shard is restored to its original content; |F| > p ⇒ every read returns A or fails.
-/
import Pithos.Util.Proto
import Pithos.Model.ErasureCoding
import Pithos.Model.ReedSolomon
import Pithos.Model.Sha256
open Pithos Pithos.Proto Pithos.Codec Pithos.EC

namespace C17

structure Fault where
  k : Nat
  kind : String
  a : Nat := 0
  b : Nat := 0
  data : Bytes := []

def parseFault (ts : List String) : Option Fault :=
  match ts with
  | ["fault", k, "missing"] => some { k := k.toNat!, kind := "missing" }
  | ["fault", k, "foreign"] => some { k := k.toNat!, kind := "foreign" }
  | ["fault", k, "misplaced", j] => some { k := k.toNat!, kind := "misplaced", a := j.toNat! }
  | ["fault", k, "trunc", n] => some { k := k.toNat!, kind := "trunc", a := n.toNat! }
  | ["fault", k, "xor", o, m] => some { k := k.toNat!, kind := "xor", a := o.toNat!, b := m.toNat! }
  | ["fault", k, "set", o, h] => (unhex h).map fun d => { k := k.toNat!, kind := "set", a := o.toNat!, data := d }
  | ["fault", k, "append", h] => (unhex h).map fun d => { k := k.toNat!, kind := "append", data := d }
  | _ => none

def setAt (bs : Bytes) (off : Nat) (d : Bytes) : Bytes :=
  (List.zip (List.range bs.length) bs).map fun (i, x) => if off ≤ i && i < off + d.length then d.getD (i - off) x else x

/-- the harness's fault application, on the model's shard streams -/
def applyFault (foreign orig : List Bytes) (st : List (Option Bytes)) (f : Fault) : List (Option Bytes) :=
  (List.zip (List.range st.length) st).map fun (k, s) =>
    if k != f.k then s else
    match f.kind, s with
    | "foreign", _ => some (foreign.getD k [])
    | "misplaced", _ => some (orig.getD f.a [])
    | _, none => none
    | "missing", _ => none
    | "trunc", some bs => some (bs.take f.a)
    | "xor", some bs => some ((List.zip (List.range bs.length) bs).map fun (i, x) => if i == f.a then x ^^^ UInt8.ofNat f.b else x)
    | "set", some bs => some (setAt bs f.a f.data)
    | "append", some bs => some (bs ++ f.data)
    | _, s => s

structure Layout where
  frameOff : List Nat
  payLen : List Nat

def layoutOf (c : Cfg) (n : Nat) : Layout := Id.run do
  let mut off := 15
  let mut rem := n
  let mut fo : List Nat := []
  let mut pl : List Nat := []
  for _ in [0:n + 1] do
    if rem > 0 then
      let x := min rem (c.d * c.stripe)
      let sl := shardLen c.d x
      fo := fo ++ [off]
      pl := pl ++ [sl]
      off := off + 48 + sl
      rem := rem - x
  return ⟨fo, pl⟩

/-- does a fault touch the `dataBytes` field of some frame header (and nothing else)? -/
def touchesOnlyDataBytes (l : Layout) (f : Fault) : Bool :=
  let lo := f.a
  let hi := f.a + (if f.kind == "set" then f.data.length else 1)
  (f.kind == "xor" || f.kind == "set") && l.frameOff.any fun o => o + 8 ≤ lo && hi ≤ o + 12

def showRes (r : String × Bytes) : String := s!"{r.1}[{r.2.length}]"

def hexOf (bs : Bytes) : String := toHex bs

def judgeCase (_k : Nat) (lines : List String) : Verdict := Id.run do
  let toks := lines.map tokens
  if let some p := toks.find? (fun t => t.head? == some "hang" || t.head? == some "panic") then
    return { violations := [("C17." ++ (if p.head? == some "hang" then "read-did-not-return" else "panic"), String.intercalate " " p)],
             fingerprint := fpLines lines }
  let some cfgT := toks.find? (·.head? == some "cfg") | return { diverge := ["unparsable-trace:cfg"] }
  let c : Cfg := match cfgT with
    | [_, d, p, s] => ⟨d.toNat!, p.toNat!, s.toNat!⟩
    | _ => ⟨1, 1, 1024⟩
  let some contentT := toks.find? (·.head? == some "content") | return { diverge := ["unparsable-trace:content"] }
  let some A := (contentT.getD 1 "-" |> unhex) | return { diverge := ["unparsable-trace:content-hex"] }
  let B : Bytes := A.map (· ^^^ 0x5a)
  let H := Sha256.sum
  let code := RS.code
  let n := c.n
  let origA := (List.range n).map fun k => shardStream c code H k A
  let origB := (List.range n).map fun k => shardStream c code H k B
  let mut div : List String := []
  let mut vio : List (String × String) := []
  -- tie on the writer side
  for t in toks do
    match t with
    | ["orig", k, len, sha] =>
      let s := origA.getD k.toNat! []
      if s.length != len.toNat! || (toHex (H s)) != sha then
        div := div ++ [s!"shard-{k}-stream:model-len={s.length},impl-len={len}"]
    | _ => pure ()
  let some faults := (toks.filter (·.head? == some "fault")).mapM parseFault | return { diverge := ["unparsable-trace:fault"] }
  let tx := (toks.find? (·.head? == some "tx")).map (·.getD 1 "0") == some "1"
  -- which repairs the tree under test carries (probed by the harness): selects the model variant for the tie
  let fixTok := (toks.find? (·.head? == some "fixes")).getD []
  let fx : Fix := { notFoundWhenAllMissing := fixTok.contains "ec=1", healParity := fixTok.contains "parity=1",
                    endWhenEnoughEnded := fixTok.contains "trail=1", failWhenTooFewOpen := fixTok.contains "fewopen=1" }
  let faulted := faults.foldl (applyFault origB origA) (origA.map some)
  -- the model's healing read
  let decode (t : List String) : Option (String × Bytes) :=
    match t with
    | [_, st, "="] => some (st, A)
    | [_, st, "=other"] => some (st, B)
    | [_, st, b] => if b.startsWith "<" then some (st, A.take (b.drop 1).toString.toNat!) else (unhex b).map fun x => (st, x)
    | _ => none
  let runRead (streams : List (Option Bytes)) : (String × Bytes) × List (Option Bytes) :=
    match read c code H fx streams with
    | .notFound => (("nf", []), streams)
    | .result r =>
      let after := (List.zip (List.range n) streams).map fun (k, s) =>
        if r.failed then
          -- filesystem shard stores: with a transaction the temp file is dropped, without one the partial write stays
          if tx then s else match r.partials.getD k none with
            | some h => some h
            | none => s
        else match r.heals.getD k none with
          | some h => some h
          | none => s
      ((if r.failed then "err" else "ok", r.out), after)
  let (m1, after1) := runRead faulted
  let (m2, _) := runRead after1
  let some i1 := (toks.find? (·.head? == some "read")).bind decode | return { diverge := ["unparsable-trace:read"] }
  let some i2 := (toks.find? (·.head? == some "read2")).bind decode | return { diverge := ["unparsable-trace:read2"] }
  if m1 != i1 then div := div ++ [s!"read:model={showRes m1},impl={showRes i1}"]
  if m2 != i2 then div := div ++ [s!"read2:model={showRes m2},impl={showRes i2}"]
  -- shard stores after the read
  let mut restoredBad : List Nat := []
  let faultyShards := (faults.map (·.k)).eraseDups
  let missingShards := (List.range n).filter fun k => (faulted.getD k none).isNone
  for t in toks do
    match t with
    | "after" :: k :: st :: rest =>
      let kk := k.toNat!
      let implAfter : Option Bytes := match st with
        | "orig" => some (origA.getD kk [])
        | "absent" => none
        | "same" => faulted.getD kk none
        | _ => (rest.head?.bind unhex)
      let modelAfter := after1.getD kk none
      if modelAfter != implAfter then
        div := div ++ [s!"after-{k}:model={(modelAfter.map (·.length))},impl={(implAfter.map (·.length))}"]
      if missingShards.contains kk && implAfter != some (origA.getD kk []) then restoredBad := restoredBad ++ [kk]
    | _ => pure ()
  -- judge
  let lay := layoutOf c A.length
  let hasDb := faults.any (fun f => touchesOnlyDataBytes lay f)
  let hasForeign := faults.any (·.kind == "foreign")
  let hasTrailer := faults.any (·.kind == "append")
  let hasMisplaced := faults.any (·.kind == "misplaced")
  let allDamaged := faultyShards.length == n
  let few := faultyShards.length ≤ c.p
  -- signatures: the kind of violation, narrowed by the one unhandled fault kind that explains it (if any)
  -- (`.every-shard-damaged` names the known defect — the stream ends cleanly where no shard shows a frame
  -- header any more — only when the model of that defect yields the same short read; a short read it does
  -- not explain keeps the bare signature)
  let judgeRead (tag : String) (r m : String × Bytes) : List (String × String) :=
    if r.1 == "ok" && r.2 == A then [] else
    if r.1 == "ok" then
      let trunc := r.2.length < A.length && r.2 == A.take r.2.length
      let sig :=
        if trunc then
          "C17.read-returned-truncated-part-without-error" ++
            (if allDamaged && m == r then ".every-shard-damaged" else if hasDb then ".frame-databytes-altered" else "")
        else
          "C17.read-returned-different-bytes" ++
            (if hasDb then ".frame-databytes-altered" else if hasForeign then ".foreign-shard"
             else if hasMisplaced then ".misplaced-shard" else "")
      [(sig, s!"{tag}:{faultyShards.length}-faulty-of-{n},p={c.p}:returned-{r.2.length}-bytes-instead-of-{A.length}")]
    else if few then
      [("C17.read-failed-with-at-most-parity-faults" ++ (if hasTrailer then ".trailing-bytes" else ""),
        s!"{tag}:{faultyShards.length}-faulty-of-{n},p={c.p}:{r.1}")]
    else []
  vio := vio ++ judgeRead "read" i1 m1 ++ judgeRead "read2" i2 m2
  if few && i1.1 == "ok" && !restoredBad.isEmpty then
    let par := restoredBad.all (· ≥ c.d)
    let sig := "C17.missing-shard-not-restored" ++
      (if hasDb then ".frame-databytes-altered" else if hasForeign then ".foreign-shard"
       else if par then ".parity-shard" else ".data-shard")
    vio := vio ++ [(sig, s!"shards-{restoredBad}-missing-before-the-read-are-not-the-original-afterwards")]
  let vio' := vio.foldl (fun acc v => if acc.any (·.1 == v.1) then acc else acc ++ [v]) []
  let kinds := (faults.map (·.kind)).eraseDups
  return {
    diverge := div.take 5, violations := vio',
    nontrivial := !faults.isEmpty,
    fingerprint := fpLines (lines.filter fun l => !(l.startsWith "orig ")),
    stats := [("faults", faults.length), (s!"faulty_shards_{faultyShards.length}", 1), (s!"cfg_{c.d}_{c.p}", 1),
              (if few then "at_most_parity" else "more_than_parity", 1), (s!"read_{i1.1}", 1), (if tx then "tx" else "notx", 1),
              (s!"model_variant_ec{if fx.notFoundWhenAllMissing then 1 else 0}_parity{if fx.healParity then 1 else 0}_trail{if fx.endWhenEnoughEnded then 1 else 0}_fewopen{if fx.failWhenTooFewOpen then 1 else 0}", 1)]
             ++ kinds.map fun kd => (s!"kind_{kd}", 1),
    samples := [String.intercalate ";" ((lines.filter fun l => l.startsWith "fault " || l.startsWith "cfg " || l.startsWith "read").map fun l => (l.take 50).toString)]
  }

end C17

def main : IO Unit := runDriver C17.judgeCase
